(* Executable model of node/pkg/processor: handleMessage, handleInjection, broadcastSignature, handleObservation,
   handleInboundSignedVAAWithQuorum, handleCleanup, and the Run loop's guardian-set update.  One atomic step per handler.
   The own-signature "fast path" goroutine is the explicit queue [loopq]; its delivery is the op [Loopback k].
   No proofs here. *)
From Coq Require Import List ZArith Bool Arith.
From Coq Require Import Strings.Byte.
From WH Require Import lib.Bytes gen.Extracted model.Vaa.
Import ListNotations.
Open Scope Z_scope.

Definition addr := bytes.
Record gset := { keys : list addr; gidx : Z }.
Record obs := { o_addr : bytes; o_hash : bytes; o_sig : bytes; o_tx : bytes }.

Definition vaaid := (Z * bytes * Z * Z)%type.   (* emitter chain, emitter address, target chain, sequence *)
Definition id_of (v : vaa) : vaaid := (echain v, eaddr v, tchain v, seq v).
Definition id_eqb (a b : vaaid) : bool :=
  let '(c1, a1, t1, s1) := a in let '(c2, a2, t2, s2) := b in
  (c1 =? c2) && bytes_eqb a1 a2 && (t1 =? t2) && (s1 =? s2).

(* [from_chain] is a ghost field (no control flow reads it): the entry's VAA came from a chain observation, not an injection *)
Record entry := { first_seen : Z; our_vaa : option vaa; our_msg : option obs; txh : bytes; gs_snap : option gset;
                  esigs : list (addr * bytes); submitted : bool; settled : bool; retries : Z; last_retry : option Z;
                  from_chain : bool }.

Definition set_esigs (e : entry) (x : list (addr * bytes)) : entry :=
  {| first_seen := first_seen e; our_vaa := our_vaa e; our_msg := our_msg e; txh := txh e; gs_snap := gs_snap e; esigs := x;
     submitted := submitted e; settled := settled e; retries := retries e; last_retry := last_retry e; from_chain := from_chain e |}.
Definition set_submitted (e : entry) : entry :=
  {| first_seen := first_seen e; our_vaa := our_vaa e; our_msg := our_msg e; txh := txh e; gs_snap := gs_snap e; esigs := esigs e;
     submitted := true; settled := settled e; retries := retries e; last_retry := last_retry e; from_chain := from_chain e |}.
Definition set_settled (e : entry) : entry :=
  {| first_seen := first_seen e; our_vaa := our_vaa e; our_msg := our_msg e; txh := txh e; gs_snap := gs_snap e; esigs := esigs e;
     submitted := submitted e; settled := true; retries := retries e; last_retry := last_retry e; from_chain := from_chain e |}.
Definition set_retried (e : entry) (now : Z) : entry :=
  {| first_seen := first_seen e; our_vaa := our_vaa e; our_msg := our_msg e; txh := txh e; gs_snap := gs_snap e; esigs := esigs e;
     submitted := submitted e; settled := settled e; retries := retries e + 1; last_retry := Some now; from_chain := from_chain e |}.
Definition set_own (e : entry) (v : vaa) (o : obs) (tx : bytes) (g : option gset) (chain : bool) : entry :=
  {| first_seen := first_seen e; our_vaa := Some v; our_msg := Some o; txh := tx; gs_snap := g; esigs := esigs e;
     submitted := submitted e; settled := settled e; retries := retries e; last_retry := last_retry e; from_chain := chain |}.

Record pstate := { cur : option gset; agg : list (bytes * entry); db : list (vaaid * bytes); loopq : list obs; clock : Z }.

Definition init : pstate := {| cur := None; agg := []; db := []; loopq := []; clock := 0 |}.

Inductive op := SetGS (g : gset) | SetClock (t : Z) | LocalMsg (m : msgpub) | Inject (v : vaa) | Obs (o : obs)
              | Loopback (k : nat) | InboundVAA (b : bytes) | Cleanup.

Inductive pwhy := PanicStoredUnmarshal | PanicSigLen | PanicNilGuardianSet | PanicStoreUnsigned.
Inductive out := SendObs (o : obs) | SendVAA (b : bytes) | Store (i : vaaid) (b : bytes) | ObsReq (chain : Z) (tx : bytes)
               | Spawn (o : obs) | Panic (why : pwhy).

(* association lists: first match wins; [aset] keeps keys unique *)
Fixpoint alookup {V} (k : bytes) (m : list (bytes * V)) : option V :=
  match m with [] => None | (k', v) :: t => if bytes_eqb k k' then Some v else alookup k t end.
Definition aremove {V} (k : bytes) (m : list (bytes * V)) : list (bytes * V) :=
  filter (fun p => negb (bytes_eqb k (fst p))) m.
Definition aset {V} (k : bytes) (v : V) (m : list (bytes * V)) : list (bytes * V) := (k, v) :: aremove k m.
Fixpoint dlookup (i : vaaid) (m : list (vaaid * bytes)) : option bytes :=
  match m with [] => None | (i', b) :: t => if id_eqb i i' then Some b else dlookup i t end.

Definition set_sigs (v : vaa) (ss : list sig) : vaa :=
  {| version := version v; gsidx := gsidx v; sigs := ss; ts := ts v; tns := tns v; nonce := nonce v; echain := echain v;
     tchain := tchain v; eaddr := eaddr v; seq := seq v; cl := cl v; payload := payload v |}.

(* the aggregation loop of handleObservation: for i, a := range gs.Keys; Index: uint8(i); a short signature panics *)
Fixpoint assemble (ks : list addr) (i : Z) (es : list (addr * bytes)) : option (list sig) :=
  match ks with
  | [] => Some []
  | a :: t =>
    match alookup a es with
    | Some s =>
      if (length s <? 65)%nat then None else
      match assemble t (i + 1) es with
      | Some r => Some ({| s_idx := i mod 256; s_data := firstn 65 s |} :: r)
      | None => None
      end
    | None => assemble t (i + 1) es
    end
  end.

Definition memb (a : addr) (l : list addr) : bool := existsb (bytes_eqb a) l.

Definition new_entry (now : Z) : entry :=
  {| first_seen := now; our_vaa := None; our_msg := None; txh := []; gs_snap := None; esigs := []; submitted := false;
     settled := false; retries := 0; last_retry := None; from_chain := false |}.

Section Proc.
Variable recover : bytes -> bytes -> option bytes.   (* secp256k1 recovery + keccak + last 20 bytes (after go-ethereum's argument checks) *)
Variable keccak : bytes -> bytes.
Variable sign : bytes -> bytes.                       (* guardianSigner.Sign *)
Variable own : addr.                                  (* crypto.PubkeyToAddress(guardianSigner.PublicKey()) *)
Variable gov_chain : Z.
Variable gov_addr : bytes.

Definition rec (h s : bytes) : option bytes := recover_checked recover h s.
Definition dg (v : vaa) : bytes := digest keccak v.

Definition with_agg (st : pstate) (a : list (bytes * entry)) : pstate :=
  {| cur := cur st; agg := a; db := db st; loopq := loopq st; clock := clock st |}.

(* broadcastSignature *)
Definition broadcast_signature (st : pstate) (v : vaa) (s : bytes) (tx : bytes) (chain : bool) : pstate * list out :=
  let d := dg v in
  let o := {| o_addr := own; o_hash := d; o_sig := s; o_tx := tx |} in
  let e0 := match alookup d (agg st) with Some e => e | None => new_entry (clock st) end in
  ({| cur := cur st; agg := aset d (set_own e0 v o tx (cur st) chain) (agg st); db := db st; loopq := loopq st ++ [o]; clock := clock st |},
   [SendObs o; Spawn o]).

(* handleMessage *)
Definition handle_message (st : pstate) (m : msgpub) : pstate * list out :=
  match cur st with
  | None => (st, [])
  | Some g =>
    let v := vaa_of_message (gidx g) m in
    if bytes_eqb (eaddr v) gov_addr && (echain v =? gov_chain) then (st, []) else
    let go := broadcast_signature st v (sign (dg v)) (m_tx m) true in
    match dlookup (id_of v) (db st) with
    | Some vb =>
      match unmarshal vb with
      | Err _ => if proc_stored_unmarshal_failure_panics then (st, [Panic PanicStoredUnmarshal]) else go
      | Ok ex =>
        if proc_settlement_ns <? (m_ts m * ns_second + m_tns m) - (ts ex * ns_second + tns ex) then (st, []) else go
      end
    | None => go
    end
  end.

(* handleInjection *)
Definition handle_injection (st : pstate) (v : vaa) : pstate * list out :=
  broadcast_signature st v (sign (dg v)) [] false.

(* handleObservation *)
Definition handle_obs (st : pstate) (o : obs) : pstate * list out :=
  match rec (o_hash o) (o_sig o) with
  | None => (st, [])
  | Some pk =>
    let their := bytes_to_address (o_addr o) in
    if negb (bytes_eqb their pk) then (st, []) else
    let e := alookup (o_hash o) (agg st) in
    let gs := match e with
              | Some e' => match gs_snap e' with Some g => Some g | None => cur st end
              | None => cur st end in
    match gs with
    | None => (st, [])
    | Some g =>
      if negb (memb their (keys g)) then (st, []) else
      let e0 := match e with Some e' => e' | None => new_entry (clock st) end in
      let e1 := set_esigs e0 (aset their (o_sig o) (esigs e0)) in
      match assemble (keys g) 0 (esigs e1) with
      | None => (with_agg st (aset (o_hash o) e1 (agg st)), [Panic PanicSigLen])
      | Some sg =>
        match our_vaa e1 with
        | Some v =>
          if proc_local_quorum_reached (go_quorum (Z.of_nat (length (keys g)))) (Z.of_nat (length sg)) && negb (submitted e1) then
            let signed := set_sigs v sg in
            match sg with
            | [] => (with_agg st (aset (o_hash o) e1 (agg st)), [Panic PanicStoreUnsigned])
            | _ =>
              ({| cur := cur st; agg := aset (o_hash o) (set_submitted e1) (agg st); db := (id_of signed, marshal signed) :: db st;
                  loopq := loopq st; clock := clock st |},
               [Store (id_of signed) (marshal signed); SendVAA (marshal signed)])
            end
          else (with_agg st (aset (o_hash o) e1 (agg st)), [])
        | None => (with_agg st (aset (o_hash o) e1 (agg st)), [])
        end
      end
    end
  end.

(* handleInboundSignedVAAWithQuorum *)
Definition handle_inbound (st : pstate) (b : bytes) : pstate * list out :=
  match unmarshal b with
  | Err _ => (st, [])
  | Ok v =>
    match cur st with
    | None => (st, [])
    | Some g =>
      if (length (keys g) =? 0)%nat then (st, []) else
      if (length (sigs v) =? 0)%nat then (st, []) else
      if proc_inbound_below_quorum (Z.of_nat (length (sigs v))) (go_quorum (Z.of_nat (length (keys g)))) then (st, []) else
      if negb (verify_sigs rec keccak v (keys g)) then (st, []) else
      match dlookup (id_of v) (db st) with
      | Some _ => (st, [])
      | None => ({| cur := cur st; agg := agg st; db := (id_of v, marshal v) :: db st; loopq := loopq st; clock := clock st |},
                 [Store (id_of v) (marshal v)])
      end
    end
  end.

(* handleCleanup, one entry.  None = entry deleted. *)
Inductive cres := CKeep (e : entry) (o : list out) | CDelete | CPanic.

Definition cleanup_entry (now : Z) (in_db : bool) (cur_known : bool) (e : entry) : cres :=
  let delta := now - first_seen e in
  let has_vaa := match our_vaa e with Some _ => true | None => false end in
  let has_msg := match our_msg e with Some _ => true | None => false end in
  if negb (submitted e) && has_vaa && (proc_settlement_ns <? delta) && in_db then CDelete else
  if negb (settled e) && (proc_settlement_ns <? delta) then
    if (match gs_snap e with Some _ => true | None => false end) || cur_known || proc_cleanup_nil_gs_guarded
    then CKeep (set_settled e) [] else CPanic
  else if submitted e && (proc_submitted_expiry_ns <=? delta) then CDelete
  else if negb (submitted e) && ((has_msg && (proc_own_retry_budget <=? retries e)) || (negb has_msg && (proc_nil_retry_budget <=? retries e))) then CDelete
  else if negb (submitted e) && (proc_retry_after_ns <=? delta) &&
          (match last_retry e with None => true | Some t => proc_retry_ns <=? now - t end) then
    match our_msg e with
    | Some o =>
      let chain := match our_vaa e with Some v => echain v mod 2 ^ 32 | None => 0 end in
      CKeep (set_retried e now) [ObsReq chain (txh e); SendObs o]
    | None => if negb cur_known && proc_cleanup_nil_branch_uses_cur then CPanic else CDelete
    end
  else CKeep e [].

Definition in_db_of (st : pstate) (e : entry) : bool :=
  match our_vaa e with Some v => match dlookup (id_of v) (db st) with Some _ => true | None => false end | None => false end.

Fixpoint cleanup_all (st : pstate) (now : Z) (l : list (bytes * entry)) : list (bytes * entry) * list out :=
  match l with
  | [] => ([], [])
  | (h, e) :: t =>
    let '(t', o') := cleanup_all st now t in
    match cleanup_entry now (in_db_of st e) (match cur st with Some _ => true | None => false end) e with
    | CKeep e' o => ((h, e') :: t', o ++ o')
    | CDelete => (t', o')
    | CPanic => ((h, e) :: t', Panic PanicNilGuardianSet :: o')
    end
  end.

(* the tick is handled one nanosecond after the clock value the history set (real time always advances) *)
Definition handle_cleanup (st : pstate) : pstate * list out :=
  let '(a, o) := cleanup_all st (clock st + 1) (agg st) in (with_agg st a, o).

Definition step (st : pstate) (o : op) : pstate * list out :=
  match o with
  | SetGS g => ({| cur := Some g; agg := agg st; db := db st; loopq := loopq st; clock := clock st |}, [])
  | SetClock t => ({| cur := cur st; agg := agg st; db := db st; loopq := loopq st; clock := t |}, [])
  | LocalMsg m => handle_message st m
  | Inject v => handle_injection st v
  | Obs ob => handle_obs st ob
  | Loopback k =>
    match nth_error (loopq st) k with
    | None => (st, [])
    | Some ob =>
      handle_obs {| cur := cur st; agg := agg st; db := db st; loopq := firstn k (loopq st) ++ skipn (S k) (loopq st); clock := clock st |} ob
    end
  | InboundVAA b => handle_inbound st b
  | Cleanup => handle_cleanup st
  end.

Fixpoint run (st : pstate) (ops : list op) : pstate * list (list out) :=
  match ops with
  | [] => (st, [])
  | o :: t => let '(st1, out1) := step st o in let '(st2, outs) := run st1 t in (st2, out1 :: outs)
  end.
End Proc.
