(* Glue for the differential check of C10 (run/cases_C10_*.v): replays the operations the real Watcher.Run observed on the
   model and compares, step group by step group, the forwarded messages (multiset), the keys of w.pending (set) and the
   receipt requests of every head (multiset of tx ids).  No theorem depends on this file. *)
From Coq Require Import List ZArith Bool.
From WH Require Import gen.Extracted model.EvmWatcher.
Import ListNotations.
Open Scope Z_scope.

Inductive cop :=
| COp (o : op)
| CHead (n : Z) (lks : list (Z * rans)).     (* head n; the receipt answers the node served during this scan, by tx id *)

(* operations of one harness step, messages taken from msgChan afterwards, keys of w.pending afterwards *)
Definition cgroup := (list cop * list msg * list key)%type.

Fixpoint assoc (x : Z) (l : list (Z * rans)) : option rans :=
  match l with [] => None | (y, a) :: t => if x =? y then Some a else assoc x t end.

(* an entry the implementation did not ask about gets an answer that keeps it; the request multisets then differ *)
Definition orc_of (lks : list (Z * rans)) (k : key) : rans :=
  match assoc (k_tx k) lks with Some a => a | None => mkAns None EOther end.

Fixpoint insert_sorted (x : Z) (l : list Z) : list Z :=
  match l with [] => [x] | y :: t => if x <=? y then x :: l else y :: insert_sorted x t end.
Definition sortz (l : list Z) : list Z := fold_right insert_sorted [] l.
Fixpoint eqzl (a b : list Z) : bool :=
  match a, b with [] , [] => true | x :: s, y :: t => (x =? y) && eqzl s t | _, _ => false end.

Fixpoint remove_msg (m : msg) (l : list msg) : option (list msg) :=
  match l with
  | [] => None
  | x :: t => if msg_eqb m x then Some t else match remove_msg m t with Some r => Some (x :: r) | None => None end
  end.
Fixpoint same_msgs (a b : list msg) : bool :=
  match a with
  | [] => match b with [] => true | _ => false end
  | m :: t => match remove_msg m b with Some b' => same_msgs t b' | None => false end
  end.

Definition mem_key (k : key) (l : list key) : bool := existsb (key_eqb k) l.
Definition same_keys (a b : list key) : bool :=
  (Nat.eqb (length a) (length b)) && forallb (fun k => mem_key k b) a && forallb (fun k => mem_key k a) b.

Definition fwd_of (o : out) : list msg := match o with Confirmed _ m => [m] | Reobserved m => [m] | _ => [] end.
Definition looked_of (o : out) : list Z := match o with Looked k => [k_tx k] | _ => [] end.
Definition bad_of (o : out) : bool := match o with Died | Panic => true | _ => false end.

(* one operation: new state, forwarded messages, ok (request multiset agrees, no Died / Panic) *)
Definition cstep (c : cfg) (s : pending) (o : cop) : pending * list msg * bool :=
  match o with
  | COp o =>
    let r := step c s o in
    (fst r, flat_map fwd_of (snd r), negb (existsb bad_of (snd r)))
  | CHead n lks =>
    let r := step c s (OHead n evm_poll_safe (orc_of lks)) in
    (fst r, flat_map fwd_of (snd r),
     negb (existsb bad_of (snd r)) && eqzl (sortz (flat_map looked_of (snd r))) (sortz (map fst lks)))
  end.

Fixpoint cops (c : cfg) (s : pending) (os : list cop) : pending * list msg * bool :=
  match os with
  | [] => (s, [], true)
  | o :: t =>
    let '(s1, f1, b1) := cstep c s o in
    let '(s2, f2, b2) := cops c s1 t in
    (s2, f1 ++ f2, b1 && b2)
  end.

Fixpoint cgroups (c : cfg) (s : pending) (gs : list cgroup) : bool :=
  match gs with
  | [] => true
  | (os, fw, pend) :: t =>
    let '(s1, f1, b1) := cops c s os in
    b1 && same_msgs f1 fw && same_keys (keys s1) pend && cgroups c s1 t
  end.

Definition check_history (c : cfg) (gs : list cgroup) : bool := cgroups c init gs.

(* ------------------------------------------------------------------ poller cases: first lastBlock, then per poll the answer and what
   the real pollBlocks returned / published: (lastBlock', published (number, Safe), error) *)
Fixpoint eqpub (a b : list (Z * bool)) : bool :=
  match a, b with
  | [], [] => true
  | (x, sf) :: s, (y, sf') :: t => (x =? y) && Bool.eqb sf sf' && eqpub s t
  | _, _ => false
  end.
Fixpoint check_polls (last : Z) (steps : list (option Z * (Z * list (Z * bool) * bool))) : bool :=
  match steps with
  | [] => true
  | (a, (l', pub, err)) :: t =>
    let r := poll_blocks last a in
    (fst (fst r) =? l') && eqpub (snd (fst r)) pub && Bool.eqb (snd r) err && check_polls (fst (fst r)) t
  end.
