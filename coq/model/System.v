(* System-level composition: ONE model of the guardian network built from the component models.
     - N guardian nodes, each a [Processor.pstate] with its own signer / own address, stepped by the UNCHANGED [Processor.step];
     - an adversarial network: a step is an environment input to one node (chain message from a watcher, guardian-set update,
       operator injection, clock, cleanup tick), the delivery to one node of ANY gossip item — one that some node emitted earlier
       (any order, any number of times, or never) or an arbitrary adversary-made observation / VAA byte string —, or the delivery
       of a node's own signature (loopback);
     - the downstream consumers of a published VAA: public-RPC lookup over the node's store (Db.v), the explorer's push gate
       (Explorer.v), the spy's Publish plan (Spy.v), the contract-side parsers and quorum tests (Contracts.v + extracted formulas).
   The wiring the composition assumes ([system_wiring]) is compared with the wiring read from node.go on every run
   (gen/x_wiring.py -> gen/ExtractedWiring.v; proofs/SystemProofs.v, [wiring_matches]).  No proofs here. *)
From Coq Require Import List ZArith Bool Arith.
From Coq Require Import Strings.Byte.
From WH Require Import lib.Bytes gen.Extracted gen.ExtractedWiring model.Vaa model.Processor.
From WH Require model.Db model.Explorer model.Spy model.Contracts.
Import ListNotations.
Open Scope Z_scope.

(* ------------------------------------------------------------------ the wiring of one node, as the model assumes it *)
Definition system_wiring : wiring :=
  {| w_message := [WEthWatcher; WBscWatcher; WAlphWatcher];     (* LocalMsg: every watcher, and nobody else *)
     w_setgs := [WEthWatcher; WBscWatcher];                      (* SetGS: the EVM watchers only *)
     w_inject := [WAdmin];                                       (* Inject: the admin socket only *)
     w_observation := [WP2P; WProcessor];                        (* Obs: gossip; Loopback: the processor's own goroutine *)
     w_inbound := [WP2P; WAdmin];                                (* InboundVAA: gossip, and the admin backfill *)
     w_gossip_out := ([WProcessor], [WP2P]);                     (* SendObs / SendVAA leave through p2p only *)
     w_reobs_out := ([WAdmin; WProcessor], [WP2P]);              (* ObsReq *)
     w_reobs_in := ([WP2P], [WReobserve]);
     w_chain_reobs := [(2, [WReobserve], [WEthWatcher]); (4, [WReobserve], [WBscWatcher]); (255, [WReobserve], [WAlphWatcher])] |}.
Definition system_consumers : list wconsumer := [CExplorerUnmarshalThenPush; CSpyPublishRawBytes].

(* ------------------------------------------------------------------ the network *)
Inductive gossip := GObs (o : obs) | GVaa (b : bytes).

(* what a node's step puts on the wire (processor sendC -> p2p) *)
Definition gossip_of (x : out) : list gossip :=
  match x with SendObs o => [GObs o] | SendVAA b => [GVaa b] | _ => [] end.
(* how p2p hands a received item to the processor (obsvC / signedInC) *)
Definition op_of_gossip (g : gossip) : op := match g with GObs o => Obs o | GVaa b => InboundVAA b end.

(* inputs that do not come from the network *)
Inductive envop := ESetGS (g : gset) | EClock (t : Z) | EMsg (m : msgpub) | EInject (v : vaa) | ECleanup.
Definition op_of_env (e : envop) : op :=
  match e with ESetGS g => SetGS g | EClock t => SetClock t | EMsg m => LocalMsg m | EInject v => Inject v | ECleanup => Cleanup end.

Inductive nop :=
| NEnv (i : nat) (e : envop)        (* environment input to node i *)
| NDeliver (i : nat) (k : nat)      (* node i receives the k-th item ever put on the wire (no effect if there is no such item yet) *)
| NAdv (i : nat) (g : gossip)       (* node i receives an item the adversary made *)
| NLoop (i : nat) (k : nat).        (* node i's own-signature goroutine k delivers *)

Definition target (x : nop) : nat := match x with NEnv i _ | NDeliver i _ | NAdv i _ | NLoop i _ => i end.

(* which components of the real node can cause this kind of step (read off [system_wiring]) *)
Definition producers (x : nop) : list wcomp :=
  match x with
  | NEnv _ (EMsg _) => w_message system_wiring
  | NEnv _ (ESetGS _) => w_setgs system_wiring
  | NEnv _ (EInject _) => w_inject system_wiring
  | NEnv _ (EClock _) | NEnv _ ECleanup => []                    (* the processor's own ticker / the passage of time *)
  | NDeliver _ _ => snd (w_gossip_out system_wiring)
  | NAdv _ (GObs _) => [WP2P]
  | NAdv _ (GVaa _) => w_inbound system_wiring
  | NLoop _ _ => [WProcessor]
  end.

Record net := { nodes : list pstate; pool : list gossip }.
Definition ninit (n : nat) : net := {| nodes := repeat init n; pool := [] |}.

Fixpoint set_nth {A} (i : nat) (x : A) (l : list A) : list A :=
  match l, i with
  | [], _ => []
  | _ :: t, O => x :: t
  | a :: t, S j => a :: set_nth j x t
  end.

Section Net.
Variable recover : bytes -> bytes -> option bytes.
Variable keccak : bytes -> bytes.
Variable gov_chain : Z.
Variable gov_addr : bytes.
Variable owns : nat -> addr.                 (* node i's guardian address *)
Variable signs : nat -> bytes -> bytes.      (* node i's signer *)

Definition node_step (i : nat) : pstate -> op -> pstate * list out :=
  Processor.step recover keccak (signs i) (owns i) gov_chain gov_addr.
Definition node_run (i : nat) : pstate -> list op -> pstate * list (list out) :=
  Processor.run recover keccak (signs i) (owns i) gov_chain gov_addr.

(* the processor input a network step amounts to: None = nothing happens (no such item on the wire yet) *)
Definition resolve (n : net) (x : nop) : option (nat * op) :=
  match x with
  | NEnv i e => Some (i, op_of_env e)
  | NDeliver i k => match nth_error (pool n) k with Some g => Some (i, op_of_gossip g) | None => None end
  | NAdv i g => Some (i, op_of_gossip g)
  | NLoop i k => Some (i, Loopback k)
  end.

Definition nstep (n : net) (x : nop) : net * list out :=
  match resolve n x with
  | None => (n, [])
  | Some (i, o) =>
    match nth_error (nodes n) i with
    | None => (n, [])
    | Some st =>
      let '(st', outs) := node_step i st o in
      ({| nodes := set_nth i st' (nodes n); pool := pool n ++ flat_map gossip_of outs |}, outs)
    end
  end.

Fixpoint nrun (n : net) (xs : list nop) : net * list (list out) :=
  match xs with
  | [] => (n, [])
  | x :: t => let '(n1, o1) := nstep n x in let '(n2, os) := nrun n1 t in (n2, o1 :: os)
  end.

(* the history as each node sees it: the resolved inputs, in order, tagged with the node they went to *)
Fixpoint trace (n : net) (xs : list nop) : list (nat * op) :=
  match xs with
  | [] => []
  | x :: t =>
    match resolve n x with
    | Some (i, o) => if (i <? length (nodes n))%nat then (i, o) :: trace (fst (nstep n x)) t else trace (fst (nstep n x)) t
    | None => trace (fst (nstep n x)) t
    end
  end.
Definition ops_of (i : nat) (tr : list (nat * op)) : list op := map snd (filter (fun p => (fst p =? i)%nat) tr).
End Net.

(* ------------------------------------------------------------------ downstream consumers *)
(* (a) public RPC: publicrpcserver.go reads the node's badger store.  The processor model keeps the store as a newest-first list;
   badger is the ordered key/value store of Db.v: replay the writes oldest first. *)
Definition vid_of (i : vaaid) : Db.vid :=
  let '(c, a, t, s) := i in {| Db.i_ec := c; Db.i_ea := a; Db.i_tc := t; Db.i_seq := s |}.
Definition db_store (d : list (vaaid * bytes)) : Db.store :=
  fold_right (fun p s => Db.put s (Db.key (vid_of (fst p))) (snd p)) [] d.
Definition serve (st : pstate) (ec : Z) (ahex : bytes) (tc sq : Z) : Db.rpcres bytes :=
  Db.rpc_get_signed_vaa (db_store (db st)) ec ahex tc sq.

(* (b) explorer: main.go unmarshals the gossiped bytes and hands (VAA, bytes) to Push; undecodable bytes are dropped *)
Section Consumers.
Variable recover : bytes -> bytes -> option bytes.
Variable keccak : bytes -> bytes.
Variable chain : Z -> Z -> option (list Explorer.gset).
Variable qcap : nat.

Definition explorer_ingest (st : Explorer.pstate) (b : bytes) : Explorer.pstate * option Explorer.pres :=
  match unmarshal b with
  | Err _ => (st, None)
  | Ok v => let '(st', r, _) := Explorer.push (recover_checked recover) keccak chain qcap st (v, b) in (st', Some r)
  end.

(* the explorer's list holds the processor-side set g at the position g names *)
Definition explorer_knows (s : Explorer.store) (g : gset) : Prop :=
  gidx g <= Explorer.cur s /\
  Explorer.nth_set s (gidx g) = Some {| Explorer.g_index := gidx g; Explorer.g_keys := Some (keys g) |}.
End Consumers.

(* (c) contracts: parse, then the signature-count test against the size of the set on chain *)
Definition sol_accepts_count (nkeys : nat) (b : bytes) : bool :=
  match Contracts.sol_parse b with
  | Some vm => sol_quorum_accepts (sol_quorum (Z.of_nat nkeys)) (Z.of_nat (length (Contracts.sv_sigs vm)))
  | None => false
  end.
Definition ral_accepts_count (nkeys : nat) (b : bytes) : bool :=
  match Contracts.ral_parse b with
  | Some rv => ral_quorum_accepts (ral_quorum (Z.of_nat nkeys)) (Contracts.rv_numsigs rv)
  | None => false
  end.

(* (d) spy: the sends Publish(b) performs over the registered subscriptions *)
Definition spy_plan (subs : list (Spy.id * Spy.sub)) (b : bytes) : list Spy.id * bool := Spy.plan (Spy.emitter_of b) subs.
Definition spy_matches (v : vaa) (s : Spy.sub) : Prop :=
  Spy.s_filters s = [] \/ exists f, In f (Spy.s_filters s) /\ Spy.f_chain f = echain v /\ Spy.f_addr f = eaddr v.
