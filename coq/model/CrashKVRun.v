(* Comparator used by the generated run/cases_C16_*.v files: is the observed history of one kill cycle (the last stores
   before the kill, the kill, the reopen, the lookups) a history of the abstract crash-prone store of model/CrashKV.v?
   Differential-testing aid only; no theorem depends on it. *)
From Coq Require Import List ZArith Bool Arith.
From Coq Require Import Strings.Byte.
From WH Require Import lib.Bytes lib.Wire gen.Extracted model.Vaa model.Db model.CrashKV.
Import ListNotations.
Open Scope Z_scope.

Inductive xev :=
| XStart (b : bytes)                 (* StoreSignedVAA of the VAA whose Marshal output is b *)
| XCommit (n : nat)
| XAbort (n : nat)
| XAck (n : nat)
| XErr (n : nat)
| XCrash (k : nat)
| XReopen
| XReopenFail
| XGet (b : bytes) (found : bool) (res : bytes).   (* lookup of the identifier of the VAA encoded by b *)

Definition to_ev (x : xev) : option ev :=
  match x with
  | XStart b => match unmarshal b with Ok v => if bytes_eqb (marshal v) b then Some (EStart v) else None | Err _ => None end
  | XCommit n => Some (ECommit n)
  | XAbort n => Some (EAbort n)
  | XAck n => Some (EAck n)
  | XErr n => Some (EErr n)
  | XCrash k => Some (ECrash k)
  | XReopen => Some EReopen
  | XReopenFail => Some EReopenFail
  | XGet b found res => match unmarshal b with Ok v => Some (EGet (id_of v) (if found then Found res else NotFound)) | Err _ => None end
  end.

(* position of the first event that the model does not allow (or that is not well-formed); [] = the history is one of the model's *)
Fixpoint bad_at (st : cstate) (h : list xev) (i : Z) : list Z :=
  match h with
  | [] => []
  | x :: r => match to_ev x with
              | None => [i]
              | Some e => match exec st e with Some st' => bad_at st' r (i + 1) | None => [i] end
              end
  end.

Definition dcase := list xev.
Definition bad_events (c : dcase) : list Z := bad_at cinit c 0.
Definition ok (c : dcase) : bool := match bad_events c with [] => true | _ => false end.
