(* Extension X8 (C10): from the raw EVM log to the message handed to the signer.

   model/EvmWatcher.v treats hashes, addresses and payloads as abstract integers and the event as already parsed.  This file
   keeps the CONTENT: a raw log (address, topics, data, block hash / number, tx hash) is decoded the way go-ethereum's
   BoundContract.UnpackLog decodes it for the LogMessagePublished entry of abi.go's ABI (word reads, the dynamic `bytes`
   through offset + length with go-ethereum's bounds checks in their order, error / panic outcomes), the result is turned into
   the common.MessagePublication literal of the source (generated, field by field, for the subscription path and for the
   re-observation path) and the watcher of model/EvmWatcher.v is re-run over entries that carry their full messages: the
   decisions of the per-head scan are those of `EvmWatcher.scan_entry` on the abstraction of the entry (abs_* below), the
   raw content rides along.  `sol_emit` is the contract side: the log Implementation.sol's publishMessage emits (standard ABI
   event encoding of the declaration found in the Solidity source).
   Everything named evm_abi_* / evm_msg_* / evm_key_* / evm_pad_* / sol_lmp_* is GENERATED (gen/ExtractedEvmLog.v, extractors
   gen/x_evmlog.py).  Definitions only; proofs in proofs/EvmLogProofs.v. *)
From Coq Require Import List ZArith Bool Strings.Byte.
From WH Require Import lib.Bytes lib.EvmAbi lib.Keccak gen.Extracted gen.ExtractedEvmLog model.EvmWatcher.
Import ListNotations.
Open Scope Z_scope.

(* ------------------------------------------------------------------ types.Log as the node reports it *)
Record rawlog := mkRaw { rl_addr : bytes;           (* Address, 20 bytes *)
                         rl_topics : list bytes;    (* Topics, 32 bytes each *)
                         rl_data : bytes;           (* Data *)
                         rl_bh : bytes;             (* BlockHash, 32 bytes *)
                         rl_num : Z;                (* BlockNumber, uint64 *)
                         rl_tx : bytes }.           (* TxHash, 32 bytes *)

(* ------------------------------------------------------------------ go-ethereum accounts/abi: unpacking *)
Inductive derr :=
| DSig        (* "event signature mismatch" *)
| DShort      (* toGoType: "length insufficient <len> require <index+32>" *)
| DOffset     (* lengthPrefixPointsTo: "offset .. would go over slice boundary" *)
| DOffset64   (* "abi offset larger than int64" *)
| DLen64      (* "abi: length larger than int64" *)
| DLength     (* lengthPrefixPointsTo: "length insufficient <len> require <offset+32+length>" *)
| DPad        (* a version of ReadInteger that rejects non-zero padding *)
| DTopics.    (* "topic/field count mismatch" *)
Inductive dres (A : Type) := DOk (a : A) | DErr (e : derr) | DPanic.
Arguments DOk {A} a.
Arguments DErr {A} e.
Arguments DPanic {A}.

Inductive aval := VNum (z : Z) | VBytes (b : bytes).

Definition two63 : Z := 9223372036854775808.
Definition blen (b : bytes) : Z := Z.of_nat (length b).
(* output[from : from+n] for 0 <= from, from+n <= len *)
Definition sub (d : bytes) (from : Z) (n : nat) : bytes := firstn n (skipn (Z.to_nat from) d).
Definition all_zero (b : bytes) : bool := forallb (fun x => Byte.eqb x x00) b.

(* ReadInteger(uint<bits>, word): the last bits/8 bytes of the word; this version of go-ethereum does not look at the rest *)
Definition read_uint (bits : Z) (w : bytes) : dres aval :=
  let k := Z.to_nat (bits / 8) in
  if evm_abi_uint_checks_padding && negb (all_zero (firstn (32 - k) w)) then DErr DPad
  else DOk (VNum (unbe (skipn (32 - k) w))).

(* lengthPrefixPointsTo(index, output) given the word output[index : index+32] *)
Definition length_prefix (d w : bytes) : dres (Z * Z) :=
  let off_end := unbe w + 32 in                                   (* bigOffsetEnd *)
  if off_end >? blen d then DErr DOffset
  else if two63 <=? off_end then DErr DOffset64                   (* BitLen() > 63 *)
  else
    let len := unbe (sub d (off_end - 32) 32) in                  (* lengthBig = output[offsetEnd-32 : offsetEnd] *)
    let total := off_end + len in
    if two63 <=? total then DErr DLen64
    else if total >? blen d then DErr DLength
    else DOk (off_end, len).

(* toGoType(index, t, output) *)
Definition to_go_type (index : Z) (t : aty) (d : bytes) : dres aval :=
  if index + 32 >? blen d then DErr DShort
  else
    let w := sub d index 32 in
    match t with
    | TUint bits => read_uint bits w
    | TAddress => DOk (VBytes (skipn 12 w))                       (* common.BytesToAddress(word): its last 20 bytes *)
    | TBytes => match length_prefix d w with
                | DOk (start, len) => DOk (VBytes (sub d start (Z.to_nat len)))
                | DErr e => DErr e
                | DPanic => DPanic
                end
    end.

(* Arguments.UnpackValues: argument i of the non-indexed ones at i*32, the first error wins *)
Fixpoint unpack_values (l : list (afld * aty)) (index : Z) (d : bytes) : dres (list (afld * aval)) :=
  match l with
  | [] => DOk []
  | (f, t) :: r =>
    match to_go_type index t d with
    | DOk v => match unpack_values r (index + 32) d with
               | DOk vs => DOk ((f, v) :: vs)
               | DErr e => DErr e
               | DPanic => DPanic
               end
    | DErr e => DErr e
    | DPanic => DPanic
    end
  end.

(* ParseTopics(out, indexed, topics): count check first, then toGoType(0, type, topic) one by one *)
Fixpoint parse_topics_go (l : list (afld * aty)) (ts : list bytes) : dres (list (afld * aval)) :=
  match l, ts with
  | (f, t) :: r, tp :: ts' =>
    match to_go_type 0 t tp with
    | DOk v => match parse_topics_go r ts' with
               | DOk vs => DOk ((f, v) :: vs)
               | DErr e => DErr e
               | DPanic => DPanic
               end
    | DErr e => DErr e
    | DPanic => DPanic
    end
  | _, _ => DOk []
  end.
Definition parse_topics (l : list (afld * aty)) (ts : list bytes) : dres (list (afld * aval)) :=
  if negb (length l =? length ts)%nat then DErr DTopics else parse_topics_go l ts.

Definition args_of (indexed : bool) (l : list ainput) : list (afld * aty) :=
  map (fun x => (fst (fst x), snd (fst x))) (filter (fun x => Bool.eqb (snd x) indexed) l).

Fixpoint lookup (f : afld) (l : list (afld * aval)) : option aval :=
  match l with [] => None | (g, v) :: t => if afld_eqb f g then Some v else lookup f t end.
(* a struct field nothing was copied into keeps its zero value *)
Definition num_of (f : afld) (l : list (afld * aval)) : Z := match lookup f l with Some (VNum z) => z | _ => 0 end.
Definition bytes_of (f : afld) (l : list (afld * aval)) : bytes := match lookup f l with Some (VBytes b) => b | _ => [] end.
Definition zero_addr : bytes := repeat x00 20.
Definition addr_of (f : afld) (l : list (afld * aval)) : bytes := match lookup f l with Some (VBytes b) => b | _ => zero_addr end.

Definition event_of (vals : list (afld * aval)) : xev :=
  mkXev (addr_of FSender vals) (num_of FTarget vals) (num_of FSeq vals) (num_of FNonce vals) (bytes_of FPayload vals) (num_of FCl vals).

(* the event ID abigen compares Topics[0] with: Keccak-256 of the signature string built from the ABI JSON (evaluated once, when
   this file is compiled) *)
Definition evm_abi_lmp_id : bytes := Eval vm_compute in keccak256 evm_abi_lmp_sig.

(* BoundContract.UnpackLog(event, "LogMessagePublished", log) = Parse / WatchLogMessagePublished without `event.Raw = log` *)
Definition decode_log (r : rawlog) : dres xev :=
  match rl_topics r with
  | [] => DPanic                                                   (* log.Topics[0]: index out of range *)
  | t0 :: ts =>
    if negb (bytes_eqb t0 evm_abi_lmp_id) then DErr DSig
    else
      match (if evm_abi_empty_data_skips_unpack && (length (rl_data r) =? 0)%nat then DOk []
             else unpack_values (args_of false evm_abi_lmp) 0 (rl_data r)) with
      | DOk vals =>
        match parse_topics (args_of true evm_abi_lmp) ts with
        | DOk tvals => DOk (event_of (vals ++ tvals))
        | DErr e => DErr e
        | DPanic => DPanic
        end
      | DErr e => DErr e
      | DPanic => DPanic
      end
  end.

(* ------------------------------------------------------------------ the contract side: what publishMessage emits *)
Definition sol_value (f : afld) (a : xev) : aval :=
  match f with
  | FSender => VBytes (x_sender a) | FTarget => VNum (x_target a) | FSeq => VNum (x_seq a) | FNonce => VNum (x_nonce a)
  | FPayload => VBytes (x_payload a) | FCl => VNum (x_cl a)
  end.
(* the value the emit statement gives to parameter i of the declaration, with the parameter's type *)
Definition sol_params (a : xev) : list (aty * bool * aval) :=
  map (fun p => (snd (fst (fst p)), snd (fst p), sol_value (snd p) a)) (combine sol_lmp_decl sol_lmp_emit_args).
Definition pad_to_word (b : bytes) : bytes := b ++ repeat x00 (Nat.modulo (32 - Nat.modulo (length b) 32) 32).
(* one head word; dynamic values: the offset of their tail *)
Definition enc_head (t : aty) (v : aval) (tail_off : Z) : bytes :=
  match t, v with
  | TBytes, _ => be 32 tail_off
  | _, VNum z => be 32 z
  | _, VBytes b => left_pad 32 b
  end.
Definition enc_tail (t : aty) (v : aval) : bytes :=
  match t, v with
  | TBytes, VBytes b => be 32 (blen b) ++ pad_to_word b
  | _, _ => []
  end.
(* abi.encode of the non-indexed parameters: heads, then tails in order *)
Fixpoint enc_args (l : list (aty * aval)) (tail_off : Z) : bytes * bytes :=
  match l with
  | [] => ([], [])
  | (t, v) :: r =>
    let tl := enc_tail t v in
    let '(hs, ts) := enc_args r (tail_off + blen tl) in
    (enc_head t v tail_off ++ hs, tl ++ ts)
  end.
Definition sol_lmp_id : bytes := Eval vm_compute in keccak256 sol_lmp_sig.
Definition sol_data (a : xev) : bytes :=
  let ni := map (fun p => (fst (fst p), snd p)) (filter (fun p => negb (snd (fst p))) (sol_params a)) in
  let '(hs, ts) := enc_args ni (32 * Z.of_nat (length ni)) in hs ++ ts.
Definition sol_topics (a : xev) : list bytes :=
  sol_lmp_id :: map (fun p => enc_head (fst (fst p)) (snd p) 0) (filter (fun p => snd (fst p)) (sol_params a)).
(* the log of one publishMessage call (emitter = msg.sender; the chain supplies address, block and transaction) *)
Definition sol_emit (contract : bytes) (a : xev) (bh : bytes) (num : Z) (tx : bytes) : rawlog :=
  mkRaw contract (sol_topics a) (sol_data a) bh num tx.

(* ------------------------------------------------------------------ the watcher over raw content *)
Record xcfg := mkXCfg { xc_wait : bool; xc_contract : bytes; xc_chain : Z }.
Record xpmsg := mkXP { xp_msg : xmsg; xp_height : Z }.
Definition xpending := list (xkey * xpmsg).

(* byte strings as the abstract identifiers of model/EvmWatcher.v: injective (the leading 1 keeps length and leading zeros) *)
Definition enc (b : bytes) : Z := unbe (x01 :: b).
Definition abs_cfg (c : xcfg) : cfg := mkCfg (xc_wait c) (enc (xc_contract c)) (xc_chain c).
Definition abs_key (k : xkey) : key := mkKey (enc (xk_tx k)) (enc (xk_bh k)) (enc (xk_em k)) (xk_seq k).
Definition abs_msg (m : xmsg) : msg :=
  mkMsg (enc (xm_tx m)) (xm_ts m) (xm_nonce m) (xm_seq m) (xm_chain m) (xm_target m) (enc (xm_em m)) (enc (xm_payload m)) (xm_cl m).
Definition abs_pm (p : xpmsg) : pmsg := mkP (abs_msg (xp_msg p)) (xp_height p).
Definition abs_state (s : xpending) : pending := map (fun kp => (abs_key (fst kp), abs_pm (snd kp))) s.
(* the parsed event of EvmWatcher.v: Sender stands for the padded emitter address, the block time enters as int64(blockTime) *)
Definition abs_ev (r : rawlog) (e : xev) : ev :=
  mkEv (enc (rl_tx r)) (enc (rl_bh r)) (rl_num r) (enc (evm_pad_address (x_sender e))) (x_seq e) (x_cl e) (x_nonce e)
       (to_u16 (x_target e)) (enc (x_payload e)).

Inductive xout :=
| XConfirmed (k : xkey) (m : xmsg)
| XReobserved (m : xmsg)
| XDropped (k : xkey) (w : why)
| XLooked (k : xkey)
| XDied                       (* errC <- ..: Run returns (the supervisor re-enters it; w.pending survives) *)
| XPanic.                     (* run-time panic in a goroutine nobody recovers: the process ends *)
Definition abs_out (o : xout) : out :=
  match o with
  | XConfirmed k m => Confirmed (abs_key k) (abs_msg m) | XReobserved m => Reobserved (abs_msg m)
  | XDropped k w => Dropped (abs_key k) w | XLooked k => Looked (abs_key k) | XDied => Died | XPanic => Panic
  end.

Definition xkey_eqb (a b : xkey) : bool :=
  bytes_eqb (xk_tx a) (xk_tx b) && bytes_eqb (xk_bh a) (xk_bh b) && bytes_eqb (xk_em a) (xk_em b) && (xk_seq a =? xk_seq b).
Fixpoint xremove (k : xkey) (l : xpending) : xpending :=
  match l with [] => [] | (k', p) :: t => if xkey_eqb k k' then xremove k t else (k', p) :: xremove k t end.
Definition xinsert (k : xkey) (p : xpmsg) (l : xpending) : xpending := (k, p) :: xremove k l.

(* the log handler of Run: message, key and height of a successfully parsed log *)
Definition xmsg_of_log (c : xcfg) (r : rawlog) (bt : Z) (e : xev) : xmsg := evm_msg_of_log (xc_chain c) (rl_tx r) (rl_bh r) bt e.
Definition xkey_of_log (c : xcfg) (r : rawlog) (bt : Z) (e : xev) : xkey := evm_key_of_log (xmsg_of_log c r bt e) (rl_tx r) (rl_bh r) e.
Definition xpm_of_log (c : xcfg) (r : rawlog) (bt : Z) (e : xev) : xpmsg := mkXP (xmsg_of_log c r bt e) (rl_num r).

(* the per-head scan: the decision for an entry is EvmWatcher.scan_entry's on its abstraction; the content rides along *)
Definition lift_out (k : xkey) (p : xpmsg) (o : out) : xout :=
  match o with
  | Confirmed _ _ => XConfirmed k (xp_msg p) | Reobserved _ => XReobserved (xp_msg p) | Dropped _ w => XDropped k w
  | Looked _ => XLooked k | Died => XDied | Panic => XPanic
  end.
(* what the scan reads of an entry: its height and the consistency level of its message (the other fields do not enter any test;
   proofs/EvmLogProofs.v scan_entry_view: the decision on `abs_pm p` is the same) *)
Definition scan_view (p : xpmsg) : pmsg := mkP (mkMsg 0 0 0 0 0 0 0 0 (xm_cl (xp_msg p))) (xp_height p).
Fixpoint xscan (wait safe : bool) (n : Z) (orc : key -> rans) (l : xpending) : xpending * list xout :=
  match l with
  | [] => ([], [])
  | (k, p) :: t =>
    let r := scan_entry wait safe n (orc (abs_key k)) (abs_key k) (scan_view p) in
    let r' := xscan wait safe n orc t in
    ((if fst r then (k, p) :: fst r' else fst r'), map (lift_out k p) (snd r) ++ snd r')
  end.

(* types.Receipt with raw logs *)
Record xrcpt := mkXRcpt { xr_status : Z; xr_blk : option Z; xr_logs : list (option rawlog) }.
Inductive xtxres := XTxErr | XTxPanic | XTxOk (blk : Z) (ms : list xmsg).

(* the log loop of MessageEventsForTransaction over raw logs; acc in reverse order *)
Fixpoint xlog_loop (c : xcfg) (bt : Z) (ls : list (option rawlog)) (acc : list xmsg) : option (option (list xmsg)) :=
  match ls with
  | [] => Some (Some (rev acc))
  | None :: r => xlog_loop c bt r acc
  | Some l :: r =>
    if evm_reobs_checks_address && negb (bytes_eqb (rl_addr l) (xc_contract c)) then xlog_loop c bt r acc
    else match rl_topics l with
         | [] => None                                                                   (* l.Topics[0] *)
         | t0 :: _ =>
           if evm_reobs_checks_topic && negb (unbe t0 =? evm_lmp_topic) then xlog_loop c bt r acc
           else match decode_log l with
                | DOk e => xlog_loop c bt r (evm_msg_of_rcpt_log (xc_chain c) (rl_tx l) (rl_bh l) bt e :: acc)
                | DErr _ => Some None                                                   (* "failed to parse log" *)
                | DPanic => None
                end
         end
  end.

Definition xevents_for_tx (c : xcfg) (rc : option xrcpt) (bt : option Z) : xtxres :=
  match rc with
  | None => XTxErr
  | Some r =>
    if evm_reobs_checks_status && negb (evm_reobs_status_ok (xr_status r)) then XTxErr
    else match bt with
         | None => XTxErr
         | Some t =>
           match xlog_loop c t (xr_logs r) [] with
           | None => XTxPanic
           | Some None => XTxErr
           | Some (Some ms) => match xr_blk r with None => XTxPanic | Some b => XTxOk (u64 b) ms end
           end
         end
  end.

Definition xreobserve (c : xcfg) (hb ha : option Z) (rc : option xrcpt) (bt : option Z) : list xout :=
  match (if evm_reobs_head_first then hb else ha) with
  | None => []
  | Some hd =>
    let bnu := u64 hd in
    match xevents_for_tx c rc bt with
    | XTxErr => []
    | XTxPanic => [XPanic]
    | XTxOk blk ms =>
      flat_map (fun m =>
                  if evm_reobs_zero_head_guard && (bnu =? 0) then []
                  else let e := if xc_wait c then xm_cl m else 0 in
                       if evm_reobs_depth_reached (u64 (blk + e)) bnu then [XReobserved m] else []) ms
    end
  end.

Inductive xop :=
| XLog (r : rawlog) (bt : option Z)                     (* a raw log delivered by the subscription; bt = TimeOfBlockByHash(Raw.BlockHash) *)
| XHead (n : Z) (safe : bool) (orc : key -> rans)       (* a head; orc (abs_key k) = answer to the receipt request for entry k *)
| XReobs (hb ha : option Z) (rc : option xrcpt) (bt : option Z).

Definition xstep (c : xcfg) (s : xpending) (o : xop) : xpending * list xout :=
  match o with
  | XLog r bt =>
    match decode_log r with
    | DPanic => (s, [XPanic])                             (* inside abigen's subscription goroutine *)
    | DErr _ => (s, [XDied])                              (* the subscription ends with the error -> messageSub.Err() -> errC *)
    | DOk e => match bt with
               | None => (s, [XDied])                     (* "failed to request timestamp for block" -> errC *)
               | Some t => (xinsert (xkey_of_log c r t e) (xpm_of_log c r t e) s, [])
               end
    end
  | XHead n safe orc => xscan (xc_wait c) safe n orc s
  | XReobs hb ha rc bt => (s, xreobserve c hb ha rc bt)
  end.

Fixpoint xrun (c : xcfg) (s : xpending) (ops : list xop) : xpending * list (list xout) :=
  match ops with
  | [] => (s, [])
  | o :: t => let r := xstep c s o in let r' := xrun c (fst r) t in (fst r', snd r :: snd r')
  end.

(* ------------------------------------------------------------------ abstraction of the operations onto EvmWatcher.op *)
Definition abs_rlog (l : rawlog) : rlog :=
  mkRLog (enc (rl_addr l)) (match rl_topics l with [] => None | t0 :: _ => Some (unbe t0) end)
         (match decode_log l with DOk e => Some (abs_ev l e) | _ => None end).
Definition abs_rcpt (r : xrcpt) : rcpt := mkRcpt (xr_status r) (xr_blk r) (map (option_map abs_rlog) (xr_logs r)).
Definition dummy_ev : ev := mkEv 0 0 0 0 0 0 0 0 0.
(* an operation of EvmWatcher.v whose only effect is the outcome Panic: a re-observed receipt with a topic-less core-contract log *)
Definition panic_op (c : xcfg) : op :=
  OReobs (Some 1) (Some 1) (Some (mkRcpt 1 (Some 0) [Some (mkRLog (enc (xc_contract c)) None None)])) (Some 0).
Definition abs_op (c : xcfg) (o : xop) : op :=
  match o with
  | XLog r bt =>
    match decode_log r with
    | DPanic => panic_op c
    | DErr _ => OLog dummy_ev None
    | DOk e => OLog (abs_ev r e) (option_map to_i64 bt)
    end
  | XHead n safe orc => OHead n safe orc
  | XReobs hb ha rc bt => OReobs hb ha (option_map abs_rcpt rc) (option_map to_i64 bt)
  end.
