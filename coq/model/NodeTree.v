(* The guardian process as node/cmd/guardiand/node.go builds it (X9: C18 o C13): the supervisor model of model/Supervisor.v instantiated
   with the EXTRACTED service tree (gen/ExtractedTree.v: supervisor options, the root runnable statement by statement, per service the
   goroutines it spawns outside the supervisor's reach, whether it recovers, whether it holds rootCtxCancel), plus the process level:
   the root runnable is a program counter over its extracted statements; services below the root are abstract (any supervisor call in
   any state, return nil / context error / error, panic in their own goroutine, panic in a goroutine they spawned); the outcome of a
   step is: the process keeps running, it crashed (exit status 2, with the cause), main returned, or the event is not possible.
   Go semantics that are the model's RULES (not derived): an unrecovered panic in any goroutine terminates the process; returning from
   main terminates the process; `recover` only catches panics of its own goroutine.  No proofs here (proofs/NodeTreeProofs.v). *)
From Coq Require Import List ZArith Bool Arith String.
From WH Require Import gen.ExtractedTree model.Supervisor.
Import ListNotations.
Open Scope Z_scope.

(* ------------------------------------------------------------------ the extracted tree, read *)
Definition cfg := nat -> bool.                                   (* which of nt_flags are set on the command line *)

Definition guard_on (c : cfg) (g : option nat) : bool := match g with None => true | Some f => c f end.

(* the statements the root runnable executes under a configuration *)
Definition prog_of (t : ntree) (c : cfg) : list rstmt := map snd (filter (fun p => guard_on c (fst p)) (nt_prog t)).

Definition stmt_services (st : rstmt) : list service := match st with RRun svs _ => svs | _ => [] end.
Definition all_services (t : ntree) : list service := flat_map (fun p => stmt_services (snd p)) (nt_prog t).
Definition svc (t : ntree) (x : Z) : option service := List.find (fun s => sv_id s =? x) (all_services t).
Definition svc_named (t : ntree) (nm : string) : option service := List.find (fun s => String.eqb (sv_name s) nm) (all_services t).
Definition ids (svs : list service) : list Z := map sv_id svs.

(* x and y are started by the same supervisor.Run / RunGroup call: one supervision group *)
Definition same_stmt (t : ntree) (x y : Z) : bool :=
  existsb (fun p => existsb (Z.eqb x) (ids (stmt_services (snd p))) && existsb (Z.eqb y) (ids (stmt_services (snd p)))) (nt_prog t).
Definition is_service (t : ntree) (x : Z) : bool := existsb (Z.eqb x) (ids (all_services t)).

(* the service's own function (or a wrapper around it in node.go) recovers panics *)
Definition recovers (t : ntree) (d : dn) : bool :=
  match d with [x] => match svc t x with Some s => sv_recovers s | None => false end | _ => false end.
(* it has `go` statements whose goroutine does not recover *)
Definition spawns_unguarded (t : ntree) (x : Z) : bool :=
  match svc t x with Some s => (sv_spawns_guarded s <? sv_spawns s)%nat | None => false end.
Definition holds_root_cancel (t : ntree) (x : Z) : bool := match svc t x with Some s => sv_root_cancel s | None => false end.
Definition spawning_services (t : ntree) : list Z := filter (spawns_unguarded t) (ids (all_services t)).
Definition root_cancel_holders (t : ntree) : list Z := filter (holds_root_cancel t) (ids (all_services t)).

(* checks on the extracted tree that the theorems about the concrete node need (discharged by computation in props/) *)
Definition distinct_ids (t : ntree) : bool := nodupz (ids (all_services t)).
Definition distinct_runnables (t : ntree) : bool := nodupz (map sv_runnable (all_services t)).
Definition singleton_groups (t : ntree) : bool := forallb (fun p => (List.length (stmt_services (snd p)) <=? 1)%nat) (nt_prog t).
Definition no_service_recovers (t : ntree) : bool := forallb (fun s => negb (sv_recovers s)) (all_services t).
Definition root_never_signals (t : ntree) : bool :=
  forallb (fun p => match snd p with RSignalHealthy | RSignalDone => false | _ => true end) (nt_prog t).
(* the root runnable ends `<-ctx.Done(); return nil`, unconditionally, and returns / waits nowhere else *)
Fixpoint ends_wait_return (p : list (option nat * rstmt)) : bool :=
  match p with
  | [(None, RWaitCtx); (None, RReturn true)] => true
  | (_, RWaitCtx) :: _ | (_, RReturn _) :: _ => false
  | _ :: r => ends_wait_return r
  | [] => false
  end.

(* ------------------------------------------------------------------ the process *)
(* p_pc: the root runnable's next statement (meaningful while an instance of the root runs); p_rootctx: rootCtx has been cancelled;
   p_started: services whose function has been entered at least once (their goroutines may exist) *)
Record pst := { p_sup : sst; p_pc : nat; p_rootctx : bool; p_started : list Z }.

Inductive cause :=
| CPanic (d : dn)            (* a panic in the goroutine of a supervised runnable, not captured *)
| CSpawnPanic (x : Z)        (* a panic in a goroutine that service x started itself *)
| COutsidePanic (n : nat)    (* a panic in a goroutine runNode started next to the supervisor *)
| CSupervisor.               (* the supervisor's own code panicked (nodeByDN) *)

Inductive pout :=
| PRun (s : pst)
| PCrash (c : cause)         (* unrecovered panic: the Go runtime prints it and exits with status 2 *)
| PExit                      (* runNode returned: exit status 0, nothing is waited for *)
| PDisabled.

Inductive pev :=
| PSup (e : ev)              (* the processor goroutine handles something / a sleeper wakes / a service below the root calls the supervisor or returns *)
| PRoot (ctor_fails : bool)  (* the root runnable executes its next statement (a constructor at that statement fails or not) *)
| PPanic (d : dn)            (* the running instance of d panics in its own goroutine *)
| PSpawnPanic (x : Z)        (* a goroutine spawned by service x panics *)
| POutsidePanic (n : nat)    (* the n-th goroutine of nt_unsupervised panics *)
| PCancelRoot (x : Z)        (* service x calls the rootCtxCancel it was handed *)
| PMainReturn.               (* `<-rootCtx.Done()` in runNode returns, then runNode *)

Definition with_sup (s : pst) (u : sst) : pst := {| p_sup := u; p_pc := p_pc s; p_rootctx := p_rootctx s; p_started := p_started s |}.

(* the calls of the root runnable are made by PRoot only; processKill needs the cancelled root context *)
Definition root_own (e : ev) : bool :=
  match e with
  | ESignalHealthy [] | ESignalDone [] | ERunGroup [] _ | EReturn [] _ => true
  | _ => false
  end.

(* node.signal panics (inside the calling runnable's goroutine, after the mutex is released by the deferred unlock) *)
Definition signal_misuse (u : sst) (e : ev) : option dn :=
  match e with
  | ESignalHealthy d =>
    if has (d, TInst) (s_toks u) then match find d (s_tree u) with Some i => match n_state i with SNew => None | _ => Some d end | None => None end else None
  | ESignalDone d =>
    if has (d, TInst) (s_toks u) then match find d (s_tree u) with Some i => match n_state i with SHealthy => None | _ => Some d end | None => None end else None
  | _ => None
  end.

Section Process.
Variable dne : bool.          (* Extracted.sup_done_ready_needs_exit *)
Variable T : ntree.
Variable c : cfg.

Definition lift (s : pst) (o : outcome) (f : sst -> pst) : pout :=
  match o with
  | Ok u => PRun (f u)
  | Disabled => PDisabled
  | ProcessorPanic | LockedPanic => PCrash CSupervisor      (* never happens: NT_crash_never_by_supervisor *)
  end.

(* a panic of d's instance: propagated (no recover in processSchedule's goroutine, none in the service) it kills the process;
   otherwise it is an error exit of the runnable *)
Definition panic_of (s : pst) (d : dn) : pout :=
  if negb (has (d, TInst) (s_toks (p_sup s))) then PDisabled
  else if nt_propagate T && negb (recovers T d) then PCrash (CPanic d)
  else lift s (step dne (p_sup s) (EReturn d RErr)) (with_sup s).

Definition sup_event (s : pst) (e : ev) : pout :=
  if root_own e then PDisabled else
  match e with
  | EKill => if p_rootctx s then lift s (step dne (p_sup s) EKill) (with_sup s) else PDisabled
  | EProcSchedule d =>
    lift s (step dne (p_sup s) e)
         (fun u => {| p_sup := u; p_pc := match d with [] => 0%nat | _ => p_pc s end; p_rootctx := p_rootctx s;
                      p_started := match d with [x] => x :: p_started s | _ => p_started s end |})
  | _ =>
    match signal_misuse (p_sup s) e with
    | Some d => panic_of s d
    | None => lift s (step dne (p_sup s) e) (with_sup s)
    end
  end.

Definition bump (s : pst) (u : sst) : pst := {| p_sup := u; p_pc := S (p_pc s); p_rootctx := p_rootctx s; p_started := p_started s |}.

Definition root_step (s : pst) (ctor_fails : bool) : pout :=
  let u := p_sup s in
  if negb (has ([], TInst) (s_toks u)) then PDisabled else
  match nth_error (prog_of T c) (p_pc s) with
  | None => PDisabled
  | Some (RRun svs ret_on_err) =>
    match run_group [] (ids svs) (s_tree u) with
    | GOk _ _ => lift s (step dne u (ERunGroup [] (ids svs))) (bump s)
    | GRejected => if ret_on_err then lift s (step dne u (EReturn [] RErr)) (with_sup s) else PRun (bump s u)
    | GNoNode => PCrash CSupervisor
    end
  | Some (RCtor _) => if ctor_fails then lift s (step dne u (EReturn [] RErr)) (with_sup s) else PRun (bump s u)
  | Some RSignalHealthy =>
    match signal_misuse u (ESignalHealthy []) with
    | Some d => panic_of s d
    | None => lift s (step dne u (ESignalHealthy [])) (bump s)
    end
  | Some RSignalDone =>
    match signal_misuse u (ESignalDone []) with
    | Some d => panic_of s d
    | None => lift s (step dne u (ESignalDone [])) (bump s)
    end
  | Some RWaitCtx => if cancelled [] (s_tree u) then PRun (bump s u) else PDisabled
  | Some (RReturn isnil) => lift s (step dne u (EReturn [] (if isnil then RNil else RErr))) (with_sup s)
  end.

Definition pstep (s : pst) (e : pev) : pout :=
  match e with
  | PSup e => sup_event s e
  | PRoot f => root_step s f
  | PPanic d => panic_of s d
  | PSpawnPanic x =>
    if existsb (Z.eqb x) (p_started s) && spawns_unguarded T x then PCrash (CSpawnPanic x) else PDisabled   (* whatever the options *)
  | POutsidePanic n => if (n <? List.length (nt_unsupervised T))%nat then PCrash (COutsidePanic n) else PDisabled
  | PCancelRoot x =>
    if existsb (Z.eqb x) (p_started s) && holds_root_cancel T x
    then PRun {| p_sup := p_sup s; p_pc := p_pc s; p_rootctx := true; p_started := p_started s |} else PDisabled
  | PMainReturn => if p_rootctx s then PExit else PDisabled
  end.

(* runNode: supervisor.New(rootCtx, logger, root, opts) *)
Definition pinit : pst := {| p_sup := init; p_pc := 0; p_rootctx := false; p_started := [] |}.

Fixpoint prun (evs : list pev) (s : pst) : pout :=
  match evs with
  | [] => PRun s
  | e :: r => match pstep s e with PRun s' => prun r s' | o => o end
  end.

(* ------------------------------------------------------------------ a deterministic scheduler (for the comparison with the harness) *)
(* everything that is enabled by what is in flight: pending requests are handled, sleepers wake, the root runnable goes on, an
   instance whose context is cancelled returns the context's error (the harness's services do); then one GC *)
Definition pending (s : pst) (ctor_fails : bool) : list pev :=
  flat_map (fun tk : token =>
    match tk with
    | (d, TSched) => [PSup (EProcSchedule d)]
    | (d, TDied k) => [PSup (EProcDied d k)]
    | (d, TSleep _) => [PSup (EBackoff d)]
    | ([], TInst) => [PRoot ctor_fails]
    | (d, TInst) => if cancelled d (s_tree (p_sup s)) then [PSup (EReturn d RCtx)] else []
    end) (s_toks (p_sup s)) ++ [PSup EGC] ++ (if p_rootctx s then [PSup EKill] else []).

(* sm_fail: how many more times the fallible constructor of the root runnable fails; sm_starts: the dn of every runnable entered *)
Record sim := { sm_out : pout; sm_fail : nat; sm_starts : list dn }.

Definition at_ctor (s : pst) : bool :=
  match nth_error (prog_of T c) (p_pc s) with Some (RCtor _) => true | _ => false end.

Definition sim_fire (m : sim) (e : pev) : sim :=
  match sm_out m with
  | PRun s =>
    let e' := match e with PRoot _ => PRoot ((0 <? sm_fail m)%nat && at_ctor s) | _ => e end in
    match pstep s e' with
    | PDisabled => m
    | o => {| sm_out := o;
              sm_fail := match e' with PRoot true => pred (sm_fail m) | _ => sm_fail m end;
              sm_starts := match e' with PSup (EProcSchedule d) => sm_starts m ++ [d] | _ => sm_starts m end |}
    end
  | _ => m
  end.

Definition sim_round (m : sim) : sim :=
  match sm_out m with
  | PRun s => fold_left sim_fire (pending s false) m
  | _ => m
  end.

Fixpoint settle (fuel : nat) (m : sim) : sim :=
  match fuel with
  | O => m
  | S f => settle f (sim_round m)
  end.

(* a scenario: settle, then alternately inject one event and settle again *)
Fixpoint play (fuel : nat) (inj : list pev) (m : sim) : sim :=
  match inj with
  | [] => settle fuel m
  | e :: r => play fuel r (sim_fire (settle fuel m) e)
  end.

Definition sim_init (fails : nat) : sim := {| sm_out := PRun pinit; sm_fail := fails; sm_starts := [] |}.

Definition starts_of (m : sim) (d : dn) : nat := List.length (filter (dn_eqb d) (sm_starts m)).

End Process.

(* live instances of the services started with runnable number r *)
Definition instances_of_runnable (t : ntree) (r : Z) (u : sst) : nat :=
  fold_right (fun sv acc => (running [sv_id sv] u + acc)%nat) 0%nat (filter (fun sv => sv_runnable sv =? r) (all_services t)).
