(* Executable model of the governance request -> VAA path (C15):
     node/cmd/guardiand/adminserver.go  the nine conversion functions and InjectGovernanceVAA (statement by statement:
                                        validations in source order, Go's narrowing conversions as explicit [mod],
                                        panics as the outcome [GPanic]),
     node/pkg/vaa/governance.go         CreateGovernanceVAA,
     node/pkg/vaa/payloads.go           the Serialize methods: GENERATED from the source (ExtractedGov.GoPay.ser_X),
   and of the contract side: the Ralph governance parsers GENERATED statement by statement from governance.ral,
   token_bridge_governance.ral and token_bridge_factory.ral (ExtractedGov.RalGov.ral_X), applied to the envelope values a
   VAA carries.  Thresholds of the validations, the consistency level and MaxGuardianCount are generated too
   (go_adm_X, go_gov_consistency_level).  No proofs here (proofs/GovernanceProofs.v). *)
From Coq Require Import Strings.String.
From Coq Require Import List ZArith Bool Arith.
From Coq Require Import Strings.Byte.
From WH Require Import lib.Bytes lib.Ralph gen.Extracted gen.ExtractedGov model.Vaa model.AlphConv.
Import ListNotations.
Import ExtractedGov.GoPay ExtractedGov.RalGov.
Open Scope Z_scope.

(* errors of the request path, one per error string of adminserver.go *)
Inductive gerr := GTargetChain | GGsEmpty | GGsTooMany | GGsPubkey | GGsDup | GFeeLen | GFeeHex | GAmountLen | GRecipientLen
  | GAmountHex | GRecipientHex | GPayloadHex | GChainId | GEmitterHex | GEmitterLen | GRefundHex | GModuleLen | GEmitterChain
  | GTooManySeqs | GLevel | GRefundLen | GUnset.
Inductive gres (A : Type) := GOk (a : A) | GErr (e : gerr) | GPanic.
Arguments GOk {A}. Arguments GErr {A}. Arguments GPanic {A}.

(* the node's configuration: governanceChainId, governanceEmitterAddress *)
Record gcfg := { g_chain : Z; g_addr : bytes }.
(* the arguments every conversion function gets besides the request: timestamp (Unix seconds), guardianSetIndex (uint32),
   nonce (uint32), sequence (uint64), targetChainId (vaa.ChainID) *)
Record genv := { e_ts : Z; e_gsi : Z; e_nonce : Z; e_seq : Z; e_tchain : Z }.

(* vaa.CreateGovernanceVAA *)
Definition create_governance_vaa (c : gcfg) (e : genv) (p : bytes) : vaa :=
  {| version := vaa_version; gsidx := e_gsi e; sigs := []; ts := e_ts e; tns := 0; nonce := e_nonce e;
     echain := g_chain c; tchain := e_tchain e; eaddr := g_addr c; seq := e_seq e; cl := go_gov_consistency_level;
     payload := p |}.

(* `X{..}.Serialize()` handed to CreateGovernanceVAA: a panic of the serializer propagates *)
Definition with_payload (c : gcfg) (e : genv) (o : option bytes) : gres vaa :=
  match o with Some p => GOk (create_governance_vaa c e p) | None => GPanic end.

Definition len (s : bytes) : Z := Z.of_nat (length s).

(* ------------------------------------------------------------------ go-ethereum common.IsHexAddress / HexToAddress *)
Definition is_hex_char (c : byte) : bool := match hex_val c with Some _ => true | None => false end.
Definition is_hex (s : bytes) : bool := Nat.even (length s) && forallb is_hex_char s.
Definition is_hex_address (s : bytes) : bool :=
  let s1 := if has_0x s then skipn 2 s else s in (length s1 =? 40)%nat && is_hex s1.
Definition hex_to_address (s : bytes) : bytes := bytes_to_address (from_hex s).
Definition zero_address : bytes := repeat x00 20.

(* ------------------------------------------------------------------ adminGuardianSetUpgradeToVAA *)
(* the loop over req.Guardians: [done] = the slots of addrs filled so far, the remaining slots still hold the zero address
   (addrs is allocated with its final length), and the duplicate test ranges over ALL slots *)
Fixpoint gs_loop (todo : list bytes) (done : list bytes) : gres (list bytes) :=
  match todo with
  | [] => GOk done
  | g :: rest =>
    if negb (is_hex_address g) then GErr GGsPubkey else
    let a := hex_to_address g in
    if existsb (bytes_eqb a) (done ++ repeat zero_address (length todo)) then GErr GGsDup else
    gs_loop rest (done ++ [a])
  end.

Definition conv_guardian_set (c : gcfg) (e : genv) (guardians : list bytes) : gres vaa :=
  if Z.of_nat (length guardians) =? go_adm_gs_empty then GErr GGsEmpty else
  if Z.of_nat (length guardians) >? go_adm_gs_max then GErr GGsTooMany else
  match gs_loop guardians [] with
  | GErr x => GErr x
  | GPanic => GPanic
  | GOk addrs => with_payload c e (ser_GuardianSetUpgrade addrs (go_adm_new_index (e_gsi e)))   (* generated: uint32 guardianSetIndex + 1 *)
  end.

(* ------------------------------------------------------------------ the other eight *)
Definition conv_message_fee (c : gcfg) (e : genv) (fee : bytes) : gres vaa :=
  if negb (len fee =? go_adm_fee_len) then GErr GFeeLen else
  match hex_decode fee with None => GErr GFeeHex | Some b =>
  with_payload c e (ser_UpdateMessageFee b) end.

Definition conv_transfer_fee (c : gcfg) (e : genv) (amount recipient : bytes) : gres vaa :=
  if negb (len amount =? go_adm_amount_len) then GErr GAmountLen else
  if negb (len recipient =? go_adm_recipient_len) then GErr GRecipientLen else
  match hex_decode amount with None => GErr GAmountHex | Some a =>
  match hex_decode recipient with None => GErr GRecipientHex | Some r =>
  with_payload c e (ser_TransferFee a r) end end.

Definition conv_contract_upgrade (c : gcfg) (e : genv) (payload : bytes) : gres vaa :=
  match hex_decode payload with None => GErr GPayloadHex | Some p =>
  with_payload c e (ser_ContractUpgrade p) end.

Definition conv_register_chain (c : gcfg) (e : genv) (module : bytes) (chain_id : Z) (emitter : bytes) : gres vaa :=
  if chain_id >? go_adm_chain_max then GErr GChainId else
  if len module >? go_adm_module_max then GErr GModuleLen else
  match hex_decode emitter with None => GErr GEmitterHex | Some b =>
  if negb (len b =? go_adm_emitter_len) then GErr GEmitterLen else
  with_payload c e (ser_TokenBridgeRegisterChain module (chain_id mod 65536) b) end.       (* vaa.ChainID(req.ChainId) *)

Definition conv_bridge_upgrade (c : gcfg) (e : genv) (module payload : bytes) : gres vaa :=
  if len module >? go_adm_upg_module_max then GErr GModuleLen else
  match hex_decode payload with None => GErr GPayloadHex | Some p =>
  with_payload c e (ser_TokenBridgeUpgradeContract module p) end.

Definition conv_destroy (c : gcfg) (e : genv) (emitter_chain : Z) (sequences : list Z) : gres vaa :=
  if emitter_chain >? go_adm_echain_max then GErr GEmitterChain else
  if Z.of_nat (length sequences) >? go_adm_seqs_max then GErr GTooManySeqs else
  with_payload c e (ser_TokenBridgeDestroyContracts (emitter_chain mod 65536) sequences).   (* vaa.ChainID(req.EmitterChain) *)

Definition conv_min_level (c : gcfg) (e : genv) (level : Z) : gres vaa :=
  if level >? go_adm_level_max then GErr GLevel else
  with_payload c e (ser_TokenBridgeUpdateMinimalConsistencyLevel (level mod 256)).           (* uint8(req.NewConsistencyLevel) *)

Definition conv_refund (c : gcfg) (e : genv) (address : bytes) : gres vaa :=
  match hex_decode address with None => GErr GRefundHex | Some a =>
  if len a >? go_adm_refund_max then GErr GRefundLen else
  with_payload c e (ser_TokenBridgeUpdateRefundAddress a) end.

(* ------------------------------------------------------------------ requests *)
Inductive gov_payload :=
| PGuardianSet (guardians : list bytes)
| PMessageFee (fee : bytes)
| PTransferFee (amount recipient : bytes)
| PContractUpgrade (payload : bytes)
| PRegisterChain (module : bytes) (chain_id : Z) (emitter : bytes)
| PBridgeUpgrade (module payload : bytes)
| PDestroy (emitter_chain : Z) (sequences : list Z)
| PMinLevel (level : Z)
| PRefund (address : bytes)
| PUnset.

(* the type switch of InjectGovernanceVAA *)
Definition conv (c : gcfg) (e : genv) (p : gov_payload) : gres vaa :=
  match p with
  | PGuardianSet g => conv_guardian_set c e g
  | PMessageFee f => conv_message_fee c e f
  | PTransferFee a r => conv_transfer_fee c e a r
  | PContractUpgrade p => conv_contract_upgrade c e p
  | PRegisterChain m ch ea => conv_register_chain c e m ch ea
  | PBridgeUpgrade m p => conv_bridge_upgrade c e m p
  | PDestroy ec sq => conv_destroy c e ec sq
  | PMinLevel l => conv_min_level c e l
  | PRefund a => conv_refund c e a
  | PUnset => if go_adm_unset_panics then GPanic else GErr GUnset
  end.

Record gov_msg := { gm_seq : Z; gm_nonce : Z; gm_tchain : Z; gm_payload : gov_payload }.
Inductive inj_res := IOk (digests : list bytes) | IErr (e : gerr) | IPanic.

Section Inject.
Variable keccak : bytes -> bytes.

Definition env_of (ts gsi : Z) (m : gov_msg) : genv :=
  {| e_ts := ts; e_gsi := gsi; e_nonce := gm_nonce m; e_seq := gm_seq m; e_tchain := gm_tchain m mod 65536 |}.  (* vaa.ChainID(message.TargetChainId) *)

(* the loop of InjectGovernanceVAA: [sent] = what has been put on injectC so far (it stays there when a later message
   fails), [digs] = the digests collected so far *)
Fixpoint inject_loop (c : gcfg) (ts gsi : Z) (msgs : list gov_msg) (sent : list vaa) (digs : list bytes) : list vaa * inj_res :=
  match msgs with
  | [] => (sent, IOk digs)
  | m :: rest =>
    if gm_tchain m >? go_adm_target_max then (sent, IErr GTargetChain) else
    match conv c (env_of ts gsi m) (gm_payload m) with
    | GPanic => (sent, IPanic)
    | GErr x => (sent, IErr x)
    | GOk v => inject_loop c ts gsi rest (sent ++ [v]) (digs ++ [digest keccak v])
    end
  end.

(* req.Timestamp is a uint32: time.Unix(int64(req.Timestamp), 0) *)
Definition inject (c : gcfg) (ts gsi : Z) (msgs : list gov_msg) : list vaa * inj_res := inject_loop c ts gsi msgs [] [].
End Inject.

(* ------------------------------------------------------------------ the contract side *)
(* What a governance contract configured with (governanceChainId, governanceEmitterAddress) and expecting sequence
   >= targetSequence does with the envelope values of a VAA: the generated parseAndVerifyGovernanceVAAGeneric with the
   module constant of the contract file and the ActionId of the entry point. *)
Definition ral_generic (module action : rv) (gov_chain : Z) (gov_addr : bytes) (target_seq : Z) (v : vaa) : option rres :=
  match module, action with
  | Some m, Some a =>
    ral_parseAndVerifyGovernanceVAAGeneric (RZ target_seq) m a (RZ (echain v)) (RZ (tchain v)) (RB (eaddr v)) (RZ (seq v))
                                           (RB (payload v)) (RZ gov_chain) (RB gov_addr)
  | _, _ => None
  end.

(* requested values, as the integers / byte strings they denote *)
Definition hexv (s : bytes) : option Z := match hex_decode s with Some b => Some (unbe b) | None => None end.
