(* The Alephium watcher COMPOSED with the event conversion (C08 / C09 / C11): one executable model from the node's event JSON
   (raw field values, as model.AlphConv models them) to the message handed to the signer.

   model.AlphWatcher treats the message of an event as an opaque value (e_conv is an input flag); model.AlphConv models the
   conversions on their own.  Here the watcher runs over events that carry their RAW fields, and the conversions are applied
   exactly where node/pkg/alephium/{watcher,reobserve,client,utils}.go apply them:
     - handleUnconfirmedEvents / toUnconfirmedEvent: index test, ToWormholeMessage(event.Fields, event.TxId) for EVERY fetched
       event, then (attestations) parseAttestToken + GetTokenInfo + comparison, all BEFORE any sender filter;
     - handleEvents_: the converted message is kept with the pending event (isEventConfirmed reads its level / payload id);
     - handleConfirmedEvents: sender filter (bytes.Equal on the 32 bytes), then msg.toMessagePublication(header);
     - getGovernanceEventsByTxId: filters, header, ToWormholeMessage(event.Fields, txId OF THE REQUEST), attestation check;
     - handleGovernanceMessages: ToWormholeMessage again, sender filter, toMessagePublication(header).
   Block hashes and contract addresses stay abstract identifiers (Z), as in model.AlphWatcher; everything that ends up in the
   message is concrete (bytes / Z).  The second half of the file defines the abstraction onto model.AlphWatcher
   (proofs/AlphPipelineProofs.v proves that it commutes with every step).  No proofs here. *)
From Coq Require Import List ZArith Bool Arith.
From Coq Require Import Strings.Byte.
From WH Require Import lib.Bytes gen.Extracted gen.ExtractedAlphPipe model.Vaa.
From WH Require model.AlphConv model.AlphWatcher.
Import ListNotations.
Open Scope Z_scope.

Module C := AlphConv.
Module W := AlphWatcher.

(* ------------------------------------------------------------------ data *)
Record xcfg := { xc_gov : Z;          (* address of the configured governance contract (abstract id) *)
                 xc_bridge : bytes;   (* tokenBridgeContractId: 32 bytes *)
                 xc_mainnet : bool }.

(* sdk.ContractEvent as the node reports it; x_uid is a ghost (identity of the event for the observer) *)
Record xevent := { x_uid : Z; x_block : Z; x_txid : bytes; x_index : Z; x_fields : list C.val }.
(* sdk.ContractEventByTxId: contract address, no tx id of its own (x_txid of xt_ev is not read) *)
Record xtevent := { xt_addr : Z; xt_ev : xevent }.

(* UnconfirmedEvent: the event with its converted message; xu_chain is a ghost (what GetTokenInfo answered at validation) *)
Record xuevent := { xu_ev : xevent; xu_msg : C.wmsg; xu_chain : option C.token_info }.
(* what is sent on msgChan: xf_pub; the rest is provenance *)
Record xfwd := { xf_ev : xevent; xf_msg : C.wmsg; xf_hdr : W.header; xf_chain : option C.token_info; xf_pub : msgpub }.

Definition conv (e : xevent) : option C.wmsg :=
  match C.to_wormhole_message (x_fields e) (x_txid e) with C.COk w => Some w | C.CErr _ => None end.

(* ------------------------------------------------------------------ IsTransferTokenVAA / IsAttestTokenVAA / isEventConfirmed *)
(* first payload byte, -1 for an empty payload (`len(w.payload) > 0 && w.payload[0] == id`, ids are non-negative) *)
Definition xp0 (w : C.wmsg) : Z := match C.w_payload w with [] => -1 | b :: _ => Z_of_byte b end.
Definition xis_transfer (w : C.wmsg) : bool := xp0 w =? alph_transfer_payload_id.
Definition xis_attest (w : C.wmsg) : bool := xp0 w =? alph_attest_payload_id.

Definition xconfirmed (mainnet : bool) (w : C.wmsg) (h : W.header) (now height : Z) : bool :=
  if alph_height_short (W.wrap32 (W.h_height h + C.w_cl w)) height then false
  else if alph_time_short (W.wrap64 (W.h_ts h + alph_duration mainnet (xis_transfer w) (C.w_cl w))) now then false
  else true.

(* ------------------------------------------------------------------ GetTokenInfo / validateAttestToken on raw answers *)
Inductive xcallres := XFailed | XOk (rets : list C.val).
Inductive xmc_ans := XMcErr | XMcRes (rs : list xcallres).
Inductive xti_res := XTiOk (t : C.token_info) | XTiErr | XTiPanic.

Definition alph_token_id : bytes := repeat x00 go_hash_length.     (* ALPHTokenId: the zero Byte32 *)
Definition native_info : C.token_info :=
  {| C.t_id := alph_token_id; C.t_decimals := alph_native_decimals; C.t_symbol := alph_native_symbol; C.t_name := alph_native_name |}.

Definition xsucceeded (r : xcallres) : bool := match r with XOk _ => true | XFailed => false end.
Inductive xshape := XShErr | XShPanic | XShOne (v : C.val).
Definition xshape_test (rs : list xcallres) (t i : nat) : xshape :=
  if negb (xsucceeded (nth t rs XFailed)) then XShErr
  else match nth i rs XFailed with
       | XFailed => XShPanic
       | XOk [v] => XShOne v
       | XOk _ => XShErr
       end.

Definition xget_token_info (id : bytes) (a : xmc_ans) : xti_res :=
  if bytes_eqb id alph_token_id then XTiOk native_info
  else match a with
  | XMcErr => XTiErr
  | XMcRes rs =>
    if negb (Nat.eqb (length rs) 3) then XTiErr else
    let '(t0, t1, t2) := alph_tokinfo_tests in
    match xshape_test rs t0 0 with XShErr => XTiErr | XShPanic => XTiPanic | XShOne vs =>
    match xshape_test rs t1 1 with XShErr => XTiErr | XShPanic => XTiPanic | XShOne vn =>
    match xshape_test rs t2 2 with XShErr => XTiErr | XShPanic => XTiPanic | XShOne vd =>
    match C.to_bytevec vs with C.CErr _ => XTiErr | C.COk symbol_bs =>
    match C.to_bytevec vn with C.CErr _ => XTiErr | C.COk name_bs =>
    match C.to_uint8 vd with C.CErr _ => XTiErr | C.COk d =>
      XTiOk {| C.t_id := id; C.t_decimals := d; C.t_symbol := C.bytes_to_string symbol_bs; C.t_name := C.bytes_to_string name_bs |}
    end end end end end end
  end.

(* `*tokenInfo != *tokenInfoFromChain`: the components the source compares (generated flags) *)
Definition xtokinfo_eqb (a b : C.token_info) : bool :=
  let '(ci, cd, cs, cn) := alph_pipe_attest_cmp in
  implb ci (bytes_eqb (C.t_id a) (C.t_id b)) && implb cd (C.t_decimals a =? C.t_decimals b)
  && implb cs (bytes_eqb (C.t_symbol a) (C.t_symbol b)) && implb cn (bytes_eqb (C.t_name a) (C.t_name b)).

Inductive xva_res := XVaOk (t : C.token_info) | XVaReject | XVaPanic.
Definition xvalidate_attest (w : C.wmsg) (a : xmc_ans) : xva_res :=
  match C.parse_attest_token (C.w_payload w) with
  | C.CErr _ => XVaReject
  | C.COk ti => match xget_token_info (C.t_id ti) a with
                | XTiOk t => if xtokinfo_eqb ti t then XVaOk t else XVaReject
                | XTiErr => XVaReject
                | XTiPanic => XVaPanic
                end
  end.

(* ------------------------------------------------------------------ polling path: fetchEvents / handleUnconfirmedEvents *)
(* toUnconfirmedEvent: index test, then ToWormholeMessage(event.Fields, event.TxId) *)
Definition xto_unconfirmed (e : xevent) : option C.wmsg := if x_index e =? alph_wm_event_index then conv e else None.

Inductive xcls := XKeep (u : xuevent) | XSkip | XAbort | XPanic.
Definition xclassify (a : xmc_ans) (e : xevent) : xcls :=
  match xto_unconfirmed e with
  | None => if alph_unconv_aborts then XAbort else XSkip
  | Some w =>
    if xis_attest w then
      match xvalidate_attest w a with
      | XVaPanic => XPanic
      | XVaReject => XSkip
      | XVaOk t => XKeep {| xu_ev := e; xu_msg := w; xu_chain := Some t |}
      end
    else XKeep {| xu_ev := e; xu_msg := w; xu_chain := None |}
  end.

Inductive xhu_res := XHuOk (l : list xuevent) | XHuAbort | XHuPanic.
Fixpoint xhandle_unconfirmed (tok : Z -> xmc_ans) (idx : Z) (evs : list xevent) : xhu_res :=
  match evs with
  | [] => XHuOk []
  | e :: t =>
    match xclassify (tok idx) e with
    | XAbort => XHuAbort
    | XPanic => XHuPanic
    | XSkip => xhandle_unconfirmed tok (idx + 1) t
    | XKeep u => match xhandle_unconfirmed tok (idx + 1) t with XHuOk l => XHuOk (u :: l) | r => r end
    end
  end.

Inductive xpage_ans := XPageErr | XPage (evs : list xevent) (next : Z).
Inductive xpoll_res := XPIdle | XPBatch (from' : Z) (batch : list xuevent) (nreq : nat) | XPFatal | XPSpin | XPPanic.

Fixpoint xpage_loop (pg : nat -> Z -> xpage_ans) (tok : Z -> xmc_ans) (fuel k : nat) (from count : Z) (acc : list xuevent) : xpoll_res :=
  match fuel with
  | O => XPSpin
  | S f =>
    match pg k from with
    | XPageErr => XPFatal
    | XPage evs next =>
      match xhandle_unconfirmed tok from evs with
      | XHuPanic => XPPanic
      | XHuAbort => XPFatal
      | XHuOk l =>
        if alph_page_exit next count then XPBatch next (acc ++ l) (S k)
        else xpage_loop pg tok f (S k) next count (acc ++ l)
      end
    end
  end.

Definition xpoll (cnt : option Z) (pg : nat -> Z -> xpage_ans) (tok : Z -> xmc_ans) (from : Z) : xpoll_res :=
  match cnt with
  | None => XPFatal
  | Some count => if count =? from then XPIdle else xpage_loop pg tok (W.poll_fuel from count) 0 from count []
  end.

(* ------------------------------------------------------------------ handleEvents_: pending events per block, height ticks *)
Record xpblock := { xpb_hash : Z; xpb_hdr : option W.header; xpb_evs : list xuevent }.

Fixpoint xadd_event (p : list xpblock) (u : xuevent) : list xpblock :=
  match p with
  | [] => [ {| xpb_hash := x_block (xu_ev u); xpb_hdr := None; xpb_evs := [u] |} ]
  | b :: t => if xpb_hash b =? x_block (xu_ev u)
              then {| xpb_hash := xpb_hash b; xpb_hdr := xpb_hdr b; xpb_evs := xpb_evs b ++ [u] |} :: t
              else b :: xadd_event t u
  end.
Definition xadd_batch (p : list xpblock) (l : list xuevent) : list xpblock := fold_left xadd_event l p.

Inductive xblk_res := XBErr | XBOk (keep : option xpblock) (conf : list (xuevent * W.header)).
Definition xprocess_block (mainnet : bool) (height now : Z) (mc : Z -> option bool) (hd : Z -> option W.header) (b : xpblock) : xblk_res :=
  match mc (xpb_hash b) with
  | None => XBErr
  | Some canon =>
    match (match xpb_hdr b with Some h => Some h | None => hd (xpb_hash b) end) with
    | None => XBErr
    | Some h =>
      let isconf := fun u => xconfirmed mainnet (xu_msg u) h now height in
      let remain := filter (fun u => negb (isconf u)) (xpb_evs b) in
      XBOk (match remain with [] => None | _ => Some {| xpb_hash := xpb_hash b; xpb_hdr := Some h; xpb_evs := remain |} end)
           (if canon then map (fun u => (u, h)) (filter isconf (xpb_evs b)) else [])
    end
  end.

Fixpoint xprocess_blocks (mainnet : bool) (height now : Z) (mc : Z -> option bool) (hd : Z -> option W.header) (p : list xpblock)
  : option (list xpblock * list (xuevent * W.header)) :=
  match p with
  | [] => Some ([], [])
  | b :: t =>
    match xprocess_block mainnet height now mc hd b with
    | XBErr => None
    | XBOk k c =>
      match xprocess_blocks mainnet height now mc hd t with
      | None => None
      | Some (p', c') => Some (match k with Some b' => b' :: p' | None => p' end, c ++ c')
      end
    end
  end.

(* the hand-over: `w.msgChan <- msg.toMessagePublication(header)` *)
Definition mkxfwd (e : xevent) (w : C.wmsg) (ch : option C.token_info) (h : W.header) : xfwd :=
  {| xf_ev := e; xf_msg := w; xf_hdr := h; xf_chain := ch; xf_pub := C.to_message_publication w (W.h_ts h) |}.

(* handleConfirmedEvents: (messages sent, error?) *)
Fixpoint xhandle_confirmed (bridge : bytes) (l : list (xuevent * W.header)) : list xfwd * bool :=
  match l with
  | [] => ([], false)
  | (u, h) :: t =>
    if x_index (xu_ev u) =? alph_wm_event_index then
      let '(f, e) := xhandle_confirmed bridge t in
      if bytes_eqb (C.w_sender (xu_msg u)) bridge then (mkxfwd (xu_ev u) (xu_msg u) (xu_chain u) h :: f, e) else (f, e)
    else ([], true)
  end.

(* ------------------------------------------------------------------ re-observation path *)
Record xreobs_in := {
  xr_chain : Z;                        (* req.ChainId *)
  xr_txhash : bytes;                   (* req.TxHash *)
  xr_status : option (option Z);
  xr_events : option (list xtevent);
  xr_hd : Z -> option W.header;
  xr_tok : Z -> xmc_ans;
  xr_mc : option bool;
  xr_height : option Z;
  xr_now : Z }.

(* `txId := hex.EncodeToString(req.TxHash[0:32])` *)
Definition req_txid (r : xreobs_in) : bytes := C.hex_encode (xr_txhash r).
(* &sdk.ContractEvent{BlockHash: event.BlockHash, TxId: txId, EventIndex: event.EventIndex, Fields: event.Fields} *)
Definition with_txid (txid : bytes) (e : xevent) : xevent :=
  {| x_uid := x_uid e; x_block := x_block e; x_txid := txid; x_index := x_index e; x_fields := x_fields e |}.

Inductive xge_res := XGeErr | XGePanic | XGeOk (l : list (xtevent * xuevent * W.header)).
Definition xge_cons (x : xtevent * xuevent * W.header) (r : xge_res) : xge_res := match r with XGeOk l => XGeOk (x :: l) | _ => r end.

(* getGovernanceEventsByTxId *)
Fixpoint xgov_events (c : xcfg) (txid : bytes) (blk : Z) (hd : Z -> option W.header) (tok : Z -> xmc_ans) (pos : Z) (evs : list xtevent) : xge_res :=
  match evs with
  | [] => XGeOk []
  | te :: t =>
    let e := with_txid txid (xt_ev te) in
    let rest := xgov_events c txid blk hd tok (pos + 1) t in
    if negb (x_index e =? alph_wm_event_index) then rest
    else if alph_reobs_addr_filter && negb (xt_addr te =? xc_gov c) then rest
    else if alph_reobs_block_filter && negb (x_block e =? blk) then rest
    else match hd (x_block e) with
    | None => XGeErr
    | Some h =>
      match conv e with
      | None => XGeErr
      | Some w =>
        if xis_attest w then
          match xvalidate_attest w (tok pos) with
          | XVaPanic => XGePanic
          | XVaReject => rest
          | XVaOk ti => xge_cons (te, {| xu_ev := e; xu_msg := w; xu_chain := Some ti |}, h) rest
          end
        else xge_cons (te, {| xu_ev := e; xu_msg := w; xu_chain := None |}, h) rest
      end
    end
  end.

Definition xreobs_confirmed (mainnet : bool) (w : C.wmsg) (h : W.header) (now height : Z) : bool :=
  if alph_reobs_wallclock then xconfirmed mainnet w h now height
  else alph_reobs_height_ok (W.wrap32 (W.h_height h + C.w_cl w)) height.

(* handleGovernanceMessages: ToWormholeMessage(e.Fields, e.txId) once more; an error ends the hand-over (`return err`) or skips
   the event (generated flag); sender filter; send *)
Fixpoint xhandle_gov (bridge : bytes) (l : list (xtevent * xuevent * W.header)) : list xfwd :=
  match l with
  | [] => []
  | (te, u, h) :: t =>
    match C.to_wormhole_message (x_fields (xt_ev te)) (x_txid (xu_ev u)) with
    | C.CErr _ => if alph_pipe_reobs_reconvert_aborts then [] else xhandle_gov bridge t
    | C.COk w => if bytes_eqb (C.w_sender w) bridge then mkxfwd (xu_ev u) w (xu_chain u) h :: xhandle_gov bridge t
                 else xhandle_gov bridge t
    end
  end.

Definition xreobserve (c : xcfg) (r : xreobs_in) : list xfwd * W.flag :=
  if negb (xr_chain r =? alph_chain_id) then ([], W.FNone) else
  if negb (Z.of_nat (length (xr_txhash r)) =? alph_txid_len) then ([], W.FNone) else
  match xr_status r with
  | Some (Some blk) =>
    match xr_events r with
    | None => ([], W.FNone)
    | Some evs =>
      match xgov_events c (req_txid r) blk (xr_hd r) (xr_tok r) 0 evs with
      | XGeErr => ([], W.FNone)
      | XGePanic => ([], W.FPanic)
      | XGeOk l =>
        match xr_mc r with
        | Some true =>
          match xr_height r with
          | None => ([], W.FNone)
          | Some height =>
            let conf := filter (fun x => xreobs_confirmed (xc_mainnet c) (xu_msg (snd (fst x))) (snd x) (xr_now r) height) l in
            (xhandle_gov (xc_bridge c) conf, W.FNone)
          end
        | _ => ([], W.FNone)
        end
      end
    end
  | _ => ([], W.FNone)
  end.

(* ------------------------------------------------------------------ the composed watcher as a transition system *)
Record xstate := { x_from : Z; x_inflight : option (list xuevent); x_pending : list xpblock; x_enabled : bool; x_dead : bool }.

Inductive xop :=
| XPoll (cnt : option Z) (pg : nat -> Z -> xpage_ans) (tok : Z -> xmc_ans)
| XDeliver
| XTick (height now : Z) (mc : Z -> option bool) (hd : Z -> option W.header)
| XReobs (r : xreobs_in)
| XHeightErr.

Record xout := { xo_fwd : list xfwd; xo_batch : list xuevent; xo_nreq : nat; xo_flag : W.flag }.
Definition xout0 : xout := {| xo_fwd := []; xo_batch := []; xo_nreq := 0; xo_flag := W.FNone |}.
Definition xdie (s : xstate) : xstate :=
  {| x_from := x_from s; x_inflight := x_inflight s; x_pending := x_pending s; x_enabled := x_enabled s; x_dead := true |}.
Definition xfail (fl : W.flag) : xout := {| xo_fwd := []; xo_batch := []; xo_nreq := 0; xo_flag := fl |}.

Definition xstep (c : xcfg) (s : xstate) (o : xop) : xstate * xout :=
  if x_dead s then (s, xout0) else
  match o with
  | XPoll cnt pg tok =>
    match x_inflight s with
    | Some _ => (s, xout0)
    | None =>
      match xpoll cnt pg tok (x_from s) with
      | XPIdle => (s, xout0)
      | XPBatch from' batch nreq =>
        ({| x_from := from'; x_inflight := Some batch; x_pending := x_pending s; x_enabled := x_enabled s; x_dead := false |},
         {| xo_fwd := []; xo_batch := batch; xo_nreq := nreq; xo_flag := W.FNone |})
      | XPFatal => (xdie s, xfail W.FFatal)
      | XPSpin => (xdie s, xfail W.FSpin)
      | XPPanic => (xdie s, xfail W.FPanic)
      end
    end
  | XDeliver =>
    match x_inflight s with
    | None => (s, xout0)
    | Some l =>
      ({| x_from := x_from s; x_inflight := None; x_pending := xadd_batch (x_pending s) l;
          x_enabled := if W.is_nil l then x_enabled s else true; x_dead := false |}, xout0)
    end
  | XTick height now mc hd =>
    match xprocess_blocks (xc_mainnet c) height now mc hd (x_pending s) with
    | None => (xdie s, xfail W.FFatal)
    | Some (p', conf) =>
      let '(f, err) := xhandle_confirmed (xc_bridge c) conf in
      ({| x_from := x_from s; x_inflight := x_inflight s; x_pending := p';
          x_enabled := if W.is_nil p' then false else x_enabled s; x_dead := err |},
       {| xo_fwd := f; xo_batch := []; xo_nreq := 0; xo_flag := if err then W.FFatal else W.FNone |})
    end
  | XReobs r =>
    let '(f, fl) := xreobserve c r in
    (match fl with W.FNone => s | _ => xdie s end, {| xo_fwd := f; xo_batch := []; xo_nreq := 0; xo_flag := fl |})
  | XHeightErr => (xdie s, xfail W.FFatal)
  end.

Fixpoint xrun (c : xcfg) (s : xstate) (ops : list xop) : list xout * xstate :=
  match ops with
  | [] => ([], s)
  | o :: t => let '(s', x) := xstep c s o in let '(xs, s'') := xrun c s' t in (x :: xs, s'')
  end.

Definition xinit (from0 : Z) : xstate :=
  {| x_from := from0; x_inflight := None; x_pending := []; x_enabled := false; x_dead := false |}.

Fixpoint xfinal (c : xcfg) (s : xstate) (ops : list xop) : xstate :=
  match ops with [] => s | o :: t => xfinal c (fst (xstep c s o)) t end.
Fixpoint xbatches (c : xcfg) (s : xstate) (ops : list xop) : list xuevent :=
  match ops with [] => [] | o :: t => xo_batch (snd (xstep c s o)) ++ xbatches c (fst (xstep c s o)) t end.
(* everything handed to the signer along a history, with the step that sent it *)
Fixpoint xall_fwds (c : xcfg) (s : xstate) (ops : list xop) : list (xop * xfwd) :=
  match ops with [] => [] | o :: t => map (fun f => (o, f)) (xo_fwd (snd (xstep c s o))) ++ xall_fwds c (fst (xstep c s o)) t end.

(* ================================================================== the abstraction onto model.AlphWatcher *)
(* byte strings as the abstract identifiers of model.AlphWatcher (injective; the zero token id, "ALPH" and "Alephium" are
   mapped to the identifiers that model reserves for the native token) *)
Definition enc (b : bytes) : Z := unbe (x01 :: b).
Definition enc_id (b : bytes) : Z := if bytes_eqb b alph_token_id then W.alph_native_id else 1 + enc b.
Definition enc_str (s : bytes) : Z :=
  if bytes_eqb s alph_native_symbol then W.alph_native_sym else if bytes_eqb s alph_native_name then W.alph_native_name else 2 + enc s.

Definition abs_tok (t : C.token_info) : W.tokinfo :=
  {| W.ti_id := enc_id (C.t_id t); W.ti_dec := C.t_decimals t; W.ti_sym := enc_str (C.t_symbol t); W.ti_name := enc_str (C.t_name t) |}.
Definition abs_msg (w : C.wmsg) : W.wmsg :=
  {| W.m_sender := enc_id (C.w_sender w); W.m_cl := C.w_cl w; W.m_p0 := xp0 w;
     W.m_tok := match C.parse_attest_token (C.w_payload w) with C.COk t => Some (abs_tok t) | C.CErr _ => None end |}.
Definition abs_event (e : xevent) : W.cevent :=
  {| W.e_uid := x_uid e; W.e_block := x_block e; W.e_index := x_index e; W.e_conv := option_map abs_msg (conv e) |}.
Definition abs_tevent (txid : bytes) (te : xtevent) : W.tevent := {| W.t_addr := xt_addr te; W.t_ev := abs_event (with_txid txid (xt_ev te)) |}.
Definition abs_u (u : xuevent) : W.uevent :=
  {| W.u_ev := abs_event (xu_ev u); W.u_msg := abs_msg (xu_msg u); W.u_chain := option_map abs_tok (xu_chain u) |}.
Definition abs_fwd (f : xfwd) : W.fwd :=
  {| W.f_ev := abs_event (xf_ev f); W.f_msg := abs_msg (xf_msg f); W.f_hdr := xf_hdr f; W.f_chain := option_map abs_tok (xf_chain f) |}.

Definition abs_val (v : C.val) : W.val :=
  match v with
  | C.VByteVec _ _ => W.VBytes (match C.to_bytevec v with C.COk b => Some (enc_str (C.bytes_to_string b)) | C.CErr _ => None end)
  | C.VU256 _ _ => W.VNum (match C.to_uint8 v with C.COk d => Some d | C.CErr _ => None end)
  | _ => W.VOther
  end.
Definition abs_call (r : xcallres) : W.callres := match r with XFailed => W.CFailed | XOk rets => W.COk (map abs_val rets) end.
Definition abs_ans (a : xmc_ans) : W.mc_ans := match a with XMcErr => W.McErr | XMcRes rs => W.McRes (map abs_call rs) end.
Definition abs_page (a : xpage_ans) : W.page_ans := match a with XPageErr => W.PageErr | XPage evs n => W.Page (map abs_event evs) n end.
Definition abs_pblock (b : xpblock) : W.pblock := {| W.pb_hash := xpb_hash b; W.pb_hdr := xpb_hdr b; W.pb_evs := map abs_u (xpb_evs b) |}.

Definition abs_cfg (c : xcfg) : W.cfg := {| W.c_gov := xc_gov c; W.c_bridge := enc_id (xc_bridge c); W.c_mainnet := xc_mainnet c |}.
Definition abs_reobs (r : xreobs_in) : W.reobs_in :=
  {| W.r_chain := xr_chain r; W.r_txlen := Z.of_nat (length (xr_txhash r)); W.r_status := xr_status r;
     W.r_events := option_map (map (abs_tevent (req_txid r))) (xr_events r); W.r_hd := xr_hd r;
     W.r_tok := fun i => abs_ans (xr_tok r i); W.r_mc := xr_mc r; W.r_height := xr_height r; W.r_now := xr_now r |}.
Definition abs_op (o : xop) : W.op :=
  match o with
  | XPoll cnt pg tok => W.OPoll cnt (fun k s => abs_page (pg k s)) (fun i => abs_ans (tok i))
  | XDeliver => W.ODeliver
  | XTick height now mc hd => W.OTick height now mc hd
  | XReobs r => W.OReobs (abs_reobs r)
  | XHeightErr => W.OHeightErr
  end.
Definition abs_state (s : xstate) : W.wstate :=
  {| W.w_from := x_from s; W.w_inflight := option_map (map abs_u) (x_inflight s); W.w_pending := map abs_pblock (x_pending s);
     W.w_enabled := x_enabled s; W.w_dead := x_dead s |}.
Definition abs_out (x : xout) : W.out :=
  {| W.o_fwd := map abs_fwd (xo_fwd x); W.o_batch := map abs_u (xo_batch x); W.o_nreq := xo_nreq x; W.o_flag := xo_flag x |}.
