(* Executable model of the explorer backend's ingestion gate (C19):
     explorer-backend/processor/vaa_gossip_consumer.go   verifyVAA, Push
     explorer-backend/guardiansets/gst_data.go           GetGuardianSet, GetCurrentGuardianSet, updateGuardianSets
     explorer-backend/deduplicator/deduplicator.go       Apply
   plus a small-step interleaving semantics of one lookup and one append.  No proofs here (proofs/ExplorerProofs.v). *)
From Coq Require Import List ZArith Bool Arith.
From Coq Require Import Strings.Byte.
From WH Require Import lib.Bytes gen.Extracted model.Vaa.
Import ListNotations.
Open Scope Z_scope.

(* common.GuardianSet: Keys is a Go slice, None = nil *)
Record gset := { g_index : Z; g_keys : option (list bytes) }.

(* GuardianSets: currentGuardianSetIndex (int), guardianSetLists *)
Record store := { cur : Z; lists : list gset }.

Definition u32 (x : Z) : Z := x mod 2 ^ 32.

(* ------------------------------------------------------------------ updateGuardianSets *)
(* `index := 0; for i, g := range sets { if g.Index == want { index = i; break } }` *)
Fixpoint find_start (want : Z) (i : nat) (l : list gset) : nat :=
  match l with
  | [] => 0%nat
  | g :: t => if g_index g =? want then i else find_start want (S i) t
  end.

Definition last_index (l : list gset) : option Z :=
  match rev l with [] => None | g :: _ => Some (g_index g) end.

(* the decisions taken under the lock: None = return without writing, Some (new index, elements to append) *)
Definition update_plan (s : store) (batch : list gset) : option (Z * list gset) :=
  match last_index batch with
  | None => None                                    (* len(guardianSets) == 0 *)
  | Some maxi =>
    if maxi <=? u32 (cur s) then None else
    let index := find_start (u32 (u32 (cur s) + 1)) 0 batch in
    Some (maxi, skipn index batch)
  end.

(* the two separate writes *)
Definition write_index (s : store) (c : Z) : store := {| cur := c; lists := lists s |}.
Definition write_append (s : store) (l : list gset) : store := {| cur := cur s; lists := lists s ++ l |}.

Definition update (s : store) (batch : list gset) : store :=
  match update_plan s batch with
  | None => s
  | Some (c, suf) => write_append (write_index s c) suf
  end.

(* ------------------------------------------------------------------ lookups *)
(* gs.guardianSetLists[i]: None = index out of range (a Go panic) *)
Definition nth_set (s : store) (i : Z) : option gset :=
  if i <? 0 then None else nth_error (lists s) (Z.to_nat i).

Definition get_current (s : store) : option gset := nth_set s (cur s).

Inductive gres := GOk (g : gset) | GErrFetch | GErrIndex | GPanic.

Section Get.
(* the chain: [chain from to] = getGuardianSetsRange(from, to): None = RPC error *)
Variable chain : Z -> Z -> option (list gset).

(* GetGuardianSet(index): new store, result, indices of the sets sent on guardianSetC *)
Definition get (s : store) (i : Z) : store * gres * list Z :=
  if i <=? cur s then
    (s, match nth_set s i with Some g => GOk g | None => GPanic end, [])
  else
    match chain (u32 (cur s + 1)) (u32 i) with
    | None => (s, GErrFetch, [])
    | Some batch =>
      let s' := update s batch in
      match get_current s' with
      | None => (s', GPanic, [])
      | Some c =>
        if cur s' <? i then (s', GErrIndex, [g_index c])
        else (s', match nth_set s' i with Some g => GOk g | None => GPanic end, [g_index c])
      end
    end.
End Get.

(* ------------------------------------------------------------------ verifyVAA *)
Inductive verr := ENoAddresses | ENotSigned | ENoQuorum | EBadSigs.

Section Gate.
Variable recover : bytes -> bytes -> option bytes.
Variable keccak : bytes -> bytes.

Definition verify_vaa (v : vaa) (addrs : option (list bytes)) : option verr :=
  match addrs with
  | None => Some ENoAddresses
  | Some a =>
    if (length (sigs v) =? 0)%nat then Some ENotSigned else
    if Z.of_nat (length (sigs v)) <? go_quorum (Z.of_nat (length a)) then Some ENoQuorum else
    if negb (verify_sigs recover keccak v a) then Some EBadSigs else None
  end.

(* ------------------------------------------------------------------ deduplicator.Apply *)
(* MessageID(): "%d/%s/%d/%d" of emitter chain, emitter address, target chain, sequence *)
Definition mkey := (Z * bytes * Z * Z)%type.
Definition key_of (v : vaa) : mkey := (echain v, eaddr v, tchain v, seq v).
Definition mkey_eqb (a b : mkey) : bool :=
  let '(c1, a1, t1, s1) := a in let '(c2, a2, t2, s2) := b in
  (c1 =? c2) && bytes_eqb a1 a2 && (t1 =? t2) && (s1 =? s2).
Definition seenb (k : mkey) (seen : list mkey) : bool := existsb (mkey_eqb k) seen.

Inductive dres := DSkipped | DFailed | DApplied.

(* the callback works on some state S and may fail (None); the key is marked only after it succeeded *)
Definition dedup_apply {S : Type} (seen : list mkey) (k : mkey) (cb : S -> option S) (s : S) : list mkey * S * dres :=
  if seenb k seen then (seen, s, DSkipped) else
  match cb s with
  | None => (seen, s, DFailed)
  | Some s' => (k :: seen, s', DApplied)
  end.

(* ------------------------------------------------------------------ Push *)
Definition msg := (vaa * bytes)%type.

(* select { case queue <- m: ok; default: full } on a channel of capacity qcap *)
Definition enqueue (qcap : nat) (m : msg) (q : list msg) : option (list msg) :=
  if (length q <? qcap)%nat then Some (q ++ [m]) else None.

Record pstate := { p_gs : store; p_seen : list mkey; p_queue : list msg }.

Inductive pres := PEnqueued | PDuplicate | PErrGet (e : gres) | PErrVerify (e : verr) | PQueueFull | PPanic.

Variable chain : Z -> Z -> option (list gset).
Variable qcap : nat.

Definition push (st : pstate) (m : msg) : pstate * pres * list Z :=
  let v := fst m in
  let '(s', r, sent) := get chain (p_gs st) (gsidx v) in
  let st1 := {| p_gs := s'; p_seen := p_seen st; p_queue := p_queue st |} in
  match r with
  | GPanic => (st1, PPanic, sent)
  | GErrFetch | GErrIndex => (st1, PErrGet r, sent)
  | GOk g =>
    match verify_vaa v (g_keys g) with
    | Some e => (st1, PErrVerify e, sent)
    | None =>
      let '(seen', q', d) := dedup_apply (p_seen st) (key_of v) (enqueue qcap m) (p_queue st) in
      ({| p_gs := s'; p_seen := seen'; p_queue := q' |},
       match d with DSkipped => PDuplicate | DFailed => PQueueFull | DApplied => PEnqueued end, sent)
    end
  end.

(* the queue consumer takes the oldest message *)
Definition dequeue (st : pstate) : pstate * option msg :=
  match p_queue st with
  | [] => (st, None)
  | m :: q => ({| p_gs := p_gs st; p_seen := p_seen st; p_queue := q |}, Some m)
  end.
End Gate.

(* ------------------------------------------------------------------ one lookup against one append, step by step *)
(* Writer = updateGuardianSets(batch): Lock; decide; write index; append; Unlock (the two writes in source order).
   Reader = the part of GetGuardianSet(i) that touches the store: compare i with the current index, then index the list.
   [rlocked] says whether the reader does this under gs.lock (extracted: explorer_reader_locked). *)
Inductive tid := TR | TW.

Inductive wpc :=
| W0                                   (* not started *)
| W1                                   (* holds the lock *)
| W2 (c : Z) (suf : list gset)         (* first write done, second pending *)
| W3                                   (* both writes done (or nothing to write), lock still held *)
| W4.                                  (* returned *)

Inductive rres := RSet (g : gset) | RMiss (* i > current: the caller goes to the chain *) | RPanic.

Inductive rpc :=
| R0
| R1                                   (* holds the lock (locked reader only) *)
| R2                                   (* compared: i <= current *)
| R3 (r : rres)                        (* result read, lock still held (locked reader only) *)
| R4 (r : rres).                       (* returned *)

Record cst := { c_store : store; c_lock : option tid; c_w : wpc; c_r : rpc }.

Definition cinit (s : store) : cst := {| c_store := s; c_lock := None; c_w := W0; c_r := R0 |}.

Section Interleave.
Variable rlocked : bool.
Variable index_first : bool.
Variable batch : list gset.
Variable i : Z.

Definition set_w (c : cst) (s : store) (l : option tid) (w : wpc) : cst :=
  {| c_store := s; c_lock := l; c_w := w; c_r := c_r c |}.
Definition set_r (c : cst) (l : option tid) (r : rpc) : cst :=
  {| c_store := c_store c; c_lock := l; c_w := c_w c; c_r := r |}.

(* None = the thread cannot move (waits for the lock, or has returned) *)
Definition wstep (c : cst) : option cst :=
  match c_w c with
  | W0 =>
    match batch with
    | [] => Some (set_w c (c_store c) (c_lock c) W4)          (* returns before locking *)
    | _ => match c_lock c with
           | None => Some (set_w c (c_store c) (Some TW) W1)
           | Some _ => None
           end
    end
  | W1 =>
    match update_plan (c_store c) batch with
    | None => Some (set_w c (c_store c) (c_lock c) W3)
    | Some (n, suf) =>
      if index_first then Some (set_w c (write_index (c_store c) n) (c_lock c) (W2 n suf))
      else Some (set_w c (write_append (c_store c) suf) (c_lock c) (W2 n suf))
    end
  | W2 n suf =>
    if index_first then Some (set_w c (write_append (c_store c) suf) (c_lock c) W3)
    else Some (set_w c (write_index (c_store c) n) (c_lock c) W3)
  | W3 => Some (set_w c (c_store c) None W4)
  | W4 => None
  end.

Definition read_set (s : store) : rres :=
  match nth_set s i with Some g => RSet g | None => RPanic end.

Definition rstep (c : cst) : option cst :=
  match c_r c with
  | R0 =>
    if rlocked then
      match c_lock c with
      | None => Some (set_r c (Some TR) R1)
      | Some _ => None
      end
    else if i <=? cur (c_store c) then Some (set_r c (c_lock c) R2) else Some (set_r c (c_lock c) (R4 RMiss))
  | R1 => if i <=? cur (c_store c) then Some (set_r c (c_lock c) R2) else Some (set_r c (c_lock c) (R3 RMiss))
  | R2 => if rlocked then Some (set_r c (c_lock c) (R3 (read_set (c_store c))))
          else Some (set_r c (c_lock c) (R4 (read_set (c_store c))))
  | R3 r => Some (set_r c None (R4 r))
  | R4 _ => None
  end.

Definition cstep (t : tid) (c : cst) : cst :=
  match (match t with TR => rstep c | TW => wstep c end) with
  | Some c' => c'
  | None => c                       (* a thread that cannot move: the scheduler's choice has no effect *)
  end.

Definition crun (sched : list tid) (c : cst) : cst := fold_left (fun c t => cstep t c) sched c.
End Interleave.
