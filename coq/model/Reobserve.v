(* Executable model of the re-observation dispatcher (node/cmd/guardiand/reobserve.go: handleReobservationRequests) and
   of common.PostObservationRequest (node/pkg/common/obsvReqSendC.go).
   GENERATED from the source (gen/x_reobserve.py): the purge period, the window and its comparison ([reobs_purge]),
   whether the send to the watcher queue is the non-blocking select ([reobs_send_nonblocking]), whether the request is
   remembered only in the successful-send branch ([reobs_remember_always] = false), the channel capacity and whether
   the post is non-blocking.
   Time is in nanoseconds (time.Duration); every step carries the value clock.Now() has when the handler runs it.
   The cache key is (vaa.ChainID(req.ChainId), hex(req.TxHash)): the uint16 conversion is the explicit [mod 65536];
   hex encoding is injective, so the transaction bytes stand for their hex string.
   A channel is a bounded FIFO list; a blocking send on a full channel is the distinguished outcome [Blocked].
   No proofs here (proofs/ReobserveProofs.v). *)
From Coq Require Import List ZArith Bool Arith.
From Coq Require Import Strings.Byte.
From WH Require Import lib.Bytes gen.Extracted.
Import ListNotations.
Open Scope Z_scope.

Definition bytes := list byte.

Record req := { r_chain : Z; r_tx : bytes }.          (* gossipv1.ObservationRequest: ChainId (uint32), TxHash *)
Definition rkey := (Z * bytes)%type.                  (* cachedRequest{chainId, txHash} *)
Definition chain_of (r : req) : Z := r_chain r mod 65536.
Definition key_of (r : req) : rkey := (chain_of r, r_tx r).
Definition key_eqb (a b : rkey) : bool := (fst a =? fst b) && bytes_eqb (snd a) (snd b).

Record queue := { q_chain : Z; q_cap : nat; q_items : list req }.      (* chainObsvReqC[chain], a buffered channel *)
Record state := { cache : list (rkey * Z); queues : list queue }.

Definition init (qs : list queue) : state := {| cache := []; queues := qs |}.

Fixpoint cache_get (c : list (rkey * Z)) (k : rkey) : option Z :=
  match c with
  | [] => None
  | (k', t) :: r => if key_eqb k k' then Some t else cache_get r k
  end.

Fixpoint find_queue (qs : list queue) (c : Z) : option queue :=
  match qs with
  | [] => None
  | q :: r => if q_chain q =? c then Some q else find_queue r c
  end.

Definition full (q : queue) : bool := (q_cap q <=? length (q_items q))%nat.

(* replace the contents of the (first) queue of chain c *)
Fixpoint set_items (qs : list queue) (c : Z) (items : list req) : list queue :=
  match qs with
  | [] => []
  | q :: r => if q_chain q =? c then {| q_chain := q_chain q; q_cap := q_cap q; q_items := items |} :: r
              else q :: set_items r c items
  end.

Inductive op :=
| Req (r : req) (now : Z)      (* a request arrives on obsvReqC *)
| Tick (now : Z)               (* the purge ticker fires *)
| Drain (c : Z).               (* the watcher of chain c takes one request from its queue (environment) *)

Inductive out :=
| Forward (c : Z)              (* sent to the queue of chain c and remembered *)
| DropDup                      (* "skipping duplicate re-observation request" *)
| DropFull                     (* "failed to send reobservation request to watcher" *)
| DropUnknown                  (* "unknown chain ID for reobservation request" *)
| Blocked                      (* a blocking send on a full queue: the dispatcher stalls *)
| Purged
| Drained (r : option req).

Definition remember (st : state) (k : rkey) (now : Z) : list (rkey * Z) := (k, now) :: cache st.

Definition step (st : state) (o : op) : state * out :=
  match o with
  | Tick now =>
    ({| cache := filter (fun e => negb (reobs_purge (now - snd e))) (cache st); queues := queues st |}, Purged)
  | Req r now =>
    let k := key_of r in
    match cache_get (cache st) k with
    | Some _ => (st, DropDup)
    | None =>
      match find_queue (queues st) (fst k) with
      | None => (st, DropUnknown)
      | Some q =>
        if full q then
          ({| cache := if reobs_remember_always then remember st k now else cache st; queues := queues st |},
           if reobs_send_nonblocking then DropFull else Blocked)
        else
          ({| cache := remember st k now; queues := set_items (queues st) (fst k) (q_items q ++ [r]) |}, Forward (fst k))
      end
    end
  | Drain c =>
    match find_queue (queues st) c with
    | Some q => match q_items q with
                | x :: rest => ({| cache := cache st; queues := set_items (queues st) c rest |}, Drained (Some x))
                | [] => (st, Drained None)
                end
    | None => (st, Drained None)
    end
  end.

(* a history: every step with the state it started from and its outcome *)
Fixpoint run (st : state) (ops : list op) : list (state * op * out) :=
  match ops with
  | [] => []
  | o :: r => let '(st', x) := step st o in (st, o, x) :: run st' r
  end.
Fixpoint final (st : state) (ops : list op) : state :=
  match ops with
  | [] => st
  | o :: r => final (fst (step st o)) r
  end.

(* ------------------------------------------------------------------ PostObservationRequest *)
Inductive postres := PostOk | PostErrChanFull | PostBlocked.
Definition post (cap : nat) (items : list req) (r : req) : list req * postres :=
  if (cap <=? length items)%nat then (items, if post_nonblocking then PostErrChanFull else PostBlocked)
  else (items ++ [r], PostOk).

(* ------------------------------------------------------------------ concurrent callers of PostObservationRequest *)
(* The outbound queue has independent producers (the processor's cleanup loop, the admin RPC).  A call is one atomic step
   when the code is the select with default ([post_atomic], GENERATED); a test of len/cap followed by a send is two steps,
   and the second one — a plain send — cannot proceed on a full queue. *)
Inductive pstate := PStart | PPassed | PDone (r : postres).

Definition pstep (cap : nat) (items : list req) (ps : pstate) (r : req) : list req * pstate :=
  match ps with
  | PStart =>
    if post_atomic then let '(it, res) := post cap items r in (it, PDone res)
    else if (cap <=? length items)%nat then (items, PDone PostErrChanFull) else (items, PPassed)
  | PPassed => if (cap <=? length items)%nat then (items, PPassed) else (items ++ [r], PDone PostOk)
  | PDone x => (items, PDone x)
  end.

(* the caller has passed the fullness test and sits in a send that cannot proceed *)
Definition stalled (cap : nat) (items : list req) (ps : pstate) : bool :=
  match ps with PPassed => (cap <=? length items)%nat | _ => false end.

Fixpoint set_nth {A} (l : list A) (i : nat) (x : A) : list A :=
  match l, i with
  | [], _ => []
  | _ :: t, O => x :: t
  | h :: t, S j => h :: set_nth t j x
  end.

(* a schedule: which caller takes its next step *)
Fixpoint psched (cap : nat) (reqs : list req) (items : list req) (pss : list pstate) (sched : list nat) : list req * list pstate :=
  match sched with
  | [] => (items, pss)
  | i :: rest =>
    match nth_error pss i with
    | None => psched cap reqs items pss rest
    | Some ps => let '(items', ps') := pstep cap items ps (nth i reqs {| r_chain := 0; r_tx := [] |}) in
                 psched cap reqs items' (set_nth pss i ps') rest
    end
  end.
