(* X12: glue that evaluates the TRANSLATED Messages.sol entry point (gen/ExtractedSolVerify.v) on one harness row (harness/vaa
   zz_verif_solsrc_test.go): the environment built from the row (Gallina Keccak-256 as keccak256, the recorded recovery table as
   ecrecover — the EVM precompile answers the zero address for any v other than 27 / 28 and for a failed recovery —, the row's key list as
   the guardian set the VM names, never expired), the outcome as a number, the parsed struct as one byte string.  No proofs here. *)
From Coq Require Import String.
From Coq Require Import List ZArith Bool Arith.
From Coq Require Import Strings.Byte.
From WH Require Import lib.Bytes lib.SolRt lib.Keccak gen.Extracted gen.ExtractedSolVerify.
Import ListNotations.
Open Scope Z_scope.

Fixpoint tbl_lookup (k : list byte) (t : list (list byte * list byte)) : list byte :=
  match t with
  | [] => zero_address
  | (k', a) :: t' => if bytes_eqb k k' then a else tbl_lookup k t'
  end.

(* h: the digest the harness computed with go-ethereum over the body of the wire form (the table's entries are recoveries over h) *)
Definition row_env (keys : list (list byte)) (tbl : list (list byte * list byte)) (h : list byte) : SolEnv :=
  {| e_keccak256 := keccak256;
     e_ecrecover := fun hh v r s => if bytes_eqb hh h && ((v =? 27) || (v =? 28)) then tbl_lookup (r ++ s ++ [byte_of_Z v]) tbl else zero_address;
     e_getGuardianSet := fun _ => {| GuardianSet_keys := keys; GuardianSet_expirationTime := 0 |};
     e_curidx := 0; e_now := 0 |}.

(* 0 = the call reverts, 1 = (.., false, ..), 2 = (.., true, ..) *)
Definition outcome (E : SolEnv) (wire : list byte) : Z :=
  match src_parseAndVerifyVM E wire with
  | None => 0
  | Some (_, false, _) => 1
  | Some (_, true, _) => 2
  end.

(* the struct parseVM returns, as one byte string (v on two bytes so that a value above 255 would show) *)
Definition fields_bytes (vm : VM) : list byte :=
  be 1 (VM_version vm) ++ be 4 (VM_guardianSetIndex vm) ++ be 4 (VM_timestamp vm) ++ be 4 (VM_nonce vm) ++ be 2 (VM_emitterChainId vm)
  ++ be 2 (VM_targetChainId vm) ++ VM_emitterAddress vm ++ be 8 (VM_sequence vm) ++ be 1 (VM_consistencyLevel vm)
  ++ be 4 (Z.of_nat (length (VM_payload vm))) ++ VM_payload vm ++ VM_hash vm ++ be 2 (Z.of_nat (length (VM_signatures vm)))
  ++ flat_map (fun s => be 1 (Signature_guardianIndex s) ++ Signature_r s ++ Signature_s s ++ be 2 (Signature_v s)) (VM_signatures vm).

(* hash of the parsed struct, -1 when parseVM reverts *)
Definition parsed_hash (hash_bytes : list byte -> Z) (E : SolEnv) (wire : list byte) : Z :=
  match src_parseVM E wire with None => -1 | Some vm => hash_bytes (fields_bytes vm) end.

(* one row: want_accept = the node's decision; go_fields = hash of the node's field values (-2 = not compared);
   interp_fields = hash of what checks/sol_interp.py read (-1 = it reverts, -2 = not compared) *)
Definition row_ok (hash_bytes : list byte -> Z) (wire : list byte) (keys : list (list byte)) (tbl : list (list byte * list byte)) (h : list byte)
                  (want_accept : bool) (go_fields interp_fields : Z) : bool :=
  let E := row_env keys tbl h in
  let p := parsed_hash hash_bytes E wire in
  Bool.eqb (outcome E wire =? 2) want_accept
  && ((go_fields =? -2) || (p =? go_fields))
  && ((interp_fields =? -2) || (p =? interp_fields)).
