(* Comparator used by the generated run/cases_C17_*.v files: replays one recorded history of the dispatcher harness on
   the model of model/Reobserve.v and compares every recorded observation.  Differential-testing aid only; no theorem
   depends on it. *)
From Coq Require Import List ZArith Bool Arith.
From Coq Require Import Strings.Byte.
From WH Require Import lib.Bytes lib.Wire gen.Extracted model.Reobserve.
Import ListNotations.
Open Scope Z_scope.

(* observed steps; times in whole seconds since the start of the history *)
Inductive dop :=
| DReq (chain : Z) (tx : bytes) (t : Z) (code : Z) (lens : list Z)     (* 0 forwarded, 1 duplicate, 2 full, 3 unknown, 8 stalled *)
| DTick (t : Z) (lens : list Z)
| DDrain (c : Z) (got : option (Z * bytes)) (lens : list Z).

Definition ns (t : Z) : Z := t * 1000000000.

Definition out_code (o : out) : Z :=
  match o with Forward _ => 0 | DropDup => 1 | DropFull => 2 | DropUnknown => 3 | Blocked => 8 | Purged => 10 | Drained _ => 11 end.

Definition lens_of (st : state) : list Z := map (fun q => Z.of_nat (length (q_items q))) (queues st).

Fixpoint zlist_eqb (a b : list Z) : bool :=
  match a, b with [], [] => true | x :: a', y :: b' => (x =? y) && zlist_eqb a' b' | _, _ => false end.

Definition req_eqb (r : req) (x : Z * bytes) : bool := (r_chain r =? fst x) && bytes_eqb (r_tx r) (snd x).
Fixpoint reqs_eqb (a : list req) (b : list (Z * bytes)) : bool :=
  match a, b with [], [] => true | x :: a', y :: b' => req_eqb x y && reqs_eqb a' b' | _, _ => false end.

(* one observed step against the model: new state and whether the observation agrees *)
Definition dstep (st : state) (o : dop) : state * bool :=
  match o with
  | DReq chain tx t code lens =>
    let '(st', x) := step st (Req {| r_chain := chain; r_tx := tx |} (ns t)) in
    (st', (out_code x =? code) && (match x with Forward c => c =? chain mod 65536 | _ => true end) && zlist_eqb (lens_of st') lens)
  | DTick t lens =>
    let '(st', x) := step st (Tick (ns t)) in (st', zlist_eqb (lens_of st') lens)
  | DDrain c got lens =>
    let '(st', x) := step st (Drain c) in
    (st', match x, got with
          | Drained (Some r), Some g => req_eqb r g
          | Drained None, None => true
          | _, _ => false
          end && zlist_eqb (lens_of st') lens)
  end.

Fixpoint drun (st : state) (ops : list dop) (i : Z) : state * list Z :=
  match ops with
  | [] => (st, [])
  | o :: r => let '(st', okk) := dstep st o in
              let '(stf, l) := drun st' r (i + 1) in (stf, if okk then l else i :: l)
  end.

(* initial queues: (chain, capacity, contents) *)
Definition mkq (x : Z * nat * list (Z * bytes)) : queue :=
  let '(c, cap, its) := x in {| q_chain := c; q_cap := cap; q_items := map (fun p => {| r_chain := fst p; r_tx := snd p |}) its |}.

Fixpoint finals_eqb (qs : list queue) (f : list (list (Z * bytes))) : bool :=
  match qs, f with [], [] => true | q :: qs', x :: f' => reqs_eqb (q_items q) x && finals_eqb qs' f' | _, _ => false end.

Inductive dcase :=
| CHist (period : Z) (qs : list (Z * nat * list (Z * bytes))) (ops : list dop) (final : list (list (Z * bytes))) (aborted : bool)
| CPost (cap : nat) (results lens : list Z).

Fixpoint post_run (cap : nat) (items : list req) (i : Z) (results lens : list Z) : bool :=
  match results, lens with
  | [], [] => true
  | x :: rs, l :: ls =>
    let '(items', res) := post cap items {| r_chain := 2; r_tx := [byte_of_Z i] |} in
    ((match res with PostOk => 0 | PostErrChanFull => 1 | PostBlocked => 3 end) =? x) && (Z.of_nat (length items') =? l)
    && post_run cap items' (i + 1) rs ls
  | _, _ => false
  end.

(* indices of the steps whose observation differs; -1: the ticker period or the final queue contents differ *)
Definition bad_steps (c : dcase) : list Z :=
  match c with
  | CHist period qs ops fin aborted =>
    let '(stf, l) := drun (init (map mkq qs)) ops 0 in
    (if (ns period =? reobs_period) && (aborted || finals_eqb (queues stf) fin) then [] else [-1]) ++ l
  | CPost cap results lens => if post_run cap [] 0 results lens then [] else [-1]
  end.

Definition ok (c : dcase) : bool := match bad_steps c with [] => true | _ => false end.
