(* Glue for the differential check of the guardian-set poll and of restarts of Watcher.Run (run/cases_C10gs_*.v,
   run/cases_C10_*.v): replays what the real code was answered on model/EvmGuardianSet.v and compares what it sent on setChan,
   the error it returned, w.currentGuardianSet, the index it named in the set call, and - across restarts - the forwarded
   messages and w.pending.  Guardian keys are small integers here.  No theorem depends on this file. *)
From Coq Require Import List ZArith Bool.
From WH Require Import gen.Extracted gen.ExtractedEvmGs model.EvmWatcher model.EvmWatcherCase model.EvmGuardianSet.
Import ListNotations.
Open Scope Z_scope.

Definition oz_eqb (a b : option Z) : bool :=
  match a, b with Some x, Some y => x =? y | None, None => true | _, _ => false end.
Fixpoint sets_eqb (a b : list (list Z * Z)) : bool :=
  match a, b with
  | [], [] => true
  | (k1, i1) :: s, (k2, i2) :: t => (i1 =? i2) && eqzl k1 k2 && sets_eqb s t
  | _, _ => false
  end.

(* one call of fetchAndUpdateGuardianSet as observed: w.currentGuardianSet before, answer of the index call, the index the
   implementation named in its set call (-1: it made none), answer of the set call (None: error or no call), what arrived on
   setChan, whether an error was returned, w.currentGuardianSet after *)
Definition fcase := (option Z * option Z * Z * option (list Z) * list (list Z * Z) * bool * option Z)%type.

Definition ans_of_case (ai : option Z) (asked : Z) (aset : option (list Z)) : gans Z :=
  mkGAns ai (fun j => if j =? asked then aset else None).
Definition asked_ok (ai : option Z) (asked : Z) : bool :=
  match ai with Some i => asked =? i | None => asked =? -1 end.
Definition is_gerr (o : gout Z) : bool := match o with GErr => true | _ => false end.
Definition gsets (l : list (gout Z)) : list (list Z * Z) := flat_map (fun o => match o with GSet ks i => [(ks, i)] | GErr => [] end) l.

Definition check_fetch (has : bool) (st : fcase) : bool :=
  let '(cur, ai, asked, aset, snt, err, cur') := st in
  let r := fetch has cur (ans_of_case ai asked aset) in
  asked_ok ai asked && oz_eqb (fst r) cur' && sets_eqb (gsets (snd r)) snt && Bool.eqb (existsb is_gerr (snd r)) err.

(* successive calls on one Watcher value: each starts from the index the previous one left *)
Fixpoint check_fetches (has : bool) (cur : option Z) (l : list fcase) : bool :=
  match l with
  | [] => true
  | st :: t =>
    let '(cur0, _, _, _, _, _, cur') := st in
    oz_eqb cur cur0 && check_fetch has st && check_fetches has cur' t
  end.

(* ------------------------------------------------------------------ histories of the real Run with restarts *)
Inductive gcop :=
| GCOp (o : cop)                                                        (* a log / head / re-observation as in EvmWatcherCase *)
| GCLogLost (e : ev)                                                    (* a log whose block-time lookup failed *)
| GCPollDead                                                            (* three failing polls in a row *)
| GCRestart (ai : option Z) (asked : Z) (aset : option (list Z))        (* Run re-entered; the answers to its initial fetch *)
| GCFetch (ai : option Z) (asked : Z) (aset : option (list Z)).         (* a fetch of the 15 s ticker goroutine *)

(* operations of one harness step; messages taken from msgChan afterwards; keys of w.pending afterwards; sets taken from setChan
   afterwards; how often Run returned during the step *)
Definition ggroup := (list gcop * list msg * list key * list (list Z * Z) * Z)%type.

Definition wsets (l : list (wout Z)) : list (list Z * Z) := sent1 l.
Definition wdied (l : list (wout Z)) : Z := Z.of_nat (length (filter (fun o => match o with WDied => true | _ => false end) l)).
Definition wfwd (l : list (wout Z)) : list msg := flat_map fwd_of (flat_map evm_of l).
Definition wpanic (l : list (wout Z)) : bool := existsb (fun o => match o with WEvm Panic => true | _ => false end) l.

(* one operation: new state, outputs, ok (request multiset of a head agrees, the set call named the right index, no Panic) *)
Definition gcstep (c : gcfg) (s : wstate) (o : gcop) : wstate * list (wout Z) * bool :=
  match o with
  | GCOp (COp x) => let r := gstep c s (GEvm x) in (fst r, snd r, negb (wpanic (snd r)))
  | GCOp (CHead n lks) =>
    let r := gstep c s (GEvm (OHead n evm_poll_safe (orc_of lks))) in
    (fst r, snd r, negb (wpanic (snd r)) &&
                   eqzl (sortz (flat_map looked_of (flat_map evm_of (snd r)))) (sortz (map fst lks)))
  | GCLogLost e => let r := gstep c s (GEvm (OLog e None)) in (fst r, snd r, true)
  | GCPollDead => let r := gstep c s (GPoll [None; None; None] (fun _ => mkAns None EOther)) in (fst r, snd r, true)
  | GCRestart ai asked aset =>
    let r := gstep c s (GRestart (ans_of_case ai asked aset) 0) in (fst r, snd r, asked_ok ai asked)
  | GCFetch ai asked aset =>
    let r := gstep c s (GFetch (ans_of_case ai asked aset)) in (fst r, snd r, asked_ok ai asked)
  end.

Fixpoint gcops (c : gcfg) (s : wstate) (os : list gcop) : wstate * list (wout Z) * bool :=
  match os with
  | [] => (s, [], true)
  | o :: t =>
    let '(s1, o1, b1) := gcstep c s o in
    let '(s2, o2, b2) := gcops c s1 t in
    (s2, o1 ++ o2, b1 && b2)
  end.

Fixpoint gcgroups (c : gcfg) (s : wstate) (gs : list ggroup) : bool :=
  match gs with
  | [] => true
  | (os, fw, pend, sets, died) :: t =>
    let '(s1, o1, b1) := gcops c s os in
    b1 && same_msgs (wfwd o1) fw && same_keys (keys (w_pending s1)) pend && sets_eqb (wsets o1) sets && (wdied o1 =? died)
    && gcgroups c s1 t
  end.

(* the history starts when the first Run is up: its initial fetch left index cur0 in the Watcher value *)
Definition check_ghistory (c : cfg) (cur0 : option Z) (gs : list ggroup) : bool :=
  gcgroups (mkGCfg c true) (mkW [] cur0 false 0) gs.
