(* Interpreters for the contract-side VAA parsers over the GENERATED layouts (Messages.sol parseVM, governance.ral
   parseAndVerifyVAA).  The contracts cannot be executed here; what is modelled is which bytes they read for which field. *)
From Coq Require Import List ZArith Bool Arith.
From Coq Require Import Strings.Byte.
From WH Require Import lib.Bytes lib.Layout gen.Extracted model.Vaa.
Import ListNotations.
Open Scope Z_scope.

Fixpoint fget (f : fld) (fs : list (fld * bytes)) : option bytes :=
  match fs with
  | [] => None
  | (g, b) :: t => if match f, g with
                      | FVersion, FVersion | FGsIndex, FGsIndex | FNumSigs, FNumSigs | FSigIndex, FSigIndex
                      | FSigR, FSigR | FSigS, FSigS | FSigV, FSigV | FTimestamp, FTimestamp | FNonce, FNonce
                      | FEChain, FEChain | FTChain, FTChain | FEAddr, FEAddr | FSeq, FSeq | FCL, FCL => true
                      | _, _ => false end then Some b else fget f t
  end.

Record sol_vm := { sv_header : list (fld * bytes); sv_sigs : list (list (fld * bytes)); sv_body : list (fld * bytes);
                   sv_payload : bytes; sv_hashed : bytes }.

(* Messages.sol parseVM: sequential reads; the hashed slice is `slice(index, length - index)` at the recorded position *)
Definition sol_parse (bs : bytes) : option sol_vm :=
  match read_layout sol_header_layout bs with None => None | Some (hd, r1) =>
  match fget FVersion hd, fget FNumSigs hd with
  | Some ver, Some n =>
    if negb (unbe ver =? sol_version_required) then None else
    match read_layouts (Z.to_nat (unbe n)) sol_sig_layout r1 with None => None | Some (sg, r2) =>
    match read_layout (firstn sol_hash_after_body_fields sol_body_layout) r2 with None => None | Some (_, rh) =>
    match read_layout sol_body_layout r2 with None => None | Some (bd, r3) =>
      Some {| sv_header := hd; sv_sigs := sg; sv_body := bd; sv_payload := r3; sv_hashed := rh |}
    end end end
  | _, _ => None
  end end.

(* what the Go serializer puts where *)
Definition go_header_fields (v : vaa) : list (fld * bytes) :=
  [(FVersion, be 1 (version v)); (FGsIndex, be 4 (gsidx v)); (FNumSigs, be 1 (Z.of_nat (length (sigs v))))].
Definition go_sig_fields (s : sig) : list (fld * bytes) :=
  [(FSigIndex, be 1 (s_idx s)); (FSigR, firstn 32 (s_data s)); (FSigS, firstn 32 (skipn 32 (s_data s)));
   (FSigV, skipn 64 (s_data s))].
Definition go_body_fields (v : vaa) : list (fld * bytes) :=
  [(FTimestamp, be 4 (ts v)); (FNonce, be 4 (nonce v)); (FEChain, be 2 (echain v)); (FTChain, be 2 (tchain v));
   (FEAddr, eaddr v); (FSeq, be 8 (seq v)); (FCL, be 1 (cl v))].

(* governance.ral parseAndVerifyVAA: absolute slices; None = the VM aborts *)
Record ral_vaa := { rv_gsidx : Z; rv_numsigs : Z; rv_sig_records : list (Z * bytes); rv_hashed : bytes;
                    rv_echain : Z; rv_tchain : Z; rv_eaddr : bytes; rv_seq : Z; rv_payload : bytes }.

Definition sl (l : bytes) (p : nat * nat) : option bytes := slice l (fst p) (snd p).

Fixpoint ral_sigs (data : bytes) (n : nat) (offset : nat) : option (list (Z * bytes)) :=
  match n with
  | O => Some []
  | S k =>
    match slice data (offset + fst ral_sig_index_rel) (offset + snd ral_sig_index_rel),
          slice data (offset + fst ral_sig_data_rel) (offset + snd ral_sig_data_rel) with
    | Some gi, Some sg =>
      match ral_sigs data k (offset + ral_sig_stride) with
      | Some t => Some ((unbe gi, sg) :: t)
      | None => None
      end
    | _, _ => None
    end
  end.

Definition ral_parse (data : bytes) : option ral_vaa :=
  match sl data ral_version_slice, sl data ral_gsidx_slice, sl data ral_numsigs_slice with
  | Some ver, Some gi, Some ns =>
    if negb (unbe ver =? ral_version_byte) then None else
    let n := Z.to_nat (unbe ns) in
    match slice data (ral_body_from n) (length data) with None => None | Some bd =>
    match ral_sigs data n ral_sig_offset0 with None => None | Some recs =>
    match sl bd ral_echain_slice, sl bd ral_tchain_slice, sl bd ral_eaddr_slice, sl bd ral_seq_slice,
          slice bd ral_payload_from (length bd) with
    | Some ec, Some tc, Some ea, Some sq, Some pl =>
      Some {| rv_gsidx := unbe gi; rv_numsigs := unbe ns; rv_sig_records := recs; rv_hashed := bd;
              rv_echain := unbe ec; rv_tchain := unbe tc; rv_eaddr := ea; rv_seq := unbe sq; rv_payload := pl |}
    | _, _, _, _, _ => None
    end end end
  | _, _, _ => None
  end.
