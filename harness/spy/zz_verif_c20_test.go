//go:build verif

package spy

// C20: the real spyServer (Publish, SubscribeSignedVAA) driven through fake gRPC server streams.
// A scenario is a list of ops decided up front from the seed; the interpreter executes it against a fresh spyServer and
// writes one JSON row: the ops, what was observed for each, and what every subscriber's client was handed.
import (
	"context"
	"encoding/hex"
	"fmt"
	"sync"
	"testing"
	"time"

	publicrpcv1 "github.com/alephium/wormhole-fork/node/pkg/proto/publicrpc/v1"
	spyv1 "github.com/alephium/wormhole-fork/node/pkg/proto/spy/v1"
	"github.com/alephium/wormhole-fork/node/pkg/vaa"
	"go.uber.org/zap"
	"google.golang.org/grpc"
)

const vDeadline = 5 * time.Second

// ---------------------------------------------------------------- fake stream
type vStream struct {
	grpc.ServerStream
	ctx     context.Context
	cancel  context.CancelFunc
	mu      sync.Mutex
	got     [][]byte
	stalled bool
	ret     chan error // SubscribeSignedVAA's return value
}

func newVStream() *vStream {
	ctx, cancel := context.WithCancel(context.Background())
	return &vStream{ctx: ctx, cancel: cancel, ret: make(chan error, 1)}
}
func (s *vStream) Context() context.Context { return s.ctx }

// like a real server stream: fails once the stream's context is cancelled; a client that does not read makes it block
func (s *vStream) Send(r *spyv1.SubscribeSignedVAAResponse) error {
	s.mu.Lock()
	st := s.stalled
	s.mu.Unlock()
	if st {
		<-s.ctx.Done()
		return s.ctx.Err()
	}
	if err := s.ctx.Err(); err != nil {
		return err
	}
	s.mu.Lock()
	s.got = append(s.got, r.VaaBytes)
	s.mu.Unlock()
	return nil
}
func (s *vStream) count() int {
	s.mu.Lock()
	defer s.mu.Unlock()
	return len(s.got)
}

// ---------------------------------------------------------------- scenario description
type vReq struct {
	Chain int64  `json:"c"`
	Addr  string `json:"a"`    // the string sent in the request
	Kind  string `json:"kind"` // ok | short | long | nothex | unset
}
type vOp struct {
	Op   string `json:"op"` // sub | unsub | pub | stall | disc
	K    int    `json:"k"`
	Reqs []vReq `json:"reqs,omitempty"`
	N    int    `json:"n"`             // pub: ordinal of the publish
	Hex  string `json:"hex,omitempty"` // pub: the bytes
	Dec  bool   `json:"dec"`           // pub: generated as a decodable VAA
	// observations
	Res     string `json:"res"`               // sub: registered|rejected|blocked; unsub/disc: removed|blocked; pub: ok|err|blocked
	Got     []int  `json:"got"`               // unsub: publishes handed to subscriber k's client so far (ordinals, in order)
	Pending string `json:"pending,omitempty"` // disc: did a Publish that was blocked before complete afterwards? done|blocked
	PendErr bool   `json:"penderr,omitempty"`
}

// the harness's own notion of a filter (independent of the package's representation)
type vFilt struct {
	chainId     vaa.ChainID
	emitterAddr vaa.Address
}

type vSubState struct {
	stream   *vStream
	filters  []vFilt // harness's own reading of the request (in-range chains only), nil when the request has to be rejected
	nofilt   bool
	rejected bool
	live     bool // registered and not cancelled
	stalled  bool
	since    int   // first publish ordinal it can see
	expect   []int // ordinals it must be handed (monitor, from the property statement); duplicates for doubly matching filters
	wrapped  bool  // has a filter whose chain id is outside uint16: the statement does not say what it matches
}

func (s *spyServer) verifLen() (int, bool) {
	if !s.subsMu.TryLock() {
		return 0, false
	}
	defer s.subsMu.Unlock()
	return len(s.subs), true
}
func (s *spyServer) verifChansEmpty() (bool, bool) {
	if !s.subsMu.TryLock() {
		return false, false
	}
	defer s.subsMu.Unlock()
	for _, sub := range s.subs {
		if len(sub.ch) != 0 {
			return false, true
		}
	}
	return true, true
}

func waitUntil(d time.Duration, f func() bool) bool {
	end := time.Now().Add(d)
	for {
		if f() {
			return true
		}
		if time.Now().After(end) {
			return false
		}
		time.Sleep(200 * time.Microsecond)
	}
}

func mkRequest(reqs []vReq) *spyv1.SubscribeSignedVAARequest {
	r := &spyv1.SubscribeSignedVAARequest{}
	for _, q := range reqs {
		if q.Kind == "unset" {
			r.Filters = append(r.Filters, &spyv1.FilterEntry{})
			continue
		}
		r.Filters = append(r.Filters, &spyv1.FilterEntry{Filter: &spyv1.FilterEntry_EmitterFilter{
			EmitterFilter: &spyv1.EmitterFilter{ChainId: publicrpcv1.ChainID(q.Chain), EmitterAddress: q.Addr}}})
	}
	return r
}

// runScenario executes ops; returns the monitor messages (the property statement evaluated on what was observed)
func runScenario(ops []vOp) (mon []string, final map[string][]int, quirks map[string]int) {
	mon = []string{}
	srv := newSpyServer(zap.NewNop())
	subsK := map[int]*vSubState{}
	pubs := map[string]int{} // bytes -> ordinal
	undec := map[int]bool{}  // ordinals of publishes that are not decodable VAAs
	quirks = map[string]int{}
	final = map[string][]int{}
	var pendingPub chan error
	blockedSeen := false
	lateOnce := false
	anomalies := 0
	say := func(m string) {
		for _, ss := range subsK {
			if ss.live && ss.stalled {
				m = "[stalled-connected] " + m
				break
			}
		}
		mon = append(mon, m)
	}
	ordinals := func(st *vStream) []int {
		st.mu.Lock()
		defer st.mu.Unlock()
		out := []int{}
		for _, b := range st.got {
			out = append(out, pubs[string(b)])
		}
		return out
	}
	// wait until every reading live subscriber's client holds what the statement says it must (or the deadline passes)
	waitDeliveries := func() {
		if blockedSeen {
			return // what a blocked Publish still owes cannot arrive
		}
		d := vDeadline
		if lateOnce {
			d = 100 * time.Millisecond // a delivery was already missed in this scenario (reported at the end): do not wait 5 s again for every op
		}
		if !waitUntil(d, func() bool {
			for _, ss := range subsK {
				if ss.live && !ss.stalled && ss.stream.count() < len(ss.expect) {
					return false
				}
			}
			return true
		}) {
			lateOnce = true
		}
	}
	checkSub := func(k int, ss *vSubState, when string) {
		if ss.wrapped {
			return
		}
		got := ordinals(ss.stream)
		// membership (the statement): handed to the client iff owed; order: publish order
		owed := map[int]int{}
		for _, n := range ss.expect {
			owed[n]++
		}
		have := map[int]int{}
		last := -1
		for _, n := range got {
			have[n]++
			if n < last {
				say(fmt.Sprintf("subscriber %d was handed publish %d after publish %d (%s)", k, n, last, when))
			}
			last = n
		}
		for n := range owed {
			if have[n] == 0 {
				say(fmt.Sprintf("MISSING: subscriber %d (filters %v) was not handed matching publish %d (%s)", k, ss.filters, n, when))
			}
		}
		for n, c := range have {
			if undec[n] && ss.nofilt {
				quirks["undecodable bytes handed to a subscriber without filters"]++
				continue
			}
			if owed[n] == 0 {
				say(fmt.Sprintf("EXTRA: subscriber %d (filters %v) was handed publish %d which matches none of its filters (%s)", k, ss.filters, n, when))
			} else if c > 1 {
				quirks["delivered more than once (several matching filters)"]++
				if c != owed[n] {
					say(fmt.Sprintf("subscriber %d was handed publish %d %d times with %d matching filters (%s)", k, n, c, owed[n], when))
				}
			}
		}
	}
	for i := range ops {
		op := &ops[i]
		switch op.Op {
		case "sub":
			ss := &vSubState{stream: newVStream(), nofilt: len(op.Reqs) == 0, since: len(pubs)}
			for _, q := range op.Reqs {
				if q.Kind != "ok" {
					ss.rejected = true
				} else {
					if q.Chain < 0 || q.Chain > 65535 {
						ss.wrapped = true
					}
					var a vaa.Address
					b, _ := hex.DecodeString(q.Addr)
					copy(a[:], b)
					ss.filters = append(ss.filters, vFilt{chainId: vaa.ChainID(q.Chain), emitterAddr: a})
				}
			}
			subsK[op.K] = ss
			before, okb := srv.verifLen()
			go func() { ss.stream.ret <- srv.SubscribeSignedVAA(mkRequest(op.Reqs), ss.stream) }()
			registered := false
			returned := false
			dl := vDeadline
			if anomalies > 0 && !blockedSeen {
				dl = 300 * time.Millisecond // this scenario already showed a registration / delivery anomaly (reported): do not wait 5 s per op again
			}
			waitUntil(dl, func() bool {
				select {
				case <-ss.stream.ret:
					returned = true
					return true
				default:
				}
				if n, ok := srv.verifLen(); ok && okb && n == before+1 {
					registered = true
					return true
				}
				return false
			})
			switch {
			case returned:
				op.Res = "rejected"
				if !ss.rejected {
					say(fmt.Sprintf("subscription %d with well-formed filters was refused", op.K))
				}
			case registered:
				op.Res = "registered"
				ss.live = true
				if ss.rejected {
					say(fmt.Sprintf("subscription %d with a malformed filter was registered", op.K))
				}
			default:
				op.Res = "blocked"
				anomalies++
				if !blockedSeen {
					say(fmt.Sprintf("REGISTRATION BLOCKED: SubscribeSignedVAA (subscriber %d) did not register within %v (it neither returned nor did the number of registered subscriptions grow)", op.K, dl))
				} else {
					say(fmt.Sprintf("registration of subscriber %d did not complete within %v while a Publish is blocked", op.K, vDeadline))
				}
			}
		case "stall":
			ss := subsK[op.K]
			waitDeliveries()
			ss.stream.mu.Lock()
			ss.stream.stalled = true
			ss.stream.mu.Unlock()
			ss.stalled = true
		case "unsub", "disc":
			ss := subsK[op.K]
			if op.Op == "unsub" {
				waitDeliveries()
				if e, ok := srv.verifChansEmpty(); ok && !e {
					waitUntil(vDeadline, func() bool { e, ok := srv.verifChansEmpty(); return ok && e })
				}
				time.Sleep(2 * time.Millisecond)
				if !ss.stalled {
					checkSub(op.K, ss, "at unsubscribe")
				}
			}
			op.Got = ordinals(ss.stream)
			ss.live = false
			ss.stream.cancel()
			removed := false
			select {
			case <-ss.stream.ret:
				removed = true
			case <-time.After(vDeadline):
			}
			if removed {
				op.Res = "removed"
			} else {
				op.Res = "blocked"
				say(fmt.Sprintf("REMOVAL BLOCKED: subscriber %d disconnected but its subscription was not removed within %v", op.K, vDeadline))
			}
			if pendingPub != nil {
				select {
				case err := <-pendingPub:
					op.Pending = "done"
					op.PendErr = err != nil
					pendingPub = nil
				case <-time.After(vDeadline):
					op.Pending = "blocked"
					say(fmt.Sprintf("PUBLISH STILL BLOCKED: a Publish that was blocked before is still blocked %v after subscriber %d disconnected", vDeadline, op.K))
				}
			}
		case "pub":
			b, _ := hex.DecodeString(op.Hex)
			pubs[string(b)] = op.N
			if !op.Dec {
				undec[op.N] = true
			}
			// the statement, evaluated by the harness itself
			var v *vaa.VAA
			if op.Dec {
				var err error
				v, err = vaa.Unmarshal(b)
				if err != nil {
					say("harness: generated VAA does not decode: "+err.Error())
				}
			}
			for _, ss := range subsK {
				if !ss.live {
					continue
				}
				if ss.nofilt {
					if op.Dec {
						ss.expect = append(ss.expect, op.N)
					}
					continue
				}
				if v != nil {
					for _, f := range ss.filters {
						if f.chainId == v.EmitterChain && f.emitterAddr == v.EmitterAddress {
							ss.expect = append(ss.expect, op.N)
						}
					}
				}
			}
			done := make(chan error, 1)
			go func() { done <- srv.Publish(b) }()
			select {
			case err := <-done:
				op.Res = "ok"
				if err != nil {
					op.Res = "err"
					if op.Dec {
						say("Publish of a decodable VAA returned an error: "+err.Error())
					}
				}
				waitDeliveries()
			case <-time.After(vDeadline):
				op.Res = "blocked"
				pendingPub = done
				victim := ""
				for k, ss := range subsK {
					if ss.live && ss.stalled {
						victim += fmt.Sprintf(" %d", k)
					}
				}
				if !blockedSeen {
					say(fmt.Sprintf("PUBLISH BLOCKED: Publish #%d did not return within %v (subscribers that stopped reading:%s)", op.N, vDeadline, victim))
				}
				blockedSeen = true
			}
			if !op.Dec {
				// undecodable bytes: nobody with filters may be handed them (who else gets them depends on the map order)
				for k, ss := range subsK {
					if ss.live && !ss.nofilt {
						for _, n := range ordinals(ss.stream) {
							if n == op.N {
								say(fmt.Sprintf("EXTRA: subscriber %d with filters was handed undecodable bytes (publish %d)", k, op.N))
							}
						}
					}
				}
			}
		}
	}
	// end: everything in flight arrives, then look at every live reading subscriber
	if !blockedSeen {
		waitDeliveries()
		waitUntil(vDeadline, func() bool { e, ok := srv.verifChansEmpty(); return ok && e })
		time.Sleep(2 * time.Millisecond)
	} else {
		time.Sleep(20 * time.Millisecond)
	}
	for k, ss := range subsK {
		if ss.live && !ss.stalled {
			if !blockedSeen {
				checkSub(k, ss, "at the end")
			} else {
				// deliveries owed by publishes that did return must still have arrived
				got := map[int]bool{}
				for _, n := range ordinals(ss.stream) {
					got[n] = true
				}
				for _, n := range ss.expect {
					returned := false
					for _, o := range ops {
						if o.Op == "pub" && o.N == n && o.Res != "blocked" {
							returned = true
						}
					}
					if returned && !got[n] && !ss.wrapped {
						say(fmt.Sprintf("MISSING: subscriber %d was not handed matching publish %d although that Publish returned", k, n))
					}
				}
			}
			final[fmt.Sprint(k)] = ordinals(ss.stream)
		}
	}
	// tidy up what can be tidied (blocked goroutines of a deadlocked server stay behind; the process exits soon)
	for _, ss := range subsK {
		ss.stream.cancel()
	}
	return
}

// ---------------------------------------------------------------- generation
type vGen struct {
	r      *vrng
	chains []int64
	addrs  [][]byte
	seq    uint64
}

func newVGen(r *vrng) *vGen {
	g := &vGen{r: r, chains: []int64{1, 2, 3}}
	for i := 0; i < 3; i++ {
		g.addrs = append(g.addrs, r.bytes(32))
	}
	g.addrs = append(g.addrs, append([]byte{}, g.addrs[0]...))
	g.addrs[3][31] ^= 1 // differs from addrs[0] in the last bit
	return g
}

func (g *vGen) vaaBytes() (string, bool) {
	r := g.r
	g.seq++
	switch r.below(12) {
	case 0: // not a VAA
		b := r.bytes(r.below(80))
		if len(b) > 0 && r.below(2) == 0 {
			b[0] = 1
		}
		b = append(b, byte(g.seq>>8), byte(g.seq)) // unique
		if _, err := vaa.Unmarshal(b); err == nil {
			return hex.EncodeToString(b), true
		}
		return hex.EncodeToString(b), false
	}
	v := &vaa.VAA{Version: 1, GuardianSetIndex: uint32(r.below(3)), Timestamp: time.Unix(int64(1600000000+r.below(1<<20)), 0), Nonce: uint32(r.next()),
		Sequence: g.seq, ConsistencyLevel: uint8(r.below(256)), EmitterChain: vaa.ChainID(g.chains[r.below(len(g.chains))]), TargetChain: vaa.ChainID(r.below(4)),
		Payload: r.bytes(1 + r.below(30))}
	copy(v.EmitterAddress[:], g.addrs[r.below(len(g.addrs))])
	if r.below(10) == 0 {
		v.EmitterChain = vaa.ChainID(r.below(65536))
	}
	if r.below(10) == 0 {
		copy(v.EmitterAddress[:], r.bytes(32))
	}
	// zero values of the filter type: emitter chain 0 and / or the all-zero emitter address (a valid VAA may carry both)
	switch r.below(16) {
	case 0:
		v.EmitterChain, v.EmitterAddress = 0, vaa.Address{}
	case 1:
		v.EmitterChain = 0
	case 2:
		v.EmitterAddress = vaa.Address{}
	}
	for i, n := 0, r.below(3); i < n; i++ {
		sg := &vaa.Signature{Index: uint8(i)}
		copy(sg.Signature[:], r.bytes(65))
		v.Signatures = append(v.Signatures, sg)
	}
	b, err := v.Marshal()
	if err != nil {
		panic(err)
	}
	if r.below(14) == 0 { // truncated encoding
		b = b[:r.below(len(b))]
		b = append(b, byte(g.seq>>8), byte(g.seq))
		_, err := vaa.Unmarshal(b)
		return hex.EncodeToString(b), err == nil
	}
	return hex.EncodeToString(b), true
}

func (g *vGen) reqs() []vReq {
	r := g.r
	n := 0
	switch r.below(6) {
	case 0, 1:
		n = 0
	case 2, 3:
		n = 1
	case 4:
		n = 2
	case 5:
		n = 3 + r.below(2)
	}
	out := []vReq{}
	for i := 0; i < n; i++ {
		q := vReq{Chain: g.chains[r.below(len(g.chains))], Addr: hex.EncodeToString(g.addrs[r.below(len(g.addrs))]), Kind: "ok"}
		switch r.below(30) {
		case 0:
			q.Addr, q.Kind = q.Addr[:62], "short"
		case 1:
			q.Addr, q.Kind = q.Addr+"00", "long"
		case 2:
			q.Addr, q.Kind = "zz"+q.Addr[2:], "nothex"
		case 3:
			q.Kind = "unset"
		case 4:
			q.Chain += 65536 // wraps to an existing chain id in vaa.ChainID(..)
		case 5:
			q.Chain = 0
		case 6, 7:
			if len(out) > 0 {
				q = out[r.below(len(out))] // the same filter twice
			}
		case 8:
			q.Addr = hex.EncodeToString(g.addrs[0]) // upper-case hex is hex too
			u := []byte(q.Addr)
			for j := range u {
				if u[j] >= 'a' && u[j] <= 'f' {
					u[j] -= 32
				}
			}
			q.Addr = string(u)
		}
		out = append(out, q)
	}
	return out
}

// matching scenarios: everybody reads; subscriptions come and go between publishes
func (g *vGen) matching() []vOp {
	r := g.r
	ops := []vOp{}
	next := 0
	live := []int{}
	npub := 0
	for i, n := 0, 8+r.below(16); i < n; i++ {
		x := r.below(10)
		switch {
		case x < 3 && len(live) < 6 || len(live) == 0 && x < 6:
			q := g.reqs()
			ops = append(ops, vOp{Op: "sub", K: next, Reqs: q})
			bad := false
			for _, e := range q {
				if e.Kind != "ok" {
					bad = true
				}
			}
			if !bad {
				live = append(live, next)
			}
			next++
		case x < 4 && len(live) > 0:
			j := r.below(len(live))
			ops = append(ops, vOp{Op: "unsub", K: live[j]})
			live = append(live[:j], live[j+1:]...)
		default:
			h, dec := g.vaaBytes()
			ops = append(ops, vOp{Op: "pub", N: npub, Hex: h, Dec: dec})
			npub++
		}
		if i == n/2 && len(live) > 0 {
			// a VAA whose emitter is the zero value of the filter type (chain 0, all-zero address), published while subscriptions are live
			g.seq++
			z := &vaa.VAA{Version: 1, Timestamp: time.Unix(1600000000, 0), Sequence: g.seq, Payload: []byte{1}}
			if b, err := z.Marshal(); err == nil {
				ops = append(ops, vOp{Op: "pub", N: npub, Hex: hex.EncodeToString(b), Dec: true})
				npub++
			}
		}
	}
	return ops
}

// isolation scenarios: one subscriber (the victim) stops reading or disconnects at point `at` of a stream of publishes,
// then publishes, a fresh registration and the removal of another subscriber must complete
func (g *vGen) isolation(kind string, at int) []vOp {
	ops := []vOp{}
	npub := 0
	pub := func() {
		for {
			h, dec := g.vaaBytes()
			if dec {
				ops = append(ops, vOp{Op: "pub", N: npub, Hex: h, Dec: true})
				npub++
				return
			}
		}
	}
	// victim 0 without filters (sees everything), readers 1 (no filters) and 2 (filters)
	ops = append(ops, vOp{Op: "sub", K: 0}, vOp{Op: "sub", K: 1})
	fr := []vReq{}
	for _, c := range g.chains {
		for _, a := range g.addrs {
			fr = append(fr, vReq{Chain: c, Addr: hex.EncodeToString(a), Kind: "ok"})
		}
	}
	ops = append(ops, vOp{Op: "sub", K: 2, Reqs: fr})
	for i := 0; i < at; i++ {
		pub()
	}
	switch kind {
	case "stall": // stops reading, stays connected
		ops = append(ops, vOp{Op: "stall", K: 0})
		pub()
		pub()
		pub()
		ops = append(ops, vOp{Op: "sub", K: 3}, vOp{Op: "unsub", K: 1})
	case "disc": // reading subscriber disconnects
		ops = append(ops, vOp{Op: "disc", K: 0})
		pub()
		pub()
		pub()
		ops = append(ops, vOp{Op: "sub", K: 3}, vOp{Op: "unsub", K: 1})
		pub()
	case "stall-disc": // stops reading, a Publish runs into its full channel, then it disconnects
		ops = append(ops, vOp{Op: "stall", K: 0})
		pub()
		pub()
		pub()
		ops = append(ops, vOp{Op: "disc", K: 0})
		pub()
		ops = append(ops, vOp{Op: "sub", K: 3}, vOp{Op: "unsub", K: 1})
		pub()
	}
	return ops
}

func TestVerifC20Match(t *testing.T) {
	r := &vrng{s: verifSeed() ^ 0xc20a}
	o := verifOut(t)
	defer o.close()
	n := 60
	if verifThorough() {
		n = 600
	}
	failing := 0
	for sc := 0; sc < n; sc++ {
		g := newVGen(r)
		ops := g.matching()
		mon, final, quirks := runScenario(ops)
		o.emit(map[string]interface{}{"k": "match", "sc": sc, "ops": ops, "final": final, "mon": mon, "quirks": quirks})
		if len(mon) > 0 {
			failing++
			if failing >= 3 {
				break // three failing scenarios are enough to report; the rest would only cost deadlines
			}
		}
	}
}

func TestVerifC20Isolation(t *testing.T) {
	r := &vrng{s: verifSeed() ^ 0xc20b}
	o := verifOut(t)
	defer o.close()
	type job struct {
		kind string
		at   int
		ops  []vOp
	}
	jobs := []job{}
	points := []int{0, 1, 3}
	if verifThorough() {
		points = []int{0, 1, 2, 3, 5, 8}
	}
	for _, kind := range []string{"stall", "disc", "stall-disc"} {
		for _, at := range points {
			g := newVGen(&vrng{s: r.next()})
			jobs = append(jobs, job{kind, at, g.isolation(kind, at)})
		}
	}
	var wg sync.WaitGroup
	for i := range jobs {
		wg.Add(1)
		go func(i int) {
			defer wg.Done()
			j := jobs[i]
			mon, final, quirks := runScenario(j.ops)
			o.emit(map[string]interface{}{"k": "iso", "sc": i, "kind": j.kind, "at": j.at, "ops": j.ops, "final": final, "mon": mon, "quirks": quirks})
		}(i)
	}
	wg.Wait()
}
