//go:build verif

package spy

// Bursts (rows "burst", monitors only): VAAs with 0..19 guardian signatures published back to back — faster than a slow client reads — to
// unfiltered and filtered subscribers that all keep reading.  The statement: every published VAA reaches every subscriber it matches (and no
// other), in publish order, however slow a READING subscriber is; nothing may be dropped because a buffer is full.

import (
	"encoding/hex"
	"fmt"
	"testing"
	"time"

	spyv1 "github.com/alephium/wormhole-fork/node/pkg/proto/spy/v1"
	"github.com/alephium/wormhole-fork/node/pkg/vaa"
	"go.uber.org/zap"
)

type vSlowStream struct {
	*vStream
	delay time.Duration
}

func (s *vSlowStream) Send(r *spyv1.SubscribeSignedVAAResponse) error {
	if s.delay > 0 {
		time.Sleep(s.delay)
	}
	return s.vStream.Send(r)
}

func TestVerifC20Burst(t *testing.T) {
	r := &vrng{s: verifSeed() ^ 0xc20c}
	o := verifOut(t)
	defer o.close()
	rounds := 3
	npub := 60
	if verifThorough() {
		rounds, npub = 12, 200
	}
	for round := 0; round < rounds; round++ {
		srv := newSpyServer(zap.NewNop())
		emA, emB := r.bytes(32), r.bytes(32)
		type sub struct {
			st      *vSlowStream
			filters []vReq
			name    string
		}
		subs := []*sub{
			{st: &vSlowStream{newVStream(), 2 * time.Millisecond}, name: "slow, no filters"},
			{st: &vSlowStream{newVStream(), 0}, name: "fast, no filters"},
			{st: &vSlowStream{newVStream(), time.Millisecond}, name: "slow, filter A", filters: []vReq{{Chain: 2, Addr: hex.EncodeToString(emA), Kind: "ok"}}},
			{st: &vSlowStream{newVStream(), 0}, name: "fast, filters B and A", filters: []vReq{{Chain: 4, Addr: hex.EncodeToString(emB), Kind: "ok"}, {Chain: 2, Addr: hex.EncodeToString(emA), Kind: "ok"}}},
			{st: &vSlowStream{newVStream(), 0}, name: "fast, filter B", filters: []vReq{{Chain: 4, Addr: hex.EncodeToString(emB), Kind: "ok"}}},
		}
		for _, s := range subs {
			s := s
			go func() { s.st.ret <- srv.SubscribeSignedVAA(mkRequest(s.filters), s.st) }()
		}
		mon := []string{}
		if !waitUntil(vDeadline, func() bool { n, ok := srv.verifLen(); return ok && n == len(subs) }) {
			mon = append(mon, "the subscriptions were not registered within the deadline")
		}
		type pub struct {
			b      []byte
			chain  uint16
			isA    bool
			nsigs  int
		}
		pubs := []pub{}
		nsigs := []int{0, 1, 3, 4, 5, 13, 19}
		for i := 0; i < npub; i++ {
			isA := r.below(2) == 0
			v := &vaa.VAA{Version: 1, GuardianSetIndex: 1, Timestamp: time.Unix(int64(1700000000+i), 0), Nonce: uint32(i), Sequence: uint64(i), ConsistencyLevel: 1,
				EmitterChain: 4, TargetChain: 255, Payload: r.bytes(1 + r.below(40))}
			copy(v.EmitterAddress[:], emB)
			if isA {
				v.EmitterChain = 2
				copy(v.EmitterAddress[:], emA)
			}
			ns := nsigs[r.below(len(nsigs))]
			for k := 0; k < ns; k++ {
				sg := &vaa.Signature{Index: uint8(k)}
				copy(sg.Signature[:], r.bytes(65))
				v.Signatures = append(v.Signatures, sg)
			}
			b, err := v.Marshal()
			if err != nil {
				continue
			}
			pubs = append(pubs, pub{b, uint16(v.EmitterChain), isA, ns})
		}
		blocked := false
		for i, p := range pubs {
			done := make(chan error, 1)
			go func(b []byte) { done <- srv.Publish(b) }(p.b)
			select {
			case <-done:
			case <-time.After(vDeadline):
				mon = append(mon, fmt.Sprintf("Publish #%d of a burst did not return within %v although every subscriber keeps reading", i, vDeadline))
				blocked = true
			}
			if blocked {
				break
			}
		}
		want := func(s *sub) [][]byte {
			out := [][]byte{}
			for _, p := range pubs {
				if len(s.filters) == 0 {
					out = append(out, p.b)
					continue
				}
				for _, f := range s.filters {
					if (f.Chain == 2 && p.isA) || (f.Chain == 4 && !p.isA) {
						out = append(out, p.b)
					}
				}
			}
			return out
		}
		if !blocked {
			for _, s := range subs {
				w := want(s)
				waitUntil(4*vDeadline, func() bool { return s.st.count() >= len(w) })
				time.Sleep(20 * time.Millisecond)
				s.st.mu.Lock()
				got := append([][]byte{}, s.st.got...)
				s.st.mu.Unlock()
				if len(got) != len(w) {
					mon = append(mon, fmt.Sprintf("MISSING/EXTRA in a burst: subscriber (%s) received %d of the %d VAAs it is owed (%d published back to back, 0..19 signatures each)", s.name, len(got), len(w), len(pubs)))
					continue
				}
				for i := range w {
					if string(got[i]) != string(w[i]) {
						mon = append(mon, fmt.Sprintf("subscriber (%s) received another VAA than the one it is owed at position %d of a burst", s.name, i))
						break
					}
				}
			}
		}
		for _, s := range subs {
			s.st.cancel()
		}
		o.emit(map[string]interface{}{"k": "burst", "sc": round, "published": len(pubs), "subscribers": len(subs), "mon": mon})
	}
}
