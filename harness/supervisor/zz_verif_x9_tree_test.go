//go:build verif

package supervisor

// X9 (C18 o C13): the service tree of the guardian node — as gen/x_servicetree.py reads it from node/cmd/guardiand/node.go on this run
// (file $VERIF_X9_TREE) — rebuilt with the REAL supervisor package: the root runnable executes the extracted statements (supervisor.Run /
// RunGroup under the extracted names, the fallible constructor, `<-ctx.Done(); return nil`), the supervisor is created with the extracted
// options, the services are test runnables named as in node.go (one runnable value per distinct runnable expression of node.go: a service
// function started under two names shares its instance counter).  Scenarios inject one failure after the tree has come up: a service
// returns an error / nil, panics in its own goroutine, panics in a goroutine it spawned itself, the holder of rootCtxCancel cancels the
// root context, the fallible constructor fails once.  Scenarios that may crash the process run in a child process (the test binary
// re-executed) and the parent observes the exit status.  The rows are compared with model/NodeTree.v inside Coq and judged by the
// monitors of checks/c18.py and checks/c13.py.
import (
	"bytes"
	"context"
	"encoding/json"
	"errors"
	"fmt"
	"os"
	"os/exec"
	"sort"
	"strings"
	"sync"
	"testing"
	"time"

	"go.uber.org/zap"
)

type x9Service struct {
	ID         int    `json:"id"`
	Name       string `json:"name"`
	Runnable   int    `json:"runnable"`
	Spawns     []string `json:"spawns"`
	Guarded    int    `json:"guarded"`
	Recovers   bool   `json:"recovers"`
	RootCancel bool   `json:"root_cancel"`
	Healthy    bool   `json:"healthy"`
}

type x9Stmt struct {
	Flag     *string  `json:"flag"`
	Op       string   `json:"op"`
	Names    []string `json:"names"`
	RetOnErr bool     `json:"ret_on_err"`
	What     string   `json:"what"`
	Nil      bool     `json:"nil"`
}

type x9Tree struct {
	Propagate bool        `json:"propagate"`
	Flags     []string    `json:"flags"`
	Services  []x9Service `json:"services"`
	Program   []x9Stmt    `json:"program"`
}

type x9Scenario struct {
	Name     string          `json:"sc"`
	FlagsOff []string        `json:"flags_off"` // flags that are NOT set
	Kind     string          `json:"kind"`      // none | err | nil | panic | spawnpanic | cancel | ctor
	Svc      string          `json:"svc"`       // the service the failure is injected into ("" for none / ctor)
	Opt      string          `json:"opt"`       // extracted | off (the supervisor created without WithPropagatePanic)
	Child    bool            `json:"child"`
}

type x9Result struct {
	K        string         `json:"k"`
	Scenario x9Scenario     `json:"scenario"`
	Outcome  string         `json:"outcome"` // alive | crash | other
	Exit     int            `json:"exit"`
	Panic    string         `json:"panic,omitempty"`
	Starts   map[string]int `json:"starts"`
	Live     map[string]int `json:"live"`
	MaxLiveF map[string]int `json:"maxlive_fn"` // per runnable number: most instances of that service function alive at once
	AfterStop int           `json:"starts_after_cancel"`
	Cancelled map[string]int `json:"cancelled"` // incarnations that saw their context cancelled
	RootStarts int          `json:"root_starts"`
	Note     string         `json:"note,omitempty"`
}

type x9World struct {
	mu        sync.Mutex
	tree      *x9Tree
	sc        x9Scenario
	starts    map[string]int
	live      map[string]int
	cancelled map[string]int
	liveF     map[int]int
	maxLiveF  map[int]int
	rootStarts int
	ctorFails int
	total     int
	lastStart time.Time
	stopped   bool
	afterStop int
	trigger   chan struct{} // closed when the failure is to happen
	fired     bool
	rootCancel context.CancelFunc
}

func (w *x9World) flagOn(f *string) bool {
	if f == nil {
		return true
	}
	for _, o := range w.sc.FlagsOff {
		if o == *f {
			return false
		}
	}
	return true
}

func (w *x9World) svc(name string) *x9Service {
	for i := range w.tree.Services {
		if w.tree.Services[i].Name == name {
			return &w.tree.Services[i]
		}
	}
	return nil
}

// one runnable value per distinct runnable expression of node.go
func (w *x9World) runnable(sv *x9Service, cache map[int]Runnable) Runnable {
	if r, ok := cache[sv.Runnable]; ok {
		return r
	}
	fn := sv.Runnable
	r := func(ctx context.Context) (err error) {
		// which name was this instance started under? the dn of the context
		name := strings.TrimPrefix(ctx.Value(dnKey).(string), "root.")
		me := w.svc(name)
		if me != nil && me.Recovers {
			// node.go (or the service's own Run) wraps this service in a recover: the panic never leaves the runnable
			defer func() {
				if rec := recover(); rec != nil {
					err = fmt.Errorf("x9: recovered inside %s: %v", name, rec)
				}
			}()
		}
		w.mu.Lock()
		w.starts[name]++
		w.live[name]++
		w.liveF[fn]++
		if w.liveF[fn] > w.maxLiveF[fn] {
			w.maxLiveF[fn] = w.liveF[fn]
		}
		w.total++
		w.lastStart = time.Now()
		if w.stopped {
			w.afterStop++
		}
		first := w.starts[name] == 1
		w.mu.Unlock()
		defer func() {
			w.mu.Lock()
			w.live[name]--
			w.liveF[fn]--
			w.mu.Unlock()
		}()
		if me != nil && me.Healthy {
			Signal(ctx, SignalHealthy)
		}
		var trig <-chan struct{}
		if first && name == w.sc.Svc {
			trig = w.trigger
			if w.sc.Kind == "spawnpanic" {
				// a goroutine of the service's own, outside the supervisor's reach
				go func() {
					<-w.trigger
					panic("x9-boom-spawned in a goroutine started by " + name)
				}()
				trig = nil
			}
		}
		select {
		case <-ctx.Done():
			w.mu.Lock()
			w.cancelled[name]++
			w.mu.Unlock()
			return ctx.Err()
		case <-trig:
			switch w.sc.Kind {
			case "err":
				return errors.New("x9 scripted failure of " + name)
			case "nil":
				return nil
			case "panic":
				panic("x9-boom in " + name)
			case "cancel":
				w.rootCancel() // the service was handed rootCtxCancel
				<-ctx.Done()
				w.mu.Lock()
				w.cancelled[name]++
				w.mu.Unlock()
				return ctx.Err()
			}
			return errors.New("x9: unknown kind")
		}
	}
	cache[sv.Runnable] = r
	return r
}

func (w *x9World) root() Runnable {
	cache := map[int]Runnable{}
	return func(ctx context.Context) error {
		w.mu.Lock()
		w.rootStarts++
		w.mu.Unlock()
		for _, st := range w.tree.Program {
			if !w.flagOn(st.Flag) {
				continue
			}
			switch st.Op {
			case "run":
				m := map[string]Runnable{}
				for _, n := range st.Names {
					m[n] = w.runnable(w.svc(n), cache)
				}
				var err error
				if len(st.Names) == 1 {
					err = Run(ctx, st.Names[0], m[st.Names[0]])
				} else {
					err = RunGroup(ctx, m)
				}
				if err != nil && st.RetOnErr {
					return err
				}
			case "ctor":
				w.mu.Lock()
				fail := w.ctorFails > 0
				if fail {
					w.ctorFails--
				}
				w.mu.Unlock()
				if fail {
					return errors.New("x9: constructor " + st.What + " failed")
				}
			case "signal":
				if st.What == "Healthy" {
					Signal(ctx, SignalHealthy)
				} else {
					Signal(ctx, SignalDone)
				}
			case "wait":
				<-ctx.Done()
			case "return":
				if st.Nil {
					return nil
				}
				return errors.New("x9: root returns an error")
			}
		}
		return nil
	}
}

// wait until no runnable has been started for `quiet`, at most `max`
func (w *x9World) settle(quiet, max time.Duration) {
	deadline := time.Now().Add(max)
	for time.Now().Before(deadline) {
		w.mu.Lock()
		idle := w.total > 0 && time.Since(w.lastStart) >= quiet
		w.mu.Unlock()
		if idle {
			return
		}
		time.Sleep(10 * time.Millisecond)
	}
}

// poll a condition on the counters (under the lock), at most `max`
func (w *x9World) waitFor(cond func() bool, max time.Duration) {
	deadline := time.Now().Add(max)
	for time.Now().Before(deadline) {
		w.mu.Lock()
		ok := cond()
		w.mu.Unlock()
		if ok {
			return
		}
		time.Sleep(5 * time.Millisecond)
	}
}

func x9RunScenario(tree *x9Tree, sc x9Scenario) x9Result {
	w := &x9World{tree: tree, sc: sc, starts: map[string]int{}, live: map[string]int{}, cancelled: map[string]int{}, liveF: map[int]int{}, maxLiveF: map[int]int{},
		trigger: make(chan struct{}), lastStart: time.Now()}
	if sc.Kind == "ctor" {
		w.ctorFails = 1
	}
	ctx, cancel := context.WithCancel(context.Background())
	w.rootCancel = func() {
		w.mu.Lock()
		w.stopped = true
		w.mu.Unlock()
		cancel()
	}
	var opts []SupervisorOpt
	if tree.Propagate && sc.Opt != "off" {
		opts = append(opts, WithPropagatePanic)
	}
	New(ctx, zap.NewNop(), w.root(), opts...)
	enabled := 0
	for _, st := range tree.Program {
		if st.Op == "run" && w.flagOn(st.Flag) {
			enabled += len(st.Names)
		}
	}
	// the tree comes up: every enabled service has been started (with a failing constructor: the root runnable has been started twice
	// and then every service), at most 10 s; then nothing is started for a while
	w.waitFor(func() bool {
		n := 0
		for _, sv := range tree.Services {
			if w.starts[sv.Name] > 0 {
				n++
			}
		}
		return n >= enabled && (sc.Kind != "ctor" || w.rootStarts >= 2)
	}, 10*time.Second)
	w.settle(1500*time.Millisecond, 20*time.Second)
	if sc.Kind != "none" && sc.Kind != "ctor" {
		close(w.trigger)
		switch sc.Kind {
		case "cancel":
			// every instance has seen its context cancelled, at most 10 s; then a while for starts that must not happen
			w.waitFor(func() bool {
				for _, sv := range tree.Services {
					if w.live[sv.Name] > 0 {
						return false
					}
				}
				return true
			}, 10*time.Second)
			time.Sleep(1500 * time.Millisecond)
		default:
			// the failed service is running again, at most 10 s (the first back-off is at most 750 ms); then nothing is started for a while
			w.waitFor(func() bool { return w.starts[sc.Svc] >= 2 }, 10*time.Second)
			w.mu.Lock()
			w.lastStart = time.Now()
			w.mu.Unlock()
			w.settle(1500*time.Millisecond, 20*time.Second)
		}
	}
	w.mu.Lock()
	res := x9Result{K: "x9", Scenario: sc, Outcome: "alive", Starts: map[string]int{}, Live: map[string]int{}, MaxLiveF: map[string]int{}, Cancelled: map[string]int{},
		AfterStop: w.afterStop, RootStarts: w.rootStarts}
	for _, sv := range tree.Services {
		res.Starts[sv.Name] = w.starts[sv.Name]
		res.Live[sv.Name] = w.live[sv.Name]
		res.Cancelled[sv.Name] = w.cancelled[sv.Name]
	}
	for f, n := range w.maxLiveF {
		res.MaxLiveF[fmt.Sprint(f)] = n
	}
	w.mu.Unlock()
	if sc.Kind != "cancel" {
		w.rootCancel()
	}
	return res
}

func x9LoadTree(t *testing.T) *x9Tree {
	b, err := os.ReadFile(os.Getenv("VERIF_X9_TREE"))
	if err != nil {
		t.Fatalf("x9: cannot read the extracted tree: %v", err)
	}
	var tree x9Tree
	if err := json.Unmarshal(b, &tree); err != nil {
		t.Fatalf("x9: %v", err)
	}
	return &tree
}

// the child process: one scenario, result on stdout
func TestVerifX9Child(t *testing.T) {
	raw := os.Getenv("VERIF_X9_CHILD")
	if raw == "" {
		return
	}
	tree := x9LoadTree(t)
	var sc x9Scenario
	if err := json.Unmarshal([]byte(raw), &sc); err != nil {
		t.Fatal(err)
	}
	res := x9RunScenario(tree, sc)
	b, _ := json.Marshal(res)
	fmt.Printf("\nX9RESULT %s\n", b)
}

func x9RunChild(sc x9Scenario) x9Result {
	b, _ := json.Marshal(sc)
	ctx, cancel := context.WithTimeout(context.Background(), 90*time.Second)
	defer cancel()
	cmd := exec.CommandContext(ctx, os.Args[0], "-test.run", "^TestVerifX9Child$", "-test.timeout", "80s")
	cmd.Env = append(os.Environ(), "VERIF_X9_CHILD="+string(b), "GOTRACEBACK=single")
	var out, errb bytes.Buffer
	cmd.Stdout, cmd.Stderr = &out, &errb
	err := cmd.Run()
	res := x9Result{K: "x9", Scenario: sc, Outcome: "other"}
	if ee, ok := err.(*exec.ExitError); ok {
		res.Exit = ee.ExitCode()
	} else if err != nil {
		res.Exit = -1
		res.Note = err.Error()
	}
	all := out.String() + "\n" + errb.String()
	for _, line := range strings.Split(all, "\n") {
		if strings.HasPrefix(line, "X9RESULT ") {
			var r x9Result
			if json.Unmarshal([]byte(line[9:]), &r) == nil {
				r.Exit = res.Exit
				return r
			}
		}
	}
	for _, line := range strings.Split(all, "\n") {
		if strings.HasPrefix(line, "panic: ") {
			res.Panic = line
			if strings.Contains(line, "x9-boom") {
				res.Outcome = "crash"
			}
			break
		}
	}
	if res.Outcome == "other" {
		if len(all) > 600 {
			all = all[len(all)-600:]
		}
		res.Note += " | " + all
	}
	return res
}

func TestVerifX9Tree(t *testing.T) {
	out := verifOut(t)
	defer out.close()
	tree := x9LoadTree(t)
	only := os.Getenv("VERIF_X9_ONLY") // "" | panic
	var scs []x9Scenario
	add := func(sc x9Scenario) {
		sc.Name = fmt.Sprintf("%s:%s:%s", sc.Kind, sc.Svc, sc.Opt)
		if len(sc.FlagsOff) > 0 {
			sc.Name += ":off=" + strings.Join(sc.FlagsOff, ",")
		}
		scs = append(scs, sc)
	}
	names := []string{}
	for _, sv := range tree.Services {
		names = append(names, sv.Name)
	}
	pick := func(i int) bool { return verifThorough() || i%3 == int(verifSeed()%3) }
	if only == "" {
		add(x9Scenario{Kind: "none", Opt: "extracted"})
		add(x9Scenario{Kind: "none", Opt: "extracted", FlagsOff: tree.Flags})
		add(x9Scenario{Kind: "ctor", Opt: "extracted"})
		for i, n := range names {
			add(x9Scenario{Kind: "err", Svc: n, Opt: "extracted"})
			if pick(i) {
				add(x9Scenario{Kind: "nil", Svc: n, Opt: "extracted"})
			}
		}
		for _, sv := range tree.Services {
			if sv.RootCancel {
				add(x9Scenario{Kind: "cancel", Svc: sv.Name, Opt: "extracted"})
			}
		}
	}
	for i, sv := range tree.Services {
		if sv.Name == "processor" || pick(i) {
			add(x9Scenario{Kind: "panic", Svc: sv.Name, Opt: "extracted", Child: true})
			if only == "" {
				add(x9Scenario{Kind: "panic", Svc: sv.Name, Opt: "off", Child: true})
			}
			if len(sv.Spawns) > sv.Guarded && (sv.Name == "processor" || verifThorough()) {
				add(x9Scenario{Kind: "spawnpanic", Svc: sv.Name, Opt: "extracted", Child: true})
				add(x9Scenario{Kind: "spawnpanic", Svc: sv.Name, Opt: "off", Child: true})
			}
		}
	}
	results := make([]x9Result, len(scs))
	var wg sync.WaitGroup
	sem := make(chan struct{}, 24)
	for i := range scs {
		wg.Add(1)
		go func(i int) {
			defer wg.Done()
			sem <- struct{}{}
			defer func() { <-sem }()
			if scs[i].Child {
				results[i] = x9RunChild(scs[i])
			} else {
				results[i] = x9RunScenario(tree, scs[i])
			}
		}(i)
	}
	wg.Wait()
	sort.SliceStable(results, func(a, b int) bool { return results[a].Scenario.Name < results[b].Scenario.Name })
	for _, r := range results {
		out.emit(r)
	}
}
