//go:build verif

package supervisor

// C18, deterministic mode: a `supervisor` value is built WITHOUT starting its processor goroutine.  The harness receives the
// requests that runnables / runGroup / the GC's sleepers offer on pReq and calls processSchedule / processDied / processGC itself,
// in an order drawn from the seed: the real handler code under every delivery order.  Runnables are puppets: each instance blocks
// on a command channel and performs, on command, Signal / RunGroup with its own context, or returns.
// After every step: projection of the tree (dn, state, ctx.Err() != nil, group), pending requests, live instances.
import (
	"sync/atomic"
	"context"
	"encoding/json"
	"errors"
	"fmt"
	"os"
	"sort"
	"strings"
	"sync"
	"testing"
	"time"

	"go.uber.org/zap"
)

type vCmd struct {
	op    string // healthy | done | rungroup | return
	names []string
	kind  string // return: nil | ctx | err | panic
}
type vRes struct {
	err      string
	panicked string
}
type vInst struct {
	dn   string
	id   int
	ctx  context.Context
	cmd  chan vCmd
	res  chan vRes
	gone bool
}

type vH struct {
	mu        sync.Mutex
	sup       *supervisor
	insts     []*vInst // live instances (entered, not returned)
	nextID    int
	entered   chan *vInst
	pool      []*processorRequest // offered on pReq, received by the harness, not yet handled
	poolMu    sync.Mutex
	stop      chan struct{}
	maxLive   map[string]int
	monitor   []string
	everLive2 bool
	scriptStop string
}

func (h *vH) say(m string) { h.monitor = append(h.monitor, m) }

func (h *vH) runnable(dn string) Runnable {
	return func(ctx context.Context) (ret error) {
		in := &vInst{dn: dn, ctx: ctx, cmd: make(chan vCmd), res: make(chan vRes, 1)}
		h.mu.Lock()
		in.id = h.nextID
		h.nextID++
		h.insts = append(h.insts, in)
		n := 0
		for _, x := range h.insts {
			if x.dn == dn {
				n++
			}
		}
		if n > h.maxLive[dn] {
			h.maxLive[dn] = n
		}
		h.mu.Unlock()
		h.entered <- in
		leave := func() {
			h.mu.Lock()
			for i, x := range h.insts {
				if x == in {
					h.insts = append(h.insts[:i], h.insts[i+1:]...)
					break
				}
			}
			in.gone = true
			h.mu.Unlock()
		}
		defer func() {
			if r := recover(); r != nil {
				leave()
				in.res <- vRes{panicked: fmt.Sprint(r)}
				panic(r) // the supervisor's own recover (panic capture on) turns it into a died request
			}
		}()
		for c := range in.cmd {
			switch c.op {
			case "healthy":
				Signal(ctx, SignalHealthy)
				in.res <- vRes{}
			case "done":
				Signal(ctx, SignalDone)
				in.res <- vRes{}
			case "rungroup":
				m := map[string]Runnable{}
				for _, nm := range c.names {
					m[nm] = h.runnable(dn + "." + nm)
				}
				err := RunGroup(ctx, m)
				if err != nil {
					in.res <- vRes{err: err.Error()}
				} else {
					in.res <- vRes{}
				}
			case "return":
				leave()
				in.res <- vRes{}
				switch c.kind {
				case "nil":
					return nil
				case "ctx":
					if e := ctx.Err(); e != nil {
						return fmt.Errorf("wrapped: %w", e)
					}
					return context.Canceled // a runnable may return this error whatever its own context says
				case "err":
					return errors.New("scripted failure")
				case "panic":
					panic("scripted panic")
				}
			}
		}
		return nil
	}
}

// pump moves every request offered on pReq into the pool
func (h *vH) pump() {
	for {
		select {
		case r := <-h.sup.pReq:
			h.poolMu.Lock()
			h.pool = append(h.pool, r)
			h.poolMu.Unlock()
		case <-h.stop:
			return
		}
	}
}
func (h *vH) poolLen() int {
	h.poolMu.Lock()
	defer h.poolMu.Unlock()
	return len(h.pool)
}
func (h *vH) waitPool(n int) bool {
	end := time.Now().Add(5 * time.Second)
	for h.poolLen() < n {
		if time.Now().After(end) {
			return false
		}
		time.Sleep(100 * time.Microsecond)
	}
	return true
}

type vNode struct {
	DN    string `json:"dn"`
	State int    `json:"state"`
	Canc  bool   `json:"canc"`
	Rep   string `json:"rep"` // smallest name in its supervision group
}

func (h *vH) walk(f func(n *node)) {
	var rec func(n *node)
	rec = func(n *node) {
		f(n)
		names := []string{}
		for k := range n.children {
			names = append(names, k)
		}
		sort.Strings(names)
		for _, k := range names {
			rec(n.children[k])
		}
	}
	rec(h.sup.root)
}

// projection; ok=false when the supervisor mutex is stuck
func (h *vH) project() ([]vNode, bool) {
	if !h.sup.mu.TryLock() {
		time.Sleep(20 * time.Millisecond)
		if !h.sup.mu.TryLock() {
			return nil, false
		}
	}
	defer h.sup.mu.Unlock()
	out := []vNode{}
	h.walk(func(n *node) {
		rep := ""
		if n.parent != nil {
			for nm := range n.parent.groupSiblings(n.name) {
				if rep == "" || nm < rep {
					rep = nm
				}
			}
		}
		out = append(out, vNode{DN: n.dn(), State: int(n.state), Canc: n.ctx.Err() != nil, Rep: rep})
	})
	return out, true
}

// tiny back-off so that the GC's sleepers wake up at once (timer values are not part of the model)
func (h *vH) tinyBackoff() {
	h.sup.mu.Lock()
	h.walk(func(n *node) {
		n.bo.InitialInterval = 200 * time.Microsecond
		n.bo.MaxInterval = 400 * time.Microsecond
		n.bo.Reset()
	})
	h.sup.mu.Unlock()
}

type vStep struct {
	Ev      string   `json:"ev"` // sched | died | gc | kill | healthy | done | rungroup | return
	DN      string   `json:"dn,omitempty"`
	Kind    string   `json:"kind,omitempty"`  // died / return: nil | ctx | err
	Names   []string `json:"names,omitempty"` // rungroup
	Out     string   `json:"out"`             // ok | rejected | processor-panic | locked-panic | instance-panic
	Msg     string   `json:"msg,omitempty"`
	Woke    []string `json:"woke,omitempty"` // gc: dns whose sleeper offered its schedule request afterwards
	Tree    []vNode  `json:"tree"`
	Pending []string `json:"pending"` // "S dn" / "D dn kind", sorted
	Live    []string `json:"live"`    // dns of live instances, sorted
}

func reqString(r *processorRequest) string {
	if r.schedule != nil {
		return "S " + r.schedule.dn
	}
	k := "err"
	if r.died.err == nil {
		k = "nil"
	} else if errors.Is(r.died.err, context.Canceled) {
		k = "ctx"
	}
	return "D " + r.died.dn + " " + k
}

// one scenario; wellBehaved: a runnable that signals Done returns nil at once and its died request is handled before anything else
func vScenario(r *vrng, wellBehaved bool, maxSteps int, script []vStep) (steps []vStep, mon []string, maxLive map[string]int, scriptStop string) {
	if script != nil {
		maxSteps = len(script) + 64
	}
	scriptPos := 0
	h := &vH{entered: make(chan *vInst, 64), stop: make(chan struct{}), maxLive: map[string]int{}}
	sup := &supervisor{logger: zap.NewNop(), ilogger: zap.NewNop(), pReq: make(chan *processorRequest)}
	h.sup = sup
	sup.root = newNode("root", h.runnable("root"), sup, nil)
	go h.pump()
	defer close(h.stop)
	go func() { sup.pReq <- &processorRequest{schedule: &processorRequestSchedule{dn: "root"}} }()
	h.waitPool(1)
	h.tinyBackoff()
	killed := false
	dead := false
	nameCtr := 0
	observe := func(st *vStep) {
		tr, ok := h.project()
		if !ok {
			if !dead {
				h.say(fmt.Sprintf("THE SUPERVISOR'S TREE LOCK WAS LEFT HELD after step %d (%s %s %s; the step itself: %s %s): no service can be scheduled, restarted, signalled or stopped any more", len(steps), st.Ev, st.DN, st.Kind, st.Out, st.Msg))
			}
			st.Out = "locked-panic"
			dead = true
		}
		st.Tree = tr
		h.poolMu.Lock()
		for _, q := range h.pool {
			st.Pending = append(st.Pending, reqString(q))
		}
		h.poolMu.Unlock()
		sort.Strings(st.Pending)
		h.mu.Lock()
		cnt := map[string]int{}
		for _, in := range h.insts {
			st.Live = append(st.Live, in.dn)
			cnt[in.dn]++
		}
		h.mu.Unlock()
		sort.Strings(st.Live)
		if st.Pending == nil {
			st.Pending = []string{}
		}
		if st.Live == nil {
			st.Live = []string{}
		}
		for d, c := range cnt {
			if c > 1 && !h.everLive2 {
				h.everLive2 = true
				h.say(fmt.Sprintf("TWO LIVE INSTANCES of %s after step %d (%s %s)", d, len(steps), st.Ev, st.DN))
			}
		}
	}
	takeReq := func(i int) *processorRequest {
		h.poolMu.Lock()
		defer h.poolMu.Unlock()
		q := h.pool[i]
		h.pool = append(h.pool[:i], h.pool[i+1:]...)
		return q
	}
	procCall := func(st *vStep, f func()) {
		// the handler runs on a goroutine of its own under a watchdog: a handler that never returns (it waits for a lock it holds
		// itself) is the supervisor's only processor goroutine stuck for good, and must be a finding here, not a hang of the harness
		fin := make(chan interface{}, 1)
		go func() {
			defer func() { fin <- recover() }()
			f()
		}()
		select {
		case x := <-fin:
			if x != nil {
				st.Out = "processor-panic"
				st.Msg = fmt.Sprint(x)
				dead = true
				h.say(fmt.Sprintf("PROCESSOR PANIC in step %d (%s %s): %v", len(steps), st.Ev, st.DN, x))
				// the handler panicked with the supervisor mutex held (deferred Unlock ran during the unwinding)
			}
		case <-time.After(5 * time.Second):
			st.Out = "processor-stuck"
			dead = true
			atomic.AddInt32(&vDetStalls, 1)
			h.say(fmt.Sprintf("THE PROCESSOR'S HANDLER DID NOT RETURN within 5 s (step %d, %s %s %s): the supervisor's only processor goroutine is stuck: no exit is recorded, nothing is restarted, signalled or stopped any more", len(steps), st.Ev, st.DN, st.Kind))
		}
	}
	command := func(in *vInst, c vCmd, st *vStep) {
		in.cmd <- c
		select {
		case res := <-in.res:
			if res.panicked != "" {
				st.Out = "instance-panic"
				st.Msg = res.panicked
			} else if res.err != "" {
				st.Out = "rejected"
				st.Msg = res.err
			}
		case <-time.After(5 * time.Second):
			st.Out = "stuck"
			dead = true
			h.say(fmt.Sprintf("a call into the supervisor did not return within 5s (step %d, %s %s)", len(steps), st.Ev, st.DN))
		}
	}
	// independent evaluation of the restart rule on the real tree (the statement, not the model)
	type snap struct {
		state int
		canc  bool
		node  *node
	}
	snapshot := func() map[string]snap {
		m := map[string]snap{}
		sup.mu.Lock()
		h.walk(func(n *node) { m[n.dn()] = snap{int(n.state), n.ctx.Err() != nil, n} })
		sup.mu.Unlock()
		return m
	}
	restartableSt := func(s int) bool {
		return s == int(nodeStateDead) || s == int(nodeStateCanceled) || s == int(nodeStateDone)
	}
	for len(steps) < maxSteps && !dead {
		h.mu.Lock()
		live := append([]*vInst{}, h.insts...)
		h.mu.Unlock()
		npool := h.poolLen()
		st := vStep{Out: "ok"}
		// choose
		type choice struct {
			w      int
			ev, dn string
			kind   string
			f      func()
		}
		var arg vStep // scripted parameters of the chosen event (names, kind)
		var cs []choice
		if !killed {
			for i := 0; i < npool; i++ {
				i := i
				cs = append(cs, choice{6, h.poolTag(i, 0), h.poolTag(i, 1), h.poolTag(i, 2), func() {
					q := takeReq(i)
					if q.schedule != nil {
						st.Ev, st.DN = "sched", q.schedule.dn
						// the statement: a node is (re)scheduled only when no instance of it or below it is live
						for _, in := range live {
							if in.dn == st.DN || strings.HasPrefix(in.dn, st.DN+".") {
								h.say(fmt.Sprintf("SCHEDULED WHILE LIVE: %s is scheduled in step %d while an instance of %s is still running", st.DN, len(steps), in.dn))
							}
						}
						procCall(&st, func() { sup.processSchedule(q.schedule) })
						if st.Out == "ok" {
							select {
							case <-h.entered:
							case <-time.After(5 * time.Second):
								st.Out = "stuck"
								dead = true
								h.say("scheduled runnable did not start within 5s: " + st.DN)
							}
						}
					} else {
						st.Ev, st.DN = "died", q.died.dn
						st.Kind = strings.Fields(reqString(q))[2]
						before := snapshot()
						procCall(&st, func() { sup.processDied(q.died) })
						if st.Out == "ok" {
							after := snapshot()
							b, okb := before[st.DN]
							a := after[st.DN]
							expected := okb && ((b.state == int(nodeStateDone) && st.Kind == "nil") || (b.canc && st.Kind == "ctx"))
							if okb && !expected {
								// unexpected exit: DEAD, own context and the group siblings' contexts cancelled, nobody else's
								if a.state != int(nodeStateDead) || !a.canc {
									h.say(fmt.Sprintf("after the unexpected exit of %s (%s) the node is state %d cancelled=%v", st.DN, st.Kind, a.state, a.canc))
								}
								if b.node.parent != nil {
									sib := b.node.parent.groupSiblings(b.node.name)
									for d, x := range after {
										isSib := false
										for nm := range sib {
											if nm != b.node.name && b.node.parent.dn()+"."+nm == d {
												isSib = true
											}
										}
										inSub := false
										for nm := range sib {
											if strings.HasPrefix(d, b.node.parent.dn()+"."+nm+".") || d == b.node.parent.dn()+"."+nm {
												inSub = true
											}
										}
										if isSib && !x.canc {
											h.say(fmt.Sprintf("group sibling %s of the dead %s was not cancelled", d, st.DN))
										}
										if !inSub && x.canc && !before[d].canc {
											h.say(fmt.Sprintf("%s was cancelled by the exit of %s although it is outside its group", d, st.DN))
										}
									}
								}
							}
						}
					}
				}})
			}
			cs = append(cs, choice{3, "gc", "", "", func() {
				st.Ev = "gc"
				before := snapshot()
				p0 := h.poolLen()
				inFlight := map[string]bool{} // an instance is live, or its exit has not reached the processor yet
				for _, in := range live {
					inFlight[in.dn] = true
				}
				h.poolMu.Lock()
				for _, q := range h.pool {
					inFlight[strings.Fields(reqString(q))[1]] = true
				}
				h.poolMu.Unlock()
				procCall(&st, func() { sup.processGC() })
				if st.Out != "ok" {
					return
				}
				after := snapshot()
				// the statement: exactly the DEAD/CANCELED nodes whose whole subtree has exited, whose parent context is live and
				// which have no such ancestor are reset (NEW, fresh context, children dropped) and scheduled again
				want := map[string]bool{}
				for d, b := range before {
					if b.state != int(nodeStateDead) && b.state != int(nodeStateCanceled) {
						continue
					}
					ready := true
					for d2, b2 := range before {
						if (d2 == d || strings.HasPrefix(d2, d+".")) && (!restartableSt(b2.state) || inFlight[d2]) {
							ready = false
						}
					}
					plive := b.node.parent == nil || !before[b.node.parent.dn()].canc
					if ready && plive {
						want[d] = true
					}
				}
				for d := range want {
					for d2 := range want {
						if strings.HasPrefix(d, d2+".") {
							delete(want, d)
						}
					}
				}
				nreset := 0
				for d := range want {
					a, ok := after[d]
					if !ok || a.state != int(nodeStateNew) || a.canc {
						h.say(fmt.Sprintf("NOT RESTARTED: %s was dead/cancelled with its whole subtree exited and a live parent, but the GC left it state=%d", d, a.state))
					} else {
						nreset++
					}
					st.Woke = append(st.Woke, d)
				}
				sort.Strings(st.Woke)
				for d, a := range after {
					b, ok := before[d]
					if ok && !want[d] && (a.state != b.state || a.canc != b.canc) {
						h.say(fmt.Sprintf("the GC changed %s (state %d -> %d) although it was not restartable", d, b.state, a.state))
					}
				}
				for d := range before {
					if _, ok := after[d]; !ok {
						under := false
						for w := range want {
							if strings.HasPrefix(d, w+".") {
								under = true
							}
						}
						if !under {
							h.say(fmt.Sprintf("the GC removed %s which is not below a restarted node", d))
						}
					}
				}
				if !h.waitPool(p0 + nreset) {
					h.say(fmt.Sprintf("RESTART NOT SCHEDULED: %d nodes were reset but only %d schedule requests arrived within 5s", nreset, h.poolLen()-p0))
				}
				h.tinyBackoff2(want)
			}})
		}
		for _, in := range live {
			in := in
			sup.mu.Lock()
			var nst nodeState = -1
			func() {
				defer func() { recover() }()
				nst = sup.nodeByDN(in.dn).state
			}()
			sup.mu.Unlock()
			cs = append(cs, choice{2, "healthy", in.dn, "", func() {
				st.Ev, st.DN = "healthy", in.dn
				command(in, vCmd{op: "healthy"}, &st)
				if st.Out == "instance-panic" {
					h.waitPool(npool + 1)
				}
			}})
			if nst == nodeStateHealthy || script != nil || r.below(6) == 0 {
				cs = append(cs, choice{2, "done", in.dn, "", func() {
					st.Ev, st.DN = "done", in.dn
					command(in, vCmd{op: "done"}, &st)
					if st.Out == "instance-panic" {
						h.waitPool(npool + 1)
						return
					}
					if wellBehaved && st.Out == "ok" {
						// documented meaning of SignalDone: nothing left to do — return nil now, and let the processor see it
						observe(&st)
						steps = append(steps, st)
						st = vStep{Ev: "return", DN: in.dn, Kind: "nil", Out: "ok"}
						command(in, vCmd{op: "return", kind: "nil"}, &st)
						h.waitPool(npool + 1)
						if killed { // the processor has exited: nobody receives the died request
							return
						}
						observe(&st)
						steps = append(steps, st)
						h.poolMu.Lock()
						idx := -1
						for i, q := range h.pool {
							if q.died != nil && q.died.dn == in.dn {
								idx = i
							}
						}
						h.poolMu.Unlock()
						if idx < 0 {
							h.say("the died request of a returned runnable did not arrive within 5s: " + in.dn)
							dead = true
							st = vStep{}
							return
						}
						q := takeReq(idx)
						st = vStep{Ev: "died", DN: in.dn, Kind: "nil", Out: "ok"}
						procCall(&st, func() { sup.processDied(q.died) })
					}
				}})
			}
			depth := strings.Count(in.dn, ".")
			if depth < 3 {
				cs = append(cs, choice{3, "rungroup", in.dn, "", func() {
					st.Ev, st.DN = "rungroup", in.dn
					k := 1 + r.below(3)
					if script != nil {
						k = 0
						st.Names = append(st.Names, arg.Names...)
					}
					for i := 0; i < k; i++ {
						if r.below(8) == 0 && nameCtr > 0 {
							st.Names = append(st.Names, fmt.Sprintf("n%d", r.below(nameCtr))) // possibly an existing name
						} else {
							st.Names = append(st.Names, fmt.Sprintf("n%d", nameCtr))
							nameCtr++
						}
					}
					// a Go map has no duplicate keys
					seen := map[string]bool{}
					uniq := []string{}
					for _, nm := range st.Names {
						if !seen[nm] {
							seen[nm] = true
							uniq = append(uniq, nm)
						}
					}
					st.Names = uniq
					command(in, vCmd{op: "rungroup", names: st.Names}, &st)
					if st.Out == "ok" {
						h.waitPool(npool + len(st.Names))
						h.tinyBackoff()
					}
				}})
			}
			cs = append(cs, choice{3, "return", in.dn, "", func() {
				st.Ev, st.DN = "return", in.dn
				st.Kind = []string{"nil", "ctx", "err", "err", "panic", "ctx"}[r.below(6)]
				if st.Kind == "ctx" && in.ctx.Err() == nil && r.below(3) != 0 {
					st.Kind = "err"
				}
				if script != nil {
					st.Kind = arg.Kind
				}
				command(in, vCmd{op: "return", kind: st.Kind}, &st)
				if st.Kind == "panic" {
					st.Kind = "err" // captured panic = error exit
					st.Out = "ok"
				}
				h.waitPool(npool + 1)
			}})
		}
		if !killed && (script != nil || len(steps) > maxSteps*2/3 && r.below(10) == 0) {
			cs = append(cs, choice{1, "kill", "", "", func() {
				st.Ev = "kill"
				sup.processKill()
				killed = true
				// "cancelling the supervisor's context stops every service": every instance that is still running has been told to stop
				h.mu.Lock()
				for _, in := range h.insts {
					if in.ctx.Err() == nil {
						h.say(fmt.Sprintf("KILL LEFT A SERVICE RUNNING: the instance of %s is still running after processKill and its context is not cancelled (step %d)", in.dn, len(steps)))
						break
					}
				}
				h.mu.Unlock()
			}})
		}
		if len(cs) == 0 {
			break
		}
		if script != nil {
			if scriptPos >= len(script) {
				break
			}
			arg = script[scriptPos]
			scriptPos++
			found := false
			for _, c := range cs {
				if c.ev == arg.Ev && c.dn == arg.DN && (c.ev != "died" || c.kind == arg.Kind) {
					c.f()
					found = true
					break
				}
			}
			if !found {
				h.scriptStop = fmt.Sprintf("scripted event %d (%s %s %s) is not possible here", scriptPos-1, arg.Ev, arg.DN, arg.Kind)
				break
			}
		} else {
			tot := 0
			for _, c := range cs {
				tot += c.w
			}
			x := r.below(tot)
			for _, c := range cs {
				if x < c.w {
					c.f()
					break
				}
				x -= c.w
			}
		}
		if st.Ev == "" {
			continue
		}
		observe(&st)
		steps = append(steps, st)
	}
	// the statement once more, on the final tree: a service that has returned and is not going to be started again although
	// the supervisor is live — dead/cancelled, whole subtree exited, nothing above it waiting to be restarted, nothing in
	// flight above it — is stuck for good
	if !dead && !killed {
		before := snapshot()
		h.mu.Lock()
		liveDN := map[string]bool{}
		for _, in := range h.insts {
			liveDN[in.dn] = true
		}
		h.mu.Unlock()
		h.poolMu.Lock()
		for _, q := range h.pool {
			f := strings.Fields(reqString(q))
			liveDN[f[1]] = true
		}
		h.poolMu.Unlock()
		for d, b := range before {
			if b.state != int(nodeStateDead) && b.state != int(nodeStateCanceled) {
				continue
			}
			ready := true
			for d2, b2 := range before {
				if (d2 == d || strings.HasPrefix(d2, d+".")) && (!restartableSt(b2.state) || liveDN[d2]) {
					ready = false
				}
			}
			if !ready || b.node.parent == nil || !before[b.node.parent.dn()].canc {
				continue
			}
			stuck := true
			for a := b.node.parent; a != nil; a = a.parent {
				sa := before[a.dn()]
				if sa.state == int(nodeStateDead) || sa.state == int(nodeStateCanceled) || (sa.canc && liveDN[a.dn()]) {
					stuck = false // an ancestor is itself waiting for a restart, or is on its way out
				}
			}
			if stuck {
				h.say(fmt.Sprintf("[below-completed-group-member] NEVER STARTED AGAIN: %s has returned (state %d), its parent's context is cancelled and no ancestor is going to be restarted", d, b.state))
			}
		}
	}
	// let every puppet go
	h.mu.Lock()
	rest := append([]*vInst{}, h.insts...)
	h.mu.Unlock()
	for _, in := range rest {
		select {
		case in.cmd <- vCmd{op: "return", kind: "nil"}:
			<-in.res
		case <-time.After(100 * time.Millisecond):
		}
	}
	return steps, h.monitor, h.maxLive, h.scriptStop
}

// handlers that did not return, over the whole run: after two the remaining scenarios are skipped (each would wait again)
var vDetStalls int32

func (h *vH) tinyBackoff2(_ map[string]bool) { h.tinyBackoff() }

// ev / dn / kind of the i-th pooled request
func (h *vH) poolTag(i int, what int) string {
	h.poolMu.Lock()
	defer h.poolMu.Unlock()
	f := strings.Fields(reqString(h.pool[i]))
	switch what {
	case 0:
		if f[0] == "S" {
			return "sched"
		}
		return "died"
	case 1:
		return f[1]
	}
	if len(f) > 2 {
		return f[2]
	}
	return ""
}

// scripted histories: the recorded class (a runnable that signalled Done is still on its way out when an ancestor is restarted)
var vScripts = map[string][]vStep{
	// child c signals Done but returns late; parent p fails; GC restarts p (c counted as ready); then c's exit reaches the processor
	"done-late-died": {
		{Ev: "sched", DN: "root"}, {Ev: "rungroup", DN: "root", Names: []string{"p"}}, {Ev: "healthy", DN: "root"}, {Ev: "sched", DN: "root.p"},
		{Ev: "rungroup", DN: "root.p", Names: []string{"c"}}, {Ev: "sched", DN: "root.p.c"}, {Ev: "healthy", DN: "root.p.c"}, {Ev: "done", DN: "root.p.c"},
		{Ev: "return", DN: "root.p", Kind: "err"}, {Ev: "died", DN: "root.p", Kind: "err"}, {Ev: "gc"},
		{Ev: "return", DN: "root.p.c", Kind: "nil"}, {Ev: "died", DN: "root.p.c", Kind: "nil"},
	},
	// same, but the restarted parent has already started a new c when the old c is still running: two live instances,
	// and the old instance's exit is booked on the new one
	"done-two-instances": {
		{Ev: "sched", DN: "root"}, {Ev: "rungroup", DN: "root", Names: []string{"p"}}, {Ev: "healthy", DN: "root"}, {Ev: "sched", DN: "root.p"},
		{Ev: "rungroup", DN: "root.p", Names: []string{"c"}}, {Ev: "sched", DN: "root.p.c"}, {Ev: "healthy", DN: "root.p.c"}, {Ev: "done", DN: "root.p.c"},
		{Ev: "return", DN: "root.p", Kind: "err"}, {Ev: "died", DN: "root.p", Kind: "err"}, {Ev: "gc"},
		{Ev: "sched", DN: "root.p"}, {Ev: "rungroup", DN: "root.p", Names: []string{"c"}}, {Ev: "sched", DN: "root.p.c"},
		{Ev: "return", DN: "root.p.c", Kind: "nil"}, {Ev: "died", DN: "root.p.c", Kind: "nil"},
	},
	// a completed group member d with a child w; the other member f fails: d's context is cancelled with w below it; f is started
	// again, d is left alone, w can never be started again
	"below-completed-group-member": {
		{Ev: "sched", DN: "root"}, {Ev: "rungroup", DN: "root", Names: []string{"d", "f"}}, {Ev: "healthy", DN: "root"},
		{Ev: "sched", DN: "root.d"}, {Ev: "sched", DN: "root.f"}, {Ev: "healthy", DN: "root.f"},
		{Ev: "rungroup", DN: "root.d", Names: []string{"w"}}, {Ev: "healthy", DN: "root.d"}, {Ev: "sched", DN: "root.d.w"}, {Ev: "healthy", DN: "root.d.w"},
		{Ev: "done", DN: "root.d"}, {Ev: "return", DN: "root.d", Kind: "nil"}, {Ev: "died", DN: "root.d", Kind: "nil"},
		{Ev: "return", DN: "root.f", Kind: "err"}, {Ev: "died", DN: "root.f", Kind: "err"},
		{Ev: "return", DN: "root.d.w", Kind: "ctx"}, {Ev: "died", DN: "root.d.w", Kind: "ctx"}, {Ev: "gc"},
		{Ev: "sched", DN: "root.f"}, {Ev: "healthy", DN: "root.f"}, {Ev: "gc"},
	},
	// c dies and is restarted on its own (its node object is re-used by reset); the new c signals Done and lingers; then p fails:
	// p must not be restarted while that c is still running
	"done-after-own-restart": {
		{Ev: "sched", DN: "root"}, {Ev: "rungroup", DN: "root", Names: []string{"p"}}, {Ev: "healthy", DN: "root"}, {Ev: "sched", DN: "root.p"},
		{Ev: "rungroup", DN: "root.p", Names: []string{"c"}}, {Ev: "healthy", DN: "root.p"}, {Ev: "sched", DN: "root.p.c"},
		{Ev: "return", DN: "root.p.c", Kind: "err"}, {Ev: "died", DN: "root.p.c", Kind: "err"}, {Ev: "gc"}, {Ev: "sched", DN: "root.p.c"},
		{Ev: "healthy", DN: "root.p.c"}, {Ev: "done", DN: "root.p.c"},
		{Ev: "return", DN: "root.p", Kind: "err"}, {Ev: "died", DN: "root.p", Kind: "err"}, {Ev: "gc"},
		{Ev: "return", DN: "root.p.c", Kind: "nil"}, {Ev: "died", DN: "root.p.c", Kind: "nil"}, {Ev: "gc"}, {Ev: "sched", DN: "root.p"},
	},
	// the supervisor's context is cancelled while a service that has signalled Done is still running (it releases a resource when
	// told to stop), below set-up runnables that have signalled Done and returned: every running service is told to stop
	"kill-with-a-completed-service-still-running": {
		{Ev: "sched", DN: "root"}, {Ev: "rungroup", DN: "root", Names: []string{"holder", "plain"}}, {Ev: "healthy", DN: "root"}, {Ev: "done", DN: "root"},
		{Ev: "return", DN: "root", Kind: "nil"}, {Ev: "died", DN: "root", Kind: "nil"},
		{Ev: "sched", DN: "root.holder"}, {Ev: "sched", DN: "root.plain"}, {Ev: "healthy", DN: "root.holder"}, {Ev: "done", DN: "root.holder"},
		{Ev: "healthy", DN: "root.plain"}, {Ev: "kill"},
	},
	"kill-with-services-in-every-state": {
		{Ev: "sched", DN: "root"}, {Ev: "rungroup", DN: "root", Names: []string{"a", "b", "c", "d"}}, {Ev: "healthy", DN: "root"},
		{Ev: "sched", DN: "root.a"}, {Ev: "sched", DN: "root.b"}, {Ev: "sched", DN: "root.c"}, {Ev: "sched", DN: "root.d"},
		{Ev: "healthy", DN: "root.a"}, {Ev: "healthy", DN: "root.b"}, {Ev: "done", DN: "root.b"},
		{Ev: "rungroup", DN: "root.c", Names: []string{"x"}}, {Ev: "healthy", DN: "root.c"}, {Ev: "done", DN: "root.c"}, {Ev: "sched", DN: "root.c.x"},
		{Ev: "kill"},
	},
	// the same tree with a child that does NOT signal Done: p is restarted only after c has returned
	"healthy-child-waits": {
		{Ev: "sched", DN: "root"}, {Ev: "rungroup", DN: "root", Names: []string{"p"}}, {Ev: "healthy", DN: "root"}, {Ev: "sched", DN: "root.p"},
		{Ev: "rungroup", DN: "root.p", Names: []string{"c"}}, {Ev: "sched", DN: "root.p.c"}, {Ev: "healthy", DN: "root.p.c"},
		{Ev: "return", DN: "root.p", Kind: "err"}, {Ev: "died", DN: "root.p", Kind: "err"}, {Ev: "gc"},
		{Ev: "return", DN: "root.p.c", Kind: "ctx"}, {Ev: "died", DN: "root.p.c", Kind: "ctx"}, {Ev: "gc"}, {Ev: "sched", DN: "root.p"},
	},
}

func TestVerifC18Det(t *testing.T) {
	r := &vrng{s: verifSeed() ^ 0xc18a}
	o := verifOut(t)
	defer o.close()
	if f := os.Getenv("VERIF_C18_SCRIPT"); f != "" { // replay of one recorded history
		var script []vStep
		b, err := os.ReadFile(f)
		if err == nil {
			err = json.Unmarshal(b, &script)
		}
		if err != nil {
			t.Fatal(err)
		}
		steps, mon, maxLive, stop := vScenario(&vrng{s: 1}, false, 0, script)
		if mon == nil {
			mon = []string{}
		}
		o.emit(map[string]interface{}{"k": "det", "sc": -100, "script": "replay", "script_stopped": stop, "well": false, "steps": steps, "mon": mon, "maxlive": maxLive})
		return
	}
	names := []string{}
	for nm := range vScripts {
		names = append(names, nm)
	}
	sort.Strings(names)
	for i, nm := range names {
		if atomic.LoadInt32(&vDetStalls) >= 2 {
			break
		}
		steps, mon, maxLive, stop := vScenario(&vrng{s: 1}, false, 0, vScripts[nm])
		if mon == nil {
			mon = []string{}
		}
		o.emit(map[string]interface{}{"k": "det", "sc": -1 - i, "script": nm, "script_stopped": stop, "well": false, "steps": steps, "mon": mon, "maxlive": maxLive})
	}
	n := 150
	if verifThorough() {
		n = 1500
	}
	for sc := 0; sc < n && atomic.LoadInt32(&vDetStalls) < 2; sc++ {
		well := sc%5 != 4 // every fifth scenario lets Done runnables linger (the recorded class)
		steps, mon, maxLive, _ := vScenario(&vrng{s: r.next()}, well, 25+r.below(40), nil)
		if mon == nil {
			mon = []string{}
		}
		o.emit(map[string]interface{}{"k": "det", "sc": sc, "well": well, "steps": steps, "mon": mon, "maxlive": maxLive})
	}
}
