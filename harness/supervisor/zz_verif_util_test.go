//go:build verif

package supervisor

import (
	"bufio"
	"encoding/json"
	"os"
	"strconv"
	"sync"
	"testing"
)

type vrng struct{ s uint64 }

func (r *vrng) next() uint64 {
	r.s += 0x9E3779B97F4A7C15
	z := r.s
	z = (z ^ (z >> 30)) * 0xBF58476D1CE4E5B9
	z = (z ^ (z >> 27)) * 0x94D049BB133111EB
	return z ^ (z >> 31)
}
func (r *vrng) below(n int) int { return int(r.next() % uint64(n)) }
func (r *vrng) bytes(n int) []byte {
	b := make([]byte, n)
	for i := range b {
		b[i] = byte(r.next())
	}
	return b
}

func verifSeed() uint64 {
	s, _ := strconv.ParseUint(os.Getenv("VERIF_SEED"), 10, 64)
	return s
}
func verifThorough() bool { return os.Getenv("VERIF_TIER") == "thorough" }

type vout struct {
	mu sync.Mutex
	f  *os.File
	w  *bufio.Writer
	e  *json.Encoder
}

func verifOut(t *testing.T) *vout {
	f, err := os.Create(os.Getenv("VERIF_OUT"))
	if err != nil {
		t.Fatal(err)
	}
	w := bufio.NewWriterSize(f, 1<<20)
	return &vout{f: f, w: w, e: json.NewEncoder(w)}
}
func (o *vout) emit(v interface{}) {
	o.mu.Lock()
	defer o.mu.Unlock()
	o.e.Encode(v)
	o.w.Flush()
}
func (o *vout) close() { o.w.Flush(); o.f.Close() }

func TestVerifNothing(t *testing.T) {}
