//go:build verif

package supervisor

// C18, free-running mode: the real supervisor (New, processor goroutine, 1 ms GC, real back-off) with instrumented services on
// tree shapes up to depth 3.  Every service counts its live instances; failures (error / nil return / panic), completion
// (SignalDone) and exit latencies are scripted per service.  Monitors: never two live instances of one service; every service that
// failed is running again afterwards; a completed service is not started again by itself; after the supervisor's context is
// cancelled every service exits and nothing is started any more.
import (
	"context"
	"errors"
	"fmt"
	"sort"
	"strings"
	"sync"
	"testing"
	"time"

	"go.uber.org/zap"
)

type fSpec struct {
	Name     string   `json:"name"`
	Kind     string   `json:"kind"`     // stay | err | nil | panic | done | done-late
	Fails    int      `json:"fails"`    // how many incarnations fail before one stays up
	Then     string   `json:"then,omitempty"` // what the incarnations after the scripted failures do: "" (stay) | done-late
	AfterMs  int      `json:"after_ms"` // failure time after start
	ExitMs   int      `json:"exit_ms"`  // latency between cancellation (or SignalDone) and return
	Groups   [][]int  `json:"groups"`   // indices into Kids, one list per RunGroup call
	Kids     []*fSpec `json:"kids"`
	dn       string
	failures int
}

type fStat struct {
	Starts    int   `json:"starts"`
	Live      int   `json:"live"`
	MaxLive   int   `json:"maxlive"`
	Fails     int   `json:"fails"`
	AfterStop int   `json:"starts_after_cancel"`
	Done      int   `json:"done_returns"`
	StartsAt  []int `json:"starts_at_ms"`
}

type fWorld struct {
	mu      sync.Mutex
	stats   map[string]*fStat
	t0      time.Time
	stopped bool
	mon     []string
}

func (w *fWorld) stat(dn string) *fStat {
	s := w.stats[dn]
	if s == nil {
		s = &fStat{}
		w.stats[dn] = s
	}
	return s
}

func (w *fWorld) service(sp *fSpec) Runnable {
	return func(ctx context.Context) error {
		w.mu.Lock()
		st := w.stat(sp.dn)
		st.Starts++
		st.Live++
		st.StartsAt = append(st.StartsAt, int(time.Since(w.t0).Milliseconds()))
		if st.Live > st.MaxLive {
			st.MaxLive = st.Live
		}
		if st.Live > 1 {
			w.mon = append(w.mon, fmt.Sprintf("TWO LIVE INSTANCES of %s (%d ms after start)", sp.dn, time.Since(w.t0).Milliseconds()))
		}
		if w.stopped {
			st.AfterStop++
			w.mon = append(w.mon, fmt.Sprintf("STARTED AFTER CANCEL: %s was started after the supervisor's context had been cancelled", sp.dn))
		}
		inc := st.Starts
		failing := sp.failures < sp.Fails
		if failing {
			sp.failures++
		}
		w.mu.Unlock()
		leave := func() {
			w.mu.Lock()
			st.Live--
			w.mu.Unlock()
		}
		defer leave()
		_ = inc
		for _, g := range sp.Groups {
			m := map[string]Runnable{}
			for _, i := range g {
				m[sp.Kids[i].Name] = w.service(sp.Kids[i])
			}
			if err := RunGroup(ctx, m); err != nil {
				return err
			}
		}
		Signal(ctx, SignalHealthy)
		if !failing && sp.Then == "done-late" {
			Signal(ctx, SignalDone)
			time.Sleep(time.Duration(sp.ExitMs) * time.Millisecond)
			w.mu.Lock()
			st.Done++
			w.mu.Unlock()
			return nil
		}
		if sp.Kind == "done" || sp.Kind == "done-late" {
			Signal(ctx, SignalDone)
			if sp.Kind == "done-late" {
				time.Sleep(time.Duration(sp.ExitMs) * time.Millisecond)
			}
			w.mu.Lock()
			st.Done++
			w.mu.Unlock()
			return nil
		}
		var fail <-chan time.Time
		if failing && sp.Kind != "stay" {
			fail = time.After(time.Duration(sp.AfterMs) * time.Millisecond)
		}
		select {
		case <-ctx.Done():
			time.Sleep(time.Duration(sp.ExitMs) * time.Millisecond)
			return ctx.Err()
		case <-fail:
			w.mu.Lock()
			st.Fails++
			w.mu.Unlock()
			switch sp.Kind {
			case "err":
				return errors.New("scripted failure")
			case "nil":
				return nil
			default:
				panic("scripted panic")
			}
		}
	}
}

func fAssign(sp *fSpec, dn string, all *[]*fSpec) {
	sp.dn = dn
	*all = append(*all, sp)
	for _, k := range sp.Kids {
		fAssign(k, dn+"."+k.Name, all)
	}
}

// random tree of depth <= 3 below the root
func fGen(r *vrng, depth int, name string, allowDoneLate bool) *fSpec {
	sp := &fSpec{Name: name, Kind: "stay", ExitMs: r.below(4) * r.below(8)}
	switch r.below(10) {
	case 0, 1:
		sp.Kind = "err"
	case 2:
		sp.Kind = "nil"
	case 3:
		sp.Kind = "panic"
	case 4:
		if depth > 0 {
			sp.Kind = "done"
		}
	case 5:
		if depth > 0 && allowDoneLate {
			sp.Kind = "done-late"
			sp.ExitMs = 5 + r.below(60)
		}
	}
	if sp.Kind == "err" || sp.Kind == "nil" || sp.Kind == "panic" {
		sp.Fails = 1 + r.below(2)
		sp.AfterMs = 1 + r.below(25)
	}
	if depth < 3 {
		nk := r.below(4)
		if depth == 0 && nk == 0 {
			nk = 1
		}
		for i := 0; i < nk; i++ {
			sp.Kids = append(sp.Kids, fGen(r, depth+1, fmt.Sprintf("s%d", i), allowDoneLate))
		}
		// one or two RunGroup calls
		if nk > 0 {
			cut := r.below(nk + 1)
			a, b := []int{}, []int{}
			for i := 0; i < nk; i++ {
				if i < cut {
					a = append(a, i)
				} else {
					b = append(b, i)
				}
			}
			for _, g := range [][]int{a, b} {
				if len(g) > 0 {
					sp.Groups = append(sp.Groups, g)
				}
			}
		}
	}
	if depth == 0 {
		sp.Kind, sp.Fails = "stay", 0 // the root stays up (its failures are scripted through the children)
		if r.below(4) == 0 {
			sp.Kind, sp.Fails, sp.AfterMs = "err", 1, 5+r.below(20)
		}
	}
	return sp
}

// services below a completed (Done) service one of whose group siblings fails: the sibling's death cancels the completed
// service's context and with it everything below; the completed service is "left alone", so its context stays cancelled and
// nothing below it can be started again (recorded class)
func fOrphanable(sp *fSpec, out map[string]bool) {
	for _, g := range sp.Groups {
		fails := 0
		for _, i := range g {
			fails += sp.Kids[i].Fails
		}
		for _, i := range g {
			k := sp.Kids[i]
			if (k.Kind == "done" || k.Kind == "done-late") && fails > 0 {
				var mark func(x *fSpec)
				mark = func(x *fSpec) {
					for _, y := range x.Kids {
						out[y.dn] = true
						mark(y)
					}
				}
				mark(k)
			}
		}
	}
	for _, k := range sp.Kids {
		fOrphanable(k, out)
	}
}

func fRun(sp *fSpec) (map[string]*fStat, []string, map[string]interface{}) {
	w := &fWorld{stats: map[string]*fStat{}, t0: time.Now()}
	var all []*fSpec
	fAssign(sp, "root", &all)
	orphanable := map[string]bool{}
	fOrphanable(sp, orphanable)
	ctx, cancel := context.WithCancel(context.Background())
	sup := New(ctx, zap.NewNop(), w.service(sp))
	info := map[string]interface{}{}
	// every scripted failure happens, then everything that should be up is up, and stays so: wait (bounded) for that
	total := 0
	for _, s := range all {
		total += s.Fails
	}
	upOK := func() (bool, string) {
		w.mu.Lock()
		defer w.mu.Unlock()
		for _, s := range all {
			st := w.stat(s.dn)
			if orphanable[s.dn] {
				continue // looked at separately below
			}
			if s.Kind == "done" || s.Kind == "done-late" || s.Then == "done-late" {
				if st.Live != 0 && s.Kind == "done" {
					return false, s.dn + " (done) still live"
				}
				if s.Then == "done-late" && (s.failures < s.Fails || st.Done == 0 || st.Live != 0) {
					return false, fmt.Sprintf("%s has not completed yet (failed %d of %d times, %d live)", s.dn, s.failures, s.Fails, st.Live)
				}
				continue
			}
			if s.failures < s.Fails {
				return false, fmt.Sprintf("%s has failed %d of %d scripted times", s.dn, s.failures, s.Fails)
			}
			if st.Live != 1 {
				return false, fmt.Sprintf("%s has %d live instances", s.dn, st.Live)
			}
		}
		return true, ""
	}
	deadline := time.Now().Add(time.Duration(6+2*total) * time.Second)
	why := ""
	for {
		ok, y := upOK()
		why = y
		if ok {
			// stable?  let the supervisor settle and look again
			sctx, c2 := context.WithTimeout(context.Background(), 5*time.Second)
			sup.waitSettle(sctx)
			c2()
			if ok2, _ := upOK(); ok2 {
				break
			}
		}
		if time.Now().After(deadline) {
			w.mu.Lock()
			w.mon = append(w.mon, "NOT RUNNING AGAIN: "+why+fmt.Sprintf(" %d s after start (%d scripted failures; a back-off is at most about 1.7 s here)", 6+2*total, total))
			w.mu.Unlock()
			break
		}
		time.Sleep(5 * time.Millisecond)
	}
	info["up_after_ms"] = time.Since(w.t0).Milliseconds()
	// the recorded class: services below a completed group member whose sibling failed
	w.mu.Lock()
	for _, s := range all {
		if !orphanable[s.dn] || s.Kind == "done" || s.Kind == "done-late" {
			continue
		}
		st := w.stat(s.dn)
		if st.Starts > 0 && st.Live == 0 {
			w.mon = append(w.mon, fmt.Sprintf("[below-completed-group-member] NOT RUNNING AGAIN: %s was cancelled when a group sibling of its completed ancestor failed and has not been started again (%d starts)", s.dn, st.Starts))
		}
	}
	w.mu.Unlock()
	// completed services: not started again by themselves — never more starts than their parent had
	w.mu.Lock()
	for _, s := range all {
		if s.Kind != "done" && s.Kind != "done-late" {
			continue
		}
		if s.Fails > 0 {
			continue
		}
		pdn := s.dn[:strings.LastIndex(s.dn, ".")]
		// a done service is started once per incarnation of its parent, plus once per restart of its group (a sibling failed)
		groupFails := 0
		for _, p := range all {
			if p.dn == pdn {
				for _, g := range p.Groups {
					in := false
					for _, i := range g {
						if p.Kids[i] == s {
							in = true
						}
					}
					if in {
						for _, i := range g {
							groupFails += p.Kids[i].Fails
						}
					}
				}
			}
		}
		if w.stat(s.dn).Starts > w.stat(pdn).Starts+groupFails {
			w.mon = append(w.mon, fmt.Sprintf("COMPLETED SERVICE RESTARTED: %s signalled Done but was started %d times; its parent %d times, failures in its group %d",
				s.dn, w.stat(s.dn).Starts, w.stat(pdn).Starts, groupFails))
		}
	}
	w.stopped = true
	w.mu.Unlock()
	cancel()
	// everything exits
	end := time.Now().Add(5 * time.Second)
	for {
		w.mu.Lock()
		live := []string{}
		for dn, st := range w.stats {
			if st.Live != 0 {
				live = append(live, dn)
			}
		}
		w.mu.Unlock()
		if len(live) == 0 {
			break
		}
		if time.Now().After(end) {
			sort.Strings(live)
			w.mu.Lock()
			w.mon = append(w.mon, fmt.Sprintf("STILL RUNNING 5 s AFTER CANCEL: %v", live))
			w.mu.Unlock()
			break
		}
		time.Sleep(time.Millisecond)
	}
	time.Sleep(30 * time.Millisecond) // a restart after the cancellation would show up now (services count starts after `stopped`)
	w.mu.Lock()
	defer w.mu.Unlock()
	mon := append([]string{}, w.mon...)
	return w.stats, mon, info
}

// crafted timings (the random trees rarely hit them): exits of completed services that overlap a failure above them
func fCrafted() map[string]*fSpec {
	return map[string]*fSpec{
		// p fails while its child c, which has signalled Done, is still on its way out: the restart scan runs in between, finds the
		// subtree not yet exited, and p must be started again once c has returned (c's nil return is the only event that makes it so)
		"failure-above-lingering-done": {Name: "root", Kind: "stay", Groups: [][]int{{0}}, Kids: []*fSpec{
			{Name: "p", Kind: "err", Fails: 1, AfterMs: 15, Groups: [][]int{{0}}, Kids: []*fSpec{
				{Name: "c", Kind: "done-late", ExitMs: 120}}}}},
		// c fails once and is restarted on its own (its node object is re-used); its second incarnation signals Done and lingers
		// for 1.6 s; inside that window its parent p fails: p's subtree must not be restarted before the lingering c has returned
		"failure-above-restarted-lingering-done": {Name: "root", Kind: "stay", Groups: [][]int{{0}}, Kids: []*fSpec{
			{Name: "p", Kind: "err", Fails: 1, AfterMs: 1300, Groups: [][]int{{0}}, Kids: []*fSpec{
				{Name: "c", Kind: "err", Fails: 1, AfterMs: 5, Then: "done-late", ExitMs: 1600}}}}},
	}
}

func TestVerifC18Free(t *testing.T) {
	r := &vrng{s: verifSeed() ^ 0xc18b}
	o := verifOut(t)
	defer o.close()
	n := 24
	if verifThorough() {
		n = 160
	}
	var wg sync.WaitGroup
	sem := make(chan struct{}, 24)
	ci := 0
	for nm, sp := range fCrafted() {
		ci++
		wg.Add(1)
		sem <- struct{}{}
		go func(sc int, nm string, sp *fSpec) {
			defer wg.Done()
			defer func() { <-sem }()
			stats, mon, info := fRun(sp)
			if mon == nil {
				mon = []string{}
			}
			o.emit(map[string]interface{}{"k": "free", "sc": sc, "script": nm, "late": false, "spec": sp, "stats": stats, "mon": mon, "info": info})
		}(-ci, nm, sp)
	}
	for sc := 0; sc < n; sc++ {
		late := sc%4 == 3 // every fourth scenario may contain services that return late after SignalDone
		sp := fGen(&vrng{s: r.next()}, 0, "root", late)
		wg.Add(1)
		sem <- struct{}{}
		go func(sc int, sp *fSpec, late bool) {
			defer wg.Done()
			defer func() { <-sem }()
			stats, mon, info := fRun(sp)
			if mon == nil {
				mon = []string{}
			}
			o.emit(map[string]interface{}{"k": "free", "sc": sc, "late": late, "spec": sp, "stats": stats, "mon": mon, "info": info})
		}(sc, sp, late)
	}
	wg.Wait()
}
