//go:build verif

package guardiand

// Extension X7, stage 2 of the re-observation-loop harness: the REAL handleReobservationRequests under a driven clock, fed with
// exactly the request stream the REAL handleCleanup produced in stage 1 (harness/processor TestVerifLoopStream, file
// $VERIF_LOOP_STREAM), optionally interleaved with requests of peers for the same transaction.  The watcher queues are made as
// node.go makes them (chains and capacity), the watcher drains as the scenario says.  Every step is recorded with its virtual time.
//
// Determinism as in harness/guardiand_reobs: unbuffered ticker and request channels; a "sync" request (a chain no watcher has)
// that is taken proves that the handler has finished the previous step.  Every wait has a deadline of 10 s.

import (
	"context"
	"encoding/hex"
	"encoding/json"
	"fmt"
	"os"
	"sort"
	"sync"
	"testing"
	"time"

	gossipv1 "github.com/alephium/wormhole-fork/node/pkg/proto/gossip/v1"
	"github.com/alephium/wormhole-fork/node/pkg/vaa"
	"github.com/benbjohnson/clock"
	"go.uber.org/zap"
	"go.uber.org/zap/zaptest/observer"
)

func TestVerifNothing(t *testing.T) {}

type vLoopClock struct {
	mu      sync.Mutex
	now     time.Time
	tickC   chan time.Time
	periods []time.Duration
	other   []string
}

func (c *vLoopClock) set(t time.Time) { c.mu.Lock(); c.now = t; c.mu.Unlock() }
func (c *vLoopClock) note(s string)   { c.mu.Lock(); c.other = append(c.other, s); c.mu.Unlock() }
func (c *vLoopClock) Now() time.Time  { c.mu.Lock(); defer c.mu.Unlock(); return c.now }
func (c *vLoopClock) Ticker(d time.Duration) *clock.Ticker {
	c.mu.Lock()
	c.periods = append(c.periods, d)
	c.mu.Unlock()
	tk := clock.NewMock().Ticker(d) // never fires by itself; Reset / Stop are safe on it
	tk.C = c.tickC
	return tk
}
func (c *vLoopClock) Since(t time.Time) time.Duration { return c.Now().Sub(t) }
func (c *vLoopClock) Until(t time.Time) time.Duration { return t.Sub(c.Now()) }
func (c *vLoopClock) After(d time.Duration) <-chan time.Time {
	c.note("After")
	return make(chan time.Time)
}
func (c *vLoopClock) AfterFunc(d time.Duration, f func()) *clock.Timer {
	c.note("AfterFunc")
	return clock.NewMock().AfterFunc(d, f)
}
func (c *vLoopClock) Sleep(d time.Duration) { c.note("Sleep") }
func (c *vLoopClock) Tick(d time.Duration) <-chan time.Time {
	c.note("Tick")
	return make(chan time.Time)
}
func (c *vLoopClock) Timer(d time.Duration) *clock.Timer {
	c.note("Timer")
	return clock.NewMock().Timer(d)
}
func (c *vLoopClock) WithDeadline(parent context.Context, d time.Time) (context.Context, context.CancelFunc) {
	c.note("WithDeadline")
	return context.WithCancel(parent)
}
func (c *vLoopClock) WithTimeout(parent context.Context, t time.Duration) (context.Context, context.CancelFunc) {
	c.note("WithTimeout")
	return context.WithCancel(parent)
}

type vLoopReq struct {
	T     int64  `json:"t"`
	Chain uint32 `json:"chain"`
	Tx    string `json:"tx"`
	Op    int    `json:"op"`
}
type vLoopStream struct {
	Scenario string     `json:"scenario"`
	Stream   []vLoopReq `json:"stream"`
	Horizon  int64      `json:"horizon"`
}

type vLoopEv struct {
	K     string `json:"k"` // tick | req | drain
	T     int64  `json:"t"`
	Chain uint32 `json:"chain,omitempty"`
	Tx    string `json:"tx,omitempty"`
	Src   string `json:"src,omitempty"` // req: "stream" (posted by the cleanup tick of stage 1) or "peer"
	Out   int    `json:"out"`           // req: 0 forwarded, 1 duplicate, 2 queue full, 3 unknown chain, 9 nothing observed / stalled; drain: 1 got one, 0 empty
	Got   string `json:"got,omitempty"`
}

type vLoopRow2 struct {
	K        string     `json:"k"`
	Scenario string     `json:"scenario"` // of stage 1
	Variant  string     `json:"variant"`
	Start    int64      `json:"start"`  // the dispatcher was started at this virtual second: purge ticks at start + k * period
	Period   int64      `json:"period"` // what the handler asked the clock's ticker for (seconds)
	Chains   []uint16   `json:"chains"`
	Cap      int        `json:"cap"`
	Fill     int        `json:"fill"`     // requests of another transaction already queued for the message's chain
	DrainAt  int64      `json:"drain_at"` // the watcher takes nothing before this virtual second, afterwards everything at once
	Events   []*vLoopEv `json:"events"`
	Mon      []string   `json:"mon"`
	Other    []string   `json:"other,omitempty"`
	Aborted  bool       `json:"aborted,omitempty"`
}

const vLoopDeadline = 10 * time.Second

var vLoopBase = time.Unix(1700000000, 0)

type vLoopVariant struct {
	name    string
	start   int64
	capc    int // 0: as node.go
	fill    int
	drainAt int64
	peers   int64 // a peer requests the same transaction every `peers` seconds (0: never)
}

func vLoopDispatch(st vLoopStream, v vLoopVariant) *vLoopRow2 {
	row := &vLoopRow2{K: "loop2", Scenario: st.Scenario, Variant: v.name, Start: v.start, Fill: v.fill, DrainAt: v.drainAt, Mon: []string{}, Events: []*vLoopEv{}}
	// the queues of node.go: one per chain that has a watcher, capacity observationRequestBufferSize
	capc := observationRequestBufferSize
	if v.capc > 0 {
		capc = v.capc
	}
	row.Cap = capc
	queues := map[vaa.ChainID]chan *gossipv1.ObservationRequest{}
	for _, c := range []vaa.ChainID{vaa.ChainIDEthereum, vaa.ChainIDBSC, vaa.ChainIDAlephium} {
		queues[c] = make(chan *gossipv1.ObservationRequest, capc)
		row.Chains = append(row.Chains, uint16(c))
	}
	if len(st.Stream) == 0 {
		return row
	}
	mchain := vaa.ChainID(st.Stream[0].Chain)
	for i := 0; i < v.fill; i++ {
		queues[mchain] <- &gossipv1.ObservationRequest{ChainId: uint32(mchain), TxHash: []byte(fmt.Sprintf("pre/%d", i))}
	}
	core, logs := observer.New(zap.InfoLevel)
	clk := &vLoopClock{now: vLoopBase.Add(time.Duration(v.start) * time.Second), tickC: make(chan time.Time)}
	reqC := make(chan *gossipv1.ObservationRequest)
	ctx, cancel := context.WithCancel(context.Background())
	defer cancel()
	go handleReobservationRequests(ctx, clk, zap.New(core), reqC, queues)
	nsync := 0
	send := func(r *gossipv1.ObservationRequest) bool {
		select {
		case reqC <- r:
			return true
		case <-time.After(vLoopDeadline):
			return false
		}
	}
	syncH := func() bool {
		nsync++
		return send(&gossipv1.ObservationRequest{ChainId: 60000, TxHash: []byte(fmt.Sprintf("sync%d", nsync))})
	}
	if !syncH() {
		row.Aborted = true
		row.Mon = append(row.Mon, "loop: the dispatcher did not take a first request within 10 s")
		return row
	}
	clk.mu.Lock()
	if len(clk.periods) == 1 {
		row.Period = int64(clk.periods[0] / time.Second)
	}
	clk.mu.Unlock()
	if row.Period <= 0 {
		row.Mon = append(row.Mon, "loop: the dispatcher did not ask the clock for exactly one positive purge ticker")
		row.Period = 420
	}
	// the schedule: purge ticks, the stream, the peer's requests; at equal times ticks first, then the stream in its order, then peers
	type item struct {
		t    int64
		kind int // 0 tick, 1 stream, 2 peer
		idx  int
	}
	var sched []item
	for t := v.start + row.Period; t <= st.Horizon; t += row.Period {
		sched = append(sched, item{t, 0, 0})
	}
	for i, q := range st.Stream {
		sched = append(sched, item{q.T, 1, i})
	}
	if v.peers > 0 {
		for t := st.Stream[0].T + 61; t <= st.Horizon; t += v.peers {
			sched = append(sched, item{t, 2, 0})
		}
	}
	sort.SliceStable(sched, func(i, j int) bool {
		if sched[i].t != sched[j].t {
			return sched[i].t < sched[j].t
		}
		return sched[i].kind < sched[j].kind
	})
	lens := func() int { return len(queues[mchain]) }
	drain := func(now int64) {
		if now < v.drainAt {
			return
		}
		for {
			ev := &vLoopEv{K: "drain", T: now, Chain: uint32(mchain)}
			select {
			case got := <-queues[mchain]:
				ev.Out = 1
				ev.Got = fmt.Sprintf("%d/%s", got.ChainId, hex.EncodeToString(got.TxHash))
				row.Events = append(row.Events, ev)
				if vaa.ChainID(got.ChainId) != mchain {
					row.Mon = append(row.Mon, fmt.Sprintf("loop: the watcher of chain %d received request %s, which names another chain", mchain, ev.Got))
				}
				continue
			default:
			}
			break
		}
	}
	for _, it := range sched {
		at := vLoopBase.Add(time.Duration(it.t) * time.Second)
		clk.set(at)
		if it.kind == 0 {
			ev := &vLoopEv{K: "tick", T: it.t}
			row.Events = append(row.Events, ev)
			ok := false
			select {
			case clk.tickC <- at:
				ok = syncH()
			case <-time.After(vLoopDeadline):
			}
			if !ok {
				ev.Out = 9
				row.Aborted = true
				row.Mon = append(row.Mon, fmt.Sprintf("loop: the dispatcher blocked: purge tick at %d s not taken / finished within 10 s", it.t))
				break
			}
			drain(it.t)
			continue
		}
		q := st.Stream[0]
		src := "peer"
		if it.kind == 1 {
			q = st.Stream[it.idx]
			src = "stream"
		}
		tx, _ := hex.DecodeString(q.Tx)
		ev := &vLoopEv{K: "req", T: it.t, Chain: q.Chain, Tx: q.Tx, Src: src, Out: 9}
		row.Events = append(row.Events, ev)
		before := lens()
		logs.TakeAll()
		if !send(&gossipv1.ObservationRequest{ChainId: q.Chain, TxHash: tx}) || !syncH() {
			row.Aborted = true
			row.Mon = append(row.Mon, fmt.Sprintf("loop: the dispatcher blocked: request at %d s not taken / finished within 10 s", it.t))
			break
		}
		var msgs []string
		for _, e := range logs.TakeAll() {
			if e.ContextMap()["tx_hash"] == q.Tx {
				msgs = append(msgs, e.Message)
			}
		}
		switch {
		case lens() == before+1:
			ev.Out = 0
		case len(msgs) == 1 && msgs[0] == "skipping duplicate re-observation request":
			ev.Out = 1
		case len(msgs) == 1 && msgs[0] == "failed to send reobservation request to watcher":
			ev.Out = 2
		case len(msgs) == 1 && msgs[0] == "unknown chain ID for reobservation request":
			ev.Out = 3
		}
		drain(it.t)
	}
	clk.mu.Lock()
	row.Other = clk.other
	clk.mu.Unlock()
	return row
}

func TestVerifReobsLoop(t *testing.T) {
	b, err := os.ReadFile(os.Getenv("VERIF_LOOP_STREAM"))
	if err != nil {
		t.Fatal(err)
	}
	var streams []vLoopStream
	if err := json.Unmarshal(b, &streams); err != nil {
		t.Fatal(err)
	}
	f, err := os.Create(os.Getenv("VERIF_OUT"))
	if err != nil {
		t.Fatal(err)
	}
	defer f.Close()
	enc := json.NewEncoder(f)
	variants := []vLoopVariant{
		{name: "ticker-from-0", start: 0},
		{name: "boundary-phase", start: 120},      // with retries at 300 + 300 k: a purge tick exactly 11 min after the first forward
		{name: "peers-gossip-too", start: 60, peers: 127},
		{name: "slow-watcher", start: 0, capc: 1, fill: 1, drainAt: 420},
	}
	for i, st := range streams {
		for j, v := range variants {
			if os.Getenv("VERIF_TIER") != "thorough" && i >= 2 && (i+j)%len(variants) != 0 {
				continue // quick tier: every stream once, the first two under every variant
			}
			enc.Encode(vLoopDispatch(st, v))
		}
	}
	enc.Encode(map[string]interface{}{"k": "consts", "bufsize": observationRequestBufferSize})
}
