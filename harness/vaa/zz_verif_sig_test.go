//go:build verif

package vaa

import (
	"sync/atomic"
	"math/big"
	"crypto/ecdsa"
	"encoding/hex"
	"fmt"
	"testing"
	"time"

	"github.com/ethereum/go-ethereum/common"
	"github.com/ethereum/go-ethereum/crypto"
)

func verifKey(r *vrng) *ecdsa.PrivateKey {
	for {
		k, err := crypto.ToECDSA(r.bytes(32))
		if err == nil {
			return k
		}
	}
}

// direct use of go-ethereum (not through the repo): recovered address or nil
func verifRecover(h []byte, sig []byte) []byte {
	pk, err := crypto.Ecrecover(h, sig)
	if err != nil {
		return nil
	}
	return crypto.Keccak256(pk[1:])[12:]
}

type vSigCase struct {
	I   int     `json:"i"`
	D   string  `json:"d"`
	Rec *string `json:"rec"` // recovered address (hex) over the case's digest, null if recovery fails
}

// TestVerifC06 : VerifySignatures on generated guardian lists, signer subsets and single-step corruptions
func TestVerifC06(t *testing.T) {
	r := &vrng{s: verifSeed() ^ 0xc06}
	o := verifOut(t)
	defer o.close()
	rounds := 40
	if verifThorough() {
		rounds = 600
	}
	keys := make([]*ecdsa.PrivateKey, 256)
	for i := range keys {
		keys[i] = verifKey(r)
	}
	sizes := []int{0, 1, 2, 3, 4, 5, 7, 13, 19, 19, 40}
	emit := func(kind string, v *VAA, addrs []common.Address, expect int) {
		h := v.SigningMsg()
		pan := ""
		got := false
		func() {
			defer func() {
				if x := recover(); x != nil {
					pan = fmt.Sprint(x)
				}
			}()
			got = v.VerifySignatures(addrs)
		}()
		sc := []vSigCase{}
		for _, s := range v.Signatures {
			c := vSigCase{I: int(s.Index), D: hex.EncodeToString(s.Signature[:])}
			if a := verifRecover(h.Bytes(), s.Signature[:]); a != nil {
				x := hex.EncodeToString(a)
				c.Rec = &x
			}
			sc = append(sc, c)
		}
		as := []string{}
		for _, a := range addrs {
			as = append(as, hex.EncodeToString(a[:]))
		}
		mon := []string{}
		if pan != "" {
			mon = append(mon, "VerifySignatures panicked: "+pan)
		}
		if expect == 1 && !got {
			mon = append(mon, "valid, ordered, in-set signature list rejected ("+kind+")")
		}
		if expect == 0 && got {
			mon = append(mon, "corrupted signature list accepted ("+kind+")")
		}
		o.emit(map[string]interface{}{"k": "c06", "kind": kind, "addrs": as, "sigs": sc, "got": got, "expect": expect, "mon": mon})
	}
	for round := 0; round < rounds; round++ {
		n := sizes[round%len(sizes)]
		if round%23 == 11 {
			n = 255
		}
		// guardian list: distinct keys, optionally with one forced repeat
		perm := make([]int, 256)
		for i := range perm {
			perm[i] = i
		}
		for i := 255; i > 0; i-- {
			j := r.below(i + 1)
			perm[i], perm[j] = perm[j], perm[i]
		}
		idx := perm[:n]
		repeated := n >= 2 && round%5 == 3
		if repeated {
			idx[n-1] = idx[0] // addresses[0] == addresses[n-1]
		}
		addrs := make([]common.Address, n)
		for i, k := range idx {
			addrs[i] = crypto.PubkeyToAddress(keys[k].PublicKey)
		}
		base, _, _ := verifRandVAA(r, 0, 1+r.below(80), true)
		base.Timestamp = time.Unix(int64(uint32(r.next())), 0)
		// signer subset, ascending
		var members []int
		for i := 0; i < n; i++ {
			if r.below(3) != 0 || n <= 3 {
				members = append(members, i)
			}
		}
		if repeated {
			// drop the second occurrence unless we test it explicitly below
			var mm []int
			for _, i := range members {
				if i != n-1 {
					mm = append(mm, i)
				}
			}
			members = mm
		}
		mk := func() *VAA {
			v := *base
			v.Signatures = nil
			for _, i := range members {
				v.AddSignature(keys[idx[i]], uint8(i))
			}
			return &v
		}
		v := mk()
		emit("valid", v, addrs, 1)
		emit("no-signatures", &VAA{Version: 1, Payload: []byte{1}}, addrs, 1)
		if n == 0 {
			w := *base
			w.AddSignature(keys[0], 0)
			emit("empty-list-one-sig", &w, addrs, 0)
			continue
		}
		if len(members) == 0 {
			continue
		}
		k := len(v.Signatures)
		// body bit flip: signatures made for another body
		w := mk()
		w.Payload = append([]byte{}, base.Payload...)
		w.Payload[r.below(len(w.Payload))] ^= 1 << uint(r.below(8))
		emit("body-bitflip", w, addrs, 0)
		w = mk()
		w.Sequence++
		emit("body-seq", w, addrs, 0)
		if k >= 2 {
			w = mk()
			a, b := r.below(k), r.below(k)
			if a == b {
				b = (a + 1) % k
			}
			w.Signatures[a], w.Signatures[b] = w.Signatures[b], w.Signatures[a]
			emit("swap", w, addrs, 0)
		}
		w = mk()
		d := r.below(k)
		dup := *w.Signatures[d]
		w.Signatures = append(w.Signatures[:d+1], append([]*Signature{&dup}, w.Signatures[d+1:]...)...)
		emit("duplicate", w, addrs, 0)
		w = mk()
		d = r.below(k)
		c := *w.Signatures[d]
		c.Index = uint8((int(c.Index) + 1 + r.below(n)) % 256)
		w.Signatures[d] = &c
		if addrs[int(c.Index)%n] != addrs[members[d]] || int(c.Index) >= n {
			emit("re-index", w, addrs, 0)
		}
		w = mk()
		c = *w.Signatures[k-1]
		c.Index = uint8(n % 256)
		w.Signatures[k-1] = &c
		if n < 256 {
			emit("index=len", w, addrs, 0)
		}
		w = mk()
		c = *w.Signatures[k-1]
		c.Index = 255
		w.Signatures[k-1] = &c
		if n < 256 && !(n == 256) {
			emit("index=255", w, addrs, boolToInt(false))
		}
		// foreign key at a member's index
		w = mk()
		d = r.below(k)
		fk := verifKey(r)
		sg, _ := crypto.Sign(w.SigningMsg().Bytes(), fk)
		c = Signature{Index: w.Signatures[d].Index}
		copy(c.Signature[:], sg)
		w.Signatures[d] = &c
		emit("foreign-key", w, addrs, 0)
		// member signing at another member's index
		if n >= 2 && !repeated {
			w = mk()
			d = r.below(k)
			other := (members[d] + 1) % n
			sg, _ := crypto.Sign(w.SigningMsg().Bytes(), keys[idx[other]])
			c = Signature{Index: w.Signatures[d].Index}
			copy(c.Signature[:], sg)
			w.Signatures[d] = &c
			emit("member-wrong-index", w, addrs, 0)
		}
		// the mirrored form (r, N-s, v^1) of a guardian's signature: it recovers, over the same digest, to the same address (the
		// contracts' ecrecover accepts it too), so the iff says the list must still verify
		if k > 0 {
			w = mk()
			d = r.below(k)
			c = *w.Signatures[d]
			order, _ := new(big.Int).SetString("fffffffffffffffffffffffffffffffebaaedce6af48a03bbfd25e8cd0364141", 16)
			sv := new(big.Int).Sub(order, new(big.Int).SetBytes(c.Signature[32:64]))
			sb := sv.Bytes()
			for i := 32; i < 64; i++ {
				c.Signature[i] = 0
			}
			copy(c.Signature[64-len(sb):64], sb)
			c.Signature[64] ^= 1
			w.Signatures[d] = &c
			if a := verifRecover(w.SigningMsg().Bytes(), c.Signature[:]); a != nil && common.BytesToAddress(a) == addrs[c.Index] {
				emit("mirrored-high-s", w, addrs, 1)
			}
		}
		// a guardian list with an ALL-ZERO address at one position (nobody holds its key) and, at that position, signature bytes that do not
		// recover at all: "recovers to the address at the index it claims" is false, whatever a failed recovery is made to stand for
		if k > 0 && !repeated {
			w = mk()
			d = r.below(k)
			az := append([]common.Address{}, addrs...)
			az[w.Signatures[d].Index] = common.Address{}
			for _, bad := range []string{"zero", "recid4", "ff"} {
				c = *w.Signatures[d]
				switch bad {
				case "zero":
					c.Signature = SignatureData{}
				case "recid4":
					c.Signature[64] = 4
				default:
					for i := range c.Signature {
						c.Signature[i] = 0xff
					}
				}
				w2 := *w
				w2.Signatures = append([]*Signature{}, w.Signatures...)
				w2.Signatures[d] = &c
				emit("zero-address-unrecoverable-"+bad, &w2, az, 0)
			}
		}
		// malformed signature bytes
		for _, kind := range []string{"recid>=4", "zero-sig", "r=0", "s>=order", "sig-bitflip"} {
			w = mk()
			d = r.below(k)
			c = *w.Signatures[d]
			switch kind {
			case "recid>=4":
				c.Signature[64] = byte(4 + r.below(250))
			case "zero-sig":
				c.Signature = SignatureData{}
			case "r=0":
				for i := 0; i < 32; i++ {
					c.Signature[i] = 0
				}
			case "s>=order":
				for i := 32; i < 64; i++ {
					c.Signature[i] = 0xff
				}
			case "sig-bitflip":
				c.Signature[r.below(64)] ^= 1 << uint(r.below(8))
			}
			w.Signatures[d] = &c
			emit(kind, w, addrs, 0)
		}
		// exhaustive sweep of the recovery byte of one signature (all 255 other values) on the first small lists: only the
		// original value may verify (27/28-style "Ethereum" encodings, 2/3, and everything >= 4 must all be rejected)
		if n >= 1 && n <= 6 && round < 24 && k > 0 {
			d = r.below(k)
			orig := mk().Signatures[d].Signature[64]
			for b := 0; b < 256; b++ {
				if byte(b) == orig {
					continue
				}
				w = mk()
				c = *w.Signatures[d]
				c.Signature[64] = byte(b)
				w.Signatures[d] = &c
				emit("recid-sweep", w, addrs, 0)
			}
		}
		// repeated address: the same guardian at both of its indices
		if repeated {
			w = mk()
			has0 := len(members) > 0 && members[0] == 0
			if has0 {
				w.AddSignature(keys[idx[0]], uint8(n-1))
				emit("repeated-address-both-indices", w, addrs, 0)
			}
		}
		// more signatures than addresses
		if n <= 3 {
			w = mk()
			for len(w.Signatures) <= n {
				w.AddSignature(keys[idx[0]], uint8(len(w.Signatures)))
			}
			emit("more-sigs-than-addrs", w, addrs, 0)
		}
	}
}

func boolToInt(b bool) int {
	if b {
		return 1
	}
	return 0
}


// TestVerifC06Conc : VerifySignatures from several goroutines at once on VAAs with large payloads (valid ones and ones whose body was changed
// after signing); each verdict must be the sequential one.  Rows "c06conc" (monitors only).
func TestVerifC06Conc(t *testing.T) {
	r := &vrng{s: verifSeed() ^ 0xc06c}
	o := verifOut(t)
	defer o.close()
	keys := make([]*ecdsa.PrivateKey, 5)
	addrs := make([]common.Address, 5)
	for i := range keys {
		keys[i] = verifKey(r)
		addrs[i] = crypto.PubkeyToAddress(keys[i].PublicKey)
	}
	type job struct {
		v    *VAA
		want bool
	}
	jobs := []job{}
	for i := 0; i < 12; i++ {
		v, _, _ := verifRandVAA(r, 0, 200000+r.below(300000), true)
		for k := 0; k < 4; k++ {
			v.AddSignature(keys[k], uint8(k))
		}
		jobs = append(jobs, job{v, true})
		w := *v
		w.Payload = append([]byte{}, v.Payload...)
		w.Payload[len(w.Payload)-1-r.below(1000)] ^= 1
		jobs = append(jobs, job{&w, false})
	}
	workers, per := 8, 40
	if verifThorough() {
		per = 400
	}
	var wrongAcc, wrongRej, panics int64
	done := make(chan struct{}, workers)
	for wk := 0; wk < workers; wk++ {
		go func(wk int) {
			defer func() { done <- struct{}{} }()
			for i := 0; i < per; i++ {
				j := jobs[(wk*7+i)%len(jobs)]
				func() {
					defer func() {
						if recover() != nil {
							atomic.AddInt64(&panics, 1)
						}
					}()
					got := j.v.VerifySignatures(addrs)
					if got && !j.want {
						atomic.AddInt64(&wrongAcc, 1)
					}
					if !got && j.want {
						atomic.AddInt64(&wrongRej, 1)
					}
				}()
			}
		}(wk)
	}
	stuck := false
	deadline := time.After(120 * time.Second)
	for k := 0; k < workers && !stuck; k++ {
		select {
		case <-done:
		case <-deadline:
			stuck = true
		}
	}
	mon := []string{}
	if a := atomic.LoadInt64(&wrongAcc); a > 0 {
		mon = append(mon, fmt.Sprintf("under concurrent callers VerifySignatures ACCEPTED %d times a VAA whose body was changed after signing (%d workers x %d calls)", a, workers, per))
	}
	if a := atomic.LoadInt64(&wrongRej); a > 0 {
		mon = append(mon, fmt.Sprintf("under concurrent callers VerifySignatures REJECTED %d times a validly signed VAA (%d workers x %d calls)", a, workers, per))
	}
	if a := atomic.LoadInt64(&panics); a > 0 {
		mon = append(mon, fmt.Sprintf("VerifySignatures panicked %d times under concurrent callers", a))
	}
	if stuck {
		mon = append(mon, "concurrent VerifySignatures calls did not return within 120 s")
	}
	o.emit(map[string]interface{}{"k": "c06conc", "workers": workers, "calls": workers * per, "mon": mon})
}
