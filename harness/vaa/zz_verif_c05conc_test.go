//go:build verif

package vaa

// C05 under concurrent callers: the codec is used from the processor goroutine, from every gRPC request and from the p2p goroutine at
// once.  8 goroutines encode / decode / digest VAAs of very different sizes; every result is compared with a reference computed
// beforehand on one goroutine (the round trip, the byte-exact re-encoding and the digest clauses, per call).

import (
	"bytes"
	"fmt"
	"sync/atomic"
	"testing"
	"time"
)

func TestVerifC05Conc(t *testing.T) {
	r := &vrng{s: verifSeed() ^ 0xc05c}
	o := verifOut(t)
	defer o.close()
	type ref struct {
		v    *VAA
		wire []byte
		dig  [32]byte
	}
	refs := []ref{}
	for i := 0; i < 24; i++ {
		n := []int{0, 1, 31, 200, 5000, 70000, 300000}[i%7] + r.below(50)
		v, _, _ := verifRandVAA(r, r.below(4), n, true)
		w, err := v.Marshal()
		if err != nil {
			continue
		}
		refs = append(refs, ref{v, w, v.SigningMsg()})
	}
	workers, per := 8, 300
	if verifThorough() {
		per = 1500
	}
	var badWire, badBack, badDig, panics int64
	done := make(chan struct{}, workers)
	for wk := 0; wk < workers; wk++ {
		go func(wk int) {
			defer func() { done <- struct{}{} }()
			for i := 0; i < per; i++ {
				x := refs[(wk*5+i)%len(refs)]
				func() {
					defer func() {
						if recover() != nil {
							atomic.AddInt64(&panics, 1)
						}
					}()
					w, err := x.v.Marshal()
					if err != nil || !bytes.Equal(w, x.wire) {
						atomic.AddInt64(&badWire, 1)
					}
					back, err := Unmarshal(x.wire)
					if err != nil {
						atomic.AddInt64(&badBack, 1)
						return
					}
					w2, err := back.Marshal()
					if err != nil || !bytes.Equal(w2, x.wire) {
						atomic.AddInt64(&badBack, 1)
					}
					if back.SigningMsg() != x.dig || x.v.SigningMsg() != x.dig {
						atomic.AddInt64(&badDig, 1)
					}
				}()
			}
		}(wk)
	}
	stuck := false
	deadline := time.After(180 * time.Second)
	for k := 0; k < workers && !stuck; k++ {
		select {
		case <-done:
		case <-deadline:
			stuck = true
		}
	}
	mon := []string{}
	if a := atomic.LoadInt64(&badWire); a > 0 {
		mon = append(mon, fmt.Sprintf("under concurrent callers Marshal produced other bytes than on a single goroutine for the same VAA, %d times (%d workers x %d cycles)", a, workers, per))
	}
	if a := atomic.LoadInt64(&badBack); a > 0 {
		mon = append(mon, fmt.Sprintf("under concurrent callers decode / re-encode of valid wire bytes failed or gave other bytes, %d times (%d workers x %d cycles)", a, workers, per))
	}
	if a := atomic.LoadInt64(&badDig); a > 0 {
		mon = append(mon, fmt.Sprintf("under concurrent callers the digest of a VAA or of its decoded copy differed from the digest computed on a single goroutine, %d times (%d workers x %d cycles)", a, workers, per))
	}
	if a := atomic.LoadInt64(&panics); a > 0 {
		mon = append(mon, fmt.Sprintf("the codec panicked %d times under concurrent callers", a))
	}
	if stuck {
		mon = append(mon, "concurrent codec calls did not return within 180 s")
	}
	o.emit(map[string]interface{}{"k": "c05conc", "workers": workers, "cycles": workers * per, "vaas": len(refs), "mon": mon})
}
