//go:build verif

package vaa

// X12: inputs for the differential test of the TRANSLATED Messages.sol entry point (gen/x_solverify.py) against the Go side.
// Every row carries: the wire bytes, the guardian key list, what the node does with them (Unmarshal, VerifySignatures, count against
// floor(2n/3)+1) with the field values Unmarshal returned, and the table the ecrecover oracle needs: for every 66-byte signature record
// position of the wire form the addresses go-ethereum recovers for v = 27 and v = 28 over keccak256(keccak256(wire[6+66k:])) — the EVM
// precompile's answer for any other v is the zero address.  The generated Gallina functions are evaluated on these rows inside Coq.

import (
	"crypto/ecdsa"
	"encoding/hex"
	"fmt"
	"testing"
	"time"

	"github.com/ethereum/go-ethereum/common"
	"github.com/ethereum/go-ethereum/crypto"
)

type vSolRec struct {
	K string `json:"k"` // r || s || v (v = 27 / 28), hex
	A string `json:"a"` // recovered address, hex (zero address when recovery fails)
}

func verifSolRecoverTable(wire []byte) (string, []vSolRec) {
	out := []vSolRec{}
	if len(wire) < 6 {
		return "", out
	}
	k := int(wire[5])
	off := 6 + 66*k
	if off > len(wire) {
		return "", out
	}
	h := crypto.Keccak256(crypto.Keccak256(wire[off:]))
	seen := map[string]bool{}
	for i := 0; i < k; i++ {
		rec := wire[6+66*i : 6+66*i+66]
		rs := rec[1:65]
		for _, v := range []byte{27, 28} {
			key := hex.EncodeToString(rs) + hex.EncodeToString([]byte{v})
			if seen[key] {
				continue
			}
			seen[key] = true
			sig := append(append([]byte{}, rs...), v-27)
			a := verifRecover(h, sig)
			if a == nil {
				a = make([]byte, 20)
			}
			out = append(out, vSolRec{K: key, A: hex.EncodeToString(a)})
		}
	}
	return hex.EncodeToString(h), out
}

func verifSolRow(o *vout, kind string, wire []byte, addrs []common.Address) {
	row := map[string]interface{}{"k": "solsrc", "kind": kind, "wire": hex.EncodeToString(wire)}
	as := []string{}
	for _, a := range addrs {
		as = append(as, hex.EncodeToString(a[:]))
	}
	row["keys"] = as
	h, tbl := verifSolRecoverTable(wire)
	row["hash"] = h
	row["rec"] = tbl
	mon := []string{}
	parsed := false
	accept := false
	func() {
		defer func() {
			if x := recover(); x != nil {
				mon = append(mon, "node panicked on the wire bytes: "+fmt.Sprint(x))
			}
		}()
		v, err := Unmarshal(wire)
		if err != nil {
			return
		}
		parsed = true
		row["version"] = int(v.Version)
		row["gsidx"] = int64(v.GuardianSetIndex)
		row["secs"] = int64(uint32(v.Timestamp.Unix()))
		row["nonce"] = int64(v.Nonce)
		row["echain"] = int(v.EmitterChain)
		row["tchain"] = int(v.TargetChain)
		row["eaddr"] = hex.EncodeToString(v.EmitterAddress[:])
		row["seq"] = fmt.Sprint(v.Sequence)
		row["cl"] = int(v.ConsistencyLevel)
		row["payload"] = hex.EncodeToString(v.Payload)
		row["digest"] = hex.EncodeToString(v.SigningMsg().Bytes())
		row["sigs"] = verifSigs(v)
		n := len(addrs)
		quorum := 2*n/3 + 1 // the node's threshold as C07 proves it of processor.CalculateQuorum (package processor imports this one)
		accept = v.VerifySignatures(addrs) && len(v.Signatures) >= quorum
	}()
	row["parsed"] = parsed
	row["accept"] = accept
	row["mon"] = mon
	o.emit(row)
}

// TestVerifSolSrc : VAAs produced by the real Marshal with real secp256k1 signatures, and malformed variants of their wire form
func TestVerifSolSrc(t *testing.T) {
	r := &vrng{s: verifSeed() ^ 0x501c}
	o := verifOut(t)
	defer o.close()
	rounds := 26
	if verifThorough() {
		rounds = 400
	}
	keys := make([]*ecdsa.PrivateKey, 64)
	for i := range keys {
		keys[i] = verifKey(r)
	}
	sizes := []int{1, 2, 3, 4, 5, 7, 13, 19, 4, 3, 6, 9, 1}
	for round := 0; round < rounds; round++ {
		n := sizes[round%len(sizes)]
		perm := make([]int, len(keys))
		for i := range perm {
			perm[i] = i
		}
		for i := len(perm) - 1; i > 0; i-- {
			j := r.below(i + 1)
			perm[i], perm[j] = perm[j], perm[i]
		}
		idx := perm[:n]
		addrs := make([]common.Address, n)
		for i, k := range idx {
			addrs[i] = crypto.PubkeyToAddress(keys[k].PublicKey)
		}
		foreign := keys[perm[n]]
		plens := []int{1, 1 + r.below(40), 1 + r.below(300), 133}
		base, _, _ := verifRandVAA(r, 0, plens[round%len(plens)], true)
		base.Timestamp = time.Unix(int64(uint32(r.next())), 0)
		q := 2*n/3 + 1
		// members: a random subset of size m, ascending
		subset := func(m int) []int {
			p := make([]int, n)
			for i := range p {
				p[i] = i
			}
			for i := n - 1; i > 0; i-- {
				j := r.below(i + 1)
				p[i], p[j] = p[j], p[i]
			}
			mem := append([]int{}, p[:m]...)
			for i := range mem {
				for j := i + 1; j < len(mem); j++ {
					if mem[j] < mem[i] {
						mem[i], mem[j] = mem[j], mem[i]
					}
				}
			}
			return mem
		}
		mk := func(mem []int) *VAA {
			v := *base
			v.Signatures = nil
			for _, i := range mem {
				v.AddSignature(keys[idx[i]], uint8(i))
			}
			return &v
		}
		wireOf := func(v *VAA) []byte {
			b, err := v.Marshal()
			if err != nil {
				t.Fatal(err)
			}
			return b
		}
		m := q
		if n > q && r.below(2) == 0 {
			m = q + r.below(n-q+1)
		}
		mem := subset(m)
		good := wireOf(mk(mem))
		verifSolRow(o, "quorum", good, addrs)
		verifSolRow(o, "all", wireOf(mk(subset(n))), addrs)
		if q >= 1 {
			verifSolRow(o, "below-quorum", wireOf(mk(subset(q-1))), addrs)
		}
		verifSolRow(o, "no-signatures", wireOf(mk(nil)), addrs)
		verifSolRow(o, "empty-set", wireOf(mk(nil)), nil)
		// malformed streams, cut from `good`
		for _, cut := range []int{0, 1, 5, 6, 6 + 66*m - 1, 6 + 66*m + r.below(51), 6 + 66*m + 50, 6 + 66*m + 51, len(good) - 1} {
			if cut >= 0 && cut < len(good) {
				verifSolRow(o, "truncated", good[:cut], addrs)
			}
		}
		w := append([]byte{}, good...)
		w[5]++
		verifSolRow(o, "count-inflated", w, addrs)
		if m >= 1 {
			w = append([]byte{}, good...)
			w[5]--
			verifSolRow(o, "count-deflated", w, addrs)
		}
		w = append([]byte{}, good...)
		w[0] = byte(2 + r.below(250))
		verifSolRow(o, "version", w, addrs)
		w = append([]byte{}, good...)
		w[len(w)-1] ^= 1 << uint(r.below(8))
		verifSolRow(o, "payload-bitflip", w, addrs)
		w = append([]byte{}, good...)
		w[6+66*m+8+r.below(4)] ^= 1 << uint(r.below(8))
		verifSolRow(o, "chain-id-bitflip", w, addrs)
		if m >= 2 {
			v := mk(mem)
			a, b := r.below(m), r.below(m)
			if a == b {
				b = (a + 1) % m
			}
			v.Signatures[a], v.Signatures[b] = v.Signatures[b], v.Signatures[a]
			verifSolRow(o, "unsorted", wireOf(v), addrs)
		}
		if m >= 1 {
			// the same signer twice (count stays at or above the quorum)
			v := mk(mem)
			d := r.below(m)
			dup := *v.Signatures[d]
			v.Signatures = append(v.Signatures[:d+1], append([]*Signature{&dup}, v.Signatures[d+1:]...)...)
			verifSolRow(o, "duplicated-signer", wireOf(v), addrs)
			// quorum reached only by counting one signer twice
			if q >= 2 {
				sm := subset(q - 1)
				v = mk(sm)
				dup = *v.Signatures[len(sm)-1]
				v.Signatures = append(v.Signatures, &dup)
				verifSolRow(o, "quorum-by-duplicate", wireOf(v), addrs)
			}
			// a foreign key signs at a member's index
			v = mk(mem)
			d = r.below(m)
			one := *base
			one.Signatures = nil
			one.AddSignature(foreign, v.Signatures[d].Index)
			v.Signatures[d] = one.Signatures[0]
			verifSolRow(o, "wrong-key", wireOf(v), addrs)
			// last record re-indexed to len(keys) / 255
			v = mk(mem)
			c := *v.Signatures[m-1]
			c.Index = uint8(n)
			v.Signatures[m-1] = &c
			verifSolRow(o, "index=len(keys)", wireOf(v), addrs)
			v = mk(mem)
			c = *v.Signatures[m-1]
			c.Index = 255
			v.Signatures[m-1] = &c
			verifSolRow(o, "index=255", wireOf(v), addrs)
			// recovery id written as 27 / 28 on the wire, and 229 (229 + 27 leaves uint8)
			d = r.below(m)
			for _, add := range []byte{27, 229 - good[6+66*d+65]} {
				w = append([]byte{}, good...)
				w[6+66*d+65] += add
				verifSolRow(o, fmt.Sprintf("v-byte=%d", w[6+66*d+65]), w, addrs)
			}
			// recovery id flipped: another (valid) public key is recovered
			w = append([]byte{}, good...)
			w[6+66*d+65] ^= 1
			verifSolRow(o, "v-flipped", w, addrs)
			// a signature made over the single hash of the body
			v = mk(mem)
			body := v.SerializeBody()
			sg, err := crypto.Sign(crypto.Keccak256(body), keys[idx[mem[d]]])
			if err == nil {
				copy(v.Signatures[d].Signature[:], sg)
				verifSolRow(o, "signed-single-hash", wireOf(v), addrs)
			}
		}
	}
}
