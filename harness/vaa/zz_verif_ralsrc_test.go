//go:build verif

package vaa

// X11: differential test of the function GENERATED from governance.ral parseAndVerifyVAA (gen/x_ralverify.py) against the node.
// This test produces the node's side: VAAs from the real Marshal with real secp256k1 signatures, malformed byte streams derived
// from them, a contract state (current / previous guardian set as the contract stores them: size byte ++ 20-byte keys), and for
// every stream what the node does with it (Unmarshal, VerifySignatures over the keys of the set the VAA names, the fields it
// reads, the digest it signs) plus the table of go-ethereum recoveries the contract's ethEcRecover! calls can hit.  The generated
// function is evaluated on these rows inside Coq (checks/ralverify_common.py).

import (
	"crypto/ecdsa"
	"encoding/hex"
	"fmt"
	"testing"
	"time"

	"github.com/ethereum/go-ethereum/common"
	"github.com/ethereum/go-ethereum/crypto"
)

type vRalTbl struct {
	H string  `json:"h"`
	S string  `json:"s"`
	A *string `json:"a"`
}

type vRalState struct {
	curIdx, prevIdx uint32
	cur, prev       []int // indices into the key pool
	now, exp        uint64
}

func verifBlob(keys []*ecdsa.PrivateKey, idx []int) ([]byte, []common.Address) {
	b := []byte{byte(len(idx))}
	as := []common.Address{}
	for _, i := range idx {
		a := crypto.PubkeyToAddress(keys[i].PublicKey)
		b = append(b, a[:]...)
		as = append(as, a)
	}
	return b, as
}

func TestVerifRalSrc(t *testing.T) {
	r := &vrng{s: verifSeed() ^ 0x11a1}
	o := verifOut(t)
	defer o.close()
	keys := make([]*ecdsa.PrivateKey, 256)
	for i := range keys {
		keys[i] = verifKey(r)
	}
	quorum := func(n int) int { return 2*n/3 + 1 } // only used to CHOOSE signer counts around the threshold; the comparison uses go_quorum
	emit := func(kind string, st vRalState, gov bool, wire []byte, extra []*VAA, skip string) {
		curB, curA := verifBlob(keys, st.cur)
		prevB, prevA := verifBlob(keys, st.prev)
		row := map[string]interface{}{"k": "ralsrc", "kind": kind, "gov": gov, "wire": hex.EncodeToString(wire),
			"cur_idx": st.curIdx, "cur": hex.EncodeToString(curB), "prev_idx": st.prevIdx, "prev": hex.EncodeToString(prevB),
			"now": fmt.Sprint(st.now), "exp": fmt.Sprint(st.exp), "skip": skip}
		tbl := []vRalTbl{}
		seen := map[string]bool{}
		addTbl := func(v *VAA) {
			h := v.SigningMsg().Bytes()
			for _, s := range v.Signatures {
				key := hex.EncodeToString(h) + hex.EncodeToString(s.Signature[:])
				if seen[key] {
					continue
				}
				seen[key] = true
				e := vRalTbl{H: hex.EncodeToString(h), S: hex.EncodeToString(s.Signature[:])}
				if a := verifRecover(h, s.Signature[:]); a != nil {
					x := hex.EncodeToString(a)
					e.A = &x
				}
				tbl = append(tbl, e)
			}
		}
		var v *VAA
		var err error
		pan := ""
		func() {
			defer func() {
				if x := recover(); x != nil {
					pan = fmt.Sprint(x)
				}
			}()
			v, err = Unmarshal(wire)
		}()
		mon := []string{}
		if pan != "" {
			mon = append(mon, "Unmarshal panicked: "+pan)
		}
		row["um"] = err == nil && v != nil
		row["named"], row["n"], row["nsig"], row["verify"] = 0, 0, 0, false
		row["ec"], row["tc"], row["ea"], row["sq"], row["pl"], row["digest"] = 0, 0, "", "0", "", ""
		if err == nil && v != nil {
			addTbl(v)
			var as []common.Address
			named := 0
			if v.GuardianSetIndex == st.curIdx {
				named, as = 1, curA
			} else if v.GuardianSetIndex == st.prevIdx {
				named, as = 2, prevA
			}
			ver := false
			if named != 0 {
				func() {
					defer func() {
						if x := recover(); x != nil {
							mon = append(mon, "VerifySignatures panicked: "+fmt.Sprint(x))
						}
					}()
					ver = v.VerifySignatures(as)
				}()
			}
			row["named"], row["n"], row["nsig"], row["verify"] = named, len(as), len(v.Signatures), ver
			row["ec"], row["tc"], row["ea"] = uint16(v.EmitterChain), uint16(v.TargetChain), hex.EncodeToString(v.EmitterAddress[:])
			row["sq"], row["pl"], row["digest"] = fmt.Sprint(v.Sequence), hex.EncodeToString(v.Payload), hex.EncodeToString(v.SigningMsg().Bytes())
		}
		for _, x := range extra {
			addTbl(x)
		}
		row["tbl"] = tbl
		row["mon"] = mon
		o.emit(row)
	}
	sizes := []int{1, 2, 3, 4, 5, 7, 13, 19}
	rounds := 10
	if verifThorough() {
		rounds = 90
		sizes = append(sizes, 6, 9, 10, 31, 64)
	}
	for round := 0; round < rounds; round++ {
		n := sizes[round%len(sizes)]
		if verifThorough() && round%29 == 17 {
			n = 255
		}
		perm := make([]int, 256)
		for i := range perm {
			perm[i] = i
		}
		for i := 255; i > 0; i-- {
			j := r.below(i + 1)
			perm[i], perm[j] = perm[j], perm[i]
		}
		np := 1 + r.below(5)
		if n+np > 256 {
			np = 256 - n
		}
		st := vRalState{curIdx: r.u32(), cur: perm[:n], prev: perm[n : n+np], now: 1000 + uint64(r.below(1000000)), exp: 0}
		st.prevIdx = st.curIdx - 1
		if round%4 == 1 {
			st.curIdx, st.prevIdx = 0xffffffff, 0xfffffffe
		}
		if round%4 == 2 {
			st.curIdx, st.prevIdx = 1, 0
		}
		st.exp = st.now + uint64(r.below(1000)) // previous set not expired unless a case says so
		base, _, _ := verifRandVAA(r, 0, 1+r.below(120), true)
		base.Timestamp = time.Unix(int64(uint32(r.next())), 0)
		base.GuardianSetIndex = st.curIdx
		sign := func(setIdx []int, members []int, gsi uint32) *VAA {
			v := *base
			v.GuardianSetIndex = gsi
			v.Signatures = nil
			for _, i := range members {
				v.AddSignature(keys[setIdx[i]], uint8(i))
			}
			return &v
		}
		subset := func(n, k int) []int {
			// k ascending positions out of n
			p := make([]int, n)
			for i := range p {
				p[i] = i
			}
			for i := n - 1; i > 0; i-- {
				j := r.below(i + 1)
				p[i], p[j] = p[j], p[i]
			}
			p = p[:k]
			for i := 0; i < len(p); i++ {
				for j := i + 1; j < len(p); j++ {
					if p[j] < p[i] {
						p[i], p[j] = p[j], p[i]
					}
				}
			}
			return p
		}
		mar := func(v *VAA) []byte {
			b, err := v.Marshal()
			if err != nil {
				t.Fatal(err)
			}
			return b
		}
		q := quorum(n)
		k := q + r.below(n-q+1)
		members := subset(n, k)
		gov := round%2 == 0
		v := sign(st.cur, members, st.curIdx)
		w := mar(v)
		emit("valid", st, gov, w, nil, "")
		emit("valid-other-flag", st, !gov, w, nil, "")
		emit("valid-all-sign", st, gov, mar(sign(st.cur, subset(n, n), st.curIdx)), nil, "")
		emit("valid-exact-quorum", st, gov, mar(sign(st.cur, subset(n, q), st.curIdx)), nil, "")
		if q >= 2 {
			emit("below-quorum", st, gov, mar(sign(st.cur, subset(n, q-1), st.curIdx)), nil, "")
		}
		emit("no-signatures", st, false, mar(sign(st.cur, nil, st.curIdx)), nil, "")
		// the previous set: not expired / exactly at expiry / expired; governance VAAs are never accepted from it
		qp := quorum(np)
		pv := sign(st.prev, subset(np, qp+r.below(np-qp+1)), st.prevIdx)
		pw := mar(pv)
		emit("previous-set", st, false, pw, nil, "")
		emit("previous-set-governance", st, true, pw, nil, "")
		st2 := st
		st2.exp = st2.now
		emit("previous-set-at-expiry", st2, false, pw, nil, "")
		st2.exp = st2.now - 1
		emit("previous-set-expired", st2, false, pw, nil, "")
		if qp >= 2 {
			emit("previous-set-below-quorum", st, false, mar(sign(st.prev, subset(np, qp-1), st.prevIdx)), nil, "")
		}
		// signed by the current set but naming the previous one / an unknown one
		if st.prevIdx != st.curIdx {
			emit("current-signers-named-previous", st, false, mar(sign(st.cur, members, st.prevIdx)), nil, "")
		}
		emit("unknown-set-index", st, false, mar(sign(st.cur, members, st.curIdx+7)), nil, "")
		// version
		w2 := append([]byte{}, w...)
		w2[0] = 2
		emit("version-2", st, gov, w2, []*VAA{v}, "")
		w2 = append([]byte{}, w...)
		w2[0] = 0
		emit("version-0", st, gov, w2, []*VAA{v}, "")
		// order / duplicates / wrong slots
		if k >= 2 {
			x := sign(st.cur, members, st.curIdx)
			a := r.below(k - 1)
			x.Signatures[a], x.Signatures[a+1] = x.Signatures[a+1], x.Signatures[a]
			emit("swapped-neighbours", st, gov, mar(x), nil, "")
			x = sign(st.cur, members, st.curIdx)
			x.Signatures[0], x.Signatures[k-1] = x.Signatures[k-1], x.Signatures[0]
			emit("swapped-ends", st, gov, mar(x), nil, "")
		}
		{
			// one guardian's signature repeated so that the COUNT reaches the quorum
			m2 := subset(n, q)
			x := sign(st.cur, m2, st.curIdx)
			var dup Signature
			if q >= 2 {
				d := r.below(q - 1)
				dup = *x.Signatures[d]
				x.Signatures[d+1] = &dup // still q records: one guardian twice, one missing
				emit("duplicated-guardian-in-quorum", st, gov, mar(x), nil, "")
			}
			x = sign(st.cur, members, st.curIdx)
			dup = *x.Signatures[0]
			x.Signatures = append([]*Signature{&dup}, x.Signatures...)
			emit("duplicated-first", st, gov, mar(x), nil, "")
			x = sign(st.cur, members, st.curIdx)
			dup = *x.Signatures[k-1]
			x.Signatures = append(x.Signatures, &dup)
			emit("duplicated-last", st, gov, mar(x), nil, "")
		}
		{
			x := sign(st.cur, members, st.curIdx)
			d := r.below(k)
			fk := verifKey(r)
			sg, _ := crypto.Sign(x.SigningMsg().Bytes(), fk)
			c := Signature{Index: x.Signatures[d].Index}
			copy(c.Signature[:], sg)
			x.Signatures[d] = &c
			emit("foreign-key", st, gov, mar(x), nil, "")
			if n >= 2 {
				x = sign(st.cur, members, st.curIdx)
				d = r.below(k)
				other := (members[d] + 1) % n
				sg, _ := crypto.Sign(x.SigningMsg().Bytes(), keys[st.cur[other]])
				c = Signature{Index: x.Signatures[d].Index}
				copy(c.Signature[:], sg)
				x.Signatures[d] = &c
				emit("member-at-wrong-index", st, gov, mar(x), nil, "")
			}
			// the last record re-labelled: index = set size, index = 255
			x = sign(st.cur, members, st.curIdx)
			c = *x.Signatures[k-1]
			c.Index = uint8(n)
			x.Signatures[k-1] = &c
			if n < 255 {
				emit("index=size", st, gov, mar(x), nil, "")
			}
			x = sign(st.cur, members, st.curIdx)
			c = *x.Signatures[k-1]
			c.Index = 255
			x.Signatures[k-1] = &c
			if n < 255 {
				emit("index=255", st, gov, mar(x), nil, "")
			}
			// every record's index shifted by one (a reader that forgets / misplaces the size byte of the stored set would accept one of these)
			if members[k-1] < n-1 || true {
				x = sign(st.cur, members, st.curIdx)
				for i := range x.Signatures {
					c := *x.Signatures[i]
					c.Index++
					x.Signatures[i] = &c
				}
				emit("indices+1", st, gov, mar(x), nil, "")
			}
		}
		// recovery id as Ethereum tooling writes it (27 / 28) on the wire, and other values
		for _, add := range []int{27, 2, 4, 229} {
			x := sign(st.cur, members, st.curIdx)
			d := r.below(k)
			c := *x.Signatures[d]
			c.Signature[64] = byte(int(c.Signature[64]) + add)
			x.Signatures[d] = &c
			emit(fmt.Sprintf("recid+%d", add), st, gov, mar(x), []*VAA{v}, "")
		}
		{
			x := sign(st.cur, members, st.curIdx)
			d := r.below(k)
			c := *x.Signatures[d]
			c.Signature[r.below(64)] ^= 1 << uint(r.below(8))
			x.Signatures[d] = &c
			emit("sig-bitflip", st, gov, mar(x), nil, "")
		}
		// body changed after signing
		{
			x := sign(st.cur, members, st.curIdx)
			x.Payload = append([]byte{}, x.Payload...)
			x.Payload[r.below(len(x.Payload))] ^= 1 << uint(r.below(8))
			emit("payload-bitflip", st, gov, mar(x), []*VAA{v}, "")
			x = sign(st.cur, members, st.curIdx)
			x.Sequence++
			emit("sequence+1", st, gov, mar(x), []*VAA{v}, "")
			x = sign(st.cur, members, st.curIdx)
			x.ConsistencyLevel++
			emit("consistency-level+1", st, gov, mar(x), []*VAA{v}, "")
			x = sign(st.cur, members, st.curIdx)
			x.Timestamp = x.Timestamp.Add(time.Second)
			emit("timestamp+1", st, gov, mar(x), []*VAA{v}, "")
		}
		// malformed streams
		{
			emit("truncated-1", st, gov, w[:len(w)-1], []*VAA{v}, "")
			emit("truncated-into-fixed-body", st, gov, w[:6+66*k+20+r.below(30)], []*VAA{v}, "")
			emit("truncated-into-signatures", st, gov, w[:6+66*k-1-r.below(60)], []*VAA{v}, "")
			emit("truncated-header", st, gov, w[:r.below(6)], []*VAA{v}, "")
			emit("empty", st, gov, []byte{}, nil, "")
			x := append([]byte{}, w...)
			x[5]++
			emit("count-inflated", st, gov, x, []*VAA{v}, "")
			x = append([]byte{}, w...)
			x[5]--
			emit("count-deflated", st, gov, x, []*VAA{v}, "")
			x = append([]byte{}, w...)
			x[5] = 255
			emit("count-255", st, gov, x, []*VAA{v}, "")
			x = append(append([]byte{}, w[:6]...), append(make([]byte, 66), w[6:]...)...)
			emit("zero-record-inserted", st, gov, x, []*VAA{v}, "")
			x = append(append([]byte{}, w[:6+66*k]...), append([]byte{0}, w[6+66*k:]...)...)
			emit("byte-inserted-before-body", st, gov, x, []*VAA{v}, "")
			x = append([]byte{}, w...)
			x = append(x, 0)
			emit("byte-appended", st, gov, x, []*VAA{v}, "")
		}
		// a VAA with an EMPTY payload: the contract's slices allow it, the node's Unmarshal does not; recorded, not compared
		{
			x := sign(st.cur, members, st.curIdx)
			x.Payload = nil
			x.Signatures = nil
			for _, i := range members {
				x.AddSignature(keys[st.cur[i]], uint8(i))
			}
			emit("empty-payload-signed", st, gov, mar(x), []*VAA{x}, "empty-payload")
		}
	}
}
