//go:build verif

package vaa

import (
	"bytes"
	"encoding/hex"

	"github.com/ethereum/go-ethereum/crypto"
)

// the byte pattern of the known-answer vectors in coq/proofs/KeccakProofs.v (kat_pat)
func verifKatPat(n int) []byte {
	b := make([]byte, n)
	for i := range b {
		b[i] = byte(i % 251)
	}
	return b
}

// rows "kk": input / crypto.Keccak256(input) pairs, re-evaluated by the Gallina keccak256 inside Coq.
// crypto.Keccak256 is the function SigningMsg calls (through Keccak256Hash); x/crypto/sha3 called directly must agree with it.
func verifKeccakRows(o *vout, r *vrng) {
	emit := func(kind string, in []byte) {
		out := crypto.Keccak256(in)
		mon := []string{}
		if !bytes.Equal(out, vkeccak(in)) {
			mon = append(mon, "crypto.Keccak256 differs from sha3.NewLegacyKeccak256")
		}
		if h := crypto.Keccak256Hash(in); !bytes.Equal(h.Bytes(), out) {
			mon = append(mon, "crypto.Keccak256Hash differs from crypto.Keccak256")
		}
		if len(out) != 32 {
			mon = append(mon, "Keccak256 output is not 32 bytes")
		}
		o.emit(map[string]interface{}{"k": "kk", "kind": kind, "n": len(in), "in": hex.EncodeToString(in), "out": hex.EncodeToString(out), "mon": mon})
	}
	// known-answer vectors (same inputs as the Examples of KeccakProofs.v)
	emit("kat:empty", []byte{})
	emit("kat:abc", []byte("abc"))
	for _, n := range []int{135, 136, 137, 1024} {
		emit("kat:pat", verifKatPat(n))
	}
	// boundary lengths around the lane (8), the rate (136) and its multiples
	lens := []int{0, 1, 2, 7, 8, 9, 31, 32, 33, 55, 56, 64, 65, 127, 128, 134, 135, 136, 137, 138, 271, 272, 273, 407, 408, 409,
		1000, 1023, 1024, 1025, 1087, 1088, 1089, 4095, 4096}
	if verifThorough() {
		for n := 0; n <= 300; n++ {
			lens = append(lens, n)
		}
		lens = append(lens, 8159, 8160, 8161, 8192)
	}
	for _, n := range lens {
		emit("boundary", r.bytes(n))
	}
	// contents that look like padding: all zero, all ones, trailing 0x01 / 0x80 / 0x81, a message and its own padded form
	for _, n := range []int{1, 135, 136, 137, 272} {
		emit("zeros", make([]byte, n))
		emit("ones", bytes.Repeat([]byte{0xff}, n))
	}
	for _, n := range []int{0, 7, 134, 135, 136, 200} {
		m := r.bytes(n)
		emit("tail01", append(append([]byte{}, m...), 0x01))
		emit("tail80", append(append([]byte{}, m...), 0x80))
		emit("tail81", append(append([]byte{}, m...), 0x81))
		q := 136 - n%136
		p := append([]byte{}, m...)
		if q == 1 {
			p = append(p, 0x81)
		} else {
			p = append(p, 0x01)
			p = append(p, make([]byte, q-2)...)
			p = append(p, 0x80)
		}
		emit("own-padding", p)
	}
	// the second hash of the digest: 32-byte inputs
	for i := 0; i < 8; i++ {
		emit("hash32", r.bytes(32))
	}
	nrand := 40
	if verifThorough() {
		nrand = 600
	}
	for i := 0; i < nrand; i++ {
		emit("random", r.bytes(r.below(4097)))
	}
}
