//go:build verif

package vaa

import (
	"sync/atomic"
	"bytes"
	"encoding/binary"
	"encoding/hex"
	"fmt"
	"strings"
	"testing"
	"time"

	"golang.org/x/crypto/sha3"
)

func vkeccak(b []byte) []byte {
	h := sha3.NewLegacyKeccak256()
	h.Write(b)
	return h.Sum(nil)
}

var vBoundary32 = []uint32{0, 1, 255, 256, 65535, 65536, 0x7fffffff, 0x80000000, 0xffffffff}
var vBoundary16 = []uint16{0, 1, 2, 4, 10, 17, 42, 255, 256, 10001, 65535}
var vBoundary64 = []uint64{0, 1, 255, 256, 65535, 65536, 1<<32 - 1, 1 << 32, 1<<63 - 1, 1 << 63, 1<<64 - 1}

func (r *vrng) u32() uint32 {
	if r.below(3) == 0 {
		return vBoundary32[r.below(len(vBoundary32))]
	}
	return uint32(r.next())
}
func (r *vrng) u16() uint16 {
	if r.below(2) == 0 {
		return vBoundary16[r.below(len(vBoundary16))]
	}
	return uint16(r.next())
}
func (r *vrng) u64() uint64 {
	if r.below(3) == 0 {
		return vBoundary64[r.below(len(vBoundary64))]
	}
	return r.next()
}

func verifPayloadLens() []int {
	l := []int{1, 2, 3, 31, 52, 100, 133, 999, 1000, 1001, 1024, 2000, 4096}
	if verifThorough() {
		l = append(l, 8000)
	}
	return l
}

// random VAA; secs/nsec returned separately because the model carries them as two integers
func verifRandVAA(r *vrng, nsig int, plen int, whole bool) (*VAA, int64, int64) {
	var secs int64
	switch r.below(6) {
	case 0:
		secs = int64(vBoundary32[r.below(len(vBoundary32))])
	case 1:
		secs = -int64(r.below(100000)) // before 1970: uint32() wraps
	case 2:
		secs = int64(1)<<32 + int64(r.below(1000)) // beyond 2106: uint32() wraps
	default:
		secs = int64(uint32(r.next()))
	}
	nsec := int64(0)
	if !whole {
		nsec = int64(r.below(1000000000))
	}
	v := &VAA{
		Version:          SupportedVAAVersion,
		GuardianSetIndex: r.u32(),
		Timestamp:        time.Unix(secs, nsec),
		Nonce:            r.u32(),
		Sequence:         r.u64(),
		ConsistencyLevel: uint8(r.next()),
		EmitterChain:     ChainID(r.u16()),
		TargetChain:      ChainID(r.u16()),
		Payload:          r.bytes(plen),
	}
	copy(v.EmitterAddress[:], r.bytes(32))
	if r.below(8) == 0 {
		v.EmitterAddress = Address{}
	}
	for i := 0; i < nsig; i++ {
		s := &Signature{Index: uint8(r.next())}
		copy(s.Signature[:], r.bytes(65))
		v.Signatures = append(v.Signatures, s)
	}
	return v, secs, nsec
}

type vSig struct {
	I int    `json:"i"`
	D string `json:"d"`
}

func verifSigs(v *VAA) []vSig {
	out := []vSig{}
	for _, s := range v.Signatures {
		out = append(out, vSig{int(s.Index), hex.EncodeToString(s.Signature[:])})
	}
	return out
}

func verifC04Row(kind string, v *VAA, secs, nsec int64, body, m, dg []byte, mon []string) map[string]interface{} {
	return map[string]interface{}{
		"k": "c04", "kind": kind, "version": int(v.Version), "gsidx": v.GuardianSetIndex, "sigs": verifSigs(v), "secs": secs, "nsec": nsec,
		"nonce": v.Nonce, "echain": uint16(v.EmitterChain), "tchain": uint16(v.TargetChain), "eaddr": hex.EncodeToString(v.EmitterAddress[:]),
		"seq": fmt.Sprint(v.Sequence), "cl": v.ConsistencyLevel, "payload": hex.EncodeToString(v.Payload),
		"body": hex.EncodeToString(body), "marshal": hex.EncodeToString(m), "digest": hex.EncodeToString(dg), "mon": mon,
	}
}

// TestVerifC04 : serializer outputs for generated VAAs + direct monitors of the C04 statement
func TestVerifC04(t *testing.T) {
	r := &vrng{s: verifSeed()}
	o := verifOut(t)
	defer o.close()
	n := 300
	if verifThorough() {
		n = 4000
	}
	lens := verifPayloadLens()
	nsigs := []int{0, 0, 1, 2, 3, 13, 19}
	for i := 0; i < n; i++ {
		plen := lens[r.below(len(lens))]
		if r.below(4) == 0 {
			plen = r.below(300)
		}
		ns := nsigs[r.below(len(nsigs))]
		if i%97 == 5 {
			ns = 255
		}
		v, secs, nsec := verifRandVAA(r, ns, plen, r.below(2) == 0)
		body := v.SerializeBody()
		m, err := v.Marshal()
		if err != nil {
			t.Fatal(err)
		}
		dg := v.SigningMsg()
		mon := []string{}
		// monitor 1: digest = keccak(keccak(body)) computed with x/crypto/sha3 directly
		if !bytes.Equal(dg.Bytes(), vkeccak(vkeccak(body))) {
			mon = append(mon, "digest is not keccak256(keccak256(body))")
		}
		if v.HexDigest() != hex.EncodeToString(dg.Bytes()) {
			mon = append(mon, "HexDigest differs from SigningMsg")
		}
		// monitor 2: offsets, re-read from the bytes
		if len(body) != 53+len(v.Payload) {
			mon = append(mon, fmt.Sprintf("body length %d != 53+%d", len(body), len(v.Payload)))
		} else {
			if binary.BigEndian.Uint32(body[0:4]) != uint32(secs) {
				mon = append(mon, "timestamp field is not whole seconds mod 2^32 at [0,4)")
			}
			if binary.BigEndian.Uint32(body[4:8]) != v.Nonce || binary.BigEndian.Uint16(body[8:10]) != uint16(v.EmitterChain) ||
				binary.BigEndian.Uint16(body[10:12]) != uint16(v.TargetChain) || !bytes.Equal(body[12:44], v.EmitterAddress[:]) ||
				binary.BigEndian.Uint64(body[44:52]) != v.Sequence || body[52] != v.ConsistencyLevel || !bytes.Equal(body[53:], v.Payload) {
				mon = append(mon, "a body field is not at its documented offset")
			}
		}
		// the body sits at 6 + 66*k in the wire form
		off := 6 + 66*len(v.Signatures)
		if len(m) != off+len(body) || !bytes.Equal(m[off:], body) {
			mon = append(mon, "wire form does not end with the body at offset 6+66k")
		}
		// monitor 3: independence of version, set index, signatures, sub-second time
		w := *v
		w.Version = uint8(r.next())
		w.GuardianSetIndex = r.u32()
		w.Signatures = nil
		w.Timestamp = time.Unix(secs, int64(r.below(1000000000)))
		if !bytes.Equal(w.SerializeBody(), body) || w.SigningMsg() != dg {
			mon = append(mon, "body/digest depends on version, set index, signatures or sub-second time")
		}
		// monitor 4: changing one body field changes the body
		x := *v
		switch r.below(8) {
		case 0:
			x.Timestamp = time.Unix(secs+1, nsec)
		case 1:
			x.Nonce++
		case 2:
			x.EmitterChain++
		case 3:
			x.TargetChain++
		case 4:
			x.EmitterAddress[r.below(32)] ^= 1 << uint(r.below(8))
		case 5:
			x.Sequence++
		case 6:
			x.ConsistencyLevel++
		case 7:
			x.Payload = append(append([]byte{}, v.Payload...), 0)
		}
		if bytes.Equal(x.SerializeBody(), body) {
			mon = append(mon, "two messages differing in one body field share a signing body")
		}
		if v.MessageID() != fmt.Sprintf("%d/%s/%d/%d", uint16(v.EmitterChain), hex.EncodeToString(v.EmitterAddress[:]), uint16(v.TargetChain), v.Sequence) {
			mon = append(mon, "MessageID format")
		}
		o.emit(verifC04Row("gen", v, secs, nsec, body, m, dg.Bytes(), mon))
	}
	// "the contracts recompute that same digest from the serialized VAA": so does every node that receives the wire form — the digest of
	// the DECODED wire bytes is the digest that was signed, also for serialized VAAs beyond a few kilobytes (payloads of 3 900 .. 70 000
	// bytes, 1 and 19 signatures); monitors only (these rows are not evaluated by the Gallina Keccak)
	{
		mon := []string{}
		for _, plen := range []int{3900, 3972, 3973, 4096, 4097, 5000, 8192, 8193, 70000} {
			for _, ns := range []int{1, 19} {
				v, _, _ := verifRandVAA(r, ns, plen, true)
				m, err := v.Marshal()
				if err != nil {
					continue
				}
				d, derr := Unmarshal(m)
				if derr != nil {
					mon = append(mon, fmt.Sprintf("the wire form of a VAA with a payload of %d bytes and %d signatures is refused by the decoder: %v", plen, ns, derr))
				} else if d.SigningMsg() != v.SigningMsg() {
					mon = append(mon, fmt.Sprintf("the digest of the decoded wire form (payload %d bytes, %d signatures, %d wire bytes) is not the digest that was signed: decoded payload %d bytes", plen, ns, len(m), len(d.Payload)))
				}
				if len(mon) >= 3 {
					break
				}
			}
		}
		o.emit(map[string]interface{}{"k": "c04long", "mon": mon})
	}
	// the fixed VAA of coq/props/C04.v (ex_vaa): its digest is an Example there, computed by the Gallina Keccak-256
	{
		v := &VAA{Version: 1, GuardianSetIndex: 3, Timestamp: time.Unix(1700000000, 0), Nonce: 7, Sequence: 42, ConsistencyLevel: 1,
			EmitterChain: ChainID(255), TargetChain: ChainID(2), Payload: []byte{1, 2, 3}}
		copy(v.EmitterAddress[:], bytes.Repeat([]byte{0xab}, 32))
		s0, s2 := &Signature{Index: 0}, &Signature{Index: 2}
		copy(s0.Signature[:], bytes.Repeat([]byte{0x11}, 65))
		copy(s2.Signature[:], bytes.Repeat([]byte{0x22}, 65))
		v.Signatures = []*Signature{s0, s2}
		m, err := v.Marshal()
		if err != nil {
			t.Fatal(err)
		}
		dg := v.SigningMsg()
		o.emit(verifC04Row("ex_vaa", v, 1700000000, 0, v.SerializeBody(), m, dg.Bytes(), []string{}))
	}
	// Keccak-256 alone: rows "kk" (zz_verif_keccak_test.go), evaluated by the Gallina function lib/Keccak.v inside Coq
	verifKeccakRows(o, r)
	// the digest is a function of the VAA alone also when several goroutines compute digests at once (processor loop, admin RPC,
	// notification goroutine all call SigningMsg / HexDigest): concurrent callers on distinct VAAs, each result compared with the
	// reference computed beforehand with x/crypto/sha3 directly; a call that does not return is reported, not waited for
	o.emit(verifC04Concurrent(r))
}

func verifC04Concurrent(r *vrng) map[string]interface{} {
	const workers = 8
	per := 1500
	if verifThorough() {
		per = 12000
	}
	type job struct {
		v   *VAA
		ref []byte
	}
	jobs := make([][]job, workers)
	for w := 0; w < workers; w++ {
		for i := 0; i < 24; i++ {
			v, _, _ := verifRandVAA(r, r.below(3), 1+r.below(200), false)
			jobs[w] = append(jobs[w], job{v, vkeccak(vkeccak(v.SerializeBody()))})
		}
	}
	var wrong, panics, finished int64
	var first atomic.Value
	done := make(chan struct{}, workers)
	for w := 0; w < workers; w++ {
		go func(w int) {
			defer func() { done <- struct{}{} }()
			for i := 0; i < per; i++ {
				j := jobs[w][i%len(jobs[w])]
				func() {
					defer func() {
						if x := recover(); x != nil {
							atomic.AddInt64(&panics, 1)
							first.CompareAndSwap(nil, fmt.Sprintf("SigningMsg panicked under concurrent callers: %v", x))
						}
					}()
					var got []byte
					if i%3 == 2 {
						got, _ = hex.DecodeString(j.v.HexDigest())
					} else {
						d := j.v.SigningMsg()
						got = d.Bytes()
					}
					if !bytes.Equal(got, j.ref) {
						atomic.AddInt64(&wrong, 1)
						first.CompareAndSwap(nil, fmt.Sprintf("SigningMsg under concurrent callers returned %x for a VAA whose digest is %x (body %x)", got, j.ref, j.v.SerializeBody()))
					}
				}()
			}
			atomic.AddInt64(&finished, 1)
		}(w)
	}
	deadline := time.After(60 * time.Second)
	stuck := false
	for k := 0; k < workers && !stuck; k++ {
		select {
		case <-done:
		case <-deadline:
			stuck = true
		}
	}
	mon := []string{}
	if x := first.Load(); x != nil {
		mon = append(mon, fmt.Sprintf("%v [%d wrong digests, %d panics in %d concurrent calls]", x, atomic.LoadInt64(&wrong), atomic.LoadInt64(&panics), workers*per))
	}
	if stuck {
		mon = append(mon, fmt.Sprintf("SigningMsg calls of concurrent callers did not return within 60 s (%d of %d workers finished)", atomic.LoadInt64(&finished), workers))
	}
	return map[string]interface{}{"k": "conc", "workers": workers, "calls": workers * per, "mon": mon}
}

func verifErrKind(err error) int {
	if err == nil {
		return 0
	}
	s := err.Error()
	kinds := []string{"VAA is too short", "unsupported VAA version", "failed to read guardian set index", "failed to read signature length",
		"failed to read validator index", "failed to read signature [", "failed to read timestamp", "failed to read nonce",
		"failed to read emitter chain", "failed to read to chain", "failed to read emitter address", "failed to read sequence",
		"failed to read commitment", "failed to read payload"}
	for i, k := range kinds {
		if strings.HasPrefix(s, k) {
			return i + 1
		}
	}
	return 99
}

// one decoder case: run Unmarshal under recover(), re-encode, compare
func verifDecodeCase(o *vout, kind string, data []byte) {
	orig := append([]byte{}, data...)
	var v *VAA
	var err error
	pan := ""
	func() {
		defer func() {
			if x := recover(); x != nil {
				pan = fmt.Sprint(x)
			}
		}()
		v, err = Unmarshal(data)
	}()
	mon := []string{}
	row := map[string]interface{}{"k": "dec", "kind": kind, "in": hex.EncodeToString(orig)}
	if pan != "" {
		mon = append(mon, "Unmarshal panicked: "+pan)
		row["code"] = 98
	} else if err != nil {
		if v != nil {
			mon = append(mon, "error returned together with a partially filled VAA")
		}
		row["code"] = verifErrKind(err)
	} else {
		row["code"] = 0
		if len(orig) > 0 && orig[0] != 1 {
			mon = append(mon, fmt.Sprintf("the decoder accepted an encoding whose version byte is %d (the wire format's version is 1)", orig[0]))
		}
		re, _ := v.Marshal()
		row["re"] = hex.EncodeToString(re)
		row["plen"] = len(v.Payload)
		if !bytes.Equal(re, orig) {
			mon = append(mon, fmt.Sprintf("accepted input does not re-encode to itself (in %d bytes, out %d bytes)", len(orig), len(re)))
		}
		if len(v.Payload) == 0 {
			mon = append(mon, "accepted VAA with empty payload")
		}
	}
	if !bytes.Equal(orig, data) {
		mon = append(mon, "Unmarshal modified its input")
	}
	row["mon"] = mon
	o.emit(row)
}

// TestVerifC05 : round trips of generated VAAs, structured mutations of valid encodings, arbitrary strings
func TestVerifC05(t *testing.T) {
	r := &vrng{s: verifSeed() ^ 0xc05}
	o := verifOut(t)
	defer o.close()
	nrt, nrand := 150, 300
	if verifThorough() {
		nrt, nrand = 1500, 6000
	}
	lens := verifPayloadLens()
	nsigs := []int{0, 0, 1, 2, 13, 19}
	for i := 0; i < nrt; i++ {
		plen := lens[i%len(lens)]
		ns := nsigs[r.below(len(nsigs))]
		if i%61 == 7 {
			ns = 255
		}
		v, secs, _ := verifRandVAA(r, ns, plen, true)
		if secs < 0 || secs >= 1<<32 { // property range: 32-bit whole-second timestamp
			v.Timestamp = time.Unix(int64(uint32(secs)), 0)
		}
		enc, merr := v.Marshal()
		if merr != nil || len(enc) == 0 {
			// the property's range: non-empty payload, at most 255 signatures, 32-bit whole-second timestamp — every such VAA has an encoding
			o.emit(map[string]interface{}{"k": "rt", "plen": plen, "nsig": ns, "in": "", "mon": []string{fmt.Sprintf("Marshal failed for a representable VAA (%d signatures, payload of %d bytes): %v", ns, plen, merr)}})
			continue
		}
		// (a) decode(encode v) = v, same digest
		mon := []string{}
		d, err := Unmarshal(enc)
		if err != nil {
			mon = append(mon, "valid encoding rejected: "+err.Error())
		} else {
			same := d.Version == v.Version && d.GuardianSetIndex == v.GuardianSetIndex && d.Timestamp.Equal(v.Timestamp) && d.Nonce == v.Nonce &&
				d.Sequence == v.Sequence && d.ConsistencyLevel == v.ConsistencyLevel && d.EmitterChain == v.EmitterChain && d.TargetChain == v.TargetChain &&
				d.EmitterAddress == v.EmitterAddress && bytes.Equal(d.Payload, v.Payload) && len(d.Signatures) == len(v.Signatures)
			if same {
				for j := range d.Signatures {
					if *d.Signatures[j] != *v.Signatures[j] {
						same = false
					}
				}
			}
			if !same {
				mon = append(mon, fmt.Sprintf("decode(encode(v)) != v (payload %d bytes, decoded %d bytes, %d signatures)", len(v.Payload), len(d.Payload), len(v.Signatures)))
			}
			if d.SigningMsg() != v.SigningMsg() {
				mon = append(mon, "digest changed by the round trip")
			}
		}
		// the encoding is a function of the VAA's CURRENT fields: a VAA that was encoded or decoded before and is then changed (a field
		// assigned, a signature appended — both happen in the node) encodes to the changed value, and that encoding decodes back to it
		if err == nil && i%3 == 0 && len(v.Signatures) < 255 {
			for _, w := range []*VAA{v, d} {
				cp := *w // by-value copy, as callers make
				cp.Nonce ^= 0x5a5a
				cp.Sequence++
				sg := &Signature{Index: 200}
				copy(sg.Signature[:], r.bytes(65))
				cp.Signatures = append(append([]*Signature{}, w.Signatures...), sg)
				enc2, merr2 := cp.Marshal()
				if merr2 != nil {
					mon = append(mon, "Marshal of a changed VAA failed: "+merr2.Error())
					continue
				}
				d2, err2 := Unmarshal(enc2)
				if err2 != nil {
					mon = append(mon, "the encoding of a changed VAA is rejected: "+err2.Error())
				} else if d2.Nonce != cp.Nonce || d2.Sequence != cp.Sequence || len(d2.Signatures) != len(cp.Signatures) || d2.SigningMsg() != cp.SigningMsg() {
					mon = append(mon, fmt.Sprintf("decode(encode(v')) != v' for a VAA v' changed after an earlier encode / decode (nonce %d vs %d, sequence %d vs %d, %d vs %d signatures): the encoder returned stale bytes",
						d2.Nonce, cp.Nonce, d2.Sequence, cp.Sequence, len(d2.Signatures), len(cp.Signatures)))
				}
			}
		}
		// the decoded VAA owns its bytes: receive buffers are reused by their owners (gossip, the store's value callbacks) after the
		// decoder has returned; a VAA that is kept must not change then, and growing its payload must not write behind the input
		if err == nil && i%2 == 0 {
			buf := make([]byte, len(enc)+48)
			copy(buf, enc)
			for j := len(enc); j < len(buf); j++ {
				buf[j] = 0xEE
			}
			if k, kerr := Unmarshal(buf[:len(enc)]); kerr == nil {
				pay := append([]byte{}, k.Payload...)
				dig := k.SigningMsg()
				sig0 := []byte{}
				if len(k.Signatures) > 0 {
					sig0 = append(sig0, k.Signatures[0].Signature[:]...)
				}
				k.Payload = append(k.Payload, 0x11, 0x22, 0x33)
				k.Payload = k.Payload[:len(pay)]
				behind := false
				for j := len(enc); j < len(buf); j++ {
					if buf[j] != 0xEE {
						behind = true
					}
				}
				for j := 0; j < len(enc); j++ {
					buf[j] ^= 0xA5
				}
				if !bytes.Equal(k.Payload, pay) || k.SigningMsg() != dig || (len(k.Signatures) > 0 && !bytes.Equal(k.Signatures[0].Signature[:], sig0)) {
					mon = append(mon, fmt.Sprintf("a decoded VAA changed when the caller overwrote the buffer it had been decoded from (payload %d bytes): the decoder keeps pointing into its input", len(pay)))
				}
				if behind {
					mon = append(mon, "appending to the decoded payload wrote into the caller's memory behind the input bytes")
				}
			}
		}
		o.emit(map[string]interface{}{"k": "rt", "plen": plen, "nsig": ns, "in": hex.EncodeToString(enc), "mon": mon})
		verifDecodeCase(o, "valid", enc)
		if i%3 != 0 && !verifThorough() {
			continue
		}
		// structured mutations (only on short encodings, to keep the Coq case file small)
		if len(enc) > 1500 {
			continue
		}
		bodyOff := 6 + 66*ns
		cuts := []int{0, 1, 5, 6, 7, bodyOff - 1, bodyOff, bodyOff + 1, bodyOff + 4, bodyOff + 8, bodyOff + 10, bodyOff + 12, bodyOff + 43, bodyOff + 44,
			bodyOff + 52, bodyOff + 53, bodyOff + 54, 56, 57, 58, 59, 60, len(enc) - 1}
		for _, c := range cuts {
			if c >= 0 && c <= len(enc) {
				verifDecodeCase(o, "truncate", enc[:c])
			}
		}
		for _, vb := range []byte{0, 2, 255, byte(r.next())} {
			m := append([]byte{}, enc...)
			m[0] = vb
			verifDecodeCase(o, "version", m)
		}
		m := append([]byte{}, enc...)
		m = append([]byte{}, enc...)
		m[5] = byte(int(m[5]) + 1 + r.below(3))
		verifDecodeCase(o, "sigcount+", m)
		if ns > 0 {
			m = append([]byte{}, enc...)
			m[5]--
			verifDecodeCase(o, "sigcount-", m)
		}
		verifDecodeCase(o, "trailing", append(append([]byte{}, enc...), r.bytes(1+r.below(40))...))
		m = append([]byte{}, enc...)
		m[r.below(len(m))] ^= 1 << uint(r.below(8))
		verifDecodeCase(o, "bitflip", m)
	}
	// long payloads (around 2^16 and beyond): Go-side monitors only — the in-Coq comparison is limited to inputs <= 8 KiB
	big := []int{65534, 65535, 65536, 65537, 70001, 131072}
	if verifThorough() {
		big = append(big, 1<<20, 1<<20+1)
	}
	for i, plen := range big {
		v, secs, _ := verifRandVAA(r, i%3, plen, true)
		if secs < 0 || secs >= 1<<32 {
			v.Timestamp = time.Unix(int64(uint32(secs)), 0)
		}
		enc, _ := v.Marshal()
		mon := []string{}
		d, err := Unmarshal(enc)
		if err != nil {
			mon = append(mon, "valid encoding rejected: "+err.Error())
		} else {
			if !bytes.Equal(d.Payload, v.Payload) || !d.Timestamp.Equal(v.Timestamp) || d.Sequence != v.Sequence || len(d.Signatures) != len(v.Signatures) {
				mon = append(mon, fmt.Sprintf("decode(encode(v)) != v (payload %d bytes, decoded %d bytes, %d signatures)", len(v.Payload), len(d.Payload), len(v.Signatures)))
			}
			if d.SigningMsg() != v.SigningMsg() {
				mon = append(mon, "digest changed by the round trip")
			}
		}
		o.emit(map[string]interface{}{"k": "rtbig", "plen": plen, "nsig": i % 3, "in": hex.EncodeToString(enc), "mon": mon})
		verifDecodeCase(o, "valid-long", enc)
	}
	for i := 0; i < nrand; i++ {
		var b []byte
		switch r.below(4) {
		case 0:
			b = r.bytes(r.below(130))
		case 1:
			b = r.bytes(50 + r.below(20))
			b[0] = 1
		case 2:
			b = r.bytes(57 + r.below(300))
			b[0] = 1
			b[5] = byte(r.below(4))
		default:
			b = make([]byte, 55+r.below(10))
			b[0] = 1
		}
		verifDecodeCase(o, "random", b)
	}
}
