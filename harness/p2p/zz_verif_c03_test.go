//go:build verif

package p2p

// C03 (p2p half): drives the REAL processSignedHeartbeat / processSignedObservationRequest and the real
// common.GuardianSetState with real secp256k1 signatures and every single mutation of the property's quantifier, before
// and after guardian-set changes; records (a) per step the result class, the update notifications and an order-independent
// checksum of GetAll(), (b) the crypto table (direct go-ethereum calls) and the protobuf decoding table for the model,
// (c) a monitor that evaluates the property statement with direct crypto, independent of the Gallina model.

import (
	"bytes"
	"crypto/ecdsa"
	"encoding/binary"
	"encoding/hex"
	"fmt"
	"math"
	"sort"
	"strconv"
	"strings"
	"testing"
	"time"

	node_common "github.com/alephium/wormhole-fork/node/pkg/common"
	gossipv1 "github.com/alephium/wormhole-fork/node/pkg/proto/gossip/v1"
	"github.com/ethereum/go-ethereum/common"
	ethcrypto "github.com/ethereum/go-ethereum/crypto"
	"github.com/libp2p/go-libp2p/core/peer"
	"google.golang.org/protobuf/proto"
)

// protocol constants as every other guardian uses them (NOT read from the package under test)
var c3HbPrefix = []byte("heartbeat|")
var c3ReqPrefix = []byte("signed_observation_request|")

const c3Base = int64(1700000000) // virtual clock origin (seconds)

type c3Op struct {
	K       string   `json:"k"` // set | hb | req | own | cleanup
	Keys    []string `json:"keys,omitempty"`
	From    string   `json:"from,omitempty"`
	Addr    string   `json:"addr,omitempty"`
	Payload string   `json:"payload,omitempty"`
	Sig     string   `json:"sig,omitempty"`
	Disable bool     `json:"disable,omitempty"`
	Ts      string   `json:"ts,omitempty"`  // own: Timestamp (ns, decimal)
	Now     int64    `json:"now,omitempty"` // cleanup: virtual seconds
	Note    string   `json:"note,omitempty"`
}

type c3Step struct {
	Res  string   `json:"res"`
	Upd  int      `json:"upd"`
	TH   uint64   `json:"th"`
	NE   int      `json:"ne"`
	NA   int      `json:"na"`
	Max  int      `json:"max"`
	Eps  int64    `json:"eps_ms,omitempty"`
	Skip bool     `json:"skip,omitempty"`
	Err  string   `json:"err,omitempty"`
	Mon  []string `json:"mon,omitempty"`
}

type c3Hist struct {
	K      string      `json:"k"`
	ID     int         `json:"id"`
	Shape  string      `json:"shape"`
	Ops    []c3Op      `json:"ops"`
	Steps  []c3Step    `json:"steps"`
	Keccak [][2]string `json:"keccak"`
	Rec    [][3]string `json:"rec"` // digest, sig, recovered address or ""
	DecHb  [][2]string `json:"dechb"` // payload, "" (error) or Timestamp decimal
	DecReq [][2]string `json:"decreq"` // payload, "1"/"0"
}

type c3Entry struct {
	addr common.Address
	peer peer.ID
	hb   *gossipv1.Heartbeat
}

type c3Driver struct {
	t       *testing.T
	gst     *node_common.GuardianSetState
	updC    chan *gossipv1.Heartbeat
	h       *c3Hist
	ptr     map[*gossipv1.Heartbeat][]byte // stored pointer -> payload identity
	vts     map[*gossipv1.Heartbeat]int64  // stored pointer -> Timestamp as signed (ns)
	V       int64                          // virtual now (seconds)
	kecT    map[string]bool
	recT    map[string]bool
	dhT     map[string]bool
	drT     map[string]bool
	nown    int
	skipped int
	// since the last guardian-set change a correctly signed, decodable request / heartbeat was accepted (the verifier's verdict on such
	// a message is a function of the message and the set: a later refusal means dropped traffic left something behind)
	reqOK, hbOK bool
}

func c3NewDriver(t *testing.T, id int, shape string) *c3Driver {
	updC := make(chan *gossipv1.Heartbeat, 64)
	return &c3Driver{t: t, gst: node_common.NewGuardianSetState(updC), updC: updC, h: &c3Hist{K: "hist", ID: id, Shape: shape},
		ptr: map[*gossipv1.Heartbeat][]byte{}, vts: map[*gossipv1.Heartbeat]int64{}, V: c3Base,
		kecT: map[string]bool{}, recT: map[string]bool{}, dhT: map[string]bool{}, drT: map[string]bool{}}
}

// ---- crypto / decoding tables: direct library calls
func (d *c3Driver) keccak(pre []byte) []byte {
	dg := ethcrypto.Keccak256(pre)
	k := hex.EncodeToString(pre)
	if !d.kecT[k] {
		d.kecT[k] = true
		d.h.Keccak = append(d.h.Keccak, [2]string{k, hex.EncodeToString(dg)})
	}
	return dg
}

func c3Recover(dg, sig []byte) (common.Address, bool) {
	pub, err := ethcrypto.Ecrecover(dg, sig)
	if err != nil {
		return common.Address{}, false
	}
	return common.BytesToAddress(ethcrypto.Keccak256(pub[1:])[12:]), true
}

func (d *c3Driver) noteRec(dg, sig []byte) {
	k := hex.EncodeToString(dg) + "/" + hex.EncodeToString(sig)
	if d.recT[k] {
		return
	}
	d.recT[k] = true
	a, ok := c3Recover(dg, sig)
	r := ""
	if ok {
		r = hex.EncodeToString(a.Bytes())
	}
	d.h.Rec = append(d.h.Rec, [3]string{hex.EncodeToString(dg), hex.EncodeToString(sig), r})
}

// everything the model may look up for (payload, sig): both prefixes and the bare payload
func (d *c3Driver) noteCrypto(payload, sig []byte) {
	for _, pre := range [][]byte{append(append([]byte{}, c3HbPrefix...), payload...), append(append([]byte{}, c3ReqPrefix...), payload...), payload} {
		d.noteRec(d.keccak(pre), sig)
	}
}

func (d *c3Driver) noteDecHb(payload []byte) (int64, bool) {
	var h gossipv1.Heartbeat
	err := proto.Unmarshal(payload, &h)
	k := hex.EncodeToString(payload)
	if !d.dhT[k] {
		d.dhT[k] = true
		v := ""
		if err == nil {
			v = strconv.FormatInt(h.Timestamp, 10)
		}
		d.h.DecHb = append(d.h.DecHb, [2]string{k, v})
	}
	return h.Timestamp, err == nil
}

func (d *c3Driver) noteDecReq(payload []byte) (*gossipv1.ObservationRequest, bool) {
	var h gossipv1.ObservationRequest
	err := proto.Unmarshal(payload, &h)
	k := hex.EncodeToString(payload)
	if !d.drT[k] {
		d.drT[k] = true
		v := "0"
		if err == nil {
			v = "1"
		}
		d.h.DecReq = append(d.h.DecReq, [2]string{k, v})
	}
	return &h, err == nil
}

// ---- table snapshot
func (d *c3Driver) snapshot() []c3Entry {
	var out []c3Entry
	for a, row := range d.gst.GetAll() {
		for p, hb := range row {
			out = append(out, c3Entry{a, p, hb})
		}
	}
	sort.Slice(out, func(i, j int) bool {
		if c := bytes.Compare(out[i].addr[:], out[j].addr[:]); c != 0 {
			return c < 0
		}
		return out[i].peer < out[j].peer
	})
	return out
}

func (d *c3Driver) drain() int {
	n := 0
	for {
		select {
		case <-d.updC:
			n++
		default:
			return n
		}
	}
}

func c3Class(err error) string {
	if err == nil {
		return "ok"
	}
	s := err.Error()
	switch {
	case strings.Contains(s, "not in guardian set"):
		return "not-in-set"
	case strings.Contains(s, "too short"):
		return "too-short"
	case strings.Contains(s, "failed to recover"):
		return "recover"
	case strings.Contains(s, "invalid signer"):
		return "signer"
	case strings.Contains(s, "failed to unmarshal"):
		return "unmarshal"
	case strings.Contains(s, "failed to store"), strings.Contains(s, "too many nodes"):
		return "store"
	}
	return "other"
}

// finish a step: table checksum, cap monitor, unknown pointers
func (d *c3Driver) finish(op c3Op, st *c3Step) {
	all := d.gst.GetAll()
	st.NA = len(all)
	var sum uint64
	for a, row := range all {
		if len(row) > st.Max {
			st.Max = len(row)
		}
		if len(row) > node_common.MaxNodesPerGuardian {
			st.Mon = append(st.Mon, fmt.Sprintf("cap: guardian %s has %d heartbeat entries, more than MaxNodesPerGuardian=%d", a.Hex(), len(row), node_common.MaxNodesPerGuardian))
		}
		for p, hb := range row {
			st.NE++
			id, ok := d.ptr[hb]
			if !ok {
				st.Mon = append(st.Mon, fmt.Sprintf("table: entry %s/%x holds a heartbeat no accepted call produced", a.Hex(), string(p)))
				continue
			}
			var b []byte
			b = append(b, a[:]...)
			var l [2]byte
			binary.BigEndian.PutUint16(l[:], uint16(len(p)))
			b = append(b, l[:]...)
			b = append(b, []byte(p)...)
			b = append(b, id...)
			sum = (sum + vhash(b)) % vHmod
		}
	}
	st.TH = sum
	d.h.Ops = append(d.h.Ops, op)
	d.h.Steps = append(d.h.Steps, *st)
}

func c3Diff(before, after []c3Entry) (added, removed, changed []c3Entry) {
	key := func(e c3Entry) string { return string(e.addr[:]) + "/" + string(e.peer) }
	bm := map[string]c3Entry{}
	for _, e := range before {
		bm[key(e)] = e
	}
	am := map[string]c3Entry{}
	for _, e := range after {
		am[key(e)] = e
		if o, ok := bm[key(e)]; !ok {
			added = append(added, e)
		} else if o.hb != e.hb {
			changed = append(changed, e)
		}
	}
	for _, e := range before {
		if _, ok := am[key(e)]; !ok {
			removed = append(removed, e)
		}
	}
	return
}

func c3Member(gs *node_common.GuardianSet, a common.Address) bool {
	for _, k := range gs.Keys {
		if k == a {
			return true
		}
	}
	return false
}

// ---- operations
func (d *c3Driver) opSet(keys []common.Address, idx uint32, note string) {
	ks := make([]string, len(keys))
	for i, k := range keys {
		ks[i] = hex.EncodeToString(k[:])
	}
	st := &c3Step{Res: "ok"}
	func() {
		defer func() {
			if r := recover(); r != nil {
				st.Res = fmt.Sprintf("panic:%v", r)
			}
		}()
		d.gst.Set(&node_common.GuardianSet{Keys: keys, Index: idx})
		d.reqOK, d.hbOK = false, false
	}()
	st.Upd = d.drain()
	d.finish(c3Op{K: "set", Keys: ks, Note: note}, st)
}

func (d *c3Driver) opHb(from peer.ID, addr, payload, sig []byte, disable bool, note string) {
	d.noteCrypto(payload, sig)
	ts, dec := d.noteDecHb(payload)
	st := &c3Step{}
	gs := d.gst.Get()
	before := d.snapshot()
	var ret *gossipv1.Heartbeat
	var err error
	if gs == nil {
		st.Res = "dropped" // the dispatch switch of Run drops the message when no set is known
	} else {
		func() {
			defer func() {
				if r := recover(); r != nil {
					st.Res = fmt.Sprintf("panic:%v", r)
				}
			}()
			ret, err = processSignedHeartbeat(from, &gossipv1.SignedHeartbeat{Heartbeat: payload, Signature: sig, GuardianAddr: addr}, gs, d.gst, disable)
			st.Res = c3Class(err)
			if err != nil {
				st.Err = err.Error()
			}
		}()
	}
	st.Upd = d.drain()
	if ret != nil && err == nil {
		d.ptr[ret] = append([]byte{}, payload...)
		d.vts[ret] = ts
	}
	after := d.snapshot()
	added, removed, changed := c3Diff(before, after)
	// ---- monitor: the property statement, evaluated with direct crypto
	pre := append(append([]byte{}, c3HbPrefix...), payload...)
	signer, recOK := c3Recover(ethcrypto.Keccak256(pre), sig)
	claimed := common.BytesToAddress(addr)
	why := ""
	switch {
	case gs == nil:
		why = "no guardian set known"
	case !recOK:
		why = "signature does not recover under the heartbeat prefix"
	case !disable && signer != claimed:
		why = fmt.Sprintf("signature recovers to %s under the heartbeat prefix, the message claims %s", signer.Hex(), claimed.Hex())
	case !disable && !c3Member(gs, claimed):
		why = fmt.Sprintf("claimed address %s is not in the current guardian set", claimed.Hex())
	case len(pre) <= 32:
		why = fmt.Sprintf("signed bytes are %d long: not above the 32-byte pre-image of a VAA digest", len(pre))
	}
	accepted := st.Res == "ok"
	touched := len(added)+len(removed)+len(changed) > 0 || st.Upd > 0 || (ret != nil && err == nil)
	if why != "" && (accepted || touched) {
		st.Mon = append(st.Mon, fmt.Sprintf("heartbeat had an effect (result=%s, table +%d -%d ~%d, updates=%d) although: %s", st.Res, len(added), len(removed), len(changed), st.Upd, why))
	}
	if !accepted && touched {
		st.Mon = append(st.Mon, fmt.Sprintf("heartbeat rejected (%s) but not without side effects: table +%d -%d ~%d, updates=%d", st.Res, len(added), len(removed), len(changed), st.Upd))
	}
	if accepted && why == "" {
		// stored under the recovered signer and the sending peer, nothing else touched
		okShape := len(removed) == 0 && len(added)+len(changed) == 1
		var e c3Entry
		if len(added) == 1 {
			e = added[0]
		} else if len(changed) == 1 {
			e = changed[0]
		}
		if !okShape || e.addr != signer || e.peer != from || e.hb != ret {
			st.Mon = append(st.Mon, fmt.Sprintf("accepted heartbeat of signer %s from peer %x is not stored under exactly that address and peer (table +%d -%d ~%d, stored under %s)", signer.Hex(), string(from), len(added), len(removed), len(changed), e.addr.Hex()))
		}
		if !dec {
			st.Mon = append(st.Mon, "accepted heartbeat whose payload does not decode")
		}
	}
	d.finish(c3Op{K: "hb", From: hex.EncodeToString([]byte(from)), Addr: hex.EncodeToString(addr), Payload: hex.EncodeToString(payload), Sig: hex.EncodeToString(sig), Disable: disable, Note: note}, st)
}

func (d *c3Driver) opReq(addr, payload, sig []byte, note string) {
	d.noteCrypto(payload, sig)
	want, dec := d.noteDecReq(payload)
	st := &c3Step{}
	gs := d.gst.Get()
	before := d.snapshot()
	var ret *gossipv1.ObservationRequest
	var err error
	if gs == nil {
		st.Res = "dropped"
	} else {
		func() {
			defer func() {
				if r := recover(); r != nil {
					st.Res = fmt.Sprintf("panic:%v", r)
				}
			}()
			ret, err = processSignedObservationRequest(&gossipv1.SignedObservationRequest{ObservationRequest: payload, Signature: sig, GuardianAddr: addr}, gs)
			st.Res = c3Class(err)
			if err != nil {
				st.Err = err.Error()
			}
		}()
	}
	st.Upd = d.drain()
	after := d.snapshot()
	added, removed, changed := c3Diff(before, after)
	pre := append(append([]byte{}, c3ReqPrefix...), payload...)
	signer, recOK := c3Recover(ethcrypto.Keccak256(pre), sig)
	claimed := common.BytesToAddress(addr)
	why := ""
	switch {
	case gs == nil:
		why = "no guardian set known"
	case !recOK:
		why = "signature does not recover under the observation-request prefix"
	case signer != claimed:
		why = fmt.Sprintf("signature recovers to %s under the observation-request prefix, the message claims %s", signer.Hex(), claimed.Hex())
	case !c3Member(gs, claimed):
		why = fmt.Sprintf("claimed address %s is not in the current guardian set", claimed.Hex())
	case len(pre) <= 32:
		why = fmt.Sprintf("signed bytes are %d long: not above the 32-byte pre-image of a VAA digest", len(pre))
	}
	forwarded := st.Res == "ok" || (ret != nil && err == nil)
	if why != "" && forwarded {
		st.Mon = append(st.Mon, "observation request would be forwarded to the chain watchers although: "+why)
	}
	if len(added)+len(removed)+len(changed) > 0 || st.Upd > 0 {
		st.Mon = append(st.Mon, "observation request verifier touched the heartbeat table")
	}
	if forwarded && why == "" {
		if !dec || ret == nil || !proto.Equal(ret, want) {
			st.Mon = append(st.Mon, "forwarded request differs from the decoded signed payload")
		}
	}
	// (the code's length floor is 34 signed bytes; 33 is refused, which the statement allows)
	if why == "" && dec && forwarded {
		d.reqOK = true
	} else if why == "" && dec && len(pre) >= 34 && !forwarded && d.reqOK && (len(st.Res) < 5 || st.Res[:5] != "panic") {
		st.Mon = append(st.Mon, fmt.Sprintf("dropped traffic left a side effect in the verifier: a correctly signed, decodable observation request of a current guardian is refused (%s %s) although such a request was accepted earlier under the same guardian set", st.Res, st.Err))
	}
	d.finish(c3Op{K: "req", Addr: hex.EncodeToString(addr), Payload: hex.EncodeToString(payload), Sig: hex.EncodeToString(sig), Note: note}, st)
}

// the node's own heartbeat goroutine (and any other direct caller): SetHeartbeat without a signature
func (d *c3Driver) opOwn(a common.Address, p peer.ID, tsNs int64, note string) {
	d.nown++
	id := []byte(fmt.Sprintf("own:%d", d.nown))
	hb := &gossipv1.Heartbeat{NodeName: "self", Counter: int64(d.nown), Timestamp: tsNs}
	st := &c3Step{}
	func() {
		defer func() {
			if r := recover(); r != nil {
				st.Res = fmt.Sprintf("panic:%v", r)
			}
		}()
		err := d.gst.SetHeartbeat(a, p, hb)
		st.Res = c3Class(err)
		if err == nil {
			d.ptr[hb] = id
			d.vts[hb] = tsNs
		} else {
			st.Err = err.Error()
		}
	}()
	st.Upd = d.drain()
	d.finish(c3Op{K: "own", Addr: hex.EncodeToString(a[:]), From: hex.EncodeToString([]byte(p)), Payload: hex.EncodeToString(id), Ts: strconv.FormatInt(tsNs, 10), Note: note}, st)
}

// Cleanup at virtual instant V: the stored Timestamps (virtual) are rewritten to real-now minus their virtual age (whole
// seconds) immediately before the call, restored afterwards.  Timestamps further than ~11 days from the virtual now are
// left as they are (same verdict under the real and the virtual clock).
func (d *c3Driver) opCleanup(note string) {
	st := &c3Step{Res: "ok"}
	snap := d.snapshot()
	t0 := time.Now()
	for _, e := range snap {
		v, ok := d.vts[e.hb]
		if !ok {
			continue
		}
		age := d.V*1000000000 - v
		if age > -1000000000000000 && age < 1000000000000000 {
			e.hb.Timestamp = t0.UnixNano() - age
		}
	}
	func() {
		defer func() {
			if r := recover(); r != nil {
				st.Res = fmt.Sprintf("panic:%v", r)
			}
		}()
		d.gst.Cleanup()
	}()
	eps := time.Since(t0)
	st.Eps = eps.Milliseconds()
	for _, e := range snap {
		if v, ok := d.vts[e.hb]; ok {
			e.hb.Timestamp = v
		}
	}
	if eps > 500*time.Millisecond {
		st.Skip = true
		d.skipped++
	}
	st.Upd = d.drain()
	d.finish(c3Op{K: "cleanup", Now: d.V, Note: note}, st)
}

// ---- the world: keys, peers, message builders
type c3World struct {
	r     *vrng
	keys  []*ecdsa.PrivateKey
	addrs []common.Address
	peers []peer.ID
}

func c3NewWorld(r *vrng, nkeys, npeers int) *c3World {
	w := &c3World{r: r}
	for len(w.keys) < nkeys {
		k, err := ethcrypto.ToECDSA(ethcrypto.Keccak256(r.bytes(32)))
		if err != nil {
			continue
		}
		w.keys = append(w.keys, k)
		w.addrs = append(w.addrs, ethcrypto.PubkeyToAddress(k.PublicKey))
	}
	for i := 0; i < npeers; i++ {
		w.peers = append(w.peers, peer.ID(string(append([]byte{0x12, 0x20}, r.bytes(32)...))))
	}
	return w
}

func (w *c3World) sign(k int, pre []byte) []byte {
	s, err := ethcrypto.Sign(ethcrypto.Keccak256(pre), w.keys[k])
	if err != nil {
		panic(err)
	}
	return s
}

func cat(a, b []byte) []byte { return append(append([]byte{}, a...), b...) }

// a heartbeat payload whose marshalled length is exactly n (n >= 2), or of natural length when n == 0
func (w *c3World) hbPayload(tsNs int64, n int) []byte {
	r := w.r
	if n == 0 {
		h := &gossipv1.Heartbeat{NodeName: "guardian-" + strconv.Itoa(r.below(1000)), Counter: int64(r.below(100000)), Timestamp: tsNs,
			Version: "v2.8." + strconv.Itoa(r.below(9)), GuardianAddr: "0x" + hex.EncodeToString(r.bytes(20)), BootTimestamp: tsNs - int64(r.below(1000000))*1000000000}
		if r.chance(1, 3) {
			h.Networks = []*gossipv1.Heartbeat_Network{{Id: uint32(r.below(300)), Height: int64(r.below(1 << 30)), ContractAddress: "0x" + hex.EncodeToString(r.bytes(20)), ErrorCount: uint64(r.below(5))}}
		}
		b, err := proto.Marshal(h)
		if err != nil {
			panic(err)
		}
		return b
	}
	// field 1 (node_name) with n-2 characters: tag + length + chars (n-2 < 128)
	name := make([]byte, n-2)
	for i := range name {
		name[i] = byte('a' + r.below(26))
	}
	b, err := proto.Marshal(&gossipv1.Heartbeat{NodeName: string(name)})
	if err != nil || len(b) != n {
		panic(fmt.Sprintf("hbPayload: wanted %d bytes, got %d (%v)", n, len(b), err))
	}
	return b
}

// an observation request whose marshalled length is exactly n (n >= 2) or natural (n == 0)
func (w *c3World) reqPayload(n int) []byte {
	r := w.r
	var q *gossipv1.ObservationRequest
	if n == 0 {
		q = &gossipv1.ObservationRequest{ChainId: uint32(1 + r.below(300)), TxHash: r.bytes(32)}
	} else {
		q = &gossipv1.ObservationRequest{TxHash: r.bytes(n - 2)}
	}
	b, err := proto.Marshal(q)
	if err != nil || (n != 0 && len(b) != n) {
		panic(fmt.Sprintf("reqPayload: wanted %d bytes, got %d (%v)", n, len(b), err))
	}
	return b
}

func flipBit(b []byte, r *vrng) []byte {
	c := append([]byte{}, b...)
	if len(c) == 0 {
		return c
	}
	i := r.below(len(c) * 8)
	c[i/8] ^= 1 << uint(i%8)
	return c
}

const c3NMut = 24

// one mutated heartbeat (kind) derived from a valid one by member position m of the current set; returns addr, payload, sig, note
func (w *c3World) mutHb(kind int, cur []int, outsiders []int, V int64) (addr, payload, sig []byte, note string) {
	r := w.r
	m := cur[r.below(len(cur))]
	payload = w.hbPayload(V*1000000000-int64(r.below(20))*1000000000, 0)
	addr = w.addrs[m].Bytes()
	sig = w.sign(m, cat(c3HbPrefix, payload))
	switch kind {
	case 0:
		payload, note = flipBit(payload, r), "payload-bit-flip"
	case 1:
		s := append([]byte{}, sig...)
		i := r.below(64 * 8)
		s[i/8] ^= 1 << uint(i%8)
		sig, note = s, "sig-bit-flip"
	case 2:
		s := append([]byte{}, sig...)
		s[64] ^= 1
		sig, note = s, "sig-recid-flip"
	case 3:
		s := append([]byte{}, sig...)
		s[64] = byte(4 + r.below(250))
		sig, note = s, "sig-recid-out-of-range"
	case 4:
		if r.chance(1, 2) {
			sig = sig[:64]
		} else {
			sig = append(append([]byte{}, sig...), 0)
		}
		note = "sig-length"
	case 5:
		addr, note = flipBit(addr, r), "addr-bit-flip"
	case 6:
		o := outsiders[r.below(len(outsiders))]
		addr, sig, note = w.addrs[o].Bytes(), w.sign(o, cat(c3HbPrefix, payload)), "signer-outside-set"
	case 7:
		o := outsiders[r.below(len(outsiders))]
		sig, note = w.sign(o, cat(c3HbPrefix, payload)), "outsider-signs-with-member-address"
	case 8:
		if len(cur) > 1 {
			m2 := cur[r.below(len(cur))]
			for m2 == m {
				m2 = cur[r.below(len(cur))]
			}
			addr = w.addrs[m2].Bytes()
		} else {
			addr = w.addrs[outsiders[0]].Bytes()
		}
		note = "member-signs-with-another-address"
	case 9:
		sig, note = w.sign(m, cat(c3ReqPrefix, payload)), "wrong-prefix-request"
	case 10:
		sig, note = w.sign(m, payload), "missing-prefix"
	case 11:
		sig, note = w.sign(m, cat([]byte("heartbeat"), payload)), "prefix-without-separator"
	case 12:
		// observation-style signature: the member signed keccak(keccak(body)); replayed as a heartbeat
		body := r.bytes(60 + r.below(100))
		s, _ := ethcrypto.Sign(ethcrypto.Keccak256(ethcrypto.Keccak256(body)), w.keys[m])
		sig, note = s, "replay-observation-signature"
	case 13, 14, 15, 16, 17:
		// validly signed under the heartbeat prefix, total signed length 31..35 (floor)
		total := 31 + (kind - 13)
		payload = w.hbPayload(0, total-len(c3HbPrefix))
		sig, note = w.sign(m, cat(c3HbPrefix, payload)), "signed-length-"+strconv.Itoa(total)
	case 18:
		// the 32 signed bytes ARE the pre-image of an observation digest: the same signature is a valid observation signature
		payload = w.hbPayload(0, 32-len(c3HbPrefix))
		x := cat(c3HbPrefix, payload)
		s, _ := ethcrypto.Sign(ethcrypto.Keccak256(x), w.keys[m])
		sig, note = s, "32-byte-preimage-shared-with-observation"
	case 19:
		if r.chance(1, 2) {
			addr = append(r.bytes(1+r.below(12)), addr...) // cropped from the left by BytesToAddress: same address
			note = "addr-left-padded"
		} else {
			addr = addr[1:] // zero-extended: another address unless the first byte was 0
			note = "addr-truncated"
		}
	case 20:
		payload = r.bytes(30 + r.below(40)) // valid signature over bytes that are no protobuf heartbeat (most of the time)
		payload[0] = 0xff
		sig, note = w.sign(m, cat(c3HbPrefix, payload)), "signed-garbage-payload"
	case 21:
		switch r.below(3) {
		case 0:
			sig, note = nil, "empty-signature"
		case 1:
			addr, note = nil, "empty-address"
		default:
			payload, note = nil, "empty-payload"
		}
	case 22:
		// a valid REQUEST (payload + signature) replayed as heartbeat
		payload = w.reqPayload(0)
		sig, note = w.sign(m, cat(c3ReqPrefix, payload)), "replay-request-as-heartbeat"
	case 23:
		sig, note = append([]byte{}, make([]byte, 65)...), "zero-signature"
	}
	return
}

func (w *c3World) mutReq(kind int, cur []int, outsiders []int) (addr, payload, sig []byte, note string) {
	r := w.r
	m := cur[r.below(len(cur))]
	payload = w.reqPayload(0)
	addr = w.addrs[m].Bytes()
	sig = w.sign(m, cat(c3ReqPrefix, payload))
	switch kind {
	case 0:
		payload, note = flipBit(payload, r), "payload-bit-flip"
	case 1:
		s := append([]byte{}, sig...)
		i := r.below(64 * 8)
		s[i/8] ^= 1 << uint(i%8)
		sig, note = s, "sig-bit-flip"
	case 2:
		s := append([]byte{}, sig...)
		s[64] ^= 1
		sig, note = s, "sig-recid-flip"
	case 3:
		s := append([]byte{}, sig...)
		s[64] = byte(4 + r.below(250))
		sig, note = s, "sig-recid-out-of-range"
	case 4:
		if r.chance(1, 2) {
			sig = sig[:64]
		} else {
			sig = append(append([]byte{}, sig...), 0)
		}
		note = "sig-length"
	case 5:
		addr, note = flipBit(addr, r), "addr-bit-flip"
	case 6:
		o := outsiders[r.below(len(outsiders))]
		addr, sig, note = w.addrs[o].Bytes(), w.sign(o, cat(c3ReqPrefix, payload)), "signer-outside-set"
	case 7:
		o := outsiders[r.below(len(outsiders))]
		sig, note = w.sign(o, cat(c3ReqPrefix, payload)), "outsider-signs-with-member-address"
	case 8:
		if len(cur) > 1 {
			m2 := cur[r.below(len(cur))]
			for m2 == m {
				m2 = cur[r.below(len(cur))]
			}
			addr = w.addrs[m2].Bytes()
		} else {
			addr = w.addrs[outsiders[0]].Bytes()
		}
		note = "member-signs-with-another-address"
	case 9:
		sig, note = w.sign(m, cat(c3HbPrefix, payload)), "wrong-prefix-heartbeat"
	case 10:
		sig, note = w.sign(m, payload), "missing-prefix"
	case 11:
		sig, note = w.sign(m, cat([]byte("signed_observation_request"), payload)), "prefix-without-separator"
	case 12:
		body := r.bytes(60 + r.below(100))
		s, _ := ethcrypto.Sign(ethcrypto.Keccak256(ethcrypto.Keccak256(body)), w.keys[m])
		sig, note = s, "replay-observation-signature"
	case 13, 14, 15, 16, 17:
		total := 31 + (kind - 13)
		payload = w.reqPayload(total - len(c3ReqPrefix))
		sig, note = w.sign(m, cat(c3ReqPrefix, payload)), "signed-length-"+strconv.Itoa(total)
	case 18:
		payload = w.reqPayload(32 - len(c3ReqPrefix))
		x := cat(c3ReqPrefix, payload)
		s, _ := ethcrypto.Sign(ethcrypto.Keccak256(x), w.keys[m])
		sig, note = s, "32-byte-preimage-shared-with-observation"
	case 19:
		if r.chance(1, 2) {
			addr = append(r.bytes(1+r.below(12)), addr...)
			note = "addr-left-padded"
		} else {
			addr = addr[1:]
			note = "addr-truncated"
		}
	case 20:
		payload = r.bytes(10 + r.below(40))
		payload[0] = 0xff
		sig, note = w.sign(m, cat(c3ReqPrefix, payload)), "signed-garbage-payload"
	case 21:
		switch r.below(3) {
		case 0:
			sig, note = nil, "empty-signature"
		case 1:
			addr, note = nil, "empty-address"
		default:
			payload, note = nil, "empty-payload"
		}
	case 22:
		payload = w.hbPayload(c3Base*1000000000, 0)
		sig, note = w.sign(m, cat(c3HbPrefix, payload)), "replay-heartbeat-as-request"
	case 23:
		sig, note = append([]byte{}, make([]byte, 65)...), "zero-signature"
	}
	return
}

func c3Addrs(w *c3World, idx []int) []common.Address {
	out := make([]common.Address, len(idx))
	for i, k := range idx {
		out[i] = w.addrs[k]
	}
	return out
}

func c3Without(all []int, in []int) []int {
	m := map[int]bool{}
	for _, k := range in {
		m[k] = true
	}
	var out []int
	for _, k := range all {
		if !m[k] {
			out = append(out, k)
		}
	}
	return out
}

// one generated history
func c3History(t *testing.T, id int, seed uint64, mutOffset int) *c3Hist {
	r := &vrng{s: seed}
	n := 1 + r.below(19)
	if id%7 == 0 {
		n = 19
	} else if id%7 == 1 {
		n = 1
	}
	w := c3NewWorld(r, n+6, 24)
	all := make([]int, n+6)
	for i := range all {
		all[i] = i
	}
	setA := all[:n]
	// set B: drops the first k members of A, adds two new keys
	k := r.below(n)
	if n > 1 && k == 0 {
		k = 1
	}
	setB := append(append([]int{}, setA[k:]...), n, n+1)
	d := c3NewDriver(t, id, fmt.Sprintf("n=%d drop=%d", n, k))
	cur := setA
	curName := "A"
	outsiders := func() []int { return c3Without(all, cur) }
	validHb := func(m int, p peer.ID, age int64, disable bool, note string) {
		pl := w.hbPayload((d.V-age)*1000000000, 0)
		d.opHb(p, w.addrs[m].Bytes(), pl, w.sign(m, cat(c3HbPrefix, pl)), disable, note)
	}
	validReq := func(m int, note string) {
		pl := w.reqPayload(0)
		d.opReq(w.addrs[m].Bytes(), pl, w.sign(m, cat(c3ReqPrefix, pl)), note)
	}
	// before any set is known: dropped by the dispatch switch
	validHb(setA[0], w.peers[0], 0, false, "valid-before-any-set")
	validReq(setA[0], "valid-before-any-set")
	d.opSet(c3Addrs(w, setA), 0, "A")
	if id%9 == 4 && n > 1 {
		// a set with a repeated key
		ks := c3Addrs(w, setA)
		ks = append(ks, ks[0])
		d.opSet(ks, 0, "A-with-repeated-key")
	}
	nev := 40 + r.below(30)
	mut := mutOffset
	for e := 0; e < nev; e++ {
		switch c := r.below(100); {
		case c < 22:
			m := cur[r.below(len(cur))]
			validHb(m, w.peers[r.below(len(w.peers))], int64(r.below(50)), false, "valid")
		case c < 30:
			m := cur[r.below(len(cur))]
			if e%3 != 0 {
				validReq(m, "valid")
				break
			}
			// a request that was accepted, then what an eavesdropper can make of it: the very same signature under other signed bytes, the
			// same signature claimed by another address, and the untouched copy once more (re-gossiped: still acceptable)
			pl := w.reqPayload(0)
			sg := w.sign(m, cat(c3ReqPrefix, pl))
			d.opReq(w.addrs[m].Bytes(), pl, sg, "valid")
			d.opReq(w.addrs[m].Bytes(), w.reqPayload(0), sg, "accepted-signature-on-another-request")
			d.opReq(w.addrs[m].Bytes(), flipBit(pl, r), sg, "accepted-signature-on-a-changed-request")
			d.opReq(w.addrs[cur[r.below(len(cur))]].Bytes(), pl, sg, "accepted-signature-under-a-drawn-member-address")
			d.opReq(w.addrs[m].Bytes(), pl, sg, "valid-copy-again")
			hp := w.hbPayload(d.V*1000000000, 0)
			hs := w.sign(m, cat(c3HbPrefix, hp))
			pr := w.peers[r.below(len(w.peers))]
			d.opHb(pr, w.addrs[m].Bytes(), hp, hs, false, "valid")
			d.opHb(pr, w.addrs[m].Bytes(), w.hbPayload((d.V+1)*1000000000, 0), hs, false, "accepted-signature-on-another-heartbeat")
			d.opReq(w.addrs[m].Bytes(), hp, hs, "accepted-heartbeat-signature-as-request")
		case c < 55:
			a, pl, sg, note := w.mutHb(mut%c3NMut, cur, outsiders(), d.V)
			mut++
			d.opHb(w.peers[r.below(len(w.peers))], a, pl, sg, false, note)
		case c < 75:
			a, pl, sg, note := w.mutReq(mut%c3NMut, cur, outsiders())
			mut++
			d.opReq(a, pl, sg, note)
		case c < 80:
			// devnet flag: address checks off
			kind := []int{6, 7, 8, 10, 15, 16}[r.below(6)]
			a, pl, sg, note := w.mutHb(kind, cur, outsiders(), d.V)
			d.opHb(w.peers[r.below(len(w.peers))], a, pl, sg, true, "noverify:"+note)
		case c < 82:
			validHb(cur[r.below(len(cur))], w.peers[r.below(len(w.peers))], 0, true, "noverify:valid")
		case c < 86:
			d.opOwn(w.addrs[setA[0]], w.peers[23], (d.V-int64(r.below(5)))*1000000000, "own")
		case c < 93:
			d.V += []int64{0, 1, 29, 45, 58, 59, 61, 62, 90, 120, 3600}[r.below(11)]
			d.opCleanup("")
		default:
			// guardian-set change; then the old-only and new-only members try again
			if curName == "A" {
				cur, curName = setB, "B"
			} else {
				cur, curName = setA, "A"
			}
			d.opSet(c3Addrs(w, cur), uint32(e), curName)
			other := setA
			if curName == "A" {
				other = setB
			}
			gone := c3Without(other, cur)
			if len(gone) > 0 {
				g := gone[r.below(len(gone))]
				validHb(g, w.peers[r.below(len(w.peers))], 0, false, "valid-signature-of-removed-member")
				validReq(g, "valid-signature-of-removed-member")
			}
			fresh := c3Without(cur, other)
			if len(fresh) > 0 {
				f := fresh[r.below(len(fresh))]
				validHb(f, w.peers[r.below(len(w.peers))], 0, false, "valid-new-member")
				validReq(f, "valid-new-member")
			}
		}
	}
	// the cap: one guardian, 13..19 distinct peers, then updates of stored peers, expiry, refill; extreme timestamps
	g := cur[r.below(len(cur))]
	npeers := 13 + r.below(7)
	for i := 0; i < npeers; i++ {
		validHb(g, w.peers[i], int64(r.below(40)), false, "cap-fill-"+strconv.Itoa(i+1))
	}
	validHb(g, w.peers[0], 0, false, "cap-update-existing-peer")
	validHb(g, w.peers[22], 0, false, "cap-one-more-peer")
	d.opOwn(w.addrs[g], w.peers[21], d.V*1000000000, "own-at-cap")
	for _, ts := range []int64{0, math.MinInt64, math.MaxInt64, -1, (d.V + 1000000000) * 1000000000} { // the last: year 2055, in the future of the real and of the virtual clock
		pl := w.hbPayload(ts, 0)
		g2 := cur[r.below(len(cur))]
		d.opHb(w.peers[20], w.addrs[g2].Bytes(), pl, w.sign(g2, cat(c3HbPrefix, pl)), false, "extreme-timestamp")
	}
	d.opCleanup("after-extreme")
	d.V += 61
	d.opCleanup("expire-all-regular")
	for i := 0; i < 17; i++ {
		validHb(g, w.peers[i], 0, false, "cap-refill-"+strconv.Itoa(i+1))
	}
	d.V += 30
	for i := 0; i < 5; i++ {
		validHb(g, w.peers[16+i], 0, false, "cap-refill-later-"+strconv.Itoa(i+1))
	}
	d.V += 31
	d.opCleanup("expire-older-half")
	validHb(g, w.peers[1], 0, false, "after-partial-expiry")
	return d.h
}

func TestVerifC03(t *testing.T) {
	o := verifOut(t)
	defer o.close()
	nh := 42
	if verifThorough() {
		nh = 300
	}
	seed := verifSeed()
	r := &vrng{s: seed ^ 0xC03C03}
	for i := 0; i < nh; i++ {
		h := c3History(t, i, r.next(), i*5)
		o.emit(h)
	}
}

// TestVerifC03Conc: the verifier, Cleanup and GetAll called concurrently (as the dispatch loop, the cleanup ticker, the own
// heartbeat goroutine and publicrpc do).  Run with -race in the thorough tier.  Monitors the cap on every snapshot and that
// every stored entry is one an accepted call returned, under the signer's address and the sending peer.
func TestVerifC03Conc(t *testing.T) {
	o := verifOut(t)
	defer o.close()
	r := &vrng{s: verifSeed() ^ 0xC03C0C}
	w := c3NewWorld(r, 5, 40)
	gst := node_common.NewGuardianSetState(nil)
	gs := &node_common.GuardianSet{Keys: w.addrs[:3], Index: 1}
	gst.Set(gs)
	type acc struct {
		a  common.Address
		p  peer.ID
		hb *gossipv1.Heartbeat
	}
	nworkers, per := 8, 150
	if verifThorough() {
		per = 1500
	}
	type job struct {
		from    peer.ID
		addr    []byte
		payload []byte
		sig     []byte
		signer  common.Address
		valid   bool
	}
	jobs := make([][]job, nworkers)
	now := time.Now().UnixNano()
	for wk := 0; wk < nworkers; wk++ {
		for i := 0; i < per; i++ {
			m := r.below(3)
			ts := now
			if r.chance(1, 5) {
				ts = now - int64(2*time.Minute)
			}
			pl := w.hbPayload(ts, 0)
			j := job{from: w.peers[r.below(len(w.peers))], addr: w.addrs[m].Bytes(), payload: pl, sig: w.sign(m, cat(c3HbPrefix, pl)), signer: w.addrs[m], valid: true}
			if r.chance(1, 4) { // outsider, or member signing with another member's address
				j.valid = false
				if r.chance(1, 2) {
					j.addr, j.sig = w.addrs[3].Bytes(), w.sign(3, cat(c3HbPrefix, pl))
				} else {
					j.addr = w.addrs[(m+1)%3].Bytes()
				}
			}
			jobs[wk] = append(jobs[wk], j)
		}
	}
	results := make([][]acc, nworkers)
	var mon []string
	monC := make(chan string, 1024)
	done := make(chan struct{})
	obsDone := make(chan struct{})
	snaps := 0
	go func() { // observer: cleanup ticker + readers
		defer close(obsDone)
		for {
			select {
			case <-done:
				return
			default:
			}
			gst.Cleanup()
			for a, row := range gst.GetAll() {
				if len(row) > node_common.MaxNodesPerGuardian {
					select {
					case monC <- fmt.Sprintf("cap: guardian %s has %d heartbeat entries under concurrent calls", a.Hex(), len(row)):
					default:
					}
				}
			}
			snaps++
		}
	}()
	wg := make(chan int, nworkers)
	for wk := 0; wk < nworkers; wk++ {
		go func(wk int) {
			defer func() { wg <- wk }()
			for _, j := range jobs[wk] {
				func() {
					defer func() {
						if rr := recover(); rr != nil {
							select {
							case monC <- fmt.Sprintf("panic in processSignedHeartbeat: %v", rr):
							default:
							}
						}
					}()
					hb, err := processSignedHeartbeat(j.from, &gossipv1.SignedHeartbeat{Heartbeat: j.payload, Signature: j.sig, GuardianAddr: j.addr}, gs, gst, false)
					if err == nil && !j.valid {
						select {
						case monC <- "heartbeat had an effect (accepted under concurrency) although it is not validly signed by a member under the address it claims":
						default:
						}
					}
					if err == nil {
						results[wk] = append(results[wk], acc{j.signer, j.from, hb})
					}
				}()
			}
		}(wk)
	}
	for i := 0; i < nworkers; i++ {
		<-wg
	}
	close(done)
	<-obsDone
	close(monC)
	for m := range monC {
		mon = append(mon, m)
	}
	known := map[*gossipv1.Heartbeat]acc{}
	naccepted := 0
	for _, rs := range results {
		for _, a := range rs {
			known[a.hb] = a
			naccepted++
		}
	}
	entries, maxRow := 0, 0
	for a, row := range gst.GetAll() {
		if len(row) > maxRow {
			maxRow = len(row)
		}
		for p, hb := range row {
			entries++
			k, ok := known[hb]
			if !ok || k.a != a || k.p != p {
				mon = append(mon, fmt.Sprintf("table: entry %s/%x is not a heartbeat an accepted call returned for that signer and peer", a.Hex(), string(p)))
			}
		}
	}
	o.emit(map[string]interface{}{"k": "conc", "workers": nworkers, "calls": nworkers * per, "accepted": naccepted, "entries": entries, "max": maxRow, "snapshots": snaps, "mon": mon})
}
