//go:build verif

package alephium

import (
	"bufio"
	"encoding/json"
	"os"
	"strconv"
	"testing"
)

// C11 harness utilities (identifiers prefixed vc11 so that they cannot clash with the package's own test helpers)

type vc11Rng struct{ s uint64 }

func (r *vc11Rng) next() uint64 {
	r.s += 0x9E3779B97F4A7C15
	z := r.s
	z = (z ^ (z >> 30)) * 0xBF58476D1CE4E5B9
	z = (z ^ (z >> 27)) * 0x94D049BB133111EB
	return z ^ (z >> 31)
}
func (r *vc11Rng) below(n int) int { return int(r.next() % uint64(n)) }
func (r *vc11Rng) bytes(n int) []byte {
	b := make([]byte, n)
	for i := range b {
		b[i] = byte(r.next())
	}
	return b
}

func vc11Seed() uint64 {
	s, _ := strconv.ParseUint(os.Getenv("VERIF_SEED"), 10, 64)
	return s
}
func vc11Thorough() bool { return os.Getenv("VERIF_TIER") == "thorough" }

type vc11Out struct {
	f *os.File
	w *bufio.Writer
	e *json.Encoder
}

func vc11Open(t *testing.T) *vc11Out {
	f, err := os.Create(os.Getenv("VERIF_OUT"))
	if err != nil {
		t.Fatal(err)
	}
	w := bufio.NewWriterSize(f, 1<<20)
	return &vc11Out{f, w, json.NewEncoder(w)}
}
func (o *vc11Out) emit(v interface{}) { o.e.Encode(v) }
func (o *vc11Out) close()             { o.w.Flush(); o.f.Close() }

func TestVerifNothing(t *testing.T) {}
