//go:build verif

package alephium

import (
	"bytes"
	"encoding/hex"
	"fmt"
	"encoding/json"
	"math/big"
	"os"
	"regexp"
	"strconv"
	"strings"
	"testing"

	sdk "github.com/alephium/go-sdk"
)

// ---------------------------------------------------------------------------------------------------------------
// C11: ToWormholeMessage / toMessagePublication / narrowing conversions / hex / contract id <-> address /
// parseAttestToken driven on the boundary list of the property's quantifier.  One JSON line per case; "mon" carries
// the violations of the property statement found by the Go-side monitors (independent of the Coq model).

type vc11Field struct {
	V string `json:"v"` // nil | u256 | bytevec | bool | i256 | address | array
	T string `json:"t"` // hex of the Type string
	S string `json:"s"` // hex of the Value string
}

func vc11hx(s string) string { return hex.EncodeToString([]byte(s)) }
func vc11U(s string) vc11Field {
	return vc11Field{"u256", vc11hx("U256"), vc11hx(s)}
}
func vc11B(hexstr string) vc11Field {
	return vc11Field{"bytevec", vc11hx("ByteVec"), vc11hx(hexstr)}
}

func vc11Val(f vc11Field) sdk.Val {
	tb, _ := hex.DecodeString(f.T)
	sb, _ := hex.DecodeString(f.S)
	t, s := string(tb), string(sb)
	switch f.V {
	case "u256":
		return sdk.Val{ValU256: &sdk.ValU256{Type: t, Value: s}}
	case "bytevec":
		return sdk.Val{ValByteVec: &sdk.ValByteVec{Type: t, Value: s}}
	case "i256":
		return sdk.Val{ValI256: &sdk.ValI256{Type: t, Value: s}}
	case "address":
		return sdk.Val{ValAddress: &sdk.ValAddress{Type: t, Value: s}}
	case "bool":
		return sdk.Val{ValBool: &sdk.ValBool{Type: t, Value: s != ""}}
	case "array":
		return sdk.Val{ValArray: &sdk.ValArray{Type: t}}
	}
	return sdk.Val{}
}

func vc11Code(err error) int {
	if err == nil {
		return 0
	}
	m := err.Error()
	switch {
	case strings.HasPrefix(m, "invalid wormhole message field size"):
		return 1
	case m == "`ValByteVec` is nil":
		return 2
	case strings.HasPrefix(m, "invalid bytevec type"):
		return 3
	case strings.HasPrefix(m, "encoding/hex:"):
		return 4
	case m == "invalid byte32":
		return 5
	case m == "`ValU256` is nil":
		return 6
	case strings.HasPrefix(m, "invalid u256 type"):
		return 7
	case strings.HasPrefix(m, "invalid u256 value"):
		return 8
	case m == "invalid uint8":
		return 9
	case m == "invalid uint16":
		return 10
	case m == "invalid uint64":
		return 11
	case m == "invalid nonce size":
		return 12
	case strings.HasPrefix(m, "invalid hex string"):
		return 13
	case m == "invalid attest token payload length":
		return 14
	case m == "invalid token chain id":
		return 15
	case strings.HasPrefix(m, "invalid contract address"):
		return 16
	}
	return 98
}

// the integer a decimal string denotes, by an independent reading of "optional sign, digits": nil when it denotes none
func vc11Denotes(s string) *big.Int {
	neg := false
	if len(s) > 0 && (s[0] == '-' || s[0] == '+') {
		neg = s[0] == '-'
		s = s[1:]
	}
	if len(s) == 0 {
		return nil
	}
	v := big.NewInt(0)
	ten := big.NewInt(10)
	for i := 0; i < len(s); i++ {
		if s[i] < '0' || s[i] > '9' {
			return nil
		}
		v.Mul(v, ten)
		v.Add(v, big.NewInt(int64(s[i]-'0')))
	}
	if neg {
		v.Neg(v)
	}
	return v
}

// canonical = what a node reports for a U256: no sign, no leading zeros
func vc11Canonical(s string) bool {
	if s == "" || (len(s) > 1 && s[0] == '0') {
		return false
	}
	for i := 0; i < len(s); i++ {
		if s[i] < '0' || s[i] > '9' {
			return false
		}
	}
	return true
}

func vc11InRange(v *big.Int, bits uint) bool {
	return v != nil && v.Sign() >= 0 && v.BitLen() <= int(bits)
}

func vc11Pow2(n uint) *big.Int { return new(big.Int).Lsh(big.NewInt(1), n) }

func vc11NumStrings() []string {
	one := big.NewInt(1)
	l := []string{}
	add := func(v *big.Int) { l = append(l, v.String()) }
	for _, k := range []int64{0, 1, 2, 3, 31, 32, 127, 128, 254, 255, 256, 257, 300, 511, 512, 32767, 32768, 65534, 65535, 65536, 65537, 65791, 131071} {
		add(big.NewInt(k))
	}
	for _, n := range []uint{32, 63, 64, 128, 255, 256} {
		p := vc11Pow2(n)
		add(new(big.Int).Sub(p, one))
		add(p)
		add(new(big.Int).Add(p, one))
	}
	add(new(big.Int).Add(vc11Pow2(64), big.NewInt(255)))
	add(new(big.Int).Add(vc11Pow2(64), big.NewInt(65535)))
	// negative values: a node never reports them for a U256, the decoder must not wrap them
	for _, k := range []int64{-1, -2, -254, -255, -256, -257, -65534, -65535, -65536, -65537} {
		add(big.NewInt(k))
	}
	for _, n := range []uint{63, 64, 256} {
		p := new(big.Int).Neg(vc11Pow2(n))
		add(p)
		add(new(big.Int).Add(p, one))
		add(new(big.Int).Sub(p, one))
	}
	// non-canonical and non-numeric strings
	l = append(l, "", "+", "-", "+5", "+0", "-0", "00", "007", "0255", "000000000000000000000000000000000000000000000000000000000000000000000000000000000001",
		"1e3", "0x10", "0b1", "0o7", " 1", "1 ", "1_000", "_1", "1.0", "1,0", "abc", "12a", "a12", "--1", "-+1", "+-1", "1-", "255\n", "\x00", "1\x001",
		"١٢", "１２", "²", "Infinity", "NaN", "true", strings.Repeat("9", 80), strings.Repeat("9", 400), "-"+strings.Repeat("9", 80))
	return l
}

type vc11Case struct {
	kind   string
	fields []vc11Field
	txid   string
	named  *vc11Named // set for events built in the order the contract emits them (layout extracted from governance.ral)
}

// the values the contract passed to `emit WormholeMessage`, by parameter name
type vc11Named struct {
	sender, nonce, payload []byte
	tc, seq, cl            *big.Int
}

// layout of the contract side, extracted from the Ralph sources by gen/x_attest.py and handed over in VERIF_C11_RAL
type vc11Ral struct {
	Payload   []string       `json:"payload"`
	PayloadID string         `json:"payload_id"`
	Sizes     map[string]int `json:"sizes"`
	Event     []string       `json:"event"`
	Types     []string       `json:"types"`
	Target    int            `json:"target"`
}

var vc11PartRe = regexp.MustCompile(`^u256To(\d+)Byte!\((\w+)\)$`)

// the attestation payload as token_bridge.ral attestToken concatenates it
func (l *vc11Ral) attestPayload(id []byte, chain uint64, dec uint64, sym, name []byte) []byte {
	p := []byte{}
	for _, part := range l.Payload {
		if part == "PayloadId.AttestToken" {
			b, _ := hex.DecodeString(l.PayloadID)
			p = append(p, b...)
		} else if m := vc11PartRe.FindStringSubmatch(part); m != nil {
			n, _ := strconv.Atoi(m[1])
			v := map[string]uint64{"localChainId": chain, "decimals": dec}[m[2]]
			b := make([]byte, n)
			for i := n - 1; i >= 0; i-- {
				b[i] = byte(v)
				v >>= 8
			}
			p = append(p, b...)
		} else {
			p = append(p, map[string][]byte{"localTokenId": id, "symbol": sym, "name": name}[part]...)
		}
	}
	return p
}

// the event as a node reports it: one field per emit argument, in the emit's order
func (l *vc11Ral) event(n *vc11Named) []vc11Field {
	fs := []vc11Field{}
	for _, nm := range l.Event {
		switch nm {
		case "sender":
			fs = append(fs, vc11B(hex.EncodeToString(n.sender)))
		case "nonce":
			fs = append(fs, vc11B(hex.EncodeToString(n.nonce)))
		case "payload":
			fs = append(fs, vc11B(hex.EncodeToString(n.payload)))
		case "targetChainId":
			fs = append(fs, vc11U(n.tc.String()))
		case "sequence":
			fs = append(fs, vc11U(n.seq.String()))
		case "consistencyLevel":
			fs = append(fs, vc11U(n.cl.String()))
		}
	}
	return fs
}

func vc11Recover(f func()) (p string) {
	defer func() {
		if r := recover(); r != nil {
			p = fmt.Sprint(r)
		}
	}()
	f()
	return ""
}

var vc11Timestamps = []int64{0, 1, 999, 1000, 1001, 1999, 1663000000123, 1663000000999, 2147483647999, 2147483648000, 4294967295999, 4294967296000,
	4294967296001, 9007199254740993, 9223372036854775807, -1, -999, -1000, -1001, -1663000000123}

// one ToWormholeMessage case: run, observe, monitor
func vc11RunWM(o *vc11Out, id int, c vc11Case) map[string]interface{} {
	fields := make([]sdk.Val, len(c.fields))
	for i, f := range c.fields {
		fields[i] = vc11Val(f)
	}
	var msg *WormholeMessage
	var err error
	pn := vc11Recover(func() { msg, err = ToWormholeMessage(fields, c.txid) })
	row := map[string]interface{}{"k": "wm", "id": id, "kind": c.kind, "fields": c.fields, "txid": vc11hx(c.txid)}
	mon := []string{}
	code := vc11Code(err)
	if pn != "" {
		code = 99
		mon = append(mon, "ToWormholeMessage panicked: "+pn)
	}
	row["code"] = code
	// what the event denotes, read independently of the implementation
	var sender, nonce, payload []byte
	var tc, seq, cl *big.Int
	wellTyped := len(c.fields) == 6
	if wellTyped {
		for i, f := range c.fields {
			isNum := i == 1 || i == 2 || i == 5
			if (isNum && (f.V != "u256" || f.T != vc11hx("U256"))) || (!isNum && (f.V != "bytevec" || f.T != vc11hx("ByteVec"))) {
				wellTyped = false
			}
		}
	}
	fits := false
	canonical := false
	if wellTyped {
		str := func(i int) string { b, _ := hex.DecodeString(c.fields[i].S); return string(b) }
		var e0, e3, e4 error
		sender, e0 = hex.DecodeString(str(0))
		nonce, e3 = hex.DecodeString(str(3))
		payload, e4 = hex.DecodeString(str(4))
		tc, seq, cl = vc11Denotes(str(1)), vc11Denotes(str(2)), vc11Denotes(str(5))
		fits = e0 == nil && e3 == nil && e4 == nil && len(sender) == 32 && len(nonce) == 4 &&
			vc11InRange(tc, 16) && vc11InRange(seq, 64) && vc11InRange(cl, 8)
		canonical = vc11Canonical(str(1)) && vc11Canonical(str(2)) && vc11Canonical(str(5))
	}
	row["fits"] = fits
	if pn == "" {
		if err == nil && !fits {
			mon = append(mon, "event whose values do not fit was accepted (wrapped or truncated) instead of rejected")
		}
		if err != nil && fits && canonical {
			mon = append(mon, "event whose values fit the VAA format was rejected: "+err.Error())
		}
	}
	if c.named != nil && pn == "" {
		n := c.named
		if err != nil {
			mon = append(mon, "event in the order the contract emits it was rejected: "+err.Error())
		} else if !bytes.Equal(msg.senderId[:], n.sender) || big.NewInt(int64(msg.targetChainId)).Cmp(n.tc) != 0 ||
			new(big.Int).SetUint64(msg.Sequence).Cmp(n.seq) != 0 || new(big.Int).SetBytes(n.nonce).Cmp(big.NewInt(int64(msg.nonce))) != 0 ||
			!bytes.Equal(msg.payload, n.payload) || big.NewInt(int64(msg.consistencyLevel)).Cmp(n.cl) != 0 {
			mon = append(mon, fmt.Sprintf("event emitted by the contract with targetChainId=%s sequence=%s consistencyLevel=%s nonce=%x was decoded to target chain %d, sequence %d, consistency level %d, nonce %08x (or another sender / payload)",
				n.tc, n.seq, n.cl, n.nonce, msg.targetChainId, msg.Sequence, msg.consistencyLevel, msg.nonce))
		}
	}
	if pn == "" && err == nil && msg != nil {
		row["sender"] = hex.EncodeToString(msg.senderId[:])
		row["tc"] = msg.targetChainId
		row["seq"] = msg.Sequence
		row["nonce"] = msg.nonce
		row["payload"] = hex.EncodeToString(msg.payload)
		row["cl"] = msg.consistencyLevel
		row["wtx"] = vc11hx(msg.txId)
		if fits {
			if !bytes.Equal(msg.senderId[:], sender) {
				mon = append(mon, "decoded sender differs from the event's sender")
			}
			if big.NewInt(int64(msg.targetChainId)).Cmp(tc) != 0 {
				mon = append(mon, fmt.Sprintf("decoded target chain %d differs from the event's value %s", msg.targetChainId, tc))
			}
			if new(big.Int).SetUint64(msg.Sequence).Cmp(seq) != 0 {
				mon = append(mon, fmt.Sprintf("decoded sequence %d differs from the event's value %s", msg.Sequence, seq))
			}
			if big.NewInt(int64(msg.consistencyLevel)).Cmp(cl) != 0 {
				mon = append(mon, fmt.Sprintf("decoded consistency level %d differs from the event's value %s", msg.consistencyLevel, cl))
			}
			if new(big.Int).SetBytes(nonce).Cmp(big.NewInt(int64(msg.nonce))) != 0 {
				mon = append(mon, "decoded nonce differs from the event's nonce")
			}
			if !bytes.Equal(msg.payload, payload) {
				mon = append(mon, "decoded payload differs from the event's payload")
			}
		}
		// toMessagePublication on the boundary timestamps
		mps := []map[string]interface{}{}
		for _, ms := range vc11Timestamps {
			h := &sdk.BlockHeaderEntry{Timestamp: ms}
			var secs int64
			var nsec int
			var mp map[string]interface{}
			pn2 := vc11Recover(func() {
				p := msg.toMessagePublication(h)
				secs, nsec = p.Timestamp.Unix(), p.Timestamp.Nanosecond()
				mp = map[string]interface{}{"ms": ms, "secs": secs, "nsec": nsec, "txhash": hex.EncodeToString(p.TxHash[:]),
					"echain": uint16(p.EmitterChain), "tchain": uint16(p.TargetChain), "eaddr": hex.EncodeToString(p.EmitterAddress[:]),
					"seq": p.Sequence, "cl": p.ConsistencyLevel, "nonce": p.Nonce, "payload": hex.EncodeToString(p.Payload)}
				if uint16(p.EmitterChain) != 255 {
					mon = append(mon, fmt.Sprintf("message publication carries emitter chain %d, not the Alephium chain id 255", uint16(p.EmitterChain)))
				}
				if ms >= 0 && (p.Timestamp.UnixMilli() != ms || nsec%1000000 != 0) {
					mon = append(mon, fmt.Sprintf("message timestamp %d.%09d is not the block timestamp %d ms", secs, nsec, ms))
				}
				if uint16(p.TargetChain) != msg.targetChainId || p.Sequence != msg.Sequence || p.ConsistencyLevel != msg.consistencyLevel ||
					p.Nonce != msg.nonce || !bytes.Equal(p.Payload, msg.payload) || !bytes.Equal(p.EmitterAddress[:], msg.senderId[:]) {
					mon = append(mon, "message publication does not carry the decoded message's values")
				}
			})
			if pn2 != "" {
				mon = append(mon, "toMessagePublication panicked: "+pn2)
				continue
			}
			mps = append(mps, mp)
		}
		row["mp"] = mps
	}
	row["mon"] = mon
	o.emit(row)
	return row
}

func vc11Event(sender string, tc string, seq string, nonce string, payload string, cl string) []vc11Field {
	return []vc11Field{vc11B(sender), vc11U(tc), vc11U(seq), vc11B(nonce), vc11B(payload), vc11U(cl)}
}

func vc11Pad32(s []byte) []byte {
	if len(s) >= 32 {
		return s
	}
	return append(make([]byte, 32-len(s)), s...)
}

func TestVerifC11(t *testing.T) {
	r := &vc11Rng{s: vc11Seed()}
	o := vc11Open(t)
	defer o.close()
	id := 0
	wm := func(kind string, fields []vc11Field, txid string) {
		vc11RunWM(o, id, vc11Case{kind, fields, txid, nil})
		id++
	}
	goodSender := "deae14cf3bcfaea1f8f7e905fd8b554833d1bccaa8a9a1dd01f29fea6c7bca07"
	goodTx := "9fb80859f87d9d56a118624a12258e7dd471a0a474490807986d9b0bb7f576ab"
	goodPayload := "029fb80859f87d9d56a118624a12258e7dd471a0a474490807986d9b0bb7f576ab00ff0800000000000000000000000000000000000000000000746573742d746f6b656e00000000000000000000000000000000000000000000746573742d746f6b656e"
	nums := vc11NumStrings()
	// 1. each numeric field over the whole boundary / malformed list, the others valid
	for _, s := range nums {
		wm("tc", vc11Event(goodSender, s, "100", "12e551d9", goodPayload, "1"), goodTx)
		wm("seq", vc11Event(goodSender, "2", s, "12e551d9", goodPayload, "1"), goodTx)
		wm("cl", vc11Event(goodSender, "2", "100", "12e551d9", goodPayload, s), goodTx)
	}
	// 2. byte-vector fields
	hexes := []string{"", "00", "0", "000", "zz", "0g", "g0", "0x00", "DEADBEEF", "DeAdBeEf", "deadbee", "deadbeef0", "dead beef", "deadbeef\n"}
	for _, n := range []int{0, 1, 3, 4, 5, 31, 32, 33, 64, 100, 133, 1000} {
		hexes = append(hexes, hex.EncodeToString(r.bytes(n)), strings.ToUpper(hex.EncodeToString(r.bytes(n))))
	}
	for _, h := range hexes {
		wm("sender", vc11Event(h, "2", "100", "12e551d9", goodPayload, "1"), goodTx)
		wm("nonce", vc11Event(goodSender, "2", "100", h, goodPayload, "1"), goodTx)
		wm("payload", vc11Event(goodSender, "2", "100", "12e551d9", h, "1"), goodTx)
	}
	// 3. wrong variants / type strings in every position
	variants := []vc11Field{{"nil", "", ""}, {"bool", vc11hx("Bool"), "01"}, {"i256", vc11hx("I256"), vc11hx("5")}, {"address", vc11hx("Address"), vc11hx("14PqtYSSbwpUi2RJKUvv9yUwGafd6yHbEcke7ionuiE7w")},
		{"array", vc11hx("Array"), ""}, {"u256", vc11hx("U256"), vc11hx("5")}, {"bytevec", vc11hx("ByteVec"), vc11hx("05")}, {"bytevec", vc11hx("ByteVec"), vc11hx(goodSender)},
		{"bytevec", vc11hx("ByteVec"), vc11hx("00000005")}, {"u256", vc11hx("u256"), vc11hx("5")}, {"u256", vc11hx("I256"), vc11hx("5")}, {"u256", "", vc11hx("5")},
		{"bytevec", vc11hx("Bytevec"), vc11hx("00000005")}, {"bytevec", vc11hx("U256"), vc11hx("05")}, {"u256", vc11hx("ByteVec"), vc11hx("5")}}
	for pos := 0; pos < 6; pos++ {
		for _, v := range variants {
			f := vc11Event(goodSender, "2", "100", "12e551d9", goodPayload, "1")
			f[pos] = v
			wm("variant", f, goodTx)
		}
	}
	// 4. field counts
	base := vc11Event(goodSender, "2", "100", "12e551d9", goodPayload, "1")
	wm("count", []vc11Field{}, goodTx)
	for n := 1; n <= 5; n++ {
		wm("count", base[:n], goodTx)
	}
	wm("count", append(append([]vc11Field{}, base...), vc11U("1")), goodTx)
	wm("count", append(append([]vc11Field{}, base...), base...), goodTx)
	wm("count", base[1:], goodTx)
	// swapped positions (sequence <-> target chain, nonce <-> payload)
	wm("order", vc11Event(goodSender, "100000", "2", "12e551d9", goodPayload, "1"), goodTx)
	wm("order", vc11Event(goodSender, "2", "100", goodPayload, "12e551d9", "1"), goodTx)
	wm("order", vc11Event(goodSender, "2", "1", "12e551d9", goodPayload, "100000"), goodTx)
	// 5. transaction ids
	for _, tx := range []string{"", "0", "0x", "0X1", "abcd", "ABCD", "0xabcd", "abc", "zz", "abzz", "12zz34", goodTx, "0x" + goodTx, "0X" + goodTx, goodTx + "ff", goodTx[:63], goodTx + "f",
		strings.ToUpper(goodTx), goodTx[:32] + "g" + goodTx[33:], "ff" + goodTx + "ee"} {
		wm("txid", base, tx)
	}
	// 6. all-boundary combinations of the three numeric fields at the edges of their ranges
	edges := map[int][]string{1: {"0", "65535", "65536"}, 2: {"0", "18446744073709551615", "18446744073709551616"}, 5: {"0", "255", "256"}}
	for _, a := range edges[1] {
		for _, b := range edges[2] {
			for _, c := range edges[5] {
				wm("edges", vc11Event(goodSender, a, b, "ffffffff", "00", c), goodTx)
			}
		}
	}
	// 7. seeded random events, in and out of range
	n := 400
	if vc11Thorough() {
		n = 6000
	}
	pick := func(bits uint) string {
		switch r.below(8) {
		case 0:
			return nums[r.below(len(nums))]
		case 1:
			v := new(big.Int).SetBytes(r.bytes(int(bits/8) + 1 + r.below(3)))
			return v.String()
		case 2:
			v := new(big.Int).Sub(vc11Pow2(bits), big.NewInt(int64(r.below(3))))
			return v.String()
		case 3:
			return "-" + new(big.Int).SetBytes(r.bytes(1+r.below(9))).String()
		default:
			v := new(big.Int).SetBytes(r.bytes(int(bits / 8)))
			if r.below(3) == 0 {
				v.Rsh(v, uint(r.below(int(bits))))
			}
			return v.String()
		}
	}
	for i := 0; i < n; i++ {
		sl, nl := 32, 4
		if r.below(12) == 0 {
			sl = []int{0, 31, 33}[r.below(3)]
		}
		if r.below(12) == 0 {
			nl = []int{0, 3, 5, 8}[r.below(4)]
		}
		pl := []int{0, 1, 2, 100, 133, 300}[r.below(6)]
		tx := hex.EncodeToString(r.bytes(32))
		wm("random", vc11Event(hex.EncodeToString(r.bytes(sl)), pick(16), pick(64), hex.EncodeToString(r.bytes(nl)), hex.EncodeToString(r.bytes(pl)), pick(8)), tx)
	}

	// ------------------------------------------------------------------ the conversions called directly
	for _, s := range nums {
		f := vc11Val(vc11U(s))
		row := map[string]interface{}{"k": "num", "s": vc11hx(s)}
		mon := []string{}
		den := vc11Denotes(s)
		type res struct {
			name string
			bits uint
			code int
			val  string
		}
		out := []res{}
		run := func(name string, bits uint, f func() (*big.Int, error)) {
			var v *big.Int
			var err error
			pn := vc11Recover(func() { v, err = f() })
			rs := res{name: name, bits: bits, code: vc11Code(err)}
			if pn != "" {
				rs.code = 99
				mon = append(mon, name+" panicked: "+pn)
			} else if err == nil {
				rs.val = v.String()
				if bits > 0 {
					if !vc11InRange(den, bits) {
						mon = append(mon, fmt.Sprintf("%s(%q) = %s: a value outside 0..2^%d-1 was accepted (wrapped) instead of rejected", name, s, v, bits))
					} else if v.Cmp(den) != 0 {
						mon = append(mon, fmt.Sprintf("%s(%q) = %s: differs from the value the string denotes", name, s, v))
					}
				} else if den == nil || v.Cmp(den) != 0 {
					mon = append(mon, fmt.Sprintf("%s(%q) = %s: differs from the value the string denotes", name, s, v))
				}
			} else if bits > 0 && vc11InRange(den, bits) && vc11Canonical(s) {
				mon = append(mon, fmt.Sprintf("%s(%q) rejected although the value fits %d bits: %v", name, s, bits, err))
			} else if bits == 0 && vc11Canonical(s) {
				mon = append(mon, fmt.Sprintf("%s(%q) rejected: %v", name, s, err))
			}
			out = append(out, rs)
		}
		run("toU256", 0, func() (*big.Int, error) { return toU256(f) })
		run("toUint8", 8, func() (*big.Int, error) {
			v, e := toUint8(f)
			if e != nil {
				return nil, e
			}
			return big.NewInt(int64(*v)), nil
		})
		run("toUint16", 16, func() (*big.Int, error) {
			v, e := toUint16(f)
			if e != nil {
				return nil, e
			}
			return big.NewInt(int64(*v)), nil
		})
		run("toUint64", 64, func() (*big.Int, error) {
			v, e := toUint64(f)
			if e != nil {
				return nil, e
			}
			return new(big.Int).SetUint64(*v), nil
		})
		for _, rs := range out {
			row[rs.name] = map[string]interface{}{"code": rs.code, "val": rs.val}
		}
		row["mon"] = mon
		o.emit(row)
	}

	// ------------------------------------------------------------------ hex <-> Byte32
	hex32 := []string{goodSender, strings.ToUpper(goodSender), goodSender[:62], goodSender + "00", goodSender[:63], goodSender + "0", "0x" + goodSender[:62], "0x" + goodSender,
		goodSender[:20] + "G" + goodSender[21:], goodSender[:63] + "g", "g" + goodSender[1:], goodSender[:63] + " ", "", strings.Repeat("0", 64), strings.Repeat("f", 64), strings.Repeat("F", 64),
		strings.Repeat("aB", 32), goodSender[:31] + "é" + goodSender[33:]}
	for i := 0; i < 40; i++ {
		hex32 = append(hex32, hex.EncodeToString(r.bytes(32)))
	}
	for _, s := range hex32 {
		var b Byte32
		var err error
		mon := []string{}
		pn := vc11Recover(func() { b, err = HexToByte32(s) })
		row := map[string]interface{}{"k": "hex32", "s": vc11hx(s), "code": vc11Code(err)}
		if pn != "" {
			row["code"] = 99
			mon = append(mon, "HexToByte32 panicked: "+pn)
		} else if err == nil {
			row["out"] = hex.EncodeToString(b[:])
			back := b.ToHex()
			row["back"] = vc11hx(back)
			if back != strings.ToLower(s) {
				mon = append(mon, "ToHex(HexToByte32(s)) differs from s (up to case)")
			}
			b2, err2 := HexToByte32(back)
			if err2 != nil || b2 != b {
				mon = append(mon, "HexToByte32(ToHex(b)) differs from b")
			}
		} else if want, e := hex.DecodeString(s); e == nil && len(want) == 32 {
			mon = append(mon, "HexToByte32 rejected a 64-digit hex string")
		}
		row["mon"] = mon
		o.emit(row)
	}

	// ------------------------------------------------------------------ contract id <-> address
	ids := [][]byte{make([]byte, 32), bytes.Repeat([]byte{0xff}, 32), append(make([]byte, 31), 1), append([]byte{1}, make([]byte, 31)...), append(make([]byte, 16), bytes.Repeat([]byte{0xab}, 16)...)}
	for i := 0; i < 60; i++ {
		b := r.bytes(32)
		if i%5 == 0 {
			for j := 0; j < 1+r.below(20); j++ {
				b[j] = 0
			}
		}
		ids = append(ids, b)
	}
	addrs := []string{"", "1", "1111", strings.Repeat("1", 33), strings.Repeat("1", 32), strings.Repeat("1", 34), "14PqtYSSbwpUi2RJKUvv9yUwGafd6yHbEcke7ionuiE7w", "0", "O", "I", "l",
		"2AD2P1iBwoGc9Ln2MGBj6uuL1tPiGN8wzhcpYAJq8yBr0", "2AD2P1iBwoGc9Ln2MGBj6uuL1tPiGN8wzhcpYAJq8yBr ", "zzzzzzzzzzzzzzzzzzzzzzzzzzzzzzzzzzzzzzzzzzzzz", "zzzzzzzzzzzzzzzzzzzzzzzzzzzzzzzzzzzzzzzzzzzzzz",
		"2", "z", "211111111111111111111111111111111111111111111", "JxF12TrwUP45BMd", strings.Repeat("z", 100)}
	for _, idb := range ids {
		h := hex.EncodeToString(idb)
		var a *string
		var err error
		mon := []string{}
		pn := vc11Recover(func() { a, err = ToContractAddress(h) })
		row := map[string]interface{}{"k": "toaddr", "s": vc11hx(h), "code": vc11Code(err)}
		if pn != "" {
			row["code"] = 99
			mon = append(mon, "ToContractAddress panicked: "+pn)
		} else if err != nil {
			mon = append(mon, "ToContractAddress rejected a 32-byte contract id: "+err.Error())
		} else {
			row["out"] = vc11hx(*a)
			addrs = append(addrs, *a)
			back, err2 := ToContractId(*a)
			if err2 != nil || !bytes.Equal(back[:], idb) {
				mon = append(mon, "ToContractId(ToContractAddress(id)) differs from id")
			}
		}
		row["mon"] = mon
		o.emit(row)
	}
	for _, h := range []string{"", "00", goodSender[:62], goodSender + "00", goodSender[:63] + "g", strings.ToUpper(goodSender), "0x" + goodSender[:62]} {
		var a *string
		var err error
		pn := vc11Recover(func() { a, err = ToContractAddress(h) })
		row := map[string]interface{}{"k": "toaddr", "s": vc11hx(h), "code": vc11Code(err), "mon": []string{}}
		if pn != "" {
			row["code"] = 99
			row["mon"] = []string{"ToContractAddress panicked: " + pn}
		} else if err == nil {
			row["out"] = vc11hx(*a)
		}
		o.emit(row)
	}
	// addresses with another type byte (the id is still the last 32 bytes) and other lengths
	for _, pre := range [][]byte{{0}, {1}, {2}, {4}, {0xff}, {}, {3, 3}} {
		addrs = append(addrs, vc11B58(append(append([]byte{}, pre...), r.bytes(32)...)))
	}
	for _, a := range addrs {
		var idv Byte32
		var err error
		mon := []string{}
		pn := vc11Recover(func() { idv, err = ToContractId(a) })
		row := map[string]interface{}{"k": "toid", "s": vc11hx(a), "code": vc11Code(err)}
		if pn != "" {
			row["code"] = 99
			mon = append(mon, "ToContractId panicked: "+pn)
		} else if err == nil {
			row["out"] = hex.EncodeToString(idv[:])
			back, err2 := ToContractAddress(idv.ToHex())
			dec := vc11B58Dec(a)
			if len(dec) == 33 && dec[0] == 3 && (err2 != nil || *back != a) {
				mon = append(mon, "ToContractAddress(ToContractId(a)) differs from the contract address a")
			}
		}
		row["mon"] = mon
		o.emit(row)
	}
	// non-ASCII addresses: recorded, not compared with the model (base58.Decode indexes its table by rune)
	for _, a := range []string{"é", "2AD2é", "2AD2Ā", "2AD2\xff"} {
		var err error
		pn := vc11Recover(func() { _, err = ToContractId(a) })
		o.emit(map[string]interface{}{"k": "toid_nonascii", "s": vc11hx(a), "code": vc11Code(err), "panic": pn, "mon": []string{}})
	}

	// ------------------------------------------------------------------ attestation payloads
	type att struct {
		kind        string
		pid         byte
		id          []byte
		chain       []byte
		dec         byte
		sym, name   []byte
		contractish bool
	}
	atts := []att{}
	names := [][]byte{{}, []byte("ALPH"), []byte("Alephium"), []byte("test-token"), []byte("TestToken-0"), bytes.Repeat([]byte("x"), 32), bytes.Repeat([]byte("y"), 31), []byte("a b"), []byte("/@!#$%^&*()=+"), {0xff, 0xfe}, []byte("été")}
	for i, nm := range names {
		for _, d := range []byte{0, 8, 18, 255} {
			atts = append(atts, att{"contract", 2, r.bytes(32), []byte{0, 255}, d, vc11Pad32(names[(i+3)%len(names)]), vc11Pad32(nm), true})
		}
	}
	// the all-zero (native ALPH) token id: attestToken takes decimals / symbol / name from its caller for this id as for any other,
	// so the payload must decode to what was encoded - canonical (18, ALPH, Alephium) or not
	zeroId := make([]byte, 32)
	for _, d := range []byte{0, 8, 18, 255} {
		for _, sn := range [][2]string{{"ALPH", "Alephium"}, {"FAKE", "Alephium"}, {"ALPH", "Fake Coin"}, {"", ""}, {"alph", "alephium"}} {
			atts = append(atts, att{"contract-native-id", 2, zeroId, []byte{0, 255}, d, vc11Pad32([]byte(sn[0])), vc11Pad32([]byte(sn[1])), true})
		}
	}
	// padding on the right (the EVM bytes32 convention) or on both sides: attestToken only asserts 32 bytes, where the caller puts the
	// zeros is not constrained; the symbol / name the contract encoded is the text without that padding
	for i, nm := range [][]byte{[]byte("USDT"), []byte("Tether USD"), []byte("a b"), bytes.Repeat([]byte("z"), 31)} {
		right := append(append([]byte{}, nm...), make([]byte, 32-len(nm))...)
		both := append(make([]byte, (32-len(nm))/2), append(append([]byte{}, nm...), make([]byte, 32-len(nm)-(32-len(nm))/2)...)...)
		atts = append(atts, att{"contract-right-padded", 2, r.bytes(32), []byte{0, 255}, byte(6 + i), right, vc11Pad32(nm), true})
		atts = append(atts, att{"contract-right-padded", 2, r.bytes(32), []byte{0, 255}, byte(6 + i), vc11Pad32(nm), right, true})
		atts = append(atts, att{"contract-padded-on-both-sides", 2, r.bytes(32), []byte{0, 255}, byte(6 + i), both, both, true})
	}
	inner := [][]byte{append([]byte("ab"), make([]byte, 30)...), append(append(make([]byte, 10), []byte("a\x00b")...), make([]byte, 19)...), make([]byte, 32), append([]byte{0}, bytes.Repeat([]byte("q"), 31)...),
		append(bytes.Repeat([]byte("q"), 31), 0), append(append(make([]byte, 5), []byte("mid")...), make([]byte, 24)...)}
	for _, s := range inner {
		atts = append(atts, att{"nul-placement", 2, r.bytes(32), []byte{0, 255}, 18, s, s, false})
	}
	for _, ch := range [][]byte{{0, 0}, {0, 2}, {255, 0}, {1, 255}, {255, 255}, {0, 254}} {
		atts = append(atts, att{"chain", 2, r.bytes(32), ch, 18, vc11Pad32([]byte("S")), vc11Pad32([]byte("N")), false})
	}
	for _, p := range []byte{0, 1, 3, 255} {
		atts = append(atts, att{"payload-id", p, r.bytes(32), []byte{0, 255}, 18, vc11Pad32([]byte("S")), vc11Pad32([]byte("N")), false})
	}
	emitAtt := func(kind string, payload []byte, a *att) {
		var ti *TokenInfo
		var err error
		mon := []string{}
		pn := vc11Recover(func() { ti, err = parseAttestToken(payload) })
		row := map[string]interface{}{"k": "attest", "kind": kind, "in": hex.EncodeToString(payload), "code": vc11Code(err)}
		if pn != "" {
			row["code"] = 99
			mon = append(mon, "parseAttestToken panicked: "+pn)
		} else if err == nil {
			row["id"] = hex.EncodeToString(ti.TokenId[:])
			row["dec"] = ti.Decimals
			row["sym"] = vc11hx(ti.Symbol)
			row["name"] = vc11hx(ti.Name)
			if a != nil && a.contractish {
				if !bytes.Equal(ti.TokenId[:], a.id) || ti.Decimals != a.dec || ti.Symbol != string(bytes.Trim(a.sym, "\x00")) || ti.Name != string(bytes.Trim(a.name, "\x00")) {
					mon = append(mon, "attestation payload decodes to other values than the contract encoded")
				}
			}
		} else if a != nil && a.contractish {
			mon = append(mon, "attestation payload built as the contract builds it was rejected: "+err.Error())
		}
		row["mon"] = mon
		o.emit(row)
	}
	for i := range atts {
		a := &atts[i]
		p := append([]byte{a.pid}, a.id...)
		p = append(p, a.chain...)
		p = append(p, a.dec)
		p = append(p, a.sym...)
		p = append(p, a.name...)
		emitAtt(a.kind, p, a)
	}
	good, _ := hex.DecodeString(goodPayload)
	for _, l := range []int{0, 1, 35, 36, 99, 101, 133, 200} {
		p := make([]byte, l)
		copy(p, good)
		if l > 100 {
			copy(p[100:], r.bytes(l-100))
		}
		emitAtt("length", p, nil)
	}
	for i := 0; i < 30; i++ {
		p := r.bytes(100)
		if i%2 == 0 {
			p[33], p[34] = 0, 255
		}
		emitAtt("random", p, nil)
	}

	// ------------------------------------------------------------------ the contract side as extracted from the Ralph sources
	if js := os.Getenv("VERIF_C11_RAL"); js != "" {
		var l vc11Ral
		if err := json.Unmarshal([]byte(js), &l); err != nil {
			t.Fatal("VERIF_C11_RAL: ", err)
		}
		padTo := func(b []byte, n int) []byte {
			if len(b) >= n {
				return b[:n]
			}
			return append(make([]byte, n-len(b)), b...)
		}
		nRal := 12
		if vc11Thorough() {
			nRal = 200
		}
		for i := 0; i < nRal; i++ {
			idb := r.bytes(l.Sizes["localTokenId"])
			if i%6 == 5 {
				idb = make([]byte, l.Sizes["localTokenId"]) // the native token id
			}
			dec := []uint64{0, 8, 18, 255}[i%4]
			sym := padTo(names[1+i%8], l.Sizes["symbol"])
			nm := padTo(names[1+(i+3)%8], l.Sizes["name"])
			p := l.attestPayload(idb, 255, dec, sym, nm)
			a := &att{"ral-contract", 2, idb, []byte{0, 255}, byte(dec), sym, nm, true}
			emitAtt("ral-contract", p, a)
			// the event attestToken publishes: (payer, <target>, nextSendSequence(), nonce, payload, consistencyLevel)
			cl := []int64{0, 1, 10, 105, 255}[i%5]
			seq := new(big.Int).SetUint64(r.next() >> uint(r.below(64)))
			nd := &vc11Named{sender: r.bytes(32), nonce: r.bytes(l.Sizes["nonce"]), payload: p, tc: big.NewInt(int64(l.Target)), seq: seq, cl: big.NewInt(cl)}
			vc11RunWM(o, id, vc11Case{"ral-event", l.event(nd), hex.EncodeToString(r.bytes(32)), nd})
			id++
			// a transfer-like event to another chain (publishWormholeMessage is also called with toChainId)
			nd2 := &vc11Named{sender: r.bytes(32), nonce: r.bytes(l.Sizes["nonce"]), payload: r.bytes(133), tc: big.NewInt(int64(1 + r.below(65535))), seq: big.NewInt(int64(i)), cl: big.NewInt(cl)}
			vc11RunWM(o, id, vc11Case{"ral-event", l.event(nd2), hex.EncodeToString(r.bytes(32)), nd2})
			id++
		}
	}

	// ------------------------------------------------------------------ bytesToString
	trims := [][]byte{{}, {0}, {0, 0, 0}, []byte("abc"), append([]byte{0, 0}, []byte("abc")...), append([]byte("abc"), 0, 0), append(append([]byte{0}, []byte("a\x00\x00b")...), 0), {0, 1, 0}, {0xff, 0, 0xfe}, vc11Pad32([]byte("Token 2"))}
	for _, b := range trims {
		var s string
		pn := vc11Recover(func() { s = bytesToString(b) })
		mon := []string{}
		if pn != "" {
			mon = append(mon, "bytesToString panicked: "+pn)
		}
		o.emit(map[string]interface{}{"k": "trim", "in": hex.EncodeToString(b), "out": vc11hx(s), "mon": mon})
	}
}

// independent base-58 (bitcoin alphabet) used by the monitors and to build addresses with other type bytes
const vc11Alphabet = "123456789ABCDEFGHJKLMNPQRSTUVWXYZabcdefghijkmnopqrstuvwxyz"

func vc11B58(b []byte) string {
	x := new(big.Int).SetBytes(b)
	out := []byte{}
	m := new(big.Int)
	k := big.NewInt(58)
	for x.Sign() > 0 {
		x.DivMod(x, k, m)
		out = append([]byte{vc11Alphabet[m.Int64()]}, out...)
	}
	for _, c := range b {
		if c != 0 {
			break
		}
		out = append([]byte{'1'}, out...)
	}
	return string(out)
}

func vc11B58Dec(s string) []byte {
	x := big.NewInt(0)
	k := big.NewInt(58)
	for i := 0; i < len(s); i++ {
		d := strings.IndexByte(vc11Alphabet, s[i])
		if d < 0 {
			return nil
		}
		x.Mul(x, k)
		x.Add(x, big.NewInt(int64(d)))
	}
	z := 0
	for z < len(s) && s[z] == '1' {
		z++
	}
	return append(make([]byte, z), x.Bytes()...)
}
