//go:build verif

package guardiansets

// A tiny Ethereum JSON-RPC node (HTTP) that answers the two eth_call's the explorer makes against the governance
// contract: getCurrentGuardianSetIndex() and getGuardianSet(uint32).  Like the real contract it answers an unknown
// index with an empty key list (a Solidity mapping has no "missing" entries).
import (
	"encoding/hex"
	"encoding/json"
	"io"
	"net"
	"net/http"
	"strings"
	"sync"

	nodeabi "github.com/alephium/wormhole-fork/node/pkg/ethereum/abi"
	ethabi "github.com/ethereum/go-ethereum/accounts/abi"
	eth_common "github.com/ethereum/go-ethereum/common"
)

type verifEthSim struct {
	mu      sync.Mutex
	sets    [][]eth_common.Address // chain truth: set i = sets[i]
	fail    bool                   // every eth_call fails with a JSON-RPC error
	failIdx map[uint32]int         // getGuardianSet(i) fails this many more times (a transient fault on ONE set of a range)
	calls   int
	abi     ethabi.ABI
	srv     *http.Server
	url     string
	queries []uint32 // indices asked through getGuardianSet
}

func newVerifEthSim() (*verifEthSim, error) {
	parsed, err := ethabi.JSON(strings.NewReader(nodeabi.AbiABI))
	if err != nil {
		return nil, err
	}
	s := &verifEthSim{abi: parsed}
	ln, err := net.Listen("tcp", "127.0.0.1:0")
	if err != nil {
		return nil, err
	}
	s.url = "http://" + ln.Addr().String()
	s.srv = &http.Server{Handler: http.HandlerFunc(s.handle)}
	go s.srv.Serve(ln)
	return s, nil
}

func (s *verifEthSim) close() { s.srv.Close() }

func (s *verifEthSim) set(sets [][]eth_common.Address, fail bool) {
	s.mu.Lock()
	defer s.mu.Unlock()
	s.sets = sets
	s.fail = fail
	s.queries = nil
}

type verifRPCReq struct {
	ID     json.RawMessage   `json:"id"`
	Method string            `json:"method"`
	Params []json.RawMessage `json:"params"`
}

func (s *verifEthSim) handle(w http.ResponseWriter, r *http.Request) {
	body, _ := io.ReadAll(r.Body)
	var req verifRPCReq
	if err := json.Unmarshal(body, &req); err != nil {
		http.Error(w, "bad request", 400)
		return
	}
	reply := func(result interface{}, errMsg string) {
		out := map[string]interface{}{"jsonrpc": "2.0", "id": req.ID}
		if errMsg != "" {
			out["error"] = map[string]interface{}{"code": -32000, "message": errMsg}
		} else {
			out["result"] = result
		}
		w.Header().Set("Content-Type", "application/json")
		json.NewEncoder(w).Encode(out)
	}
	s.mu.Lock()
	defer s.mu.Unlock()
	s.calls++
	switch req.Method {
	case "eth_chainId":
		reply("0x1", "")
	case "eth_getCode":
		reply("0x60", "")
	case "eth_call":
		if s.fail {
			reply(nil, "verif sim: scripted failure")
			return
		}
		var arg map[string]interface{}
		if len(req.Params) == 0 || json.Unmarshal(req.Params[0], &arg) != nil {
			reply(nil, "bad params")
			return
		}
		ds, _ := arg["data"].(string)
		if ds == "" {
			ds, _ = arg["input"].(string)
		}
		data, err := hex.DecodeString(strings.TrimPrefix(ds, "0x"))
		if err != nil || len(data) < 4 {
			reply(nil, "bad call data")
			return
		}
		m, err := s.abi.MethodById(data[:4])
		if err != nil {
			reply(nil, "unknown method")
			return
		}
		switch m.Name {
		case "getCurrentGuardianSetIndex":
			out, _ := m.Outputs.Pack(uint32(len(s.sets) - 1))
			reply("0x"+hex.EncodeToString(out), "")
		case "getGuardianSet":
			args, err := m.Inputs.Unpack(data[4:])
			if err != nil {
				reply(nil, "bad args")
				return
			}
			idx := args[0].(uint32)
			s.queries = append(s.queries, idx)
			if s.failIdx[idx] > 0 {
				s.failIdx[idx]--
				reply(nil, "verif sim: scripted transient failure of this set")
				return
			}
			keys := []eth_common.Address{}
			if int(idx) < len(s.sets) {
				keys = s.sets[idx]
			}
			out, err := m.Outputs.Pack(nodeabi.StructsGuardianSet{Keys: keys, ExpirationTime: 0})
			if err != nil {
				reply(nil, "pack: "+err.Error())
				return
			}
			reply("0x"+hex.EncodeToString(out), "")
		default:
			reply(nil, "unsupported method "+m.Name)
		}
	default:
		reply(nil, "unsupported "+req.Method)
	}
}
