//go:build verif

package guardiansets

// C19, several appenders: in production the periodic updater and the on-demand fetch of GetGuardianSet (one per gossip VAA that
// names a set not known yet) all end in updateGuardianSets, and they can deliver the same freshly created set at the same time,
// or overlapping ranges.  Every round: a fresh store; for each new set, W goroutines released together deliver a batch that
// contains it (identical batches, or batches reaching back over sets already known); after every delivery round the list must
// be aligned with the indices (lists[i].Index == i, length = current + 1) and every lookup must return the set it asked for.
import (
	"fmt"
	"runtime"
	"sync"
	"sync/atomic"
	"testing"

	"github.com/alephium/wormhole-fork/node/pkg/common"
)

func TestVerifC19Dup(t *testing.T) {
	r := &vrng{s: verifSeed() ^ 0xc19d}
	o := verifOut(t)
	defer o.close()
	rounds := 1500
	if verifThorough() {
		rounds = 12000
	}
	const K = 5
	hist := make([]*common.GuardianSet, K)
	histHex := make([]string, K)
	for i := range hist {
		hist[i] = &common.GuardianSet{Keys: verifAddrs(r, 1+r.below(3)), Index: uint32(i)}
		histHex[i] = verifKeysHex(hist[i].Keys)
	}
	reported := false
	deliveries, lookups := 0, 0
	for round := 0; round < rounds && !reported; round++ {
		c := make(chan *common.GuardianSet, 64)
		gs := verifStore(hist[:1], "http://127.0.0.1:1", c)
		workers := 2 + r.below(7)
		if p := runtime.GOMAXPROCS(0); workers > p {
			workers = p // spinning deliverers need a processor each
		}
		if workers < 2 {
			workers = 2
		}
		sched := []map[string]interface{}{}
		for next := 1; next < K && !reported; next++ {
			// who delivers what: batch [from .. next], from <= next (overlap with what is known is what the fetch code produces
			// when the fetch started before an earlier delivery landed)
			froms := make([]int, workers)
			for w := range froms {
				froms[w] = next
				if r.below(3) == 0 {
					froms[w] = next - r.below(next+1)
				}
			}
			var ready int32
			var start int32 // spin barrier: all deliverers reach updateGuardianSets within the same few hundred nanoseconds
			var wg sync.WaitGroup
			for w := 0; w < workers; w++ {
				wg.Add(1)
				go func(from int) {
					defer wg.Done()
					batch := make([]*common.GuardianSet, 0, next-from+1)
					for i := from; i <= next; i++ {
						batch = append(batch, hist[i])
					}
					atomic.AddInt32(&ready, 1)
					for atomic.LoadInt32(&start) == 0 {
					}
					gs.updateGuardianSets(batch)
				}(froms[w])
			}
			for atomic.LoadInt32(&ready) < int32(workers) {
				runtime.Gosched()
			}
			atomic.StoreInt32(&start, 1)
			wg.Wait()
			deliveries += workers
			sched = append(sched, map[string]interface{}{"new_set": next, "concurrent_batches_from": froms})
			cur, idxs := verifProj(gs)
			bad := cur != next || len(idxs) != next+1
			for i, x := range idxs {
				if int64(i) != x {
					bad = true
				}
			}
			msg := ""
			if bad {
				msg = fmt.Sprintf("after %d concurrent deliveries of set %d the list holds the sets %v with current index %d: element i is not the set with index i", workers, next, idxs, cur)
			}
			for i := 0; i <= next && msg == ""; i++ {
				res := verifGet(gs, i)
				lookups++
				if res.Res != "ok" || res.Index != int64(i) || res.Keys != histHex[i] {
					msg = fmt.Sprintf("after concurrent deliveries up to set %d, GetGuardianSet(%d) returned %s index %d", next, i, res.Res, res.Index)
				}
			}
			if msg != "" {
				reported = true
				o.emit(map[string]interface{}{"k": "dup", "sc": round, "mon": []string{"CONCURRENT APPENDS MISALIGN THE LIST: " + msg},
					"round": round, "workers": workers, "schedule": sched, "list": idxs, "cur": cur,
					"how": "fresh store holding set 0; for each new set n the listed number of goroutines call updateGuardianSets([from..n]) at the same moment"})
			}
		}
	}
	o.emit(map[string]interface{}{"k": "dup-summary", "sc": -1, "rounds": rounds, "deliveries": deliveries, "lookups": lookups, "mon": []string{}})
}
