//go:build verif

package guardiansets

import (
	"context"
	"encoding/hex"
	"fmt"
	"runtime"
	"strings"
	"sync"
	"sync/atomic"
	"testing"
	"time"

	"github.com/alephium/wormhole-fork/node/pkg/common"
	eth_common "github.com/ethereum/go-ethereum/common"
	"go.uber.org/zap"
)

func verifKeysHex(keys []eth_common.Address) string {
	var sb strings.Builder
	for _, k := range keys {
		sb.WriteString(hex.EncodeToString(k[:]))
	}
	return sb.String()
}

func verifAddrs(r *vrng, n int) []eth_common.Address {
	out := make([]eth_common.Address, n)
	for i := range out {
		copy(out[i][:], r.bytes(20))
	}
	return out
}

func verifStore(sets []*common.GuardianSet, url string, c chan *common.GuardianSet) *GuardianSets {
	// exact capacity: every append has to grow the backing array, like a list that came from the chain fetch
	l := make([]*common.GuardianSet, len(sets))
	copy(l, sets)
	return &GuardianSets{
		lock:                    sync.Mutex{},
		currentGuardianSetIndex: len(sets) - 1,
		guardianSetLists:        l,
		ethRpcUrl:               url,
		logger:                  zap.NewNop(),
		duration:                time.Hour,
		ethGovernanceAddress:    eth_common.HexToAddress("0x0290FB167208Af455bB137780163b7B7a9a10C16"),
		guardianSetC:            c,
	}
}

type vGetRes struct {
	Res   string `json:"res"` // ok | err-fetch | err-index | err-other | panic
	Index int64  `json:"index"`
	Keys  string `json:"keys"`
	Nil   bool   `json:"nilkeys"`
	Msg   string `json:"msg,omitempty"`
}

func verifGet(gs *GuardianSets, idx int) (res vGetRes) {
	defer func() {
		if x := recover(); x != nil {
			res = vGetRes{Res: "panic", Msg: fmt.Sprint(x)}
		}
	}()
	ctx, cancel := context.WithTimeout(context.Background(), 20*time.Second)
	defer cancel()
	g, err := gs.GetGuardianSet(ctx, idx)
	if err != nil {
		k := "err-fetch"
		if strings.Contains(err.Error(), "invalid guardian index") {
			k = "err-index"
		}
		return vGetRes{Res: k, Msg: err.Error()}
	}
	if g == nil {
		return vGetRes{Res: "err-other", Msg: "nil set without error"}
	}
	return vGetRes{Res: "ok", Index: int64(g.Index), Keys: verifKeysHex(g.Keys), Nil: g.Keys == nil}
}

func verifProj(gs *GuardianSets) (int, []int64) {
	gs.lock.Lock()
	defer gs.lock.Unlock()
	idx := []int64{}
	for _, g := range gs.guardianSetLists {
		idx = append(idx, int64(g.Index))
	}
	return gs.currentGuardianSetIndex, idx
}

func verifDrain(c chan *common.GuardianSet) []int64 {
	out := []int64{}
	for {
		select {
		case g := <-c:
			out = append(out, int64(g.Index))
		default:
			return out
		}
	}
}

// TestVerifC19Sets : append histories and lookups (incl. lookups that fetch from the simulated chain), one goroutine.
// One scenario = one JSON row: the history, the ops and after every op the projection of the store.
func TestVerifC19Sets(t *testing.T) {
	r := &vrng{s: verifSeed() ^ 0xc19a}
	o := verifOut(t)
	defer o.close()
	sim, err := newVerifEthSim()
	if err != nil {
		t.Fatal(err)
	}
	defer sim.close()
	scenarios := 60
	if verifThorough() {
		scenarios = 600
	}
	for sc := 0; sc < scenarios; sc++ {
		K := 2 + r.below(7) // sets that will ever exist
		hist := make([][]eth_common.Address, K)
		histHex := make([]string, K)
		for i := range hist {
			hist[i] = verifAddrs(r, 1+r.below(4))
			histHex[i] = verifKeysHex(hist[i])
		}
		gsOf := func(i int) *common.GuardianSet {
			if i < K {
				return &common.GuardianSet{Keys: hist[i], Index: uint32(i)}
			}
			return &common.GuardianSet{Keys: []eth_common.Address{}, Index: uint32(i)}
		}
		k0 := 1 + r.below(K)
		init := []*common.GuardianSet{}
		for i := 0; i < k0; i++ {
			init = append(init, gsOf(i))
		}
		gapScenario := sc%6 == 5 // non-contiguous batches allowed (cannot come from the fetch code): correspondence only
		chainLen := k0 + r.below(K-k0+1)
		chainLen0 := chainLen
		c := make(chan *common.GuardianSet, 64)
		gs := verifStore(init, sim.url, c)
		sim.set(hist[:chainLen], false)
		ops := []map[string]interface{}{}
		mon := []string{}
		nops := 6 + r.below(10)
		// what set i was when the store first learned it: given by a batch, or the chain's answer at fetch time (a Solidity
		// mapping answers an index it does not have yet with an empty key list, and the store keeps that answer)
		expect := map[int]string{}
		for i := 0; i < k0; i++ {
			expect[i] = histHex[i]
		}
		poisoned := 0
		for j := 0; j < nops; j++ {
			cur, _ := verifProj(gs)
			op := map[string]interface{}{}
			switch x := r.below(10); {
			case x < 3: // append a batch (what the periodic updater does after its own fetch)
				from := cur + 1 - r.below(3)
				if from < 0 {
					from = 0
				}
				if gapScenario && r.below(2) == 0 {
					from = cur + 2 + r.below(2)
				}
				to := from + r.below(3)
				if r.below(4) == 0 {
					to = from - 1 // empty batch
				}
				batch := []*common.GuardianSet{}
				idxs := []int{}
				for i := from; i <= to; i++ {
					batch = append(batch, gsOf(i))
					idxs = append(idxs, i)
				}
				pan := ""
				func() {
					defer func() {
						if x := recover(); x != nil {
							pan = fmt.Sprint(x)
						}
					}()
					gs.updateGuardianSets(batch)
				}()
				for _, i := range idxs {
					if _, ok := expect[i]; !ok && i > cur {
						expect[i] = verifKeysHex(gsOf(i).Keys)
					}
				}
				op["op"] = "upd"
				op["idxs"] = idxs
				op["panic"] = pan
				if pan != "" {
					mon = append(mon, "updateGuardianSets panicked: "+pan)
				}
			case x < 4: // the chain grows / starts or stops failing
				if r.below(3) == 0 {
					sim.mu.Lock()
					sim.fail = !sim.fail
					f := sim.fail
					sim.mu.Unlock()
					op["op"] = "chainfail"
					op["fail"] = f
				} else {
					if chainLen < K {
						chainLen++
					}
					sim.mu.Lock()
					sim.sets = hist[:chainLen]
					sim.mu.Unlock()
					op["op"] = "chainlen"
					op["len"] = chainLen
				}
			case x < 5:
				pan := ""
				var gi int64 = -1
				func() {
					defer func() {
						if x := recover(); x != nil {
							pan = fmt.Sprint(x)
						}
					}()
					gi = int64(gs.GetCurrentGuardianSet().Index)
				}()
				op["op"] = "cur"
				op["index"] = gi
				op["panic"] = pan
				if !gapScenario {
					if pan != "" {
						mon = append(mon, "GetCurrentGuardianSet panicked: "+pan)
					} else if int(gi) != cur {
						mon = append(mon, fmt.Sprintf("GetCurrentGuardianSet returned the set with index %d while the current index is %d", gi, cur))
					}
				}
			default: // lookup: old, current, next (fetch), beyond the chain
				idx := r.below(cur + 1)
				switch r.below(5) {
				case 0:
					idx = cur
				case 1:
					idx = cur + 1
				case 2:
					idx = cur + 1 + r.below(3)
				}
				sim.mu.Lock()
				failing := sim.fail
				sim.mu.Unlock()
				if idx > cur && !failing {
					// the store learns the sets the chain HAS (the range is capped at the contract's current index); an index
					// beyond it is answered with an error and nothing is stored for it
					for i := cur + 1; i <= idx; i++ {
						if _, ok := expect[i]; !ok {
							if i < chainLen {
								expect[i] = histHex[i]
							} else {
								poisoned++ // (counted: lookups that reached beyond the chain)
							}
						}
					}
				}
				res := verifGet(gs, idx)
				op["op"] = "get"
				op["idx"] = idx
				op["res"] = res
				if !gapScenario {
					switch res.Res {
					case "panic":
						mon = append(mon, fmt.Sprintf("GetGuardianSet(%d) panicked: %s", idx, res.Msg))
					case "err-fetch", "err-index", "err-other":
						if idx <= cur {
							mon = append(mon, fmt.Sprintf("GetGuardianSet(%d) failed although the store holds sets 0..%d: %s", idx, cur, res.Msg))
						}
					case "ok":
						if res.Index != int64(idx) {
							mon = append(mon, fmt.Sprintf("GetGuardianSet(%d) returned the set with index %d", idx, res.Index))
						} else if want, ok := expect[idx]; ok && res.Keys != want {
							mon = append(mon, fmt.Sprintf("GetGuardianSet(%d) returned keys that are not those of set %d", idx, idx))
						} else if !ok {
							mon = append(mon, fmt.Sprintf("GetGuardianSet(%d) returned a set (%d keys) although neither the chain (sets 0..%d) nor an update has ever had a set with that index", idx, len(res.Keys)/40, chainLen-1))
						}
					}
				}
			}
			cur2, idxs := verifProj(gs)
			op["cur"] = cur2
			op["list"] = idxs
			op["sent"] = verifDrain(c)
			ops = append(ops, op)
		}
		o.emit(map[string]interface{}{"k": "sets", "sc": sc, "K": K, "k0": k0, "gap": gapScenario, "hist": histHex, "chain0": chainLen0, "ops": ops, "mon": mon, "poisoned": poisoned})
	}
	verifC19FaultScenarios(o, r, sim)
	verifC19FutureIndexScenarios(o, r, sim)
}

// transient fault on ONE set inside a range that is being fetched (rows "sets-fault", monitors only): the lookup may fail, but
// whatever the store holds afterwards, position i is the set with index i, and a later lookup of every index returns that set
func verifC19FaultScenarios(o *vout, r *vrng, sim *verifEthSim) {
	for sc := 0; sc < 8; sc++ {
		K := 4 + r.below(4)
		hist := make([][]eth_common.Address, K)
		for i := range hist {
			hist[i] = verifAddrs(r, 1+r.below(3))
		}
		k0 := 1 + r.below(2)
		init := []*common.GuardianSet{}
		for i := 0; i < k0; i++ {
			init = append(init, &common.GuardianSet{Keys: hist[i], Index: uint32(i)})
		}
		c := make(chan *common.GuardianSet, 64)
		gs := verifStore(init, sim.url, c)
		sim.set(hist, false)
		bad := k0 + r.below(K-1-k0) // a set that is NOT the last one of the range k0 .. K-1
		sim.mu.Lock()
		sim.failIdx = map[uint32]int{uint32(bad): 1}
		sim.mu.Unlock()
		mon := []string{}
		ops := []map[string]interface{}{}
		first := verifGet(gs, K-1)
		ops = append(ops, map[string]interface{}{"op": "get", "idx": K - 1, "res": first, "failing_set": bad})
		for round := 0; round < 2; round++ {
			for i := K - 1; i >= 0; i-- {
				res := verifGet(gs, i)
				ops = append(ops, map[string]interface{}{"op": "get", "idx": i, "res": res})
				switch res.Res {
				case "panic":
					mon = append(mon, fmt.Sprintf("GetGuardianSet(%d) panicked after a transient failure of set %d: %s", i, bad, res.Msg))
				case "ok":
					if res.Index != int64(i) {
						mon = append(mon, fmt.Sprintf("GetGuardianSet(%d) returned the set with index %d (after a transient failure of set %d while the range %d..%d was fetched)", i, res.Index, bad, k0, K-1))
					} else if res.Keys != verifKeysHex(hist[i]) {
						mon = append(mon, fmt.Sprintf("GetGuardianSet(%d) returned keys that are not those of set %d (after a transient failure of set %d)", i, i, bad))
					}
				default:
					if round == 1 {
						mon = append(mon, fmt.Sprintf("GetGuardianSet(%d) still fails after the node recovered: %s", i, res.Msg))
					}
				}
			}
		}
		cur, idxs := verifProj(gs)
		for pos, ix := range idxs {
			if int64(pos) != ix {
				mon = append(mon, fmt.Sprintf("the store holds the set with index %d at position %d (after a transient failure of set %d)", ix, pos, bad))
				break
			}
		}
		verifDrain(c)
		sim.mu.Lock()
		sim.failIdx = nil
		sim.mu.Unlock()
		o.emit(map[string]interface{}{"k": "sets-fault", "sc": sc, "K": K, "k0": k0, "failing_set": bad, "cur": cur, "list": idxs, "ops": ops, "mon": mon})
	}
}

// a lookup of an index the chain does not have YET (any gossiped VAA naming it triggers one: the lookup comes before the signature
// check), then the chain gets that set: "the guardian set it returns for index i is always the set with index i" — from then on a
// lookup of i returns the chain's set i (rows "sets-future", monitors only); the periodic updater's own fetch in between changes nothing
func verifC19FutureIndexScenarios(o *vout, r *vrng, sim *verifEthSim) {
	for sc := 0; sc < 6; sc++ {
		K := 4 + r.below(3)
		hist := make([][]eth_common.Address, K)
		for i := range hist {
			hist[i] = verifAddrs(r, 1+r.below(3))
		}
		c0 := 1 + r.below(2) // the chain and the store both hold sets 0 .. c0-1
		init := []*common.GuardianSet{}
		for i := 0; i < c0; i++ {
			init = append(init, &common.GuardianSet{Keys: hist[i], Index: uint32(i)})
		}
		c := make(chan *common.GuardianSet, 64)
		gs := verifStore(init, sim.url, c)
		sim.set(hist[:c0], false)
		ahead := sc % 3 // the looked-up index is c0, c0+1 or c0+2
		mon := []string{}
		ops := []map[string]interface{}{}
		early := verifGet(gs, c0+ahead)
		ops = append(ops, map[string]interface{}{"op": "get", "idx": c0 + ahead, "res": early, "chain_has_sets": c0})
		if early.Res == "panic" {
			mon = append(mon, fmt.Sprintf("GetGuardianSet(%d) panicked while the chain has sets 0..%d: %s", c0+ahead, c0-1, early.Msg))
		}
		// the chain appoints the sets up to c0+ahead (and one more)
		grown := c0 + ahead + 1
		if grown > K {
			grown = K
		}
		sim.set(hist[:grown], false)
		if sc%2 == 1 {
			// what the periodic updater does at its next tick
			if batch, err := GetGuardianSetsFromChain(context.Background(), sim.url, gs.ethGovernanceAddress, uint32(gs.currentIndex()+1)); err == nil {
				gs.updateGuardianSets(batch)
			}
			ops = append(ops, map[string]interface{}{"op": "updater-tick"})
		}
		for i := 0; i < grown; i++ {
			res := verifGet(gs, i)
			ops = append(ops, map[string]interface{}{"op": "get", "idx": i, "res": res, "chain_has_sets": grown})
			switch res.Res {
			case "panic":
				mon = append(mon, fmt.Sprintf("GetGuardianSet(%d) panicked: %s", i, res.Msg))
			case "ok":
				if res.Index != int64(i) {
					mon = append(mon, fmt.Sprintf("GetGuardianSet(%d) returned the set with index %d", i, res.Index))
				} else if res.Keys != verifKeysHex(hist[i]) {
					mon = append(mon, fmt.Sprintf("GetGuardianSet(%d) returns %d keys that are not those of the chain's set %d (%d keys): index %d was looked up once while the chain only had sets 0..%d — any gossiped VAA naming it does that, before its signatures are looked at — and what the contract answered then was stored for good; VAAs signed by set %d can no longer be verified", i, len(res.Keys)/40, i, len(hist[i]), c0+ahead, c0-1, i))
				}
			default:
				mon = append(mon, fmt.Sprintf("GetGuardianSet(%d) fails although the chain has sets 0..%d: %s", i, grown-1, res.Msg))
			}
		}
		cur, idxs := verifProj(gs)
		verifDrain(c)
		o.emit(map[string]interface{}{"k": "sets-future", "sc": sc, "K": K, "c0": c0, "ahead": ahead, "grown": grown, "cur": cur, "list": idxs, "ops": ops, "mon": mon})
	}
}

// TestVerifC19Race : one goroutine appends (updateGuardianSets, as the periodic updater does) while others look sets up.
// Meant to run under -race.  A reader asks for the newest index it knows to be complete, for the index being appended
// right now, and for old ones; whatever the schedule, it must get the set with the index it asked for, or an error.
func TestVerifC19Race(t *testing.T) {
	r := &vrng{s: verifSeed() ^ 0xc19b}
	o := verifOut(t)
	defer o.close()
	sim, err := newVerifEthSim()
	if err != nil {
		t.Fatal(err)
	}
	defer sim.close()
	rounds := 150
	if verifThorough() {
		rounds = 1500
	}
	K := 24
	hist := make([][]eth_common.Address, K)
	histHex := make([]string, K)
	for i := range hist {
		hist[i] = verifAddrs(r, 1+r.below(3))
		histHex[i] = verifKeysHex(hist[i])
	}
	sim.set(hist, false)
	var lookups, oks, errs, panics, wrong int64
	var monMu sync.Mutex
	monSeen := map[string]bool{}
	report := func(class, msg string, detail map[string]interface{}) {
		monMu.Lock()
		defer monMu.Unlock()
		if monSeen[class] {
			return
		}
		monSeen[class] = true
		detail["k"] = "race"
		detail["mon"] = []string{msg}
		detail["class"] = class
		o.emit(detail)
	}
	readers := 3
	if runtime.GOMAXPROCS(0) < 4 {
		readers = 1
	}
	for round := 0; round < rounds; round++ {
		k0 := 1 + r.below(3)
		init := []*common.GuardianSet{}
		for i := 0; i < k0; i++ {
			init = append(init, &common.GuardianSet{Keys: hist[i], Index: uint32(i)})
		}
		c := make(chan *common.GuardianSet, 4096)
		gs := verifStore(init, sim.url, c)
		var published int64 = int64(k0 - 1) // highest index whose append has completed
		var stop int32
		var wg sync.WaitGroup
		drained := make(chan struct{})
		go func() { // the explorer's main loop consumes guardianSetC
			for range c {
			}
			close(drained)
		}()
		// batches decided up front
		type batch struct{ from, to int }
		var batches []batch
		for at := k0; at < K; {
			n := 1 + r.below(3)
			if at+n > K {
				n = K - at
			}
			batches = append(batches, batch{at, at + n - 1})
			at += n
		}
		seeds := make([]uint64, readers)
		for i := range seeds {
			seeds[i] = r.next()
		}
		for j := 0; j < readers; j++ {
			wg.Add(1)
			go func(j int) {
				defer wg.Done()
				rr := &vrng{s: seeds[j]}
				for atomic.LoadInt32(&stop) == 0 {
					p := int(atomic.LoadInt64(&published))
					idx := p
					switch rr.below(4) {
					case 0:
						idx = rr.below(p + 1)
					case 1, 2:
						if p+1 < K {
							idx = p + 1 // being appended now, or not yet: fast path, fetch path or error are all fine
						}
					}
					res := verifGet(gs, idx)
					atomic.AddInt64(&lookups, 1)
					switch res.Res {
					case "ok":
						atomic.AddInt64(&oks, 1)
						if res.Index != int64(idx) || res.Keys != histHex[idx] {
							atomic.AddInt64(&wrong, 1)
							report("wrong-set", fmt.Sprintf("concurrent GetGuardianSet(%d) returned the set with index %d", idx, res.Index),
								map[string]interface{}{"round": round, "idx": idx, "got": res.Index, "schedule": "lookup of index " + fmt.Sprint(idx) + " while updateGuardianSets appends; initial sets 0.." + fmt.Sprint(k0-1)})
						}
					case "panic":
						atomic.AddInt64(&panics, 1)
						report("panic", fmt.Sprintf("concurrent GetGuardianSet(%d) panicked: %s", idx, res.Msg),
							map[string]interface{}{"round": round, "idx": idx, "published": p, "panic": res.Msg,
								"schedule": fmt.Sprintf("store holds sets 0..%d; writer: updateGuardianSets(batch containing %d) has stored the new current index, has not appended yet; reader: GetGuardianSet(%d) compares with the new index and indexes the old list", p, idx, idx)})
					default:
						atomic.AddInt64(&errs, 1)
					}
				}
			}(j)
		}
		wg.Add(1)
		go func() { // what the periodic updater and NewGuardianSets do: take the current set while appends happen
			defer wg.Done()
			last := int64(-1)
			for atomic.LoadInt32(&stop) == 0 {
				p := atomic.LoadInt64(&published)
				pan := ""
				var gi int64
				func() {
					defer func() {
						if x := recover(); x != nil {
							pan = fmt.Sprint(x)
						}
					}()
					gi = int64(gs.GetCurrentGuardianSet().Index)
				}()
				atomic.AddInt64(&lookups, 1)
				if pan != "" {
					atomic.AddInt64(&panics, 1)
					report("panic-current", "concurrent GetCurrentGuardianSet panicked: "+pan, map[string]interface{}{"round": round, "published": p, "panic": pan,
						"schedule": fmt.Sprintf("store holds sets 0..%d; writer: updateGuardianSets has stored the new current index, has not appended yet; reader: GetCurrentGuardianSet indexes the old list with the new index", p)})
				} else if gi < p || gi < last || gi >= int64(K) {
					atomic.AddInt64(&wrong, 1)
					report("wrong-current", fmt.Sprintf("concurrent GetCurrentGuardianSet returned the set with index %d after the append up to %d had completed (previous answer %d)", gi, p, last),
						map[string]interface{}{"round": round, "got": gi, "published": p, "previous": last})
				} else {
					atomic.AddInt64(&oks, 1)
				}
				last = gi
				runtime.Gosched()
			}
		}()
		for _, b := range batches {
			bt := []*common.GuardianSet{}
			for i := b.from; i <= b.to; i++ {
				bt = append(bt, &common.GuardianSet{Keys: hist[i], Index: uint32(i)})
			}
			gs.updateGuardianSets(bt)
			atomic.StoreInt64(&published, int64(b.to))
			for i := 0; i < 50; i++ {
				runtime.Gosched()
			}
		}
		atomic.StoreInt32(&stop, 1)
		wg.Wait()
		close(c)
		<-drained
		// final state: aligned
		cur, idxs := verifProj(gs)
		bad := cur != K-1 || len(idxs) != K
		for i, x := range idxs {
			if int64(i) != x {
				bad = true
			}
		}
		if bad {
			report("final-misaligned", "after concurrent appends and lookups the list is not aligned with the indices",
				map[string]interface{}{"round": round, "cur": cur, "list": idxs})
		}
	}
	o.emit(map[string]interface{}{"k": "race-summary", "rounds": rounds, "readers": readers, "lookups": lookups, "ok": oks, "err": errs,
		"panics": panics, "wrong": wrong, "mon": []string{}})
}
