//go:build verif

package guardiand

// C17 harness: drives the real handleReobservationRequests (cmd/guardiand/reobserve.go) and the real
// common.PostObservationRequest with seeded histories of requests, clock advances and watcher-queue drains.
//
// Determinism: the handler gets a clock.Clock whose time and ticker are driven by the test.  The ticker channel and the
// request channel are unbuffered, so a send that returns proves the handler has taken the value; a following "sync"
// request (a chain id no watcher has) that is taken proves the handler has finished the previous step.  Every wait has a
// deadline of 10 s: a handler that stalls is reported, never waited for.

import (
	"bytes"
	"bufio"
	"context"
	"encoding/hex"
	"encoding/json"
	"errors"
	"fmt"
	"os"
	"sort"
	"strconv"
	"sync"
	"sync/atomic"
	"testing"
	"time"

	"github.com/alephium/wormhole-fork/node/pkg/common"
	gossipv1 "github.com/alephium/wormhole-fork/node/pkg/proto/gossip/v1"
	nodev1 "github.com/alephium/wormhole-fork/node/pkg/proto/node/v1"
	"github.com/alephium/wormhole-fork/node/pkg/vaa"
	"github.com/benbjohnson/clock"
	"go.uber.org/zap"
	"go.uber.org/zap/zaptest/observer"
)

func TestVerifNothing(t *testing.T) {}

type verifC17Rng struct{ s uint64 }

func (r *verifC17Rng) next() uint64 {
	r.s += 0x9E3779B97F4A7C15
	z := r.s
	z = (z ^ (z >> 30)) * 0xBF58476D1CE4E5B9
	z = (z ^ (z >> 27)) * 0x94D049BB133111EB
	return z ^ (z >> 31)
}
func (r *verifC17Rng) below(n int) int { return int(r.next() % uint64(n)) }

// ---------------------------------------------------------------- the driven clock

type verifC17Clock struct {
	mu      sync.Mutex
	now     time.Time
	tickC   chan time.Time // unbuffered: handed to the handler as its ticker channel
	periods []time.Duration
	other   []string // any other use of the clock by the handler (none expected)
	// history harness: time and the ticker come from the library's mock clock, so that Reset / Stop of the ticker by the handler
	// behave as on the real clock; every tick the mock produces is observed by [forward] and handed to the handler through tickC
	mock      *clock.Mock
	orig      <-chan time.Time
	got, done int64
	ticks     []time.Time // ticks taken by the handler, in order
	tickStall bool
	stop      chan struct{}
}

func (c *verifC17Clock) forward() {
	for {
		select {
		case <-c.stop:
			return
		case t := <-c.orig:
			atomic.AddInt64(&c.got, 1)
			select {
			case c.tickC <- t:
				c.mu.Lock()
				c.ticks = append(c.ticks, t)
				c.mu.Unlock()
			case <-time.After(verifC17Deadline):
				c.mu.Lock()
				c.tickStall = true
				c.mu.Unlock()
			case <-c.stop:
				return
			}
			atomic.AddInt64(&c.done, 1)
		}
	}
}

// every tick the mock has produced so far has been handed to the handler (or given up on)
func (c *verifC17Clock) settle() {
	quiet := 0
	for i := 0; i < 200000 && quiet < 3; i++ {
		if len(c.orig) == 0 && atomic.LoadInt64(&c.got) == atomic.LoadInt64(&c.done) {
			quiet++
		} else {
			quiet = 0
		}
		time.Sleep(100 * time.Microsecond)
	}
}

func (c *verifC17Clock) set(t time.Time) { c.mu.Lock(); c.now = t; c.mu.Unlock() }
func (c *verifC17Clock) note(s string)   { c.mu.Lock(); c.other = append(c.other, s); c.mu.Unlock() }
func (c *verifC17Clock) Now() time.Time {
	if c.mock != nil {
		return c.mock.Now()
	}
	c.mu.Lock()
	defer c.mu.Unlock()
	return c.now
}
func (c *verifC17Clock) Ticker(d time.Duration) *clock.Ticker {
	c.mu.Lock()
	c.periods = append(c.periods, d)
	first := len(c.periods) == 1
	c.mu.Unlock()
	if c.mock != nil {
		tk := c.mock.Ticker(d)
		if first {
			c.orig = tk.C
			tk.C = c.tickC
			go c.forward()
		}
		return tk
	}
	// a ticker of a mock clock that never advances (Reset / Stop are safe on it), with the driven channel in place of its own
	tk := clock.NewMock().Ticker(d)
	tk.C = c.tickC
	return tk
}
func (c *verifC17Clock) Since(t time.Time) time.Duration { return c.Now().Sub(t) }
func (c *verifC17Clock) Until(t time.Time) time.Duration { return t.Sub(c.Now()) }
func (c *verifC17Clock) After(d time.Duration) <-chan time.Time {
	c.note("After")
	return make(chan time.Time)
}
func (c *verifC17Clock) AfterFunc(d time.Duration, f func()) *clock.Timer {
	c.note("AfterFunc")
	return clock.NewMock().AfterFunc(d, f)
}
func (c *verifC17Clock) Sleep(d time.Duration) { c.note("Sleep") }
func (c *verifC17Clock) Tick(d time.Duration) <-chan time.Time {
	c.note("Tick")
	return make(chan time.Time)
}
func (c *verifC17Clock) Timer(d time.Duration) *clock.Timer {
	c.note("Timer")
	return clock.NewMock().Timer(d)
}
func (c *verifC17Clock) WithDeadline(parent context.Context, d time.Time) (context.Context, context.CancelFunc) {
	c.note("WithDeadline")
	return context.WithCancel(parent)
}
func (c *verifC17Clock) WithTimeout(parent context.Context, t time.Duration) (context.Context, context.CancelFunc) {
	c.note("WithTimeout")
	return context.WithCancel(parent)
}

// ---------------------------------------------------------------- trace rows

type verifC17Op struct {
	K     string `json:"k"`            // req | tick | drain
	Chain uint32 `json:"chain"`        // req: the number in the request (32 bits); drain: the queue
	Tx    string `json:"tx,omitempty"` // hex
	T     int64  `json:"t"`            // virtual time of the step, seconds since the start of the history
	// observed
	Out   int      `json:"out"`            // req: 0 forwarded, 1 duplicate skipped, 2 queue full, 3 unknown chain, 9 nothing observed; drain: 1 got one, 0 empty
	Lens  []int    `json:"lens,omitempty"` // queue lengths after the step, in the order of Chains
	Got   string   `json:"got,omitempty"`  // drain: "<chain number of the request>/<hex tx>"
	Logs  []string `json:"logs,omitempty"`
	Stall bool     `json:"stall,omitempty"` // the handler did not take the next value within the deadline
}

type verifC17Row struct {
	K       string        `json:"k"` // hist | post
	Idx     int           `json:"idx"`
	Chains  []uint16      `json:"chains"` // watcher queues: chain ids ...
	Caps    []int         `json:"caps"`   // ... and capacities
	Fill    []int         `json:"fill"`   // initial fill (requests "pre/<i>" already queued)
	Period  int64         `json:"period"` // seconds, what the handler asked the clock's ticker for
	Ops     []*verifC17Op `json:"ops"`
	Final   [][]string    `json:"final"` // contents of every queue at the end, oldest first
	Mon     []string      `json:"mon"`
	MonOp   []int         `json:"monop"`
	Other   []string      `json:"other,omitempty"`
	Aborted bool          `json:"aborted,omitempty"`
	// post rows
	Cap   int   `json:"cap,omitempty"`
	Posts []int `json:"posts,omitempty"` // result of each PostObservationRequest in turn: 0 nil, 1 ErrChanFull, 2 other error, 3 did not return
	PLens []int `json:"plens,omitempty"` // channel length after each post
}

const verifC17Deadline = 10 * time.Second
const verifC17SyncChain = 60000

var verifC17Base = time.Unix(1700000000, 0)

type verifC17Run struct {
	clk     *verifC17Clock
	reqC    chan *gossipv1.ObservationRequest
	queues  map[vaa.ChainID]chan *gossipv1.ObservationRequest
	logs    *observer.ObservedLogs
	nsync   int
	stalled bool
}

func (h *verifC17Run) send(req *gossipv1.ObservationRequest) bool {
	select {
	case h.reqC <- req:
		return true
	case <-time.After(verifC17Deadline):
		h.stalled = true
		return false
	}
}

// wait until the handler is back in its select loop
func (h *verifC17Run) sync() bool {
	h.nsync++
	return h.send(&gossipv1.ObservationRequest{ChainId: verifC17SyncChain, TxHash: []byte(fmt.Sprintf("sync%d", h.nsync))})
}

func (h *verifC17Run) tick(at time.Time) bool {
	h.clk.set(at)
	select {
	case h.clk.tickC <- at:
	case <-time.After(verifC17Deadline):
		h.stalled = true
		return false
	}
	return h.sync()
}

func verifC17Lens(chains []uint16, queues map[vaa.ChainID]chan *gossipv1.ObservationRequest) []int {
	out := make([]int, len(chains))
	for i, c := range chains {
		out[i] = len(queues[vaa.ChainID(c)])
	}
	return out
}

func verifC17Name(r *gossipv1.ObservationRequest) string {
	return fmt.Sprintf("%d/%s", r.ChainId, hex.EncodeToString(r.TxHash))
}

var verifC17Advances = []int64{1, 30, 60, 180, 239, 240, 241, 419, 420, 421, 599, 659, 660, 661, 662, 839, 840, 1079, 1080, 1081, 1500}

// a scripted step: kind 0 request (chain, tx index), 1 advance (seconds), 2 drain (queue index)
type verifC17Step struct {
	kind  int
	chain uint32
	tx    int
	secs  int64
	qi    int
	txb   []byte // request: these bytes instead of txs[tx]
}

// forwards of OTHER transactions every 5 min must not keep an old entry alive: A at 0, others at 5, 10, 15, 20 min, A again at 21 min and at 32 min
func verifC17SteadyTraffic() []verifC17Step {
	st := []verifC17Step{{kind: 0, chain: 2, tx: 0}, {kind: 2, qi: 0}}
	for i := 0; i < 4; i++ {
		st = append(st, verifC17Step{kind: 1, secs: 300}, verifC17Step{kind: 0, chain: 2, txb: []byte{0x51, byte(i)}}, verifC17Step{kind: 2, qi: 0})
	}
	st = append(st, verifC17Step{kind: 1, secs: 60}, verifC17Step{kind: 0, chain: 2, tx: 0}, verifC17Step{kind: 2, qi: 0},
		verifC17Step{kind: 1, secs: 660}, verifC17Step{kind: 0, chain: 2, tx: 0}, verifC17Step{kind: 2, qi: 0})
	return st
}

// many distinct transactions forwarded within one window must not make the dispatcher forget an earlier forward
func verifC17ManyDistinct(n int) []verifC17Step {
	st := []verifC17Step{{kind: 0, chain: 2, tx: 0}, {kind: 2, qi: 0}, {kind: 1, secs: 60}}
	for i := 0; i < n; i++ {
		st = append(st, verifC17Step{kind: 0, chain: 255, txb: []byte{0x77, byte(i >> 8), byte(i)}}, verifC17Step{kind: 2, qi: 2})
	}
	st = append(st, verifC17Step{kind: 1, secs: 60}, verifC17Step{kind: 0, chain: 2, tx: 0}, verifC17Step{kind: 1, secs: 1200}, verifC17Step{kind: 0, chain: 2, tx: 0})
	// ... and once every window has lapsed (all forwards are 20 minutes old, three purge ticks have passed) each of them is forwarded
	// again when asked for: however many transactions are remembered, none stays suppressed
	for j := 0; j < 48; j++ {
		i := (j*n/48 + j%7) % n
		st = append(st, verifC17Step{kind: 0, chain: 255, txb: []byte{0x77, byte(i >> 8), byte(i)}}, verifC17Step{kind: 2, qi: 2})
	}
	return st
}

// directed histories (watcher chains 2, 4, 255, 10 with capacities 3, 1, 2, 0): the boundaries of the statement
var verifC17Scripts = [][]verifC17Step{
	// forward at 180 s; the tick at 840 s sees an age of exactly 11 min: still remembered; the tick at 1260 s purges
	{{kind: 1, secs: 180}, {kind: 0, chain: 2, tx: 0}, {kind: 1, secs: 660}, {kind: 0, chain: 2, tx: 0}, {kind: 1, secs: 1}, {kind: 0, chain: 2, tx: 0},
		{kind: 1, secs: 419}, {kind: 0, chain: 2, tx: 0}, {kind: 0, chain: 2, tx: 0}},
	// worst phase: forward 1 s after a tick; forwarded again exactly 18 min later, not 1 s after the window
	{{kind: 1, secs: 421}, {kind: 0, chain: 2, tx: 1}, {kind: 1, secs: 661}, {kind: 0, chain: 2, tx: 1}, {kind: 1, secs: 419}, {kind: 0, chain: 2, tx: 1}},
	// a full queue and an unknown chain are not remembered: the retry goes through once there is room / never for the unknown chain
	{{kind: 0, chain: 4, tx: 0}, {kind: 0, chain: 4, tx: 1}, {kind: 0, chain: 10, tx: 1}, {kind: 0, chain: 9, tx: 1}, {kind: 2, qi: 1}, {kind: 0, chain: 4, tx: 1},
		{kind: 0, chain: 4, tx: 0}, {kind: 0, chain: 9, tx: 1}, {kind: 1, secs: 1500}, {kind: 0, chain: 4, tx: 1}, {kind: 2, qi: 1}, {kind: 0, chain: 4, tx: 1}},
	// same transaction on two chains, same chain two transactions, a wrapping chain number
	{{kind: 0, chain: 2, tx: 0}, {kind: 0, chain: 255, tx: 0}, {kind: 0, chain: 2, tx: 1}, {kind: 0, chain: 2, tx: 2}, {kind: 0, chain: 65538, tx: 0}, {kind: 0, chain: 65538, tx: 3},
		{kind: 0, chain: 2, tx: 3}, {kind: 2, qi: 0}, {kind: 2, qi: 0}, {kind: 2, qi: 0}, {kind: 2, qi: 2}},
}

func verifC17History(r *verifC17Rng, idx int, script []verifC17Step) *verifC17Row {
	row := &verifC17Row{K: "hist", Idx: idx, Mon: []string{}, MonOp: []int{}}
	pool := [][]uint16{{2, 4, 255, 10}, {1, 2, 3, 4}, {2, 255, 65535, 0}}[idx%3]
	perm := []int{0, 1, 2, 3}
	for i := 3; i > 0; i-- {
		j := r.below(i + 1)
		perm[i], perm[j] = perm[j], perm[i]
	}
	if idx%5 == 4 {
		perm = []int{1 + r.below(3), 1 + r.below(3), 1 + r.below(3), 1 + r.below(3)}
	}
	if script != nil {
		pool = []uint16{2, 4, 255, 10}
		perm = []int{3, 1, 2, 0}
	}
	unknown := []uint32{9, 77, 65534}
	queues := map[vaa.ChainID]chan *gossipv1.ObservationRequest{}
	for i, c := range pool {
		row.Chains = append(row.Chains, c)
		row.Caps = append(row.Caps, perm[i])
		ch := make(chan *gossipv1.ObservationRequest, perm[i])
		f := 0
		if perm[i] > 0 && script == nil && r.below(3) == 0 {
			f = r.below(perm[i] + 1)
		}
		for k := 0; k < f; k++ {
			ch <- &gossipv1.ObservationRequest{ChainId: uint32(c), TxHash: []byte(fmt.Sprintf("pre/%d", k))}
		}
		row.Fill = append(row.Fill, f)
		queues[vaa.ChainID(c)] = ch
	}
	txs := [][]byte{{0xe5, 0x9c, 0x1b, 0xe5, 0x0b, 0xe7, 0xe4, 0x7e}, {0xe5, 0x9c}, {}, {0x6e, 0xf0, 0xa6, 0xba, 0x47, 0x3d, 0x34, 0x51},
		// ids that only a full-length comparison tells apart: a trailing zero byte, a 32-byte id and longer ids that start with it
		{0xe5, 0x9c, 0x00}, bytes.Repeat([]byte{0xa7}, 32), append(bytes.Repeat([]byte{0xa7}, 32), 0x01), append(bytes.Repeat([]byte{0xa7}, 32), 0x00, 0x00)}
	core, logs := observer.New(zap.InfoLevel)
	clk := &verifC17Clock{now: verifC17Base, tickC: make(chan time.Time), mock: clock.NewMock(), stop: make(chan struct{})}
	clk.mock.Set(verifC17Base)
	defer close(clk.stop)
	h := &verifC17Run{clk: clk, reqC: make(chan *gossipv1.ObservationRequest), queues: queues, logs: logs}
	ctx, cancel := context.WithCancel(context.Background())
	defer cancel()
	go handleReobservationRequests(ctx, clk, zap.New(core), h.reqC, queues)
	if !h.sync() {
		row.Aborted = true
		row.Mon = append(row.Mon, "the dispatcher did not take a first request within 10 s")
		row.MonOp = append(row.MonOp, -1)
		return row
	}
	clk.mu.Lock()
	if len(clk.periods) == 1 {
		row.Period = int64(clk.periods[0] / time.Second)
	}
	clk.mu.Unlock()
	if row.Period <= 0 {
		row.Mon = append(row.Mon, "the dispatcher did not ask the clock for exactly one positive purge ticker")
		row.MonOp = append(row.MonOp, -1)
		row.Period = 420
	}
	now := int64(0)
	nextTick := row.Period
	// the statement, evaluated as the history unfolds
	type key struct {
		c  uint16
		tx string
	}
	lastFwd := map[key]int64{}
	mon := func(i int, f string, a ...interface{}) {
		row.Mon = append(row.Mon, fmt.Sprintf(f, a...))
		row.MonOp = append(row.MonOp, i)
	}
	nops := 20 + r.below(41)
	if script != nil {
		nops = len(script)
	}
	for si := 0; si < nops; si++ {
		i := len(row.Ops)
		var stp verifC17Step
		if script != nil {
			stp = script[si]
		} else {
			switch x := r.below(100); {
			case x < 50:
				stp.kind = 0
				switch y := r.below(20); {
				case y < 15:
					stp.chain = uint32(pool[r.below(len(pool))])
				case y < 18:
					stp.chain = unknown[r.below(len(unknown))]
				default:
					stp.chain = uint32(pool[r.below(len(pool))]) + 65536*uint32(1+r.below(3)) // the uint16 conversion wraps
				}
				stp.tx = r.below(len(txs))
			case x < 75:
				stp.kind = 1
				stp.secs = verifC17Advances[r.below(len(verifC17Advances))]
			default:
				stp.kind = 2
				stp.qi = r.below(len(row.Chains))
			}
		}
		switch stp.kind {
		case 0: // a request
			chain := stp.chain
			tx := txs[stp.tx]
			if stp.txb != nil {
				tx = stp.txb
			}
			op := &verifC17Op{K: "req", Chain: chain, Tx: hex.EncodeToString(tx), T: now}
			row.Ops = append(row.Ops, op)
			before := verifC17Lens(row.Chains, queues)
			logs.TakeAll()
			req := &gossipv1.ObservationRequest{ChainId: chain, TxHash: tx}
			if !h.send(req) || !h.sync() {
				op.Stall = true
				op.Out = 9
				mon(i, "the dispatcher blocked: request %s at %d s was not taken / not finished within 10 s (queue lengths %v, capacities %v)", verifC17Name(req), now, before, row.Caps)
				row.Aborted = true
				break
			}
			op.Lens = verifC17Lens(row.Chains, queues)
			grown := -1
			ngrown := 0
			for qi := range before {
				if op.Lens[qi] != before[qi] {
					ngrown++
					grown = qi
				}
			}
			for _, e := range logs.TakeAll() {
				m := e.ContextMap()
				if m["tx_hash"] == op.Tx && len(e.Message) > 0 {
					op.Logs = append(op.Logs, e.Message)
				}
			}
			sort.Strings(op.Logs)
			op.Out = 9
			switch {
			case ngrown == 1 && op.Lens[grown] == before[grown]+1:
				op.Out = 0
			case ngrown == 0 && len(op.Logs) == 1 && op.Logs[0] == "skipping duplicate re-observation request":
				op.Out = 1
			case ngrown == 0 && len(op.Logs) == 1 && op.Logs[0] == "failed to send reobservation request to watcher":
				op.Out = 2
			case ngrown == 0 && len(op.Logs) == 1 && op.Logs[0] == "unknown chain ID for reobservation request":
				op.Out = 3
			}
			{
				// the chain a request names is its number as a 16-bit chain id (vaa.ChainID)
				k := key{uint16(chain), op.Tx}
				qi := -1
				for j, c := range row.Chains {
					if c == uint16(chain) {
						qi = j
					}
				}
				last, seen := lastFwd[k]
				if ngrown > 1 || (ngrown == 1 && grown != qi) {
					mon(i, "request %s changed the queue of a chain it does not name: lengths %v -> %v (queues %v)", verifC17Name(req), before, op.Lens, row.Chains)
				}
				if op.Out == 0 && grown == qi {
					if seen && now-last <= 660 {
						mon(i, "request %s forwarded at %d s although it was already forwarded at %d s (%d s <= 11 min earlier)", verifC17Name(req), now, last, now-last)
					}
					lastFwd[k] = now
				} else if qi >= 0 && before[qi] < row.Caps[qi] && (!seen || now-last >= 1080) {
					note := ""
					if row.Period > 420 {
						note = fmt.Sprintf(" [the purge ticker was asked to run every %d s, more than 7 min]", row.Period)
					}
					if seen {
						mon(i, "request %s at %d s not forwarded (outcome %d) although its last forward was at %d s (>= 18 min earlier) and the queue had room (%d of %d)%s", verifC17Name(req), now, op.Out, last, before[qi], row.Caps[qi], note)
					} else {
						mon(i, "request %s at %d s not forwarded (outcome %d) although it was never forwarded before and the queue had room (%d of %d)%s", verifC17Name(req), now, op.Out, before[qi], row.Caps[qi], note)
					}
				}
			}
		case 1: // the clock advances; the purge ticker (normally) fires at every multiple of its period on the way
			target := now + stp.secs
			for now < target && !row.Aborted {
				to := target
				if nextTick > now && nextTick <= target {
					to = nextTick // stop exactly at the expected tick, so that the handler reads the tick's own time from the clock
				}
				clk.mock.Add(time.Duration(to-now) * time.Second)
				now = to
				if now == nextTick {
					nextTick += row.Period
				}
				clk.settle()
				clk.mu.Lock()
				ticks := clk.ticks
				clk.ticks = nil
				stalled := clk.tickStall
				clk.mu.Unlock()
				for _, tt := range ticks {
					op := &verifC17Op{K: "tick", T: int64(tt.Sub(verifC17Base) / time.Second)}
					row.Ops = append(row.Ops, op)
					if !h.sync() {
						op.Stall = true
						mon(len(row.Ops)-1, "the dispatcher blocked: purge tick at %d s was not finished within 10 s", op.T)
						row.Aborted = true
					}
					op.Lens = verifC17Lens(row.Chains, queues)
				}
				if stalled && !row.Aborted {
					op := &verifC17Op{K: "tick", T: now, Stall: true}
					row.Ops = append(row.Ops, op)
					mon(len(row.Ops)-1, "the dispatcher blocked: a purge tick produced by %d s was not taken within 10 s", now)
					row.Aborted = true
				}
			}
		default: // a watcher takes one request from its queue
			qi := stp.qi
			op := &verifC17Op{K: "drain", Chain: uint32(row.Chains[qi]), T: now}
			row.Ops = append(row.Ops, op)
			select {
			case got := <-queues[vaa.ChainID(row.Chains[qi])]:
				op.Out = 1
				op.Got = verifC17Name(got)
				if uint16(got.ChainId) != row.Chains[qi] {
					mon(i, "the watcher of chain %d received request %s, which names another chain", row.Chains[qi], op.Got)
				}
			default:
			}
			op.Lens = verifC17Lens(row.Chains, queues)
		}
		if row.Aborted {
			break
		}
	}
	cancel()
	for qi, c := range row.Chains {
		var l []string
		for {
			select {
			case got := <-queues[vaa.ChainID(c)]:
				l = append(l, verifC17Name(got))
				if uint16(got.ChainId) != c {
					mon(-1, "the watcher of chain %d received request %s, which names another chain", c, verifC17Name(got))
				}
				continue
			default:
			}
			break
		}
		if l == nil {
			l = []string{}
		}
		row.Final = append(row.Final, l)
		_ = qi
	}
	clk.mu.Lock()
	row.Other = clk.other
	clk.mu.Unlock()
	return row
}

// PostObservationRequest at every fill level of queues of capacity 0..3 and of the production capacity
func verifC17Post(idx, capacity int, admin bool) *verifC17Row {
	row := &verifC17Row{K: "post", Idx: idx, Cap: capacity, Mon: []string{}, MonOp: []int{}}
	if admin {
		row.Other = []string{"through nodePrivilegedService.SendObservationRequest"}
	}
	ch := make(chan *gossipv1.ObservationRequest, capacity)
	for i := 0; i < capacity+3; i++ {
		req := &gossipv1.ObservationRequest{ChainId: 2, TxHash: []byte{byte(i)}}
		before := len(ch)
		done := make(chan error, 1)
		go func() {
			if admin {
				svc := &nodePrivilegedService{obsvReqSendC: ch, logger: zap.NewNop()}
				_, err := svc.SendObservationRequest(context.Background(), &nodev1.SendObservationRequestRequest{ObservationRequest: req})
				done <- err
				return
			}
			done <- common.PostObservationRequest(ch, req)
		}()
		res := 3
		select {
		case err := <-done:
			switch {
			case err == nil:
				res = 0
			case errors.Is(err, common.ErrChanFull):
				res = 1
			default:
				res = 2
			}
		case <-time.After(verifC17Deadline):
		}
		row.Posts = append(row.Posts, res)
		row.PLens = append(row.PLens, len(ch))
		switch {
		case res == 3:
			row.Mon = append(row.Mon, fmt.Sprintf("PostObservationRequest on a queue holding %d of %d did not return within 10 s", before, capacity))
			row.MonOp = append(row.MonOp, i)
		case before == capacity && (res != 1 || len(ch) != before):
			row.Mon = append(row.Mon, fmt.Sprintf("PostObservationRequest on a full queue (%d of %d): result %d, length afterwards %d (expected ErrChanFull, queue unchanged)", before, capacity, res, len(ch)))
			row.MonOp = append(row.MonOp, i)
		case before < capacity && (res != 0 || len(ch) != before+1):
			row.Mon = append(row.Mon, fmt.Sprintf("PostObservationRequest on a queue with room (%d of %d): result %d, length afterwards %d (expected nil, one more)", before, capacity, res, len(ch)))
			row.MonOp = append(row.MonOp, i)
		}
		if res == 3 {
			break
		}
	}
	return row
}

// A watcher whose queue is full while the request is handled: the request is dropped at once. Two measurements on the real dispatcher
// (wall-clock time is part of the statement here: "without blocking the dispatcher"), each decided by a majority of trials so that an
// unlucky scheduling of the dispatcher's goroutine cannot raise an alarm:
//   (a) 40 requests for the watcher with the full queue, then one for an idle watcher: compared with the same 41 requests when the
//       40 name a chain without a watcher (dropped as well);
//   (b) a request sent while the queue is full, room made 2 ms later: the request must not appear in the queue afterwards.
func verifC17Grace() map[string]interface{} {
	row := map[string]interface{}{"k": "grace", "run": 0}
	mon := []string{}
	slow, late := 0, 0
	var worst time.Duration
	const trials = 5
	for tr := 0; tr < trials; tr++ {
		ctx, cancel := context.WithCancel(context.Background())
		mock := clock.NewMock()
		reqC := make(chan *gossipv1.ObservationRequest)
		fullC := make(chan *gossipv1.ObservationRequest, 1)
		idleC := make(chan *gossipv1.ObservationRequest, 4)
		chains := map[vaa.ChainID]chan *gossipv1.ObservationRequest{vaa.ChainIDEthereum: fullC, vaa.ChainIDAlephium: idleC}
		go handleReobservationRequests(ctx, mock, zap.NewNop(), reqC, chains)
		stuck := false
		post := func(chain uint32, a, b byte) {
			select {
			case reqC <- &gossipv1.ObservationRequest{ChainId: chain, TxHash: []byte{0xC1, 0x7E, a, b, byte(tr)}}:
			case <-time.After(verifC17Deadline):
				stuck = true
			}
		}
		burst := func(chain uint32, tag byte) time.Duration {
			t0 := time.Now()
			for i := 0; i < 40 && !stuck; i++ {
				post(chain, tag, byte(i))
			}
			post(uint32(vaa.ChainIDAlephium), tag, 0xFF)
			select {
			case <-idleC:
			case <-time.After(verifC17Deadline):
				stuck = true
			}
			return time.Since(t0)
		}
		post(uint32(vaa.ChainIDEthereum), 0, 0)
		for i := 0; i < 2000 && len(fullC) == 0; i++ {
			time.Sleep(100 * time.Microsecond)
		}
		base := burst(4711, 1) // no watcher for this chain
		full := burst(uint32(vaa.ChainIDEthereum), 2)
		if full > worst {
			worst = full
		}
		if stuck || full > base+150*time.Millisecond {
			slow++
		}
		if !stuck && len(fullC) == 1 {
			post(uint32(vaa.ChainIDEthereum), 3, 0)
			// room is made only after the dispatcher had twenty times the time it needed per request in the burst just measured
			// (2 ms at least): on a loaded machine the wait grows with the load, so a late scheduling of the dispatcher is not mistaken for a wait
			wait := 20 * base / 41
			if wait < 2*time.Millisecond {
				wait = 2 * time.Millisecond
			}
			time.Sleep(wait)
			<-fullC
			time.Sleep(60 * time.Millisecond)
			if len(fullC) > 0 {
				late++
			}
		}
		cancel()
	}
	if slow*2 > trials {
		mon = append(mon, fmt.Sprintf("the dispatcher was blocked by requests for a watcher whose queue is full: 40 such requests held up a request for an idle watcher (up to %v; more than 150 ms longer than 40 requests for a chain without a watcher) in %d of %d trials", worst.Round(time.Millisecond), slow, trials))
	}
	if late*2 > trials {
		mon = append(mon, fmt.Sprintf("the dispatcher blocked on a full watcher queue instead of dropping: a request that found the queue full was delivered after room was made a moment (2 ms or more) later, in %d of %d trials", late, trials))
	}
	row["mon"] = mon
	row["slow_trials"], row["late_trials"], row["trials"] = slow, late, trials
	return row
}

func TestVerifC17(t *testing.T) {
	f, err := os.Create(os.Getenv("VERIF_OUT"))
	if err != nil {
		t.Fatal(err)
	}
	defer f.Close()
	w := bufio.NewWriterSize(f, 1<<20)
	defer w.Flush()
	enc := json.NewEncoder(w)
	seed, _ := strconv.ParseUint(os.Getenv("VERIF_SEED"), 10, 64)
	thorough := os.Getenv("VERIF_TIER") == "thorough"
	n := 400
	if thorough {
		n = 4000
	}
	// histories are independent (own clock, own dispatcher, own generator state derived from the seed and the index): run them on
	// several workers, emit in index order
	rows := make([]*verifC17Row, n)
	var stalls int64
	var wg sync.WaitGroup
	next := int64(-1)
	for wk := 0; wk < 8; wk++ {
		wg.Add(1)
		go func() {
			defer wg.Done()
			for atomic.LoadInt64(&stalls) < 3 {
				idx := int(atomic.AddInt64(&next, 1))
				if idx >= n {
					return
				}
				var script []verifC17Step
				if idx < len(verifC17Scripts) {
					script = verifC17Scripts[idx]
				} else if idx == len(verifC17Scripts) {
					script = verifC17SteadyTraffic()
				} else if idx == len(verifC17Scripts)+1 {
					script = verifC17ManyDistinct(map[bool]int{false: 1500, true: 9000}[thorough])
				}
				r := &verifC17Rng{s: (seed ^ 0xC17) + uint64(idx)*0x9E3779B97F4A7C15}
				r.next()
				row := verifC17History(r, idx, script)
				if row.Aborted {
					atomic.AddInt64(&stalls, 1)
				}
				rows[idx] = row
			}
		}()
	}
	wg.Wait()
	for _, row := range rows {
		if row != nil {
			enc.Encode(row)
		}
	}
	for i, c := range []int{0, 1, 2, 3, common.ObsvReqChannelSize} {
		enc.Encode(verifC17Post(i, c, false))
	}
	for i, c := range []int{0, 1, 3} {
		enc.Encode(verifC17Post(5+i, c, true))
	}
	enc.Encode(verifC17Grace())
	enc.Encode(map[string]interface{}{"k": "consts", "chansize": common.ObsvReqChannelSize})
}
