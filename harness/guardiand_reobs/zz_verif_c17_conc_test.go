//go:build verif

package guardiand

// C17, schedules: the real dispatcher under concurrent producers and concurrently reading watchers (run with -race in the
// thorough tier).  Time stands still inside an epoch and is advanced (with the purge ticks that fall due) between epochs;
// every epoch ends with a barrier (producers done, dispatcher idle, queues drained), so every delivery belongs to one epoch.
// Checked on the deliveries: right watcher, at most one delivery per (chain, transaction) per epoch and per 11 minutes,
// producers are never held up by slow watchers (the dispatcher drops instead of blocking).

import (
	"bufio"
	"context"
	"encoding/hex"
	"encoding/json"
	"fmt"
	"os"
	"runtime"
	"strconv"
	"sync"
	"testing"
	"time"

	"github.com/alephium/wormhole-fork/node/pkg/common"
	gossipv1 "github.com/alephium/wormhole-fork/node/pkg/proto/gossip/v1"
	nodev1 "github.com/alephium/wormhole-fork/node/pkg/proto/node/v1"
	"github.com/alephium/wormhole-fork/node/pkg/vaa"
	"go.uber.org/zap"
)

type verifC17ConcRow struct {
	K          string   `json:"k"`
	Run        int      `json:"run"`
	Epochs     int      `json:"epochs"`
	Sent       int      `json:"sent"`
	Delivered  int      `json:"delivered"`
	MaxPerKey  int      `json:"max_deliveries_of_one_key"`
	SlowEpochs int      `json:"epochs_with_slow_watchers"`
	Mon        []string `json:"mon"`
}

func verifC17ConcRun(seed uint64, run int, epochs int) *verifC17ConcRow {
	row := &verifC17ConcRow{K: "conc", Run: run, Epochs: epochs, Mon: []string{}}
	r := &verifC17Rng{s: seed ^ 0xC17C ^ uint64(run)<<20}
	chains := []uint16{2, 4, 255}
	caps := []int{1 + r.below(3), 1 + r.below(3), 1 + r.below(6)}
	queues := map[vaa.ChainID]chan *gossipv1.ObservationRequest{}
	for i, c := range chains {
		queues[vaa.ChainID(c)] = make(chan *gossipv1.ObservationRequest, caps[i])
	}
	clk := &verifC17Clock{now: verifC17Base, tickC: make(chan time.Time)}
	reqC := make(chan *gossipv1.ObservationRequest) // unbuffered: a send that returns was taken by the dispatcher
	h := &verifC17Run{clk: clk, reqC: reqC, queues: queues}
	ctx, cancel := context.WithCancel(context.Background())
	defer cancel()
	go handleReobservationRequests(ctx, clk, zap.NewNop(), reqC, queues)
	if !h.sync() {
		row.Mon = append(row.Mon, "the dispatcher did not take a first request within 10 s")
		return row
	}
	period := int64(420)
	clk.mu.Lock()
	if len(clk.periods) == 1 && clk.periods[0] > 0 {
		period = int64(clk.periods[0] / time.Second)
	}
	clk.mu.Unlock()
	type key struct {
		c  uint16
		tx string
	}
	lastDelivered := map[key]int64{}
	count := map[key]int{}
	now, nextTick := int64(0), period
	for e := 0; e < epochs; e++ {
		// watchers: one reader per queue, slow in some epochs
		slow := r.below(3) == 0
		if slow {
			row.SlowEpochs++
		}
		var mu sync.Mutex
		got := map[uint16][]*gossipv1.ObservationRequest{}
		stop := make(chan struct{})
		var wg sync.WaitGroup
		for _, c := range chains {
			wg.Add(1)
			go func(c uint16) {
				defer wg.Done()
				q := queues[vaa.ChainID(c)]
				for {
					select {
					case x := <-q:
						mu.Lock()
						got[c] = append(got[c], x)
						mu.Unlock()
						if slow {
							time.Sleep(200 * time.Microsecond)
						}
					case <-stop:
						for { // the barrier: take what is left
							select {
							case x := <-q:
								mu.Lock()
								got[c] = append(got[c], x)
								mu.Unlock()
								continue
							default:
							}
							return
						}
					}
				}
			}(c)
		}
		// producers
		var pg sync.WaitGroup
		stalled := make(chan string, 8)
		nprod := 2 + r.below(3)
		for p := 0; p < nprod; p++ {
			pr := &verifC17Rng{s: r.next()}
			pg.Add(1)
			go func() {
				defer pg.Done()
				for i := 0; i < 40; i++ {
					chain := uint32(chains[pr.below(len(chains))])
					if pr.below(10) == 0 {
						chain = 9
					}
					req := &gossipv1.ObservationRequest{ChainId: chain, TxHash: []byte{byte(pr.below(6))}}
					select {
					case reqC <- req:
					case <-time.After(verifC17Deadline):
						stalled <- verifC17Name(req)
						return
					}
				}
			}()
			row.Sent += 40
		}
		pg.Wait()
		select {
		case s := <-stalled:
			row.Mon = append(row.Mon, fmt.Sprintf("the dispatcher blocked: a producer could not hand over request %s within 10 s in epoch %d (watchers slow: %v)", s, e, slow))
			close(stop)
			wg.Wait()
			return row
		default:
		}
		if !h.sync() || !h.sync() {
			row.Mon = append(row.Mon, fmt.Sprintf("the dispatcher blocked at the end of epoch %d", e))
			close(stop)
			wg.Wait()
			return row
		}
		close(stop)
		wg.Wait()
		// the deliveries of this epoch
		seen := map[key]bool{}
		for c, l := range got {
			for _, x := range l {
				row.Delivered++
				k := key{uint16(x.ChainId), hex.EncodeToString(x.TxHash)}
				if k.c != c {
					row.Mon = append(row.Mon, fmt.Sprintf("the watcher of chain %d received request %s, which names another chain", c, verifC17Name(x)))
				}
				if seen[k] {
					row.Mon = append(row.Mon, fmt.Sprintf("request %s was forwarded twice at the same instant (%d s, epoch %d)", verifC17Name(x), now, e))
				}
				seen[k] = true
				if t0, ok := lastDelivered[k]; ok && now-t0 <= 660 && now != t0 {
					row.Mon = append(row.Mon, fmt.Sprintf("request %s forwarded at %d s although it was already forwarded at %d s (%d s <= 11 min earlier)", verifC17Name(x), now, t0, now-t0))
				}
				lastDelivered[k] = now
				count[k]++
				if count[k] > row.MaxPerKey {
					row.MaxPerKey = count[k]
				}
			}
		}
		// time passes
		target := now + verifC17Advances[r.below(len(verifC17Advances))]
		for nextTick <= target {
			now = nextTick
			if !h.tick(verifC17Base.Add(time.Duration(now) * time.Second)) {
				row.Mon = append(row.Mon, fmt.Sprintf("the dispatcher blocked: purge tick at %d s not taken within 10 s", now))
				return row
			}
			nextTick += period
		}
		now = target
		clk.set(verifC17Base.Add(time.Duration(now) * time.Second))
	}
	return row
}

func TestVerifC17Conc(t *testing.T) {
	f, err := os.OpenFile(os.Getenv("VERIF_OUT"), os.O_APPEND|os.O_CREATE|os.O_WRONLY, 0644)
	if err != nil {
		t.Fatal(err)
	}
	defer f.Close()
	w := bufio.NewWriter(f)
	defer w.Flush()
	enc := json.NewEncoder(w)
	seed, _ := strconv.ParseUint(os.Getenv("VERIF_SEED"), 10, 64)
	runs, epochs := 4, 30
	if os.Getenv("VERIF_TIER") == "thorough" {
		runs, epochs = 40, 60
	}
	for i := 0; i < runs; i++ {
		enc.Encode(verifC17ConcRun(seed, i, epochs))
	}
}

// Independent producers of the outbound request queue (the processor's cleanup loop calls common.PostObservationRequest, the
// admin RPC SendObservationRequest does too) released together on a queue with few free slots, nobody reading: every call must
// return at once — nil for as many as there is room, ErrChanFull for the rest — and none may be left stalled in a send.
type verifC17RaceRow struct {
	K         string   `json:"k"`
	Rounds    int      `json:"rounds"`
	Producers int      `json:"producers"`
	Calls     int      `json:"calls"`
	Ok        int      `json:"ok"`
	Full      int      `json:"full"`
	Stalled   int      `json:"stalled"`
	Round     int      `json:"stalled_round"`
	Cap       int      `json:"cap"`
	Fill      int      `json:"fill"`
	Mon       []string `json:"mon"`
}

func TestVerifC17PostRace(t *testing.T) {
	f, err := os.OpenFile(os.Getenv("VERIF_OUT"), os.O_APPEND|os.O_CREATE|os.O_WRONLY, 0644)
	if err != nil {
		t.Fatal(err)
	}
	defer f.Close()
	enc := json.NewEncoder(f)
	if runtime.GOMAXPROCS(0) < 4 {
		defer runtime.GOMAXPROCS(runtime.GOMAXPROCS(4))
	}
	seed, _ := strconv.ParseUint(os.Getenv("VERIF_SEED"), 10, 64)
	r := &verifC17Rng{s: seed ^ 0xC17D}
	rounds := 8000
	if os.Getenv("VERIF_TIER") == "thorough" {
		rounds = 80000
	}
	const producers = 4
	row := &verifC17RaceRow{K: "race", Rounds: rounds, Producers: producers, Round: -1, Mon: []string{}}
	svcLogger := zap.NewNop()
	for round := 0; round < rounds; round++ {
		capacity := []int{1, 1, 2, 3, common.ObsvReqChannelSize}[r.below(5)]
		free := 1
		if capacity > 1 && r.below(4) == 0 {
			free = 2
		}
		ch := make(chan *gossipv1.ObservationRequest, capacity)
		for i := 0; i < capacity-free; i++ {
			ch <- &gossipv1.ObservationRequest{ChainId: 2, TxHash: []byte{0xff, byte(i)}}
		}
		start := make(chan struct{})
		res := make(chan int, producers)
		for p := 0; p < producers; p++ {
			req := &gossipv1.ObservationRequest{ChainId: 2, TxHash: []byte{byte(p)}}
			admin := p%2 == 1
			go func() {
				<-start
				var err error
				if admin {
					svc := &nodePrivilegedService{obsvReqSendC: ch, logger: svcLogger}
					_, err = svc.SendObservationRequest(context.Background(), &nodev1.SendObservationRequestRequest{ObservationRequest: req})
				} else {
					err = common.PostObservationRequest(ch, req)
				}
				switch {
				case err == nil:
					res <- 0
				case err == common.ErrChanFull:
					res <- 1
				default:
					res <- 2
				}
			}()
		}
		close(start)
		ok, full, other := 0, 0, 0
		timeout := time.After(3 * time.Second)
		done := 0
	collect:
		for done < producers {
			select {
			case x := <-res:
				done++
				switch x {
				case 0:
					ok++
				case 1:
					full++
				default:
					other++
				}
			case <-timeout:
				break collect
			}
		}
		row.Calls += producers
		row.Ok += ok
		row.Full += full
		if done < producers {
			row.Stalled = producers - done
			row.Round, row.Cap, row.Fill = round, capacity, capacity-free
			row.Mon = append(row.Mon, fmt.Sprintf("round %d: %d concurrent posts on a queue holding %d of %d: %d returned nil, %d returned ErrChanFull, %d did not return within 3 s (stalled in a send on the full queue)",
				round, producers, capacity-free, capacity, ok, full, producers-done))
			break
		}
		if ok != free || full != producers-free || other != 0 || len(ch) != capacity {
			row.Round, row.Cap, row.Fill = round, capacity, capacity-free
			row.Mon = append(row.Mon, fmt.Sprintf("round %d: %d concurrent posts on a queue holding %d of %d: %d returned nil, %d ErrChanFull, %d another error, queue length afterwards %d (expected %d nil, %d ErrChanFull, queue full)",
				round, producers, capacity-free, capacity, ok, full, other, len(ch), free, producers-free))
			break
		}
	}
	enc.Encode(row)
}
