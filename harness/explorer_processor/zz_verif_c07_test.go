//go:build verif

package processor

// C07 on the explorer side: verifyVAA's signature-count threshold, decided on REAL signatures, for guardian-set sizes n and counts
// k = q-1 and k = q with q = floor(2n/3)+1 (literal); the explorer must refuse the first and accept the second, exactly like the node and
// both contracts.  Rows {"k":"c07x","n":..,"count":..,"accepted":..,"mon":[..]}.

import (
	"crypto/ecdsa"
	"fmt"
	"testing"
	"time"

	"github.com/alephium/wormhole-fork/node/pkg/vaa"
	eth_common "github.com/ethereum/go-ethereum/common"
	"github.com/ethereum/go-ethereum/crypto"
)

func TestVerifC07Explorer(t *testing.T) {
	r := &vrng{s: verifSeed() ^ 0xc07e}
	o := verifOut(t)
	defer o.close()
	keys := make([]*ecdsa.PrivateKey, 255)
	addrs := make([]eth_common.Address, 255)
	for i := range keys {
		keys[i] = verifKey(r)
		addrs[i] = crypto.PubkeyToAddress(keys[i].PublicKey)
	}
	ns := []int{}
	for n := 1; n <= 255; n++ {
		if verifThorough() || n <= 24 || n%3 == 0 && n <= 60 || n == 85 || n == 127 || n == 128 || n == 170 || n == 171 || n >= 253 {
			ns = append(ns, n)
		}
	}
	for _, n := range ns {
		q := 2*n/3 + 1
		for _, k := range []int{q - 1, q} {
			if k <= 0 {
				continue
			}
			v := &vaa.VAA{Version: 1, GuardianSetIndex: 0, Timestamp: time.Unix(1700000000, 0), Nonce: uint32(n), Sequence: uint64(n*1000 + k), ConsistencyLevel: 1,
				EmitterChain: 2, TargetChain: 255, Payload: []byte{1, byte(n), byte(k)}}
			for i := 0; i < k; i++ {
				v.AddSignature(keys[i], uint8(i))
			}
			var err error
			pan := ""
			func() {
				defer func() {
					if x := recover(); x != nil {
						pan = fmt.Sprint(x)
					}
				}()
				err = verifyVAA(v, addrs[:n])
			}()
			mon := []string{}
			acc := err == nil && pan == ""
			switch {
			case pan != "":
				mon = append(mon, fmt.Sprintf("verifyVAA panicked for a set of %d with %d signatures: %s", n, k, pan))
			case k >= q && !acc:
				mon = append(mon, fmt.Sprintf("the explorer refuses a VAA with %d valid signatures of a set of %d (threshold floor(2n/3)+1 = %d): %v", k, n, q, err))
			case k < q && acc:
				mon = append(mon, fmt.Sprintf("the explorer accepts a VAA with %d valid signatures of a set of %d: its threshold is not floor(2n/3)+1 = %d (the node and both contracts refuse this VAA)", k, n, q))
			}
			o.emit(map[string]interface{}{"k": "c07x", "n": n, "count": k, "accepted": acc, "mon": mon})
		}
	}
}
