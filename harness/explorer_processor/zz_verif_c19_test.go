//go:build verif

package processor

// C19, the gate: vaaGossipConsumer.Push on a real GuardianSets store (fed by the simulated Ethereum node), the real
// deduplicator (go-cache store, synchronous) and a small persistence queue.
// One scenario = one JSON row: chain history, ops, and after every op what the harness observed from outside.
import (
	"context"
	"crypto/ecdsa"
	"encoding/hex"
	"fmt"
	"strings"
	"testing"
	"time"

	"github.com/alephium/wormhole-fork/explorer-backend/deduplicator"
	"github.com/alephium/wormhole-fork/explorer-backend/guardiansets"
	"github.com/alephium/wormhole-fork/node/pkg/common"
	"github.com/alephium/wormhole-fork/node/pkg/vaa"
	"github.com/eko/gocache/v3/cache"
	"github.com/eko/gocache/v3/store"
	eth_common "github.com/ethereum/go-ethereum/common"
	"github.com/ethereum/go-ethereum/crypto"
	gocache "github.com/patrickmn/go-cache"
	"go.uber.org/zap"
)

func verifKey(r *vrng) *ecdsa.PrivateKey {
	for {
		k, err := crypto.ToECDSA(r.bytes(32))
		if err == nil {
			return k
		}
	}
}

// direct use of go-ethereum (not through the repo): recovered address or nil
func verifRecover(h []byte, sig []byte) []byte {
	pk, err := crypto.Ecrecover(h, sig)
	if err != nil {
		return nil
	}
	return crypto.Keccak256(pk[1:])[12:]
}

// independent statement of "v carries valid signatures of a quorum of the set `keys`": strictly ascending indices inside the
// set, every signature recovers to the key at its index, at least floor(2n/3)+1 of them
func verifSpecAccepts(v *vaa.VAA, keys []eth_common.Address) bool {
	n := len(keys)
	if n == 0 || len(v.Signatures) == 0 {
		return false
	}
	if len(v.Signatures) < (2*n)/3+1 {
		return false
	}
	h := v.SigningMsg()
	last := -1
	for _, s := range v.Signatures {
		if int(s.Index) >= n || int(s.Index) <= last {
			return false
		}
		last = int(s.Index)
		a := verifRecover(h.Bytes(), s.Signature[:])
		if a == nil || eth_common.BytesToAddress(a) != keys[s.Index] {
			return false
		}
	}
	return true
}

type vSigCase struct {
	I   int     `json:"i"`
	D   string  `json:"d"`
	Rec *string `json:"rec"`
}

func verifPushClass(err error, pan string) string {
	if pan != "" {
		return "panic"
	}
	if err == nil {
		return "nil"
	}
	m := err.Error()
	switch {
	case strings.Contains(m, "No addresses were provided"):
		return "v-noaddr"
	case strings.Contains(m, "VAA was not signed"):
		return "v-unsigned"
	case strings.Contains(m, "VAA did not have a quorum"):
		return "v-noquorum"
	case strings.Contains(m, "VAA had bad signatures"):
		return "v-badsigs"
	case strings.Contains(m, "message queue is full"):
		return "full"
	case strings.Contains(m, "invalid guardian index"):
		return "g-index"
	}
	return "g-fetch"
}

type vStoreProj struct {
	Cur   int64   `json:"cur"`
	Idx   []int64 `json:"idx"`
	NKeys []int   `json:"nkeys"`
	Nil   []bool  `json:"nil"`
	Pan   string  `json:"panic,omitempty"`
}

// the store seen from outside the package: current set, then every index up to it through the fast path
func verifProjStore(gs *guardiansets.GuardianSets) (p vStoreProj) {
	defer func() {
		if x := recover(); x != nil {
			p.Pan = fmt.Sprint(x)
		}
	}()
	p = vStoreProj{Idx: []int64{}, NKeys: []int{}, Nil: []bool{}}
	c := gs.GetCurrentGuardianSet()
	p.Cur = int64(c.Index)
	// the current index itself is not exported; the list is as long as the highest index that answers on the fast path.
	// Walk up from 0 until the lookup would leave the fast path: position cur is the last one when the store is aligned;
	// a misaligned store shows up as idx[i] != i or as a panic
	for i := 0; i <= int(p.Cur); i++ {
		g, err := gs.GetGuardianSet(context.Background(), i)
		if err != nil || g == nil {
			p.Pan = fmt.Sprintf("fast-path lookup of %d failed: %v", i, err)
			return
		}
		p.Idx = append(p.Idx, int64(g.Index))
		p.NKeys = append(p.NKeys, len(g.Keys))
		p.Nil = append(p.Nil, g.Keys == nil)
	}
	return
}

func verifNewCache() cache.CacheInterface[bool] {
	c := gocache.New(5*time.Minute, 10*time.Minute)
	return cache.New[bool](store.NewGoCache(c))
}

// does the ABI decoder hand an empty key list over as nil or as an empty slice?  (measured once, passed to the model)
func verifEmptyKeysNil(sim *verifEthSim, r *vrng) (bool, error) {
	// (a chain whose set 1 exists and has no keys: an index the chain does not have is not fetched at all)
	sim.set([][]eth_common.Address{{eth_common.BytesToAddress(r.bytes(20))}, {}}, false)
	c := make(chan *common.GuardianSet, 8)
	gs := guardiansets.NewGuardianSets([]*common.GuardianSet{{Keys: sim.sets[0], Index: 0}}, sim.url, zap.NewNop(), time.Hour,
		eth_common.HexToAddress("0x0290FB167208Af455bB137780163b7B7a9a10C16"), c)
	g, err := gs.GetGuardianSet(context.Background(), 1)
	if err != nil {
		return false, err
	}
	if len(g.Keys) != 0 {
		return false, fmt.Errorf("simulated chain answered index 1 with %d keys", len(g.Keys))
	}
	return g.Keys == nil, nil
}

func TestVerifC19Push(t *testing.T) {
	r := &vrng{s: verifSeed() ^ 0xc19c}
	o := verifOut(t)
	defer o.close()
	sim, err := newVerifEthSim()
	if err != nil {
		t.Fatal(err)
	}
	defer sim.close()
	emptyNil, err := verifEmptyKeysNil(sim, r)
	if err != nil {
		o.emit(map[string]interface{}{"k": "probe", "sc": -1, "mon": []string{"GetGuardianSet(1) on a store holding set 0 with a chain whose set 1 has no keys failed: " + err.Error()}})
	}
	scenarios := 50
	if verifThorough() {
		scenarios = 500
	}
	slowPushes, slowSaid := 0, false
	pool := make([]*ecdsa.PrivateKey, 48)
	poolAddr := make([]eth_common.Address, len(pool))
	for i := range pool {
		pool[i] = verifKey(r)
		poolAddr[i] = crypto.PubkeyToAddress(pool[i].PublicKey)
	}
	sizes := []int{1, 2, 3, 4, 4, 5, 7, 7, 13, 19}
	for sc := 0; sc < scenarios && slowPushes < 4; sc++ {
		K := 2 + r.below(5)
		// set i: indices into the key pool.  A rotation keeps most members (like real guardian-set upgrades): replace one,
		// append one, drop one, or draw a fresh set
		members := make([][]int, K)
		for i := 0; i < K; i++ {
			if i == 0 || r.below(4) == 0 {
				n := sizes[r.below(len(sizes))]
				perm := r.perm(len(pool))
				members[i] = append([]int{}, perm[:n]...)
				continue
			}
			prev := append([]int{}, members[i-1]...)
			fresh := func() int {
				for {
					k := r.below(len(pool))
					dup := false
					for _, x := range prev {
						if x == k {
							dup = true
						}
					}
					if !dup {
						return k
					}
				}
			}
			switch r.below(3) {
			case 0:
				prev[r.below(len(prev))] = fresh()
			case 1:
				if len(prev) < 19 {
					prev = append(prev, fresh())
				} else {
					prev[r.below(len(prev))] = fresh()
				}
			case 2:
				if len(prev) > 1 {
					j := r.below(len(prev))
					prev = append(prev[:j], prev[j+1:]...)
				} else {
					prev[0] = fresh()
				}
			}
			members[i] = prev
		}
		hist := make([][]eth_common.Address, K)
		histHex := make([][]string, K)
		for i := range hist {
			for _, k := range members[i] {
				hist[i] = append(hist[i], poolAddr[k])
				histHex[i] = append(histHex[i], hex.EncodeToString(poolAddr[k][:]))
			}
		}
		k0 := 1 + r.below(K)
		chainLen := k0 + r.below(K-k0+1)
		chainLen0 := chainLen
		sim.set(hist[:chainLen], false)
		init := []*common.GuardianSet{}
		for i := 0; i < k0; i++ {
			init = append(init, &common.GuardianSet{Keys: hist[i], Index: uint32(i)})
		}
		gsC := make(chan *common.GuardianSet, 256)
		gs := guardiansets.NewGuardianSets(init, sim.url, zap.NewNop(), time.Hour,
			eth_common.HexToAddress("0x0290FB167208Af455bB137780163b7B7a9a10C16"), gsC)
		<-gsC
		qcap := 1 + r.below(3)
		queue := make(chan *Message, qcap)
		cons := NewVAAGossipConsumer(gs, deduplicator.New(verifNewCache(), zap.NewNop()), queue, zap.NewNop())
		// what the store answers for index i, fixed when the store first learns it (independent bookkeeping of the harness)
		known := map[int][]eth_common.Address{}
		for i := 0; i < k0; i++ {
			known[i] = hist[i]
		}
		cur := k0 - 1
		failing := false
		seq := uint64(1000 * sc)
		type sent struct {
			v   *vaa.VAA
			raw []byte
		}
		var earlier []sent   // messages pushed before (for duplicates / retries)
		var fullOnes []sent  // messages whose hand-off failed because the queue was full
		var queued []*vaa.VAA // what the harness believes is in the queue (FIFO)
		handed := map[string]bool{} // message ids handed over to the queue so far
		ops := []map[string]interface{}{}
		mon := []string{}
		nops := 10 + r.below(12)
		mkVAA := func(g int) *vaa.VAA {
			seq++
			v := &vaa.VAA{Version: 1, GuardianSetIndex: uint32(g), Timestamp: time.Unix(int64(1600000000+r.below(1<<20)), 0),
				Nonce: uint32(r.next()), Sequence: seq, ConsistencyLevel: uint8(r.below(256)), EmitterChain: vaa.ChainID(1 + r.below(5)),
				TargetChain: vaa.ChainID(r.below(4)), Payload: r.bytes(1 + r.below(40))}
			copy(v.EmitterAddress[:], r.bytes(32))
			if r.below(3) == 0 { // few emitters: ids differ in the sequence only
				v.EmitterAddress = vaa.Address{31: byte(1 + r.below(2))}
			}
			return v
		}
		signWith := func(v *vaa.VAA, set []int, who []int) {
			h := v.SigningMsg()
			for _, i := range who {
				s, err := crypto.Sign(h.Bytes(), pool[set[i]])
				if err != nil {
					panic(err)
				}
				sg := &vaa.Signature{Index: uint8(i)}
				copy(sg.Signature[:], s)
				v.Signatures = append(v.Signatures, sg)
			}
		}
		subset := func(n, k int) []int { // k ascending positions out of n
			perm := r.perm(n)[:k]
			for i := 1; i < len(perm); i++ {
				for j := i; j > 0 && perm[j-1] > perm[j]; j-- {
					perm[j-1], perm[j] = perm[j], perm[j-1]
				}
			}
			return perm
		}
		quorumOf := func(n int) int { return (2*n)/3 + 1 }
		for j := 0; j < nops; j++ {
			op := map[string]interface{}{}
			x := r.below(20)
			switch {
			case x < 2 && len(queued) > 0: // the queue consumer takes the oldest message
				var got *Message
				select {
				case got = <-queue:
				default:
				}
				op["op"] = "deq"
				if got == nil {
					op["got"] = ""
					mon = append(mon, "a message the harness saw accepted (Push returned nil, queue grew) is not in the queue")
				} else {
					op["got"] = got.vaa.MessageID()
					op["gotseq"] = got.vaa.Sequence
					if got.vaa != queued[0] {
						mon = append(mon, "queue order: dequeued "+got.vaa.MessageID()+" while "+queued[0].MessageID()+" was queued first")
					}
				}
				queued = queued[1:]
			case x < 3: // chain grows
				if chainLen < K {
					chainLen++
				}
				sim.mu.Lock()
				sim.sets = hist[:chainLen]
				sim.mu.Unlock()
				op["op"] = "chainlen"
				op["len"] = chainLen
			case x < 4:
				failing = !failing
				sim.mu.Lock()
				sim.fail = failing
				sim.mu.Unlock()
				op["op"] = "chainfail"
				op["fail"] = failing
			default:
				// which set does the VAA name?
				g := r.below(cur + 1)
				switch r.below(8) {
				case 0, 1:
					g = cur
				case 2:
					if cur+1 < chainLen || r.below(4) == 0 {
						g = cur + 1 // fetched now if the chain has it
					}
				case 3:
					if r.below(6) == 0 {
						g = cur + 1 + r.below(3) // beyond: the chain answers unknown indices with empty key lists
					} else if chainLen-1 > cur {
						g = chainLen - 1 // several sets fetched at once
					}
				}
				kinds := []string{"valid", "valid", "valid", "valid-all", "under", "unsigned", "foreign", "wrongdigest", "wrongset", "current-signs-old",
					"unordered", "dupsigner", "dup", "retry-full", "index-out", "forged-copy", "forged-copy"}
				kind := kinds[r.below(len(kinds))]
				var v *vaa.VAA
				raw := r.bytes(8)
				gk := g // the set whose keys sign
				if gk >= K {
					gk = K - 1
				}
				set := members[gk]
				n := len(set)
				q := quorumOf(n)
				switch kind {
				case "valid":
					v = mkVAA(g)
					signWith(v, set, subset(n, q+r.below(n-q+1)))
				case "valid-all":
					v = mkVAA(g)
					signWith(v, set, subset(n, n))
				case "under":
					v = mkVAA(g)
					signWith(v, set, subset(n, q-1)) // q-1 = 0 for n = 1: unsigned
				case "unsigned":
					v = mkVAA(g)
				case "foreign":
					v = mkVAA(g)
					who := subset(n, q)
					signWith(v, set, who)
					// replace one signature by one of a key outside the set (at the same index)
					outs := -1
					for k := range pool {
						in := false
						for _, m := range set {
							if m == k {
								in = true
							}
						}
						if !in {
							outs = k
							break
						}
					}
					h := v.SigningMsg()
					s, _ := crypto.Sign(h.Bytes(), pool[outs])
					copy(v.Signatures[r.below(len(v.Signatures))].Signature[:], s)
				case "wrongdigest":
					v = mkVAA(g)
					signWith(v, set, subset(n, q))
					v.Payload[r.below(len(v.Payload))] ^= 1 << uint(r.below(8))
				case "wrongset": // names g, signed by a quorum of another set
					v = mkVAA(g)
					other := r.below(K)
					signWith(v, members[other], subset(len(members[other]), quorumOf(len(members[other]))))
				case "current-signs-old": // names an old set, signed by a quorum of the CURRENT set
					if cur > 0 {
						g = r.below(cur)
					}
					v = mkVAA(g)
					ci := cur
					if ci > K-1 {
						ci = K - 1
					}
					cs := members[ci]
					signWith(v, cs, subset(len(cs), quorumOf(len(cs))))
				case "unordered":
					v = mkVAA(g)
					signWith(v, set, subset(n, n))
					if n >= 2 {
						a := r.below(n - 1)
						v.Signatures[a], v.Signatures[a+1] = v.Signatures[a+1], v.Signatures[a]
					}
				case "dupsigner":
					v = mkVAA(g)
					who := subset(n, q)
					signWith(v, set, who)
					// one more copy of an existing signature appended (same signer twice)
					cp := *v.Signatures[r.below(len(v.Signatures))]
					v.Signatures = append(v.Signatures, &cp)
				case "index-out": // signature index == len(keys)
					v = mkVAA(g)
					signWith(v, set, subset(n, q))
					v.Signatures[len(v.Signatures)-1].Index = uint8(n)
				case "dup":
					if len(earlier) > 0 {
						e := earlier[r.below(len(earlier))]
						v, raw = e.v, e.raw
					} else {
						v = mkVAA(g)
						signWith(v, set, subset(n, q))
					}
				case "forged-copy":
					// the BODY of a VAA that was verified before (preferably one whose hand-off failed, so that the deduplicator does not know it),
					// with signatures that do not verify: one signature replaced by noise, or cut to below the quorum, or the set index changed
					var src *vaa.VAA
					if len(fullOnes) > 0 {
						src = fullOnes[r.below(len(fullOnes))].v
					} else if len(earlier) > 0 {
						src = earlier[r.below(len(earlier))].v
					}
					if src == nil || len(src.Signatures) == 0 {
						v = mkVAA(g)
						signWith(v, set, subset(n, q))
						v.Signatures[0].Signature[3] ^= 0x40
					} else {
						cp := *src
						cp.Signatures = nil
						for _, sg := range src.Signatures {
							c := *sg
							cp.Signatures = append(cp.Signatures, &c)
						}
						switch r.below(3) {
						case 0:
							cp.Signatures[r.below(len(cp.Signatures))].Signature[1+r.below(60)] ^= 0x20
						case 1:
							cp.Signatures = cp.Signatures[:len(cp.Signatures)-1]
							if len(cp.Signatures) > 0 {
								cp.Signatures[0].Signature[5] ^= 1
							}
						default:
							cp.GuardianSetIndex = uint32((int(cp.GuardianSetIndex) + 1) % K)
							cp.Signatures[0].Signature[7] ^= 2
						}
						v = &cp
					}
				case "retry-full":
					if len(fullOnes) > 0 {
						e := fullOnes[r.below(len(fullOnes))]
						v, raw = e.v, e.raw
					} else {
						v = mkVAA(g)
						signWith(v, set, subset(n, q))
					}
				}
				g = int(v.GuardianSetIndex)
				// independent bookkeeping: what the store will hold for the indices it has to learn now
				if g > cur && !failing {
					// only the sets the chain has are learned (the fetched range is capped at the contract's current index)
					top := g
					if top > chainLen-1 {
						top = chainLen - 1
					}
					for i := cur + 1; i <= top; i++ {
						known[i] = hist[i]
					}
					if top > cur {
						cur = top
					}
				}
				qlenBefore := len(queue)
				var perr error
				pan := ""
				func() {
					defer func() {
						if x := recover(); x != nil {
							pan = fmt.Sprint(x)
						}
					}()
					ctx, cancel := context.WithTimeout(context.Background(), 4*time.Second)
					defer cancel()
					t0 := time.Now()
					perr = cons.Push(ctx, v, raw)
					if time.Since(t0) > 3*time.Second {
						slowPushes++
					}
				}()
				if slowPushes > 0 && !slowSaid {
					slowSaid = true
					mon = append(mon, fmt.Sprintf("Push (%s VAA naming set %d, queue holding %d of %d) waited for its context's deadline instead of returning: the hand-off to a full queue fails at once, it does not wait", kind, g, qlenBefore, cap(queue)))
				}
				class := verifPushClass(perr, pan)
				qlenAfter := len(queue)
				enq := qlenAfter == qlenBefore+1
				if class == "nil" && !enq {
					class = "dup"
				}
				if class == "nil" {
					class = "enq"
				}
				// recovery table for the model
				h := v.SigningMsg()
				sc2 := []vSigCase{}
				for _, s := range v.Signatures {
					c := vSigCase{I: int(s.Index), D: hex.EncodeToString(s.Signature[:])}
					if a := verifRecover(h.Bytes(), s.Signature[:]); a != nil {
						xs := hex.EncodeToString(a)
						c.Rec = &xs
					}
					sc2 = append(sc2, c)
				}
				op["op"] = "push"
				op["kind"] = kind
				op["g"] = g
				op["sigs"] = sc2
				op["echain"] = int(v.EmitterChain)
				op["eaddr"] = hex.EncodeToString(v.EmitterAddress[:])
				op["tchain"] = int(v.TargetChain)
				op["seq"] = v.Sequence
				op["res"] = class
				if perr != nil {
					op["err"] = perr.Error()
				}
				if pan != "" {
					op["panicmsg"] = pan
				}
				// ---- monitor: the property statement on what was observed
				keys, have := known[g]
				specOK := have && verifSpecAccepts(v, keys)
				if pan != "" {
					mon = append(mon, fmt.Sprintf("Push panicked (%s VAA naming set %d): %s", kind, g, pan))
				}
				if qlenAfter != qlenBefore && !enq {
					mon = append(mon, fmt.Sprintf("queue length went from %d to %d in one Push", qlenBefore, qlenAfter))
				}
				if enq && perr != nil {
					mon = append(mon, "Push queued the message and returned an error: "+perr.Error())
				}
				if enq && !specOK {
					mon = append(mon, fmt.Sprintf("QUEUED WITHOUT QUORUM OF THE NAMED SET: %s VAA naming set %d with %d signatures was queued; set %d has %d keys",
						kind, g, len(v.Signatures), g, len(keys)))
				}
				alreadySeen := handed[v.MessageID()]
				if specOK && !failingFetchNeeded(perr) {
					// a VAA that satisfies the statement: queued, or skipped as a duplicate of a message handed over before, or the queue is full
					switch class {
					case "enq":
					case "dup":
						if !alreadySeen {
							mon = append(mon, "a valid VAA that was never handed over was dropped as a duplicate: "+v.MessageID())
						}
					case "full":
						if qlenBefore < qcap {
							mon = append(mon, fmt.Sprintf("'message queue is full' with %d of %d slots used", qlenBefore, qcap))
						}
					default:
						mon = append(mon, fmt.Sprintf("a VAA with a valid quorum of the set it names (set %d, %s) was rejected: %v", g, kind, perr))
					}
				}
				if class == "enq" {
					queued = append(queued, v)
					handed[v.MessageID()] = true
				}
				isFullRetry := false
				for _, e := range fullOnes {
					if e.v == v {
						isFullRetry = true
					}
				}
				if isFullRetry && specOK && qlenBefore < qcap && class != "enq" && !alreadySeen {
					mon = append(mon, "A COPY OF A VAA WHOSE HAND-OFF FAILED EARLIER (queue full) WAS NOT INGESTED although the queue had room: "+v.MessageID()+" -> "+class)
				}
				if class == "full" {
					fullOnes = append(fullOnes, sent{v, raw})
				}
				if kind != "dup" && kind != "retry-full" {
					earlier = append(earlier, sent{v, raw})
				}
			}
			p := verifProjStore(gs)
			op["store"] = p
			op["qlen"] = len(queue)
			sentIdx := []int64{}
			for {
				select {
				case g := <-gsC:
					sentIdx = append(sentIdx, int64(g.Index))
					continue
				default:
				}
				break
			}
			op["sent"] = sentIdx
			if p.Pan != "" {
				mon = append(mon, "store lookup panicked/failed: "+p.Pan)
			}
			for i, x := range p.Idx {
				if int64(i) != x {
					mon = append(mon, fmt.Sprintf("GetGuardianSet(%d) returned the set with index %d", i, x))
					break
				}
			}
			ops = append(ops, op)
		}
		o.emit(map[string]interface{}{"k": "push", "sc": sc, "K": K, "k0": k0, "chain0": chainLen0, "qcap": qcap, "hist": histHex,
			"emptynil": emptyNil, "ops": ops, "mon": mon})
	}
}

// a fetch error is not a verdict on the VAA
func failingFetchNeeded(err error) bool {
	if err == nil {
		return false
	}
	return verifPushClass(err, "") == "g-fetch"
}
