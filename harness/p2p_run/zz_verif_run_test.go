//go:build verif

package p2p

// C03, extension X5: runs the REAL p2p.Run (the working tree's p2p.go with only the QUIC transport swapped for TCP by
// vlib/overlay.py make_p2p_tcp) for one guardian node G and drives its receive / dispatch loop from two test-owned gossipsub
// peers over localhost.  Every published envelope is acknowledged deterministically before the next one:
//   (1) the OTHER test peer receives it forwarded by G  => gossipsub validated it and put it into G's subscription queue
//       (pubsub.publishMessage: notifySubs before rt.Publish), and
//   (2) a sentinel observation published afterwards comes out of obsvC => the loop has dispatched everything queued before.
// No sleeps, no ordering assumption between two in-flight messages.  Recorded per step: what came out of obsvC / signedInC /
// obsvReqC, checksum of gst.GetAll(); per history: what G itself published (own heartbeat, sendC, obsvReqSendC).
// Monitors evaluate the property statement with direct go-ethereum calls and hard-coded protocol prefixes.

import (
	"bytes"
	"context"
	"crypto/ecdsa"
	"encoding/binary"
	"encoding/hex"
	"fmt"
	"os"
	"sort"
	"strconv"
	"sync"
	"testing"
	"time"

	node_common "github.com/alephium/wormhole-fork/node/pkg/common"
	"github.com/alephium/wormhole-fork/node/pkg/ecdsasigner"
	gossipv1 "github.com/alephium/wormhole-fork/node/pkg/proto/gossip/v1"
	"github.com/alephium/wormhole-fork/node/pkg/supervisor"
	"github.com/ethereum/go-ethereum/common"
	ethcrypto "github.com/ethereum/go-ethereum/crypto"
	"github.com/libp2p/go-libp2p"
	pubsub "github.com/libp2p/go-libp2p-pubsub"
	"github.com/libp2p/go-libp2p/core/crypto"
	"github.com/libp2p/go-libp2p/core/host"
	"github.com/libp2p/go-libp2p/core/peer"
	libp2ptcp "github.com/libp2p/go-libp2p/p2p/transport/tcp"
	dto "github.com/prometheus/client_model/go"
	"go.uber.org/zap"
	"google.golang.org/protobuf/proto"
)

// protocol constants as every other guardian uses them (NOT read from the package under test)
var rHbPrefix = []byte("heartbeat|")
var rReqPrefix = []byte("signed_observation_request|")

const rNetworkID = "/wormhole/verif/x5"
const rNodeName = "verif-g"
const rWait = 25 * time.Second     // every single delivery deadline (>= 20 s)
const rMeshWait = 40 * time.Second // connection + subscription exchange + mesh
const rOwnHbWait = 60 * time.Second

type rOp struct {
	K       string   `json:"k"` // set | recv | lsend | lreq
	Keys    []string `json:"keys,omitempty"`
	From    string   `json:"from,omitempty"` // publisher peer id (hex); lsend: G's own id
	Kind    string   `json:"kind,omitempty"` // invalid | hb | obs | vaa | req | unknown  (direct proto.Unmarshal of the published bytes)
	Addr    string   `json:"addr,omitempty"`
	Payload string   `json:"payload,omitempty"`
	Sig     string   `json:"sig,omitempty"`
	ID      string   `json:"id,omitempty"` // obs / vaa: checksum of the inner message
	Data    string   `json:"data,omitempty"`
	Note    string   `json:"note,omitempty"`
}

type rStep struct {
	Outs [][2]string `json:"outs"` // [channel, id]: channel 0 obsvC, 1 signedInC, 2 obsvReqC
	TH   uint64      `json:"th"`
	NE   int         `json:"ne"`
	NA   int         `json:"na"`
	Own  int         `json:"own"` // entries under G's own peer id
	Mon  []string    `json:"mon,omitempty"`
}

type rHist struct {
	K       string            `json:"k"`
	ID      int               `json:"id"`
	Shape   string            `json:"shape"`
	Disable bool              `json:"disable"`
	Self    string            `json:"self"`
	OurAddr string            `json:"ouraddr"`
	Peers   []string          `json:"peers"`
	Ops     []rOp             `json:"ops"`
	Steps   []rStep           `json:"steps"`
	Keccak  [][2]string       `json:"keccak"`
	Rec     [][3]string       `json:"rec"`
	DecHb   [][2]string       `json:"dechb"`
	DecReq  [][2]string       `json:"decreq"`
	Pubs    []string          `json:"pubs"`    // what G published, classified
	PubMon  []string          `json:"pub_mon"` // problems with what G published
	Timeout string            `json:"timeout,omitempty"`
	Exited  string            `json:"exited,omitempty"`
	Fatal   string            `json:"fatal,omitempty"`
	MeshMs  int64             `json:"mesh_ms"`
	HistMs  int64             `json:"hist_ms"`
	OwnHbMs int64             `json:"ownhb_ms"`
	Attempt int               `json:"attempt"`
	Thr     string            `json:"thr"` // entries with a Timestamp below this (ns) can be removed by the Cleanup ticker at any moment: kept out of the compared table
	Extra   map[string]string `json:"extra,omitempty"`
}

// ------------------------------------------------------------------ test peers
type rPeer struct {
	h     host.Host
	ps    *pubsub.PubSub
	th    *pubsub.Topic
	sub   *pubsub.Subscription
	mu    sync.Mutex
	inbox []*pubsub.Message
	wake  chan struct{}
}

type rSeedReader struct{ r *vrng }

func (s rSeedReader) Read(p []byte) (int, error) {
	for i := range p {
		p[i] = byte(s.r.next())
	}
	return len(p), nil
}

func rNewPeer(ctx context.Context, r *vrng, topic string) (*rPeer, error) {
	priv, _, err := crypto.GenerateEd25519Key(rSeedReader{r})
	if err != nil {
		return nil, err
	}
	h, err := libp2p.New(libp2p.Identity(priv), libp2p.ListenAddrStrings("/ip4/127.0.0.1/tcp/0"), libp2p.Transport(libp2ptcp.NewTCPTransport), libp2p.DisableRelay())
	if err != nil {
		return nil, err
	}
	ps, err := pubsub.NewGossipSub(ctx, h)
	if err != nil {
		h.Close()
		return nil, err
	}
	th, err := ps.Join(topic)
	if err != nil {
		h.Close()
		return nil, err
	}
	sub, err := th.Subscribe()
	if err != nil {
		h.Close()
		return nil, err
	}
	p := &rPeer{h: h, ps: ps, th: th, sub: sub, wake: make(chan struct{}, 1)}
	go func() {
		for {
			m, err := sub.Next(ctx)
			if err != nil {
				return
			}
			p.mu.Lock()
			p.inbox = append(p.inbox, m)
			p.mu.Unlock()
			select {
			case p.wake <- struct{}{}:
			default:
			}
		}
	}()
	return p, nil
}

// take removes and returns the first inbox message satisfying pred, waiting up to d
func (p *rPeer) take(pred func(*pubsub.Message) bool, d time.Duration, abort <-chan struct{}) *pubsub.Message {
	deadline := time.NewTimer(d)
	defer deadline.Stop()
	for {
		select {
		case <-abort:
			return nil
		default:
		}
		p.mu.Lock()
		for i, m := range p.inbox {
			if pred(m) {
				p.inbox = append(p.inbox[:i], p.inbox[i+1:]...)
				p.mu.Unlock()
				return m
			}
		}
		p.mu.Unlock()
		select {
		case <-p.wake:
		case <-time.After(200 * time.Millisecond):
		case <-abort:
			return nil
		case <-deadline.C:
			return nil
		}
	}
}

func (p *rPeer) addr() string {
	return fmt.Sprintf("%s/p2p/%s", p.h.Addrs()[0].String(), p.h.ID().String())
}

// ------------------------------------------------------------------ the node under test
type rNode struct {
	t            *testing.T
	h            *rHist
	r            *vrng
	ctx          context.Context
	cancel       context.CancelFunc
	obsvC        chan *gossipv1.SignedObservation
	obsvReqC     chan *gossipv1.ObservationRequest
	obsvReqSendC chan *gossipv1.ObservationRequest
	sendC        chan []byte
	signedInC    chan *gossipv1.SignedVAAWithQuorum
	gst          *node_common.GuardianSetState
	gk           *ecdsa.PrivateKey
	ourAddr      common.Address
	id           peer.ID
	peers        [2]*rPeer
	disable      bool
	nsent        int
	exited       chan struct{} // closed when Run cancelled the root context (p2p routine has exited)
	kecT, recT   map[string]bool
	dhT, drT     map[string]bool
	curGS        *node_common.GuardianSet // what the harness installed last (bookkeeping for the monitor)
	pending      *rOp                     // the envelope handed to the network / the node and not yet acknowledged
	started      time.Time
	thr          int64
}

type rTimeout struct{ what string }
type rExit struct{ what string }

// a delivery deadline: machinery.  But when p2p.Run itself has returned / panicked (its deferred rootCtxCancel ran) while an
// envelope was being dispatched, that envelope is a concrete finding
func (n *rNode) fail(what string) {
	select {
	case <-n.exited:
		panic(rExit{what})
	default:
	}
	panic(rTimeout{what})
}

func rDetMarshal(m proto.Message) []byte {
	b, err := proto.MarshalOptions{Deterministic: true}.Marshal(m)
	if err != nil {
		panic(err)
	}
	return b
}

func rID(m proto.Message) string {
	var b [8]byte
	binary.BigEndian.PutUint64(b[:], vhash(rDetMarshal(m)))
	return hex.EncodeToString(b[:])
}

func rStartNode(t *testing.T, id int, r *vrng, disable bool, shape string, attempt int) (n *rNode, err error) {
	ctx, cancel := context.WithCancel(context.Background())
	n = &rNode{t: t, r: r, ctx: ctx, cancel: cancel, disable: disable, exited: make(chan struct{}),
		obsvC:        make(chan *gossipv1.SignedObservation, 50),
		obsvReqC:     make(chan *gossipv1.ObservationRequest, node_common.ObsvReqChannelSize),
		obsvReqSendC: make(chan *gossipv1.ObservationRequest, node_common.ObsvReqChannelSize),
		sendC:        make(chan []byte),
		signedInC:    make(chan *gossipv1.SignedVAAWithQuorum, 50),
		gst:          node_common.NewGuardianSetState(nil),
		kecT:         map[string]bool{}, recT: map[string]bool{}, dhT: map[string]bool{}, drT: map[string]bool{}}
	n.thr = time.Now().Add(120 * time.Hour).UnixNano()
	n.h = &rHist{K: "run", ID: id, Shape: shape, Disable: disable, Attempt: attempt, Extra: map[string]string{}, Thr: strconv.FormatInt(n.thr, 10)}
	topic := fmt.Sprintf("%s/%s", rNetworkID, "broadcast")
	for i := 0; i < 2; i++ {
		p, e := rNewPeer(ctx, r, topic)
		if e != nil {
			cancel()
			return nil, e
		}
		n.peers[i] = p
		n.h.Peers = append(n.h.Peers, hex.EncodeToString([]byte(p.h.ID())))
	}
	n.gk, err = ethcrypto.ToECDSA(ethcrypto.Keccak256(r.bytes(32)))
	if err != nil {
		cancel()
		return nil, err
	}
	n.ourAddr = ethcrypto.PubkeyToAddress(n.gk.PublicKey)
	priv, _, err := crypto.GenerateEd25519Key(rSeedReader{r})
	if err != nil {
		cancel()
		return nil, err
	}
	n.id, err = peer.IDFromPrivateKey(priv)
	if err != nil {
		cancel()
		return nil, err
	}
	n.h.Self = hex.EncodeToString([]byte(n.id))
	n.h.OurAddr = hex.EncodeToString(n.ourAddr[:])
	boot := n.peers[0].addr() + "," + n.peers[1].addr()
	logger := zap.NewNop()
	if os.Getenv("VERIF_P2P_DEBUG") != "" {
		logger, _ = zap.NewDevelopment()
	}
	var once sync.Once
	rootCancel := func() { once.Do(func() { close(n.exited) }) }
	n.started = time.Now()
	// as cmd/guardiand/node.go: Run is a child of the supervisor's root runnable; port 0 = any free localhost port
	supervisor.New(ctx, logger, func(sctx context.Context) error {
		if err := supervisor.Run(sctx, "p2p", Run(n.obsvC, n.obsvReqC, n.obsvReqSendC, n.sendC, n.signedInC, priv,
			&ecdsasigner.ECDSAPrivateKey{Value: n.gk}, n.gst, 0, rNetworkID, boot, rNodeName, disable, rootCancel)); err != nil {
			return err
		}
		supervisor.Signal(sctx, supervisor.SignalHealthy)
		<-sctx.Done()
		return nil
	})
	return n, nil
}

func (n *rNode) stop() {
	n.cancel()
	for _, p := range n.peers {
		if p != nil {
			p.h.Close()
		}
	}
}

// ---- crypto / decoding tables: direct library calls
func (n *rNode) keccak(pre []byte) []byte {
	dg := ethcrypto.Keccak256(pre)
	k := hex.EncodeToString(pre)
	if !n.kecT[k] {
		n.kecT[k] = true
		n.h.Keccak = append(n.h.Keccak, [2]string{k, hex.EncodeToString(dg)})
	}
	return dg
}

func rRecover(dg, sig []byte) (common.Address, bool) {
	pub, err := ethcrypto.Ecrecover(dg, sig)
	if err != nil {
		return common.Address{}, false
	}
	return common.BytesToAddress(ethcrypto.Keccak256(pub[1:])[12:]), true
}

func (n *rNode) noteCrypto(payload, sig []byte) {
	for _, pre := range [][]byte{append(append([]byte{}, rHbPrefix...), payload...), append(append([]byte{}, rReqPrefix...), payload...), payload} {
		dg := n.keccak(pre)
		k := hex.EncodeToString(dg) + "/" + hex.EncodeToString(sig)
		if n.recT[k] {
			continue
		}
		n.recT[k] = true
		a, ok := rRecover(dg, sig)
		s := ""
		if ok {
			s = hex.EncodeToString(a.Bytes())
		}
		n.h.Rec = append(n.h.Rec, [3]string{hex.EncodeToString(dg), hex.EncodeToString(sig), s})
	}
}

func (n *rNode) noteDecHb(payload []byte) (int64, bool) {
	var h gossipv1.Heartbeat
	err := proto.Unmarshal(payload, &h)
	k := hex.EncodeToString(payload)
	if !n.dhT[k] {
		n.dhT[k] = true
		v := ""
		if err == nil {
			v = strconv.FormatInt(h.Timestamp, 10)
		}
		n.h.DecHb = append(n.h.DecHb, [2]string{k, v})
	}
	return h.Timestamp, err == nil
}

func (n *rNode) noteDecReq(payload []byte) (*gossipv1.ObservationRequest, bool) {
	var h gossipv1.ObservationRequest
	err := proto.Unmarshal(payload, &h)
	k := hex.EncodeToString(payload)
	if !n.drT[k] {
		n.drT[k] = true
		v := "0"
		if err == nil {
			v = "1"
		}
		n.h.DecReq = append(n.h.DecReq, [2]string{k, v})
	}
	return &h, err == nil
}

// ---- table snapshot: (address, peer, Timestamp) triples; G's own peer id counted separately
type rEntry struct {
	addr common.Address
	peer peer.ID
	ts   int64
	ptr  *gossipv1.Heartbeat
}

func (n *rNode) snapshot() (out []rEntry, own []rEntry) {
	for a, row := range n.gst.GetAll() {
		for p, hb := range row {
			e := rEntry{a, p, hb.Timestamp, hb}
			if p == n.id {
				own = append(own, e)
				if a == n.ourAddr {
					continue // G's own periodic heartbeat: asynchronous, kept out of the compared table
				}
			}
			out = append(out, e)
		}
	}
	sort.Slice(out, func(i, j int) bool {
		if c := bytes.Compare(out[i].addr[:], out[j].addr[:]); c != 0 {
			return c < 0
		}
		return out[i].peer < out[j].peer
	})
	return
}

// checksum / counts over the entries the Cleanup ticker can never remove (Timestamp >= thr)
func rTableSum(es []rEntry, thr int64) (sum uint64, ne int, na int) {
	seen := map[common.Address]bool{}
	for _, e := range es {
		if e.ts < thr {
			continue
		}
		ne++
		var b []byte
		b = append(b, e.addr[:]...)
		var l [2]byte
		binary.BigEndian.PutUint16(l[:], uint16(len(e.peer)))
		b = append(b, l[:]...)
		b = append(b, []byte(e.peer)...)
		var t [8]byte
		binary.BigEndian.PutUint64(t[:], uint64(e.ts))
		b = append(b, t[:]...)
		sum = (sum + vhash(b)) % vHmod
		seen[e.addr] = true
	}
	return sum, ne, len(seen)
}

func rDiff(before, after []rEntry) (added, removed, changed []rEntry) {
	key := func(e rEntry) string { return string(e.addr[:]) + "/" + string(e.peer) }
	bm := map[string]rEntry{}
	for _, e := range before {
		bm[key(e)] = e
	}
	am := map[string]rEntry{}
	for _, e := range after {
		am[key(e)] = e
		if o, ok := bm[key(e)]; !ok {
			added = append(added, e)
		} else if o.ptr != e.ptr {
			changed = append(changed, e)
		}
	}
	for _, e := range before {
		if _, ok := am[key(e)]; !ok {
			removed = append(removed, e)
		}
	}
	return
}

// ---- synchronisation
func (n *rNode) sentinel(x int) *gossipv1.SignedObservation {
	n.nsent++
	return &gossipv1.SignedObservation{Addr: []byte{0x5e}, Hash: []byte("verif-sentinel"), MessageId: fmt.Sprintf("sentinel/%d/%d", n.h.ID, n.nsent)}
}

func rEnvelopeObs(o *gossipv1.SignedObservation) []byte {
	return rDetMarshal(&gossipv1.GossipMessage{Message: &gossipv1.GossipMessage_SignedObservation{SignedObservation: o}})
}

// publish a sentinel from peer x and read obsvC until it comes out; returns what else came out of the three channels
func (n *rNode) barrier(x int) (outs [][2]string, ptrs []interface{}) {
	s := n.sentinel(x)
	if err := n.peers[x].th.Publish(n.ctx, rEnvelopeObs(s)); err != nil {
		n.fail("publish sentinel: " + err.Error())
	}
	deadline := time.NewTimer(rWait)
	defer deadline.Stop()
	for done := false; !done; {
		select {
		case o := <-n.obsvC:
			if o.MessageId == s.MessageId && bytes.Equal(o.Hash, s.Hash) {
				done = true
			} else {
				outs = append(outs, [2]string{"0", rID(o)})
				ptrs = append(ptrs, o)
			}
		case <-n.exited:
			n.fail("p2p.Run exited (root context cancelled)")
		case <-deadline.C:
			n.fail(fmt.Sprintf("sentinel %s did not come out of obsvC within %v", s.MessageId, rWait))
		}
	}
	for {
		select {
		case v := <-n.signedInC:
			outs = append(outs, [2]string{"1", rID(v)})
			ptrs = append(ptrs, v)
			continue
		default:
		}
		break
	}
	for {
		select {
		case q := <-n.obsvReqC:
			outs = append(outs, [2]string{"2", hex.EncodeToString(rDetMarshal(q))})
			ptrs = append(ptrs, q)
			continue
		default:
		}
		break
	}
	return
}

// wait until connections, subscriptions and the mesh are up: a probe published by each peer must come out of obsvC AND be
// forwarded by G to the other peer
func (n *rNode) waitMesh() {
	t0 := time.Now()
	okDir := [2]bool{}
	lastRe := [2]time.Time{t0, t0}
	force := os.Getenv("VERIF_P2P_FORCE_RECONNECT") != ""
	k := 0
	for time.Since(t0) < rMeshWait && !(okDir[0] && okDir[1]) {
		for x := 0; x < 2; x++ {
			if okDir[x] {
				continue
			}
			k++
			o := &gossipv1.SignedObservation{Addr: []byte{0x5e}, Hash: []byte("verif-mesh-probe"), MessageId: fmt.Sprintf("mesh/%d/%d", n.h.ID, k)}
			data := rEnvelopeObs(o)
			_ = n.peers[x].th.Publish(n.ctx, data)
			w := n.peers[1-x]
			from := n.peers[x].h.ID()
			if m := w.take(func(m *pubsub.Message) bool { return m.ReceivedFrom == n.id && m.GetFrom() == from && bytes.Equal(m.Data, data) }, 400*time.Millisecond, n.exited); m != nil {
				if force && lastRe[x] == t0 {
					n.reconnect(x)
					lastRe[x] = time.Now()
					continue
				}
				okDir[x] = true
			} else if time.Since(lastRe[x]) > 3*time.Second {
				// G dials its bootstrap peers from inside libp2p.New, before its pubsub (and the gossipsub stream handler) exists: a
				// peer that opens its gossipsub stream in that window is refused and go-libp2p-pubsub does not try again on the same
				// connection.  Any peer of a real network would eventually reconnect; so does this one.
				n.reconnect(x)
				lastRe[x] = time.Now()
			}
		}
		for drained := false; !drained; { // probes that already came out of obsvC (nobody else reads it yet)
			select {
			case <-n.obsvC:
			default:
				drained = true
			}
		}
		select {
		case <-n.exited:
			n.fail("p2p.Run exited during start-up")
		default:
		}
	}
	if !(okDir[0] && okDir[1]) {
		n.fail(fmt.Sprintf("mesh did not form within %v (forwarding %v)", rMeshWait, okDir))
	}
	// drain the probes that reached obsvC (an unknown number: early ones were published before G was subscribed)
	n.barrier(0)
	n.barrier(1)
	n.h.MeshMs = time.Since(t0).Milliseconds()
}

// test peer x drops its connection to G and dials G's listen address again (as learnt through identify)
func (n *rNode) reconnect(x int) {
	h := n.peers[x].h
	addrs := h.Peerstore().Addrs(n.id)
	if len(addrs) == 0 {
		return // G has not connected yet: keep waiting
	}
	n.h.Extra[fmt.Sprintf("reconnect_peer%d", x)] = strconv.Itoa(len(addrs)) + " addrs"
	_ = h.Network().ClosePeer(n.id)
	cctx, cancel := context.WithTimeout(n.ctx, 5*time.Second)
	defer cancel()
	_ = h.Connect(cctx, peer.AddrInfo{ID: n.id, Addrs: addrs})
}

// ------------------------------------------------------------------ operations
func rHex(b []byte) string { return hex.EncodeToString(b) }

func rMember(gs *node_common.GuardianSet, a common.Address) bool {
	if gs == nil {
		return false
	}
	for _, k := range gs.Keys {
		if k == a {
			return true
		}
	}
	return false
}

func (n *rNode) opSet(keys []common.Address, idx uint32, note string) {
	ks := make([]string, len(keys))
	for i, k := range keys {
		ks[i] = rHex(k[:])
	}
	gs := &node_common.GuardianSet{Keys: keys, Index: idx}
	n.gst.Set(gs)
	n.curGS = gs
	st := rStep{Outs: [][2]string{}}
	n.finish(rOp{K: "set", Keys: ks, Note: note}, &st, nil, nil)
}

// classify published bytes by a direct proto.Unmarshal
func (n *rNode) classify(data []byte, op *rOp) (msg *gossipv1.GossipMessage) {
	msg = &gossipv1.GossipMessage{}
	if err := proto.Unmarshal(data, msg); err != nil {
		op.Kind = "invalid"
		return nil
	}
	switch m := msg.Message.(type) {
	case *gossipv1.GossipMessage_SignedHeartbeat:
		op.Kind = "hb"
		s := m.SignedHeartbeat
		op.Addr, op.Payload, op.Sig = rHex(s.GuardianAddr), rHex(s.Heartbeat), rHex(s.Signature)
		n.noteCrypto(s.Heartbeat, s.Signature)
		n.noteDecHb(s.Heartbeat)
	case *gossipv1.GossipMessage_SignedObservation:
		op.Kind = "obs"
		op.ID = rID(m.SignedObservation)
	case *gossipv1.GossipMessage_SignedVaaWithQuorum:
		op.Kind = "vaa"
		op.ID = rID(m.SignedVaaWithQuorum)
	case *gossipv1.GossipMessage_SignedObservationRequest:
		op.Kind = "req"
		s := m.SignedObservationRequest
		op.Addr, op.Payload, op.Sig = rHex(s.GuardianAddr), rHex(s.ObservationRequest), rHex(s.Signature)
		n.noteCrypto(s.ObservationRequest, s.Signature)
		n.noteDecReq(s.ObservationRequest)
	default:
		op.Kind = "unknown"
	}
	return msg
}

// an envelope published by test peer x
func (n *rNode) opRecv(x int, data []byte, note string) {
	op := rOp{K: "recv", From: n.h.Peers[x], Data: rHex(data), Note: note}
	msg := n.classify(data, &op)
	before, _ := n.snapshot()
	n.pending = &op
	if err := n.peers[x].th.Publish(n.ctx, data); err != nil {
		n.fail("publish: " + err.Error())
	}
	from := n.peers[x].h.ID()
	if m := n.peers[1-x].take(func(m *pubsub.Message) bool { return m.ReceivedFrom == n.id && m.GetFrom() == from && bytes.Equal(m.Data, data) }, rWait, n.exited); m == nil {
		n.fail(fmt.Sprintf("envelope of step %d (%s) was not forwarded by G to the other peer (deadline %v, or p2p.Run exited)", len(n.h.Ops), note, rWait))
	}
	outs, ptrs := n.barrier(x)
	n.normReq(&op, outs, ptrs)
	st := rStep{Outs: outs}
	n.monitor(&op, msg, from, false, before, &st, ptrs)
	n.finish(op, &st, before, nil)
}

// a forwarded request is identified by the signed payload of this step's envelope when it is what that payload decodes to
// (direct proto.Unmarshal), else by its own encoding
func (n *rNode) normReq(op *rOp, outs [][2]string, ptrs []interface{}) {
	if op.Kind != "req" {
		return
	}
	payload, _ := hex.DecodeString(op.Payload)
	want, ok := n.noteDecReq(payload)
	for i := range outs {
		if q, isReq := ptrs[i].(*gossipv1.ObservationRequest); isReq && outs[i][0] == "2" && ok && proto.Equal(q, want) {
			outs[i][1] = op.Payload
		}
	}
}

// bytes handed to G's sendC: G publishes them itself, they loop back into G's own subscription
func (n *rNode) opLocalSend(data []byte, note string) {
	op := rOp{K: "lsend", From: n.h.Self, Data: rHex(data), Note: note}
	msg := n.classify(data, &op)
	before, _ := n.snapshot()
	n.pending = &op
	select {
	case n.sendC <- data:
	case <-n.exited:
		n.fail("p2p.Run exited")
	case <-time.After(rWait):
		n.fail("sendC not read within " + rWait.String())
	}
	for x := 0; x < 2; x++ {
		if m := n.peers[x].take(func(m *pubsub.Message) bool { return m.GetFrom() == n.id && bytes.Equal(m.Data, data) }, rWait, n.exited); m == nil {
			n.fail(fmt.Sprintf("bytes given to sendC were not published to peer %d within %v", x, rWait))
		}
	}
	n.h.Pubs = append(n.h.Pubs, "sendC:verbatim")
	outs, ptrs := n.barrier(0)
	n.normReq(&op, outs, ptrs)
	st := rStep{Outs: outs}
	n.monitor(&op, msg, n.id, true, before, &st, ptrs)
	n.finish(op, &st, before, nil)
}

// a request handed to obsvReqSendC (admin RPC / processor re-observation): G delivers it locally, signs and publishes it
func (n *rNode) opLocalReq(req *gossipv1.ObservationRequest, note string) {
	payload := rDetMarshal(req)
	op := rOp{K: "lreq", Payload: rHex(payload), Note: note}
	before, _ := n.snapshot()
	n.pending = &op
	select {
	case n.obsvReqSendC <- req:
	case <-time.After(rWait):
		n.fail("obsvReqSendC full")
	}
	var got [2]*pubsub.Message
	for x := 0; x < 2; x++ {
		got[x] = n.peers[x].take(func(m *pubsub.Message) bool {
			if m.GetFrom() != n.id {
				return false
			}
			var g gossipv1.GossipMessage
			if proto.Unmarshal(m.Data, &g) != nil {
				return false
			}
			s := g.GetSignedObservationRequest()
			if s == nil {
				return false
			}
			var q gossipv1.ObservationRequest
			return proto.Unmarshal(s.ObservationRequest, &q) == nil && proto.Equal(&q, req)
		}, rWait, n.exited)
		if got[x] == nil {
			n.fail(fmt.Sprintf("request given to obsvReqSendC was not published to peer %d within %v", x, rWait))
		}
	}
	// what G published: signed by G's guardian key under the request prefix, above the 32-byte floor
	var g gossipv1.GossipMessage
	_ = proto.Unmarshal(got[0].Data, &g)
	s := g.GetSignedObservationRequest()
	pre := append(append([]byte{}, rReqPrefix...), s.ObservationRequest...)
	signer, ok := rRecover(ethcrypto.Keccak256(pre), s.Signature)
	switch {
	case !ok || signer != n.ourAddr:
		n.h.PubMon = append(n.h.PubMon, fmt.Sprintf("published observation request is not signed by G's guardian key under the request prefix (recovers to %s, ok=%v)", signer.Hex(), ok))
	case common.BytesToAddress(s.GuardianAddr) != n.ourAddr:
		n.h.PubMon = append(n.h.PubMon, "published observation request claims another guardian address than G's")
	case len(pre) <= 32:
		n.h.PubMon = append(n.h.PubMon, "published observation request signs 32 bytes or fewer")
	default:
		n.h.Pubs = append(n.h.Pubs, "obsvReqSendC:signed-ok")
	}
	outs, ptrs := n.barrier(0)
	st := rStep{Outs: outs}
	// the local delivery: exactly the request itself, once (the loopback of the published copy is ignored)
	if len(outs) != 1 || outs[0][0] != "2" || outs[0][1] != rHex(payload) {
		st.Mon = append(st.Mon, fmt.Sprintf("local observation request: expected exactly one delivery on obsvReqC, got %v", outs))
	}
	_ = ptrs
	n.finish(op, &st, before, nil)
}

// ---- monitor: the property statement on one dispatched envelope, evaluated with direct crypto
func (n *rNode) monitor(op *rOp, msg *gossipv1.GossipMessage, from peer.ID, loopback bool, before []rEntry, st *rStep, ptrs []interface{}) {
	after, own := n.snapshot()
	added, removed0, changed := rDiff(before, after)
	var removed []rEntry
	for _, e := range removed0 { // the Cleanup ticker (real clock) removes entries with old Timestamps whenever it fires
		if e.ts >= n.thr {
			removed = append(removed, e)
		}
	}
	touched := len(added) + len(removed) + len(changed)
	for _, e := range own {
		if e.addr != n.ourAddr {
			st.Mon = append(st.Mon, fmt.Sprintf("loopback: heartbeat table holds an entry under G's own peer id for guardian %s (only G's own heartbeat goroutine writes there)", e.addr.Hex()))
		}
	}
	gs := n.curGS
	nReq, nObs, nVaa := 0, 0, 0
	for _, o := range st.Outs {
		switch o[0] {
		case "0":
			nObs++
		case "1":
			nVaa++
		case "2":
			nReq++
		}
	}
	why := "" // why this envelope must have no effect at all
	switch {
	case loopback:
		why = "it was published by G itself (loopback)"
	case op.Kind == "invalid":
		why = "it does not decode as a GossipMessage"
	case op.Kind == "unknown":
		why = "it carries none of the four known message types"
	}
	if why != "" {
		if len(st.Outs) > 0 || touched > 0 {
			st.Mon = append(st.Mon, fmt.Sprintf("envelope had an effect (outputs %v, table +%d -%d ~%d) although %s", st.Outs, len(added), len(removed), len(changed), why))
		}
		return
	}
	switch op.Kind {
	case "obs", "vaa":
		want := [2]string{"0", op.ID}
		if op.Kind == "vaa" {
			want[0] = "1"
		}
		if len(st.Outs) != 1 || st.Outs[0] != want {
			st.Mon = append(st.Mon, fmt.Sprintf("pass-through: %s envelope produced %v, expected exactly %v", op.Kind, st.Outs, want))
		}
		if touched > 0 {
			st.Mon = append(st.Mon, fmt.Sprintf("pass-through: %s envelope changed the heartbeat table", op.Kind))
		}
	case "req":
		s := msg.GetSignedObservationRequest()
		pre := append(append([]byte{}, rReqPrefix...), s.ObservationRequest...)
		signer, recOK := rRecover(ethcrypto.Keccak256(pre), s.Signature)
		claimed := common.BytesToAddress(s.GuardianAddr)
		bad := ""
		switch {
		case gs == nil:
			bad = "no guardian set known"
		case !recOK:
			bad = "signature does not recover under the observation-request prefix"
		case signer != claimed:
			bad = fmt.Sprintf("signature recovers to %s under the observation-request prefix, the message claims %s", signer.Hex(), claimed.Hex())
		case !rMember(gs, claimed):
			bad = fmt.Sprintf("claimed address %s is not in the current guardian set", claimed.Hex())
		case len(pre) <= 32:
			bad = fmt.Sprintf("signed bytes are %d long: not above the 32-byte pre-image of a VAA digest", len(pre))
		}
		if bad != "" && nReq > 0 {
			st.Mon = append(st.Mon, "observation request forwarded to obsvReqC by the dispatch loop although: "+bad)
		}
		if nObs+nVaa > 0 || touched > 0 {
			st.Mon = append(st.Mon, fmt.Sprintf("observation-request envelope had another effect: outputs %v, table +%d -%d ~%d", st.Outs, len(added), len(removed), len(changed)))
		}
		if bad == "" && nReq > 0 {
			if nReq != 1 || len(st.Outs) != 1 || st.Outs[0][1] != op.Payload {
				st.Mon = append(st.Mon, "forwarded request differs from the decoded signed payload")
			}
		}
	case "hb":
		s := msg.GetSignedHeartbeat()
		pre := append(append([]byte{}, rHbPrefix...), s.Heartbeat...)
		signer, recOK := rRecover(ethcrypto.Keccak256(pre), s.Signature)
		claimed := common.BytesToAddress(s.GuardianAddr)
		bad := ""
		switch {
		case gs == nil:
			bad = "no guardian set known"
		case !recOK:
			bad = "signature does not recover under the heartbeat prefix"
		case !n.disable && signer != claimed:
			bad = fmt.Sprintf("signature recovers to %s under the heartbeat prefix, the message claims %s", signer.Hex(), claimed.Hex())
		case !n.disable && !rMember(gs, claimed):
			bad = fmt.Sprintf("claimed address %s is not in the current guardian set", claimed.Hex())
		case len(pre) <= 32:
			bad = fmt.Sprintf("signed bytes are %d long: not above the 32-byte pre-image of a VAA digest", len(pre))
		}
		if bad != "" && touched > 0 {
			st.Mon = append(st.Mon, fmt.Sprintf("heartbeat had an effect (table +%d -%d ~%d) although: %s", len(added), len(removed), len(changed), bad))
		}
		if len(st.Outs) > 0 {
			st.Mon = append(st.Mon, fmt.Sprintf("heartbeat envelope produced channel output %v", st.Outs))
		}
		if bad == "" && touched > 0 {
			var e rEntry
			if len(added) == 1 {
				e = added[0]
			} else if len(changed) == 1 {
				e = changed[0]
			}
			if len(removed) != 0 || len(added)+len(changed) != 1 || e.addr != signer || e.peer != from {
				st.Mon = append(st.Mon, fmt.Sprintf("accepted heartbeat of signer %s from peer %x is not stored under exactly that address and peer (table +%d -%d ~%d, stored under %s)", signer.Hex(), string(from), len(added), len(removed), len(changed), e.addr.Hex()))
			}
		}
	}
}

func (n *rNode) finish(op rOp, st *rStep, before []rEntry, _ interface{}) {
	after, own := n.snapshot()
	st.TH, st.NE, st.NA = rTableSum(after, n.thr)
	st.Own = len(own)
	if st.Outs == nil {
		st.Outs = [][2]string{}
	}
	for _, row := range n.gst.GetAll() {
		if len(row) > node_common.MaxNodesPerGuardian {
			st.Mon = append(st.Mon, fmt.Sprintf("cap: a guardian has %d heartbeat entries, more than MaxNodesPerGuardian=%d", len(row), node_common.MaxNodesPerGuardian))
		}
	}
	n.h.Ops = append(n.h.Ops, op)
	n.h.Steps = append(n.h.Steps, *st)
	n.pending = nil
}

// ------------------------------------------------------------------ G's own periodic heartbeat as the network sees it
func (n *rNode) ownHeartbeat() {
	t0 := time.Now()
	left := rOwnHbWait - time.Since(n.started)
	if left < rWait {
		left = rWait
	}
	var hbEnv *gossipv1.SignedHeartbeat
	m := n.peers[0].take(func(m *pubsub.Message) bool {
		if m.GetFrom() != n.id {
			return false
		}
		var g gossipv1.GossipMessage
		if proto.Unmarshal(m.Data, &g) != nil {
			return false
		}
		hbEnv = g.GetSignedHeartbeat()
		return hbEnv != nil
	}, left, n.exited)
	n.h.OwnHbMs = time.Since(t0).Milliseconds()
	if m == nil {
		n.fail(fmt.Sprintf("G's own heartbeat was not seen on the topic within %v of its start", rOwnHbWait))
	}
	pre := append(append([]byte{}, rHbPrefix...), hbEnv.Heartbeat...)
	signer, ok := rRecover(ethcrypto.Keccak256(pre), hbEnv.Signature)
	var hb gossipv1.Heartbeat
	switch {
	case !ok || signer != n.ourAddr:
		n.h.PubMon = append(n.h.PubMon, fmt.Sprintf("own heartbeat is not signed by G's guardian key under the heartbeat prefix (recovers to %s, ok=%v)", signer.Hex(), ok))
	case common.BytesToAddress(hbEnv.GuardianAddr) != n.ourAddr:
		n.h.PubMon = append(n.h.PubMon, "own heartbeat claims another guardian address than G's")
	case len(pre) <= 32:
		n.h.PubMon = append(n.h.PubMon, "own heartbeat signs 32 bytes or fewer")
	case proto.Unmarshal(hbEnv.Heartbeat, &hb) != nil || hb.NodeName != rNodeName:
		n.h.PubMon = append(n.h.PubMon, "own heartbeat payload does not decode to G's node name")
	default:
		n.h.Pubs = append(n.h.Pubs, fmt.Sprintf("heartbeat:signed-ok counter=%d", hb.Counter))
	}
	// the loop must have ignored the loopback of that heartbeat, the goroutine itself stored it under (ourAddr, own id)
	outs, _ := n.barrier(0)
	_, own := n.snapshot()
	if len(own) != 1 || own[0].addr != n.ourAddr {
		n.h.PubMon = append(n.h.PubMon, fmt.Sprintf("after G's own heartbeat the table holds %d entries under G's peer id (expected exactly one, under G's guardian address)", len(own)))
	}
	if len(outs) != 0 {
		n.h.PubMon = append(n.h.PubMon, fmt.Sprintf("G's own heartbeat produced channel output %v", outs))
	}
}

// ------------------------------------------------------------------ the world: keys and message builders
type rWorld struct {
	r     *vrng
	keys  []*ecdsa.PrivateKey // 0..: guardian candidates, last two: outsiders
	addrs []common.Address
	ctr   int64
}

func rNewWorld(r *vrng, own *ecdsa.PrivateKey, nkeys int) *rWorld {
	w := &rWorld{r: r}
	w.keys = append(w.keys, own)
	for len(w.keys) < nkeys {
		k, err := ethcrypto.ToECDSA(ethcrypto.Keccak256(r.bytes(32)))
		if err != nil {
			continue
		}
		w.keys = append(w.keys, k)
	}
	for _, k := range w.keys {
		w.addrs = append(w.addrs, ethcrypto.PubkeyToAddress(k.PublicKey))
	}
	return w
}

func rSign(k *ecdsa.PrivateKey, dg []byte) []byte {
	s, err := ethcrypto.Sign(dg, k)
	if err != nil {
		panic(err)
	}
	return s
}

func rCat(a, b []byte) []byte { return append(append([]byte{}, a...), b...) }

// a decodable heartbeat payload with a unique, never expiring Timestamp
func (w *rWorld) hbPayload() []byte {
	w.ctr++
	return rDetMarshal(&gossipv1.Heartbeat{NodeName: fmt.Sprintf("n%d", w.ctr), Counter: w.ctr, Timestamp: time.Now().Add(240*time.Hour).UnixNano() + w.ctr,
		Version: "v", GuardianAddr: "g", BootTimestamp: 1})
}

// a decodable inner message of exactly l bytes (hb: 22..25, req: 5..8)
func (w *rWorld) sized(typ string, l int) []byte {
	w.ctr++
	var p []byte
	if typ == "hb" {
		ts := time.Now().Add(240*time.Hour).UnixNano() + w.ctr // 9-byte varint
		p = rDetMarshal(&gossipv1.Heartbeat{NodeName: string(bytes.Repeat([]byte{'x'}, l-12)), Timestamp: ts})
	} else {
		p = rDetMarshal(&gossipv1.ObservationRequest{ChainId: uint32(1 + w.r.below(100)), TxHash: w.r.bytes(l - 4)})
	}
	if len(p) != l {
		panic(fmt.Sprintf("sized(%s,%d) produced %d bytes", typ, l, len(p)))
	}
	return p
}

func (w *rWorld) reqPayload() []byte {
	w.ctr++
	return rDetMarshal(&gossipv1.ObservationRequest{ChainId: uint32(1 + w.r.below(300)), TxHash: w.r.bytes(32)})
}

func rEnvHb(addr, payload, sig []byte) []byte {
	return rDetMarshal(&gossipv1.GossipMessage{Message: &gossipv1.GossipMessage_SignedHeartbeat{SignedHeartbeat: &gossipv1.SignedHeartbeat{Heartbeat: payload, Signature: sig, GuardianAddr: addr}}})
}
func rEnvReq(addr, payload, sig []byte) []byte {
	return rDetMarshal(&gossipv1.GossipMessage{Message: &gossipv1.GossipMessage_SignedObservationRequest{SignedObservationRequest: &gossipv1.SignedObservationRequest{ObservationRequest: payload, Signature: sig, GuardianAddr: addr}}})
}

// one signed message of type typ ("hb" | "req") with mutation mut; ki = index of the key the message is "about"
func (w *rWorld) signed(typ string, ki int, mut string, inSet func(int) bool) ([]byte, string) {
	r := w.r
	prefix, other := rHbPrefix, rReqPrefix
	mk := rEnvHb
	payload := w.hbPayload()
	if typ == "req" {
		prefix, other = rReqPrefix, rHbPrefix
		mk = rEnvReq
		payload = w.reqPayload()
	}
	key := w.keys[ki]
	addr := w.addrs[ki][:]
	another := func(member bool) int { // some other key that is (not) in the current set
		for tries := 0; tries < 64; tries++ {
			j := r.below(len(w.keys))
			if j != ki && inSet(j) == member {
				return j
			}
		}
		return (ki + 1) % len(w.keys)
	}
	dg := func(p []byte) []byte { return ethcrypto.Keccak256(rCat(prefix, p)) }
	switch mut {
	case "valid":
		return mk(addr, payload, rSign(key, dg(payload))), mut
	case "other-signer-member-address": // claims ki, signed by someone else
		return mk(addr, payload, rSign(w.keys[another(r.chance(1, 2))], dg(payload))), mut
	case "signer-claims-other-member": // signed by ki, claims another member's address
		return mk(w.addrs[another(true)][:], payload, rSign(key, dg(payload))), mut
	case "short-body": // validly signed, but prefix+payload below the floor
		var p []byte
		if typ == "hb" {
			p = rDetMarshal(&gossipv1.Heartbeat{Counter: int64(r.below(100)), Timestamp: int64(1 + r.below(1000000))})
		} else {
			p = rDetMarshal(&gossipv1.ObservationRequest{ChainId: uint32(r.below(100))})
		}
		return mk(addr, p, rSign(key, dg(p))), mut
	case "exactly-32", "floor-33", "floor-34", "floor-35": // DECODABLE payloads with prefix+payload exactly 32 (a VAA digest pre-image's length) .. 35 bytes
		l := 32
		if mut != "exactly-32" {
			l, _ = strconv.Atoi(mut[6:])
		}
		p := w.sized(typ, l-len(prefix))
		return mk(addr, p, rSign(key, dg(p))), mut
	case "other-prefix": // signature made for the other message type
		return mk(addr, payload, rSign(key, ethcrypto.Keccak256(rCat(other, payload)))), mut
	case "no-prefix":
		return mk(addr, payload, rSign(key, ethcrypto.Keccak256(payload))), mut
	case "vaa-digest-signature": // an observation-style signature: over the double hash of something else
		return mk(addr, payload, rSign(key, ethcrypto.Keccak256(ethcrypto.Keccak256(payload)))), mut
	case "sig-bitflip":
		s := rSign(key, dg(payload))
		s[r.below(64)] ^= byte(1 << uint(r.below(8)))
		return mk(addr, payload, s), mut
	case "payload-bitflip":
		s := rSign(key, dg(payload))
		p := append([]byte{}, payload...)
		p[r.below(len(p))] ^= byte(1 << uint(r.below(8)))
		return mk(addr, p, s), mut
	case "recid":
		s := rSign(key, dg(payload))
		s[64] = byte(4 + r.below(200))
		return mk(addr, payload, s), mut
	case "sig-64":
		return mk(addr, payload, rSign(key, dg(payload))[:64]), mut
	case "sig-empty":
		return mk(addr, payload, nil), mut
	case "addr-padded-32": // BytesToAddress keeps the last 20 bytes: the same address
		return mk(rCat(make([]byte, 12), addr), payload, rSign(key, dg(payload))), mut
	case "addr-truncated-19":
		return mk(addr[1:], payload, rSign(key, dg(payload))), mut
	case "addr-empty":
		return mk(nil, payload, rSign(key, dg(payload))), mut
	case "signed-garbage": // validly signed bytes that need not decode as the inner message
		p := r.bytes(24 + r.below(40))
		return mk(addr, p, rSign(key, dg(p))), mut
	}
	panic("unknown mutation " + mut)
}

var rMutations = []string{"valid", "valid", "other-signer-member-address", "signer-claims-other-member", "short-body", "exactly-32", "floor-33", "floor-34", "floor-35",
	"other-prefix", "no-prefix", "vaa-digest-signature", "sig-bitflip", "payload-bitflip", "recid", "sig-64", "sig-empty",
	"addr-padded-32", "addr-truncated-19", "addr-empty", "signed-garbage"}

func (w *rWorld) observation(valid bool) []byte {
	w.ctr++
	k := w.r.below(len(w.keys))
	h := ethcrypto.Keccak256(w.r.bytes(16))
	o := &gossipv1.SignedObservation{Addr: w.addrs[k][:], Hash: h, Signature: rSign(w.keys[k], h), TxHash: w.r.bytes(32), MessageId: fmt.Sprintf("2/%x/%d", w.r.bytes(4), w.ctr)}
	if !valid {
		o.Signature = w.r.bytes(w.r.below(70))
		if w.r.chance(1, 3) {
			o.Hash = w.r.bytes(w.r.below(40))
		}
	}
	return rEnvelopeObs(o)
}

func (w *rWorld) signedVAA() []byte {
	return rDetMarshal(&gossipv1.GossipMessage{Message: &gossipv1.GossipMessage_SignedVaaWithQuorum{SignedVaaWithQuorum: &gossipv1.SignedVAAWithQuorum{Vaa: w.r.bytes(1 + w.r.below(200))}}})
}

// bytes that are not one of the four known types / do not decode at all
func (w *rWorld) junk() ([]byte, string) {
	r := w.r
	switch r.below(7) {
	case 0:
		return []byte{}, "empty (decodes, no message set)"
	case 1: // unknown field number 15, length-delimited
		b := r.bytes(1 + r.below(20))
		return append([]byte{0x7a, byte(len(b))}, b...), "unknown field"
	case 2: // truncated length-delimited field 2
		return []byte{0x12, 0x40, 1, 2, 3}, "truncated"
	case 3:
		return bytes.Repeat([]byte{0xff}, 3+r.below(12)), "0xff.."
	case 4: // field 3 with wire type varint instead of bytes: proto treats it as unknown field
		return []byte{0x18, 0x05}, "wrong wire type"
	case 5: // a valid inner SignedObservation that is itself garbage inside
		return []byte{0x12, 0x03, 0xff, 0xff, 0xff}, "garbage inner message"
	}
	return r.bytes(1 + r.below(60)), "random bytes"
}

// ------------------------------------------------------------------ one history against one running node
func rHistory(t *testing.T, id int, seed uint64, disable bool, nsteps int, attempt int) (h *rHist) {
	r := &vrng{s: seed ^ (uint64(id)+1)*0x9E3779B97F4A7C15}
	shape := fmt.Sprintf("disable=%v steps=%d", disable, nsteps)
	n, err := rStartNode(t, id, r, disable, shape, attempt)
	if err != nil {
		return &rHist{K: "run", ID: id, Shape: shape, Disable: disable, Attempt: attempt, Fatal: "cannot start: " + err.Error()}
	}
	h = n.h
	defer n.stop()
	defer func() {
		if x := recover(); x != nil {
			if to, ok := x.(rTimeout); ok {
				h.Timeout = to.what
				return
			}
			if ex, ok := x.(rExit); ok {
				h.Exited = ex.what
				if n.pending != nil {
					gsKnown := n.curGS != nil
					h.Ops = append(h.Ops, *n.pending)
					h.Steps = append(h.Steps, rStep{Outs: [][2]string{}, Mon: []string{fmt.Sprintf("loop-exit: p2p.Run returned / panicked (root context cancelled: the whole node goes down) while this envelope was dispatched; guardian set known: %v, published by the node itself: %v", gsKnown, n.pending.K == "lsend")}})
				}
				return
			}
			h.Fatal = fmt.Sprintf("harness panic: %v", x)
		}
	}()
	n.waitMesh()
	t0 := time.Now()
	w := rNewWorld(r, n.gk, 6) // keys 0 (G's own guardian key) .. 3 guardian candidates, 4 and 5 never in any set
	setA := []int{0, 1, 2}
	setB := []int{1, 3}
	if id%2 == 1 {
		setA, setB = []int{1, 2, 3}, []int{0, 2}
	}
	var cur []int
	inSet := func(j int) bool {
		for _, k := range cur {
			if k == j {
				return true
			}
		}
		return false
	}
	addrsOf := func(ix []int) []common.Address {
		var a []common.Address
		for _, i := range ix {
			a = append(a, w.addrs[i])
		}
		return a
	}
	// one random envelope
	step := func() {
		x := r.below(2)
		c := r.below(100)
		switch {
		case c < 40:
			typ := "hb"
			if r.chance(1, 2) {
				typ = "req"
			}
			mut := rMutations[r.below(len(rMutations))]
			ki := r.below(len(w.keys))
			if mut == "valid" && len(cur) > 0 && r.chance(3, 4) {
				ki = cur[r.below(len(cur))]
			}
			data, note := w.signed(typ, ki, mut, inSet)
			mem := "outsider"
			if inSet(ki) {
				mem = "member"
			}
			n.opRecv(x, data, typ+":"+note+":"+mem)
		case c < 52:
			n.opRecv(x, w.observation(r.chance(1, 2)), "observation")
		case c < 60:
			n.opRecv(x, w.signedVAA(), "signed-vaa")
		case c < 72:
			d, note := w.junk()
			n.opRecv(x, d, "junk:"+note)
		case c < 86: // loopback: G publishes something that would have an effect if it came from a peer
			ki := r.below(len(w.keys))
			if len(cur) > 0 {
				ki = cur[r.below(len(cur))]
			}
			switch r.below(4) {
			case 0:
				d, _ := w.signed("hb", ki, "valid", inSet)
				n.opLocalSend(d, "loopback:hb:valid")
			case 1:
				d, _ := w.signed("req", ki, "valid", inSet)
				n.opLocalSend(d, "loopback:req:valid")
			case 2:
				n.opLocalSend(w.observation(true), "loopback:observation")
			default:
				n.opLocalSend(w.signedVAA(), "loopback:signed-vaa")
			}
		case c < 92:
			n.opLocalReq(&gossipv1.ObservationRequest{ChainId: uint32(1 + r.below(300)), TxHash: r.bytes(32)}, "local-request")
		default: // replay of an earlier envelope from the other peer
			var cand []int
			for i, o := range n.h.Ops {
				if o.K == "recv" && (o.Kind == "hb" || o.Kind == "req") {
					cand = append(cand, i)
				}
			}
			if len(cand) == 0 {
				n.opRecv(x, w.observation(true), "observation")
				return
			}
			o := n.h.Ops[cand[r.below(len(cand))]]
			d, _ := hex.DecodeString(o.Data)
			n.opRecv(x, d, "replay:"+o.Note)
		}
	}
	// phase 1: no guardian set known.  One of each kind first, then random
	for _, typ := range []string{"hb", "req"} {
		d, _ := w.signed(typ, 1, "valid", inSet)
		n.opRecv(0, d, typ+":valid:before-any-set")
	}
	n.opRecv(1, w.observation(true), "observation")
	n.opRecv(1, w.signedVAA(), "signed-vaa")
	d0, _ := w.signed("req", 1, "valid", inSet)
	n.opLocalSend(d0, "loopback:req:valid")
	n.opLocalReq(&gossipv1.ObservationRequest{ChainId: 2, TxHash: r.bytes(32)}, "local-request")
	for i := 0; i < nsteps/5; i++ {
		step()
	}
	// phase 2: set A; every mutation of both types once for a member, then random
	cur = setA
	n.opSet(addrsOf(cur), 0, "set A")
	seenMut := map[string]bool{}
	for _, typ := range []string{"hb", "req"} {
		for _, mut := range rMutations {
			if seenMut[typ+mut] {
				continue
			}
			seenMut[typ+mut] = true
			data, note := w.signed(typ, cur[r.below(len(cur))], mut, inSet)
			n.opRecv(r.below(2), data, typ+":"+note+":member")
		}
		data, _ := w.signed(typ, 4+r.below(2), "valid", inSet)
		n.opRecv(r.below(2), data, typ+":valid:outsider")
	}
	for i := 0; i < nsteps*2/5; i++ {
		step()
	}
	// phase 3: set B (members dropped and added); the dropped members' messages must stop working, replays too
	prev := cur
	cur = setB
	n.opSet(addrsOf(cur), 1, "set B")
	for _, ki := range prev {
		for _, typ := range []string{"hb", "req"} {
			data, _ := w.signed(typ, ki, "valid", inSet)
			mem := "dropped-member"
			if inSet(ki) {
				mem = "member"
			}
			n.opRecv(r.below(2), data, typ+":valid:"+mem)
		}
	}
	for i := 0; i < nsteps*2/5; i++ {
		step()
	}
	if r.chance(1, 2) {
		cur = setA
		n.opSet(addrsOf(cur), 2, "set A again")
		for i := 0; i < nsteps/5; i++ {
			step()
		}
	}
	h.HistMs = time.Since(t0).Milliseconds()
	if os.Getenv("VERIF_P2P_SKIP_OWNHB") == "" { // (start-up stress runs of the harness itself skip the 15 s wait)
		n.ownHeartbeat()
	}
	return h
}

func rMetrics() map[string]float64 {
	out := map[string]float64{}
	for _, l := range []string{"invalid", "loopback", "invalid_heartbeat", "valid_heartbeat", "observation", "signed_vaa_with_quorum",
		"invalid_signed_observation_request", "signed_observation_request", "unknown"} {
		var m dto.Metric
		if c, err := p2pMessagesReceived.GetMetricWithLabelValues(l); err == nil && c.Write(&m) == nil && m.Counter != nil {
			out[l] = m.Counter.GetValue()
		}
	}
	return out
}

func TestVerifC03Run(t *testing.T) {
	out := verifOut(t)
	defer out.close()
	seed := verifSeed()
	nodes, steps := 2, 250
	if verifThorough() {
		nodes, steps = 8, 1500
	}
	if v, err := strconv.Atoi(os.Getenv("VERIF_P2P_NODES")); err == nil && v > 0 {
		nodes = v
	}
	if v, err := strconv.Atoi(os.Getenv("VERIF_P2P_STEPS")); err == nil && v > 0 {
		steps = v
	}
	res := make([]*rHist, nodes)
	var wg sync.WaitGroup
	for i := 0; i < nodes; i++ {
		wg.Add(1)
		go func(i int) {
			defer wg.Done()
			disable := i%4 == 1
			h := rHistory(t, i, seed, disable, steps, 1)
			if h.Timeout != "" || h.Fatal != "" { // one retry of the whole scenario (mesh formation / delivery deadline)
				out2 := h
				h = rHistory(t, i, seed, disable, steps, 2)
				h.Extra["first_attempt"] = out2.Timeout + out2.Fatal
			}
			res[i] = h
		}(i)
	}
	wg.Wait()
	for _, h := range res {
		out.emit(h)
	}
	out.emit(map[string]interface{}{"k": "metrics", "received": rMetrics()})
}
