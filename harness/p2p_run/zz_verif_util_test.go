//go:build verif

package p2p

import (
	"bufio"
	"encoding/json"
	"os"
	"strconv"
	"testing"
)

type vrng struct{ s uint64 }

func (r *vrng) next() uint64 {
	r.s += 0x9E3779B97F4A7C15
	z := r.s
	z = (z ^ (z >> 30)) * 0xBF58476D1CE4E5B9
	z = (z ^ (z >> 27)) * 0x94D049BB133111EB
	return z ^ (z >> 31)
}
func (r *vrng) below(n int) int { return int(r.next() % uint64(n)) }
func (r *vrng) bytes(n int) []byte {
	b := make([]byte, n)
	for i := range b {
		b[i] = byte(r.next())
	}
	return b
}
func (r *vrng) chance(num, den int) bool { return r.below(den) < num }

func verifSeed() uint64 {
	s, _ := strconv.ParseUint(os.Getenv("VERIF_SEED"), 10, 64)
	return s
}
func verifThorough() bool { return os.Getenv("VERIF_TIER") == "thorough" }

type vout struct {
	f *os.File
	w *bufio.Writer
	e *json.Encoder
}

func verifOut(t *testing.T) *vout {
	f, err := os.Create(os.Getenv("VERIF_OUT"))
	if err != nil {
		t.Fatal(err)
	}
	w := bufio.NewWriterSize(f, 1<<20)
	return &vout{f, w, json.NewEncoder(w)}
}
func (o *vout) emit(v interface{}) { o.e.Encode(v) }
func (o *vout) close()             { o.w.Flush(); o.f.Close() }

func TestVerifNothing(t *testing.T) {}

// word-level polynomial checksum shared with WH.lib.Wire.hash_bytes and vlib/core.py
const vHmod = (uint64(1) << 61) - 1

func vmulmod(a, b uint64) uint64 {
	hi, lo := mul64(a, b)
	r := (lo & vHmod) + (lo >> 61) + (hi<<3)&vHmod + (hi >> 58)
	for r >= vHmod {
		r -= vHmod
	}
	return r
}
func mul64(a, b uint64) (hi, lo uint64) {
	const mask32 = 1<<32 - 1
	a0, a1 := a&mask32, a>>32
	b0, b1 := b&mask32, b>>32
	w0 := a0 * b0
	t := a1*b0 + w0>>32
	w1 := t & mask32
	w2 := t >> 32
	w1 += a0 * b1
	hi = a1*b1 + w2 + w1>>32
	lo = a * b
	return
}
func vhash(b []byte) uint64 {
	acc := uint64(len(b)) % vHmod
	i := 0
	for len(b)-i >= 7 {
		var w uint64
		for j := 0; j < 7; j++ {
			w = w<<8 | uint64(b[i+j])
		}
		acc = (vmulmod(acc, 1000003) + w + 1) % vHmod
		i += 7
	}
	if i < len(b) {
		var w uint64
		for ; i < len(b); i++ {
			w = w<<8 | uint64(b[i])
		}
		acc = (vmulmod(acc, 1000003) + w + 7) % vHmod
	}
	return acc
}
