//go:build verif

package ethereum

// Extension X8 (C10): from the raw log to the message handed to the signer.  Three families, all on the unmodified code:
//   parse  the real EthereumConnector.ParseLogMessagePublished (abigen UnpackLog) on raw logs with ARBITRARY data bytes and topics
//   bytx   the real MessageEventsForTransaction over the real rpc client against the simulated node serving receipts whose logs are
//          given byte by byte (JSON round trip included)
//   run    the real Watcher.Run: raw logs pushed on the subscription (a log that does not unpack ends the subscription, Run returns
//          and is re-entered by the supervisor), heads, re-observation requests for receipts with raw logs
// Every row carries the raw input, what the code did with it (FULL messages), and the verdicts of Go-side monitors that compare
// with the values the generator intended (model independent).  The Coq model (model/EvmLog.v) re-evaluates every row.

import (
	"context"
	"encoding/binary"
	"encoding/hex"
	"fmt"
	"math/big"
	"os"
	"os/exec"
	"reflect"
	"sort"
	"strings"
	"sync"
	"sync/atomic"
	"testing"
	"time"

	"github.com/alephium/wormhole-fork/node/pkg/common"
	gossipv1 "github.com/alephium/wormhole-fork/node/pkg/proto/gossip/v1"
	"github.com/alephium/wormhole-fork/node/pkg/vaa"
	ethcommon "github.com/ethereum/go-ethereum/common"
	"github.com/ethereum/go-ethereum/core/types"
	"go.uber.org/zap"
)

// ---------------------------------------------------------------- raw logs
type intentJ struct {
	Sender  string `json:"sender"` // 20 bytes, hex
	Target  uint16 `json:"target"`
	Seq     uint64 `json:"seq"`
	Nonce   uint32 `json:"nonce"`
	Payload string `json:"payload"` // hex
	CL      uint8  `json:"cl"`
}

type rawLogJ struct {
	Addr   string   `json:"addr"`
	Topics []string `json:"topics"`
	Data   string   `json:"data"`
	BH     string   `json:"bh"`
	Num    uint64   `json:"num"`
	Tx     string   `json:"tx"`
	Kind   string   `json:"kind"`
	Expect string   `json:"expect"` // msg: decodes to Intent | nomsg: must not yield a message | "": no claim
	Intent *intentJ `json:"intent"`
}

type msgJ struct {
	Tx      string `json:"tx"`
	TS      int64  `json:"ts"`
	Nonce   uint32 `json:"nonce"`
	Seq     uint64 `json:"seq"`
	Chain   uint16 `json:"chain"`
	Target  uint16 `json:"target"`
	Em      string `json:"em"`
	Payload string `json:"payload"`
	CL      uint8  `json:"cl"`
}

func hx(b []byte) string { return hex.EncodeToString(b) }
func unhx(s string) []byte {
	b, err := hex.DecodeString(s)
	if err != nil {
		panic(err)
	}
	return b
}

func rbytes(r *erng, n int) []byte {
	out := make([]byte, n)
	for i := 0; i < n; i += 8 {
		var w [8]byte
		binary.BigEndian.PutUint64(w[:], r.next())
		copy(out[i:], w[:])
	}
	return out
}

// hIDr: a hash in the sim's layout (kind byte, id in the last 8 bytes) whose other 23 bytes are arbitrary
func hIDr(r *erng, kind byte, i uint64) ethcommon.Hash {
	var h ethcommon.Hash
	copy(h[:], rbytes(r, 32))
	h[0] = kind
	binary.BigEndian.PutUint64(h[24:], i)
	return h
}

func (l *rawLogJ) ethLog() *types.Log {
	tl := &types.Log{Address: ethcommon.BytesToAddress(unhx(l.Addr)), Topics: []ethcommon.Hash{}, Data: unhx(l.Data), BlockNumber: l.Num,
		TxHash: ethcommon.BytesToHash(unhx(l.Tx)), BlockHash: ethcommon.BytesToHash(unhx(l.BH))}
	for _, t := range l.Topics {
		tl.Topics = append(tl.Topics, ethcommon.BytesToHash(unhx(t)))
	}
	return tl
}

func msgOf(m *common.MessagePublication) msgJ {
	return msgJ{Tx: hx(m.TxHash[:]), TS: m.Timestamp.Unix(), Nonce: m.Nonce, Seq: m.Sequence, Chain: uint16(m.EmitterChain), Target: uint16(m.TargetChain),
		Em: hx(m.EmitterAddress[:]), Payload: hx(m.Payload), CL: m.ConsistencyLevel}
}

// the message the property asks for, from the generator's intended values (independent of the decoder under test)
func intendedMsg(l *rawLogJ, chain uint16, blockTime uint64) msgJ {
	in := l.Intent
	return msgJ{Tx: l.Tx, TS: int64(blockTime), Nonce: in.Nonce, Seq: in.Seq, Chain: chain, Target: in.Target,
		Em: strings.Repeat("00", 12) + in.Sender, Payload: in.Payload, CL: in.CL}
}

// ---------------------------------------------------------------- the generator's own ABI encoder (not go-ethereum's Pack)
type lmpVals struct {
	sender  []byte
	target  uint16
	seq     uint64
	nonce   uint32
	payload []byte
	cl      uint8
}

func lmpWord(v uint64) []byte {
	w := make([]byte, 32)
	binary.BigEndian.PutUint64(w[24:], v)
	return w
}

// head (5 words, offset word = off), gap (off-160 bytes), length word, payload, padding to a word boundary
func buildLMPData(v *lmpVals, off int, gap []byte) []byte {
	var d []byte
	d = append(d, lmpWord(uint64(v.target))...)
	d = append(d, lmpWord(v.seq)...)
	d = append(d, lmpWord(uint64(v.nonce))...)
	d = append(d, lmpWord(uint64(off))...)
	d = append(d, lmpWord(uint64(v.cl))...)
	d = append(d, gap...)
	d = append(d, lmpWord(uint64(len(v.payload)))...)
	d = append(d, v.payload...)
	if k := len(v.payload) % 32; k != 0 {
		d = append(d, make([]byte, 32-k)...)
	}
	return d
}

var (
	seqChoices    = []uint64{0, 1, 2, 1<<63 - 1, 1 << 63, 1<<64 - 1, 1 << 32, 77}
	nonceChoices  = []uint32{0, 1, 1<<32 - 1, 1 << 31, 12345}
	targetChoices = []uint16{0, 1, 2, 255, 256, 65535, 4}
	clCases       = []uint8{0, 1, 15, 200, 255}
	plenChoices   = []int{0, 1, 31, 32, 33, 64, 100}
)

func genVals(r *erng, allowBig bool) *lmpVals {
	v := &lmpVals{sender: rbytes(r, 20)}
	switch r.below(8) {
	case 0:
		v.sender = make([]byte, 20)
	case 1:
		copy(v.sender, make([]byte, 12)) // leading zeros
	case 2:
		for i := range v.sender {
			v.sender[i] = 0xff
		}
	}
	if r.chance(60) {
		v.seq = seqChoices[r.below(len(seqChoices))]
	} else {
		v.seq = r.next()
	}
	if r.chance(60) {
		v.nonce = nonceChoices[r.below(len(nonceChoices))]
	} else {
		v.nonce = uint32(r.next())
	}
	if r.chance(70) {
		v.target = targetChoices[r.below(len(targetChoices))]
	} else {
		v.target = uint16(r.next())
	}
	v.cl = clCases[r.below(len(clCases))]
	n := plenChoices[r.below(len(plenChoices))]
	switch k := r.below(100); {
	case k < 25:
		n = r.below(200)
	case k < 29 && allowBig:
		n = 1000
	case k < 31 && allowBig:
		n = 5000
	}
	v.payload = rbytes(r, n)
	return v
}

func (v *lmpVals) intent() *intentJ {
	return &intentJ{Sender: hx(v.sender), Target: v.target, Seq: v.seq, Nonce: v.nonce, Payload: hx(v.payload), CL: v.cl}
}

var msgKinds = []string{"canonical", "canonical", "canonical", "trailing", "noncanonical", "dirtypad", "shiftedtail", "truncpad", "emptydata", "lenshort", "dirtytopic1"}
var nomsgKinds = []string{"truncated", "truncated", "badoffset", "badoffset", "lenbeyond", "lenbeyond", "onlyid", "threetopics", "othertopic"}
var freeKinds = []string{"offhead", "randomdata", "notopics"}

func bigWord(r *erng, which int, small uint64) []byte {
	w := make([]byte, 32)
	switch which {
	case 0:
		binary.BigEndian.PutUint64(w[24:], small)
	case 1:
		binary.BigEndian.PutUint64(w[24:], 1<<32)
	case 2:
		binary.BigEndian.PutUint64(w[24:], 1<<63)
	case 3:
		binary.BigEndian.PutUint64(w[24:], 1<<64-1)
	case 4:
		w[0] = 0x80
	case 5:
		for i := range w {
			w[i] = 0xff
		}
	case 6:
		binary.BigEndian.PutUint64(w[24:], 1<<63-1)
	default:
		w[23] = 1 // 2^64
	}
	return w
}

// genRawLog builds one log of the given kind for the core contract; vals == nil: fresh values
func genRawLog(r *erng, kind string, allowBig bool, id uint64, num uint64) *rawLogJ {
	v := genVals(r, allowBig)
	lmpID := evmABI.Events["LogMessagePublished"].ID
	l := &rawLogJ{Addr: hx(evmContract[:]), Kind: kind, Num: num, BH: hx(hIDr(r, kindBlock, id).Bytes()), Tx: hx(hIDr(r, kindTx, id).Bytes()), Expect: "msg"}
	t1 := append(make([]byte, 12), v.sender...)
	topics := [][]byte{lmpID[:], t1}
	data := buildLMPData(v, 160, nil)
	need := 160 + 32 + len(v.payload)
	switch kind {
	case "canonical":
	case "trailing":
		data = append(data, rbytes(r, 1+r.below(64))...)
	case "noncanonical":
		// high bytes set in the words of the static fields (the offset word is read as a whole)
		dirty := func(from, n int) {
			x := rbytes(r, n)
			x[r.below(n)] |= 1
			copy(data[from:], x)
		}
		m := 1 + r.below(15)
		if m&1 != 0 {
			dirty(0, 30)
		}
		if m&2 != 0 {
			dirty(32, 24)
		}
		if m&4 != 0 {
			dirty(64, 28)
		}
		if m&8 != 0 {
			dirty(128, 31)
		}
	case "dirtypad":
		for i := need; i < len(data); i++ {
			data[i] = byte(1 + r.below(255))
		}
	case "shiftedtail":
		g := 32 * (1 + r.below(3))
		if r.chance(40) {
			g = 1 + r.below(45)
		}
		data = buildLMPData(v, 160+g, rbytes(r, g))
	case "truncpad":
		if len(data) > need {
			data = data[:need+r.below(len(data)-need)]
		}
	case "emptydata":
		data = nil
		v = &lmpVals{sender: v.sender}
	case "lenshort":
		if len(v.payload) > 0 {
			n := r.below(len(v.payload))
			copy(data[160:192], lmpWord(uint64(n)))
			v.payload = v.payload[:n]
		}
	case "dirtytopic1":
		copy(t1, rbytes(r, 12))
		t1[r.below(12)] |= 1
	case "truncated":
		data = data[:1+r.below(need-1)]
		l.Expect = "nomsg"
	case "badoffset":
		w := r.below(8)
		copy(data[96:128], bigWord(r, w, uint64(len(data)-31+r.below(3))))
		l.Expect = "nomsg"
	case "lenbeyond":
		w := r.below(8)
		if w == 6 {
			w = 0
		}
		copy(data[160:192], bigWord(r, w, uint64(len(data)-192+1+r.below(40))))
		l.Expect = "nomsg"
	case "onlyid":
		topics = topics[:1]
		l.Expect = "nomsg"
	case "threetopics":
		topics = append(topics, rbytes(r, 32))
		l.Expect = "nomsg"
	case "othertopic":
		topics[0] = rbytes(r, 32)
		l.Expect = "nomsg"
	case "notopics":
		topics = nil
		l.Expect = "nomsg"
	case "offhead":
		copy(data[96:128], lmpWord(uint64([]int{0, 32, 64, 128, 1, 159}[r.below(6)])))
		l.Expect = ""
	case "randomdata":
		data = rbytes(r, r.below(400))
		l.Expect = ""
	default:
		panic("unknown kind " + kind)
	}
	l.Data = hx(data)
	l.Topics = []string{}
	for _, t := range topics {
		l.Topics = append(l.Topics, hx(t))
	}
	if l.Expect == "msg" {
		l.Intent = v.intent()
	}
	return l
}

func pickKind(r *erng, msgPct, nomsgPct int) string {
	k := r.below(100)
	switch {
	case k < msgPct:
		return msgKinds[r.below(len(msgKinds))]
	case k < msgPct+nomsgPct:
		return nomsgKinds[r.below(len(nomsgKinds))]
	}
	return freeKinds[r.below(len(freeKinds))]
}

func errClass(err error) string {
	s := err.Error()
	switch {
	case strings.Contains(s, "event signature mismatch"):
		return "sig"
	case strings.Contains(s, "length insufficient"):
		return "insufficient"
	case strings.Contains(s, "would go over slice boundary"):
		return "offset"
	case strings.Contains(s, "abi offset larger than int64"):
		return "offset64"
	case strings.Contains(s, "length larger than int64"):
		return "len64"
	case strings.Contains(s, "topic/field count mismatch"):
		return "topics"
	case strings.Contains(s, "improperly encoded") || strings.Contains(s, "improperly formatted"):
		return "pad"
	}
	return "other"
}

// ---------------------------------------------------------------- family parse
type parseRes struct {
	Out     string   `json:"out"` // ok | err | panic
	Err     string   `json:"err,omitempty"`
	ErrText string   `json:"errtext,omitempty"`
	Ev      *intentJ `json:"ev,omitempty"`
	RawOK   bool     `json:"rawok"`
}
type parseRow struct {
	K   string   `json:"k"`
	ID  int      `json:"id"`
	Log *rawLogJ `json:"log"`
	Res parseRes `json:"res"`
	Mon []string `json:"mon"`
}

func runParse(conn *EthereumConnector, l *rawLogJ) (res parseRes) {
	defer func() {
		if p := recover(); p != nil {
			res = parseRes{Out: "panic", ErrText: fmt.Sprint(p)}
		}
	}()
	tl := l.ethLog()
	ev, err := conn.ParseLogMessagePublished(*tl)
	if err != nil {
		return parseRes{Out: "err", Err: errClass(err), ErrText: err.Error()}
	}
	return parseRes{Out: "ok", RawOK: reflect.DeepEqual(ev.Raw, *tl),
		Ev: &intentJ{Sender: hx(ev.Sender[:]), Target: ev.TargetChainId, Seq: ev.Sequence, Nonce: ev.Nonce, Payload: hx(ev.Payload), CL: ev.ConsistencyLevel}}
}

func parseMonitor(l *rawLogJ, res *parseRes) []string {
	mon := []string{}
	switch l.Expect {
	case "msg":
		if res.Out != "ok" {
			mon = append(mon, fmt.Sprintf("fidelity:wellformed-log-rejected|ParseLogMessagePublished rejected a %s log (%s %s); intended %+v", l.Kind, res.Out, res.ErrText, *l.Intent))
		} else if *res.Ev != *l.Intent {
			mon = append(mon, fmt.Sprintf("fidelity:parsed-fields|ParseLogMessagePublished of a %s log gave %+v, the log says %+v", l.Kind, *res.Ev, *l.Intent))
		} else if !res.RawOK {
			mon = append(mon, fmt.Sprintf("fidelity:parsed-raw|ParseLogMessagePublished of a %s log: event.Raw is not the log handed in", l.Kind))
		}
	case "nomsg":
		if res.Out == "ok" {
			mon = append(mon, fmt.Sprintf("fidelity:malformed-log-parsed|ParseLogMessagePublished accepted a %s log as %+v", l.Kind, *res.Ev))
		}
	}
	return mon
}

// ---------------------------------------------------------------- family bytx
type rcptJ struct {
	Status uint64     `json:"status"`
	Blk    int64      `json:"blk"` // -1: the receipt has no block number
	BH     string     `json:"bh"`
	Logs   []*rawLogJ `json:"logs"` // nil entries allowed
}
type bytxRes struct {
	Out     string `json:"out"` // ok | err | panic
	ErrText string `json:"errtext,omitempty"`
	Blk     uint64 `json:"blk"`
	Msgs    []msgJ `json:"msgs"`
}
type bytxRow struct {
	K     string   `json:"k"`
	ID    int      `json:"id"`
	Chain uint16   `json:"chain"`
	Tx    string   `json:"tx"`
	Rc    *rcptJ   `json:"rc"`
	RcErr bool     `json:"rcerr"`
	BT    uint64   `json:"bt"`
	BTErr bool     `json:"bterr"`
	Res   bytxRes  `json:"res"`
	Mon   []string `json:"mon"`
}

func (rc *rcptJ) receipt(tx ethcommon.Hash) *types.Receipt {
	out := &types.Receipt{Status: rc.Status, BlockHash: ethcommon.BytesToHash(unhx(rc.BH)), TxHash: tx, Logs: []*types.Log{}}
	if rc.Blk >= 0 {
		out.BlockNumber = new(big.Int).SetUint64(uint64(rc.Blk))
	}
	for _, l := range rc.Logs {
		if l == nil {
			out.Logs = append(out.Logs, nil)
		} else {
			out.Logs = append(out.Logs, l.ethLog())
		}
	}
	return out
}

// expectation of the re-observation read from the generator's intent: (known, outcome, block, messages)
func bytxExpect(row *bytxRow) (bool, string, uint64, []msgJ) {
	if row.RcErr || row.Rc == nil || row.Rc.Status != 1 || row.BTErr {
		return true, "err", 0, nil
	}
	lmp := hx(evmABI.Events["LogMessagePublished"].ID.Bytes())
	msgs := []msgJ{}
	for _, l := range row.Rc.Logs {
		if l == nil || l.Addr != hx(evmContract[:]) {
			continue
		}
		if len(l.Topics) == 0 {
			return true, "panic", 0, nil
		}
		if l.Topics[0] != lmp {
			continue
		}
		switch l.Expect {
		case "nomsg":
			return true, "err", 0, nil
		case "msg":
			msgs = append(msgs, intendedMsg(l, row.Chain, row.BT))
		default:
			return false, "", 0, nil
		}
	}
	if row.Rc.Blk < 0 {
		return true, "panic", 0, nil
	}
	return true, "ok", uint64(row.Rc.Blk), msgs
}

func runByTx(ctx context.Context, conn *EthereumConnector, chain uint16, tx ethcommon.Hash) (res bytxRes) {
	defer func() {
		if p := recover(); p != nil {
			res = bytxRes{Out: "panic", ErrText: fmt.Sprint(p), Msgs: []msgJ{}}
		}
	}()
	c, cancel := context.WithTimeout(ctx, 10*time.Second)
	defer cancel()
	blk, msgs, err := MessageEventsForTransaction(c, conn, evmContract, vaa.ChainID(chain), tx)
	if err != nil {
		return bytxRes{Out: "err", ErrText: err.Error(), Msgs: []msgJ{}}
	}
	res = bytxRes{Out: "ok", Blk: blk, Msgs: []msgJ{}}
	for _, m := range msgs {
		res.Msgs = append(res.Msgs, msgOf(m))
	}
	return res
}

func genReceipt(r *erng, id uint64, allowBig bool, msgPct, nomsgPct int, allowPanic bool) (*rcptJ, ethcommon.Hash) {
	tx := hIDr(r, kindTx, id)
	bh := hIDr(r, kindBlock, id)
	rc := &rcptJ{Status: 1, Blk: int64(1000 + r.below(100000)), BH: hx(bh[:]), Logs: []*rawLogJ{}}
	if r.chance(4) {
		rc.Blk = int64(r.next() >> 1)
	}
	n := 1 + r.below(4)
	if r.chance(5) {
		n = 0
	}
	for i := 0; i < n; i++ {
		kind := pickKind(r, msgPct, nomsgPct)
		if kind == "notopics" && !allowPanic {
			kind = "canonical"
		}
		l := genRawLog(r, kind, allowBig, id, uint64(rc.Blk))
		l.Tx, l.BH = hx(tx[:]), rc.BH
		switch k := r.below(100); {
		case k < 10:
			l.Addr = hx(evmForeign[:]) // a log of another contract: whatever it says, it is skipped
		case k < 13:
			// the node reports another transaction hash inside the log entry than the one that was asked for
			l.Tx = hx(hIDr(r, kindTx, id+500000).Bytes())
		case k < 16 && allowPanic:
			rc.Logs = append(rc.Logs, nil)
		}
		rc.Logs = append(rc.Logs, l)
	}
	return rc, tx
}

// ---------------------------------------------------------------- family run
type lkJ struct {
	Tx string `json:"tx"`
	C  int    `json:"c"` // 0 not found, 1 transient error, 2 receipt
	St uint64 `json:"st"`
	BH string `json:"bh"`
}
type rawOp struct {
	T   string   `json:"t"` // log | head | reobs
	Log *rawLogJ `json:"log,omitempty"`
	BT  uint64   `json:"bt"`
	N   uint64   `json:"n"`
	Lk  []lkJ    `json:"lk"`
	Tx  string   `json:"tx,omitempty"`
	HB  uint64   `json:"hb"`
	Rc  *rcptJ   `json:"rc,omitempty"`
}
type pendJ struct {
	Tx  string `json:"tx"`
	BH  string `json:"bh"`
	Em  string `json:"em"`
	Seq uint64 `json:"seq"`
	H   uint64 `json:"h"`
}
type rawGroup struct {
	Step int     `json:"step"`
	Ops  []rawOp `json:"ops"`
	Fw   []msgJ  `json:"fw"`
	Pend []pendJ `json:"pend"`
	Died int     `json:"died"`
}
type rawStep struct {
	Op         string   `json:"op"` // log | head | reobs
	Log        *rawLogJ `json:"log,omitempty"`
	Unfiltered bool     `json:"unfiltered,omitempty"`
	To         uint64   `json:"to,omitempty"`
	Tx         string   `json:"tx,omitempty"`
	Rc         *rcptJ   `json:"rc,omitempty"`
}
type runRow struct {
	K       string         `json:"k"`
	ID      int            `json:"id"`
	Cfg     scenCfg        `json:"cfg"`
	Chain   uint16         `json:"chain"`
	Script  []rawStep      `json:"script"`
	Groups  []rawGroup     `json:"groups"`
	Mon     []string       `json:"mon"`
	Harness []string       `json:"harness"`
	Stats   map[string]int `json:"stats"`
}

func (sc *scen) pendingFull() []pendJ {
	out := []pendJ{}
	sc.w.pendingMu.Lock()
	for k, p := range sc.w.pending {
		// key components by field name (a key type that forgets one shows up as a difference, not as a build error)
		kv := reflect.ValueOf(k)
		e := pendJ{H: p.height}
		if f := kv.FieldByName("TxHash"); f.IsValid() {
			if h, ok := f.Interface().(ethcommon.Hash); ok {
				e.Tx = hx(h[:])
			}
		}
		if f := kv.FieldByName("BlockHash"); f.IsValid() {
			if h, ok := f.Interface().(ethcommon.Hash); ok {
				e.BH = hx(h[:])
			}
		}
		if f := kv.FieldByName("EmitterAddress"); f.IsValid() {
			if a, ok := f.Interface().(vaa.Address); ok {
				e.Em = hx(a[:])
			}
		}
		if f := kv.FieldByName("Sequence"); f.IsValid() && f.Kind() == reflect.Uint64 {
			e.Seq = f.Uint()
		}
		out = append(out, e)
	}
	sc.w.pendingMu.Unlock()
	sort.Slice(out, func(i, j int) bool {
		a, b := out[i], out[j]
		if a.Tx != b.Tx {
			return a.Tx < b.Tx
		}
		if a.BH != b.BH {
			return a.BH < b.BH
		}
		if a.Em != b.Em {
			return a.Em < b.Em
		}
		return a.Seq < b.Seq
	})
	return out
}

func (sc *scen) drainFull() []msgJ {
	out := []msgJ{}
	for {
		select {
		case m := <-sc.msgC:
			out = append(out, msgOf(m))
		default:
			return out
		}
	}
}

func (sim *evmSim) timeOfHash(h ethcommon.Hash) uint64 {
	if t, ok := sim.rawTimes[h]; ok {
		return t
	}
	return blockTimeOf(h)
}

type rawScen struct {
	*scen
	served   []*rawLogJ     // logs pushed on the subscription (core contract, any kind)
	byTx     map[string]int // scan-path forwards per pushed log (by tx)
	pushedOK []*rawLogJ
}

func (rs *rawScen) step(si int, st *rawStep) rawGroup {
	sc, sim := rs.scen, rs.scen.sim
	sim.mu.Lock()
	lk0, sc0 := len(sim.lookups), len(sim.scans)
	head := sim.head
	sim.mu.Unlock()
	g := rawGroup{Step: si, Ops: []rawOp{}}
	deaths0 := atomic.LoadInt64(&sc.deaths)
	pendBefore := sc.pendingFull()
	var first *rawOp
	var reobsExpect []msgJ
	reobsKnown := false

	switch st.Op {
	case "log":
		l := st.Log
		tl := l.ethLog()
		bt := sim.timeOfHash(tl.BlockHash)
		first = &rawOp{T: "log", Log: l, BT: bt}
		rs.served = append(rs.served, l)
		sim.mu.Lock()
		sim.rawRcpts[tl.TxHash] = &types.Receipt{Status: 1, BlockHash: tl.BlockHash, BlockNumber: new(big.Int).SetUint64(l.Num), TxHash: tl.TxHash, Logs: []*types.Log{tl}}
		bbh0 := sim.bbhCalls[tl.BlockHash]
		subs0, calls0, polls0 := sim.subCount, len(sim.gs.calls), sim.pollsArrived
		sim.mu.Unlock()
		runs0 := atomic.LoadInt64(&sc.runs)
		if l.Expect != "msg" {
			atomic.AddInt64(&sc.expectDeaths, 1)
		}
		var sent bool
		if st.Unfiltered {
			sent = sim.pushUnfiltered(tl)
		} else {
			sent = sim.push(tl)
		}
		if !sent {
			sc.harnessf("step %d: the subscription filter rejected a core-contract log of kind %s", si, l.Kind)
			break
		}
		if l.Expect == "msg" {
			rs.pushedOK = append(rs.pushedOK, l)
			ok := waitUntil(rendezvousTimeout, func() bool {
				if sc.died.Load() != nil || atomic.LoadInt64(&sc.deaths) > deaths0 {
					return true
				}
				sim.mu.Lock()
				defer sim.mu.Unlock()
				return sim.bbhCalls[tl.BlockHash] > bbh0
			})
			if !ok {
				sc.harnessf("step %d: the watcher never asked for the block time of a pushed %s log", si, l.Kind)
				break
			}
			// the insertion follows the block-time answer at once; what is inserted is observed, not presumed
			waitUntil(3*time.Second, func() bool {
				return !reflect.DeepEqual(sc.pendingFull(), pendBefore) || atomic.LoadInt64(&sc.deaths) > deaths0
			})
			if atomic.LoadInt64(&sc.deaths) > deaths0 {
				// the code ended Run on a log the generator built to be well-formed: reported by the monitors below; wait for the re-entry
				atomic.AddInt64(&sc.expectDeaths, 1)
				rs.awaitReentry(si, deaths0, runs0, subs0, calls0, polls0)
			} else {
				sc.pollerOff = false
			}
			sc.settle("log")
		} else {
			// a log that does not unpack: abigen's subscription goroutine returns the error, messageSub.Err() fires, Run returns
			okDeath := waitUntil(rendezvousTimeout/2, func() bool { return atomic.LoadInt64(&sc.deaths) > deaths0 || sc.died.Load() != nil })
			if !okDeath {
				// the code accepted it (or dropped it silently): nothing to wait for; the monitors / the model say what that means
				atomic.AddInt64(&sc.expectDeaths, -1)
				sc.settle("log")
				break
			}
			rs.awaitReentry(si, deaths0, runs0, subs0, calls0, polls0)
			sc.settle("log")
		}

	case "head":
		sim.mu.Lock()
		if st.To > sim.head {
			sim.head = st.To
			sim.headHash = hID(kindHead, sim.head)
		}
		sim.mu.Unlock()
		sc.settle("head")

	case "reobs":
		txh := ethcommon.BytesToHash(unhx(st.Tx))
		rcpt := st.Rc.receipt(txh)
		sim.mu.Lock()
		orig, had := sim.rawRcpts[txh]
		sim.rawRcpts[txh] = rcpt
		bt := sim.timeOfHash(rcpt.BlockHash)
		sim.mu.Unlock()
		first = &rawOp{T: "reobs", Tx: st.Tx, HB: head, Rc: st.Rc, BT: bt}
		row := &bytxRow{Chain: uint16(sc.w.chainID), Rc: st.Rc, BT: bt}
		known, outc, blk, msgs := bytxExpect(row)
		if known {
			reobsKnown = true
			if outc == "ok" {
				for _, m := range msgs {
					e := uint64(0)
					if sc.cfg.Wait {
						e = uint64(m.CL)
					}
					if head != 0 && blk+e <= head {
						reobsExpect = append(reobsExpect, m)
					}
				}
			}
		}
		sc.syncSeq++
		syncH := hID(kindSync, sc.syncSeq)
		send := func(h []byte) bool {
			select {
			case sc.obsvC <- &gossipv1.ObservationRequest{ChainId: uint32(sc.w.chainID), TxHash: h}:
				return true
			case <-time.After(rendezvousTimeout):
				return false
			}
		}
		if !send(txh.Bytes()) || !send(syncH.Bytes()) {
			sc.harnessf("step %d: re-observation request not accepted", si)
		} else if !waitUntil(rendezvousTimeout, func() bool {
			if sc.died.Load() != nil {
				return true
			}
			sim.mu.Lock()
			defer sim.mu.Unlock()
			for i := len(sim.lookups) - 1; i >= lk0; i-- {
				if sim.lookups[i].Kind == kindSync && sim.lookups[i].Tx == int(sc.syncSeq) {
					return true
				}
			}
			return false
		}) {
			sc.harnessf("step %d: the re-observation goroutine never asked for the receipt of the barrier request", si)
		}
		sim.mu.Lock()
		if had {
			sim.rawRcpts[txh] = orig
		} else {
			delete(sim.rawRcpts, txh)
		}
		sim.mu.Unlock()
		sc.settle("reobs")
	}
	if d := sc.died.Load(); d != nil {
		sc.harnessf("step %d (%s): watcher terminated: %v", si, st.Op, d)
	}

	// ------------------------------------------------ observe
	g.Fw = sc.drainFull()
	g.Pend = sc.pendingFull()
	g.Died = int(atomic.LoadInt64(&sc.deaths) - deaths0)
	sim.mu.Lock()
	var scans []scanRec
	for _, s := range sim.scans[sc0:] {
		if !s.Open {
			scans = append(scans, s)
		}
	}
	allLk := sim.lookups
	sim.mu.Unlock()
	// a scan of this step that did not ask for the receipt of the log just pushed is placed BEFORE the log: it may be the head of a poll
	// that was in flight when the poller was switched off, processed before the insertion (if it ran after the insertion and the entry
	// was not deep enough, the order makes no difference)
	// a receipt request that arrives while a scan is running belongs to that scan only if an entry of that transaction can be pending
	// (a re-observation request may overlap the scan of a head that was in flight when the poller was switched off)
	pendTx := map[string]bool{}
	for _, e := range pendBefore {
		pendTx[e.Tx] = true
	}
	if st.Op == "log" {
		pendTx[st.Log.Tx] = true
	}
	var before, after []rawOp
	for _, s := range scans {
		op := rawOp{T: "head", N: s.N, Lk: []lkJ{}}
		touches := false
		for _, lk := range allLk[s.From:s.To] {
			if lk.Kind != kindTx || !pendTx[rs.txOfID(lk.Tx)] {
				continue
			}
			// the full hash that was asked for: the sim records the id; the pending entries of this history carry the hash
			op.Lk = append(op.Lk, lkJ{Tx: rs.txOfID(lk.Tx), C: lk.Code, St: lk.Status, BH: rs.bhOfID(lk.BH)})
			if st.Op == "log" && rs.txOfID(lk.Tx) == st.Log.Tx {
				touches = true
			}
		}
		if st.Op == "log" && !touches {
			before = append(before, op)
		} else {
			after = append(after, op)
		}
		sc.stats["scans"]++
		sc.stats["lookups"] += len(op.Lk)
	}
	g.Ops = append(g.Ops, before...)
	if first != nil {
		if first.Lk == nil {
			first.Lk = []lkJ{}
		}
		g.Ops = append(g.Ops, *first)
	}
	g.Ops = append(g.Ops, after...)
	sc.stats["forwarded"] += len(g.Fw)

	// ------------------------------------------------ monitors: the generator's intended values
	chain := uint16(sc.w.chainID)
	if st.Op == "reobs" {
		if reobsKnown && !reflect.DeepEqual(append([]msgJ{}, reobsExpect...), g.Fw) {
			sc.monf("fidelity:reobserved-messages", "step %d: re-observation of tx %s (head %d, wait %v) forwarded %+v; the receipt's core-contract LogMessagePublished logs that are deep enough say %+v",
				si, st.Tx, head, sc.cfg.Wait, g.Fw, reobsExpect)
		}
	} else {
		for _, m := range g.Fw {
			found := false
			for _, l := range rs.pushedOK {
				if intendedMsg(l, chain, sim.timeOfHash(ethcommon.BytesToHash(unhx(l.BH)))) == m {
					found = true
					rs.byTx[l.Tx]++
				}
			}
			if !found {
				var near *rawLogJ
				for _, l := range rs.served {
					if l.Tx == m.Tx {
						near = l
					}
				}
				if near != nil && near.Intent != nil {
					sc.monf("fidelity:message-fields", "step %d: forwarded %+v; the %s log of that transaction says %+v (block time %d, chain %d)", si, m, near.Kind,
						intendedMsg(near, chain, sim.timeOfHash(ethcommon.BytesToHash(unhx(near.BH)))), sim.timeOfHash(ethcommon.BytesToHash(unhx(near.BH))), chain)
				} else if near != nil {
					sc.monf("fidelity:malformed-log-forwarded", "step %d: forwarded %+v although the only log of that transaction is a %s log that must not yield a message", si, m, near.Kind)
				} else {
					sc.monf("fidelity:message-of-no-log", "step %d: forwarded %+v; no served log belongs to that transaction", si, m)
				}
			}
		}
	}
	if st.Op == "log" && st.Log.Expect == "nomsg" {
		if !reflect.DeepEqual(pendBefore, g.Pend) && len(scans) == 0 {
			sc.monf("fidelity:malformed-log-disturbed-pending", "step %d: a %s log changed w.pending from %+v to %+v", si, st.Log.Kind, pendBefore, g.Pend)
		}
	}
	if st.Op == "log" && st.Log.Expect == "msg" && g.Died > 0 {
		sc.monf("fidelity:wellformed-log-ended-run", "step %d: Run returned (%v) on a %s log that says %+v", si, sc.lastDeath.Load(), st.Log.Kind, *st.Log.Intent)
	}
	return g
}

func (rs *rawScen) txOfID(id int) string {
	for _, l := range rs.served {
		h := ethcommon.BytesToHash(unhx(l.Tx))
		if hKind(h) == kindTx && hNum(h) == id {
			return l.Tx
		}
	}
	return hx(hID(kindTx, uint64(id)).Bytes())
}
func (rs *rawScen) bhOfID(id int) string {
	for _, l := range rs.served {
		h := ethcommon.BytesToHash(unhx(l.BH))
		if hKind(h) == kindBlock && hNum(h) == id {
			return l.BH
		}
	}
	return hx(hID(kindBlock, uint64(id)).Bytes())
}

// awaitReentry: Run has returned (or is about to); wait until the supervisor has re-entered it on the same Watcher value and the new
// Run has subscribed, fetched the guardian set and its poller has read its first block
func (rs *rawScen) awaitReentry(si int, deaths0, runs0 int64, subs0, calls0 int, polls0 uint64) {
	sc, sim := rs.scen, rs.scen.sim
	if !waitUntil(2*rendezvousTimeout, func() bool { return atomic.LoadInt64(&sc.deaths) > deaths0 || sc.died.Load() != nil }) {
		sc.harnessf("step %d: Run did not return", si)
		return
	}
	sim.mu.Lock()
	pollsAtDeath := sim.pollsArrived
	sim.mu.Unlock()
	_ = polls0
	okUp := waitUntil(3*rendezvousTimeout, func() bool {
		if sc.died.Load() != nil {
			return true
		}
		if atomic.LoadInt64(&sc.runs) < runs0+1 {
			return false
		}
		sim.mu.Lock()
		defer sim.mu.Unlock()
		okSet := 0
		for _, c := range sim.gs.calls[calls0:] {
			if c.Kind == "set" && !c.Err {
				okSet++
			}
		}
		return sim.subCount >= subs0+1 && okSet >= 1 && sim.pollsArrived > pollsAtDeath
	})
	if !okUp {
		sc.harnessf("step %d: Run was not up again after a log that does not unpack (entered %d times since, returned %d times)", si,
			atomic.LoadInt64(&sc.runs)-runs0, atomic.LoadInt64(&sc.deaths)-deaths0)
		return
	}
	time.Sleep(100 * time.Millisecond)
	sc.stats["restarts"]++
	if sc.pendingEmpty() {
		sc.pollerOff = true
	} else if sc.pollerAlive() {
		sc.pollerOff = false
	} else {
		sc.pendingWithPollerOff(fmt.Sprintf("step %d: Run returned on a log that does not unpack and was re-entered on the same Watcher value", si))
	}
	sim.mu.Lock()
	if sim.head > sim.lastProcessed {
		sim.lastProcessed = sim.head // the new poller's first lastBlock is never published
	}
	sim.mu.Unlock()
drain:
	for {
		select {
		case <-sc.setC:
		default:
			break drain
		}
	}
}

func genRunScript(r *erng, cfg *scenCfg, maxWait uint64, allowBig bool) []rawStep {
	var out []rawStep
	head := cfg.Head0
	nlogs := 2 + r.below(4)
	badLeft := 0
	if r.chance(45) {
		badLeft = 1
	}
	type served struct {
		l  *rawLogJ
		rc *rcptJ
	}
	var logs []served
	id := uint64(1)
	nsteps := 6 + r.below(9)
	for len(out) < nsteps || len(logs) < 2 {
		c := r.below(100)
		switch {
		case (c < 40 && len(logs) < nlogs) || len(logs) == 0:
			kind := msgKinds[r.below(len(msgKinds))]
			unf := false
			if badLeft > 0 && len(logs) > 0 && r.chance(50) {
				badLeft--
				kind = nomsgKinds[r.below(len(nomsgKinds))]
				unf = kind == "othertopic" // a node that does not apply the topic filter
			}
			blk := head
			if r.chance(30) && head > 3 {
				blk = head - uint64(1+r.below(3))
			}
			l := genRawLog(r, kind, allowBig, id, blk)
			id++
			logs = append(logs, served{l, &rcptJ{Status: 1, Blk: int64(blk), BH: l.BH, Logs: []*rawLogJ{l}}})
			out = append(out, rawStep{Op: "log", Log: l, Unfiltered: unf})
		case c < 72:
			to := head + 1
			if r.chance(40) {
				s := logs[r.below(len(logs))]
				if s.l.Intent != nil {
					to = s.l.Num + uint64(s.l.Intent.CL) + uint64(r.below(3)) - 1
				}
			}
			if r.chance(10) {
				to = head + uint64(30+r.below(200))
			}
			if to > head {
				head = to
				out = append(out, rawStep{Op: "head", To: to})
			}
		default:
			s := logs[r.below(len(logs))]
			rc := &rcptJ{Status: s.rc.Status, Blk: s.rc.Blk, BH: s.rc.BH, Logs: append([]*rawLogJ{}, s.rc.Logs...)}
			// further logs of the same transaction, as the node reports them in the receipt
			for j := r.below(3); j > 0; j-- {
				kind := pickKind(r, 70, 12)
				if kind == "notopics" {
					kind = "canonical" // a topic-less core-contract log panics in a goroutine nobody recovers: family bytx has it
				}
				x := genRawLog(r, kind, false, id, uint64(rc.Blk))
				id++
				x.Tx, x.BH = s.l.Tx, s.l.BH
				if r.chance(15) {
					x.Addr = hx(evmForeign[:])
				}
				if r.chance(50) {
					rc.Logs = append(rc.Logs, x)
				} else {
					rc.Logs = append([]*rawLogJ{x}, rc.Logs...)
				}
			}
			if r.chance(8) {
				rc.Status = 0
			}
			out = append(out, rawStep{Op: "reobs", Tx: s.l.Tx, Rc: rc})
		}
	}
	out = append(out, rawStep{Op: "head", To: head + 1}, rawStep{Op: "head", To: head + 256 + maxWait}, rawStep{Op: "head", To: head + 257 + maxWait})
	return out
}

func runRawScenario(id int, cfg scenCfg, script []rawStep, times map[string]uint64) runRow {
	row := runRow{K: "run", ID: id, Cfg: cfg, Script: script, Groups: []rawGroup{}, Mon: []string{}, Harness: []string{}}
	sc, err := startScen(cfg)
	if err != nil {
		row.Harness = []string{"scenario start: " + err.Error()}
		return row
	}
	defer sc.stop()
	row.Chain = uint16(sc.w.chainID)
	sc.sim.mu.Lock()
	for h, t := range times {
		sc.sim.rawTimes[ethcommon.BytesToHash(unhx(h))] = t
	}
	sc.sim.mu.Unlock()
	rs := &rawScen{scen: sc, byTx: map[string]int{}}
	for i := range script {
		row.Groups = append(row.Groups, rs.step(i, &script[i]))
		if len(sc.harness) > 0 {
			break
		}
	}
	if len(sc.harness) == 0 {
		for _, l := range rs.pushedOK {
			if n := rs.byTx[l.Tx]; n != 1 {
				sc.monf("fidelity:pushed-log-forwarded-"+map[bool]string{true: "never", false: "more-than-once"}[n == 0],
					"the %s log of tx %s (block %d, level %d; receipt unchanged, head advanced far beyond the depth) was forwarded %d times by the per-head scan with exactly the content %+v",
					l.Kind, l.Tx, l.Num, l.Intent.CL, n, intendedMsg(l, row.Chain, sc.sim.timeOfHash(ethcommon.BytesToHash(unhx(l.BH)))))
			}
		}
	}
	row.Mon = append(row.Mon, sc.mon...)
	row.Harness = append(row.Harness, sc.harness...)
	row.Stats = sc.stats
	return row
}


// ---------------------------------------------------------------- experiment (not a registered monitor): can a log under the CORE contract's
// address end the process?  The child runs the real Run against the simulated node and is served (reobs) a receipt with a topic-less
// core-contract log on a re-observation request, (sub) the same log on the subscription by a node that ignores the topic filter; the
// parent reports how the child ended.
type crashRow struct {
	K      string `json:"k"`
	How    string `json:"how"`
	Exit   int    `json:"exit"`
	Panic  string `json:"panic"`
	Where  string `json:"where"`
	Reason string `json:"reason"`
}

func TestVerifC10LogCrashChild(t *testing.T) {
	how := os.Getenv("VERIF_C10_CRASH_CHILD")
	if how == "" {
		return
	}
	sc, err := startScen(scenCfg{Wait: true, Head0: 1000, PollMs: 1, Name: "crash-" + how})
	if err != nil {
		fmt.Println("CHILD-START-FAILED", err)
		return
	}
	r := &erng{s: 7}
	l := genRawLog(r, "notopics", false, 1, 1000)
	tl := l.ethLog()
	switch how {
	case "reobs":
		sc.sim.mu.Lock()
		sc.sim.rawRcpts[tl.TxHash] = &types.Receipt{Status: 1, BlockHash: tl.BlockHash, BlockNumber: big.NewInt(1000), TxHash: tl.TxHash, Logs: []*types.Log{tl}}
		sc.sim.mu.Unlock()
		sc.obsvC <- &gossipv1.ObservationRequest{ChainId: uint32(sc.w.chainID), TxHash: tl.TxHash.Bytes()}
	case "sub":
		sc.sim.pushUnfiltered(tl)
	}
	time.Sleep(3 * time.Second)
	fmt.Println("CHILD-SURVIVED")
}

func runCrashExperiment(how string) crashRow {
	row := crashRow{K: "crash", How: how}
	cmd := exec.Command(os.Args[0], "-test.run=^TestVerifC10LogCrashChild$", "-test.count=1")
	cmd.Env = append(os.Environ(), "VERIF_C10_CRASH_CHILD="+how, "VERIF_OUT="+os.DevNull)
	out, err := cmd.CombinedOutput()
	if ee, ok := err.(*exec.ExitError); ok {
		row.Exit = ee.ExitCode()
	} else if err != nil {
		row.Reason = err.Error()
		row.Exit = -1
	}
	text := string(out)
	if i := strings.Index(text, "panic: "); i >= 0 {
		line := text[i:]
		if j := strings.Index(line, "\n"); j >= 0 {
			line = line[:j]
		}
		row.Panic = line
		for _, fr := range []string{"by_transaction.go", "bind/base.go", "watcher.go"} {
			if k := strings.Index(text[i:], fr); k >= 0 {
				seg := text[i+k:]
				if j := strings.Index(seg, "\n"); j >= 0 {
					seg = seg[:j]
				}
				row.Where = strings.Fields(seg)[0]
				break
			}
		}
	}
	switch {
	case strings.Contains(text, "CHILD-SURVIVED"):
		row.Reason = "the process survived"
	case strings.Contains(text, "CHILD-START-FAILED"):
		row.Reason = "the child could not start its scenario"
	case row.Panic != "":
		row.Reason = "the process ended with an unrecovered panic"
	}
	return row
}

// ---------------------------------------------------------------- the test
func TestVerifC10Log(t *testing.T) {
	out := newEvmOut(t)
	defer out.close()
	nParse, nByTx, nRun := 2500, 1200, 110
	if evmThorough() {
		nParse, nByTx, nRun = 30000, 12000, 1200
	}
	if v := os.Getenv("VERIF_C10_LOG_RUNS"); v != "" {
		fmt.Sscan(v, &nRun)
	}
	ss, err := startSim(1000)
	if err != nil {
		t.Fatal(err)
	}
	defer ss.stop()
	ctx := context.Background()
	conn, err := NewEthereumConnector(ctx, "sim", ss.url, evmContract, zap.NewNop())
	if err != nil {
		t.Fatal(err)
	}

	var wg sync.WaitGroup
	// ---- run histories first (they take the longest), in parallel with the two direct families
	type job struct {
		id     int
		cfg    scenCfg
		script []rawStep
		times  map[string]uint64
	}
	probe := NewEthWatcher("", evmContract, "", "", 0, nil, nil, nil, true, nil, false)
	ch := make(chan job)
	for w := 0; w < 12; w++ {
		wg.Add(1)
		go func() {
			defer wg.Done()
			for j := range ch {
				if atomic.LoadInt64(&machineryFailures) >= 24 {
					continue
				}
				row := runRawScenario(j.id, j.cfg, j.script, j.times)
				if len(row.Harness) > 0 {
					atomic.AddInt64(&machineryFailures, 1)
				}
				out.emit(row)
			}
		}()
	}
	wg.Add(1)
	go func() {
		defer wg.Done()
		chains := []uint16{4, 2, 5, 65535, 1}
		for i := 0; i < nRun; i++ {
			r := &erng{s: evmSeed()*1000211 + uint64(i)*7333 + 5}
			cfg := scenCfg{Wait: r.chance(65), Head0: uint64(1000 + r.below(200)), PollMs: 1, Name: fmt.Sprintf("raw-%d", i), ChainID: chains[r.below(len(chains))]}
			script := genRunScript(r, &cfg, probe.maxWaitConfirmations, i%9 == 0)
			times := map[string]uint64{}
			for _, st := range script {
				if st.Op == "log" && r.chance(12) {
					times[st.Log.BH] = []uint64{0, 1, 1<<32 + 5, 1<<63 - 1, 1 << 63, 1<<64 - 1}[r.below(6)]
				}
			}
			ch <- job{i, cfg, script, times}
		}
		close(ch)
	}()

	// ---- family parse
	for i := 0; i < nParse; i++ {
		r := &erng{s: evmSeed()*1000033 + uint64(i)*104729 + 3}
		var kind string
		all := append(append(append([]string{}, msgKinds...), nomsgKinds...), freeKinds...)
		if i < 4*len(all) {
			kind = all[i%len(all)]
		} else {
			kind = pickKind(r, 55, 35)
		}
		l := genRawLog(r, kind, i%7 == 0, uint64(i+1), uint64(r.next()>>uint(r.below(64))))
		if r.chance(5) {
			l.Addr = hx(evmForeign[:]) // ParseLogMessagePublished does not look at the address
		}
		res := runParse(conn, l)
		out.emit(parseRow{K: "parse", ID: i, Log: l, Res: res, Mon: parseMonitor(l, &res)})
	}

	// ---- family bytx
	bch := make(chan int)
	for w := 0; w < 6; w++ {
		wg.Add(1)
		go func() {
			defer wg.Done()
			for i := range bch {
				r := &erng{s: evmSeed()*1000037 + uint64(i)*15485863 + 11}
				rc, tx := genReceipt(r, uint64(i+1), i%7 == 0, 70, 14, true)
				row := bytxRow{K: "bytx", ID: i, Chain: []uint16{4, 2, 5, 65535, 0, 1}[r.below(6)], Tx: hx(tx[:]), Rc: rc, Mon: []string{}}
				bh := ethcommon.BytesToHash(unhx(rc.BH))
				row.BT = blockTimeOf(bh)
				if r.chance(25) {
					row.BT = []uint64{0, 1, 1<<32 + 5, 1<<63 - 1, 1 << 63, 1<<64 - 1, r.next()}[r.below(7)]
				}
				switch k := r.below(100); {
				case k < 4:
					row.RcErr = true
				case k < 8:
					row.Rc = nil
				case k < 12:
					row.BTErr = true
				case k < 18:
					rc.Status = []uint64{0, 2, 1 << 40}[r.below(3)]
				case k < 21:
					rc.Blk = -1
				}
				ss.sim.mu.Lock()
				ss.sim.rawTimes[bh] = row.BT
				if row.BTErr {
					ss.sim.rawBbhErr[bh] = true
				}
				if row.RcErr {
					ss.sim.rawRcptErr[tx] = true
				} else if row.Rc != nil {
					ss.sim.rawRcpts[tx] = row.Rc.receipt(tx)
				}
				ss.sim.mu.Unlock()
				row.Res = runByTx(ctx, conn, row.Chain, tx)
				ss.sim.mu.Lock()
				delete(ss.sim.rawTimes, bh)
				delete(ss.sim.rawBbhErr, bh)
				delete(ss.sim.rawRcptErr, tx)
				delete(ss.sim.rawRcpts, tx)
				ss.sim.mu.Unlock()
				if known, outc, blk, msgs := bytxExpect(&row); known {
					if outc != row.Res.Out {
						row.Mon = append(row.Mon, fmt.Sprintf("fidelity:bytx-outcome|MessageEventsForTransaction ended with %s (%s); the receipt calls for %s", row.Res.Out, row.Res.ErrText, outc))
					} else if outc == "ok" && (blk != row.Res.Blk || !reflect.DeepEqual(msgs, row.Res.Msgs)) {
						row.Mon = append(row.Mon, fmt.Sprintf("fidelity:bytx-messages|MessageEventsForTransaction returned block %d and %+v; the receipt's core-contract LogMessagePublished logs say block %d and %+v",
							row.Res.Blk, row.Res.Msgs, blk, msgs))
					}
				}
				out.emit(row)
			}
		}()
	}
	for i := 0; i < nByTx; i++ {
		bch <- i
	}
	close(bch)
	wg.Wait()
	if os.Getenv("VERIF_C10_REPLAY") == "" {
		out.emit(runCrashExperiment("reobs"))
		out.emit(runCrashExperiment("sub"))
	}
}
