//go:build verif

package ethereum

// Extension X4, step-by-step part: the REAL fetchAndUpdateGuardianSet (through the real abigen binding and go-ethereum's rpc
// client) against the simulated governance contract, one call per step, on a Watcher value that lives through the whole
// history (the supervisor re-enters Run on the same value: w.currentGuardianSet is never reset).  Per step the trace carries
// what the node answered (index, index named by the set call, keys), what arrived on setChan, the returned error and
// w.currentGuardianSet before / after - re-evaluated by model/EvmGuardianSet.fetch inside Coq - and the verdicts of monitors that
// compare what was sent with the contract's own state.

import (
	"context"
	"fmt"
	"sync"
	"testing"
	"time"

	"github.com/alephium/wormhole-fork/node/pkg/common"
	"github.com/alephium/wormhole-fork/node/pkg/readiness"
	"github.com/alephium/wormhole-fork/node/pkg/vaa"
	"go.uber.org/zap"
)

type gsStepScript struct {
	Upg     []int `json:"upg,omitempty"`     // sizes of the sets appended to the contract before the fetch (one upgrade per entry)
	Mid     []int `json:"mid,omitempty"`     // sizes of the sets that land between the two calls of the fetch
	FailIdx bool  `json:"failidx,omitempty"` // the index call fails
	FailSet bool  `json:"failset,omitempty"` // the set call fails
	LagSet  bool  `json:"lagset,omitempty"`  // inconsistent node: the set call is answered from a state one upgrade behind
	OldIdx  bool  `json:"oldidx,omitempty"`  // inconsistent node: the index call is answered from a state one upgrade behind
}

type gsSent struct {
	Idx  int64 `json:"idx"`
	Keys []int `json:"keys"`
}

type gsStepRow struct {
	Script gsStepScript `json:"script"`
	CurB   int64        `json:"curb"`  // w.currentGuardianSet before (-1: nil)
	AnsIdx int64        `json:"ai"`    // answer of the index call (-1: error)
	Asked  int64        `json:"asked"` // index named by the set call (-1: no set call was made)
	SetErr bool         `json:"seterr"`
	Keys   []int        `json:"keys"` // answer of the set call
	NCalls int          `json:"ncalls"`
	Sent   []gsSent     `json:"sent"`
	Err    bool         `json:"err"`
	CurA   int64        `json:"cura"`
	Truth  int64        `json:"truth"` // the contract's index after the step
}

type gsHistRow struct {
	K       string      `json:"k"`
	Sid     int         `json:"sid"`
	HasChan bool        `json:"chan"`
	Init    []int       `json:"init"` // sizes of the sets the contract starts with
	Steps   []gsStepRow `json:"steps"`
	Mon     []string    `json:"mon"`
	Harness []string    `json:"harness"`
	Panic   string      `json:"panic,omitempty"`
}

var gsSizes = []int{0, 1, 1, 2, 3, 3, 7, 19}

type gsKeyGen struct{ next int }

func (g *gsKeyGen) set(n int) []int {
	out := make([]int, 0, n)
	for i := 0; i < n; i++ {
		g.next++
		out = append(out, g.next)
	}
	return out
}

func curOf(w *Watcher) int64 {
	if w.currentGuardianSet == nil {
		return -1
	}
	return int64(*w.currentGuardianSet)
}

func sameInts(a, b []int) bool {
	if len(a) != len(b) {
		return false
	}
	for i := range a {
		if a[i] != b[i] {
			return false
		}
	}
	return true
}

func runGSHistory(sid int, hasChan bool, initSizes []int, script []gsStepScript) (row gsHistRow) {
	row = gsHistRow{K: "gs", Sid: sid, HasChan: hasChan, Init: initSizes, Mon: []string{}, Harness: []string{}}
	defer func() {
		if r := recover(); r != nil {
			row.Panic = fmt.Sprintf("%v", r)
		}
	}()
	ss, err := startSim(1000)
	if err != nil {
		row.Harness = append(row.Harness, "sim: "+err.Error())
		return
	}
	defer ss.stop()
	kg := &gsKeyGen{}
	g := &gsSim{}
	for _, n := range initSizes {
		g.sets = append(g.sets, kg.set(n))
	}
	ss.sim.mu.Lock()
	ss.sim.gs = g
	ss.sim.mu.Unlock()
	ctx, cancel := context.WithCancel(context.Background())
	defer cancel()
	logger := zap.NewNop()
	conn, err := NewEthereumConnector(ctx, "sim", ss.url, evmContract, logger)
	if err != nil {
		row.Harness = append(row.Harness, "connector: "+err.Error())
		return
	}
	var setC chan *common.GuardianSet
	if hasChan {
		setC = make(chan *common.GuardianSet, 8)
	}
	poll := uint(1)
	w := NewEthWatcher(ss.url, evmContract, "sim", readiness.Component(fmt.Sprintf("verif-gs-%d", sid)), vaa.ChainIDBSC, nil, setC, nil, true, &poll, false)
	lastSentIdx := int64(-2)
	for si, st := range script {
		ss.sim.mu.Lock()
		for _, n := range st.Upg {
			g.sets = append(g.sets, kg.set(n))
		}
		g.mid = nil
		for _, n := range st.Mid {
			g.mid = append(g.mid, kg.set(n))
		}
		g.failIdx, g.failSet, g.lagSet, g.oldIdx = st.FailIdx, st.FailSet, st.LagSet, st.OldIdx
		idxAtFirstCall := int64(len(g.sets) - 1)
		c0 := len(g.calls)
		ss.sim.mu.Unlock()
		r := gsStepRow{Script: st, CurB: curOf(w), AnsIdx: -1, Asked: -1, Keys: []int{}, Sent: []gsSent{}}
		done := make(chan error, 1)
		go func() {
			defer func() {
				if p := recover(); p != nil {
					done <- fmt.Errorf("PANIC: %v", p)
				}
			}()
			done <- w.fetchAndUpdateGuardianSet(logger, ctx, conn)
		}()
		var ferr error
		select {
		case ferr = <-done:
		case <-time.After(rendezvousTimeout):
			row.Harness = append(row.Harness, fmt.Sprintf("step %d: fetchAndUpdateGuardianSet did not return within %v", si, rendezvousTimeout))
			return
		}
		if ferr != nil && len(ferr.Error()) > 6 && ferr.Error()[:6] == "PANIC:" {
			row.Panic = fmt.Sprintf("step %d: %v", si, ferr)
			return
		}
		r.Err = ferr != nil
		r.CurA = curOf(w)
		if setC != nil {
		drain:
			for {
				select {
				case gs := <-setC:
					s := gsSent{Idx: int64(gs.Index), Keys: []int{}}
					for _, k := range gs.Keys {
						s.Keys = append(s.Keys, gsKeyID(k))
					}
					r.Sent = append(r.Sent, s)
				default:
					break drain
				}
			}
		}
		ss.sim.mu.Lock()
		calls := append([]gsCall(nil), g.calls[c0:]...)
		truth := append([][]int(nil), g.sets...)
		g.failIdx, g.failSet, g.lagSet, g.oldIdx = false, false, false, false
		ss.sim.mu.Unlock()
		r.NCalls = len(calls)
		r.Truth = int64(len(truth) - 1)
		for _, c := range calls {
			if c.Kind == "idx" {
				r.AnsIdx = c.Idx
			} else {
				r.Asked = c.Asked
				r.SetErr = c.Err
				if !c.Err {
					r.Keys = c.Keys
				}
			}
		}
		row.Steps = append(row.Steps, r)
		// ---------------------------------------------------------------- monitors (the contract's own state is the reference)
		mon := func(key, format string, a ...interface{}) {
			row.Mon = append(row.Mon, key+"|"+fmt.Sprintf("history %d step %d: ", sid, si)+fmt.Sprintf(format, a...))
		}
		honest := !st.LagSet && !st.OldIdx
		for _, s := range r.Sent {
			if s.Idx < 0 || s.Idx >= int64(len(truth)) {
				if honest {
					mon("gs:index-not-in-contract", "sent a set under index %d; the contract's current index is %d", s.Idx, len(truth)-1)
				}
			} else if honest && !sameInts(s.Keys, truth[s.Idx]) {
				mon("gs:keys-of-another-set", "sent keys %v under index %d; the contract's set %d is %v (contract index when the fetch started: %d)", s.Keys, s.Idx, s.Idx, truth[s.Idx], idxAtFirstCall)
			}
			if honest && s.Idx != idxAtFirstCall {
				mon("gs:index-not-the-one-read", "sent index %d; the contract's index when the fetch read it was %d", s.Idx, idxAtFirstCall)
			}
			if s.Idx == lastSentIdx {
				mon("gs:same-index-twice-in-a-row", "sent index %d although the previous set sent carried the same index", s.Idx)
			}
			if s.Idx == r.CurB {
				mon("gs:sent-although-index-unchanged", "sent index %d = the index already remembered", s.Idx)
			}
			lastSentIdx = s.Idx
		}
		if len(r.Sent) > 1 {
			mon("gs:several-sets-in-one-fetch", "%d sets sent by one fetch", len(r.Sent))
		}
		failing := st.FailIdx || st.FailSet
		if failing && len(r.Sent) > 0 {
			mon("gs:sent-despite-failed-call", "a set was sent although a call failed: %+v", r.Sent)
		}
		if failing && r.CurA != r.CurB {
			mon("gs:index-remembered-despite-failed-call", "w.currentGuardianSet %d -> %d although a call failed", r.CurB, r.CurA)
		}
		if !failing && honest {
			if r.CurA != idxAtFirstCall {
				mon("gs:index-not-remembered", "after an error-free fetch w.currentGuardianSet = %d, the contract's index was %d", r.CurA, idxAtFirstCall)
			}
			if hasChan && r.CurB != idxAtFirstCall && len(r.Sent) == 0 {
				mon("gs:new-set-not-sent", "the contract's index %d differs from the remembered %d and both calls succeeded, yet nothing was sent", idxAtFirstCall, r.CurB)
			}
		}
		if !hasChan && len(r.Sent) > 0 {
			mon("gs:sent-without-channel", "impossible")
		}
	}
	return
}

func genGSScript(r *erng) ([]int, []gsStepScript) {
	init := []int{gsSizes[r.below(len(gsSizes))]}
	if r.chance(30) {
		init = append(init, gsSizes[r.below(len(gsSizes))])
	}
	n := 6 + r.below(14)
	var out []gsStepScript
	for i := 0; i < n; i++ {
		var st gsStepScript
		if r.chance(35) {
			for j := 0; j < 1+r.below(2); j++ {
				st.Upg = append(st.Upg, gsSizes[r.below(len(gsSizes))])
			}
		}
		switch k := r.below(100); {
		case k < 10:
			st.FailIdx = true
		case k < 20:
			st.FailSet = true
		case k < 35:
			for j := 0; j < 1+r.below(2); j++ {
				st.Mid = append(st.Mid, gsSizes[r.below(len(gsSizes))])
			}
			if r.chance(20) {
				st.FailSet = true
			}
		case k < 41:
			st.LagSet = true
		case k < 47:
			st.OldIdx = true
		}
		out = append(out, st)
	}
	return init, out
}

func gsCorpus() []struct {
	hasChan bool
	init    []int
	script  []gsStepScript
} {
	type S = struct {
		hasChan bool
		init    []int
		script  []gsStepScript
	}
	return []S{
		{true, []int{2}, []gsStepScript{{}, {}, {Upg: []int{3}}, {}, {}}},
		{true, []int{2}, []gsStepScript{{Mid: []int{3}}, {}, {}}},                                        // upgraded between the two calls
		{true, []int{1}, []gsStepScript{{FailIdx: true}, {FailSet: true}, {}, {FailIdx: true}, {}}},      // errors around the first success
		{true, []int{1}, []gsStepScript{{}, {Upg: []int{0}}, {}, {Upg: []int{19}}, {}}},                  // empty key list, 19 keys
		{true, []int{1}, []gsStepScript{{}, {Upg: []int{2}, LagSet: true}, {}, {}}},                      // inconsistent node: empty set under the new index
		{true, []int{1, 2}, []gsStepScript{{}, {OldIdx: true}, {}, {OldIdx: true}, {}}},                  // index regression
		{true, []int{1}, []gsStepScript{{}, {Upg: []int{2, 3}}, {Upg: []int{1}, FailSet: true}, {}, {}}}, // two upgrades between two ticks
		{false, []int{2}, []gsStepScript{{}, {Upg: []int{3}}, {FailIdx: true}, {}}},                      // watcher without a channel
		{true, []int{3}, []gsStepScript{{Mid: []int{1, 2}}, {Mid: []int{7}, FailSet: true}, {}, {Mid: []int{1}}, {}}},
	}
}

func TestVerifC10GS(t *testing.T) {
	out := newEvmOut(t)
	defer out.close()
	type job struct {
		sid     int
		hasChan bool
		init    []int
		script  []gsStepScript
	}
	var jobs []job
	for i, c := range gsCorpus() {
		jobs = append(jobs, job{i, c.hasChan, c.init, c.script})
	}
	n := 150
	if evmThorough() {
		n = 2500
	}
	for i := 0; i < n; i++ {
		r := &erng{s: evmSeed()*1000033 + uint64(i)*7907 + 29}
		init, sc := genGSScript(r)
		jobs = append(jobs, job{100 + i, !r.chance(10), init, sc})
	}
	var wg sync.WaitGroup
	ch := make(chan job)
	for w := 0; w < 8; w++ {
		wg.Add(1)
		go func() {
			defer wg.Done()
			for j := range ch {
				out.emit(runGSHistory(j.sid, j.hasChan, j.init, j.script))
			}
		}()
	}
	for _, j := range jobs {
		ch <- j
	}
	close(ch)
	wg.Wait()
}
