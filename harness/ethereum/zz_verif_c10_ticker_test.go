//go:build verif

package ethereum

// Extension X4, free-running part (thorough tier only): the real Watcher.Run with its REAL 15 s guardian-set ticker against the
// scripted governance contract.  Phases: (1) the contract is upgraded -> the next tick must deliver exactly that set; (2) the
// next tick's index call fails -> errC -> Run returns, the supervisor re-enters it, the initial fetch sends nothing (index
// unchanged); (3) the contract is upgraded BETWEEN the two calls of a tick -> the previous current set is not re-sent, the new one
// follows one tick later.  Every fetch the node served becomes a model operation (gsfetch / restart) of a history row that
// checks/c10.py re-evaluates inside Coq like the other histories; deadlines are one ticker period + 10 s.

import (
	"fmt"
	"sync/atomic"
	"time"
)

type mGsFetch struct {
	T      string `json:"t"` // "gsfetch"
	AnsIdx int64  `json:"ai"`
	Asked  int64  `json:"asked"`
	SetErr bool   `json:"seterr"`
	Keys   []int  `json:"keys"`
}

const tickerDeadline = 25 * time.Second // 15 s period + 10 s

// fetchOps turns the guardian-set calls the node served into model operations: the fetches up to (and including) the one that made
// Run return are the ticker's, the later ones are initial fetches of re-entered Runs
func fetchOps(cs []gsCall, tickerFetches int) []interface{} {
	var out []interface{}
	n := 0
	for i := 0; i < len(cs); i++ {
		if cs[i].Kind != "idx" {
			continue
		}
		ai, asked, seterr, keys := cs[i].Idx, int64(-1), false, []int{}
		if !cs[i].Err && i+1 < len(cs) && cs[i+1].Kind == "set" {
			asked, seterr = cs[i+1].Asked, cs[i+1].Err
			if !cs[i+1].Err {
				keys = cs[i+1].Keys
			}
		}
		if n < tickerFetches {
			out = append(out, mGsFetch{T: "gsfetch", AnsIdx: ai, Asked: asked, SetErr: seterr, Keys: keys})
		} else {
			out = append(out, mRestart{T: "restart", AnsIdx: ai, Asked: asked, SetErr: seterr, Keys: keys})
		}
		n++
	}
	return out
}

func countFetches(cs []gsCall) int {
	n := 0
	for _, c := range cs {
		if c.Kind == "idx" {
			n++
		}
	}
	return n
}

func runTickerScenario(sid int, cfg scenCfg, variant int) histRow {
	row := histRow{K: "hist", Sid: sid, Cfg: cfg, Script: []step{{Op: "ticker"}}, Mon: []string{}, Harness: []string{}, Exp: []string{}, Stats: map[string]int{}}
	sc, err := startScen(cfg)
	if err != nil {
		row.Harness = []string{"scenario start: " + err.Error()}
		return row
	}
	defer sc.stop()
	row.MaxWait, row.Chain, row.Cur0 = sc.maxWait, uint16(sc.w.chainID), sc.cur0
	sim := sc.sim
	calls0 := func() int { sim.mu.Lock(); defer sim.mu.Unlock(); return len(sim.gs.calls) }
	since := func(c0 int) []gsCall {
		sim.mu.Lock()
		defer sim.mu.Unlock()
		return append([]gsCall(nil), sim.gs.calls[c0:]...)
	}
	drain := func() []gsSent {
		out := []gsSent{}
		for {
			select {
			case gs := <-sc.setC:
				x := gsSent{Idx: int64(gs.Index), Keys: []int{}}
				for _, k := range gs.Keys {
					x.Keys = append(x.Keys, gsKeyID(k))
				}
				out = append(out, x)
			default:
				return out
			}
		}
	}
	truth := func() [][]int { sim.mu.Lock(); defer sim.mu.Unlock(); return append([][]int(nil), sim.gs.sets...) }
	lastIdx := sc.cur0
	check := func(phase string, sets []gsSent) {
		tr := truth()
		for _, x := range sets {
			if x.Idx < 0 || x.Idx >= int64(len(tr)) || !sameInts(x.Keys, tr[x.Idx]) {
				sc.monf("gs-run:keys-of-another-set", "%s: keys %v were sent under index %d; the contract's sets are %v", phase, x.Keys, x.Idx, tr)
			}
			if x.Idx == lastIdx {
				sc.monf("gs-run:same-index-twice-in-a-row", "%s: a set with index %d was sent although the previous set sent carried the same index", phase, x.Idx)
			}
			lastIdx = x.Idx
		}
	}
	addGroup := func(ops []interface{}, sets []gsSent, died int) {
		if ops == nil {
			ops = []interface{}{}
		}
		sc.groups = append(sc.groups, group{Step: len(sc.groups), Ops: ops, Fw: []fwdMsg{}, Pend: [][4]uint64{}, Sets: sets, Died: died})
	}

	// ---- phase 1: an upgrade is picked up by the next tick
	c0 := calls0()
	sim.mu.Lock()
	sim.gs.sets = append(sim.gs.sets, sc.keyGen.set([]int{3, 19, 1}[variant%3]))
	want := int64(len(sim.gs.sets) - 1)
	sim.mu.Unlock()
	var got []gsSent
	ok := waitUntil(tickerDeadline, func() bool {
		got = append(got, drain()...)
		return len(got) > 0
	})
	time.Sleep(200 * time.Millisecond)
	got = append(got, drain()...)
	if !ok || got[len(got)-1].Idx != want {
		sc.monf("gs-run:new-set-not-delivered", "phase 1: the contract's index became %d; %v after the upgrade the sets sent are %+v", want, tickerDeadline, got)
	}
	check("phase 1", got)
	cs := since(c0)
	addGroup(fetchOps(cs, countFetches(cs)), got, 0)

	// ---- phase 2: the next tick's index call fails: Run returns and is re-entered; nothing is sent again
	c0 = calls0()
	deaths0, runs0 := atomic.LoadInt64(&sc.deaths), atomic.LoadInt64(&sc.runs)
	atomic.AddInt64(&sc.expectDeaths, 1)
	sim.mu.Lock()
	subs0 := sim.subCount
	if variant%2 == 0 {
		sim.gs.failIdxN = 1
	} else {
		sim.gs.failSetN = 1
	}
	sim.mu.Unlock()
	ok = waitUntil(tickerDeadline, func() bool { return atomic.LoadInt64(&sc.deaths) > deaths0 })
	if !ok {
		// the harness cannot go on either way; whether a failing fetch must end Run is the model's statement (correspondence), not the property's
		sc.harnessf("phase 2: a call of the ticker's guardian-set fetch failed, Run did not return within %v", tickerDeadline)
	} else {
		tickerFetches := countFetches(since(c0))
		ok = waitUntil(3*rendezvousTimeout, func() bool {
			if atomic.LoadInt64(&sc.runs) <= runs0 {
				return false
			}
			sim.mu.Lock()
			defer sim.mu.Unlock()
			n := 0
			for _, c := range sim.gs.calls[c0:] {
				if c.Kind == "set" && !c.Err {
					n++
				}
			}
			return sim.subCount > subs0 && n >= 1
		})
		if !ok {
			sc.harnessf("phase 2: Run was not up again %v after it returned", 3*rendezvousTimeout)
		}
		time.Sleep(300 * time.Millisecond)
		got = drain()
		check("phase 2", got)
		addGroup(fetchOps(since(c0), tickerFetches), got, int(atomic.LoadInt64(&sc.deaths)-deaths0))
	}

	// ---- phase 3: the contract is upgraded between the two calls of the next tick
	if len(sc.harness) == 0 {
		c0 = calls0()
		sim.mu.Lock()
		sim.gs.mid = [][]int{sc.keyGen.set(2)}
		want = int64(len(sim.gs.sets)) // the index after the mid-call upgrade
		sim.mu.Unlock()
		got = nil
		ok = waitUntil(2*tickerDeadline, func() bool {
			got = append(got, drain()...)
			return len(got) > 0 && got[len(got)-1].Idx == want
		})
		time.Sleep(200 * time.Millisecond)
		got = append(got, drain()...)
		if !ok {
			sc.monf("gs-run:new-set-not-delivered", "phase 3: the contract's index became %d between the two calls of a fetch; %v later the sets sent are %+v", want, 2*tickerDeadline, got)
		}
		check("phase 3", got)
		cs = since(c0)
		addGroup(fetchOps(cs, countFetches(cs)), got, 0)
	}
	sc.stats["ticker_fetches"] = countFetches(since(0))
	row.Groups, row.Mon, row.Harness, row.Stats = sc.groups, sc.mon, sc.harness, sc.stats
	if row.Mon == nil {
		row.Mon = []string{}
	}
	if row.Harness == nil {
		row.Harness = []string{}
	}
	_ = fmt.Sprintf
	return row
}
