//go:build verif

package ethereum

// Simulated EVM node for the C10 harness: go-ethereum's own rpc.Server behind an httptest websocket endpoint with an
// `eth` service (getBlockByNumber, getBlockByHash, getTransactionReceipt, call, subscribe(logs)).  Everything the
// unmodified watcher asks and everything it is told is recorded under one mutex.

import (
	"bufio"
	"context"
	"encoding/binary"
	"encoding/json"
	"errors"
	"fmt"
	"math/big"
	"net"
	"net/http/httptest"
	"os"
	"strconv"
	"strings"
	"sync"
	"testing"

	ethabi "github.com/alephium/wormhole-fork/node/pkg/ethereum/abi"
	gethabi "github.com/ethereum/go-ethereum/accounts/abi"
	ethcommon "github.com/ethereum/go-ethereum/common"
	"github.com/ethereum/go-ethereum/common/hexutil"
	"github.com/ethereum/go-ethereum/core/types"
	"github.com/ethereum/go-ethereum/rpc"
)

func TestVerifNothing(t *testing.T) {}

// ---------------------------------------------------------------- small utilities
type erng struct{ s uint64 }

func (r *erng) next() uint64 {
	r.s += 0x9E3779B97F4A7C15
	z := r.s
	z = (z ^ (z >> 30)) * 0xBF58476D1CE4E5B9
	z = (z ^ (z >> 27)) * 0x94D049BB133111EB
	return z ^ (z >> 31)
}
func (r *erng) below(n int) int { return int(r.next() % uint64(n)) }
func (r *erng) chance(pct int) bool {
	return r.below(100) < pct
}

func evmSeed() uint64 {
	s, _ := strconv.ParseUint(os.Getenv("VERIF_SEED"), 10, 64)
	return s
}
func evmThorough() bool { return os.Getenv("VERIF_TIER") == "thorough" }

type evmOut struct {
	mu sync.Mutex
	f  *os.File
	w  *bufio.Writer
	e  *json.Encoder
}

func newEvmOut(t *testing.T) *evmOut {
	f, err := os.Create(os.Getenv("VERIF_OUT"))
	if err != nil {
		t.Fatal(err)
	}
	w := bufio.NewWriterSize(f, 1<<20)
	return &evmOut{f: f, w: w, e: json.NewEncoder(w)}
}
func (o *evmOut) emit(v interface{}) {
	o.mu.Lock()
	o.e.Encode(v)
	o.mu.Unlock()
}
func (o *evmOut) close() { o.w.Flush(); o.f.Close() }

// hashes carry a kind byte and a small id so that traces can be reported with small integers
const (
	kindTx    = 0xA1
	kindBlock = 0xB1
	kindHead  = 0xB2
	kindSync  = 0xA5 // tx hash of the barrier request on the re-observation channel
)

func hID(kind byte, i uint64) ethcommon.Hash {
	var h ethcommon.Hash
	h[0] = kind
	binary.BigEndian.PutUint64(h[24:], i)
	return h
}
func hKind(h ethcommon.Hash) byte { return h[0] }
func hNum(h ethcommon.Hash) int   { return int(binary.BigEndian.Uint64(h[24:])) }

const evmTimeBase = 1600000000

func blockTimeOf(bh ethcommon.Hash) uint64 { return evmTimeBase + uint64(hNum(bh)%1000000)*7 }

var (
	evmABI        gethabi.ABI
	evmContract   = ethcommon.HexToAddress("0x0290FB167208Af455bB137780163b7B7a9a10C16")
	evmForeign    = ethcommon.HexToAddress("0x00000000000000000000000000000000000Bad01")
	evmOtherTopic = ethcommon.HexToHash("0x1111111111111111111111111111111111111111111111111111111111111111")
)

func init() {
	var err error
	evmABI, err = gethabi.JSON(strings.NewReader(ethabi.AbiABI))
	if err != nil {
		panic(err)
	}
}

// ---------------------------------------------------------------- ground-truth chain content
type simLog struct {
	Body        int
	Tx          int
	Em          int
	Seq         uint64
	CL          uint8
	Nonce       uint32
	Target      uint16
	AddrForeign bool // emitted by another contract
	TopicOther  bool // emitted by the core contract under another topic
}

type simRcpt struct {
	Status uint64
	BH     int // block hash id
	Block  uint64
	Logs   []*simLog
	// Pooled: a reorg put the transaction back into the pool and the node answers eth_getTransactionReceipt with a pending-style
	// receipt (status 1, blockHash null, blockNumber null, no logs), as OpenEthereum and some gateways do; BH and Block are 0
	Pooled bool
}

func (l *simLog) payload() []byte {
	p := make([]byte, 12)
	copy(p, []byte("VERIFC10"))
	binary.BigEndian.PutUint32(p[8:], uint32(l.Body))
	return p
}
func bodyOfPayload(p []byte) int {
	if len(p) != 12 || string(p[:8]) != "VERIFC10" {
		return -1
	}
	return int(binary.BigEndian.Uint32(p[8:]))
}
func emAddr(em int) ethcommon.Address {
	return ethcommon.BytesToAddress([]byte{0xEE, byte(em >> 8), byte(em)})
}

func (l *simLog) ethLog(bh int, block uint64, idx uint) *types.Log {
	ev := evmABI.Events["LogMessagePublished"]
	data, err := ev.Inputs.NonIndexed().Pack(l.Target, l.Seq, l.Nonce, l.payload(), l.CL)
	if err != nil {
		panic(err)
	}
	addr := evmContract
	if l.AddrForeign {
		addr = evmForeign
	}
	t0 := ev.ID
	if l.TopicOther {
		t0 = evmOtherTopic
	}
	return &types.Log{
		Address:     addr,
		Topics:      []ethcommon.Hash{t0, ethcommon.BytesToHash(emAddr(l.Em).Bytes())},
		Data:        data,
		BlockNumber: block,
		TxHash:      hID(kindTx, uint64(l.Tx)),
		TxIndex:     0,
		BlockHash:   hID(kindBlock, uint64(bh)),
		Index:       idx,
	}
}

// ---------------------------------------------------------------- recorded observations
type lookupRec struct {
	Tx     int    `json:"tx"`
	Kind   byte   `json:"-"`
	Code   int    `json:"c"` // 0 not found, 1 transient error, 2 receipt
	Status uint64 `json:"st"`
	BH     int    `json:"bh"`
	Blk    uint64 `json:"blk"`
	Head   uint64 `json:"hd"` // the node's head when the receipt was served
	// NoBlock: the receipt was served with blockHash null and blockNumber null (go-ethereum decodes that as the zero hash / a nil number)
	NoBlock bool `json:"nb,omitempty"`
}

type scanRec struct {
	N     uint64
	From  int // index into lookups
	To    int
	Open  bool
	Notes []string
	// Abandoned: the scan never logged "processed new header" and the harness gave up waiting for it (hand-over scenarios: the
	// goroutine that ran it ended, or hangs, in the middle of the scan)
	Abandoned bool
}

type evmSim struct {
	mu            sync.Mutex
	head          uint64
	headHash      ethcommon.Hash
	rcpts         map[int]*simRcpt // by tx id; absent = not found
	rcptErr       map[int]bool
	rcptErrA      bool
	bbhErr        map[int]bool
	bbhHold       map[int]chan struct{} // block-time lookups the node answers only when the script says so
	pollFail      int
	pollFailAll   bool
	finalizedMode bool // the watcher is configured for a chain read at finalized height
	bumpOnRcpt    map[int]uint64

	notifier *rpc.Notifier
	subID    rpc.ID
	critAddr []ethcommon.Address
	critT0   []ethcommon.Hash
	subReady chan struct{}
	subOnce  sync.Once

	lookups       []lookupRec
	scans         []scanRec
	lastProcessed uint64
	zapScanSeen   bool
	pollsArrived  uint64
	pollsFailed   uint64
	bbhCalls      map[ethcommon.Hash]int
	numStrs       map[string]int
	notes         map[string]int
	txNotes       map[string]int // watcher log lines that name a transaction, by tx hash (hex)
	calls         int
	gs            *gsSim // nil: index 0 with one fixed key
	subCount      int    // log subscriptions made so far (one per Run)
	pooledServed  int    // receipts served without block hash / number

	// extension X8: receipts / block times / faults for transactions and blocks whose content is given byte by byte (raw logs)
	rawRcpts   map[ethcommon.Hash]*types.Receipt
	rawTimes   map[ethcommon.Hash]uint64
	rawRcptErr map[ethcommon.Hash]bool
	rawBbhErr  map[ethcommon.Hash]bool
}

func newEvmSim(head uint64) *evmSim {
	return &evmSim{head: head, headHash: hID(kindHead, head), rcpts: map[int]*simRcpt{}, rcptErr: map[int]bool{}, bbhErr: map[int]bool{}, bbhHold: map[int]chan struct{}{},
		bumpOnRcpt: map[int]uint64{}, subReady: make(chan struct{}), bbhCalls: map[ethcommon.Hash]int{}, numStrs: map[string]int{}, notes: map[string]int{}, txNotes: map[string]int{},
		rawRcpts: map[ethcommon.Hash]*types.Receipt{}, rawTimes: map[ethcommon.Hash]uint64{}, rawRcptErr: map[ethcommon.Hash]bool{}, rawBbhErr: map[ethcommon.Hash]bool{}}
}

var errInjected = errors.New("verif: injected RPC failure")

func (s *evmSim) GetBlockByNumber(ctx context.Context, num string, full bool) (map[string]interface{}, error) {
	s.mu.Lock()
	defer s.mu.Unlock()
	s.pollsArrived++
	s.numStrs[num]++
	if s.pollFailAll {
		s.pollsFailed++
		return nil, errInjected
	}
	if s.pollFail > 0 {
		s.pollFail--
		s.pollsFailed++
		return nil, errInjected
	}
	if s.finalizedMode && num == "latest" {
		// a chain that is read at finalized height: the tip is far ahead of what is final; s.head is the FINALIZED head
		tip := s.head + 64
		return map[string]interface{}{"number": hexutil.EncodeUint64(tip), "hash": hID(kindHead, tip)}, nil
	}
	return map[string]interface{}{"number": hexutil.EncodeUint64(s.head), "hash": s.headHash}, nil
}

// BlockNumber (eth_blockNumber) is the height of the chain's tip: on a chain that is read at finalized height it is far ahead of
// what is final.  The pinned watcher never asks for it; a watcher that does reads an unfinalized head.
func (s *evmSim) BlockNumber(ctx context.Context) (hexutil.Uint64, error) {
	s.mu.Lock()
	defer s.mu.Unlock()
	s.numStrs["eth_blockNumber"]++
	if s.pollFailAll {
		return 0, errInjected
	}
	if s.finalizedMode {
		return hexutil.Uint64(s.head + 64), nil
	}
	return hexutil.Uint64(s.head), nil
}

func (s *evmSim) GetBlockByHash(ctx context.Context, h ethcommon.Hash, full bool) (*types.Header, error) {
	s.mu.Lock()
	s.bbhCalls[h]++
	var hold chan struct{}
	if hKind(h) == kindBlock {
		hold = s.bbhHold[hNum(h)]
	}
	s.mu.Unlock()
	if h == (ethcommon.Hash{}) {
		return nil, nil // no block has the zero hash: JSON null, the client turns it into ethereum.NotFound
	}
	if hold != nil {
		// the node is slow to answer this block-time lookup: the script decides when (the watcher's other goroutines go on meanwhile)
		select {
		case <-hold:
		case <-ctx.Done():
			return nil, ctx.Err()
		}
	}
	s.mu.Lock()
	defer s.mu.Unlock()
	if hKind(h) == kindBlock && s.bbhErr[hNum(h)] {
		return nil, errInjected
	}
	if s.rawBbhErr[h] {
		return nil, errInjected
	}
	if t, ok := s.rawTimes[h]; ok {
		return &types.Header{Number: big.NewInt(1), Time: t, Difficulty: big.NewInt(0)}, nil
	}
	return &types.Header{Number: big.NewInt(1), Time: blockTimeOf(h), Difficulty: big.NewInt(0)}, nil
}

func (s *evmSim) GetTransactionReceipt(ctx context.Context, h ethcommon.Hash) (interface{}, error) {
	s.mu.Lock()
	defer s.mu.Unlock()
	tx := hNum(h)
	rec := lookupRec{Tx: tx, Kind: hKind(h), Head: s.head}
	if s.rawRcptErr[h] {
		rec.Code = 1
		s.lookups = append(s.lookups, rec)
		return nil, errInjected
	}
	if rr, ok := s.rawRcpts[h]; ok {
		// a receipt whose logs are given byte by byte (extension X8); BH = id of the block hash (hID layout)
		rec.Code, rec.Status, rec.BH = 2, rr.Status, hNum(rr.BlockHash)
		if rr.BlockNumber != nil {
			rec.Blk = rr.BlockNumber.Uint64()
		}
		s.lookups = append(s.lookups, rec)
		cp := *rr
		return &cp, nil
	}
	if hKind(h) != kindTx {
		s.lookups = append(s.lookups, rec)
		return nil, nil
	}
	if s.rcptErrA || s.rcptErr[tx] {
		rec.Code = 1
		s.lookups = append(s.lookups, rec)
		return nil, errInjected
	}
	r := s.rcpts[tx]
	if r == nil {
		s.lookups = append(s.lookups, rec)
		return nil, nil // JSON null: the client turns it into ethereum.NotFound
	}
	if r.Pooled {
		// the transaction is back in the pool: a receipt that names no block.  blockHash / blockNumber are optional in go-ethereum's
		// Receipt decoding (required: cumulativeGasUsed, logsBloom, logs, transactionHash, gasUsed); null becomes the zero hash / nil
		rec.Code, rec.Status, rec.NoBlock = 2, r.Status, true
		s.lookups = append(s.lookups, rec)
		s.pooledServed++
		raw, err := json.Marshal(&types.Receipt{Status: r.Status, TxHash: h, Logs: []*types.Log{}})
		if err != nil {
			return nil, err
		}
		var m map[string]interface{}
		if err := json.Unmarshal(raw, &m); err != nil {
			return nil, err
		}
		m["blockHash"], m["blockNumber"] = nil, nil
		if k := s.bumpOnRcpt[tx]; k > 0 {
			delete(s.bumpOnRcpt, tx)
			s.head += k
			s.headHash = hID(kindHead, s.head)
		}
		return m, nil
	}
	rec.Code, rec.Status, rec.BH, rec.Blk = 2, r.Status, r.BH, r.Block
	s.lookups = append(s.lookups, rec)
	out := &types.Receipt{Status: r.Status, BlockHash: hID(kindBlock, uint64(r.BH)), BlockNumber: new(big.Int).SetUint64(r.Block),
		TxHash: h, Logs: []*types.Log{}}
	for i, l := range r.Logs {
		out.Logs = append(out.Logs, l.ethLog(r.BH, r.Block, uint(i)))
	}
	if k := s.bumpOnRcpt[tx]; k > 0 {
		// the chain advances right after this receipt was produced
		delete(s.bumpOnRcpt, tx)
		s.head += k
		s.headHash = hID(kindHead, s.head)
	}
	return out, nil
}

type simCallArgs struct {
	To    *ethcommon.Address `json:"to"`
	Data  *hexutil.Bytes     `json:"data"`
	Input *hexutil.Bytes     `json:"input"`
}

// ---------------------------------------------------------------- the governance contract (guardian-set getters), scripted
// gsSim is the chain's truth about the guardian sets plus the faults of the next fetch.  Like the real contract it answers
// getGuardianSet(i) for an index that does not exist (yet) with an empty key list (a Solidity mapping has no missing entries).
type gsCall struct {
	Kind  string `json:"kind"`  // "idx" | "set"
	Asked int64  `json:"asked"` // index named by a set call (-1 for the index call)
	Idx   int64  `json:"idx"`   // answer of the index call (-1: error)
	Keys  []int  `json:"keys"`  // answer of the set call (key ids)
	Err   bool   `json:"err"`
}

type gsSim struct {
	sets     [][]int // guardianSets[i] as key ids; current index = len-1
	failIdx  bool    // the index call fails
	failSet  bool    // the set call fails
	mid      [][]int // upgrades that land right after the index call was answered (between the two calls of one fetch)
	lagSet   bool    // the set call is answered by a backend that does not know the newest set yet
	oldIdx   bool    // the index call is answered by a backend that does not know the newest set yet
	failIdxN int     // the next N index calls fail (run-level scenarios: the initial fetch of a re-entered Run)
	failSetN int     // the next N set calls fail
	calls    []gsCall
}

func gsKeyAddr(id int) ethcommon.Address {
	return ethcommon.BytesToAddress([]byte{0x6b, byte(id >> 16), byte(id >> 8), byte(id)})
}
func gsKeyID(a ethcommon.Address) int {
	return int(a[17])<<16 | int(a[18])<<8 | int(a[19])
}
func gsAddrs(ids []int) []ethcommon.Address {
	out := make([]ethcommon.Address, 0, len(ids))
	for _, id := range ids {
		out = append(out, gsKeyAddr(id))
	}
	return out
}

func (s *evmSim) Call(ctx context.Context, args simCallArgs, blk json.RawMessage) (hexutil.Bytes, error) {
	s.mu.Lock()
	defer s.mu.Unlock()
	s.calls++
	var data []byte
	if args.Data != nil {
		data = *args.Data
	} else if args.Input != nil {
		data = *args.Input
	}
	if len(data) < 4 {
		return nil, fmt.Errorf("verif sim: short call data")
	}
	if args.To == nil || *args.To != evmContract {
		return nil, fmt.Errorf("verif sim: eth_call to another contract")
	}
	m, err := evmABI.MethodById(data[:4])
	if err != nil {
		return nil, err
	}
	g := s.gs
	switch m.Name {
	case "getCurrentGuardianSetIndex":
		if g == nil {
			return m.Outputs.Pack(uint32(0))
		}
		if g.failIdxN > 0 {
			g.failIdxN--
			g.calls = append(g.calls, gsCall{Kind: "idx", Asked: -1, Idx: -1, Err: true})
			return nil, errInjected
		}
		if g.failIdx {
			g.calls = append(g.calls, gsCall{Kind: "idx", Asked: -1, Idx: -1, Err: true})
			return nil, errInjected
		}
		idx := len(g.sets) - 1
		if g.oldIdx && idx > 0 {
			idx--
		}
		g.calls = append(g.calls, gsCall{Kind: "idx", Asked: -1, Idx: int64(idx)})
		// the contract is upgraded between the two calls of this fetch
		g.sets = append(g.sets, g.mid...)
		g.mid = nil
		return m.Outputs.Pack(uint32(idx))
	case "getGuardianSet":
		if g == nil {
			return m.Outputs.Pack(ethabi.StructsGuardianSet{Keys: []ethcommon.Address{ethcommon.HexToAddress("0xbeFA429d57cD18b7F8A4d91A2da9AB4AF05d0FBe")}, ExpirationTime: 0})
		}
		in, err := m.Inputs.Unpack(data[4:])
		if err != nil || len(in) != 1 {
			return nil, fmt.Errorf("verif sim: bad getGuardianSet arguments")
		}
		asked := int64(in[0].(uint32))
		if g.failSetN > 0 {
			g.failSetN--
			g.calls = append(g.calls, gsCall{Kind: "set", Asked: asked, Idx: -1, Err: true})
			return nil, errInjected
		}
		if g.failSet {
			g.calls = append(g.calls, gsCall{Kind: "set", Asked: asked, Idx: -1, Err: true})
			return nil, errInjected
		}
		known := len(g.sets)
		if g.lagSet && known > 1 {
			known--
		}
		keys := []int{}
		if asked < int64(known) {
			keys = g.sets[asked]
		}
		g.calls = append(g.calls, gsCall{Kind: "set", Asked: asked, Idx: -1, Keys: append([]int{}, keys...)})
		return m.Outputs.Pack(ethabi.StructsGuardianSet{Keys: gsAddrs(keys), ExpirationTime: 0})
	}
	return nil, fmt.Errorf("verif sim: unexpected call %s", m.Name)
}

func parseHashOrList(raw json.RawMessage) []ethcommon.Hash {
	var one ethcommon.Hash
	if json.Unmarshal(raw, &one) == nil && string(raw) != "null" {
		return []ethcommon.Hash{one}
	}
	var many []ethcommon.Hash
	json.Unmarshal(raw, &many)
	return many
}

func (s *evmSim) Logs(ctx context.Context, crit json.RawMessage) (*rpc.Subscription, error) {
	notifier, ok := rpc.NotifierFromContext(ctx)
	if !ok {
		return nil, rpc.ErrNotificationsUnsupported
	}
	sub := notifier.CreateSubscription()
	var c struct {
		Address json.RawMessage   `json:"address"`
		Topics  []json.RawMessage `json:"topics"`
	}
	json.Unmarshal(crit, &c)
	s.mu.Lock()
	s.notifier = notifier
	s.subID = sub.ID
	s.subCount++
	s.critAddr = nil
	s.critT0 = nil
	if len(c.Address) > 0 && string(c.Address) != "null" {
		var one ethcommon.Address
		if json.Unmarshal(c.Address, &one) == nil {
			s.critAddr = []ethcommon.Address{one}
		} else {
			json.Unmarshal(c.Address, &s.critAddr)
		}
	}
	if len(c.Topics) > 0 && string(c.Topics[0]) != "null" {
		s.critT0 = parseHashOrList(c.Topics[0])
	}
	s.mu.Unlock()
	s.subOnce.Do(func() { close(s.subReady) })
	return sub, nil
}

// pushUnfiltered delivers a log to the subscriber whatever the subscription asked for (a node that does not apply the filter)
func (s *evmSim) pushUnfiltered(l *types.Log) bool {
	s.mu.Lock()
	n, id := s.notifier, s.subID
	s.mu.Unlock()
	if n == nil {
		return false
	}
	n.Notify(id, l)
	return true
}

// push delivers a log to the subscriber if the subscription's own filter admits it (as a node would); returns whether it was sent
func (s *evmSim) push(l *types.Log) bool {
	s.mu.Lock()
	n, id := s.notifier, s.subID
	okA := len(s.critAddr) == 0
	for _, a := range s.critAddr {
		if a == l.Address {
			okA = true
		}
	}
	okT := len(s.critT0) == 0
	for _, t := range s.critT0 {
		if len(l.Topics) > 0 && t == l.Topics[0] {
			okT = true
		}
	}
	s.mu.Unlock()
	if n == nil || !okA || !okT {
		return false
	}
	n.Notify(id, l)
	return true
}

type simServer struct {
	sim *evmSim
	srv *rpc.Server
	hs  *httptest.Server
	url string
	ln  *trackingListener
}

// trackingListener remembers the accepted connections: websocket connections are hijacked, httptest's CloseClientConnections
// does not reach them, and the hand-over scenarios drop the watcher's connection while the node itself stays up
type trackingListener struct {
	net.Listener
	mu    sync.Mutex
	conns []net.Conn
}

func (l *trackingListener) Accept() (net.Conn, error) {
	c, err := l.Listener.Accept()
	if err == nil {
		l.mu.Lock()
		l.conns = append(l.conns, c)
		l.mu.Unlock()
	}
	return c, err
}

// dropConnections closes every connection the node has accepted so far (the watcher's subscriptions and calls fail; a new
// dial succeeds)
func (s *simServer) dropConnections() int {
	s.ln.mu.Lock()
	conns := s.ln.conns
	s.ln.conns = nil
	s.ln.mu.Unlock()
	for _, c := range conns {
		c.Close()
	}
	return len(conns)
}

func startSim(head uint64) (*simServer, error) {
	sim := newEvmSim(head)
	srv := rpc.NewServer()
	if err := srv.RegisterName("eth", sim); err != nil {
		return nil, err
	}
	hs := httptest.NewUnstartedServer(srv.WebsocketHandler([]string{"*"}))
	ln := &trackingListener{Listener: hs.Listener}
	hs.Listener = ln
	hs.Start()
	return &simServer{sim: sim, srv: srv, hs: hs, url: "ws" + strings.TrimPrefix(hs.URL, "http"), ln: ln}, nil
}

func (s *simServer) stop() {
	s.srv.Stop()
	s.hs.CloseClientConnections()
	s.hs.Close()
}
