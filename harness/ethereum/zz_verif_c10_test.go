//go:build verif

package ethereum

// C10 harness: the REAL Watcher.Run against the simulated node, driven by scripted chain histories.
// Per history it emits (a) the operations as the watcher observed them (for the Coq model), (b) what came out of msgChan and
// what w.pending contained after every step, (c) the verdicts of Go-side monitors that evaluate the property statement
// on the node's ground truth, independently of the model.

import (
	"context"
	"encoding/json"
	"fmt"
	"net/http/httptest"
	"os"
	"reflect"
	"sort"
	"strings"
	"sync"
	"sync/atomic"
	"testing"
	"time"

	"github.com/alephium/wormhole-fork/node/pkg/common"
	ethcommon "github.com/ethereum/go-ethereum/common"
	gossipv1 "github.com/alephium/wormhole-fork/node/pkg/proto/gossip/v1"
	"github.com/alephium/wormhole-fork/node/pkg/readiness"
	"github.com/alephium/wormhole-fork/node/pkg/supervisor"
	"github.com/alephium/wormhole-fork/node/pkg/vaa"
	"go.uber.org/zap"
	"go.uber.org/zap/zapcore"
)

// ---------------------------------------------------------------- script
type extraLog struct {
	Kind string `json:"kind"` // "foreignaddr" | "othertopic" | "legit"
	Body int    `json:"body"`
	Em   int    `json:"em"`
	Seq  uint64 `json:"seq"`
	CL   uint8  `json:"cl"`
}

type step struct {
	Op string `json:"op"` // log | head | stall | reorg | reobs | foreign
	// log / foreign
	Tx    int    `json:"tx,omitempty"`
	Body  int    `json:"body,omitempty"`
	Em    int    `json:"em,omitempty"`
	Seq   uint64 `json:"seq,omitempty"`
	CL    uint8  `json:"cl,omitempty"`
	Block uint64 `json:"block,omitempty"`
	BH    int    `json:"bh,omitempty"`
	Rm    bool   `json:"rm,omitempty"` // log: delivered with removed=true (the node's notice that the log's block left the chain)
	// head
	To       uint64 `json:"to,omitempty"`
	Hold     bool   `json:"hold,omitempty"` // log: the node answers the block-time lookup only after head To has been processed
	PollFail int    `json:"pollfail,omitempty"`
	ErrTx    []int  `json:"errtx,omitempty"`
	ErrAll   bool   `json:"errall,omitempty"`
	// reorg
	How string `json:"how,omitempty"` // gone | moved | failed | ok | pooled (back in the pool: the node serves a receipt without block hash / number)
	// reobs
	HeadErr bool       `json:"headerr,omitempty"`
	RcptErr bool       `json:"rcpterr,omitempty"`
	BbhErr  bool       `json:"bbherr,omitempty"`
	Bump    uint64     `json:"bump,omitempty"`
	Extras  []extraLog `json:"extras,omitempty"`
	// restart (extension X4): Run is made to return and the supervisor re-enters it on the same Watcher value
	Kill   string `json:"kill,omitempty"`   // blocktime: a log (Tx, Body, ..) whose block-time lookup fails | pollfail: three failing polls
	GsFail string `json:"gsfail,omitempty"` // idx | set: that call of the re-entered Run's initial guardian-set fetch fails once (Run returns again)
	Upg    []int  `json:"upg,omitempty"`    // sizes of the guardian sets appended to the contract before Run is made to return
	// hand-over under back-pressure (cfg.SlowReader): ops pause-reader | resume-reader | read.  The message channel is unbuffered as in
	// node.go (lockC) and the harness's reader plays the processor: it takes messages only while it is switched on ("resume-reader"),
	// or exactly N of them ("read").  Kill "dropconn" (the node drops the watcher's connections) is the way to end Run while the
	// hand-over is parked; DelayMs is how long the reader stays away after Run has been re-entered (restart) / how long a stall lasts.
	N       int `json:"n,omitempty"`
	DelayMs int `json:"delayms,omitempty"`
}

type scenCfg struct {
	Wait      bool   `json:"wait"`
	Finalized bool   `json:"finalized"` // chain = Ethereum without dev mode: the poller asks for "finalized"
	Head0     uint64 `json:"head0"`
	PollMs    uint   `json:"pollms"`
	Sentinel  bool   `json:"sentinel"` // a never-ready message keeps the poller switched on for the whole history
	Name      string `json:"name"`
	Restarts  bool   `json:"restarts,omitempty"` // the generated script makes Run return and be re-entered (extension X4)
	ChainID   uint16 `json:"chainid,omitempty"`  // extension X8: the watcher's chain id (dev mode; 0 = BSC / Ethereum as above)
	// SlowReader: the message channel is UNBUFFERED (as lockC in node/cmd/guardiand/node.go, read by the processor's single goroutine) and
	// the harness's reader takes messages only when the script says so: the watcher's hand-over `w.msgChan <- message` can be parked
	SlowReader bool `json:"slowreader,omitempty"`
}

const sentinelTx = 900001
const sentinelHeight = uint64(1) << 62

// ---------------------------------------------------------------- what is reported per history
type mLog struct {
	T    string `json:"t"`
	Tx   int    `json:"tx"`
	BH   int    `json:"bh"`
	Em   int    `json:"em"`
	Seq  uint64 `json:"seq"`
	CL   int    `json:"cl"`
	Body int    `json:"body"`
	H    uint64 `json:"h"`
	BT   uint64 `json:"bt"`
	No   uint32 `json:"no"`
	Tg   uint16 `json:"tg"`
}
type mHead struct {
	T  string      `json:"t"`
	N  uint64      `json:"n"`
	Lk []lookupRec `json:"lk"`
}
type mRLog struct {
	A  int    `json:"a"`  // 1 = core contract, 2 = other
	T0 string `json:"t0"` // topic 0, hex
	Ev *mLog  `json:"ev"` // nil = does not parse as LogMessagePublished
}
type mRcpt struct {
	St    uint64  `json:"st"`
	Blk   uint64  `json:"blk"`
	BH    int     `json:"bh"`
	Logs  []mRLog `json:"logs"`
	NoBlk bool    `json:"noblk,omitempty"` // blockNumber null (receipt.BlockNumber == nil)
}
type mReobs struct {
	T  string `json:"t"`
	Tx int    `json:"tx"`
	HB int64  `json:"hb"` // head served before the receipt (-1: error)
	HA int64  `json:"ha"` // head after the receipt was served
	Rc *mRcpt `json:"rc"`
	BT int64  `json:"bt"` // -1: block time lookup fails
}
type mLogLost struct {
	T  string `json:"t"` // "loglost"
	Ev mLog   `json:"ev"`
}
type mPollDead struct {
	T string `json:"t"` // "polldead"
}
type mRestart struct {
	T      string `json:"t"` // "restart"
	AnsIdx int64  `json:"ai"`
	Asked  int64  `json:"asked"`
	SetErr bool   `json:"seterr"`
	Keys   []int  `json:"keys"`
}
type fwdMsg struct {
	Body int    `json:"body"`
	Tx   int    `json:"tx"`
	CL   int    `json:"cl"`
	TS   uint64 `json:"ts"`
	Em   int    `json:"em"`
	Seq  uint64 `json:"seq"`
	No   uint32 `json:"no"`
	Tg   uint16 `json:"tg"`
	Ch   uint16 `json:"ch"`
}
type group struct {
	Step int           `json:"step"`
	Ops  []interface{} `json:"ops"`
	Fw   []fwdMsg      `json:"fw"`
	Pend [][4]uint64   `json:"pend"`
	Sets []gsSent      `json:"sets"` // what arrived on setChan during the step
	Died int           `json:"died"` // how often Run returned during the step
}
type histRow struct {
	K       string         `json:"k"`
	Sid     int            `json:"sid"`
	Cfg     scenCfg        `json:"cfg"`
	MaxWait uint64         `json:"maxwait"`
	Chain   uint16         `json:"chain"`
	Script  []step         `json:"script"`
	Groups  []group        `json:"groups"`
	Mon     []string       `json:"mon"`
	Harness []string       `json:"harness"` // machinery problems (rendezvous timeouts, watcher died)
	Stats   map[string]int `json:"stats"`
	Cur0    int64          `json:"cur0"` // index of the guardian set the first Run fetched
	Exp     []string       `json:"exp"`  // experimental monitors (extension X4): reported as coverage, not as problems
}

// ---------------------------------------------------------------- zap observer (the watcher's own log is the trace of its head processing)
type obsCore struct {
	sim *evmSim
}

func (c *obsCore) Enabled(zapcore.Level) bool        { return true }
func (c *obsCore) With([]zapcore.Field) zapcore.Core { return c }
func (c *obsCore) Check(e zapcore.Entry, ce *zapcore.CheckedEntry) *zapcore.CheckedEntry {
	return ce.AddCore(e, c)
}
func (c *obsCore) Sync() error { return nil }
func fieldStr(fs []zapcore.Field, key string) (string, bool) {
	for _, f := range fs {
		if f.Key == key {
			if s, ok := f.Interface.(fmt.Stringer); ok && s != nil {
				return s.String(), true
			}
			if f.Type == zapcore.StringType {
				return f.String, true
			}
		}
	}
	return "", false
}

var scanNotes = map[string]string{
	"observation timed out":                                "timeout",
	"tx was orphaned":                                      "not_found",
	"transaction receipt with non-success status":          "tx_failed",
	"transaction could not be fetched":                     "retry",
	"observation confirmed":                                "confirmed",
	"re-observed message publication transaction":          "reobs_fwd",
	"ignoring re-observed message publication transaction": "reobs_ignored",
	"failed to process observation request":                "reobs_failed",
	"failed to get block number":                           "reobs_head_failed",
}

func (c *obsCore) Write(e zapcore.Entry, fs []zapcore.Field) error {
	s := c.sim
	switch {
	case e.Message == "processing new header":
		if v, ok := fieldStr(fs, "current_block"); ok {
			var n uint64
			fmt.Sscan(v, &n)
			s.mu.Lock()
			s.scans = append(s.scans, scanRec{N: n, From: len(s.lookups), Open: true})
			s.mu.Unlock()
		}
	case e.Message == "processed new header":
		if v, ok := fieldStr(fs, "current_block"); ok {
			var n uint64
			fmt.Sscan(v, &n)
			s.mu.Lock()
			for i := len(s.scans) - 1; i >= 0; i-- {
				if s.scans[i].Open && s.scans[i].N == n {
					s.scans[i].Open = false
					s.scans[i].To = len(s.lookups)
					break
				}
			}
			if n > s.lastProcessed {
				s.lastProcessed = n
			}
			s.zapScanSeen = true
			s.mu.Unlock()
		}
	default:
		key := e.Message
		if strings.HasPrefix(key, "tx got dropped and mined in a different block") {
			key = "blockhash_mismatch"
		} else if k, ok := scanNotes[key]; ok {
			key = k
		} else {
			return nil
		}
		s.mu.Lock()
		s.notes[key]++
		if txh, ok := fieldStr(fs, "tx"); ok {
			s.txNotes[txh]++
		}
		for i := len(s.scans) - 1; i >= 0; i-- {
			if s.scans[i].Open {
				s.scans[i].Notes = append(s.scans[i].Notes, key)
				break
			}
		}
		s.mu.Unlock()
	}
	return nil
}

// ---------------------------------------------------------------- ground truth kept by the harness (from the script only)
type gtInst struct {
	log      *simLog
	bh       int
	block    uint64
	awaiting bool
}

type scen struct {
	cfg     scenCfg
	ss      *simServer
	sim     *evmSim
	w       *Watcher
	msgC    chan *common.MessagePublication
	obsvC   chan *gossipv1.ObservationRequest
	cancel  context.CancelFunc
	died    atomic.Value
	maxWait uint64

	logs    map[int]*simLog // by body id
	insts   map[[4]uint64]*gtInst
	mon     []string
	harness []string
	groups  []group
	stats   map[string]int
	syncSeq uint64

	setC         chan *common.GuardianSet
	runs         int64 // how often Run was entered
	deaths       int64 // how often Run returned while the context was alive
	expectDeaths int64 // deaths the script asked for and has not seen yet
	lastDeath    atomic.Value
	pollerOff    bool // Run was re-entered and no log has been inserted since: the new poller is switched off
	cur0         int64
	exp          []string
	maxScan      uint64    // highest head of a completed scan
	lastSentIdx  int64     // index of the last set that arrived on setChan
	lost         []*gtInst // logs whose block-time lookup was made to fail
	keyGen       gsKeyGen

	// hand-over under back-pressure (cfg.SlowReader)
	outC     chan *common.MessagePublication // what the harness's reader has taken from msgC (== msgC in the other scenarios)
	rd       slowRd
	parked   bool       // the watcher has decided to forward a message and waits in the send: its scan is open and it holds pendingMu
	pk       *parkState // what the step that parked saw before it acted (the steps up to the end of the hand-over are judged as one)
	pausedAt int
	handBase int // hand-overs the harness has written off (decided by the watcher, never taken by anybody)
	noLock   bool
}

type slowRd struct {
	mu     sync.Mutex
	on     bool // free-running
	budget int  // messages it may still take while switched off ("read")
	taken  int
	stop   chan struct{}

	stopOnce sync.Once
}

type restartWait struct {
	step           int
	kill           string
	subs0, calls0  int
	runs0, deaths0 int64
	pollsAtDeath   uint64
	lockFreeAfter  bool // w.pendingMu could be taken after Run had returned although nobody had taken the message (diagnostic only)
	reentered      bool
	awayMs         int
}

type parkState struct {
	lk0, sc0   int
	pendBefore map[[4]uint64]uint64
	deaths0    int64
	step       int
	op         string
	logOp      *mLog
	logKey     [4]uint64
	restart    *restartWait
}

// handOverDeadline: once the reader takes messages again (and Run is up again, if it had returned), a parked hand-over completes
// within microseconds; after this long it is written off
const handOverDeadline = 6 * time.Second

func (sc *scen) readerLoop() {
	for {
		select {
		case <-sc.rd.stop:
			return
		default:
		}
		got := false
		sc.rd.mu.Lock()
		if sc.rd.on || sc.rd.budget > 0 {
			select {
			case m := <-sc.msgC:
				if !sc.rd.on {
					sc.rd.budget--
				}
				sc.outC <- m
				sc.rd.taken++
				got = true
			default:
			}
		}
		sc.rd.mu.Unlock()
		if !got {
			time.Sleep(200 * time.Microsecond)
		}
	}
}

// handOvers: (decisions to forward the watcher has logged and the harness has not written off, messages the reader has taken, reader free)
func (sc *scen) handOvers() (int, int, bool) {
	sc.rd.mu.Lock()
	free, taken := sc.rd.on || sc.rd.budget > 0, sc.rd.taken
	sc.rd.mu.Unlock()
	sc.sim.mu.Lock()
	n := sc.sim.notes["confirmed"] + sc.sim.notes["reobs_fwd"] - sc.handBase
	sc.sim.mu.Unlock()
	return n, taken, free
}

// isParked: the reader is away and the watcher has logged one more decision to forward than messages were taken: it sits in the send
// (`w.msgChan <- message` on an unbuffered channel), in the middle of a scan, holding pendingMu
func (sc *scen) isParked() bool {
	n, taken, free := sc.handOvers()
	return !free && n > taken
}

// awaitHandOver waits until every decision to forward has been taken by the reader and no scan is open; scans that stay open are
// written off (the goroutine that ran them is gone or hangs) so that the rest of the history can be judged
func (sc *scen) awaitHandOver() bool {
	ok := waitUntil(handOverDeadline, func() bool {
		if sc.died.Load() != nil {
			return true
		}
		n, taken, _ := sc.handOvers()
		if n > taken {
			return false
		}
		sc.sim.mu.Lock()
		defer sc.sim.mu.Unlock()
		for _, x := range sc.sim.scans {
			if x.Open {
				return false
			}
		}
		return true
	})
	if ok {
		return true
	}
	n, taken, _ := sc.handOvers()
	if n > taken {
		sc.handBase += n - taken
	}
	sc.sim.mu.Lock()
	for i := range sc.sim.scans {
		if sc.sim.scans[i].Open {
			sc.sim.scans[i].Open, sc.sim.scans[i].Abandoned, sc.sim.scans[i].To = false, true, len(sc.sim.lookups)
			sc.stats["scans_written_off"]++
		}
	}
	sc.sim.mu.Unlock()
	return false
}

// lockPending takes w.pendingMu.  In the hand-over scenarios the watcher may sit in the send while it holds the lock: the harness
// must not wait for it for ever
func (sc *scen) lockPending(d time.Duration) bool {
	if !sc.cfg.SlowReader {
		sc.w.pendingMu.Lock()
		return true
	}
	return waitUntil(d, func() bool { return sc.w.pendingMu.TryLock() })
}

const rendezvousTimeout = 10 * time.Second

func waitUntil(d time.Duration, f func() bool) bool {
	deadline := time.Now().Add(d)
	for i := 0; ; i++ {
		if f() {
			return true
		}
		if time.Now().After(deadline) {
			return false
		}
		if i < 50 {
			time.Sleep(100 * time.Microsecond)
		} else {
			time.Sleep(500 * time.Microsecond)
		}
	}
}

func (sc *scen) monf(key, format string, a ...interface{}) {
	sc.mon = append(sc.mon, key+"|"+fmt.Sprintf(format, a...))
}
func (sc *scen) harnessf(format string, a ...interface{}) {
	sc.harness = append(sc.harness, fmt.Sprintf(format, a...))
}

var scenCounter uint64

func startScen(cfg scenCfg) (*scen, error) {
	ss, err := startSim(cfg.Head0)
	if err != nil {
		return nil, err
	}
	ss.sim.lastProcessed = cfg.Head0
	ss.sim.finalizedMode = cfg.Finalized
	sc := &scen{cfg: cfg, ss: ss, sim: ss.sim, msgC: make(chan *common.MessagePublication, 4096), obsvC: make(chan *gossipv1.ObservationRequest),
		logs: map[int]*simLog{}, insts: map[[4]uint64]*gtInst{}, stats: map[string]int{}}
	sc.outC = sc.msgC
	if cfg.SlowReader {
		sc.msgC = make(chan *common.MessagePublication) // as lockC in node.go
		sc.outC = make(chan *common.MessagePublication, 4096)
		sc.rd.on = true
		sc.rd.stop = make(chan struct{})
		go sc.readerLoop()
	}
	setC := make(chan *common.GuardianSet, 64)
	sc.setC = setC
	ss.sim.gs = &gsSim{sets: [][]int{sc.keyGen.set(1 + int(cfg.Head0%3))}}
	chain := vaa.ChainIDBSC
	dev := true
	if cfg.Finalized {
		chain = vaa.ChainIDEthereum
		dev = false
	}
	if cfg.ChainID != 0 && !cfg.Finalized {
		chain = vaa.ChainID(cfg.ChainID)
	}
	poll := cfg.PollMs
	comp := readiness.Component(fmt.Sprintf("verif-c10-%d", atomic.AddUint64(&scenCounter, 1)))
	sc.w = NewEthWatcher(ss.url, evmContract, "sim", comp, chain, sc.msgC, setC, sc.obsvC, dev, &poll, cfg.Wait)
	sc.maxWait = sc.w.maxWaitConfirmations
	ctx, cancel := context.WithCancel(context.Background())
	sc.cancel = cancel
	logger := zap.New(&obsCore{sim: ss.sim})
	supervisor.New(ctx, logger, func(ctx context.Context) error {
		atomic.AddInt64(&sc.runs, 1)
		err := sc.w.Run(ctx)
		if ctx.Err() == nil {
			sc.lastDeath.Store(fmt.Sprintf("%v", err))
			if atomic.AddInt64(&sc.expectDeaths, -1) < 0 {
				sc.died.Store(fmt.Sprintf("%v", err)) // a death the script did not ask for
			}
			atomic.AddInt64(&sc.deaths, 1)
		}
		return err
	})
	// ready when the log subscription exists, the guardian set was fetched and the header subscription goroutine is installed:
	// the last thing Run does before blocking is readiness.SetReady; the guardian set arrives on setC before the goroutines start.
	select {
	case <-ss.sim.subReady:
	case <-time.After(rendezvousTimeout):
		sc.stop()
		return nil, fmt.Errorf("log subscription not established")
	}
	select {
	case g0 := <-setC:
		sc.cur0 = int64(g0.Index)
		sc.lastSentIdx = sc.cur0
	case <-time.After(rendezvousTimeout):
		sc.stop()
		return nil, fmt.Errorf("guardian set not delivered")
	}
	// Run pegs readiness after the header subscription is installed (its last action before blocking)
	if !waitUntil(rendezvousTimeout, func() bool {
		rec := httptest.NewRecorder()
		readiness.Handler(rec, nil)
		return strings.Contains(rec.Body.String(), string(comp)+"\ttrue")
	}) {
		sc.stop()
		return nil, fmt.Errorf("watcher did not become ready")
	}
	// the block poller runs in its own supervised goroutine and takes the node's head at THAT moment as its first lastBlock (a head
	// it never publishes): wait until it has done so, so that every head the script sets afterwards is new to it
	if !waitUntil(rendezvousTimeout, func() bool {
		ss.sim.mu.Lock()
		defer ss.sim.mu.Unlock()
		return ss.sim.pollsArrived >= 1
	}) {
		sc.stop()
		return nil, fmt.Errorf("the block poller did not fetch its first block")
	}
	// the log subscription is the only filter on the primary path: it must name the configured contract and the topic
	ss.sim.mu.Lock()
	okA := len(ss.sim.critAddr) == 1 && ss.sim.critAddr[0] == evmContract
	okT := len(ss.sim.critT0) == 1 && ss.sim.critT0[0] == evmABI.Events["LogMessagePublished"].ID
	ss.sim.mu.Unlock()
	if !okA || !okT {
		sc.monf("safety:subscription-filter", "the log subscription does not restrict address to the core contract (%v) / topic to LogMessagePublished (%v)", okA, okT)
	}
	return sc, nil
}

func (sc *scen) stop() {
	sc.cancel()
	sc.ss.stop()
	if sc.rd.stop != nil {
		// a hand-over that is still parked is released (the goroutine of the cancelled Run ends)
		sc.rd.mu.Lock()
		sc.rd.on = true
		sc.rd.mu.Unlock()
		time.Sleep(2 * time.Millisecond)
		sc.rd.stopOnce.Do(func() { close(sc.rd.stop) })
	}
}

func (sc *scen) pendingSnapshot() map[[4]uint64]uint64 {
	out := map[[4]uint64]uint64{}
	if !sc.lockPending(rendezvousTimeout) {
		if sc.isParked() {
			// the reader is away and the watcher waits for it with the lock held: the script must bring the reader back first
			sc.harnessf("script error: the pending set was asked for while the watcher's hand-over is waiting for the reader")
		} else if !sc.noLock {
			sc.noLock = true
			n, taken, free := sc.handOvers()
			sc.monf("liveness:pending-lock-never-released", "w.pendingMu has been held for %v: the watcher logged %d decision(s) to forward, the reader (switched on: %v) has taken %d message(s); Run was entered %d times and returned %d times. No log can be recorded and no head processed while the lock is held",
				rendezvousTimeout, n, free, taken, atomic.LoadInt64(&sc.runs), atomic.LoadInt64(&sc.deaths))
		}
		return out
	}
	for k, p := range sc.w.pending {
		// what is pending is read from the ENTRY (its message) and, for the block hash, from the key by field name: the harness
		// does not depend on which components the key type has (a key that forgets one shows up as a lost message, not as a build error)
		em := uint64(p.message.EmitterAddress[30])<<8 | uint64(p.message.EmitterAddress[31])
		var bh ethcommon.Hash
		if f := reflect.ValueOf(k).FieldByName("BlockHash"); f.IsValid() {
			if h, ok := f.Interface().(ethcommon.Hash); ok {
				bh = h
			}
		}
		out[[4]uint64{uint64(hNum(p.message.TxHash)), uint64(hNum(bh)), em, p.message.Sequence}] = p.height
	}
	sc.w.pendingMu.Unlock()
	return out
}

// pendingEmptyNoLock is for diagnostics only (racy read of the map length)
func (sc *scen) pendingEmptyNoLock() bool { return len(sc.w.pending) == 0 }

func (sc *scen) pendingEmpty() bool {
	if !sc.lockPending(200 * time.Millisecond) {
		return false // unknown: the lock is held (a scan is running or parked in the send)
	}
	n := len(sc.w.pending)
	sc.w.pendingMu.Unlock()
	return n == 0
}

// settle waits until the watcher has processed the node's current head (its own "processing / processed new header" log lines
// are the trace of head processing), or has nothing pending: the poller is then switched off.  The head the node had when the
// poller started is never published (the poller publishes only heads above its lastBlock), so it counts as processed.
// pollerDeadline: with messages pending the block poller asks the node for its head every PollMs (1 ms); not a single request for this
// long means that it is switched off
const pollerDeadline = 5 * time.Second

// pendingWithPollerOff reports the state "w.pending is not empty, no insertion is in flight, and the block poller does not poll":
// nothing pending can then be forwarded, dropped or abandoned, however far the chain advances, until some other log arrives
func (sc *scen) pendingWithPollerOff(when string) {
	pend := sortedPend(sc.pendingSnapshot())
	sc.sim.mu.Lock()
	head, lastProc := sc.sim.head, sc.sim.lastProcessed
	sc.sim.mu.Unlock()
	sc.monf("liveness:pending-with-poller-off", "%s: w.pending holds %d message(s) (tx, block hash, emitter, sequence) %v and the block poller has not asked the node for its head for %v (poll interval %d ms): the poller is switched off, the node's head is %d, the last head the watcher processed is %d; nothing pending is forwarded, dropped or abandoned until another log arrives (Run was entered %d times, returned %d times)",
		when, len(pend), pend, pollerDeadline, sc.cfg.PollMs, head, lastProc, atomic.LoadInt64(&sc.runs), atomic.LoadInt64(&sc.deaths))
	sc.pollerOff = true
}

// pollerAlive waits until the poller has asked the node for its head twice more (true) or pollerDeadline has gone by (false)
func (sc *scen) pollerAlive() bool {
	sc.sim.mu.Lock()
	p0 := sc.sim.pollsArrived
	sc.sim.mu.Unlock()
	return waitUntil(pollerDeadline, func() bool {
		sc.sim.mu.Lock()
		defer sc.sim.mu.Unlock()
		return sc.sim.pollsArrived >= p0+2
	})
}

// settle waits until the watcher has processed the node's current head (its own "processing / processed new header" log lines
// are the trace of head processing), or has nothing pending: the poller is then switched off.  The head the node had when the
// poller started is never published (the poller publishes only heads above its lastBlock), so it counts as processed.
func (sc *scen) settle(what string) {
	if sc.pollerOff {
		// the poller is known to be off (nothing was pending when Run was re-entered, or the state was reported by pendingWithPollerOff):
		// no head will be processed until the next log.  Give a head that is in flight against expectation the time to show up, then go on.
		time.Sleep(60 * time.Millisecond)
		return
	}
	sc.sim.mu.Lock()
	p0 := sc.sim.pollsArrived
	sc.sim.mu.Unlock()
	t0 := time.Now()
	silent := false
	parked := false
	ok := waitUntil(rendezvousTimeout, func() bool {
		if sc.died.Load() != nil {
			return true
		}
		if sc.cfg.SlowReader && sc.isParked() {
			// the scan cannot complete before the reader comes back: that is the state the script asked for, not a failure of the rendezvous
			parked = true
			return true
		}
		empty := sc.pendingEmpty()
		sc.sim.mu.Lock()
		defer sc.sim.mu.Unlock()
		for i := len(sc.sim.scans) - 1; i >= 0 && i >= len(sc.sim.scans)-3; i-- {
			if sc.sim.scans[i].Open {
				return false
			}
		}
		if empty || sc.sim.lastProcessed >= sc.sim.head {
			return true
		}
		if sc.sim.pollsArrived == p0 && time.Since(t0) >= pollerDeadline {
			silent = true // messages pending, heads to process, and not one poll
			return true
		}
		return false
	})
	if parked {
		sc.parked = true
		return
	}
	if silent {
		sc.pendingWithPollerOff("after " + what)
		return
	}
	if !ok {
		sc.sim.mu.Lock()
		open := 0
		for _, x := range sc.sim.scans {
			if x.Open {
				open++
			}
		}
		enabled := sc.w.ethConn != nil && sc.w.ethConn.enabled.Load()
		sc.harnessf("rendezvous timeout after %s (head %d, last processed %d; polls served during the wait %d, failed polls so far %d, scans %d of which unfinished %d, poller enabled %v, pending empty %v)",
			what, sc.sim.head, sc.sim.lastProcessed, sc.sim.pollsArrived-p0, sc.sim.pollsFailed, len(sc.sim.scans), open, enabled, sc.pendingEmptyNoLock())
		sc.sim.mu.Unlock()
	}
}

func (sc *scen) drain() []fwdMsg {
	var out []fwdMsg
	if sc.cfg.SlowReader {
		// the reader holds its lock from taking a message to putting it into outC: whatever the watcher has handed over is in outC after this
		sc.rd.mu.Lock()
		sc.rd.mu.Unlock()
	}
	for {
		select {
		case m := <-sc.outC:
			f := fwdMsg{Body: bodyOfPayload(m.Payload), Tx: hNum(m.TxHash), CL: int(m.ConsistencyLevel), TS: uint64(m.Timestamp.Unix()),
				Em: int(m.EmitterAddress[30])<<8 | int(m.EmitterAddress[31]), Seq: m.Sequence,
				No: m.Nonce, Tg: uint16(m.TargetChain), Ch: uint16(m.EmitterChain)}
			// field fidelity against the log that was emitted
			if l := sc.logs[f.Body]; l != nil {
				if f.Tx != l.Tx || f.Em != l.Em || f.Seq != l.Seq || f.CL != int(l.CL) || m.Nonce != l.Nonce || uint16(m.TargetChain) != l.Target ||
					m.EmitterChain != sc.w.chainID || m.TxHash != hID(kindTx, uint64(l.Tx)) {
					sc.monf("fidelity:message-fields", "message for body %d differs from the emitted log: %+v vs %+v", f.Body, f, *l)
				}
			}
			// the timestamp is the time of a block the log was announced in (primary path) or of the block its receipt names (re-observation)
			if l := sc.logs[f.Body]; l != nil {
				okTS := false
				for k := range sc.insts {
					if int(k[0]) == l.Tx && int(k[2]) == l.Em && k[3] == l.Seq && blockTimeOf(hID(kindBlock, k[1])) == f.TS {
						okTS = true
					}
				}
				sc.sim.mu.Lock()
				if r := sc.sim.rcpts[l.Tx]; r != nil && blockTimeOf(hID(kindBlock, uint64(r.BH))) == f.TS {
					okTS = true
				}
				sc.sim.mu.Unlock()
				if !okTS {
					sc.monf("fidelity:timestamp", "message for body %d (tx %d) carries timestamp %d, which is not the time of any block this log was reported in", f.Body, l.Tx, f.TS)
				}
			}
			out = append(out, f)
		default:
			return out
		}
	}
}

func (sc *scen) expected(cl uint8) uint64 {
	if sc.cfg.Wait {
		return uint64(cl)
	}
	return 0
}

func sortedPend(p map[[4]uint64]uint64) [][4]uint64 {
	out := make([][4]uint64, 0, len(p))
	for k := range p {
		out = append(out, k)
	}
	sort.Slice(out, func(i, j int) bool {
		for x := 0; x < 4; x++ {
			if out[i][x] != out[j][x] {
				return out[i][x] < out[j][x]
			}
		}
		return false
	})
	return out
}

func bhOfTS(ts uint64) int { return int((ts - evmTimeBase) / 7) }

// ---------------------------------------------------------------- one step: act, rendezvous, observe, monitor
func (sc *scen) runStep(si int, st *step) {
	sim := sc.sim
	sim.mu.Lock()
	lk0, sc0 := len(sim.lookups), len(sim.scans)
	txNotes0 := 0
	if st.Op == "log" {
		txNotes0 = sim.txNotes[hID(kindTx, uint64(st.Tx)).Hex()]
	}
	sim.mu.Unlock()
	g := group{Step: si}
	deaths0 := atomic.LoadInt64(&sc.deaths)
	var restartOps []interface{}
	var reobsInfo *mReobs
	var logKey [4]uint64
	var logOp *mLog
	var pendBefore map[[4]uint64]uint64
	wasParked := sc.parked
	if wasParked {
		// the hand-over that an earlier step started is still waiting for the reader: this step and the ones since then are judged as
		// one (the scan that decided to forward is still open); w.pendingMu is held by the watcher, the pending set cannot be read
		switch st.Op {
		case "restart", "resume-reader", "read", "stall":
		default:
			sc.harnessf("step %d: script error: %q while the watcher's hand-over is waiting for the reader", si, st.Op)
			return
		}
		lk0, sc0, pendBefore, deaths0 = sc.pk.lk0, sc.pk.sc0, sc.pk.pendBefore, sc.pk.deaths0
	} else {
		pendBefore = sc.pendingSnapshot()
	}
	if strings.HasSuffix(st.Op, "-reader") || st.Op == "read" || st.Kill == "dropconn" {
		if !sc.cfg.SlowReader {
			sc.harnessf("step %d: script error: %q / kill %q needs cfg.slowreader", si, st.Op, st.Kill)
			return
		}
	}

	switch st.Op {
	case "pause-reader":
		sc.rd.mu.Lock()
		sc.rd.on, sc.rd.budget = false, 0
		sc.rd.mu.Unlock()
		sc.pausedAt = si
		sc.stats["reader_paused"]++

	case "resume-reader", "read":
		sc.parked = false
		sc.rd.mu.Lock()
		if st.Op == "read" {
			n := st.N
			if n <= 0 {
				n = 1
			}
			sc.rd.budget += n
		} else {
			sc.rd.on, sc.rd.budget = true, 0
		}
		sc.rd.mu.Unlock()
		if wasParked && sc.pk.restart != nil && st.Op == "resume-reader" {
			// Run returned while the hand-over was parked and was re-entered: on the pinned code the re-entered Run waits for pendingMu,
			// which the parked goroutine of the previous Run holds until its message has been taken
			rw := sc.pk.restart
			ops, _ := sc.awaitRunUp(rw.step, rw.kill, 1, rw.subs0, rw.calls0, rw.runs0, rw.deaths0, rw.pollsAtDeath)
			restartOps = append([]interface{}{mPollDead{T: "polldead"}}, ops...)
		}
		if st.Op == "read" {
			waitUntil(handOverDeadline, func() bool {
				sc.rd.mu.Lock()
				defer sc.rd.mu.Unlock()
				return sc.rd.budget == 0
			})
			sc.rd.mu.Lock()
			sc.rd.budget = 0
			sc.rd.mu.Unlock()
			sc.settle("read")
			if !sc.parked {
				sc.awaitHandOver()
			}
		} else {
			if !sc.awaitHandOver() {
				sc.stats["hand_overs_written_off"]++
			}
			sc.settle("resume-reader")
		}

	case "log", "foreign":
		l := sc.logs[st.Body]
		if l == nil {
			l = &simLog{Body: st.Body, Tx: st.Tx, Em: st.Em, Seq: st.Seq, CL: st.CL, Nonce: uint32(st.Body*7 + 1), Target: uint16(st.Body%5 + 1), AddrForeign: st.Op == "foreign"}
			sc.logs[st.Body] = l
		}
		sim.mu.Lock()
		r := sim.rcpts[st.Tx]
		if r == nil && st.How != "norcpt" {
			r = &simRcpt{Status: 1, BH: st.BH, Block: st.Block}
			sim.rcpts[st.Tx] = r
		}
		if r != nil {
			present := false
			for _, x := range r.Logs {
				if x == l {
					present = true
				}
			}
			if !present {
				r.Logs = append(r.Logs, l)
			}
		}
		sim.mu.Unlock()
		logKey = [4]uint64{uint64(st.Tx), uint64(st.BH), uint64(st.Em), st.Seq}
		_, already := pendBefore[logKey]
		if st.Op == "log" && already && !sc.cfg.Sentinel {
			// repeating a log whose key is pending has no observable effect unless it lands after the key was removed; without
			// the barrier below its insertion cannot be awaited, so the repetition is skipped in histories without the sentinel
			sc.stats["repeat_skipped"]++
			logKey = [4]uint64{}
			break
		}
		var hold chan struct{}
		if st.Op == "log" && st.Hold {
			// the node answers this log's block-time lookup only after the head st.To has been processed
			hold = make(chan struct{})
			sim.mu.Lock()
			sim.bbhHold[st.BH] = hold
			sim.mu.Unlock()
		}
		bbh0 := 0
		if hold != nil {
			sim.mu.Lock()
			bbh0 = sim.bbhCalls[hID(kindBlock, uint64(st.BH))]
			sim.mu.Unlock()
		}
		el := l.ethLog(st.BH, st.Block, 0)
		el.Removed = st.Rm
		sent := sim.push(el)
		if hold != nil {
			if sent {
				if !waitUntil(rendezvousTimeout, func() bool {
					sim.mu.Lock()
					defer sim.mu.Unlock()
					return sim.bbhCalls[hID(kindBlock, uint64(st.BH))] > bbh0
				}) {
					sc.harnessf("step %d: the watcher never asked for the block time of the pushed log", si)
				}
				sim.mu.Lock()
				if st.To > sim.head {
					sim.head = st.To
					sim.headHash = hID(kindHead, sim.head)
				}
				sim.mu.Unlock()
				// the head is processed (or nothing is pending any more) while the lookup is in flight
				waitUntil(rendezvousTimeout, func() bool {
					empty := sc.pendingEmpty()
					sim.mu.Lock()
					defer sim.mu.Unlock()
					for i := len(sim.scans) - 1; i >= 0 && i >= len(sim.scans)-3; i-- {
						if sim.scans[i].Open {
							return false
						}
					}
					return empty || sim.lastProcessed >= sim.head
				})
				time.Sleep(20 * time.Millisecond)
				sc.stats["held_logs"]++
			}
			sim.mu.Lock()
			delete(sim.bbhHold, st.BH)
			sim.mu.Unlock()
			close(hold)
		}
		if st.Op == "foreign" {
			sc.stats["foreign_pushed"]++
			if sent {
				sc.stats["foreign_passed_filter"]++
			}
			// nothing to wait for if the node-side filter rejected it
			if sent {
				time.Sleep(20 * time.Millisecond)
			}
			logKey = [4]uint64{}
			sc.settle("foreign")
			break
		}
		if !sent {
			sc.harnessf("step %d: the subscription filter rejected a core-contract log", si)
			break
		}
		sc.pollerOff = false // the insertion of this log calls EnablePoller()
		logOp = &mLog{T: "log", Tx: st.Tx, BH: st.BH, Em: st.Em, Seq: st.Seq, CL: int(st.CL), Body: st.Body, H: st.Block, BT: blockTimeOf(hID(kindBlock, uint64(st.BH))),
			No: l.Nonce, Tg: l.Target}
		inst := sc.insts[logKey]
		if inst == nil {
			inst = &gtInst{log: l, bh: st.BH, block: st.Block}
			sc.insts[logKey] = inst
		}
		inst.block = st.Block
		inst.awaiting = true
		var ok bool
		if already {
			// barrier: the watcher handles logs one after the other, so once it asks for the block time of a second log (the
			// sentinel, whose re-insertion changes nothing) it has finished inserting the first
			sb := hID(kindBlock, sentinelTx)
			sim.mu.Lock()
			c0 := sim.bbhCalls[sb]
			sim.mu.Unlock()
			sl := &simLog{Body: sentinelTx, Tx: sentinelTx, Em: 9, Seq: 0, CL: 1, Nonce: uint32(sentinelTx*7 + 1), Target: uint16(sentinelTx%5 + 1)}
			sim.push(sl.ethLog(sentinelTx, sentinelHeight, 0))
			ok = waitUntil(rendezvousTimeout, func() bool {
				sim.mu.Lock()
				defer sim.mu.Unlock()
				return sim.bbhCalls[sb] > c0 || sc.died.Load() != nil
			})
			sc.stats["barrier_logs"]++
		} else {
			// inserted = the key is in w.pending, or its receipt was already looked up by a scan that followed the insertion
			ok = waitUntil(rendezvousTimeout, func() bool {
				if sc.died.Load() != nil {
					return true
				}
				if _, in := sc.pendingSnapshot()[logKey]; in {
					return true
				}
				sim.mu.Lock()
				defer sim.mu.Unlock()
				for _, lk := range sim.lookups[lk0:] {
					if lk.Kind == kindTx && lk.Tx == st.Tx {
						return true
					}
				}
				// ... or a scan that followed the insertion has already said something about this transaction (e.g. "observation timed out")
				return sim.txNotes[hID(kindTx, uint64(st.Tx)).Hex()] > txNotes0
			})
		}
		if !ok {
			sc.harnessf("step %d: pushed log never appeared in w.pending", si)
		}
		sc.settle("log")

	case "head", "stall":
		sim.mu.Lock()
		if st.Op == "head" && st.To > sim.head {
			sim.head = st.To
			sim.headHash = hID(kindHead, sim.head)
		}
		sim.pollFail = st.PollFail
		sim.rcptErrA = st.ErrAll
		for _, t := range st.ErrTx {
			sim.rcptErr[t] = true
		}
		p0 := sim.pollsArrived
		sim.mu.Unlock()
		if st.Op == "stall" && !sc.pollerOff {
			// two further polls (or nothing pending: no polls at all)
			waitUntil(rendezvousTimeout, func() bool {
				if sc.pendingEmpty() {
					return true
				}
				sim.mu.Lock()
				defer sim.mu.Unlock()
				return sim.pollsArrived >= p0+2
			})
		}
		if st.Op == "stall" && st.DelayMs > 0 && sc.cfg.SlowReader {
			time.Sleep(time.Duration(st.DelayMs) * time.Millisecond) // the processor stays busy for this long
		}
		sc.settle(st.Op)
		sim.mu.Lock()
		sim.pollFail = 0
		sim.rcptErrA = false
		for _, t := range st.ErrTx {
			delete(sim.rcptErr, t)
		}
		sim.mu.Unlock()

	case "restart":
		if wasParked {
			// Run is made to return for a reason that has nothing to do with the message in the hand-over
			if st.Kill != "dropconn" {
				sc.harnessf("step %d: script error: only kill dropconn is available while the hand-over is parked", si)
				return
			}
			rw := &restartWait{step: si, kill: st.Kill, runs0: atomic.LoadInt64(&sc.runs), deaths0: atomic.LoadInt64(&sc.deaths), awayMs: st.DelayMs}
			if rw.awayMs <= 0 {
				rw.awayMs = 1500
			}
			sim.mu.Lock()
			for _, n := range st.Upg {
				sim.gs.sets = append(sim.gs.sets, sc.keyGen.set(n))
			}
			rw.subs0, rw.calls0 = sim.subCount, len(sim.gs.calls)
			sim.mu.Unlock()
			atomic.AddInt64(&sc.expectDeaths, 1)
			sc.ss.dropConnections()
			okDeath := waitUntil(2*rendezvousTimeout, func() bool { return atomic.LoadInt64(&sc.deaths) >= rw.deaths0+1 || sc.died.Load() != nil })
			sim.mu.Lock()
			rw.pollsAtDeath = sim.pollsArrived
			sim.mu.Unlock()
			if !okDeath {
				sc.harnessf("step %d: Run did not return after the node dropped its connections (hand-over parked)", si)
				break
			}
			rw.reentered = waitUntil(3*rendezvousTimeout, func() bool { return atomic.LoadInt64(&sc.runs) >= rw.runs0+1 || sc.died.Load() != nil })
			if !rw.reentered {
				sc.harnessf("step %d: the supervisor did not re-enter Run after the node dropped its connections", si)
				break
			}
			// the processor stays busy for a while after Run has been re-entered
			time.Sleep(time.Duration(rw.awayMs) * time.Millisecond)
			if sc.w.pendingMu.TryLock() {
				rw.lockFreeAfter = true
				sc.w.pendingMu.Unlock()
			}
			sc.pk.restart = rw
			sc.stats["restarts_while_parked"]++
			break
		}
		expected := int64(1)
		if st.GsFail != "" {
			expected = 2
		}
		sim.mu.Lock()
		for _, n := range st.Upg {
			sim.gs.sets = append(sim.gs.sets, sc.keyGen.set(n))
		}
		subs0, calls0 := sim.subCount, len(sim.gs.calls)
		sim.mu.Unlock()
		runs0 := atomic.LoadInt64(&sc.runs)
		atomic.AddInt64(&sc.expectDeaths, expected)
		switch st.Kill {
		case "blocktime":
			l := &simLog{Body: st.Body, Tx: st.Tx, Em: st.Em, Seq: st.Seq, CL: st.CL, Nonce: uint32(st.Body*7 + 1), Target: uint16(st.Body%5 + 1)}
			sc.logs[st.Body] = l
			sim.mu.Lock()
			r := sim.rcpts[st.Tx]
			if r == nil {
				r = &simRcpt{Status: 1, BH: st.BH, Block: st.Block}
				sim.rcpts[st.Tx] = r
			}
			r.Logs = append(r.Logs, l)
			sim.bbhErr[st.BH] = true
			sim.mu.Unlock()
			if !sim.push(l.ethLog(st.BH, st.Block, 0)) {
				sc.harnessf("step %d: the subscription filter rejected a core-contract log", si)
			}
			restartOps = append(restartOps, mLogLost{T: "loglost", Ev: mLog{T: "log", Tx: st.Tx, BH: st.BH, Em: st.Em, Seq: st.Seq, CL: int(st.CL), Body: st.Body, H: st.Block,
				BT: blockTimeOf(hID(kindBlock, uint64(st.BH))), No: l.Nonce, Tg: l.Target}})
			sc.lost = append(sc.lost, &gtInst{log: l, bh: st.BH, block: st.Block})
		case "pollfail":
			sim.mu.Lock()
			sim.pollFailAll = true
			sim.mu.Unlock()
			restartOps = append(restartOps, mPollDead{T: "polldead"})
		case "dropconn":
			// the node drops the watcher's connections (it stays up: the re-entered Run dials again): the log subscription fails
			sc.ss.dropConnections()
			restartOps = append(restartOps, mPollDead{T: "polldead"})
		default:
			sc.harnessf("step %d: unknown way to end Run: %q", si, st.Kill)
		}
		okDeath := waitUntil(2*rendezvousTimeout, func() bool { return atomic.LoadInt64(&sc.deaths) >= deaths0+1 || sc.died.Load() != nil })
		sim.mu.Lock()
		sim.pollFailAll = false
		delete(sim.bbhErr, st.BH)
		switch st.GsFail {
		case "idx":
			sim.gs.failIdxN = 1
		case "set":
			sim.gs.failSetN = 1
		}
		pollsAtDeath := sim.pollsArrived
		sim.mu.Unlock()
		if !okDeath {
			sc.harnessf("step %d: Run did not return after %s", si, st.Kill)
			break
		}
		ops, okUp := sc.awaitRunUp(si, st.Kill, expected, subs0, calls0, runs0, deaths0, pollsAtDeath)
		if !okUp {
			break
		}
		restartOps = append(restartOps, ops...)
		sc.settle("restart")

	case "reorg":
		sim.mu.Lock()
		r := sim.rcpts[st.Tx]
		switch st.How {
		case "gone":
			delete(sim.rcpts, st.Tx)
		case "moved", "ok":
			if r == nil {
				r = &simRcpt{}
				sim.rcpts[st.Tx] = r
				for _, l := range sc.logs {
					if l.Tx == st.Tx {
						r.Logs = append(r.Logs, l)
					}
				}
				sort.Slice(r.Logs, func(i, j int) bool { return r.Logs[i].Body < r.Logs[j].Body })
			}
			r.Status, r.BH, r.Block, r.Pooled = 1, st.BH, st.Block, false
		case "pooled":
			// the block of the log left the chain and the transaction is back in the pool; this node answers eth_getTransactionReceipt
			// for a pooled transaction with a pending-style receipt: status 1, blockHash null, blockNumber null
			if r == nil {
				r = &simRcpt{}
				sim.rcpts[st.Tx] = r
				for _, l := range sc.logs {
					if l.Tx == st.Tx {
						r.Logs = append(r.Logs, l)
					}
				}
				sort.Slice(r.Logs, func(i, j int) bool { return r.Logs[i].Body < r.Logs[j].Body })
			}
			r.Status, r.BH, r.Block, r.Pooled = 1, 0, 0, true
		case "failed":
			if r != nil {
				r.Status = 0
			}
		}
		sim.mu.Unlock()

	case "reobs":
		txh := hID(kindTx, uint64(st.Tx))
		headErr := st.HeadErr && sc.pendingEmpty() // the poller shares eth_getBlockByNumber: fail it only while the poller is switched off
		sim.mu.Lock()
		r := sim.rcpts[st.Tx]
		if r != nil {
			for _, x := range st.Extras {
				l := sc.logs[x.Body]
				if l == nil {
					l = &simLog{Body: x.Body, Tx: st.Tx, Em: x.Em, Seq: x.Seq, CL: x.CL, Nonce: uint32(x.Body*7 + 1), Target: uint16(x.Body%5 + 1),
						AddrForeign: x.Kind == "foreignaddr", TopicOther: x.Kind == "othertopic"}
					sc.logs[x.Body] = l
					r.Logs = append(r.Logs, l)
				}
			}
		}
		info := &mReobs{T: "reobs", Tx: st.Tx, HB: int64(sim.head), HA: int64(sim.head), BT: -1}
		if headErr {
			sim.pollFailAll = true
			info.HB, info.HA = -1, -1
		}
		if st.RcptErr {
			sim.rcptErr[st.Tx] = true
		}
		if r != nil && !st.RcptErr {
			rc := &mRcpt{St: r.Status, Blk: r.Block, BH: r.BH, NoBlk: r.Pooled, Logs: []mRLog{}}
			for _, l := range r.Logs {
				if r.Pooled {
					break // the pending-style receipt carries no logs
				}
				ml := mRLog{A: 1, T0: evmABI.Events["LogMessagePublished"].ID.Hex()}
				if l.AddrForeign {
					ml.A = 2
				}
				if l.TopicOther {
					ml.T0 = evmOtherTopic.Hex()
				} else {
					ml.Ev = &mLog{T: "log", Tx: l.Tx, BH: r.BH, Em: l.Em, Seq: l.Seq, CL: int(l.CL), Body: l.Body, H: r.Block, No: l.Nonce, Tg: l.Target}
				}
				rc.Logs = append(rc.Logs, ml)
			}
			info.Rc = rc
			if st.BbhErr {
				sim.bbhErr[r.BH] = true
			} else if !r.Pooled {
				info.BT = int64(blockTimeOf(hID(kindBlock, uint64(r.BH))))
			} // pooled: the receipt's block hash decodes as the zero hash, which no block has: the block-time lookup fails
			if st.Bump > 0 && !headErr {
				sim.bumpOnRcpt[st.Tx] = st.Bump
				info.HA += int64(st.Bump)
			}
		}
		sim.mu.Unlock()
		reobsInfo = info
		// the request, then a barrier request: the channel is unbuffered and the goroutine sequential, so the barrier is
		// accepted only after the first request has been dealt with completely
		sc.syncSeq++
		syncH := hID(kindSync, sc.syncSeq)
		send := func(h []byte) bool {
			select {
			case sc.obsvC <- &gossipv1.ObservationRequest{ChainId: uint32(sc.w.chainID), TxHash: h}:
				return true
			case <-time.After(rendezvousTimeout):
				return false
			}
		}
		if !send(txh.Bytes()) || !send(syncH.Bytes()) {
			sc.harnessf("step %d: re-observation request not accepted", si)
		}
		sim.mu.Lock()
		sim.pollFailAll = false
		delete(sim.rcptErr, st.Tx)
		if r != nil {
			delete(sim.bbhErr, r.BH)
		}
		delete(sim.bumpOnRcpt, st.Tx)
		sim.mu.Unlock()
		if !headErr {
			// let the barrier request finish too (its receipt lookup is the last thing it does)
			if !waitUntil(rendezvousTimeout, func() bool {
				if sc.died.Load() != nil {
					return true
				}
				sim.mu.Lock()
				defer sim.mu.Unlock()
				for i := len(sim.lookups) - 1; i >= lk0; i-- {
					if sim.lookups[i].Kind == kindSync && sim.lookups[i].Tx == int(sc.syncSeq) {
						return true
					}
				}
				return false
			}) {
				sc.harnessf("step %d: the re-observation goroutine never asked for the receipt of the barrier request (its head read fails or hangs)", si)
			}
		} else {
			time.Sleep(5 * time.Millisecond)
		}
		sc.settle("reobs")
	}

	if d := sc.died.Load(); d != nil {
		sc.harnessf("step %d (%s): watcher terminated: %v", si, st.Op, d)
	}
	var parkedFrom *parkState
	if sc.parked {
		// the watcher sits in the send, in the middle of a scan, holding pendingMu: nothing can be observed or judged before the reader
		// is back.  What this step saw before it acted is kept; the step that ends the hand-over is judged on it.
		if !wasParked {
			if st.Op == "reobs" {
				sc.harnessf("step %d: script error: a re-observation request while the reader is away", si)
				return
			}
			sc.pk = &parkState{lk0: lk0, sc0: sc0, pendBefore: pendBefore, deaths0: deaths0, step: si, op: st.Op, logOp: logOp, logKey: logKey}
			sc.stats["hand_overs_parked"]++
		}
		sc.groups = append(sc.groups, group{Step: si, Ops: []interface{}{}, Fw: []fwdMsg{}, Pend: sortedPend(pendBefore), Sets: []gsSent{}})
		return
	}
	if wasParked {
		parkedFrom = sc.pk
		sc.pk = nil
		logOp, logKey = parkedFrom.logOp, parkedFrom.logKey
	}
	// ------------------------------------------------ observe
	fw := sc.drain()
	pend := sc.pendingSnapshot()
	sim.mu.Lock()
	lookups := append([]lookupRec(nil), sim.lookups[lk0:]...)
	var scans []scanRec
	for _, s := range sim.scans[sc0:] {
		if !s.Open {
			scans = append(scans, s)
		}
	}
	allLk := sim.lookups
	headNow := sim.head
	rcptOf := func(tx int) *simRcpt { return sim.rcpts[tx] }
	sim.mu.Unlock()
	// a receipt request that arrives while a scan is running belongs to that scan only if an entry with that transaction can be
	// pending: a re-observation request may overlap a scan over an EMPTY w.pending (the head of a poll that was in flight when the
	// poller was switched off), and then the request is the re-observation's own
	pendTx := map[int]bool{}
	for k := range pendBefore {
		pendTx[int(k[0])] = true
	}
	if st.Op == "log" {
		pendTx[st.Tx] = true
	}
	if logOp != nil {
		pendTx[logOp.Tx] = true
	}
	scanLk := func(s scanRec) []lookupRec {
		var out []lookupRec
		for _, lk := range allLk[s.From:s.To] {
			if lk.Kind == kindTx && pendTx[lk.Tx] {
				out = append(out, lk)
			}
		}
		return out
	}
	// ------------------------------------------------ model operations of this step, in the order the watcher saw them
	var before, after []interface{}
	for _, s := range scans {
		lks := scanLk(s)
		op := mHead{T: "head", N: s.N, Lk: lks}
		if op.Lk == nil {
			op.Lk = []lookupRec{}
		}
		touches := false
		if logOp != nil {
			for _, lk := range lks {
				if lk.Tx == logOp.Tx {
					touches = true
				}
			}
		}
		if logOp != nil && !touches {
			before = append(before, op)
		} else {
			after = append(after, op)
		}
		sc.stats["scans"]++
		if s.N > sc.maxScan {
			sc.maxScan = s.N
		}
		sc.stats["lookups"] += len(lks)
		for _, n := range s.Notes {
			sc.stats["note_"+n]++
		}
	}
	g.Ops = append(g.Ops, before...)
	if restartOps != nil {
		// scans of this step were made by the Run that was then made to return: the new poller is off
		g.Ops = append(g.Ops, after...)
		after = nil
		g.Ops = append(g.Ops, restartOps...)
	}
	if logOp != nil {
		g.Ops = append(g.Ops, logOp)
	}
	if reobsInfo != nil {
		g.Ops = append(g.Ops, reobsInfo)
	}
	g.Ops = append(g.Ops, after...)
	if g.Ops == nil {
		g.Ops = []interface{}{}
	}
	g.Fw = fw
	if g.Fw == nil {
		g.Fw = []fwdMsg{}
	}
	g.Pend = sortedPend(pend)
	g.Sets = []gsSent{}
drainSets:
	for {
		select {
		case gs := <-sc.setC:
			x := gsSent{Idx: int64(gs.Index), Keys: []int{}}
			for _, k := range gs.Keys {
				x.Keys = append(x.Keys, gsKeyID(k))
			}
			g.Sets = append(g.Sets, x)
		default:
			break drainSets
		}
	}
	sim.mu.Lock()
	truthSets := append([][]int(nil), sim.gs.sets...)
	sim.mu.Unlock()
	for _, x := range g.Sets {
		if x.Idx < 0 || x.Idx >= int64(len(truthSets)) {
			sc.monf("gs-run:index-not-in-contract", "step %d (%s): a set was sent under index %d; the contract's current index is %d", si, st.Op, x.Idx, len(truthSets)-1)
		} else if !sameInts(x.Keys, truthSets[x.Idx]) {
			sc.monf("gs-run:keys-of-another-set", "step %d (%s): keys %v were sent under index %d; the contract's set %d is %v", si, st.Op, x.Keys, x.Idx, x.Idx, truthSets[x.Idx])
		}
		if x.Idx == sc.lastSentIdx {
			sc.monf("gs-run:same-index-twice-in-a-row", "step %d (%s): a set with index %d was sent although the previous set sent by this Watcher value carried the same index (Run returned %d times in this step)",
				si, st.Op, x.Idx, int(atomic.LoadInt64(&sc.deaths)-deaths0))
		}
		sc.lastSentIdx = x.Idx
	}
	g.Died = int(atomic.LoadInt64(&sc.deaths) - deaths0)
	for _, m := range fw {
		sc.stats[fmt.Sprintf("fwdbody_%d", m.Body)]++
	}
	sc.groups = append(sc.groups, g)
	sc.stats["forwarded"] += len(fw)

	// ------------------------------------------------ monitors (property statement on the node's ground truth)
	errInj := func(tx int) bool {
		if st.Op != "head" && st.Op != "stall" {
			return false
		}
		if st.ErrAll {
			return true
		}
		for _, t := range st.ErrTx {
			if t == tx {
				return true
			}
		}
		return false
	}
	// (a) every forwarded message is justified
	got := map[[4]uint64]int{}
	scanJ := map[[4]uint64]bool{}
	reobsJ := map[[4]uint64]bool{}
	reobsWhy := map[[4]uint64]string{}
	// receipt lookups issued by the per-head scans of this step, and the others (a re-observation request's own lookup)
	var scanLookups, otherLookups []lookupRec
	for gi := lk0; gi < len(allLk); gi++ {
		inScan := false
		for _, s := range scans {
			if gi >= s.From && gi < s.To {
				inScan = true
			}
		}
		if inScan && pendTx[allLk[gi].Tx] {
			scanLookups = append(scanLookups, allLk[gi])
		} else {
			otherLookups = append(otherLookups, allLk[gi])
		}
	}
	scanConfirmed := false
	for _, s := range scans {
		if countStr(s.Notes, "confirmed") > 0 {
			scanConfirmed = true
		}
	}
	for _, m := range fw {
		l := sc.logs[m.Body]
		if l == nil {
			sc.monf("safety:unknown-message", "step %d: forwarded a message that no log carries: %+v", si, m)
			continue
		}
		if l.AddrForeign {
			sc.monf("safety:foreign-contract-log", "step %d: forwarded a log emitted by another contract (body %d, tx %d)", si, m.Body, m.Tx)
			continue
		}
		if l.TopicOther {
			sc.monf("safety:foreign-topic-log", "step %d: forwarded a log with another topic (body %d, tx %d)", si, m.Body, m.Tx)
			continue
		}
		key := [4]uint64{uint64(l.Tx), uint64(bhOfTS(m.TS)), uint64(l.Em), l.Seq}
		got[key]++
		e := sc.expected(l.CL)
		inst := sc.insts[key]
		why := "no-receipt-lookup"
		if inst != nil && inst.awaiting {
			for _, lk := range scanLookups {
				if lk.Kind != kindTx || lk.Tx != l.Tx {
					continue
				}
				switch {
				case lk.Code == 0:
					why = "orphaned-tx"
				case lk.Code == 1:
					why = "lookup-failed"
				case lk.Status != 1:
					why = "failed-tx"
				case lk.NoBlock:
					why = "receipt-names-no-block"
				case lk.BH != inst.bh:
					why = "re-mined-tx"
				case inst.block+e > lk.Head:
					why = "before-depth"
				default:
					scanJ[key] = true
				}
			}
		} else if inst != nil {
			why = "already-resolved"
		} else {
			why = "never-observed"
		}
		if why == "receipt-names-no-block" && (st.Op != "reobs" || scanConfirmed) {
			// (in a re-observation step: only if a per-head scan of this step logged 'observation confirmed', i.e. the scan forwarded)
			sc.monf("safety:receipt-names-no-block", "step %d (%s): message of tx %d (block %d, block hash id %d, level %d, body %d) was forwarded although its receipt no longer points to the block of the log: the block left the chain, the transaction is back in the pool and the node answered eth_getTransactionReceipt with a pending-style receipt (status 1, blockHash null, blockNumber null - go-ethereum decodes that as the zero hash); the receipt lookup(s) of this step: %+v; head served %d. The statement allows forwarding only while the receipt still points to the same block; the pinned code drops such an entry ('tx got dropped and mined in a different block')",
				si, st.Op, l.Tx, keyBlock(inst), inst.bh, l.CL, m.Body, lookups, headNow)
			continue
		}
		if st.Op == "reobs" && st.Tx == l.Tx {
			rwhy := "no-receipt"
			for _, lk := range otherLookups {
				if lk.Kind != kindTx || lk.Tx != l.Tx || lk.Code != 2 {
					continue
				}
				switch {
				case lk.Status != 1:
					rwhy = "failed-tx"
				case lk.BH != bhOfTS(m.TS):
					rwhy = "other-block"
				case lk.Blk+e > lk.Head:
					rwhy = fmt.Sprintf("before-depth-at-receipt-time: receipt block %d + %d confirmations > %d, the node's head (finalized-height mode: %v) when the receipt was served", lk.Blk, e, lk.Head, sc.cfg.Finalized)
				default:
					reobsJ[key] = true
				}
			}
			reobsWhy[key] = rwhy
			if !reobsJ[key] && !scanJ[key] {
				sc.monf("safety:reobs:"+strings.SplitN(rwhy, ":", 2)[0], "step %d: re-observation of tx %d forwarded body %d (%s); lookups %+v", si, st.Tx, m.Body, rwhy, lookups)
				continue
			}
		}
		if !scanJ[key] && !reobsJ[key] {
			if n := sc.stats[fmt.Sprintf("fwdbody_%d", m.Body)]; why == "already-resolved" && n > 1 {
				why += fmt.Sprintf(": this message has now come out of the watcher %d times", n)
			}
			sc.monf("safety:"+strings.SplitN(why, ":", 2)[0], "step %d (%s): forwarded body %d of tx %d block %d level %d without justification (%s); head served %d; lookups %+v",
				si, st.Op, m.Body, l.Tx, keyBlock(inst), l.CL, why, headNow, lookups)
		}
	}
	for key, n := range got {
		max := 0
		if scanJ[key] {
			max++
		}
		if reobsJ[key] {
			max++
		}
		if max > 0 && n > max {
			if rw, isReobs := reobsWhy[key]; isReobs && !reobsJ[key] {
				sc.monf("safety:reobs:"+strings.SplitN(rw, ":", 2)[0], "step %d: re-observation of tx %d forwarded the message of seq %d (%s) in addition to the per-head scan; lookups %+v", si, key[0], key[3], rw, lookups)
			} else {
				sc.monf("safety:forwarded-twice", "step %d: message of tx %d seq %d forwarded %d times in one step", si, key[0], key[3], n)
			}
		}
	}
	// (a') hand-over under back-pressure: a scan that never completed (written off handOverDeadline after the reader had come back and Run
	// was up again).  A message whose receipt that scan looked up and found unchanged at sufficient depth was DECIDED: the watcher
	// removed it from w.pending and went to hand it over.  If nobody got it and it is not pending either, it is lost.
	for _, s := range scans {
		if !s.Abandoned {
			continue
		}
		lks := scanLk(s)
		for key, inst := range sc.insts {
			if !inst.awaiting {
				continue
			}
			e := sc.expected(inst.log.CL)
			decided := false
			for _, lk := range lks {
				if lk.Tx == inst.log.Tx && lk.Code == 2 && lk.Status == 1 && lk.BH == inst.bh && inst.block+e <= s.N {
					decided = true
				}
			}
			_, stillPending := pend[key]
			r := rcptOf(inst.log.Tx)
			if !decided || got[key] > 0 || stillPending || r == nil || r.Status != 1 || r.BH != inst.bh {
				continue
			}
			how, where := "lost while the hand-over was waiting for the processor", ""
			if parkedFrom != nil && parkedFrom.restart != nil {
				rw := parkedFrom.restart
				how = "lost across a restart of Run while the hand-over was waiting for the processor"
				where = fmt.Sprintf("; step %d: the node dropped the watcher's connections, Run returned (%v) and was re-entered by the supervisor, the reader stayed away for another %d ms (w.pendingMu free at that time: %v)",
					rw.step, sc.lastDeath.Load(), rw.awayMs, rw.lockFreeAfter)
			}
			from := si
			if parkedFrom != nil {
				from = parkedFrom.step
			}
			sc.monf("liveness:lost-in-hand-over", "message of tx %d (block %d, level %d, emitter %d, sequence %d) was confirmed at head %d (receipt looked up: status 1, same block) and handed to nobody: %s. Message channel unbuffered as in node.go, reader paused at step %d, head %d processed at step %d%s, reader back at step %d; %v later the message has not come out, it is not in w.pending (%v), the scan of head %d never completed (%d 'observation confirmed' line(s)), and the transaction never left its block",
				inst.log.Tx, inst.block, inst.log.CL, inst.log.Em, inst.log.Seq, s.N, how, sc.pausedAt, s.N, from, where, si, handOverDeadline, sortedPend(pend), s.N, countStr(s.Notes, "confirmed"))
			inst.awaiting = false
		}
	}
	// (b) liveness and drops, scan by scan
	for idx, s := range scans {
		last := idx == len(scans)-1
		lks := scanLk(s)
		for key, inst := range sc.insts {
			if !inst.awaiting {
				continue
			}
			if logOp != nil && key == logKey {
				touched := false
				for _, lk := range lks {
					if lk.Tx == inst.log.Tx {
						touched = true
					}
				}
				if !touched {
					continue // this scan ran before the log was inserted (or the message was not deep enough): nothing is expected of it
				}
			}
			e := sc.expected(inst.log.CL)
			if s.N < inst.block+e {
				continue
			}
			_, stillPending := pend[key]
			r := rcptOf(inst.log.Tx)
			past := s.N >= inst.block+e+sc.maxWait
			switch {
			case errInj(inst.log.Tx):
				if past {
					inst.awaiting = stillPending // either is allowed once the whole window has gone by
				} else if last && !stillPending && got[key] == 0 {
					sc.monf("liveness:transient-error-dropped", "step %d: tx %d (block %d, level %d) abandoned at head %d after a transient receipt error inside the abandonment window [%d, %d)",
						si, inst.log.Tx, inst.block, inst.log.CL, s.N, inst.block+e, inst.block+e+sc.maxWait)
					inst.awaiting = false
				}
			case r == nil || r.Status != 1 || r.BH != inst.bh:
				what := "orphaned"
				if r != nil && r.Status != 1 {
					what = "failed"
				} else if r != nil && r.Pooled {
					what = "back-in-the-pool"
				} else if r != nil {
					what = "re-mined"
				}
				if last && stillPending {
					sc.monf("drop:"+what+"-still-pending", "step %d: %s tx %d still pending after head %d", si, what, inst.log.Tx, s.N)
				}
				inst.awaiting = false
			default:
				if got[key] == 0 {
					k := "liveness:confirmed-not-forwarded"
					if past {
						k = "liveness:head-jump-past-window"
					}
					asked := 0
					for _, lk := range lks {
						if lk.Tx == inst.log.Tx {
							asked++
						}
					}
					how := "not forwarded"
					if !stillPending && asked == 0 {
						how = "ABANDONED WITHOUT A RECEIPT LOOKUP (the node was never asked to confirm it), not forwarded"
					}
					sc.monf(k, "step %d: confirmable message of tx %d (block %d, level %d, receipt unchanged: status 1, same block) %s at head %d, the first observed head >= %d; still pending: %v; receipt lookups for it in this scan: %d",
						si, inst.log.Tx, inst.block, inst.log.CL, how, s.N, inst.block+e, stillPending, asked)
				} else if last && stillPending {
					sc.monf("liveness:forwarded-still-pending", "step %d: tx %d forwarded but still pending", si, inst.log.Tx)
				}
				inst.awaiting = false
			}
		}
	}
	// (b') the watcher stopped processing heads although a confirmable message is pending (10 s without a scan at a 1 ms poll interval)
	if len(sc.harness) > 0 && strings.Contains(sc.harness[len(sc.harness)-1], "rendezvous timeout") {
		sim.mu.Lock()
		lastProc := sim.lastProcessed
		sim.mu.Unlock()
		for key, inst := range sc.insts {
			_, stillPending := pend[key]
			r := rcptOf(inst.log.Tx)
			if inst.awaiting && stillPending && lastProc < headNow && inst.block+sc.expected(inst.log.CL) <= headNow && r != nil && r.Status == 1 && r.BH == inst.bh {
				sc.monf("liveness:head-never-processed", "step %d (%s): the node's head is %d, the last head the watcher processed is %d (nothing for %v), tx %d (block %d, level %d, receipt unchanged) is still pending",
					si, st.Op, headNow, lastProc, rendezvousTimeout, inst.log.Tx, inst.block, inst.log.CL)
				break
			}
		}
	}
	// (x) the poller is off (reported by pendingWithPollerOff), the node's head is past the depth of a pending message whose receipt is
	// unchanged - and no head is processed: the property's liveness clause on this very message
	if sc.pollerOff && (st.Op == "head" || st.Op == "stall" || st.Op == "restart") && len(scans) == 0 {
		for key, inst := range sc.insts {
			_, stillPending := pend[key]
			r := rcptOf(inst.log.Tx)
			if inst.awaiting && stillPending && inst.log.Tx != sentinelTx && inst.block+sc.expected(inst.log.CL) <= headNow && r != nil && r.Status == 1 && r.BH == inst.bh {
				sc.monf("liveness:pending-with-poller-off", "step %d (%s): the node's head is %d, tx %d (block %d, level %d, receipt unchanged: status 1, same block) is pending and confirmable, the block poller is off and no head is processed until another log arrives",
					si, st.Op, headNow, inst.log.Tx, inst.block, inst.log.CL)
				break
			}
		}
	}
	// (c) pending set vs ground truth
	for key, inst := range sc.insts {
		if _, in := pend[key]; inst.awaiting && !in {
			sc.monf("liveness:pending-message-lost", "step %d (%s): tx %d (block %d, level %d) left w.pending although nothing resolved it (head %d)", si, st.Op, inst.log.Tx, inst.block, inst.log.CL, headNow)
			inst.awaiting = false
		}
	}
	for key := range pend {
		if inst := sc.insts[key]; inst == nil {
			sc.monf("safety:unexpected-pending", "step %d: w.pending holds a key that no core-contract log produced: %v", si, key)
		}
	}
}

// awaitRunUp: Run has returned; the supervisor re-enters it (after its back-off) on the same Watcher value.  Returns the model's
// restart operations (one per initial guardian-set fetch that was made).
func (sc *scen) awaitRunUp(si int, kill string, expected int64, subs0, calls0 int, runs0, deaths0 int64, pollsAtDeath uint64) ([]interface{}, bool) {
	sim := sc.sim
	var restartOps []interface{}
	// the supervisor re-enters Run (after its back-off) on the same Watcher value: wait until the last re-entry has subscribed to the
	// logs, fetched the guardian set (the last thing before the goroutines start) and its poller has read its first block
	okUp := waitUntil(3*rendezvousTimeout, func() bool {
		if sc.died.Load() != nil {
			return true
		}
		if atomic.LoadInt64(&sc.runs) < runs0+expected || atomic.LoadInt64(&sc.deaths) < deaths0+expected {
			return false
		}
		sim.mu.Lock()
		defer sim.mu.Unlock()
		okSet := 0 // the initial fetch of the last re-entry has been answered (the set call is its second call)
		for _, c := range sim.gs.calls[calls0:] {
			if c.Kind == "set" && !c.Err {
				okSet++
			}
		}
		return sim.subCount >= subs0+int(expected) && okSet >= 1 && sim.pollsArrived > pollsAtDeath
	})
	if !okUp {
		sim.mu.Lock()
		sc.harnessf("step %d: Run was not up again after %s (entered %d times since, returned %d times, subscriptions %d, guardian-set calls %+v)", si, kill,
			atomic.LoadInt64(&sc.runs)-runs0, atomic.LoadInt64(&sc.deaths)-deaths0, sim.subCount-subs0, sim.gs.calls[calls0:])
		sim.mu.Unlock()
		return nil, false
	}
	time.Sleep(100 * time.Millisecond)
	sc.stats["restarts"] += int(expected)
	if sc.pendingEmpty() {
		sc.pollerOff = true // nothing pending: the new poller stays off until the next log
	} else if sc.pollerAlive() {
		sc.pollerOff = false
	} else {
		sc.pendingWithPollerOff(fmt.Sprintf("step %d: Run returned (%s) and was re-entered on the same Watcher value", si, kill))
	}
	sim.mu.Lock()
	cs := append([]gsCall(nil), sim.gs.calls[calls0:]...)
	// the new poller takes the node's head at its start as its first lastBlock: a head it never publishes (as at the first start)
	if sim.head > sim.lastProcessed {
		sim.lastProcessed = sim.head
	}
	sim.mu.Unlock()
	for i := 0; i < len(cs); i++ {
		if cs[i].Kind != "idx" {
			continue
		}
		op := mRestart{T: "restart", AnsIdx: cs[i].Idx, Asked: -1, Keys: []int{}}
		if !cs[i].Err && i+1 < len(cs) && cs[i+1].Kind == "set" {
			op.Asked, op.SetErr = cs[i+1].Asked, cs[i+1].Err
			if !cs[i+1].Err {
				op.Keys = cs[i+1].Keys
			}
		}
		restartOps = append(restartOps, op)
	}
	return restartOps, true
}

func countStr(l []string, x string) int {
	n := 0
	for _, y := range l {
		if y == x {
			n++
		}
	}
	return n
}

func keyBlock(i *gtInst) uint64 {
	if i == nil {
		return 0
	}
	return i.block
}

func runScenario(sid int, cfg scenCfg, script []step) histRow {
	row := histRow{K: "hist", Sid: sid, Cfg: cfg, Script: script}
	sc, err := startScen(cfg)
	if err != nil {
		row.Harness = []string{"scenario start: " + err.Error()}
		return row
	}
	defer sc.stop()
	row.MaxWait = sc.maxWait
	row.Chain = uint16(sc.w.chainID)
	for i := range script {
		sc.runStep(i, &script[i])
		if len(sc.harness) > 0 {
			break
		}
	}
	sc.sim.mu.Lock()
	for k, v := range sc.sim.numStrs {
		sc.stats["poll_"+k] += v
		if (cfg.Finalized && k != "finalized") || (!cfg.Finalized && k != "latest" && k != "eth_blockNumber") {
			sc.monf("safety:head-source", "the watcher asked the node for block %q %d times (finalized-height mode: %v)", k, v, cfg.Finalized)
		}
	}
	sc.stats["polls_failed"] = int(sc.sim.pollsFailed)
	if sc.sim.pooledServed > 0 {
		sc.stats["receipts_served_without_block"] = sc.sim.pooledServed
	}
	sc.sim.mu.Unlock()
	for _, li := range sc.lost {
		sc.sim.mu.Lock()
		r := sc.sim.rcpts[li.log.Tx]
		head, lastProc := sc.sim.head, sc.maxScan
		sc.sim.mu.Unlock()
		reannounced := false
		for k := range sc.insts {
			if int(k[0]) == li.log.Tx && k[3] == li.log.Seq {
				reannounced = true
			}
		}
		if sc.stats[fmt.Sprintf("fwdbody_%d", li.log.Body)] == 0 && !reannounced && r != nil && r.Status == 1 && r.BH == li.bh && li.block+sc.expected(li.log.CL) <= lastProc {
			sc.monf("liveness:log-lost-on-blocktime-error", "the block-time lookup (eth_getBlockByHash) of the log of tx %d (block %d, level %d) failed once: Run returned and the log was never recorded; its receipt is unchanged (status 1, same block), the watcher has since processed head %d (node head %d) and the message was never forwarded",
				li.log.Tx, li.block, li.log.CL, lastProc, head)
		}
	}
	for k := range sc.stats {
		if strings.HasPrefix(k, "fwdbody_") {
			delete(sc.stats, k)
		}
	}
	row.Cur0, row.Exp = sc.cur0, sc.exp
	if row.Exp == nil {
		row.Exp = []string{}
	}
	row.Groups, row.Mon, row.Harness, row.Stats = sc.groups, sc.mon, sc.harness, sc.stats
	if row.Mon == nil {
		row.Mon = []string{}
	}
	if row.Harness == nil {
		row.Harness = []string{}
	}
	return row
}

// ---------------------------------------------------------------- script generation (depends on the seed only)
type genTx struct {
	id    int
	bh    int
	block uint64
	gone  bool
	logs  []int // bodies
}
type genLog struct {
	body  int
	tx    *genTx
	em    int
	seq   uint64
	cl    uint8
	bh    int // as last pushed
	block uint64
}

var clChoices = []uint8{0, 1, 1, 1, 2, 3, 5, 15, 15, 32, 64, 200, 255}

func genScript(r *erng, cfg *scenCfg, sentinel bool, maxWait uint64) []step {
	var out []step
	head := cfg.Head0
	var txs []*genTx
	var logs []*genLog
	nextBody, nextTx, nextBH := 1, 1, 1
	if sentinel {
		out = append(out, step{Op: "log", Tx: sentinelTx, Body: sentinelTx, Em: 9, Seq: 0, CL: 1, Block: sentinelHeight, BH: sentinelTx})
	}
	n := 8 + r.below(24)
	exp := func(cl uint8) uint64 {
		if cfg.Wait {
			return uint64(cl)
		}
		return 0
	}
	genPollerOff := false
	restartsLeft := 0
	if cfg.Restarts {
		restartsLeft = 1 + r.below(2)
	}
	for len(out) < n {
		if restartsLeft > 0 && len(logs) > 0 && r.chance(9) {
			// Run is made to return; the supervisor re-enters it on the same Watcher value
			restartsLeft--
			st := step{Op: "restart", Kill: "blocktime"}
			if sentinel && !genPollerOff && r.chance(35) {
				st.Kill = "pollfail" // needs a running poller: the sentinel keeps it on unless Run was re-entered and no log has arrived since
			}
			genPollerOff = true
			if st.Kill == "blocktime" {
				st.Tx, st.Body, st.Em, st.Seq, st.CL, st.Block, st.BH = nextTx, nextBody, 1+r.below(3), uint64(nextBody), clChoices[r.below(len(clChoices))], head, nextBH
				txs = append(txs, &genTx{id: nextTx, bh: nextBH, block: head, logs: []int{nextBody}})
				nextTx++
				nextBody++
				nextBH++
			}
			if r.chance(45) {
				st.Upg = []int{gsSizes[r.below(len(gsSizes))]}
				if r.chance(25) {
					st.Upg = append(st.Upg, gsSizes[r.below(len(gsSizes))])
				}
			}
			if restartsLeft > 0 && r.chance(30) {
				restartsLeft--
				st.GsFail = []string{"idx", "set"}[r.below(2)]
			}
			out = append(out, st)
			// the chain runs on while the new poller is off ...
			if r.chance(70) {
				l := logs[len(logs)-1-r.below(min(len(logs), 3))]
				to := l.block + exp(l.cl) + uint64(r.below(4))
				if r.chance(30) {
					to += maxWait + uint64(r.below(40))
				}
				if to > head {
					head = to
					out = append(out, step{Op: "head", To: to})
				}
			}
			continue
		}
		c := r.below(100)
		switch {
		case c < 28 || len(logs) == 0: // a new message
			var tx *genTx
			if len(txs) > 0 && r.chance(20) && !txs[len(txs)-1].gone {
				tx = txs[len(txs)-1]
			} else {
				blk := head
				switch r.below(10) {
				case 0:
					blk = head + uint64(1+r.below(3))
				case 1, 2:
					if head > 3 {
						blk = head - uint64(1+r.below(3))
					}
				case 3:
					if head > 100 && r.chance(50) {
						blk = head - uint64(50+r.below(40))
					}
				}
				tx = &genTx{id: nextTx, bh: nextBH, block: blk}
				nextTx++
				nextBH++
				txs = append(txs, tx)
			}
			l := &genLog{body: nextBody, tx: tx, em: 1 + r.below(3), seq: uint64(nextBody), cl: clChoices[r.below(len(clChoices))], bh: tx.bh, block: tx.block}
			nextBody++
			tx.logs = append(tx.logs, l.body)
			logs = append(logs, l)
			out = append(out, step{Op: "log", Tx: tx.id, Body: l.body, Em: l.em, Seq: l.seq, CL: l.cl, Block: tx.block, BH: tx.bh})
			genPollerOff = false
		case c < 68: // the head advances
			st := step{Op: "head"}
			to := head + 1
			switch k := r.below(100); {
			case k < 40:
			case k < 55:
				to = head + uint64(2+r.below(5))
			case k < 85 && len(logs) > 0:
				l := logs[len(logs)-1-r.below(min(len(logs), 3))]
				thr := l.block + exp(l.cl)
				if r.chance(35) {
					thr += maxWait
				}
				cand := thr + uint64(r.below(3)) - 1
				if cand > head {
					to = cand
				}
			default:
				to = head + uint64(30+r.below(300))
			}
			st.To = to
			head = to
			switch k := r.below(100); {
			case k < 10:
				st.ErrAll = true
			case k < 22 && len(logs) > 0:
				st.ErrTx = []int{logs[len(logs)-1-r.below(min(len(logs), 3))].tx.id}
			case k < 28:
				st.PollFail = 1 + r.below(2)
			}
			out = append(out, st)
		case c < 80: // reorg
			tx := txs[len(txs)-1-r.below(min(len(txs), 3))]
			st := step{Op: "reorg", Tx: tx.id}
			switch r.below(4) {
			case 0:
				st.How = "gone"
				tx.gone = true
			case 1:
				st.How = "failed"
			case 2:
				st.How = "moved"
				tx.bh = nextBH
				nextBH++
				if r.chance(50) {
					tx.block++
				}
				tx.gone = false
				st.BH, st.Block = tx.bh, tx.block
			default:
				st.How = "ok"
				tx.gone = false
				st.BH, st.Block = tx.bh, tx.block
			}
			out = append(out, st)
			if st.How == "moved" && r.chance(60) {
				// the node announces the log again in its new block
				for _, l := range logs {
					if l.tx == tx {
						l.bh, l.block = tx.bh, tx.block
						out = append(out, step{Op: "log", Tx: tx.id, Body: l.body, Em: l.em, Seq: l.seq, CL: l.cl, Block: tx.block, BH: tx.bh})
					}
				}
			}
		case c < 84: // the node repeats a log it has already announced
			l := logs[len(logs)-1-r.below(min(len(logs), 3))]
			out = append(out, step{Op: "log", Tx: l.tx.id, Body: l.body, Em: l.em, Seq: l.seq, CL: l.cl, Block: l.block, BH: l.bh})
		case c < 95: // re-observation request
			st := step{Op: "reobs"}
			if r.chance(12) {
				st.Tx = 800000 + r.below(1000)
			} else {
				st.Tx = txs[r.below(len(txs))].id
			}
			switch k := r.below(100); {
			case k < 8:
				st.HeadErr = true
			case k < 16:
				st.RcptErr = true
			case k < 24:
				st.BbhErr = true
			case k < 55:
				st.Bump = uint64(1 + r.below(4))
				if r.chance(30) {
					st.Bump = uint64(10 + r.below(300))
				}
			}
			if r.chance(45) {
				kinds := []string{"foreignaddr", "othertopic", "legit"}
				for j := 0; j < 1+r.below(2); j++ {
					st.Extras = append(st.Extras, extraLog{Kind: kinds[r.below(3)], Body: nextBody, Em: 1 + r.below(3), Seq: uint64(nextBody), CL: clChoices[r.below(len(clChoices))]})
					nextBody++
				}
			}
			head += st.Bump // upper bound of the node's head for the generator's purposes
			out = append(out, st)
		case c < 97:
			out = append(out, step{Op: "foreign", Tx: nextTx, Body: nextBody, Em: 1, Seq: uint64(nextBody), CL: 1, Block: head, BH: nextBH})
			nextTx++
			nextBody++
			nextBH++
		default:
			out = append(out, step{Op: "stall"})
		}
	}
	// let everything that can still resolve do so
	out = append(out, step{Op: "head", To: head + 1}, step{Op: "head", To: head + 300}, step{Op: "head", To: head + 301})
	return out
}

// withReaderAway wraps fault-free head steps into pause-reader / head / resume-reader: whatever that head confirms is handed over
// only when the reader is back (the steps in between are judged as one)
func withReaderAway(r *erng, in []step) []step {
	var out []step
	for _, st := range in {
		if st.Op == "head" && !st.ErrAll && len(st.ErrTx) == 0 && st.PollFail == 0 && r.chance(45) {
			out = append(out, step{Op: "pause-reader"}, st)
			if r.chance(25) {
				out = append(out, step{Op: "stall"})
			}
			out = append(out, step{Op: "resume-reader"})
			continue
		}
		out = append(out, st)
	}
	return out
}

func min(a, b int) int {
	if a < b {
		return a
	}
	return b
}

// fixed histories that are run on every invocation (witnesses of the defects found while designing the check, and basic cases)
func corpus() []struct {
	cfg    scenCfg
	script []step
} {
	type S = struct {
		cfg    scenCfg
		script []step
	}
	lg := func(tx, body int, blk uint64, cl uint8) step {
		return step{Op: "log", Tx: tx, Body: body, Em: 1, Seq: uint64(body), CL: cl, Block: blk, BH: tx}
	}
	hd := func(to uint64) step { return step{Op: "head", To: to} }
	pause, resume := step{Op: "pause-reader"}, step{Op: "resume-reader"}
	return []S{
		{scenCfg{Wait: true, Head0: 990, PollMs: 1, Name: "jump-past-window"}, []step{lg(1, 1, 1000, 1), hd(1065), hd(1066)}},
		{scenCfg{Wait: true, Head0: 990, PollMs: 1, Name: "jump-to-window-end-exactly"}, []step{lg(1, 1, 1000, 1), hd(1061), hd(1062)}},
		{scenCfg{Wait: true, Head0: 990, PollMs: 1, Name: "jump-just-inside-window"}, []step{lg(1, 1, 1000, 1), hd(1060), hd(1061)}},
		{scenCfg{Wait: false, Finalized: true, Head0: 990, PollMs: 1, Name: "finality-catches-up"}, []step{lg(1, 1, 1000, 1), hd(995), hd(1070), hd(1071)}},
		{scenCfg{Wait: true, Head0: 999, PollMs: 1, Name: "one-transient-error-at-first-ready-head"},
			[]step{lg(1, 1, 1000, 1), hd(1000), {Op: "head", To: 1001, ErrAll: true}, hd(1002), hd(1003)}},
		{scenCfg{Wait: true, Head0: 999, PollMs: 1, Name: "transient-errors-for-the-whole-window"},
			[]step{lg(1, 1, 1000, 1), {Op: "head", To: 1001, ErrAll: true}, {Op: "head", To: 1030, ErrAll: true}, {Op: "head", To: 1060, ErrAll: true},
				{Op: "head", To: 1061, ErrAll: true}, hd(1062)}},
		{scenCfg{Wait: true, Head0: 999, PollMs: 1, Name: "step-by-step"}, []step{lg(1, 1, 1000, 2), hd(1000), hd(1001), hd(1002), hd(1003)}},
		{scenCfg{Wait: true, Head0: 999, PollMs: 1, Name: "orphaned-remined-failed"},
			[]step{lg(1, 1, 1000, 1), lg(2, 2, 1000, 1), lg(3, 3, 1000, 1), lg(4, 4, 1000, 1), {Op: "reorg", Tx: 1, How: "gone"}, {Op: "reorg", Tx: 2, How: "moved", BH: 77, Block: 1000},
				{Op: "reorg", Tx: 3, How: "failed"}, hd(1001), hd(1002)}},
		{scenCfg{Wait: true, Head0: 1000, PollMs: 1, Name: "reobs-depth-and-filters"},
			[]step{lg(1, 1, 1000, 2), {Op: "reobs", Tx: 1}, {Op: "reobs", Tx: 1, Bump: 5}, {Op: "reobs", Tx: 1, Extras: []extraLog{{Kind: "foreignaddr", Body: 50, Em: 1, Seq: 50, CL: 0}, {Kind: "legit", Body: 51, Em: 2, Seq: 51, CL: 0}}},
				{Op: "reobs", Tx: 1, Bump: 1}, hd(1010)}},
		{scenCfg{Wait: false, Finalized: true, Head0: 100, PollMs: 1, Name: "finality-stalls-then-jumps"}, []step{lg(1, 1, 130, 1), hd(195), hd(196)}},
		{scenCfg{Wait: false, Finalized: true, Head0: 1000, PollMs: 1, Name: "reobs-mined-but-not-final"},
			[]step{lg(1, 1, 1020, 1), {Op: "reobs", Tx: 1}, hd(1019), {Op: "reobs", Tx: 1}, hd(1025), {Op: "reobs", Tx: 1}}},
		{scenCfg{Wait: false, Finalized: true, Head0: 1000, PollMs: 1, Name: "reobs-not-final-nothing-pending"},
			[]step{{Op: "log", Tx: 1, Body: 1, Em: 1, Seq: 1, CL: 1, Block: 1000, BH: 1}, hd(1001), {Op: "reorg", Tx: 1, How: "moved", BH: 9, Block: 1030}, {Op: "reobs", Tx: 1}, hd(1031), {Op: "reobs", Tx: 1}}},
		{scenCfg{Wait: false, Head0: 1000, PollMs: 1, Name: "no-wait-mode"}, []step{lg(1, 1, 1001, 200), hd(1001), lg(2, 2, 1001, 15), hd(1002)}},
		// a young chain: the head number is below the message's consistency level (unsigned arithmetic must not wrap): forwarded at head 18, not before
		{scenCfg{Wait: true, Head0: 1, PollMs: 1, Name: "young-chain-head-below-the-consistency-level"},
			[]step{lg(1, 1, 3, 15), hd(3), hd(4), hd(10), hd(17), hd(18), hd(19)}},
		// sibling reorg: the transaction moves from block hash 1 to block hash 9 at the same height; the log of the REPLACING block arrives first,
		// then the node's removed-notice for the old block: the message stays in its (new) block and is forwarded exactly once
		{scenCfg{Wait: true, Head0: 999, PollMs: 1, Sentinel: true, Name: "removed-notice-after-the-replacing-log"},
			[]step{{Op: "log", Tx: sentinelTx, Body: sentinelTx, Em: 9, Seq: 0, CL: 1, Block: sentinelHeight, BH: sentinelTx},
				{Op: "log", Tx: 1, Body: 1, Em: 1, Seq: 1, CL: 2, Block: 1000, BH: 1}, {Op: "reorg", Tx: 1, How: "moved", BH: 9, Block: 1000},
				{Op: "log", Tx: 1, Body: 1, Em: 1, Seq: 1, CL: 2, Block: 1000, BH: 9}, {Op: "log", Tx: 1, Body: 1, Em: 1, Seq: 1, CL: 2, Block: 1000, BH: 1, Rm: true},
				hd(1001), hd(1002), hd(1003)}},
		// sequences are counted per emitter: two emitters publish their first message (sequence 0) in ONE transaction, a third message of
		// emitter 1 follows; all three are pending under (tx, block, emitter, sequence) and each must be forwarded exactly once
		{scenCfg{Wait: true, Head0: 999, PollMs: 1, Name: "two-emitters-same-sequence-in-one-transaction"},
			[]step{{Op: "log", Tx: 1, Body: 1, Em: 1, Seq: 0, CL: 1, Block: 1000, BH: 1}, {Op: "log", Tx: 1, Body: 2, Em: 2, Seq: 0, CL: 1, Block: 1000, BH: 1},
				{Op: "log", Tx: 1, Body: 3, Em: 1, Seq: 1, CL: 2, Block: 1000, BH: 1}, hd(1001), hd(1002), hd(1003)}},
		// the head that confirms message 1 (and empties w.pending: DisablePoller) is processed while the block-time lookup of log 2 is in
		// flight: log 2 must still be inserted with the poller switched on
		{scenCfg{Wait: true, Head0: 999, PollMs: 1, Name: "log-inserted-while-pending-empties"},
			[]step{lg(1, 1, 1000, 1), {Op: "log", Tx: 2, Body: 2, Em: 1, Seq: 2, CL: 1, Block: 1001, BH: 2, Hold: true, To: 1001}, hd(1002), hd(1003),
				lg(3, 3, 1003, 1), {Op: "log", Tx: 4, Body: 4, Em: 1, Seq: 4, CL: 2, Block: 1004, BH: 4, Hold: true, To: 1005}, hd(1006), hd(1007)}},
		// ---- extension X4: Run returns (errC) and the supervisor re-enters it on the same Watcher value
		{scenCfg{Wait: true, Head0: 999, PollMs: 1, Name: "restart-pending-survives-poller-off-until-next-log"},
			[]step{lg(1, 1, 1000, 2), hd(1001), {Op: "restart", Kill: "blocktime", Tx: 2, Body: 2, Em: 1, Seq: 2, CL: 1, Block: 1001, BH: 2},
				hd(1002), hd(1100), {Op: "stall"}, lg(3, 3, 1100, 1), hd(1101), hd(1102)}},
		{scenCfg{Wait: true, Head0: 999, PollMs: 1, Name: "restart-new-guardian-set-sent-once"},
			[]step{lg(1, 1, 1000, 1), {Op: "restart", Kill: "blocktime", Tx: 2, Body: 2, Em: 1, Seq: 2, CL: 1, Block: 1000, BH: 2, Upg: []int{3}},
				{Op: "restart", Kill: "blocktime", Tx: 3, Body: 3, Em: 1, Seq: 3, CL: 1, Block: 1000, BH: 3}, lg(4, 4, 1001, 1), hd(1002), hd(1003)}},
		{scenCfg{Wait: true, Head0: 999, PollMs: 1, Name: "restart-initial-fetch-fails-then-succeeds"},
			[]step{lg(1, 1, 1000, 1), {Op: "restart", Kill: "blocktime", Tx: 2, Body: 2, Em: 1, Seq: 2, CL: 1, Block: 1000, BH: 2, Upg: []int{2, 19}, GsFail: "set"},
				lg(3, 3, 1001, 1), hd(1002), {Op: "restart", Kill: "blocktime", Tx: 4, Body: 4, Em: 1, Seq: 4, CL: 1, Block: 1002, BH: 4, GsFail: "idx"}, hd(1010)}},
		{scenCfg{Wait: true, Head0: 999, PollMs: 1, Sentinel: true, Name: "restart-after-three-failed-polls"},
			[]step{{Op: "log", Tx: sentinelTx, Body: sentinelTx, Em: 9, Seq: 0, CL: 1, Block: sentinelHeight, BH: sentinelTx}, lg(1, 1, 1000, 2), hd(1001),
				{Op: "restart", Kill: "pollfail", Upg: []int{0}}, hd(1002), lg(2, 2, 1002, 1), hd(1003), hd(1004)}},
		{scenCfg{Wait: true, Head0: 999, PollMs: 1, Name: "restart-lost-log-reannounced-later"},
			[]step{{Op: "restart", Kill: "blocktime", Tx: 1, Body: 1, Em: 1, Seq: 1, CL: 1, Block: 1000, BH: 1}, hd(1005), lg(1, 1, 1000, 1), hd(1006), hd(1007)}},
		{scenCfg{Wait: true, Head0: 999, PollMs: 1, Name: "restart-orphaned-while-down"},
			[]step{lg(1, 1, 1000, 1), lg(2, 2, 1000, 1), {Op: "restart", Kill: "blocktime", Tx: 3, Body: 3, Em: 1, Seq: 3, CL: 1, Block: 1000, BH: 3},
				{Op: "reorg", Tx: 1, How: "gone"}, {Op: "reobs", Tx: 3}, hd(1100), lg(4, 4, 1100, 1), hd(1101), hd(1102)}},
		// ---- a reorg puts the transaction back into the pool and the node answers eth_getTransactionReceipt with a receipt that names no
		// block (status 1, blockHash null, blockNumber null): the receipt no longer points to the block of the log, the message must not be
		// forwarded (the pinned code drops the entry as re-mined at the first head that is deep enough); re-mined later and announced
		// again, it is forwarded once from its new block
		{scenCfg{Wait: true, Head0: 999, PollMs: 1, Name: "pooled-receipt-without-block"},
			[]step{lg(1, 1, 1000, 2), lg(2, 2, 1000, 1), hd(1001), {Op: "reorg", Tx: 1, How: "pooled"}, hd(1002), hd(1003),
				{Op: "reorg", Tx: 1, How: "moved", BH: 9, Block: 1003}, {Op: "log", Tx: 1, Body: 1, Em: 1, Seq: 1, CL: 2, Block: 1003, BH: 9}, hd(1004), hd(1005), hd(1006)}},
		{scenCfg{Wait: true, Head0: 999, PollMs: 1, Sentinel: true, Name: "pooled-receipt-before-and-past-the-depth"},
			[]step{{Op: "log", Tx: sentinelTx, Body: sentinelTx, Em: 9, Seq: 0, CL: 1, Block: sentinelHeight, BH: sentinelTx},
				lg(1, 1, 1000, 5), lg(2, 2, 1000, 15), {Op: "reorg", Tx: 1, How: "pooled"}, {Op: "reorg", Tx: 2, How: "pooled"}, hd(1003), hd(1004), hd(1005), hd(1006),
				{Op: "head", To: 1015, ErrTx: []int{2}}, hd(1080), hd(1081)}},
		{scenCfg{Wait: false, Finalized: true, Head0: 990, PollMs: 1, Name: "pooled-receipt-finalized-mode"},
			[]step{lg(1, 1, 1000, 1), {Op: "reorg", Tx: 1, How: "pooled"}, hd(999), hd(1000), hd(1001)}},
		// the re-observation path for such a transaction: the receipt's block hash decodes as the zero hash, no block has it, the
		// block-time lookup fails and nothing is forwarded; once re-mined and deep enough, the re-observation forwards it
		{scenCfg{Wait: true, Head0: 1000, PollMs: 1, Name: "pooled-receipt-reobservation"},
			[]step{lg(1, 1, 1000, 1), {Op: "reorg", Tx: 1, How: "pooled"}, {Op: "reobs", Tx: 1}, {Op: "reobs", Tx: 1, Bump: 3}, hd(1004), {Op: "reobs", Tx: 1},
				{Op: "reorg", Tx: 1, How: "moved", BH: 9, Block: 1004}, {Op: "reobs", Tx: 1}, {Op: "reobs", Tx: 1, Bump: 2}, {Op: "reobs", Tx: 1}}},
		// ---- hand-over under back-pressure: the message channel is unbuffered (as lockC in node.go) and the reader (the processor) is busy
		// (a) confirmed while the reader is away, reader back later: exactly once; a message confirmed with the reader present in between
		{scenCfg{Wait: true, Head0: 999, PollMs: 1, SlowReader: true, Name: "handover-reader-away-then-back"},
			[]step{lg(1, 1, 1000, 1), hd(1000), pause, hd(1001), {Op: "stall", DelayMs: 1200}, resume, lg(2, 2, 1001, 1), hd(1002), pause, lg(3, 3, 1002, 2), hd(1003), resume, hd(1004), hd(1005)}},
		// (b) the seeded situation: confirmed while the reader is away, Run returns for an unrelated reason (the node drops the connections)
		// while the send is parked, the supervisor re-enters Run, the reader is back 1.5 s later: exactly once, and later messages still flow
		{scenCfg{Wait: true, Head0: 999, PollMs: 1, SlowReader: true, Name: "handover-run-restarted-while-parked"},
			[]step{lg(1, 1, 1000, 1), pause, hd(1001), {Op: "restart", Kill: "dropconn", DelayMs: 1500}, resume, hd(1002), lg(2, 2, 1002, 1), hd(1003), hd(1004)}},
		{scenCfg{Wait: false, Finalized: true, Head0: 999, PollMs: 1, SlowReader: true, Name: "handover-run-restarted-while-parked-finalized-mode"},
			[]step{lg(1, 1, 1000, 1), lg(2, 2, 1005, 1), pause, hd(1001), {Op: "restart", Kill: "dropconn", DelayMs: 1000, Upg: []int{3}}, resume, hd(1004), hd(1005), lg(3, 3, 1005, 1), hd(1006)}},
		// (c) two messages confirmed in one scan with the reader away: both exactly once (reader back / one message read, then Run
		// restarted while the second is parked)
		{scenCfg{Wait: true, Head0: 999, PollMs: 1, SlowReader: true, Name: "handover-two-messages-in-one-scan"},
			[]step{lg(1, 1, 1000, 1), lg(2, 2, 1000, 1), lg(3, 3, 1000, 5), pause, hd(1001), resume, hd(1002), hd(1005), hd(1006)}},
		{scenCfg{Wait: true, Head0: 999, PollMs: 1, SlowReader: true, Name: "handover-two-messages-one-read-then-restart"},
			[]step{lg(1, 1, 1000, 1), lg(2, 2, 1000, 1), pause, hd(1001), {Op: "read", N: 1}, {Op: "restart", Kill: "dropconn", DelayMs: 1200}, resume, lg(3, 3, 1001, 1), hd(1002), hd(1003)}},
		// a restart by a dropped connection with the reader present (nothing parked): pending survives, forwarded by the re-entered Run
		{scenCfg{Wait: true, Head0: 999, PollMs: 1, SlowReader: true, Name: "handover-dropped-connection-reader-present"},
			[]step{lg(1, 1, 1000, 3), hd(1001), {Op: "restart", Kill: "dropconn"}, hd(1002), hd(1003), hd(1004)}},
	}
}

var machineryFailures int64

func TestVerifC10(t *testing.T) {
	out := newEvmOut(t)
	defer out.close()
	type job struct {
		sid    int
		cfg    scenCfg
		script []step
	}
	var jobs []job
	if p := os.Getenv("VERIF_C10_REPLAY"); p != "" {
		raw, err := os.ReadFile(p)
		if err != nil {
			t.Fatal(err)
		}
		var rp struct {
			Cfg    scenCfg `json:"cfg"`
			Script []step  `json:"script"`
		}
		if err := json.Unmarshal(raw, &rp); err != nil || len(rp.Script) == 0 {
			t.Fatalf("replay file: %v", err)
		}
		if rp.Cfg.PollMs == 0 {
			rp.Cfg.PollMs = 1
		}
		jobs = append(jobs, job{0, rp.Cfg, rp.Script})
	} else {
		for i, c := range corpus() {
			jobs = append(jobs, job{i, c.cfg, c.script})
		}
		n := 600
		if evmThorough() {
			n = 6000
		}
		if evmThorough() || os.Getenv("VERIF_C10_TICKER") == "1" {
			// free-running scenarios with the real 15 s guardian-set ticker (about a minute each, run first so that they overlap the rest)
			for i := 0; i < 3; i++ {
				jobs = append([]job{{50 + i, scenCfg{Wait: true, Head0: uint64(1000 + i), PollMs: 1, Name: fmt.Sprintf("ticker-%d", i)}, nil}}, jobs...)
			}
		}
		probe := NewEthWatcher("", evmContract, "", "", 0, nil, nil, nil, true, nil, false)
		for i := 0; i < n; i++ {
			r := &erng{s: evmSeed()*1000003 + uint64(i)*7919 + 17}
			cfg := scenCfg{Wait: r.chance(65), Finalized: r.chance(25), Head0: uint64(1000 + r.below(200)), PollMs: 1, Name: fmt.Sprintf("gen-%d", i)}
			cfg.Sentinel = r.chance(70)
			cfg.Restarts = r.chance(30)
			script := genScript(r, &cfg, cfg.Sentinel, probe.maxWaitConfirmations)
			// in a tenth of the histories the node is one that serves pending-style receipts: transactions that a reorg removed are (mostly)
			// back in the pool and their receipt names no block (a generator of its own again)
			r3 := &erng{s: evmSeed()*1000000007 + uint64(i)*15485863 + 29}
			if r3.chance(10) {
				for k := range script {
					if script[k].Op == "reorg" && script[k].How == "gone" && r3.chance(65) {
						script[k].How = "pooled"
					}
				}
			}
			// hand-over under back-pressure in a few generated histories (drawn from a generator of its own: the other histories of a
			// seed stay what they were): unbuffered message channel, and the reader is away while some of the heads are processed
			r2 := &erng{s: evmSeed()*998244353 + uint64(i)*104729 + 71}
			if r2.chance(6) {
				cfg.SlowReader = true
				script = withReaderAway(r2, script)
			}
			jobs = append(jobs, job{100 + i, cfg, script})
		}
	}
	if only := os.Getenv("VERIF_C10_ONLY"); only != "" {
		// debugging aid: only the histories whose name contains the given text
		var keep []job
		for _, j := range jobs {
			if strings.Contains(j.cfg.Name, only) {
				keep = append(keep, j)
			}
		}
		jobs = keep
	}
	workers := 12
	var wg sync.WaitGroup
	ch := make(chan job)
	for w := 0; w < workers; w++ {
		wg.Add(1)
		go func() {
			defer wg.Done()
			for j := range ch {
				if atomic.LoadInt64(&machineryFailures) >= 24 {
					continue // the watcher does not respond any more: the histories run so far show it, the rest would only wait for timeouts
				}
				var row histRow
				if strings.HasPrefix(j.cfg.Name, "ticker-") {
					row = runTickerScenario(j.sid, j.cfg, j.sid)
				} else {
					row = runScenario(j.sid, j.cfg, j.script)
				}
				if len(row.Harness) > 0 {
					atomic.AddInt64(&machineryFailures, 1)
				}
				out.emit(row)
			}
		}()
	}
	for _, j := range jobs {
		ch <- j
	}
	close(ch)
	wg.Wait()
}
