//go:build verif

package ethereum

// C10, block poller: the REAL BlockPollConnector.pollBlocks driven with scripted answers of eth_getBlockByNumber.
// Per case: the first lastBlock, then for every poll the answer, the lastBlock returned, what was published on the block
// feed (number, Safe flag), whether an error was returned, and the block tag that was requested.

import (
	"context"
	"encoding/json"
	"errors"
	"fmt"
	"math/big"
	"sync/atomic"
	"testing"

	ethcommon "github.com/ethereum/go-ethereum/common"
	"github.com/ethereum/go-ethereum/common/hexutil"
	"go.uber.org/zap"
)

type pollAns struct {
	Kind string `json:"kind"` // num | err | nonum
	N    string `json:"n"`    // decimal
}

type scriptConn struct {
	DummyConnector
	next pollAns
	tags []string
}

func (c *scriptConn) RawCallContext(ctx context.Context, result interface{}, method string, args ...interface{}) error {
	if method != "eth_getBlockByNumber" {
		return fmt.Errorf("verif: unexpected method %s", method)
	}
	if len(args) > 0 {
		c.tags = append(c.tags, fmt.Sprint(args[0]))
	}
	switch c.next.Kind {
	case "err":
		return errors.New("verif: injected RPC failure")
	case "nonum":
		return json.Unmarshal([]byte(`{"hash": "`+ethcommon.Hash{}.Hex()+`"}`), result)
	}
	n, _ := new(big.Int).SetString(c.next.N, 10)
	raw := fmt.Sprintf(`{"number": "%s", "hash": "%s"}`, hexutil.EncodeBig(n), hID(kindHead, n.Uint64()).Hex())
	return json.Unmarshal([]byte(raw), result)
}

type pollStep struct {
	Ans  pollAns    `json:"ans"`
	Last string     `json:"last"` // lastBlock returned
	Pub  [][]string `json:"pub"`  // published: [number, "true"/"false" (Safe)]
	Err  bool       `json:"err"`
	Tag  string     `json:"tag"`
}

type pollRow struct {
	K         string     `json:"k"`
	Finalized bool       `json:"finalized"`
	First     string     `json:"first"`
	Steps     []pollStep `json:"steps"`
	Panic     string     `json:"panic,omitempty"`
}

func runPollCase(first *big.Int, finalized bool, answers []pollAns) (row pollRow) {
	row = pollRow{K: "poll", Finalized: finalized, First: first.String()}
	defer func() {
		if r := recover(); r != nil {
			row.Panic = fmt.Sprint(r)
		}
	}()
	conn := &scriptConn{}
	b := &BlockPollConnector{Connector: conn, Delay: 0, enabled: &atomic.Bool{}, useFinalized: finalized}
	sink := make(chan *NewBlock, 16)
	sub := b.blockFeed.Subscribe(sink)
	defer sub.Unsubscribe()
	logger := zap.NewNop()
	last := &NewBlock{Number: new(big.Int).Set(first), Hash: hID(kindHead, first.Uint64())}
	for _, a := range answers {
		conn.next = a
		conn.tags = nil
		nl, err := b.pollBlocks(context.Background(), logger, last, false)
		st := pollStep{Ans: a, Err: err != nil, Pub: [][]string{}}
		if nl == nil || nl.Number == nil {
			st.Last = "nil"
		} else {
			st.Last = nl.Number.String()
			last = nl
		}
	drain:
		for {
			select {
			case p := <-sink:
				st.Pub = append(st.Pub, []string{p.Number.String(), fmt.Sprint(p.Safe)})
			default:
				break drain
			}
		}
		if len(conn.tags) == 1 {
			st.Tag = conn.tags[0]
		} else {
			st.Tag = fmt.Sprint(conn.tags)
		}
		row.Steps = append(row.Steps, st)
	}
	return row
}

func TestVerifC10Poller(t *testing.T) {
	out := newEvmOut(t)
	defer out.close()
	n := 400
	if evmThorough() {
		n = 5000
	}
	big64 := new(big.Int).Lsh(big.NewInt(1), 64)
	for i := 0; i < n; i++ {
		r := &erng{s: evmSeed()*7777 + uint64(i)*104729 + 3}
		base := big.NewInt(int64(r.below(2000)))
		switch r.below(8) {
		case 0:
			base = new(big.Int).Sub(big64, big.NewInt(int64(r.below(4)))) // around 2^64: big.Int comparison, no wrap
		case 1:
			base = big.NewInt(0)
		}
		cur := new(big.Int).Set(base)
		var answers []pollAns
		for j := 0; j < 3+r.below(12); j++ {
			switch k := r.below(100); {
			case k < 12:
				answers = append(answers, pollAns{Kind: "err"})
			case k < 16:
				answers = append(answers, pollAns{Kind: "nonum"})
			default:
				switch r.below(6) {
				case 0: // same block again
				case 1: // the node answers with an older block (load balancer behind)
					d := big.NewInt(int64(1 + r.below(3)))
					if cur.Cmp(d) >= 0 {
						answers = append(answers, pollAns{Kind: "num", N: new(big.Int).Sub(cur, d).String()})
						continue
					}
				case 2:
					cur = new(big.Int).Add(cur, big.NewInt(int64(2+r.below(400))))
				default:
					cur = new(big.Int).Add(cur, big.NewInt(1))
				}
				answers = append(answers, pollAns{Kind: "num", N: cur.String()})
			}
		}
		out.emit(runPollCase(base, r.chance(30), answers))
	}
}
