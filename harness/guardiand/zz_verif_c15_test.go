//go:build verif

package guardiand

// C15 harness: calls the nine request->VAA conversion functions of adminserver.go and InjectGovernanceVAA on requests
// with field values across and beyond their wire ranges, records what came out (one JSON line per call) and evaluates
// the property statement directly on the result (Go-side monitors, independent of the Coq model):
//   - a produced VAA comes from the configured governance emitter, consistency level 32, envelope = the request's values
//   - the contract parsers (interpreted from the .ral text, zz_verif_ral_test.go) accept the payload's module/action,
//     their size assertion holds and they return exactly the requested values as unbounded integers / byte strings
//   - the same request gives the same digest; InjectGovernanceVAA's digests are keccak256(keccak256(body)) of what it
//     put on injectC; no call panics.

import (
	"bytes"
	"context"
	"encoding/binary"
	"encoding/hex"
	"fmt"
	"math/big"
	"strings"
	"testing"
	"time"

	nodev1 "github.com/alephium/wormhole-fork/node/pkg/proto/node/v1"
	"github.com/alephium/wormhole-fork/node/pkg/vaa"
	"go.uber.org/zap"
)

// ---------------------------------------------------------------- compact request description (also the replay format)

// a string field: raw prefix bytes ++ hex encoding (upper case if Up) of the N bytes byte(A + i*B) ++ raw suffix bytes
type vS struct {
	Pre string `json:"pre"` // hex of the raw prefix bytes
	N   int    `json:"n"`
	A   int    `json:"a"`
	B   int    `json:"b"`
	Up  bool   `json:"up"`
	Suf string `json:"suf"` // hex of the raw suffix bytes
}

func vLit(s string) *vS { return &vS{Pre: hex.EncodeToString([]byte(s))} }
func vHexGen(n, a, b int, up bool, suf string) *vS {
	return &vS{N: n, A: a, B: b, Up: up, Suf: hex.EncodeToString([]byte(suf))}
}
func (s *vS) str() string {
	if s == nil {
		return ""
	}
	pre, _ := hex.DecodeString(s.Pre)
	suf, _ := hex.DecodeString(s.Suf)
	digits := "0123456789abcdef"
	if s.Up {
		digits = "0123456789ABCDEF"
	}
	var sb strings.Builder
	sb.Grow(len(pre) + 2*s.N + len(suf))
	sb.Write(pre)
	for i := 0; i < s.N; i++ {
		b := byte(s.A + i*s.B)
		sb.WriteByte(digits[b>>4])
		sb.WriteByte(digits[b&15])
	}
	sb.Write(suf)
	return sb.String()
}

// sequences: L ++ [A + i*B mod 2^64 | i < N]
type vSeqs struct {
	L []uint64 `json:"l"`
	N int      `json:"n"`
	A uint64   `json:"a"`
	B uint64   `json:"b"`
}

func (q *vSeqs) list() []uint64 {
	if q == nil {
		return nil
	}
	out := append([]uint64{}, q.L...)
	for i := 0; i < q.N; i++ {
		out = append(out, q.A+uint64(i)*q.B)
	}
	return out
}

type vMsg struct {
	Kind   string  `json:"kind"` // guardian_set message_fee transfer_fee contract_upgrade register_chain bridge_upgrade destroy min_level refund unset
	Nonce  uint32  `json:"nonce"`
	Seq    uint64  `json:"seq"`
	TChain uint32  `json:"tchain"`
	Keys   []*vS   `json:"keys,omitempty"` // guardian pubkeys
	S1     *vS     `json:"s1,omitempty"`   // fee | amount | payload | module | refund address
	S2     *vS     `json:"s2,omitempty"`   // recipient | emitter address | payload (bridge upgrade)
	X      uint32  `json:"x"`              // chain id | emitter chain | consistency level
	Seqs   *vSeqs  `json:"seqs,omitempty"`
}

type vSent struct {
	Gsidx   uint32 `json:"gsidx"`
	Ts      int64  `json:"ts"`
	Nonce   uint32 `json:"nonce"`
	Seq     uint64 `json:"seq"`
	EChain  uint16 `json:"echain"`
	TChain  uint16 `json:"tchain"`
	EAddr   string `json:"eaddr"`
	CL      uint8  `json:"cl"`
	PLen    int    `json:"plen"`
	Payload string `json:"payload,omitempty"` // only when at most 4096 bytes
	Marshal string `json:"marshal"`
	Digest  string `json:"digest"`
	// what the harness's interpreter of the .ral text did with the payload (entry point, abort reason, values of the
	// variables it computed: "n:<decimal>" or "b:<hex>", byte strings of at most 4096 bytes only)
	RalFn    string            `json:"ral_fn,omitempty"`
	RalAbort string            `json:"ral_abort,omitempty"`
	Ral      map[string]string `json:"ral,omitempty"`
	// the same for damaged copies of the payload (one byte shorter / longer, a flipped bit in the first field bytes, cut
	// after the action id): exercises the aborting paths of the contract parsers
	RalVariants []*vRalVar `json:"ral_variants,omitempty"`
}

type vRalVar struct {
	Payload string            `json:"payload"`
	Abort   string            `json:"abort"`
	Ral     map[string]string `json:"ral"`
}

func vRalValues(run *ralRun) map[string]string {
	out := map[string]string{}
	for name, val := range run.env {
		switch {
		case name == "payload" || strings.Contains(name, "."):
		case val.k == rvNum:
			out[name] = "n:" + val.n.String()
		case val.k == rvBytes && len(val.b) <= 4096:
			out[name] = "b:" + hex.EncodeToString(val.b)
		}
	}
	return out
}

type vRow struct {
	ID      int      `json:"id"`
	Tag     string   `json:"tag"`
	Via     string   `json:"via"` // direct | inject
	GChain  uint16   `json:"gchain"`
	GAddr   string   `json:"gaddr"`
	Ts      uint32   `json:"ts"`
	Gsi     uint32   `json:"gsi"`
	Msgs    []*vMsg  `json:"msgs"`
	Out     string   `json:"out"` // ok | err | panic
	Err     string   `json:"err"` // error / panic class
	ErrText string   `json:"errtext,omitempty"`
	Sent    []*vSent `json:"sent"`
	Digests []string `json:"digests,omitempty"`
	Mon     []string `json:"mon"`
}

// ---------------------------------------------------------------- error classes
var vErrKinds = []struct{ sub, kind string }{
	{"invalid target chain id", "target_chain"},
	{"empty guardian set", "gs_empty"},
	{"too many guardians", "gs_too_many"},
	{"invalid pubkey format", "gs_pubkey"},
	{"duplicate pubkey", "gs_dup"},
	{"invalid new message fee", "fee_len"},
	{"invalid message fee encoding", "fee_hex"},
	{"invalid transfer amount", "amount_len"},
	{"invalid recipient address", "recipient_len"},
	{"invalid amount encoding", "amount_hex"},
	{"invalid recipient encoding", "recipient_hex"},
	{"invalid payload encoding", "payload_hex"},
	{"invalid chain_id", "chain_id"},
	{"invalid emitter address encoding", "emitter_hex"},
	{"invalid emitter address (expected 32 bytes)", "emitter_len"},
	{"invalid refund address encoding", "refund_hex"},
	{"invalid module", "module_len"},
	{"invalid emitter_chain", "emitter_chain"},
	{"too many sequences", "too_many_seqs"},
	{"invalid new_consistency_level", "level"},
	{"refund address too long", "refund_len"},
	{"unsupported VAA type", "unset"},
}

func vErrKind(s string) string {
	for _, e := range vErrKinds {
		if strings.Contains(s, e.sub) {
			return e.kind
		}
	}
	return "other"
}

func vPanicKind(s string) string {
	switch {
	case strings.Contains(s, "module longer than 32 byte"):
		return "module"
	case strings.Contains(s, "unsupported VAA type"):
		return "unset"
	}
	return "other"
}

// ---------------------------------------------------------------- calling the implementation
func vGuardians(m *vMsg) []*nodev1.GuardianSetUpgrade_Guardian {
	gs := make([]*nodev1.GuardianSetUpgrade_Guardian, len(m.Keys))
	for i, k := range m.Keys {
		gs[i] = &nodev1.GuardianSetUpgrade_Guardian{Pubkey: k.str(), Name: fmt.Sprintf("g%d", i)}
	}
	return gs
}

func vCallDirect(gc vaa.ChainID, ga vaa.Address, m *vMsg, ts time.Time, gsi uint32) (*vaa.VAA, error) {
	tc := vaa.ChainID(m.TChain)
	switch m.Kind {
	case "guardian_set":
		return adminGuardianSetUpgradeToVAA(gc, ga, &nodev1.GuardianSetUpgrade{Guardians: vGuardians(m)}, ts, gsi, m.Nonce, m.Seq, tc)
	case "message_fee":
		return adminUpdateMessageFeeToVAA(gc, ga, &nodev1.UpdateMessageFee{NewMessageFee: m.S1.str()}, ts, gsi, m.Nonce, m.Seq, tc)
	case "transfer_fee":
		return adminTransferFeeToVAA(gc, ga, &nodev1.TransferFee{Amount: m.S1.str(), Recipient: m.S2.str()}, ts, gsi, m.Nonce, m.Seq, tc)
	case "contract_upgrade":
		return adminContractUpgradeToVAA(gc, ga, &nodev1.ContractUpgrade{Payload: m.S1.str()}, ts, gsi, m.Nonce, m.Seq, tc)
	case "register_chain":
		return tokenBridgeRegisterChain(gc, ga, &nodev1.BridgeRegisterChain{Module: m.S1.str(), ChainId: m.X, EmitterAddress: m.S2.str()}, ts, gsi, m.Nonce, m.Seq, tc)
	case "bridge_upgrade":
		return tokenBridgeUpgradeContract(gc, ga, &nodev1.BridgeUpgradeContract{Module: m.S1.str(), Payload: m.S2.str()}, ts, gsi, m.Nonce, m.Seq, tc)
	case "destroy":
		return tokenBridgeDestroyUnexecutedSequenceContracts(gc, ga, &nodev1.TokenBridgeDestroyUnexecutedSequenceContracts{EmitterChain: m.X, Sequences: m.Seqs.list()}, ts, gsi, m.Nonce, m.Seq, tc)
	case "min_level":
		return tokenBridgeUpdateMinimalConsistencyLevel(gc, ga, &nodev1.TokenBridgeUpdateMinimalConsistencyLevel{NewConsistencyLevel: m.X}, ts, gsi, m.Nonce, m.Seq, tc)
	case "refund":
		return tokenBridgeUpdateRefundAddress(gc, ga, &nodev1.TokenBridgeUpdateRefundAddress{NewRefundAddress: m.S1.str()}, ts, gsi, m.Nonce, m.Seq, tc)
	}
	panic("verif: direct call of kind " + m.Kind)
}

func vGovMessage(m *vMsg) *nodev1.GovernanceMessage {
	g := &nodev1.GovernanceMessage{Sequence: m.Seq, Nonce: m.Nonce, TargetChainId: m.TChain}
	switch m.Kind {
	case "guardian_set":
		g.Payload = &nodev1.GovernanceMessage_GuardianSet{GuardianSet: &nodev1.GuardianSetUpgrade{Guardians: vGuardians(m)}}
	case "message_fee":
		g.Payload = &nodev1.GovernanceMessage_UpdateMessageFee{UpdateMessageFee: &nodev1.UpdateMessageFee{NewMessageFee: m.S1.str()}}
	case "transfer_fee":
		g.Payload = &nodev1.GovernanceMessage_TransferFee{TransferFee: &nodev1.TransferFee{Amount: m.S1.str(), Recipient: m.S2.str()}}
	case "contract_upgrade":
		g.Payload = &nodev1.GovernanceMessage_ContractUpgrade{ContractUpgrade: &nodev1.ContractUpgrade{Payload: m.S1.str()}}
	case "register_chain":
		g.Payload = &nodev1.GovernanceMessage_BridgeRegisterChain{BridgeRegisterChain: &nodev1.BridgeRegisterChain{Module: m.S1.str(), ChainId: m.X, EmitterAddress: m.S2.str()}}
	case "bridge_upgrade":
		g.Payload = &nodev1.GovernanceMessage_BridgeContractUpgrade{BridgeContractUpgrade: &nodev1.BridgeUpgradeContract{Module: m.S1.str(), Payload: m.S2.str()}}
	case "destroy":
		g.Payload = &nodev1.GovernanceMessage_DestroyUnexecutedSequenceContracts{DestroyUnexecutedSequenceContracts: &nodev1.TokenBridgeDestroyUnexecutedSequenceContracts{EmitterChain: m.X, Sequences: m.Seqs.list()}}
	case "min_level":
		g.Payload = &nodev1.GovernanceMessage_UpdateMinimalConsistencyLevel{UpdateMinimalConsistencyLevel: &nodev1.TokenBridgeUpdateMinimalConsistencyLevel{NewConsistencyLevel: m.X}}
	case "refund":
		g.Payload = &nodev1.GovernanceMessage_UpdateRefundAddress{UpdateRefundAddress: &nodev1.TokenBridgeUpdateRefundAddress{NewRefundAddress: m.S1.str()}}
	case "unset":
		// payload oneof left unset
	default:
		panic("verif: kind " + m.Kind)
	}
	return g
}

func vDescribe(v *vaa.VAA) (*vSent, []byte) {
	mb, err := v.Marshal()
	if err != nil {
		mb = nil
	}
	s := &vSent{Gsidx: v.GuardianSetIndex, Ts: v.Timestamp.Unix(), Nonce: v.Nonce, Seq: v.Sequence, EChain: uint16(v.EmitterChain),
		TChain: uint16(v.TargetChain), EAddr: hex.EncodeToString(v.EmitterAddress[:]), CL: v.ConsistencyLevel, PLen: len(v.Payload),
		Marshal: hex.EncodeToString(mb), Digest: hex.EncodeToString(v.SigningMsg().Bytes())}
	if len(v.Payload) <= 4096 {
		s.Payload = hex.EncodeToString(v.Payload)
	}
	return s, mb
}

// ---------------------------------------------------------------- monitors
type vMon struct{ msgs []string }

func (o *vMon) add(class, format string, a ...interface{}) {
	o.msgs = append(o.msgs, class+"|"+fmt.Sprintf(format, a...))
}

func vShort(b []byte) string {
	if len(b) > 40 {
		return fmt.Sprintf("%x..(%d bytes)", b[:40], len(b))
	}
	return fmt.Sprintf("%x", b)
}

// the requested byte string of a hex field, decoded independently of the code under test
func vReqHex(s string) ([]byte, bool) {
	b, err := hex.DecodeString(s)
	return b, err == nil
}

func vReqKey(s string) ([]byte, bool) {
	if strings.HasPrefix(s, "0x") || strings.HasPrefix(s, "0X") {
		s = s[2:]
	}
	b, err := hex.DecodeString(s)
	return b, err == nil && len(b) == 20
}

func (o *vMon) num(run *ralRun, kind, name string, want *big.Int, what string) {
	got, ok := run.num(name)
	if !ok {
		o.add("ral:"+kind, "contract variable %s not found / not computed from the payload", name)
		return
	}
	if got.Cmp(want) != 0 {
		o.add("value:"+kind+":"+what, "%s: requested %s but the contract parser reads %s", what, want, got)
	}
}

func (o *vMon) bytesEq(run *ralRun, kind, name string, want []byte, what string) {
	got, ok := run.bytes(name)
	if !ok {
		o.add("ral:"+kind, "contract variable %s not found / not computed from the payload", name)
		return
	}
	if !bytes.Equal(got, want) {
		o.add("value:"+kind+":"+what, "%s: requested %s but the contract parser reads %s", what, vShort(want), vShort(got))
	}
}

func vRequested(m *vMsg) string {
	switch m.Kind {
	case "destroy":
		return fmt.Sprintf("requested emitter chain %d and %d sequences", m.X, len(m.Seqs.list()))
	case "refund":
		return fmt.Sprintf("requested refund address of %d characters", len(m.S1.str()))
	case "guardian_set":
		return fmt.Sprintf("requested %d guardians", len(m.Keys))
	case "register_chain", "bridge_upgrade":
		return fmt.Sprintf("requested module of %d bytes", len(m.S1.str()))
	}
	return "requested " + m.Kind
}

// the property statement on one produced VAA
func vMonVAA(o *vMon, c *ralContracts, gc vaa.ChainID, ga vaa.Address, ts, gsi uint32, m *vMsg, v *vaa.VAA, rec *vSent) {
	k := m.Kind
	if v.EmitterChain != gc || v.EmitterAddress != ga {
		o.add("emitter:"+k, "emitter %d/%x is not the configured governance emitter %d/%x", v.EmitterChain, v.EmitterAddress[:], gc, ga[:])
	}
	if v.ConsistencyLevel != 32 {
		o.add("envelope:"+k+":cl", "consistency level %d, governance VAAs carry 32", v.ConsistencyLevel)
	}
	if v.Version != 1 || len(v.Signatures) != 0 {
		o.add("envelope:"+k+":version", "version %d with %d signatures", v.Version, len(v.Signatures))
	}
	if v.Timestamp.Unix() != int64(ts) || v.Timestamp.Nanosecond() != 0 {
		o.add("envelope:"+k+":ts", "timestamp %d.%09d, requested %d", v.Timestamp.Unix(), v.Timestamp.Nanosecond(), ts)
	}
	if v.Nonce != m.Nonce || v.Sequence != m.Seq || uint32(v.TargetChain) != m.TChain || v.GuardianSetIndex != gsi {
		o.add("envelope:"+k, "nonce/sequence/target/set index %d/%d/%d/%d, requested %d/%d/%d/%d", v.Nonce, v.Sequence, v.TargetChain,
			v.GuardianSetIndex, m.Nonce, m.Seq, m.TChain, gsi)
	}
	if c.err != "" {
		o.add("ral:load", "%s", c.err)
		return
	}
	p := v.Payload
	var f *ralFile
	var fn string
	switch k {
	case "guardian_set":
		f, fn = c.gov, "submitNewGuardianSet"
	case "message_fee":
		f, fn = c.gov, "submitSetMessageFee"
	case "transfer_fee":
		f, fn = c.gov, "submitTransferFees"
	case "contract_upgrade":
		f, fn = c.gov, "submitContractUpgrade"
	case "register_chain":
		f, fn = c.tb, "parseAndVerifyRegisterChain"
	case "bridge_upgrade":
		f, fn = c.tb, "upgradeContract"
	case "destroy":
		f, fn = c.tb, "destroyUnexecutedSequenceContracts"
	case "min_level":
		f, fn = c.tb, "updateMinimalConsistencyLevel"
	case "refund":
		f, fn = c.tb, "updateRefundAddress"
	default:
		o.add("kind", "VAA produced for request kind %s", k)
		return
	}
	// the module the operator names: the file's module constant, except for the two kinds that carry a module string
	var module *big.Int
	if k == "register_chain" || k == "bridge_upgrade" {
		ms := m.S1.str()
		module = new(big.Int).SetBytes([]byte(ms))
		if ms == "TokenBridge" {
			module = nil // must pass against the contract's own constant
		}
	}
	skip := ""
	if k == "destroy" && len(m.Seqs.list()) == 0 {
		// the contract refuses an empty list by its own `length > 0` guard; layout and size are still checked
		skip = "length > 0"
	}
	run, probs := c.parse(f, fn, p, skip, module)
	for _, pr := range probs {
		o.add("ral:"+k, "%s", pr)
	}
	if rec != nil {
		rec.RalFn, rec.RalAbort, rec.Ral = fn, run.abort, vRalValues(&run)
		if run.abort != "" {
			rec.RalAbort = run.abort + " at " + run.abortAt
		}
		if len(p) >= 34 && len(p) <= 2048 {
			flip := func(at int) []byte {
				q := append([]byte{}, p...)
				if at < len(q) {
					q[at] ^= 1
				}
				return q
			}
			for _, q := range [][]byte{p[:len(p)-1], append(append([]byte{}, p...), 0), flip(33), flip(34), flip(36), flip(37), flip(len(p) - 1), p[:33], p[:34]} {
				vr, _ := c.parse(f, fn, q, skip, module)
				if strings.HasPrefix(vr.abort, "parseAndVerifyGovernanceVAAGeneric") {
					continue
				}
				rv := &vRalVar{Payload: hex.EncodeToString(q), Abort: vr.abort, Ral: vRalValues(&vr)}
				if vr.abort != "" {
					rv.Abort = vr.abort + " at " + vr.abortAt
				}
				rec.RalVariants = append(rec.RalVariants, rv)
			}
		}
	}
	if run.abort != "" {
		o.add("abort:"+k, "%s: the contract aborts on the produced payload (%d bytes, %s): %s at `%s`", vRequested(m), len(p), vShort(p), run.abort, run.abortAt)
		return
	}
	switch k {
	case "guardian_set":
		if uint64(gsi)+1 < 1<<32 { // documented boundary: the index is itself a 4-byte wire field
			o.num(&run, k, "newGuardianSetIndex", new(big.Int).SetUint64(uint64(gsi)+1), "new index")
		}
		o.num(&run, k, "newGuardianSetSize", big.NewInt(int64(len(m.Keys))), "number of guardians")
		want := []byte{byte(len(m.Keys))}
		for _, key := range m.Keys {
			kb, ok := vReqKey(key.str())
			if !ok {
				o.add("accept:"+k, "VAA produced although guardian key %q is not 20 hex-encoded bytes", key.str())
			}
			want = append(want, kb...)
		}
		if len(m.Keys) > 255 {
			want = nil
		}
		// a guardian set is a set: the contract stores the key list as it comes and counts every entry towards the quorum, so a request
		// naming one key twice (in whatever spelling: with, without 0x, upper / lower case) or the zero address is not a valid request
		seenKey := map[string]bool{}
		for _, key := range m.Keys {
			if kb, ok := vReqKey(key.str()); ok {
				hk := hex.EncodeToString(kb)
				if seenKey[hk] {
					o.add("accept:"+k+":duplicate", "VAA produced for a guardian-set upgrade that names the guardian key %s twice (the contract would count that guardian twice towards the quorum)", hk)
				}
				seenKey[hk] = true
				if hk == "0000000000000000000000000000000000000000" {
					o.add("accept:"+k+":zero", "VAA produced for a guardian-set upgrade that contains the zero address as a guardian key")
				}
			}
		}
		o.bytesEq(&run, k, "guardianSets[1]", want, "guardian keys")
		if !run.sizeAsserted() {
			o.add("ral:"+k, "size assertion not evaluated")
		}
	case "message_fee":
		fee, _ := new(big.Int).SetString(m.S1.str(), 16)
		if fee == nil {
			o.add("accept:"+k, "VAA produced although the fee %q is not hex", m.S1.str())
			return
		}
		o.num(&run, k, "fee", fee, "fee")
		if !run.sizeAsserted() {
			o.add("ral:"+k, "size assertion not evaluated")
		}
	case "transfer_fee":
		am, _ := new(big.Int).SetString(m.S1.str(), 16)
		rc, ok := vReqHex(m.S2.str())
		if am == nil || !ok {
			o.add("accept:"+k, "VAA produced although amount/recipient are not hex")
			return
		}
		o.num(&run, k, "amount", am, "amount")
		o.bytesEq(&run, k, "recipient", rc, "recipient")
		if !run.sizeAsserted() {
			o.add("ral:"+k, "size assertion not evaluated")
		}
	case "contract_upgrade", "bridge_upgrade":
		src := m.S1
		if k == "bridge_upgrade" {
			src = m.S2
		}
		blob, ok := vReqHex(src.str())
		if !ok {
			o.add("accept:"+k, "VAA produced although the upgrade payload is not hex")
			return
		}
		if len(p) < c.upgradeFrom || !bytes.Equal(p[c.upgradeFrom:], blob) {
			o.add("value:"+k+":blob", "parseContractUpgrade reads from offset %d: %s, requested %s", c.upgradeFrom, vShort(p[vmin(len(p), c.upgradeFrom):]), vShort(blob))
		}
	case "register_chain":
		o.num(&run, k, "remoteChainId", big.NewInt(int64(m.X)), "chain id")
		ea, ok := vReqHex(m.S2.str())
		if !ok {
			o.add("accept:"+k, "VAA produced although the emitter address is not hex")
			return
		}
		o.bytesEq(&run, k, "remoteTokenBridgeId", ea, "emitter address")
		if !run.sizeAsserted() {
			o.add("ral:"+k, "size assertion not evaluated")
		}
	case "destroy":
		seqs := m.Seqs.list()
		cb, ok := run.bytes("remoteChainIdBytes")
		if !ok {
			o.add("ral:"+k, "contract variable remoteChainIdBytes not found")
		} else if new(big.Int).SetBytes(cb).Cmp(big.NewInt(int64(m.X))) != 0 {
			o.add("value:"+k+":emitter chain", "emitter chain: requested %d but the contract parser reads %s", m.X, new(big.Int).SetBytes(cb))
		}
		o.num(&run, k, "length", big.NewInt(int64(len(seqs))), "number of sequences")
		want := make([]byte, 8*len(seqs))
		for i, s := range seqs {
			binary.BigEndian.PutUint64(want[8*i:], s)
		}
		o.bytesEq(&run, k, "paths", want, "sequences")
		if !run.sizeAsserted() {
			o.add("ral:"+k, "size assertion not evaluated")
		}
	case "min_level":
		o.num(&run, k, "consistencyLevel", big.NewInt(int64(m.X)), "consistency level")
		if !run.sizeAsserted() {
			o.add("ral:"+k, "size assertion not evaluated")
		}
	case "refund":
		ad, ok := vReqHex(m.S1.str())
		if !ok {
			o.add("accept:"+k, "VAA produced although the refund address is not hex")
			return
		}
		o.num(&run, k, "addressSize", big.NewInt(int64(len(ad))), "refund address length")
		o.bytesEq(&run, k, "newRefundAddress", ad, "refund address")
		if !run.sizeAsserted() {
			o.add("ral:"+k, "size assertion not evaluated")
		}
	}
}

func vDigestOf(marshal []byte) []byte {
	// unsigned VAA: version(1) set index(4) signature count(1) body
	if len(marshal) < 6 {
		return nil
	}
	return vkeccak(vkeccak(marshal[6:]))
}

// ---------------------------------------------------------------- running one row
type vHarness struct {
	o   *vout
	c   *ralContracts
	n   int
	big int
}

func (h *vHarness) direct(tag string, gc vaa.ChainID, ga vaa.Address, ts, gsi uint32, m *vMsg) {
	m.TChain &= 0xffff // the conversion functions take a vaa.ChainID
	row := &vRow{ID: h.n, Tag: tag, Via: "direct", GChain: uint16(gc), GAddr: hex.EncodeToString(ga[:]), Ts: ts, Gsi: gsi, Msgs: []*vMsg{m}, Sent: []*vSent{}, Mon: []string{}}
	h.n++
	mon := &vMon{}
	var v, v2 *vaa.VAA
	var err error
	func() {
		defer func() {
			if r := recover(); r != nil {
				row.Out, row.Err, row.ErrText = "panic", vPanicKind(fmt.Sprint(r)), fmt.Sprint(r)
			}
		}()
		v, err = vCallDirect(gc, ga, m, time.Unix(int64(ts), 0), gsi)
		v2, _ = vCallDirect(gc, ga, m, time.Unix(int64(ts), 0), gsi)
	}()
	switch {
	case row.Out == "panic":
		mon.add("panic:"+row.Err, "%s request panicked: %s", m.Kind, row.ErrText)
	case err != nil:
		row.Out, row.Err, row.ErrText = "err", vErrKind(err.Error()), err.Error()
		if v != nil {
			mon.add("both", "error and VAA returned")
		}
	case v == nil:
		row.Out, row.Err = "err", "nil"
		mon.add("both", "neither error nor VAA returned")
	default:
		row.Out = "ok"
		s, _ := vDescribe(v)
		row.Sent = append(row.Sent, s)
		vMonVAA(mon, h.c, gc, ga, ts, gsi, m, v, s)
		if v2 == nil || v2.SigningMsg() != v.SigningMsg() {
			mon.add("determinism:"+m.Kind, "the same request converted twice gives different digests")
		}
	}
	row.Mon = mon.msgs
	if row.Mon == nil {
		row.Mon = []string{}
	}
	h.o.emit(row)
}

func (h *vHarness) inject(tag string, gc vaa.ChainID, ga vaa.Address, ts, gsi uint32, msgs []*vMsg) {
	row := &vRow{ID: h.n, Tag: tag, Via: "inject", GChain: uint16(gc), GAddr: hex.EncodeToString(ga[:]), Ts: ts, Gsi: gsi, Msgs: msgs, Sent: []*vSent{}, Mon: []string{}}
	h.n++
	mon := &vMon{}
	run := func() (sent []*vaa.VAA, resp *nodev1.InjectGovernanceVAAResponse, err error, pan string, panicked bool) {
		ch := make(chan *vaa.VAA, len(msgs)+1)
		s := &nodePrivilegedService{injectC: ch, logger: zap.NewNop(), governanceChainId: gc, governanceEmitterAddress: ga}
		req := &nodev1.InjectGovernanceVAARequest{CurrentSetIndex: gsi, Timestamp: ts}
		for _, m := range msgs {
			req.Messages = append(req.Messages, vGovMessage(m))
		}
		func() {
			defer func() {
				if r := recover(); r != nil {
					pan, panicked = fmt.Sprint(r), true
				}
			}()
			resp, err = s.InjectGovernanceVAA(context.Background(), req)
		}()
		close(ch)
		for v := range ch {
			sent = append(sent, v)
		}
		return
	}
	sent, resp, err, pan, panicked := run()
	var marshals [][]byte
	for _, v := range sent {
		s, mb := vDescribe(v)
		row.Sent = append(row.Sent, s)
		marshals = append(marshals, mb)
	}
	for i, v := range sent {
		if i < len(msgs) {
			vMonVAA(mon, h.c, gc, ga, ts, gsi, msgs[i], v, row.Sent[i])
		}
	}
	switch {
	case panicked:
		row.Out, row.Err, row.ErrText = "panic", vPanicKind(pan), pan
		mon.add("panic:"+row.Err, "InjectGovernanceVAA panicked: %s", pan)
	case err != nil:
		row.Out, row.Err, row.ErrText = "err", vErrKind(err.Error()), err.Error()
		if resp != nil {
			mon.add("both", "error and response returned")
		}
	case resp == nil:
		row.Out, row.Err = "err", "nil"
		mon.add("both", "neither error nor response returned")
	default:
		row.Out = "ok"
		if len(resp.Digests) != len(msgs) || len(sent) != len(msgs) {
			mon.add("inject:count", "%d messages, %d digests, %d VAAs on injectC", len(msgs), len(resp.Digests), len(sent))
		}
		for i, d := range resp.Digests {
			row.Digests = append(row.Digests, hex.EncodeToString(d))
			if i < len(marshals) && !bytes.Equal(d, vDigestOf(marshals[i])) {
				mon.add("inject:digest", "digest %d is %x, keccak256(keccak256(body)) of the injected VAA is %x", i, d, vDigestOf(marshals[i]))
			}
		}
		// a second operator injecting the same request signs the same digests
		_, resp2, err2, _, p2 := run()
		if p2 || err2 != nil || resp2 == nil || len(resp2.Digests) != len(resp.Digests) {
			mon.add("determinism:inject", "the same request injected twice behaves differently")
		} else {
			for i := range resp.Digests {
				if !bytes.Equal(resp.Digests[i], resp2.Digests[i]) {
					mon.add("determinism:inject", "the same request injected twice gives different digests (message %d)", i)
				}
			}
		}
	}
	row.Mon = mon.msgs
	if row.Mon == nil {
		row.Mon = []string{}
	}
	h.o.emit(row)
}

// ---------------------------------------------------------------- request generators
var (
	vChains   = []uint32{0, 1, 2, 255, 256, 65535, 65536, 65538, 1<<32 - 1}
	vLevels   = []uint32{0, 1, 32, 255, 256, 300, 65535, 65536, 1<<32 - 1}
	vSeqVals  = []uint64{0, 1, 255, 65535, 65536, 1<<32 - 1, 1 << 32, 1<<63 - 1, 1 << 63, 1<<64 - 1}
	vU32s     = []uint32{0, 1, 255, 256, 65535, 65536, 1<<31 - 1, 1 << 31, 1<<32 - 2, 1<<32 - 1}
	vTargets  = []uint32{0, 1, 2, 255, 65535}
	vModules  = []string{"", "TokenBridge", "NFTBridge", "Core", strings.Repeat("M", 31), "TokenBridge" + strings.Repeat("x", 21), strings.Repeat("m", 33), strings.Repeat("Q", 64), "\x00TokenBridge", "tokenbridge",
		// multi-byte characters: the limit is in BYTES (the wire field is 32 bytes), not in characters
		strings.Repeat("\u00e9", 16), strings.Repeat("\u00e9", 17), "TokenBridge-" + strings.Repeat("\u00e9", 11), strings.Repeat("\u6a4b", 11), strings.Repeat("\u6a4b", 10) + "ab", "\xff\xfe" + strings.Repeat("z", 31)}
	vGovAddr  = vaa.Address{0, 0, 0, 0, 0, 0, 0, 0, 0, 0, 0, 0, 0, 0, 0, 0, 0, 0, 0, 0, 0, 0, 0, 0, 0, 0, 0, 0, 0, 0, 0, 4}
	vGovAddr2 = vaa.Address{0xde, 0xad, 0xbe, 0xef, 5, 6, 7, 8, 9, 10, 11, 12, 13, 14, 15, 16, 17, 18, 19, 20, 21, 22, 23, 24, 25, 26, 27, 28, 29, 30, 31, 0xff}
)

func (r *vrng) u32() uint32 {
	if r.below(3) == 0 {
		return vU32s[r.below(len(vU32s))]
	}
	return uint32(r.next())
}
func (r *vrng) u64() uint64 {
	if r.below(3) == 0 {
		return vSeqVals[r.below(len(vSeqVals))]
	}
	return r.next()
}

// a hex string field of nbytes bytes with occasional defects
func (r *vrng) hexField(nbytes int) *vS {
	s := &vS{N: nbytes, A: r.below(256), B: r.below(256), Up: r.below(4) == 0}
	switch r.below(12) {
	case 0:
		s.Suf = hex.EncodeToString([]byte{"0123456789abcdefABCDEF"[r.below(22)]}) // odd length
	case 1:
		s.Suf = hex.EncodeToString([]byte{"gGxX -_/:@`\x00\xff"[r.below(13)], '0'}) // invalid digit
	case 2:
		s.Pre = hex.EncodeToString([]byte("0x"))
	case 3:
		if nbytes > 0 {
			s.N = nbytes - 1
		}
	case 4:
		s.N = nbytes + 1
	}
	return s
}

func (r *vrng) mixedCase(b []byte) string {
	s := []byte(hex.EncodeToString(b))
	for i := range s {
		if s[i] >= 'a' && s[i] <= 'f' && r.below(2) == 0 {
			s[i] -= 32
		}
	}
	return string(s)
}

func (r *vrng) pubkey(b []byte) *vS {
	s := r.mixedCase(b)
	switch r.below(8) {
	case 0, 1, 2, 3:
		s = "0x" + s
	case 4:
		s = "0X" + s
	}
	return vLit(s)
}

func (r *vrng) guardianSet() []*vS {
	n := []int{1, 1, 2, 3, 7, 13, 18, 19, 19, 20, 0}[r.below(11)]
	keys := make([]*vS, n)
	var raw [][]byte
	for i := range keys {
		b := r.bytes(20)
		raw = append(raw, b)
		keys[i] = r.pubkey(b)
	}
	if n > 0 {
		i := r.below(n)
		switch r.below(14) {
		case 0: // duplicate, possibly in another spelling
			if n > 1 {
				j := (i + 1 + r.below(n-1)) % n
				keys[i] = r.pubkey(raw[j])
			}
		case 1:
			keys[i] = r.pubkey(make([]byte, 20)) // the zero address
		case 2:
			keys[i] = vLit("0x" + hex.EncodeToString(raw[i])[:39])
		case 3:
			keys[i] = vLit(hex.EncodeToString(raw[i]) + "0")
		case 4:
			keys[i] = vLit("0x" + hex.EncodeToString(raw[i])[:38] + "zz")
		case 5:
			keys[i] = vLit("")
		}
	}
	return keys
}

func (r *vrng) pick32(l []uint32) uint32 {
	if r.below(4) == 0 {
		return r.u32()
	}
	return l[r.below(len(l))]
}

func (r *vrng) msg(kind string) *vMsg {
	m := &vMsg{Kind: kind, Nonce: r.u32(), Seq: r.u64(), TChain: vTargets[r.below(len(vTargets))]}
	if r.below(3) == 0 {
		m.TChain = uint32(r.below(65536))
	}
	switch kind {
	case "guardian_set":
		m.Keys = r.guardianSet()
	case "message_fee":
		m.S1 = r.hexField(32)
	case "transfer_fee":
		m.S1, m.S2 = r.hexField(32), r.hexField(32)
	case "contract_upgrade":
		m.S1 = r.hexField([]int{0, 1, 2, 35, 100, 1000, 3000}[r.below(7)])
	case "register_chain":
		m.S1 = vLit(vModules[r.below(len(vModules))])
		if r.below(4) == 0 {
			m.S1 = vLit(string(r.bytes(r.below(40))))
		}
		m.X = r.pick32(vChains)
		m.S2 = r.hexField(32)
	case "bridge_upgrade":
		m.S1 = vLit(vModules[r.below(len(vModules))])
		if r.below(4) == 0 {
			m.S1 = vLit(string(r.bytes(r.below(40))))
		}
		m.S2 = r.hexField([]int{0, 1, 2, 35, 100, 1000, 3000}[r.below(7)])
	case "destroy":
		m.X = r.pick32(vChains)
		q := &vSeqs{}
		for i, n := 0, []int{0, 1, 1, 2, 3, 8, 50}[r.below(7)]; i < n; i++ {
			q.L = append(q.L, r.u64())
		}
		if r.below(5) == 0 {
			q.N, q.A, q.B = r.below(600), r.u64(), r.u64()
		}
		m.Seqs = q
	case "min_level":
		m.X = r.pick32(vLevels)
	case "refund":
		m.S1 = r.hexField([]int{0, 1, 20, 32, 33, 34, 100, 255, 256, 1000}[r.below(10)])
	}
	return m
}

var vKinds = []string{"guardian_set", "message_fee", "transfer_fee", "contract_upgrade", "register_chain", "bridge_upgrade", "destroy", "min_level", "refund"}

func vHex32(b byte) string { return strings.Repeat(fmt.Sprintf("%02x", b), 32) }

// TestVerifC15 : see the comment at the top of the file
func TestVerifC15(t *testing.T) {
	r := &vrng{s: verifSeed()}
	o := verifOut(t)
	defer o.close()
	h := &vHarness{o: o, c: ralLoad()}
	gc, ga := vaa.ChainID(1), vGovAddr
	const ts, gsi = uint32(1700000000), uint32(3)
	base := func(kind string) *vMsg { return &vMsg{Kind: kind, Nonce: 7, Seq: 42, TChain: 255} }
	both := func(tag string, m *vMsg) {
		h.direct(tag, gc, ga, ts, gsi, m)
		cp := *m
		h.inject(tag, gc, ga, ts, gsi, []*vMsg{&cp})
	}

	// ---- register_chain: chain ids, module names, emitter address spellings
	for _, ch := range []uint32{0, 1, 255, 65535, 65536, 65538, 1<<32 - 1} {
		m := base("register_chain")
		m.S1, m.X, m.S2 = vLit("TokenBridge"), ch, vLit(vHex32(0xab))
		both(fmt.Sprintf("register_chain chain=%d", ch), m)
	}
	for _, mod := range vModules {
		m := base("register_chain")
		m.S1, m.X, m.S2 = vLit(mod), 2, vLit(vHex32(0x11))
		both(fmt.Sprintf("register_chain module of %d bytes", len(mod)), m)
		m = base("bridge_upgrade")
		m.S1, m.S2 = vLit(mod), vLit("00010203")
		both(fmt.Sprintf("bridge_upgrade module of %d bytes", len(mod)), m)
	}
	for _, ea := range []string{vHex32(0)[:62], vHex32(0xCD), strings.ToUpper(vHex32(0xcd)), vHex32(1) + "00", vHex32(1)[:63], vHex32(1) + "0", "zz" + vHex32(1)[:62], vHex32(1)[:62] + "g0", "0x" + vHex32(1)[:62], "", vHex32(0)} {
		m := base("register_chain")
		m.S1, m.X, m.S2 = vLit("TokenBridge"), 2, vLit(ea)
		both(fmt.Sprintf("register_chain emitter address of %d characters", len(ea)), m)
	}
	// ---- upgrades: blob spellings
	for _, pl := range []string{"", "00", "0001", "ABCDEF", "abcdef", "abc", "0g", "0x00", " 00", strings.Repeat("5a", 4000), strings.Repeat("5A", 35)} {
		m := base("contract_upgrade")
		m.S1 = vLit(pl)
		both(fmt.Sprintf("contract_upgrade payload of %d characters", len(pl)), m)
		m = base("bridge_upgrade")
		m.S1, m.S2 = vLit("TokenBridge"), vLit(pl)
		both(fmt.Sprintf("bridge_upgrade payload of %d characters", len(pl)), m)
	}
	// ---- fee / amount / recipient: 62 / 64 / 66 digits, odd, non-hex, upper case
	fees := []string{vHex32(0)[:62], vHex32(0), vHex32(0xff), strings.ToUpper(vHex32(0xfe)), vHex32(1) + "00", vHex32(1)[:63], vHex32(1) + "0", vHex32(1)[:63] + "g", "0x" + vHex32(1)[:62], "", strings.Repeat("0", 63) + "1"}
	for _, f := range fees {
		m := base("message_fee")
		m.S1 = vLit(f)
		both(fmt.Sprintf("message_fee of %d characters", len(f)), m)
		m = base("transfer_fee")
		m.S1, m.S2 = vLit(f), vLit(vHex32(0x22))
		both(fmt.Sprintf("transfer_fee amount of %d characters", len(f)), m)
		m = base("transfer_fee")
		m.S1, m.S2 = vLit(vHex32(0x33)), vLit(f)
		both(fmt.Sprintf("transfer_fee recipient of %d characters", len(f)), m)
	}
	// ---- guardian sets
	key := func(i int) string { return fmt.Sprintf("%040x", 0xabcdef0000+i) }
	set := func(n int) []*vS {
		ks := make([]*vS, n)
		for i := range ks {
			ks[i] = vLit("0x" + key(i))
		}
		return ks
	}
	gsCase := func(tag string, keys []*vS, idx uint32) {
		m := base("guardian_set")
		m.Keys = keys
		h.direct("guardian_set "+tag, gc, ga, ts, idx, m)
		cp := *m
		h.inject("guardian_set "+tag, gc, ga, ts, idx, []*vMsg{&cp})
	}
	for _, n := range []int{0, 1, 2, 19, 20, 21, 255, 256, 257} {
		gsCase(fmt.Sprintf("%d guardians", n), set(n), gsi)
	}
	gsCase("current index 2^32-1", set(3), 1<<32-1)
	gsCase("current index 2^32-2", set(3), 1<<32-2)
	gsCase("current index 0", set(19), 0)
	withKey := func(n, at int, k string) []*vS { ks := set(n); ks[at] = vLit(k); return ks }
	gsCase("duplicate key", withKey(5, 4, "0x"+key(1)), gsi)
	gsCase("duplicate key in upper case", withKey(5, 3, "0x"+strings.ToUpper(key(1))), gsi)
	gsCase("duplicate key without 0x prefix", withKey(5, 2, key(0)), gsi)
	gsCase("duplicate key with 0X prefix", withKey(5, 4, "0X"+strings.ToUpper(key(3))), gsi)
	gsCase("keys without prefix and in upper case", []*vS{vLit(key(0)), vLit("0X" + strings.ToUpper(key(1))), vLit(strings.ToUpper(key(2)))}, gsi)
	gsCase("zero address first", withKey(3, 0, "0x"+strings.Repeat("0", 40)), gsi)
	gsCase("zero address last", withKey(3, 2, strings.Repeat("0", 40)), gsi)
	gsCase("zero address only", withKey(1, 0, "0x"+strings.Repeat("0", 40)), gsi)
	gsCase("key of 39 digits", withKey(3, 1, "0x"+key(1)[:39]), gsi)
	gsCase("key of 41 digits", withKey(3, 1, "0x"+key(1)+"0"), gsi)
	gsCase("key of 42 digits without prefix", withKey(3, 1, "11"+key(1)), gsi)
	gsCase("key with invalid digit", withKey(3, 2, "0x"+key(1)[:39]+"g"), gsi)
	gsCase("key empty", withKey(3, 0, ""), gsi)
	gsCase("key 0x only", withKey(3, 0, "0x"), gsi)
	gsCase("key with double prefix", withKey(3, 0, "0x0x"+key(1)[:38]), gsi)
	// ---- destroy unexecuted sequences
	for _, ch := range []uint32{0, 1, 255, 65535, 65536, 65538, 1<<32 - 1} {
		m := base("destroy")
		m.X, m.Seqs = ch, &vSeqs{L: []uint64{5, 1<<64 - 1, 0}}
		both(fmt.Sprintf("destroy emitter chain=%d", ch), m)
	}
	for _, n := range []int{0, 1, 2, 255, 256, 65535, 65536, 65537} {
		m := base("destroy")
		m.X = 2
		if n <= 2 {
			m.Seqs = &vSeqs{L: []uint64{1 << 63, 77}[:n]}
		} else {
			m.Seqs = &vSeqs{N: n, A: 1<<64 - 100, B: 0x0101010101010101}
		}
		if n >= 65535 {
			h.direct(fmt.Sprintf("destroy %d sequences", n), gc, ga, ts, gsi, m)
		} else {
			both(fmt.Sprintf("destroy %d sequences", n), m)
		}
	}
	// ---- minimal consistency level
	for _, l := range []uint32{0, 1, 255, 256, 300, 65535, 65536, 1<<32 - 1} {
		m := base("min_level")
		m.X = l
		both(fmt.Sprintf("min_level %d", l), m)
	}
	// ---- refund address
	for _, n := range []int{0, 1, 32, 33, 255, 256, 65535, 65536, 65537} {
		m := base("refund")
		m.S1 = vHexGen(n, 3, 7, n%2 == 1, "")
		if n >= 65535 {
			h.direct(fmt.Sprintf("refund address of %d bytes", n), gc, ga, ts, gsi, m)
		} else {
			both(fmt.Sprintf("refund address of %d bytes", n), m)
		}
	}
	for _, s := range []string{"abc", "0g", "0x00", "00 ", strings.ToUpper("00bee1cf5ad2b4a1d2e2b5e4c3a3e1c1b1a191817161514131211100f0e0d0c0b0a")} {
		m := base("refund")
		m.S1 = vLit(s)
		both(fmt.Sprintf("refund address %q", s[:vmin(len(s), 8)]), m)
	}
	// ---- InjectGovernanceVAA: unset oneof, target chains, several messages per request, other configurations
	h.inject("unset payload oneof", gc, ga, ts, gsi, []*vMsg{base("unset")})
	for _, tc := range []uint32{0, 65535, 65536, 65538, 1<<32 - 1} {
		m := base("min_level")
		m.X, m.TChain = 1, tc
		h.inject(fmt.Sprintf("target chain %d", tc), gc, ga, ts, gsi, []*vMsg{m})
		m2 := base("unset")
		m2.TChain = tc
		h.inject(fmt.Sprintf("unset payload oneof, target chain %d", tc), gc, ga, ts, gsi, []*vMsg{m2})
	}
	h.inject("no messages", gc, ga, ts, gsi, nil)
	{
		a, b, c := base("min_level"), base("register_chain"), base("message_fee")
		a.X = 3
		b.S1, b.X, b.S2 = vLit("TokenBridge"), 4, vLit(vHex32(0x44))
		c.S1 = vLit(vHex32(0x55))
		h.inject("three valid messages", gc, ga, ts, gsi, []*vMsg{a, b, c})
		bad := base("message_fee")
		bad.S1 = vLit("zz")
		h.inject("valid, invalid, valid", gc, ga, ts, gsi, []*vMsg{a, bad, c})
		h.inject("valid, unset", gc, ga, ts, gsi, []*vMsg{a, base("unset")})
		far := base("min_level")
		far.TChain = 70000
		h.inject("valid, valid, target chain 70000", gc, ga, ts, gsi, []*vMsg{a, c, far})
		h.inject("other configuration", vaa.ChainID(65535), vGovAddr2, 1<<32-1, 1<<32-1, []*vMsg{a, b, c})
		h.inject("timestamp 0", vaa.ChainID(0), vaa.Address{}, 0, 0, []*vMsg{a, b, c})
	}

	// ---- seeded random requests
	n := 40
	if verifThorough() {
		n = 500
	}
	for i := 0; i < n; i++ {
		for _, k := range vKinds {
			cgc, cga := gc, ga
			if r.below(4) == 0 {
				cgc, cga = vaa.ChainID(r.below(65536)), vGovAddr2
			}
			h.direct("random", cgc, cga, r.u32(), r.u32(), r.msg(k))
		}
		// one injection with 1..4 random messages
		var msgs []*vMsg
		for j, c := 0, 1+r.below(4); j < c; j++ {
			k := vKinds[r.below(len(vKinds))]
			if r.below(40) == 0 {
				k = "unset"
			}
			m := r.msg(k)
			if r.below(25) == 0 {
				m.TChain = 65536 + uint32(r.below(100000))
			}
			msgs = append(msgs, m)
		}
		h.inject("random", gc, ga, r.u32(), r.u32(), msgs)
	}
}
