//go:build verif

package guardiand

// C15 end to end (extension X6): the REAL chain in one process.
//   operator request -> the real InjectGovernanceVAA of three admin services, each writing to the real (unbuffered) injectC of its
//   node -> three real processor.Processor.Run loops (own keys, own badger stores) -> the test plays p2p between them (every
//   SignedObservation / SignedVAAWithQuorum a node puts on its sendC is handed to the other nodes' obsvC / signedInC) -> the quorum
//   VAA each node broadcasts -> the contract side read from the .ral TEXT by the harness's interpreter: parseAndVerifyVAA (slices,
//   version, governance set-index test, guardian-set size and quorum tests), the positional hand-over to
//   parseAndVerifyGovernanceVAAGeneric (emitter / sequence / module / action assertions), the wrapper parseAndVerifyGovernanceVAA
//   (receivedSequence update), the entry point's payload parser.
// Monitors (property statement on the implementation's behaviour): every operator gets the same digests, in the order of the
// messages, and they are the digests of what is published; every node of the quorum publishes within the deadline; the published
// bytes decode to exactly the requested envelope and the directly converted payload; they carry a valid quorum of the set; the
// contract-side reading of the wire bytes yields the request's values (the existing per-kind monitors run on the values the
// CONTRACT reads, not on the Go struct).
// One JSON row per request: the Coq side re-evaluates model/GovPipeline.v on it (real Keccak inside Coq; signatures / recovery
// are the recorded go-ethereum results) and compares response, digests, published bytes and the values the entry point binds.

import (
	"bytes"
	"context"
	"crypto/ecdsa"
	"encoding/hex"
	"fmt"
	"math/big"
	"os"
	"regexp"
	"sort"
	"strings"
	"sync"
	"testing"
	"time"

	"github.com/alephium/wormhole-fork/node/pkg/common"
	"github.com/alephium/wormhole-fork/node/pkg/db"
	"github.com/alephium/wormhole-fork/node/pkg/ecdsasigner"
	"github.com/alephium/wormhole-fork/node/pkg/processor"
	gossipv1 "github.com/alephium/wormhole-fork/node/pkg/proto/gossip/v1"
	nodev1 "github.com/alephium/wormhole-fork/node/pkg/proto/node/v1"
	"github.com/alephium/wormhole-fork/node/pkg/reporter"
	"github.com/alephium/wormhole-fork/node/pkg/supervisor"
	"github.com/alephium/wormhole-fork/node/pkg/vaa"
	ethcommon "github.com/ethereum/go-ethereum/common"
	"github.com/ethereum/go-ethereum/crypto"
	"go.uber.org/zap"
	"google.golang.org/protobuf/proto"
)

type eNode struct {
	key       *ecdsa.PrivateKey
	addr      ethcommon.Address
	setC      chan *common.GuardianSet
	lockC     chan *common.MessagePublication
	sendC     chan []byte
	obsvC     chan *gossipv1.SignedObservation
	reqC      chan *gossipv1.ObservationRequest
	injectC   chan *vaa.VAA
	signedInC chan *gossipv1.SignedVAAWithQuorum
	d         *db.Database
	dir       string
	died      chan string
}

type eObs struct {
	node      int
	hash, sig []byte
}

type eWorld struct {
	nodes  []*eNode
	gs     *common.GuardianSet
	cancel context.CancelFunc
	mu     sync.Mutex
	obs    []eObs
	pubs   map[string]map[int][][]byte // digest hex -> node -> published byte strings (in order)
	shape  string
	late   bool // a node missed the 40 s deadline before: later requests of this world wait 6 s only
}

func eKey(r *vrng) *ecdsa.PrivateKey {
	for {
		k, err := crypto.ToECDSA(r.bytes(32))
		if err == nil {
			return k
		}
	}
}

// three real processors; keyOrder = position of node i's key in the guardian set, extra = silent keys appended before permuting
func eNewWorld(t *testing.T, root context.Context, r *vrng, gsIndex uint32, silent int, permute bool, gc vaa.ChainID, ga vaa.Address) *eWorld {
	w := &eWorld{pubs: map[string]map[int][][]byte{}}
	ctx, cancel := context.WithCancel(root)
	w.cancel = cancel
	var keys []ethcommon.Address
	for i := 0; i < 3; i++ {
		n := &eNode{key: eKey(r), died: make(chan string, 1)}
		n.addr = crypto.PubkeyToAddress(n.key.PublicKey)
		n.setC = make(chan *common.GuardianSet)
		n.lockC = make(chan *common.MessagePublication)
		n.sendC = make(chan []byte, 8192)
		n.obsvC = make(chan *gossipv1.SignedObservation, 1024)
		n.reqC = make(chan *gossipv1.ObservationRequest, 8192)
		n.injectC = make(chan *vaa.VAA) // unbuffered, as node.go makes it
		n.signedInC = make(chan *gossipv1.SignedVAAWithQuorum, 1024)
		dir, err := os.MkdirTemp(os.Getenv("VERIF_TMP"), "c15e2e")
		if err != nil {
			t.Fatal(err)
		}
		n.dir = dir
		if n.d, err = db.Open(dir); err != nil {
			t.Fatal(err)
		}
		w.nodes = append(w.nodes, n)
		keys = append(keys, n.addr)
	}
	for i := 0; i < silent; i++ {
		keys = append(keys, crypto.PubkeyToAddress(eKey(r).PublicKey))
	}
	if permute {
		for i := len(keys) - 1; i > 0; i-- {
			j := r.below(i + 1)
			keys[i], keys[j] = keys[j], keys[i]
		}
	}
	w.gs = &common.GuardianSet{Keys: keys, Index: gsIndex}
	w.shape = fmt.Sprintf("3 nodes, set of %d keys (index %d)%s", len(keys), gsIndex, map[bool]string{true: ", permuted", false: ""}[permute])
	for i, n := range w.nodes {
		i, n := i, n
		p := processor.NewProcessor(root, n.d, n.lockC, n.setC, n.sendC, n.obsvC, n.reqC, n.injectC, n.signedInC,
			&ecdsasigner.ECDSAPrivateKey{Value: n.key}, common.NewGuardianSetState(nil), reporter.EventListener(zap.NewNop()), nil, gc, ga)
		go func() {
			defer func() {
				if x := recover(); x != nil {
					n.died <- fmt.Sprint(x)
				}
			}()
			p.Run(ctx)
		}()
		// the test is the gossip network: what node i sends reaches every other node
		go func() {
			for {
				select {
				case <-ctx.Done():
					return
				case m := <-n.sendC:
					var g gossipv1.GossipMessage
					if proto.Unmarshal(m, &g) != nil {
						continue
					}
					switch x := g.Message.(type) {
					case *gossipv1.GossipMessage_SignedObservation:
						o := x.SignedObservation
						w.mu.Lock()
						w.obs = append(w.obs, eObs{node: i, hash: append([]byte{}, o.Hash...), sig: append([]byte{}, o.Signature...)})
						w.mu.Unlock()
						for j, peer := range w.nodes {
							if j != i {
								select {
								case peer.obsvC <- proto.Clone(o).(*gossipv1.SignedObservation):
								case <-ctx.Done():
									return
								}
							}
						}
					case *gossipv1.GossipMessage_SignedVaaWithQuorum:
						b := append([]byte{}, x.SignedVaaWithQuorum.Vaa...)
						if len(b) > 6 {
							nsig := int(b[5])
							if len(b) > 6+66*nsig {
								dg := hex.EncodeToString(vkeccak(vkeccak(b[6+66*nsig:])))
								w.mu.Lock()
								if w.pubs[dg] == nil {
									w.pubs[dg] = map[int][][]byte{}
								}
								w.pubs[dg][i] = append(w.pubs[dg][i], b)
								w.mu.Unlock()
							}
						}
						for j, peer := range w.nodes {
							if j != i {
								select {
								case peer.signedInC <- &gossipv1.SignedVAAWithQuorum{Vaa: b}:
								case <-ctx.Done():
									return
								}
							}
						}
					}
				}
			}
		}()
	}
	for _, n := range w.nodes {
		select {
		case n.setC <- w.gs:
		case <-time.After(20 * time.Second):
			t.Fatal("e2e: processor did not take the guardian set")
		}
	}
	return w
}

func (w *eWorld) close() {
	w.cancel()
	time.Sleep(50 * time.Millisecond)
	for _, n := range w.nodes {
		n.d.Close()
		os.RemoveAll(n.dir)
	}
}

// ---------------------------------------------------------------- the contract side, from the .ral text
var (
	eRetRe   = regexp.MustCompile(`(?m)^\s*return ([\w, ]+)\s*$`)
	eTupleRe = regexp.MustCompile(`let \(([^)]*)\) = (?:\w+\.)?(\w+)\(([^)]*)\)`)
)

func eNames(s string) []string {
	var out []string
	for _, x := range strings.Split(s, ",") {
		out = append(out, strings.TrimSpace(x))
	}
	return out
}

func eLastReturn(body string) []string {
	ms := eRetRe.FindAllStringSubmatch(body, -1)
	if len(ms) == 0 {
		return nil
	}
	return eNames(ms[len(ms)-1][1])
}

func eTupleLet(body, callee string) ([]string, []string) {
	for _, m := range eTupleRe.FindAllStringSubmatch(body, -1) {
		if m[2] == callee {
			return eNames(m[1]), eNames(m[3])
		}
	}
	return nil, nil
}

func eHasAssert(run *ralRun, sub string) bool {
	for _, a := range run.asserted {
		if strings.Contains(a, sub) {
			return true
		}
	}
	return false
}

type eContract struct {
	chain      int64 // chainId / localChainId of the executing contract
	recvSeq    *big.Int
	govChain   int64
	govAddr    []byte
	gsIndex    int64
	guardians  []byte // guardianSets[1]
}

// what the entry point fn of file f does with the wire bytes: abort reason ("" = runs through), the variables the entry point
// binds, the new receivedSequence; problems = why the reading is not conclusive
func (c *ralContracts) execute(f *ralFile, fn string, data []byte, ct *eContract, skip string) (run ralRun, newSeq *big.Int, problems []string) {
	num := func(x int64) rval { return rnum(x) }
	bs := func(b []byte) rval { return rval{k: rvBytes, b: b} }
	// ---- parseAndVerifyVAA(data, true)
	pv, ok := ralFnBody(c.gov.src, "parseAndVerifyVAA")
	if !ok {
		return run, nil, []string{"ral: parseAndVerifyVAA not found"}
	}
	var lines []string
	for _, l := range strings.Split(pv, "\n") {
		if strings.Contains(l, "getGuardiansInfo(") { // guardians = guardianSets[1] when the index is the current one (tested below)
			continue
		}
		lines = append(lines, l)
	}
	env := map[string]rval{"data": bs(data), "isGovernanceVAA": {k: rvBool, t: true}, "guardianSetIndexes[1]": num(ct.gsIndex), "guardians": bs(ct.guardians)}
	for k, v := range c.gov.consts {
		env[k] = v
	}
	r1 := ralExec(strings.Join(lines, "\n"), env, "")
	if r1.abort != "" {
		r1.abort = "parseAndVerifyVAA: " + r1.abort
		return r1, nil, nil
	}
	for _, need := range []string{"== Version", "guardianSetIndex == guardianSetIndexes[1]", "guardianSize != 0", "quorumSize <= signatureSize"} {
		if !eHasAssert(&r1, need) {
			problems = append(problems, "ral: parseAndVerifyVAA: assertion `"+need+"` not evaluated")
		}
	}
	rets := eLastReturn(pv)
	names, args := eTupleLet(c.generic, "parseAndVerifyVAA")
	if len(rets) == 0 || len(rets) != len(names) || len(args) != 2 || args[1] != "true" {
		return run, nil, append(problems, fmt.Sprintf("ral: hand-over parseAndVerifyVAA -> generic not understood (%v / %v / %v)", rets, names, args))
	}
	// ---- parseAndVerifyGovernanceVAAGeneric(vaa, receivedSequence, <Module>, action)
	wb, ok := ralFnBody(f.src, "parseAndVerifyGovernanceVAA")
	if !ok {
		return run, nil, append(problems, "ral: parseAndVerifyGovernanceVAA not found")
	}
	wnames, wargs := eTupleLet(wb, "parseAndVerifyGovernanceVAAGeneric")
	eb, ok := ralFnBody(f.src, fn)
	if !ok {
		return run, nil, append(problems, "ral: function "+fn+" not found")
	}
	enames, eargs := eTupleLet(eb, "parseAndVerifyGovernanceVAA")
	gm := regexp.MustCompile(`fn parseAndVerifyGovernanceVAAGeneric\(([^)]*)\)`).FindStringSubmatch(c.gov.src)
	if gm == nil || len(wargs) != 4 || len(eargs) != 2 {
		return run, nil, append(problems, "ral: generic / wrapper / entry signatures not understood")
	}
	var gparams []string
	for _, p := range eNames(gm[1]) {
		gparams = append(gparams, strings.TrimSpace(strings.Split(p, ":")[0]))
	}
	act, okA := f.consts[eargs[1]]
	if !okA {
		return run, nil, append(problems, "ral: "+eargs[1]+" not defined")
	}
	genv := map[string]rval{"governanceChainId": num(ct.govChain), "governanceEmitterAddress": bs(ct.govAddr)}
	for i, n := range names {
		genv[n] = r1.env[rets[i]]
	}
	for i, a := range wargs[1:] {
		switch {
		case a == "receivedSequence":
			genv[gparams[i+1]] = rval{k: rvNum, n: ct.recvSeq}
		case a == "action":
			genv[gparams[i+1]] = act
		default:
			v, okC := f.consts[a]
			if !okC {
				return run, nil, append(problems, "ral: wrapper hands `"+a+"` to the generic check")
			}
			genv[gparams[i+1]] = v
		}
	}
	r2 := ralExec(c.generic, genv, "")
	if r2.abort != "" {
		r2.abort = "parseAndVerifyGovernanceVAAGeneric: " + r2.abort
		return r2, nil, problems
	}
	for _, need := range []string{"emitterChainId == governanceChainId", "emitterAddress == governanceEmitterAddress", "msgSequence >= targetSequence", "== coreModule", "== action"} {
		if !eHasAssert(&r2, need) {
			problems = append(problems, "ral: generic check: assertion `"+need+"` not evaluated")
		}
	}
	grets := eLastReturn(c.generic)
	if len(grets) != len(wnames) {
		return run, nil, append(problems, "ral: hand-over generic -> wrapper not understood")
	}
	wenv := map[string]rval{}
	for i, n := range wnames {
		wenv[n] = r2.env[grets[i]]
	}
	r3 := ralExec(wb, wenv, "")
	if v, okS := r3.env["receivedSequence"]; okS && v.k == rvNum {
		newSeq = v.n
	} else {
		problems = append(problems, "ral: wrapper does not compute receivedSequence")
	}
	wrets := eLastReturn(wb)
	if len(wrets) != len(enames) {
		return run, nil, append(problems, "ral: hand-over wrapper -> entry point not understood")
	}
	// ---- the entry point
	eenv := map[string]rval{"chainId": num(ct.chain), "localChainId": num(ct.chain), "guardianSetIndexes[1]": num(ct.gsIndex)}
	for k, v := range f.consts {
		eenv[k] = v
	}
	for i, n := range enames {
		eenv[n] = r3.env[wrets[i]]
	}
	run = ralExec(eb, eenv, skip)
	if !eHasAssert(&run, "targetChainId ==") && run.abort == "" {
		problems = append(problems, "ral: "+fn+": target chain assertion not evaluated")
	}
	return run, newSeq, problems
}

// ---------------------------------------------------------------- one request
type eSent struct {
	Kind      string            `json:"kind"`
	Digest    string            `json:"digest"`
	Seq       uint64            `json:"seq"`
	TChain    uint16            `json:"tchain"`
	Local     int64             `json:"local"`
	PLen      int               `json:"plen"`
	Published []string          `json:"published"` // distinct byte strings broadcast as SignedVAAWithQuorum for this digest, sorted
	ByNode    []int             `json:"by_node"`   // how many broadcasts per node
	RalFn     string            `json:"ral_fn,omitempty"`
	RalAbort  string            `json:"ral_abort,omitempty"`
	Ral       map[string]string `json:"ral,omitempty"`
	RalSeq    string            `json:"ral_seq,omitempty"`
}

type eRow struct {
	K       string       `json:"k"`
	ID      int          `json:"id"`
	Tag     string       `json:"tag"`
	Shape   string       `json:"shape"`
	GChain  uint16       `json:"gchain"`
	GAddr   string       `json:"gaddr"`
	Ts      uint32       `json:"ts"`
	Gsi     uint32       `json:"gsi"`
	Msgs    []*vMsg      `json:"msgs"`
	Owns    []string     `json:"owns"`
	Keys    []string     `json:"keys"`
	GsIndex uint32       `json:"gsindex"`
	Out     string       `json:"out"`
	Err     string       `json:"err"`
	ErrText string       `json:"errtext,omitempty"`
	Digests []string     `json:"digests"`
	Sent    []*eSent     `json:"sent"`
	Signs   [][][]string `json:"signs"` // per node: (digest, signature)
	Rec     [][]string   `json:"rec"`   // (digest, signature, recovered address or "")
	Mon     []string     `json:"mon"`
}

var eEntry = map[string]string{"guardian_set": "submitNewGuardianSet", "message_fee": "submitSetMessageFee", "transfer_fee": "submitTransferFees",
	"contract_upgrade": "submitContractUpgrade", "register_chain": "parseAndVerifyRegisterChain", "bridge_upgrade": "upgradeContract",
	"destroy": "destroyUnexecutedSequenceContracts", "min_level": "updateMinimalConsistencyLevel", "refund": "updateRefundAddress"}

func eRecoverAddr(hash, sig []byte) string {
	if len(hash) != 32 || len(sig) != 65 {
		return ""
	}
	pk, err := crypto.Ecrecover(hash, sig)
	if err != nil || len(pk) != 65 {
		return ""
	}
	return hex.EncodeToString(crypto.Keccak256(pk[1:])[12:])
}

// strict: the request is one the contract must execute (any abort is reported); otherwise aborts are recorded only
func (w *eWorld) request(h *vHarness, tag string, gc vaa.ChainID, ga vaa.Address, ts, gsi uint32, msgs []*vMsg, concurrent bool) {
	strict := tag != "random"
	row := &eRow{K: "e2e", ID: h.n, Tag: tag, Shape: w.shape, GChain: uint16(gc), GAddr: hex.EncodeToString(ga[:]), Ts: ts, Gsi: gsi, Msgs: msgs,
		GsIndex: w.gs.Index, Sent: []*eSent{}, Digests: []string{}, Mon: []string{}, Signs: [][][]string{}, Rec: [][]string{}}
	h.n++
	mon := &vMon{}
	for _, n := range w.nodes {
		row.Owns = append(row.Owns, hex.EncodeToString(n.addr[:]))
	}
	for _, k := range w.gs.Keys {
		row.Keys = append(row.Keys, hex.EncodeToString(k[:]))
	}
	w.mu.Lock()
	obs0 := len(w.obs)
	before := map[string]bool{}
	for dg := range w.pubs {
		before[dg] = true
	}
	w.mu.Unlock()
	// ---- what the request asks for: the conversion functions called directly, message by message, up to the first failure
	var want []*vaa.VAA
	for _, m := range msgs {
		if m.TChain > 65535 || m.Kind == "unset" {
			break
		}
		var v *vaa.VAA
		var err error
		func() {
			defer func() {
				if x := recover(); x != nil {
					err = fmt.Errorf("panic: %v", x)
				}
			}()
			v, err = vCallDirect(gc, ga, m, time.Unix(int64(ts), 0), gsi)
		}()
		if err != nil || v == nil {
			break
		}
		want = append(want, v)
	}
	// ---- every operator submits the request to its own node
	type ans struct {
		resp *nodev1.InjectGovernanceVAAResponse
		err  error
		pan  string
		hung bool
	}
	answers := make([]ans, len(w.nodes))
	call := func(i int) {
		n := w.nodes[i]
		s := &nodePrivilegedService{injectC: n.injectC, logger: zap.NewNop(), governanceChainId: gc, governanceEmitterAddress: ga}
		req := &nodev1.InjectGovernanceVAARequest{CurrentSetIndex: gsi, Timestamp: ts}
		for _, m := range msgs {
			req.Messages = append(req.Messages, vGovMessage(m))
		}
		done := make(chan struct{})
		var a ans
		go func() {
			defer close(done)
			defer func() {
				if x := recover(); x != nil {
					a.pan = fmt.Sprint(x)
				}
			}()
			a.resp, a.err = s.InjectGovernanceVAA(context.Background(), req)
		}()
		select {
		case <-done:
			answers[i] = a
		case <-time.After(30 * time.Second):
			answers[i] = ans{hung: true}
		}
	}
	if concurrent {
		var wg sync.WaitGroup
		for i := range w.nodes {
			wg.Add(1)
			go func(i int) { defer wg.Done(); call(i) }(i)
		}
		wg.Wait()
	} else {
		for _, i := range []int{1, 2, 0} {
			call(i)
		}
	}
	a0 := answers[0]
	switch {
	case a0.hung:
		row.Out, row.Err = "err", "hung"
		mon.add("e2e:rpc", "InjectGovernanceVAA did not return within 30 s (the processor does not take the injection)")
	case a0.pan != "":
		row.Out, row.Err, row.ErrText = "panic", vPanicKind(a0.pan), a0.pan
		mon.add("panic:"+row.Err, "InjectGovernanceVAA panicked: %s", a0.pan)
	case a0.err != nil:
		row.Out, row.Err, row.ErrText = "err", vErrKind(a0.err.Error()), a0.err.Error()
	case a0.resp == nil:
		row.Out, row.Err = "err", "nil"
	default:
		row.Out = "ok"
		for _, d := range a0.resp.Digests {
			row.Digests = append(row.Digests, hex.EncodeToString(d))
		}
	}
	// (a) every operator gets the same answer
	for i := 1; i < len(answers); i++ {
		b := answers[i]
		same := a0.hung == b.hung && (a0.pan != "") == (b.pan != "") && (a0.err != nil) == (b.err != nil) && (a0.resp != nil) == (b.resp != nil)
		if same && a0.err != nil {
			same = a0.err.Error() == b.err.Error()
		}
		if same && a0.resp != nil {
			same = len(a0.resp.Digests) == len(b.resp.Digests)
			for k := 0; same && k < len(a0.resp.Digests); k++ {
				same = bytes.Equal(a0.resp.Digests[k], b.resp.Digests[k])
			}
		}
		if !same {
			mon.add("e2e:operators", "operators 0 and %d submitted the same request and got different answers / digests", i)
		}
	}
	if row.Out == "ok" {
		if len(a0.resp.Digests) != len(msgs) || len(want) != len(msgs) {
			mon.add("inject:count", "%d messages, %d digests, %d convertible", len(msgs), len(a0.resp.Digests), len(want))
		}
		// (e) digest k belongs to message k
		for k := 0; k < len(a0.resp.Digests) && k < len(want); k++ {
			if d := want[k].SigningMsg().Bytes(); !bytes.Equal(d, a0.resp.Digests[k]) {
				mon.add("inject:digest", "digest %d of the response is %x, the digest of the VAA message %d converts to is %x", k, a0.resp.Digests[k], k, d)
			}
		}
	}
	// ---- wait until every node has broadcast a quorum VAA for every injected message
	quorum := len(w.gs.Keys)*2/3 + 1
	strayBreak := false
	deadline := time.Now().Add(40 * time.Second)
	if w.late {
		deadline = time.Now().Add(6 * time.Second)
	}
	for {
		missing, stray := 0, 0
		w.mu.Lock()
		wanted := map[string]bool{}
		for _, v := range want {
			wanted[hex.EncodeToString(v.SigningMsg().Bytes())] = true
		}
		for dg, by := range w.pubs {
			if !before[dg] && !wanted[dg] {
				stray += len(by)
			}
		}
		for _, v := range want {
			dg := hex.EncodeToString(v.SigningMsg().Bytes())
			for i := range w.nodes {
				if len(w.pubs[dg][i]) == 0 {
					missing++
				}
			}
		}
		w.mu.Unlock()
		if missing == 0 {
			break
		}
		if stray >= len(want)*len(w.nodes) && stray > 0 {
			// every node broadcast as many quorum VAAs as messages were injected — under digests the request does not convert to
			mon.add("e2e:other", "the nodes broadcast quorum VAAs whose digests are not the digests of the VAAs the request converts to (%d such broadcasts): what was injected / signed is not what the conversion functions return", stray)
			strayBreak = true
			break
		}
		if time.Now().After(deadline) {
			w.late = true
			break
		}
		for i, n := range w.nodes {
			select {
			case msg := <-n.died:
				mon.add("e2e:panic", "processor of node %d panicked: %s", i, msg)
				deadline = time.Now()
			default:
			}
		}
		time.Sleep(5 * time.Millisecond)
	}
	time.Sleep(30 * time.Millisecond) // late duplicates, if any
	var addrs []ethcommon.Address
	addrs = append(addrs, w.gs.Keys...)
	guardians := []byte{byte(len(w.gs.Keys))}
	for _, k := range w.gs.Keys {
		guardians = append(guardians, k[:]...)
	}
	for k, v := range want {
		m := msgs[k]
		dg := hex.EncodeToString(v.SigningMsg().Bytes())
		local := int64(m.TChain)
		if local == 0 {
			local = 7
		}
		rec := &eSent{Kind: m.Kind, Digest: dg, Seq: m.Seq, TChain: uint16(m.TChain), Local: local, PLen: len(v.Payload), Published: []string{}, ByNode: make([]int, len(w.nodes))}
		row.Sent = append(row.Sent, rec)
		w.mu.Lock()
		distinct := map[string][]byte{}
		for i := range w.nodes {
			rec.ByNode[i] = len(w.pubs[dg][i])
			for _, b := range w.pubs[dg][i] {
				distinct[hex.EncodeToString(b)] = b
			}
		}
		w.mu.Unlock()
		for s := range distinct {
			rec.Published = append(rec.Published, s)
		}
		sort.Strings(rec.Published)
		for i, c := range rec.ByNode {
			if c == 0 && !strayBreak {
				mon.add("e2e:liveness", "%s: all three operators injected the request and every observation was delivered, but node %d did not broadcast a quorum VAA within 40 s (digest %s)", m.Kind, i, dg[:16])
			}
			if c > 1 {
				mon.add("e2e:twice", "%s: node %d broadcast the VAA of one digest %d times", m.Kind, i, c)
			}
		}
		if quorum == len(w.nodes) && len(rec.Published) > 1 {
			mon.add("e2e:agree", "%s: with a quorum of all operators the nodes broadcast %d different byte strings for one digest", m.Kind, len(rec.Published))
		}
		first := true
		for _, s := range rec.Published {
			b := distinct[s]
			pv, err := vaa.Unmarshal(b)
			if err != nil {
				mon.add("e2e:decode", "%s: published bytes do not decode: %v", m.Kind, err)
				continue
			}
			if !bytes.Equal(pv.SerializeBody(), v.SerializeBody()) {
				mon.add("e2e:body", "%s: the published body differs from the body of the VAA the request converts to", m.Kind)
			}
			if pv.GuardianSetIndex != gsi || pv.Version != 1 {
				mon.add("e2e:header", "%s: published version / set index %d / %d, requested set index %d", m.Kind, pv.Version, pv.GuardianSetIndex, gsi)
			}
			if len(pv.Signatures) < quorum || !pv.VerifySignatures(addrs) {
				mon.add("e2e:quorum", "%s: the published VAA carries %d signatures (quorum %d) / does not verify against the guardian set", m.Kind, len(pv.Signatures), quorum)
			}
			// ---- the contract side reads the WIRE bytes
			if h.c.err != "" {
				mon.add("ral:load", "%s", h.c.err)
				continue
			}
			f := h.c.gov
			if m.Kind == "register_chain" || m.Kind == "bridge_upgrade" || m.Kind == "destroy" || m.Kind == "min_level" || m.Kind == "refund" {
				f = h.c.tb
			}
			ct := &eContract{chain: local, recvSeq: new(big.Int).SetUint64(m.Seq), govChain: int64(gc), govAddr: ga[:], gsIndex: int64(w.gs.Index), guardians: guardians}
			run, newSeq, probs := h.c.execute(f, eEntry[m.Kind], b, ct, "") // the contract's own guards included (an empty sequence list aborts)
			for _, pr := range probs {
				mon.add("ral:e2e:"+pr, "%s", pr)
			}
			if first {
				first = false
				rec.RalFn, rec.RalAbort, rec.Ral = eEntry[m.Kind], run.abort, vRalValues(&run)
				if run.abort != "" {
					rec.RalAbort = run.abort + " at " + run.abortAt
				}
				if newSeq != nil {
					rec.RalSeq = newSeq.String()
				}
			}
			if run.abort != "" {
				if strict {
					mon.add("e2e:abort:"+m.Kind, "%s: the contract aborts on the published bytes: %s at `%s`", vRequested(m), run.abort, run.abortAt)
				}
				continue
			}
			if newSeq == nil || newSeq.Cmp(new(big.Int).Add(new(big.Int).SetUint64(m.Seq), big.NewInt(1))) != 0 {
				mon.add("e2e:sequence", "%s: receivedSequence becomes %v, the request's sequence is %d", m.Kind, newSeq, m.Seq)
			}
			// the per-kind value monitors on what the CONTRACT read from the wire: envelope values from parseAndVerifyVAA
			cv := &vaa.VAA{Version: pv.Version, GuardianSetIndex: pv.GuardianSetIndex, Timestamp: pv.Timestamp, Nonce: pv.Nonce, ConsistencyLevel: pv.ConsistencyLevel}
			if tc, okT := run.num("targetChainId"); okT && tc.IsUint64() {
				cv.TargetChain = vaa.ChainID(tc.Uint64())
			}
			if pl, okP := run.bytes("payload"); okP {
				cv.Payload = pl
			}
			cv.EmitterChain, cv.EmitterAddress, cv.Sequence = pv.EmitterChain, pv.EmitterAddress, pv.Sequence // asserted equal to the configured emitter / >= expected by the generic check
			mcopy := *m
			vMonVAA(mon, h.c, gc, ga, ts, gsi, &mcopy, cv, nil)
		}
	}
	// ---- oracle tables for the model: what each node signed, what go-ethereum recovers
	w.mu.Lock()
	newObs := append([]eObs{}, w.obs[obs0:]...)
	w.mu.Unlock()
	row.Signs = make([][][]string, len(w.nodes))
	for i := range row.Signs {
		row.Signs[i] = [][]string{}
	}
	seen := map[string]bool{}
	for _, o := range newObs {
		hs, ss := hex.EncodeToString(o.hash), hex.EncodeToString(o.sig)
		row.Signs[o.node] = append(row.Signs[o.node], []string{hs, ss})
		if !seen[hs+ss] {
			seen[hs+ss] = true
			row.Rec = append(row.Rec, []string{hs, ss, eRecoverAddr(o.hash, o.sig)})
		}
	}
	row.Mon = mon.msgs
	if row.Mon == nil {
		row.Mon = []string{}
	}
	h.o.emit(row)
}

func eWithSupervisor(t *testing.T, f func(ctx context.Context)) {
	ctx, cancel := context.WithCancel(context.Background())
	defer cancel()
	done := make(chan struct{})
	ran := false
	supervisor.New(ctx, zap.NewNop(), func(ctx context.Context) error {
		if !ran {
			ran = true
			func() {
				defer func() {
					if x := recover(); x != nil {
						t.Errorf("harness panicked: %v", x)
					}
				}()
				f(ctx)
			}()
			close(done)
		}
		supervisor.Signal(ctx, supervisor.SignalHealthy)
		<-ctx.Done()
		return ctx.Err()
	})
	select {
	case <-done:
	case <-time.After(3000 * time.Second):
		t.Fatal("harness timeout")
	}
}

// TestVerifC15E2E : see the comment at the top of the file
func TestVerifC15E2E(t *testing.T) {
	r := &vrng{s: verifSeed() ^ 0xe2e}
	o := verifOut(t)
	defer o.close()
	h := &vHarness{o: o, c: ralLoad()}
	gc, ga := vaa.ChainID(1), vGovAddr
	const ts = uint32(1700000000)
	seq := uint64(1000)
	next := func(kind string, tchain uint32) *vMsg {
		seq++
		return &vMsg{Kind: kind, Nonce: uint32(r.next()), Seq: seq, TChain: tchain}
	}
	key := func(i int) string { return fmt.Sprintf("0x%040x", 0xabcdef0000+i) }
	fixed := func(w *eWorld, gsi uint32) {
		m := next("message_fee", 255)
		m.S1 = vLit(strings.Repeat("0", 58) + "0f4240")
		w.request(h, "message_fee", gc, ga, ts, gsi, []*vMsg{m}, false)
		m = next("transfer_fee", 0)
		m.S1, m.S2 = vLit(vHex32(0x33)), vLit(vHex32(0xab))
		w.request(h, "transfer_fee to every chain", gc, ga, ts, gsi, []*vMsg{m}, true)
		m = next("guardian_set", 255)
		m.Keys = []*vS{vLit(key(1)), vLit(strings.ToUpper(key(2))[2:]), vLit(key(3))}
		w.request(h, "guardian_set", gc, ga, ts, gsi, []*vMsg{m}, false)
		m = next("contract_upgrade", 255)
		m.S1 = vLit("0003aabbcc")
		w.request(h, "contract_upgrade", gc, ga, ts, gsi, []*vMsg{m}, true)
		m = next("register_chain", 0)
		m.S1, m.X, m.S2 = vLit("TokenBridge"), 2, vLit(vHex32(0x11))
		w.request(h, "register_chain", gc, ga, ts, gsi, []*vMsg{m}, false)
		m = next("bridge_upgrade", 255)
		m.S1, m.S2 = vLit("TokenBridge"), vLit("0002beef"+strings.Repeat("5a", 32)+"0001ff"+"0000")
		w.request(h, "bridge_upgrade with state hash", gc, ga, ts, gsi, []*vMsg{m}, true)
		m = next("destroy", 255)
		m.X, m.Seqs = 2, &vSeqs{L: []uint64{5, 1<<64 - 1, 0}}
		w.request(h, "destroy", gc, ga, ts, gsi, []*vMsg{m}, false)
		m = next("refund", 255)
		m.S1 = vHexGen(33, 3, 7, false, "")
		w.request(h, "refund", gc, ga, ts, gsi, []*vMsg{m}, true)
		// several messages in one request, the last one invalid: the first two are injected, signed and published, the RPC fails
		a, b, bad := next("min_level", 255), next("message_fee", 255), next("message_fee", 255)
		a.X = 3
		b.S1 = vLit(vHex32(0x55))
		bad.S1 = vLit("zz")
		w.request(h, "valid, valid, invalid", gc, ga, ts, gsi, []*vMsg{a, b, bad}, false)
		c, d := next("min_level", 255), next("register_chain", 255)
		c.X = 255
		d.S1, d.X, d.S2 = vLit("TokenBridge"), 65535, vLit(vHex32(0x44))
		w.request(h, "two messages", gc, ga, ts, gsi, []*vMsg{c, d}, true)
	}
	eWithSupervisor(t, func(root context.Context) {
		w1 := eNewWorld(t, root, r, 3, 0, false, gc, ga)
		fixed(w1, 3)
		if verifThorough() {
			for i := 0; i < 60; i++ {
				k := vKinds[r.below(len(vKinds))]
				m := r.msg(k)
				seq++
				m.Seq = seq
				w1.request(h, "random", gc, ga, r.u32(), 3, []*vMsg{m}, r.below(2) == 0)
			}
		}
		w1.close()
		// a set of four keys in another order, one of them silent (quorum 3 = all operators), another emitter configuration
		w2 := eNewWorld(t, root, r, 1<<32-2, 1, true, vaa.ChainID(65535), vGovAddr2)
		m := next("min_level", 65535)
		m.X = 0
		w2.request(h, "other configuration", vaa.ChainID(65535), vGovAddr2, 1<<32-1, 1<<32-2, []*vMsg{m}, true)
		m = next("guardian_set", 0)
		m.Keys = []*vS{vLit(key(7))}
		w2.request(h, "guardian_set to every chain, index 2^32-2", vaa.ChainID(65535), vGovAddr2, 5, 1<<32-2, []*vMsg{m}, false)
		for i, n := 0, map[bool]int{false: 4, true: 60}[verifThorough()]; i < n; i++ {
			var msgs []*vMsg
			for j, c := 0, 1+r.below(3); j < c; j++ {
				mm := r.msg(vKinds[r.below(len(vKinds))])
				seq++
				mm.Seq = seq
				msgs = append(msgs, mm)
			}
			w2.request(h, "random", vaa.ChainID(65535), vGovAddr2, r.u32(), 1<<32-2, msgs, r.below(2) == 0)
		}
		w2.close()
	})
}
