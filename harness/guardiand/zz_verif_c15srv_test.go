//go:build verif

package guardiand

// C15 through the admin socket, as an operator reaches it: the service is built by the node's own adminServiceRunnable (whatever it
// wires into it: store, guardian-set state, queues) and called over gRPC on a unix socket.  "Construction is a pure function of the
// request, so all operators injecting the same request sign the same digest" — the node's own state is not part of the request: the
// same requests are sent to three nodes (no guardian set learned yet, as in the start-up window during which the socket already
// listens; set index 0; set index 5 with other keys) and to one node twice, a second apart; answers (error class, digests) and the
// VAAs handed to the processor must be the same everywhere.  "No request crashes the node": the gRPC server has no recovery
// interceptor, a panic in a handler ends this test process — the check reads that from the output (own `go test` invocation).

import (
	"context"
	"encoding/hex"
	"fmt"
	"os"
	"path/filepath"
	"testing"
	"time"

	"github.com/alephium/wormhole-fork/node/pkg/common"
	"github.com/alephium/wormhole-fork/node/pkg/db"
	gossipv1 "github.com/alephium/wormhole-fork/node/pkg/proto/gossip/v1"
	nodev1 "github.com/alephium/wormhole-fork/node/pkg/proto/node/v1"
	"github.com/alephium/wormhole-fork/node/pkg/supervisor"
	"github.com/alephium/wormhole-fork/node/pkg/vaa"
	ethcommon "github.com/ethereum/go-ethereum/common"
	"go.uber.org/zap"
	"google.golang.org/grpc/status"
)

type vSrvAnswer struct {
	Code    string   `json:"code"`
	Digests []string `json:"digests"`
	Sent    []string `json:"sent"` // digest of every VAA handed to the processor, in order
	Secs    []int64  `json:"secs"` // their timestamps
}

func vSrvNode(t *testing.T, dir string, name string, gst *common.GuardianSetState, reqs []*nodev1.InjectGovernanceVAARequest, pause time.Duration) []vSrvAnswer {
	ctx, cancel := context.WithCancel(context.Background())
	defer cancel()
	d, err := db.Open(filepath.Join(dir, name+"-db"))
	if err != nil {
		t.Fatal(err)
	}
	defer d.Close()
	sock := filepath.Join(dir, name+".sock")
	injectC := make(chan *vaa.VAA, 64)
	run, err := adminServiceRunnable(zap.NewNop(), sock, injectC, make(chan *gossipv1.SignedVAAWithQuorum, 8), make(chan *gossipv1.ObservationRequest, 8), d, gst, vaa.ChainID(1), vGovAddr)
	if err != nil {
		t.Fatal(err)
	}
	supervisor.New(ctx, zap.NewNop(), func(ctx context.Context) error {
		if err := supervisor.Run(ctx, "admin", run); err != nil {
			return err
		}
		supervisor.Signal(ctx, supervisor.SignalHealthy)
		<-ctx.Done()
		return nil
	}, supervisor.WithPropagatePanic)
	conn, err, c := getAdminClient(ctx, sock)
	if err != nil {
		t.Fatal(err)
	}
	defer conn.Close()
	out := []vSrvAnswer{}
	for i, req := range reqs {
		if i > 0 && pause > 0 {
			time.Sleep(pause)
		}
		cctx, cc := context.WithTimeout(ctx, 20*time.Second)
		resp, err := c.InjectGovernanceVAA(cctx, req)
		cc()
		a := vSrvAnswer{Code: "ok", Digests: []string{}, Sent: []string{}, Secs: []int64{}}
		if err != nil {
			a.Code = status.Code(err).String()
		} else {
			for _, dg := range resp.Digests {
				a.Digests = append(a.Digests, hex.EncodeToString(dg))
			}
		}
	drain:
		for {
			select {
			case v := <-injectC:
				dg := v.SigningMsg()
				a.Sent = append(a.Sent, hex.EncodeToString(dg[:]))
				a.Secs = append(a.Secs, v.Timestamp.Unix())
			case <-time.After(30 * time.Millisecond):
				break drain
			}
		}
		out = append(out, a)
	}
	return out
}

func TestVerifC15Served(t *testing.T) {
	r := &vrng{s: verifSeed() ^ 0xc155}
	o := verifOut(t)
	defer o.close()
	dir, err := os.MkdirTemp(os.Getenv("VERIF_TMP"), "c15srv")
	if err != nil {
		t.Fatal(err)
	}
	defer os.RemoveAll(dir)
	reqs := []*nodev1.InjectGovernanceVAARequest{}
	kinds := vKinds
	for i := 0; i < 14; i++ {
		m := r.msg(kinds[i%len(kinds)])
		if m == nil {
			continue
		}
		req := &nodev1.InjectGovernanceVAARequest{CurrentSetIndex: []uint32{0, 5, 9, 3}[i%4], Timestamp: []uint32{0, 1700000000, 1, 4294967295}[(i/2)%4]}
		req.Messages = append(req.Messages, vGovMessage(m))
		if i%5 == 4 {
			if m2 := r.msg("register_chain"); m2 != nil {
				req.Messages = append(req.Messages, vGovMessage(m2))
			}
		}
		reqs = append(reqs, req)
	}
	key := func(b byte) ethcommon.Address { var a ethcommon.Address; a[19] = b; return a }
	none := common.NewGuardianSetState(nil)
	g0 := common.NewGuardianSetState(nil)
	g0.Set(&common.GuardianSet{Index: 0, Keys: []ethcommon.Address{key(1)}})
	g5 := common.NewGuardianSetState(nil)
	g5.Set(&common.GuardianSet{Index: 5, Keys: []ethcommon.Address{key(2), key(3), key(4)}})
	// the start-up window first: a crash there ends the process before anything else is written
	o.emit(map[string]interface{}{"k": "c15srv-start", "requests": len(reqs)})
	a := vSrvNode(t, dir, "no-set-yet", none, reqs, 0)
	b := vSrvNode(t, dir, "set-0", g0, reqs, 0)
	c := vSrvNode(t, dir, "set-5", g5, reqs, 0)
	again := vSrvNode(t, dir, "set-5-later", g5, reqs[:4], 1100*time.Millisecond)
	mon := []string{}
	same := func(x, y vSrvAnswer) bool {
		return x.Code == y.Code && fmt.Sprint(x.Digests) == fmt.Sprint(y.Digests) && fmt.Sprint(x.Sent) == fmt.Sprint(y.Sent) && fmt.Sprint(x.Secs) == fmt.Sprint(y.Secs)
	}
	desc := func(i int) string {
		return fmt.Sprintf("request %d (current_set_index %d, timestamp %d, %d messages)", i, reqs[i].CurrentSetIndex, reqs[i].Timestamp, len(reqs[i].Messages))
	}
	for i := range reqs {
		for _, p := range []struct {
			n string
			x []vSrvAnswer
		}{{"a node that knows set 0", b}, {"a node that knows set 5", c}} {
			if i < len(a) && i < len(p.x) && !same(a[i], p.x[i]) && len(mon) < 4 {
				mon = append(mon, fmt.Sprintf("the same governance request is answered differently by a node that has not learned a guardian set yet (%s, digests %v, handed over %v at %v) and by %s (%s, digests %v, handed over %v at %v): %s", a[i].Code, a[i].Digests, a[i].Sent, a[i].Secs, p.n, p.x[i].Code, p.x[i].Digests, p.x[i].Sent, p.x[i].Secs, desc(i)))
			}
		}
		if i < len(a) {
			if a[i].Code == "ok" && (len(a[i].Digests) != len(reqs[i].Messages) || fmt.Sprint(a[i].Digests) != fmt.Sprint(a[i].Sent)) && len(mon) < 4 {
				mon = append(mon, fmt.Sprintf("the digests reported to the operator %v are not the digests of the VAAs handed to the processor %v: %s", a[i].Digests, a[i].Sent, desc(i)))
			}
			for _, s := range a[i].Secs {
				if s != int64(reqs[i].Timestamp) && len(mon) < 4 {
					mon = append(mon, fmt.Sprintf("a VAA handed to the processor carries timestamp %d, the request says %d: %s", s, reqs[i].Timestamp, desc(i)))
				}
			}
		}
	}
	for i := range again {
		if !same(again[i], c[i]) && len(mon) < 4 {
			mon = append(mon, fmt.Sprintf("the same governance request sent again later to the same kind of node is answered differently (%s %v / %v, then %s %v / %v): %s", c[i].Code, c[i].Digests, c[i].Secs, again[i].Code, again[i].Digests, again[i].Secs, desc(i)))
		}
	}
	acc := 0
	for _, x := range a {
		if x.Code == "ok" {
			acc++
		}
	}
	o.emit(map[string]interface{}{"k": "c15srv", "requests": len(reqs), "accepted": acc, "nodes": 3, "mon": mon})
}
