//go:build verif

package guardiand

// A tiny interpreter for the payload-parsing statements of the Ralph governance contracts, used by the Go-side
// monitors of C15.  It reads the .ral sources at test time ($VERIF_RAL_DIR = <repo>/alephium/contracts), so that the
// monitor evaluates the contract text that is in the tree, not offsets copied into the harness.
//
// Only what depends on the payload is evaluated: `let x = e`, `x = e`, `assert!(e, code)` with e built from integer
// literals, `#hex` byte strings, names, + - * comparisons, size!, byteVecSlice!, u256From<N>Byte!, byteVecToAddress!
// (identity on the bytes).  Everything that refers to contract state (chain ids, sequences, guardian sets, ..) has the
// value "unknown"; an assertion whose value is unknown is skipped.  The VM aborts (abort != "") when a slice is out
// of range, a u256From<N>Byte! argument has not N bytes or an assertion is false.

import (
	"fmt"
	"math/big"
	"os"
	"path/filepath"
	"regexp"
	"strconv"
	"strings"
)

const (
	rvUnknown = iota
	rvNum
	rvBytes
	rvBool
)

type rval struct {
	k int
	n *big.Int
	b []byte
	t bool
}

func rnum(x int64) rval { return rval{k: rvNum, n: big.NewInt(x)} }

type ralAbort struct{ why string }

var ralTokRe = regexp.MustCompile(`^\s*(0x[0-9a-fA-F]+|\d+|#[0-9a-fA-F]*|[A-Za-z_]\w*(?:\.[A-Za-z_]\w*)*!?(?:\[\d+\])?|\+\+|==|!=|>=|<=|\|\||&&|[-+*/()<>,!])`)

func ralLex(s string) ([]string, bool) {
	var toks []string
	for {
		s = strings.TrimLeft(s, " \t")
		if s == "" {
			return toks, true
		}
		m := ralTokRe.FindStringSubmatch(s)
		if m == nil {
			return toks, false
		}
		toks = append(toks, m[1])
		s = s[len(m[0]):]
	}
}

type ralParser struct {
	toks []string
	pos  int
	env  map[string]rval
	bad  bool // syntax not understood
}

func (p *ralParser) peek() string {
	if p.pos < len(p.toks) {
		return p.toks[p.pos]
	}
	return ""
}
func (p *ralParser) eat() string { t := p.peek(); p.pos++; return t }

func (p *ralParser) expr() rval { return p.orE() }

func (p *ralParser) orE() rval {
	a := p.andE()
	for p.peek() == "||" {
		p.eat()
		b := p.andE()
		switch {
		case a.k == rvBool && a.t, b.k == rvBool && b.t:
			a = rval{k: rvBool, t: true}
		case a.k == rvBool && b.k == rvBool:
			a = rval{k: rvBool, t: false}
		default:
			a = rval{}
		}
	}
	return a
}

func (p *ralParser) andE() rval {
	a := p.cmpE()
	for p.peek() == "&&" {
		p.eat()
		b := p.cmpE()
		switch {
		case a.k == rvBool && !a.t, b.k == rvBool && !b.t:
			a = rval{k: rvBool, t: false}
		case a.k == rvBool && b.k == rvBool:
			a = rval{k: rvBool, t: true}
		default:
			a = rval{}
		}
	}
	return a
}

func (p *ralParser) cmpE() rval {
	a := p.addE()
	switch op := p.peek(); op {
	case "==", "!=", ">", ">=", "<", "<=":
		p.eat()
		b := p.addE()
		if a.k == rvNum && b.k == rvNum {
			c := a.n.Cmp(b.n)
			r := map[string]bool{"==": c == 0, "!=": c != 0, ">": c > 0, ">=": c >= 0, "<": c < 0, "<=": c <= 0}[op]
			return rval{k: rvBool, t: r}
		}
		if a.k == rvBytes && b.k == rvBytes && (op == "==" || op == "!=") {
			eq := string(a.b) == string(b.b)
			return rval{k: rvBool, t: eq == (op == "==")}
		}
		return rval{}
	}
	return a
}

func (p *ralParser) addE() rval {
	a := p.mulE()
	for {
		op := p.peek()
		if op != "+" && op != "-" && op != "++" {
			return a
		}
		p.eat()
		b := p.mulE()
		switch {
		case op == "++" && a.k == rvBytes && b.k == rvBytes:
			a = rval{k: rvBytes, b: append(append([]byte{}, a.b...), b.b...)}
		case op == "+" && a.k == rvNum && b.k == rvNum:
			a = rval{k: rvNum, n: new(big.Int).Add(a.n, b.n)}
		case op == "-" && a.k == rvNum && b.k == rvNum:
			d := new(big.Int).Sub(a.n, b.n)
			if d.Sign() < 0 {
				panic(ralAbort{"U256 underflow"})
			}
			a = rval{k: rvNum, n: d}
		default:
			a = rval{}
		}
	}
}

func (p *ralParser) mulE() rval {
	a := p.unary()
	for {
		op := p.peek()
		if op != "*" && op != "/" {
			return a
		}
		p.eat()
		b := p.unary()
		switch {
		case op == "*" && a.k == rvNum && b.k == rvNum:
			a = rval{k: rvNum, n: new(big.Int).Mul(a.n, b.n)}
		case op == "/" && a.k == rvNum && b.k == rvNum && b.n.Sign() != 0:
			a = rval{k: rvNum, n: new(big.Int).Div(a.n, b.n)}
		default:
			a = rval{}
		}
	}
}

var ralU256From = regexp.MustCompile(`^u256From(\d+)Byte!$`)

func (p *ralParser) unary() rval {
	t := p.eat()
	switch {
	case t == "":
		p.bad = true
		return rval{}
	case t == "!":
		a := p.unary()
		if a.k == rvBool {
			return rval{k: rvBool, t: !a.t}
		}
		return rval{}
	case t == "-":
		p.unary()
		return rval{}
	case t == "(":
		a := p.expr()
		if p.eat() != ")" {
			p.bad = true
		}
		return a
	case strings.HasPrefix(t, "0x"):
		n, _ := new(big.Int).SetString(t[2:], 16)
		return rval{k: rvNum, n: n}
	case t[0] >= '0' && t[0] <= '9':
		n, _ := new(big.Int).SetString(t, 10)
		return rval{k: rvNum, n: n}
	case t[0] == '#':
		if len(t)%2 != 1 {
			p.bad = true
			return rval{}
		}
		b := make([]byte, (len(t)-1)/2)
		for i := range b {
			x, _ := strconv.ParseUint(t[1+2*i:3+2*i], 16, 8)
			b[i] = byte(x)
		}
		return rval{k: rvBytes, b: b}
	}
	// name or call
	if p.peek() != "(" {
		if v, ok := p.env[t]; ok {
			return v
		}
		return rval{}
	}
	p.eat()
	var args []rval
	if p.peek() == ")" {
		p.eat()
	} else {
		for {
			args = append(args, p.expr())
			s := p.eat()
			if s == ")" {
				break
			}
			if s != "," {
				p.bad = true
				return rval{}
			}
		}
	}
	switch {
	case t == "size!" && len(args) == 1:
		if args[0].k == rvBytes {
			return rnum(int64(len(args[0].b)))
		}
	case t == "byteVecSlice!" && len(args) == 3:
		if args[0].k == rvBytes && args[1].k == rvNum && args[2].k == rvNum {
			l := big.NewInt(int64(len(args[0].b)))
			if args[1].n.Cmp(args[2].n) > 0 || args[2].n.Cmp(l) > 0 {
				panic(ralAbort{fmt.Sprintf("byteVecSlice!(_, %s, %s) out of range of %d bytes", args[1].n, args[2].n, len(args[0].b))})
			}
			return rval{k: rvBytes, b: args[0].b[args[1].n.Int64():args[2].n.Int64()]}
		}
	case t == "byteVecToAddress!" && len(args) == 1:
		return args[0]
	case ralU256From.MatchString(t) && len(args) == 1:
		w, _ := strconv.Atoi(ralU256From.FindStringSubmatch(t)[1])
		if args[0].k == rvBytes {
			if len(args[0].b) != w {
				panic(ralAbort{fmt.Sprintf("%s applied to %d bytes", t, len(args[0].b))})
			}
			return rval{k: rvNum, n: new(big.Int).SetBytes(args[0].b)}
		}
	}
	return rval{}
}

type ralRun struct {
	env      map[string]rval
	asserted []string // text of the assertions that were evaluated (and held)
	abort    string
	abortAt  string
}

var (
	ralLetRe    = regexp.MustCompile(`^let (?:mut )?(\w+) = (.+)$`)
	ralAssignRe = regexp.MustCompile(`^(\w+(?:\[\d+\])?) = (.+)$`)
	ralAssertRe = regexp.MustCompile(`^assert!\((.+)\)$`)
)

func ralFnBody(src, name string) (string, bool) {
	m := regexp.MustCompile(`\bfn ` + regexp.QuoteMeta(name) + `\(`).FindStringIndex(src)
	if m == nil {
		return "", false
	}
	i := strings.Index(src[m[1]:], "{\n")
	if i < 0 {
		return "", false
	}
	i += m[1]
	depth := 0
	for j := i; j < len(src); j++ {
		switch src[j] {
		case '{':
			depth++
		case '}':
			depth--
			if depth == 0 {
				return src[i+1 : j], true
			}
		}
	}
	return "", false
}

// run the payload-dependent statements of one function body; skip names the assertion `skip` (if non-empty) occurs in
func ralExec(body string, env0 map[string]rval, skip string) (res ralRun) {
	res.env = map[string]rval{}
	for k, v := range env0 {
		res.env[k] = v
	}
	for _, line := range strings.Split(body, "\n") {
		if i := strings.Index(line, "//"); i >= 0 {
			line = line[:i]
		}
		line = strings.TrimSpace(line)
		var name, rhs string
		isAssert := false
		if m := ralLetRe.FindStringSubmatch(line); m != nil {
			name, rhs = m[1], m[2]
		} else if m := ralAssertRe.FindStringSubmatch(line); m != nil {
			rhs, isAssert = m[1], true
		} else if m := ralAssignRe.FindStringSubmatch(line); m != nil {
			name, rhs = m[1], m[2]
		} else {
			continue
		}
		if isAssert && skip != "" && strings.Contains(rhs, skip) {
			continue
		}
		toks, ok := ralLex(rhs)
		v := rval{}
		if ok {
			func() {
				defer func() {
					if r := recover(); r != nil {
						if a, isA := r.(ralAbort); isA {
							res.abort, res.abortAt = a.why, line
							return
						}
						panic(r)
					}
				}()
				p := &ralParser{toks: toks, env: res.env}
				v = p.expr()
				if p.bad || (!isAssert && p.pos != len(p.toks)) {
					v = rval{}
				}
			}()
			if res.abort != "" {
				return
			}
		}
		if isAssert {
			if v.k == rvBool {
				if !v.t {
					res.abort, res.abortAt = "assertion failed", line
					return
				}
				res.asserted = append(res.asserted, rhs)
			}
			continue
		}
		res.env[name] = v
	}
	return
}

type ralFile struct {
	src    string
	consts map[string]rval
	module string // name of the module constant handed to parseAndVerifyGovernanceVAAGeneric
}

type ralContracts struct {
	gov, tb     *ralFile
	generic     string // body of parseAndVerifyGovernanceVAAGeneric
	upgradeFrom int    // first offset parseContractUpgrade reads
	err         string
}

var (
	ralConstRe = regexp.MustCompile(`(?m)^\s*const (\w+) = (0x[0-9a-fA-F]+|\d+|#[0-9a-fA-F]*)\b`)
	ralEnumRe  = regexp.MustCompile(`(?s)enum ActionId \{(.*?)\}`)
	ralEnumEl  = regexp.MustCompile(`(\w+)\s*=\s*(#[0-9a-fA-F]*)`)
	ralGenCall = regexp.MustCompile(`parseAndVerifyGovernanceVAAGeneric\(vaa, receivedSequence, (\w+), action\)`)
	ralActCall = regexp.MustCompile(`parseAndVerifyGovernanceVAA\(vaa, (ActionId\.\w+)\)`)
	ralUpgRe   = regexp.MustCompile(`byteVecSlice!\(payload, (\d+), `)
)

func ralLoadFile(path string) (*ralFile, error) {
	b, err := os.ReadFile(path)
	if err != nil {
		return nil, err
	}
	f := &ralFile{src: string(b), consts: map[string]rval{}}
	lit := func(s string) rval {
		toks, _ := ralLex(s)
		p := &ralParser{toks: toks, env: nil}
		return p.expr()
	}
	for _, m := range ralConstRe.FindAllStringSubmatch(f.src, -1) {
		f.consts[m[1]] = lit(m[2])
	}
	if m := ralEnumRe.FindStringSubmatch(f.src); m != nil {
		for _, e := range ralEnumEl.FindAllStringSubmatch(m[1], -1) {
			f.consts["ActionId."+e[1]] = lit(e[2])
		}
	}
	if m := ralGenCall.FindStringSubmatch(f.src); m != nil {
		f.module = m[1]
	} else {
		return nil, fmt.Errorf("%s: call of parseAndVerifyGovernanceVAAGeneric not found", path)
	}
	if _, ok := f.consts[f.module]; !ok {
		return nil, fmt.Errorf("%s: module constant %s not found", path, f.module)
	}
	return f, nil
}

func ralLoad() *ralContracts {
	dir := os.Getenv("VERIF_RAL_DIR")
	c := &ralContracts{}
	var err error
	if c.gov, err = ralLoadFile(filepath.Join(dir, "governance.ral")); err != nil {
		c.err = err.Error()
		return c
	}
	if c.tb, err = ralLoadFile(filepath.Join(dir, "token_bridge", "token_bridge_governance.ral")); err != nil {
		c.err = err.Error()
		return c
	}
	var ok bool
	if c.generic, ok = ralFnBody(c.gov.src, "parseAndVerifyGovernanceVAAGeneric"); !ok {
		c.err = "governance.ral: parseAndVerifyGovernanceVAAGeneric not found"
		return c
	}
	fb, err := os.ReadFile(filepath.Join(dir, "token_bridge", "token_bridge_factory.ral"))
	if err != nil {
		c.err = err.Error()
		return c
	}
	body, ok := ralFnBody(string(fb), "parseContractUpgrade")
	if !ok {
		c.err = "token_bridge_factory.ral: parseContractUpgrade not found"
		return c
	}
	m := ralUpgRe.FindStringSubmatch(body)
	if m == nil {
		c.err = "parseContractUpgrade: first payload slice not found"
		return c
	}
	c.upgradeFrom, _ = strconv.Atoi(m[1])
	return c
}

// what the contract does with a payload for the entry point fn of file f: first the module/action test of
// parseAndVerifyGovernanceVAAGeneric (with the module constant and the ActionId the entry point passes), then the
// payload statements of the entry point itself.  problems = reasons why the interpretation is not conclusive.
// module != nil replaces the file's module constant (requests that name their module themselves).
func (c *ralContracts) parse(f *ralFile, fn string, payload []byte, skip string, module *big.Int) (run ralRun, problems []string) {
	body, ok := ralFnBody(f.src, fn)
	if !ok {
		return run, []string{"ral: function " + fn + " not found"}
	}
	m := ralActCall.FindStringSubmatch(body)
	if m == nil {
		return run, []string{"ral: " + fn + " does not call parseAndVerifyGovernanceVAA(vaa, ActionId.X)"}
	}
	act, ok := f.consts[m[1]]
	if !ok || act.k != rvBytes {
		return run, []string{"ral: " + m[1] + " not defined"}
	}
	mod := f.consts[f.module]
	if module != nil {
		mod = rval{k: rvNum, n: module}
	}
	g := ralExec(c.generic, map[string]rval{"payload": {k: rvBytes, b: payload}, "coreModule": mod, "action": act}, "")
	if g.abort != "" {
		g.abort = "parseAndVerifyGovernanceVAAGeneric: " + g.abort
		return g, nil
	}
	np := 0
	for _, a := range g.asserted {
		if strings.Contains(a, "payload") {
			np++
		}
	}
	if np < 2 {
		problems = append(problems, "ral: module/action assertions of parseAndVerifyGovernanceVAAGeneric not recognised")
	}
	env := map[string]rval{"payload": {k: rvBytes, b: payload}}
	for k, v := range f.consts {
		env[k] = v
	}
	run = ralExec(body, env, skip)
	return run, problems
}

func (r *ralRun) num(name string) (*big.Int, bool) {
	v, ok := r.env[name]
	if !ok || v.k != rvNum {
		return nil, false
	}
	return v.n, true
}
func (r *ralRun) bytes(name string) ([]byte, bool) {
	v, ok := r.env[name]
	if !ok || v.k != rvBytes {
		return nil, false
	}
	return v.b, true
}
func (r *ralRun) sizeAsserted() bool {
	for _, a := range r.asserted {
		if strings.Contains(a, "size!(payload) ==") {
			return true
		}
	}
	return false
}
