//go:build verif

package alephium

// Simulated Alephium full node (the ten REST endpoints the Client uses) with a scripted chain: blocks that can be
// orphaned and re-included, an append-only event stream of the governance contract of which only a prefix is visible,
// transactions with events of several contracts, token contracts with scripted multicall answers, injected API errors.

import (
	"encoding/json"
	"fmt"
	"io"
	"net/http"
	"strconv"
	"strings"
	"sync"
)

type verifWBlock struct {
	id     int
	hash   string
	ts     int64
	height int32
	main   bool
}

type verifWVal struct{ Typ, Val string }

type verifWCall struct {
	failed bool
	rets   []verifWVal
}

// multicall answer of one token contract
type verifWMc struct {
	apiErr bool
	calls  []verifWCall
	good   bool // ground truth: three succeeded calls with one well-typed return each
	dec    int
	sym    string
	name   string
	shape  string
	// metadata the token contract reported before its last change (nil: never changed) and the answer it gave at the start
	prev *verifWMeta
	row0 map[string]interface{}
}

type verifWMeta struct {
	dec  int
	sym  string
	name string
}

// what an attestation payload claims
type verifWTok struct {
	id   int
	dec  int
	sym  []byte
	name []byte
}

type verifWEvent struct {
	uid      int
	blk      *verifWBlock
	tx       int
	contract int // 0 = the governance contract, n > 0 = another contract
	index    int32
	fields   []map[string]interface{}
	// ground truth by construction
	conv    bool
	sender  int // 1 = configured token bridge
	cl      int
	kind    string
	tok     *verifWTok
	what    string
	payload []byte
	nonce   uint32
	target  int
	// family "fields" (zz_verifw_pipe_test.go): the uid travels in the nonce, the other fields take boundary values
	seq        uint64 // ground truth of the sequence field (other families: the uid)
	senderB    []byte // ground truth of the sender field
	uidInNonce bool
	attOK      int // attestation-shaped event: 1 / 2 = its metadata did / did not equal what the token contract reported when the poll validated it
	txid       string // the tx id string the node reports for the event on the polling path
}

type verifWTx struct {
	n      int
	id     string
	events []*verifWEvent // events of all contracts, in the order the node lists them
	blocks []*verifWBlock // blocks that contain the transaction
	status int            // index into blocks of the block /transactions/status names; -1 = MemPooled, -2 = TxNotFound
}

type verifWPageScript struct {
	land int // events that become visible just before this page request is answered
	size int
}

type verifWPageRec struct {
	start int32
	uids  []int
	next  int32
	err   bool
}

type verifWPollScript struct {
	landBefore int
	cntErr     bool
	cnt404     bool
	pages      []verifWPageScript
	pageErrAt  int // 1-based page request that fails, 0 = none
	// recorded
	consumed bool
	count    int32
	served   []verifWPageRec
	nreq     int
	spin     bool
	errHit   bool
	multi    int
}

const verifWSpinLimit = 2000

type verifWSim struct {
	mu      sync.Mutex
	gov     string
	blocks  map[string]*verifWBlock
	log     []*verifWEvent
	visible int
	txs     map[string]*verifWTx
	tokens  map[string]*verifWMc // by contract address
	height  int32

	errAt  map[string]int
	seen   map[string]int
	errHit map[string]bool
	hdrErr int // id of the block whose header request failed, -1 = none

	from      int32
	script    *verifWPollScript
	cur       *verifWPollScript
	awaitIdle bool
	idleC     chan struct{}
	badReq    []string
	quiet     bool
	nreqTotal int
	free      *verifWFree // non-nil: free-running mode (zz_verifw_run_test.go), no scripted polls
	gates     map[string]*verifWGate // is-block-in-main-chain of this block hash waits (once) until the gate is opened
}

type verifWGate struct {
	open    chan struct{}
	reached chan struct{} // closed when the gated request has arrived
}

func verifWNewSim(gov string) *verifWSim {
	return &verifWSim{gov: gov, blocks: map[string]*verifWBlock{}, txs: map[string]*verifWTx{}, tokens: map[string]*verifWMc{},
		errAt: map[string]int{}, seen: map[string]int{}, errHit: map[string]bool{}, hdrErr: -1, idleC: make(chan struct{}, 1)}
}

// resetStep is called (under mu) before every step of a history
func (s *verifWSim) resetStep(errAt map[string]int) {
	s.errAt = errAt
	if s.errAt == nil {
		s.errAt = map[string]int{}
	}
	s.seen = map[string]int{}
	s.errHit = map[string]bool{}
	s.hdrErr = -1
}

func (s *verifWSim) fail(ep string) bool {
	s.seen[ep]++
	if s.errAt[ep] != 0 && s.errAt[ep] == s.seen[ep] {
		s.errHit[ep] = true
		return true
	}
	return false
}

func verifWErr(w http.ResponseWriter, code int) {
	w.Header().Set("Content-Type", "application/json")
	w.WriteHeader(code)
	io.WriteString(w, `{"detail":"verif: injected error"}`)
}

func verifWJSON(w http.ResponseWriter, v interface{}) {
	w.Header().Set("Content-Type", "application/json")
	json.NewEncoder(w).Encode(v)
}

func (s *verifWSim) ServeHTTP(w http.ResponseWriter, r *http.Request) {
	s.mu.Lock()
	defer s.mu.Unlock()
	s.nreqTotal++
	p := r.URL.Path
	switch {
	case strings.HasPrefix(p, "/events/contract/"):
		rest := p[len("/events/contract/"):]
		if strings.HasSuffix(rest, "/current-count") {
			s.serveCount(w, strings.TrimSuffix(rest, "/current-count"))
		} else {
			s.servePage(w, rest, r.URL.Query().Get("start"))
		}
	case strings.HasPrefix(p, "/events/tx-id/"):
		if s.fail("txevents") {
			verifWErr(w, 500)
			return
		}
		tx := s.txs[p[len("/events/tx-id/"):]]
		evs := []interface{}{}
		if tx != nil {
			for _, e := range tx.events {
				evs = append(evs, map[string]interface{}{"blockHash": e.blk.hash, "contractAddress": s.contractAddr(e.contract), "eventIndex": e.index, "fields": e.fields})
			}
		}
		verifWJSON(w, map[string]interface{}{"events": evs})
	case p == "/transactions/status":
		if s.fail("status") {
			verifWErr(w, 500)
			return
		}
		tx := s.txs[r.URL.Query().Get("txId")]
		switch {
		case tx == nil || tx.status == -2:
			verifWJSON(w, map[string]interface{}{"type": "TxNotFound"})
		case tx.status == -1:
			verifWJSON(w, map[string]interface{}{"type": "MemPooled"})
		default:
			verifWJSON(w, map[string]interface{}{"type": "Confirmed", "blockHash": tx.blocks[tx.status].hash, "txIndex": 0,
				"chainConfirmations": 1, "fromGroupConfirmations": 1, "toGroupConfirmations": 1})
		}
	case strings.HasPrefix(p, "/blockflow/headers/"):
		b := s.blocks[p[len("/blockflow/headers/"):]]
		if s.fail("header") {
			if b != nil {
				s.hdrErr = b.id
			}
			verifWErr(w, 500)
			return
		}
		if b == nil {
			s.badReq = append(s.badReq, "header of unknown block "+p)
			verifWErr(w, 404)
			return
		}
		verifWJSON(w, map[string]interface{}{"hash": b.hash, "timestamp": b.ts, "chainFrom": 0, "chainTo": 0, "height": b.height, "deps": []string{}})
	case p == "/blockflow/is-block-in-main-chain":
		if s.fail("mainchain") {
			verifWErr(w, 500)
			return
		}
		if g := s.gates[r.URL.Query().Get("blockHash")]; g != nil {
			delete(s.gates, r.URL.Query().Get("blockHash")) // only the first request is slow
			close(g.reached)
			s.mu.Unlock() // (the node keeps answering other requests meanwhile)
			<-g.open
			s.mu.Lock()
		}
		b := s.blocks[r.URL.Query().Get("blockHash")]
		if b == nil {
			s.badReq = append(s.badReq, "main-chain query for unknown block "+r.URL.RawQuery)
			verifWErr(w, 404)
			return
		}
		verifWJSON(w, b.main)
	case p == "/blockflow/chain-info":
		if s.fail("height") {
			verifWErr(w, 500)
			return
		}
		verifWJSON(w, map[string]interface{}{"currentHeight": s.height})
	case p == "/contracts/multicall-contract":
		s.serveMulticall(w, r)
	case p == "/infos/version":
		verifWJSON(w, map[string]interface{}{"version": "v2.5.6"})
	case p == "/infos/self-clique":
		verifWJSON(w, map[string]interface{}{"cliqueId": "00", "nodes": []interface{}{}, "selfReady": true, "synced": true})
	default:
		s.badReq = append(s.badReq, "unknown endpoint "+p)
		verifWErr(w, 404)
	}
}

func (s *verifWSim) contractAddr(c int) string {
	if c == 0 {
		return s.gov
	}
	a, _ := ToContractAddress(fmt.Sprintf("%062x%02x", 0xc0de, c))
	return *a
}

func (s *verifWSim) serveCount(w http.ResponseWriter, addr string) {
	if addr != s.gov {
		s.badReq = append(s.badReq, "event count requested for contract "+addr+" (not the configured governance contract)")
	}
	if s.free != nil {
		s.free.countReqs++
		if s.visible == len(s.log) && s.free.pagedTo >= len(s.log) {
			s.free.countsAfterFull++ // fetchEvents is polling the count again: the last batch has been handed over
		}
		if !s.free.first {
			s.free.first = true
			close(s.free.started)
		}
		verifWJSON(w, int32(s.visible))
		return
	}
	if s.script == nil {
		if s.awaitIdle {
			s.awaitIdle = false
			select {
			case s.idleC <- struct{}{}:
			default:
			}
		}
		verifWJSON(w, s.from)
		return
	}
	ps := s.script
	s.script = nil
	s.cur = ps
	ps.consumed = true
	s.visible += ps.landBefore
	if s.visible > len(s.log) {
		s.visible = len(s.log)
	}
	if ps.cntErr {
		ps.errHit = true
		s.cur = nil
		verifWErr(w, 500)
		return
	}
	if ps.cnt404 {
		ps.count = 0
		s.awaitIdle = ps.count == s.from
		verifWErr(w, 404)
		return
	}
	ps.count = int32(s.visible)
	s.awaitIdle = ps.count == s.from
	verifWJSON(w, ps.count)
}

func (s *verifWSim) servePage(w http.ResponseWriter, addr string, startS string) {
	if addr != s.gov {
		s.badReq = append(s.badReq, "events requested for contract "+addr+" (not the configured governance contract)")
	}
	start64, err := strconv.ParseInt(startS, 10, 32)
	if err != nil {
		s.badReq = append(s.badReq, "page request without start")
		verifWErr(w, 400)
		return
	}
	start := int(start64)
	if s.free != nil {
		f := s.free
		f.pageReqs++
		if f.landEvery > 0 && f.pageReqs%f.landEvery == 0 && s.visible < len(s.log) {
			s.visible++ // an event lands between the count request and this page request
		}
		if start < 0 {
			start = 0
		}
		end := start + f.pageSize
		if end > s.visible {
			end = s.visible
		}
		evs := []interface{}{}
		for i := start; i < end; i++ {
			e := s.log[i]
			evs = append(evs, map[string]interface{}{"blockHash": e.blk.hash, "txId": verifWTxId(e.tx), "eventIndex": e.index, "fields": e.fields})
		}
		next := start
		if end > start {
			next = end
		}
		if next > f.pagedTo {
			f.pagedTo = next
			f.countsAfterFull = 0
		}
		verifWJSON(w, map[string]interface{}{"events": evs, "nextStart": next})
		return
	}
	ps := s.cur
	if ps == nil {
		if !s.quiet {
			s.badReq = append(s.badReq, "page request outside a poll")
		}
		verifWErr(w, 500)
		return
	}
	k := ps.nreq
	ps.nreq++
	if ps.nreq > verifWSpinLimit {
		ps.spin = true
		verifWErr(w, 500)
		return
	}
	if ps.pageErrAt != 0 && ps.pageErrAt == ps.nreq {
		ps.errHit = true
		if len(ps.served) < 64 {
			ps.served = append(ps.served, verifWPageRec{start: int32(start), err: true})
		}
		verifWErr(w, 500)
		return
	}
	sc := ps.pages[len(ps.pages)-1]
	if k < len(ps.pages) {
		sc = ps.pages[k]
		s.visible += sc.land
		if s.visible > len(s.log) {
			s.visible = len(s.log)
		}
	}
	end := start + sc.size
	if end > s.visible {
		end = s.visible
	}
	if start < 0 {
		start = 0
	}
	evs := []interface{}{}
	uids := []int{}
	for i := start; i < end; i++ {
		e := s.log[i]
		evs = append(evs, map[string]interface{}{"blockHash": e.blk.hash, "txId": verifWTxId(e.tx), "eventIndex": e.index, "fields": e.fields})
		uids = append(uids, e.uid)
	}
	next := int32(start + len(uids))
	if len(ps.served) < 64 {
		ps.served = append(ps.served, verifWPageRec{start: int32(start64), uids: uids, next: next})
	}
	s.from = next
	verifWJSON(w, map[string]interface{}{"events": evs, "nextStart": next})
}

func (s *verifWSim) serveMulticall(w http.ResponseWriter, r *http.Request) {
	var body struct {
		Calls []struct {
			Group       int32  `json:"group"`
			Address     string `json:"address"`
			MethodIndex int32  `json:"methodIndex"`
		} `json:"calls"`
	}
	json.NewDecoder(r.Body).Decode(&body)
	if s.cur != nil {
		s.cur.multi++
	}
	if len(body.Calls) == 0 {
		s.badReq = append(s.badReq, "multicall without calls")
		verifWErr(w, 400)
		return
	}
	mc := s.tokens[body.Calls[0].Address]
	if mc == nil {
		s.badReq = append(s.badReq, "multicall to unknown contract "+body.Calls[0].Address)
		verifWErr(w, 404)
		return
	}
	if mc.apiErr {
		verifWErr(w, 500)
		return
	}
	res := []interface{}{}
	for _, c := range mc.calls {
		if c.failed {
			res = append(res, map[string]interface{}{"type": "CallContractFailed", "error": "VM execution error"})
			continue
		}
		rets := []interface{}{}
		for _, v := range c.rets {
			if v.Typ == "Bool" {
				rets = append(rets, map[string]interface{}{"type": "Bool", "value": true})
			} else {
				rets = append(rets, map[string]interface{}{"type": v.Typ, "value": v.Val})
			}
		}
		res = append(res, map[string]interface{}{"type": "CallContractSucceeded", "returns": rets, "gasUsed": 1000,
			"contracts": []interface{}{}, "txInputs": []interface{}{}, "txOutputs": []interface{}{}, "events": []interface{}{}})
	}
	verifWJSON(w, map[string]interface{}{"results": res})
}

func verifWTxId(n int) string    { return fmt.Sprintf("%056x%08x", 0x7a7a, n) }
func verifWBlockHash(n int) string { return fmt.Sprintf("%056x%08x", 0xb10c, n) }
