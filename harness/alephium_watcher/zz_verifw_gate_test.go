//go:build verif

package alephium

// Liveness on the real goroutines of Watcher.Run (C09: "never stalls the watcher"): the block poller must be on while events are
// pending.  verifWOffWatch is sampled by every free-running scenario: the whole stream has been fetched and handed over (fetchEvents
// is polling the count again), an event that must be forwarded has been final for N seconds, it has not come out, and the block
// poller is OFF - for N seconds without interruption: nobody polls the chain height any more, the event is never forwarded.
// verifWGateScenario forces the interleaving in which this can happen: the simulated node answers ONE is-block-in-main-chain
// request late (the event loop sits inside process() for the pending events of block A), meanwhile fetchEvents fetches the events of
// block B and waits at the hand-over on the unbuffered eventsC; then the node answers, process() confirms everything pending
// (pending map empty), and only then the batch is received.

import (
	"context"
	"fmt"
	"sort"
	"sync"
	"sync/atomic"
	"time"

	"github.com/alephium/wormhole-fork/node/pkg/supervisor"
	"go.uber.org/zap"
)

const verifWOffMs = 5000

type verifWOffWatch struct {
	must     map[int]int64 // events that must be forwarded -> wall-clock time from which their hold time has elapsed
	offSince int64
}

// sample returns a finding once the condition has held for verifWOffMs without interruption
func (o *verifWOffWatch) sample(h *verifWHist, got map[int]bool, heightOKSince int64) string {
	now := time.Now().UnixMilli()
	if heightOKSince == 0 {
		return ""
	}
	sim := h.sim
	sim.mu.Lock()
	handedOver := sim.free != nil && sim.visible == len(sim.log) && sim.free.pagedTo >= len(sim.log) && sim.free.countsAfterFull >= 2
	sim.mu.Unlock()
	waiting := []int{}
	for u, th := range o.must {
		since := th
		if heightOKSince > since {
			since = heightOKSince
		}
		if !got[u] && now >= since+verifWOffMs {
			waiting = append(waiting, u)
		}
	}
	if !handedOver || len(waiting) == 0 || h.w.blockPollerEnabled.Load() {
		o.offSince = 0
		return ""
	}
	if o.offSince == 0 {
		o.offSince = now
	}
	if now-o.offSince < verifWOffMs {
		return ""
	}
	sort.Ints(waiting)
	e := h.events[waiting[0]]
	return fmt.Sprintf("final event never forwarded: block poller off with events pending - event %d (%s, level %d, block %d height %d, main chain) was fetched and handed to the event loop, "+
		"has been final for more than %d ms, and the block poller has been disabled for %d ms without interruption (%d such events); no height is polled any more",
		e.uid, e.kind, e.cl, e.blk.id, e.blk.height, verifWOffMs, now-o.offSince, len(waiting))
}

func verifWGateScenario(id int, seed uint64, out *verifWOut) map[string]interface{} {
	h := verifWNewHist(1<<19|id, seed, "run")
	r := h.r
	sim := h.sim
	t0 := time.Now().UnixMilli()
	h.t0 = time.UnixMilli(t0)
	base := int32(100 + r.below(50))
	bA := h.newBlock(base, 300, false) // old enough for every hold time
	bB := h.newBlock(base+1, 300, false)
	nA, nB := 1+id%3, 1+(id/3)%2
	for i := 0; i < nA; i++ {
		h.scriptEvent(bA, -1, verifWMeta{})
	}
	for i := 0; i < nB; i++ {
		h.scriptEvent(bB, -1, verifWMeta{})
	}
	gate := &verifWGate{open: make(chan struct{}), reached: make(chan struct{})}
	var openOnce sync.Once
	openGate := func() { openOnce.Do(func() { close(gate.open) }) }
	defer openGate()
	sim.mu.Lock()
	sim.visible = 0
	sim.height = base
	sim.free = &verifWFree{pageSize: 100, started: make(chan struct{})}
	sim.gates = map[string]*verifWGate{bA.hash: gate}
	sim.mu.Unlock()
	mon := []string{}
	flag := func(prop, key, msg string) { mon = append(mon, prop+"|"+key+"|"+msg) }
	evs := []interface{}{}
	for i, e := range sim.log {
		evs = append(evs, map[string]interface{}{"index": i, "uid": e.uid, "kind": e.kind, "cl": e.cl, "sender": e.sender, "well_formed": e.conv, "what": e.what, "fields": e.fields})
	}
	out.emitNow(map[string]interface{}{"k": "progress", "phase": "run", "id": id, "watcher": fmt.Sprintf("%p", h.w), "mainnet": h.mainnet, "pre": 0, "scripted": "gate",
		"page_size": 100, "land_every": 0, "stream": evs, "token_contracts": []interface{}{}})

	var rmu sync.Mutex
	recv := []verifWRecv{}
	cctx, ccancel := context.WithCancel(context.Background())
	go func() {
		for {
			select {
			case m := <-h.msgC:
				rmu.Lock()
				recv = append(recv, verifWRecv{m, time.Now().UnixMilli()})
				rmu.Unlock()
			case <-cctx.Done():
				return
			}
		}
	}()
	var emu sync.Mutex
	runErrs := []string{}
	var stopping atomic.Bool
	sctx, scancel := context.WithCancel(context.Background())
	supervisor.New(sctx, zap.NewNop(), func(ctx context.Context) error {
		err := h.w.Run(ctx)
		if ctx.Err() == nil && !stopping.Load() {
			emu.Lock()
			runErrs = append(runErrs, fmt.Sprint(err))
			emu.Unlock()
		}
		return err
	})
	hadRunErr := func() bool { emu.Lock(); defer emu.Unlock(); return len(runErrs) > 0 }
	waitFor := func(cond func() bool, d time.Duration) bool {
		end := time.Now().Add(d)
		for !cond() {
			if time.Now().After(end) {
				return false
			}
			time.Sleep(2 * time.Millisecond)
		}
		return true
	}
	staged := true // the interleaving could be set up (otherwise the scenario says nothing)
	select {
	case <-sim.free.started:
	case <-time.After(verifWWait):
		staged = false
	}
	var openedAt int64
	if staged {
		sim.mu.Lock()
		sim.visible = nA // the events of block A
		sim.mu.Unlock()
		select {
		case <-gate.reached: // the event loop is inside process(), waiting for the node's main-chain answer for block A
		case <-time.After(verifWWait):
			staged = false
		}
	}
	if staged {
		time.Sleep(time.Duration(100+r.below(300)) * time.Millisecond) // the height poller runs into its (blocked) hand-over of the old height
		sim.mu.Lock()
		sim.height = base + 1
		sim.visible = nA + nB // block B with its events arrives while block A is still being confirmed
		sim.mu.Unlock()
		staged = waitFor(func() bool { sim.mu.Lock(); defer sim.mu.Unlock(); return sim.free.pagedTo >= nA+nB }, verifWWait)
		time.Sleep(time.Duration(100+r.below(200)) * time.Millisecond) // fetchEvents is now waiting to hand the batch over
		openGate()                                                     // the node answers: everything pending is confirmed, the pending map becomes empty
		openedAt = time.Now().UnixMilli()
	}
	offw := &verifWOffWatch{must: map[int]int64{}}
	for _, e := range sim.log {
		offw.must[e.uid] = e.blk.ts + h.gtDuration(e)
	}
	deadline := time.Now().Add(25 * time.Second)
	for staged {
		rmu.Lock()
		got := map[int]bool{}
		for _, rc := range recv {
			if u, _ := h.msgUid(rc.m); u > 0 {
				got[u] = true
			}
		}
		rmu.Unlock()
		if len(got) == len(sim.log) || time.Now().After(deadline) || hadRunErr() {
			break
		}
		if msg := offw.sample(h, got, openedAt); msg != "" {
			flag("C09", "poller-off-with-events-pending", fmt.Sprintf("scripted free run %d (mainnet=%v; %d events of block %d being confirmed - the node answers their main-chain query late - while %d events of block %d are fetched and wait at the hand-over): %s",
				id, h.mainnet, nA, bA.id, nB, bB.id, msg))
			break
		}
		time.Sleep(10 * time.Millisecond)
	}
	time.Sleep(50 * time.Millisecond)
	stopping.Store(true)
	openGate()
	scancel()
	ccancel()
	sim.mu.Lock()
	countReqs, pageReqs := sim.free.countReqs, sim.free.pageReqs
	bad := append([]string{}, sim.badReq...)
	sim.quiet = true
	sim.mu.Unlock()
	h.srv.CloseClientConnections()
	h.srv.Close()

	rmu.Lock()
	defer rmu.Unlock()
	seen := map[int]int{}
	fw := []int{}
	hist := fmt.Sprintf("scripted free run %d (mainnet=%v, %d + %d events)", id, h.mainnet, nA, nB)
	for _, rc := range recv {
		u, badm := h.msgUid(rc.m)
		if badm != "" {
			flag("C08", "message-content", badm)
		}
		fw = append(fw, u)
		seen[u]++
		if seen[u] == 2 {
			flag("C08", "run-forwarded-twice", fmt.Sprintf("%s: forwarded event %d twice", hist, u))
		}
		if h.events[u] == nil {
			flag("C08", "run-unjustified", fmt.Sprintf("%s: forwarded a message (sequence %d) that matches no event of the governance stream", hist, rc.m.Sequence))
		}
	}
	sort.Ints(fw)
	clientTimeout := hadRunErr() // (any return of Run here is a request that failed inside the client: the node never errs in this scenario)
	if staged && !clientTimeout {
		already := false
		for _, m := range mon {
			if len(m) > 4 && m[:4] == "C09|" {
				already = true
			}
		}
		for _, e := range sim.log {
			if seen[e.uid] == 0 && !already {
				flag("C09", "run-not-forwarded", fmt.Sprintf("%s: event %d (transfer, level 0, block %d height %d, main chain, final) was not forwarded within the deadline", hist, e.uid, e.blk.id, e.blk.height))
				already = true
			}
		}
	}
	if len(bad) > 0 {
		flag("C08", "bad-request", "unexpected request at the simulated node: "+bad[0])
	}
	rowEvs := []interface{}{}
	for _, e := range sim.log {
		rowEvs = append(rowEvs, map[string]interface{}{"uid": e.uid, "kind": e.kind, "cl": e.cl, "sender": e.sender, "conv": e.conv, "what": e.what, "blk": e.blk.id, "main": e.blk.main,
			"blk_height": e.blk.height, "final_at_ms_after_start": e.blk.ts + h.gtDuration(e) - t0, "must": staged, "may": true})
	}
	return map[string]interface{}{"k": "run", "id": id, "scripted": "gate", "staged": staged, "mainnet": h.mainnet, "pre": 0, "page_size": 100, "land_every": 0,
		"low_height": base, "high_height": base + 1, "raise_ms_after_start": openedAt - t0, "events": rowEvs, "forwarded": fw, "count_requests": countReqs, "page_requests": pageReqs,
		"mon": mon, "ms": time.Now().UnixMilli() - t0, "client_timeout": clientTimeout}
}

const verifWGateBase = 1000

func verifWGateN() int {
	if verifWThorough() {
		return 18
	}
	return 6
}
