//go:build verif

package alephium

// Histories for C08 / C09: the REAL fetchEvents, handleEvents (handleEvents_ + handleConfirmedEvents), handleObsvRequest,
// validateAttestToken and GetTokenInfo run against the simulated node; every step's outputs are compared with the
// property statement evaluated on the simulated chain's ground truth (monitors, independent of the Coq model) and are
// recorded together with the node's answers so that the model can be run on the same history inside Coq.

import (
	"bytes"
	"context"
	"encoding/binary"
	"encoding/hex"
	"fmt"
	"math/big"
	"net/http/httptest"
	"os"
	"runtime/debug"
	"sort"
	"strconv"
	"strings"
	"sync"
	"testing"
	"time"

	"github.com/alephium/wormhole-fork/node/pkg/common"
	gossipv1 "github.com/alephium/wormhole-fork/node/pkg/proto/gossip/v1"
	"github.com/alephium/wormhole-fork/node/pkg/vaa"
	"go.uber.org/zap"
)

const verifWMinLevel = 205 // "max(consistency level, 205) block intervals" of the property statement
const verifWBlockMs = 16000 // one Alephium block interval in ms (the property statement's unit; deliberately not the package constant)

type verifWHist struct {
	id      int
	fam     string
	r       *verifWRng
	sim     *verifWSim
	srv     *httptest.Server
	w       *Watcher
	ctx     context.Context
	cancel  context.CancelFunc
	mainnet bool
	t0      time.Time

	msgC  chan *common.MessagePublication
	obsvC chan *gossipv1.ObservationRequest
	fErrC chan error
	fEvC  chan []*UnconfirmedEvent
	fPan  chan string
	hErrC chan error
	hEvC  chan []*UnconfirmedEvent
	hHtC  chan int32
	hPan  chan string
	oPan  chan string

	bridgeHex string
	govHex    string
	blocks    []*verifWBlock
	events    map[int]*verifWEvent // every event ever generated, by uid
	txs       []*verifWTx
	tokIds    []int
	tokById   map[int]*verifWMc
	nextUid   int
	pageSize  int

	// ground-truth bookkeeping of the monitors
	from0     int
	inflight  []*UnconfirmedEvent
	inflightU []int
	pend      map[int]bool // uids delivered to the event loop and neither forwarded nor dropped yet (ground truth)
	fwdCount  map[int]int  // forwards on the polling path
	fetched   map[int]int  // occurrences in batches
	maxCount  int32
	ambiguous bool
	dead      bool
	steps     []map[string]interface{}
	mon       []string
}

// die: the watcher instance has terminated (or is abandoned); what it still requests is no longer judged
func (h *verifWHist) die() {
	h.dead = true
	h.sim.mu.Lock()
	h.sim.quiet = true
	h.sim.mu.Unlock()
}

func (h *verifWHist) flag(prop, key, msg string) {
	h.mon = append(h.mon, prop+"|"+key+"|"+msg)
}

func verifWRecover(c chan string) {
	if p := recover(); p != nil {
		select {
		case c <- fmt.Sprint(p):
		default:
		}
	}
}

func verifWNewHist(id int, seed uint64, fam string) *verifWHist {
	r := &verifWRng{s: seed*0x9E3779B97F4A7C15 + uint64(id)*0xD1B54A32D192ED03 + 12345}
	h := &verifWHist{id: id, fam: fam, r: r, events: map[int]*verifWEvent{}, tokById: map[int]*verifWMc{}, pend: map[int]bool{},
		fwdCount: map[int]int{}, fetched: map[int]int{}, nextUid: 1, mon: []string{}, steps: []map[string]interface{}{}}
	h.govHex = fmt.Sprintf("%060x%04x", 0x90f, id&0xffff)
	h.bridgeHex = fmt.Sprintf("%060x%04x", 0xb41d9e, id&0xffff)
	govAddr, _ := ToContractAddress(h.govHex)
	h.sim = verifWNewSim(*govAddr)
	h.srv = httptest.NewServer(h.sim)
	h.mainnet = r.chance(1, 2)
	h.msgC = make(chan *common.MessagePublication, 8192)
	h.obsvC = make(chan *gossipv1.ObservationRequest)
	cfg := &common.ChainConfig{}
	cfg.Contracts.Governance = h.govHex
	cfg.Contracts.TokenBridge = h.bridgeHex
	w, err := NewAlephiumWatcher(h.srv.URL, "", cfg, common.ReadinessAlephiumSyncing, h.msgC, 2, h.obsvC, h.mainnet)
	if err != nil {
		panic(err)
	}
	h.w = w
	h.ctx, h.cancel = context.WithCancel(context.Background())
	h.fErrC, h.fEvC, h.fPan = make(chan error), make(chan []*UnconfirmedEvent), make(chan string, 1)
	h.hErrC, h.hEvC, h.hHtC, h.hPan = make(chan error), make(chan []*UnconfirmedEvent), make(chan int32), make(chan string, 1)
	h.oPan = make(chan string, 1)
	h.t0 = time.Now()
	return h
}

func (h *verifWHist) start() {
	logger := zap.NewNop()
	h.sim.mu.Lock()
	h.sim.from = int32(h.sim.visible)
	h.from0 = h.sim.visible
	h.sim.awaitIdle = true
	h.sim.mu.Unlock()
	go func() { defer verifWRecover(h.fPan); h.w.fetchEvents(h.ctx, logger, h.w.client, h.fErrC, h.fEvC) }()
	go func() { defer verifWRecover(h.hPan); h.w.handleEvents(h.ctx, logger, h.w.client, h.hErrC, h.hEvC, h.hHtC) }()
	go func() { defer verifWRecover(h.oPan); h.w.handleObsvRequest(h.ctx, logger, h.w.client) }()
	// fetchEvents initialises fromIndex from its first count request: wait until the node has answered it
	select {
	case <-h.sim.idleC:
	case <-time.After(verifWWait):
		h.flag("C09", "stall", "fetchEvents did not request the initial event count within 30 s")
		h.die()
	}
}

func (h *verifWHist) stop() {
	h.cancel()
	// release goroutines blocked on unbuffered sends so that they observe the cancellation
	go func() {
		t := time.After(300 * time.Millisecond)
		for {
			select {
			case <-h.fEvC:
			case <-h.fErrC:
			case <-h.hErrC:
			case <-t:
				return
			}
		}
	}()
	h.srv.CloseClientConnections()
	h.srv.Close()
}

// ------------------------------------------------------------------ world generation

var verifWLevels = []int{0, 0, 1, 1, 2, 3, 5, 10, 15, 62, 63, 64, 100, 203, 204, 205, 206, 207, 254, 255}
var verifWAgeSlots = []int{0, 1, 1, 2, 2, 3, 4, 5, 6, 10, 11, 15, 16, 62, 63, 64, 65, 100, 101, 204, 205, 206, 207, 208, 254, 255, 300}

func (h *verifWHist) newBlock(height int32, ageSlot int, plus bool) *verifWBlock {
	id := len(h.blocks) + 1
	d := int64(-5000)
	if plus {
		d = 5000
	}
	b := &verifWBlock{id: id, hash: verifWBlockHash(id + h.id<<12), ts: h.t0.UnixMilli() - int64(ageSlot)*verifWBlockMs - d, height: height, main: true}
	h.blocks = append(h.blocks, b)
	h.sim.blocks[b.hash] = b
	return b
}

func verifWPad32(s string, left bool) []byte {
	b := make([]byte, 32)
	if left {
		copy(b[32-len(s):], s)
	} else {
		copy(b, s)
	}
	return b
}

func (h *verifWHist) tokenIdBytes(id int) []byte {
	b := make([]byte, 32)
	if id != 0 {
		binary.BigEndian.PutUint32(b[0:4], 0x70c00000|uint32(h.id&0xffff))
		binary.BigEndian.PutUint32(b[24:28], uint32(id))
		b[31] = byte(id & 3)
	}
	return b
}

var verifWShapes = []string{"ok", "ok", "ok", "ok", "fail0", "fail1", "fail2", "failall", "arity0@0", "arity0@1", "arity0@2", "arity2@0", "arity2@1", "arity2@2",
	"type@0", "type@1", "type@2", "dec256", "n2", "n4", "n0", "apierr", "fail12", "fail01"}

func (h *verifWHist) newToken(shape string) int {
	id := len(h.tokIds) + 1
	r := h.r
	syms := []string{"USDT", "WETH", "ALPH", "X", "ABCDEFGHIJKLMNOPQRSTUVWXYZ012345", "tok-" + strconv.Itoa(id)}
	names := []string{"Tether USD", "Wrapped Ether", "Alephium", "N", "name " + strconv.Itoa(id)}
	mc := &verifWMc{dec: []int{0, 6, 8, 18, 77, 254, 255}[r.below(7)], sym: syms[r.below(len(syms))], name: names[r.below(len(names))], shape: shape}
	symB, nameB := []byte(mc.sym), []byte(mc.name)
	if r.chance(1, 3) {
		symB = verifWPad32(mc.sym, r.chance(1, 4)) // the token contract may return NUL-padded strings
	}
	if r.chance(1, 3) {
		nameB = verifWPad32(mc.name, false)
	}
	ok := func(v verifWVal) verifWCall { return verifWCall{rets: []verifWVal{v}} }
	calls := []verifWCall{ok(verifWVal{"ByteVec", hex.EncodeToString(symB)}), ok(verifWVal{"ByteVec", hex.EncodeToString(nameB)}), ok(verifWVal{"U256", strconv.Itoa(mc.dec)})}
	mc.good = shape == "ok"
	otherTypes := []verifWVal{{"U256", "7"}, {"Bool", ""}, {"Address", "1DrDyTr9RpRsQnDnXo2YRiPzPW4ooHX5LLoqXrqfMrpQH"}, {"I256", "-3"}}
	switch {
	case shape == "ok":
	case shape == "failall":
		calls = []verifWCall{{failed: true}, {failed: true}, {failed: true}}
	case shape == "fail12":
		calls[1], calls[2] = verifWCall{failed: true}, verifWCall{failed: true}
	case shape == "fail01":
		calls[0], calls[1] = verifWCall{failed: true}, verifWCall{failed: true}
	case strings.HasPrefix(shape, "fail"):
		calls[int(shape[4]-'0')] = verifWCall{failed: true}
	case strings.HasPrefix(shape, "arity0"):
		calls[int(shape[7]-'0')].rets = []verifWVal{}
	case strings.HasPrefix(shape, "arity2"):
		p := int(shape[7] - '0')
		calls[p].rets = append(calls[p].rets, calls[p].rets[0])
	case strings.HasPrefix(shape, "type"):
		p := int(shape[5] - '0')
		if p == 2 {
			calls[2].rets[0] = []verifWVal{{"ByteVec", "12"}, {"Bool", ""}, {"I256", "18"}}[r.below(3)]
		} else {
			calls[p].rets[0] = otherTypes[r.below(len(otherTypes))]
		}
	case shape == "dec256":
		calls[2].rets[0] = verifWVal{"U256", []string{"256", "257", "1000", "65536", "115792089237316195423570985008687907853269984665640564039457584007913129639935"}[r.below(5)]}
	case shape == "n2":
		calls = calls[:2]
	case shape == "n4":
		calls = append(calls, calls[0])
	case shape == "n0":
		calls = []verifWCall{}
	case shape == "apierr":
		mc.apiErr = true
	}
	mc.calls = calls
	h.tokIds = append(h.tokIds, id)
	h.tokById[id] = mc
	mc.row0 = h.tokenRow(id, mc)
	addr, _ := ToContractAddress(hex.EncodeToString(h.tokenIdBytes(id)))
	h.sim.tokens[*addr] = mc
	return id
}

func verifWField(typ string, val interface{}) map[string]interface{} {
	return map[string]interface{}{"type": typ, "value": val}
}

// newEvent generates one event of contract `contract` (0 = governance) in block b, transaction tx
func (h *verifWHist) newEvent(b *verifWBlock, tx *verifWTx, contract int, class string) *verifWEvent {
	r := h.r
	e := &verifWEvent{uid: h.nextUid, blk: b, tx: tx.n, contract: contract, index: 0, conv: true, sender: 1, kind: "transfer"}
	h.nextUid++
	e.cl = verifWLevels[r.below(len(verifWLevels))]
	e.target = []int{0, 1, 2, 4, 255, 65534}[r.below(6)]
	e.nonce = uint32(r.next())
	e.seq = uint64(e.uid)
	e.txid = verifWTxId(tx.n)
	if h.fam == "fields" {
		e.nonce = uint32(e.uid) // the observer identifies the event by its nonce: the sequence is free to take boundary values
	}
	sender, _ := hex.DecodeString(h.bridgeHex)
	plen := 20 + r.below(140)
	if h.fam == "fields" {
		plen = 3 + r.below(40) // (long payloads are generated by fieldsStage; short ones keep the Coq-side replay small)
	}
	payload := append([]byte{1}, r.bytes(plen)...)
	mkAttest := func(tokId int, dec int, sym, name string, left bool) []byte {
		p := []byte{2}
		p = append(p, h.tokenIdBytes(tokId)...)
		p = append(p, 0, byte(vaa.ChainIDAlephium))
		p = append(p, byte(dec))
		p = append(p, verifWPad32(sym, left)...)
		p = append(p, verifWPad32(name, false)...)
		e.tok = &verifWTok{id: tokId, dec: dec, sym: verifWPad32(sym, left), name: verifWPad32(name, false)}
		return p
	}
	switch class {
	case "transfer":
	case "foreign":
		e.sender = 2 + r.below(3)
		switch e.sender {
		case 2:
			sender, _ = hex.DecodeString(h.govHex)
		case 3:
			sender = make([]byte, 32)
		default:
			sender = append([]byte{}, sender...)
			pos := r.below(32)
			if h.fam == "fields" && r.chance(1, 2) {
				pos = []int{0, 31}[r.below(2)] // a sender that differs from the token bridge in its first / last byte only
			}
			sender[pos] ^= 1 << uint(r.below(8))
		}
		if r.chance(1, 3) {
			class = "attest" // a foreign attestation-shaped event: the metadata call happens before the sender filter
		}
	case "other":
		e.kind = "other"
		switch r.below(4) {
		case 0:
			payload = []byte{}
		case 1:
			payload = []byte{3}
		case 2:
			payload = append([]byte{0}, r.bytes(30)...)
		default:
			payload = append([]byte{byte(4 + r.below(250))}, r.bytes(99)...)
		}
	}
	if class == "attest" {
		e.kind = "attest"
		tid := 0
		nativeOneIn := 6
		if h.fam == "fields" {
			nativeOneIn = 3 // (attestations of the all-zero token id, canonical and forged)
		}
		if len(h.tokIds) > 0 && !r.chance(1, nativeOneIn) {
			tid = h.tokIds[r.below(len(h.tokIds))]
		}
		dec, sym, name := 18, "ALPH", "Alephium"
		if tid != 0 {
			mc := h.tokById[tid]
			dec, sym, name = mc.dec, mc.sym, mc.name
			if mc.prev != nil && r.chance(1, 2) {
				dec, sym, name = mc.prev.dec, mc.prev.sym, mc.prev.name // what the token contract reported BEFORE it changed
			}
		}
		switch r.below(10) {
		case 0:
			dec = (dec + 1 + r.below(200)) % 256
		case 1:
			sym = sym + "x"
			if len(sym) > 32 {
				sym = "y"
			}
		case 2:
			name = "not " + name
		case 3:
			if sym != name && len(name) <= 32 {
				sym, name = name, sym // symbol and name exchanged
			}
		}
		payload = mkAttest(tid, dec, sym, name, r.chance(1, 5))
		switch r.below(12) {
		case 0:
			payload = payload[:99]
			e.tok = nil
		case 1:
			payload = append(payload, 0)
			e.tok = nil
		case 2:
			payload[34] = byte(r.below(255)) // token chain id != 255
			e.tok = nil
		}
	}
	e.payload = payload
	f := []map[string]interface{}{verifWField("ByteVec", hex.EncodeToString(sender)), verifWField("U256", strconv.Itoa(e.target)),
		verifWField("U256", strconv.Itoa(e.uid)), verifWField("ByteVec", fmt.Sprintf("%08x", e.nonce)),
		verifWField("ByteVec", hex.EncodeToString(payload)), verifWField("U256", strconv.Itoa(e.cl))}
	if class == "malformed" {
		e.conv = false
		wrong := []map[string]interface{}{verifWField("Bool", true), verifWField("Address", "1DrDyTr9RpRsQnDnXo2YRiPzPW4ooHX5LLoqXrqfMrpQH"), verifWField("I256", "5"),
			verifWField("Array", []interface{}{})}
		switch r.below(12) {
		case 0:
			f[5] = verifWField("U256", []string{"256", "257", "1000", "4294967296", "115792089237316195423570985008687907853269984665640564039457584007913129639935"}[r.below(5)])
			e.what = "consistency level out of range"
		case 1:
			f[3] = verifWField("ByteVec", []string{"", "00", "010203", "0102030405"}[r.below(4)])
			e.what = "nonce not 4 bytes"
		case 2:
			f = f[:r.below(6)]
			e.what = "too few fields"
		case 3:
			f = append(f, verifWField("U256", "1"))
			e.what = "seven fields"
		case 4:
			f[0] = verifWField("ByteVec", hex.EncodeToString(r.bytes([]int{0, 20, 31, 33, 64}[r.below(5)])))
			e.what = "sender not 32 bytes"
		case 5:
			p := r.below(6)
			f[p] = wrong[r.below(len(wrong))]
			e.what = "wrong field type"
		case 6:
			f[1] = verifWField("U256", []string{"65536", "70000", "4294967297"}[r.below(3)])
			e.what = "target chain out of range"
		case 7:
			f[2] = verifWField("U256", []string{"18446744073709551616", "36893488147419103232"}[r.below(2)])
			e.what = "sequence out of range"
		case 8:
			e.index = []int32{1, 2, -1, 7}[r.below(4)]
			e.what = "other event index"
		case 9:
			f[4] = verifWField("U256", "17")
			e.what = "payload not a byte vector"
		case 10:
			f[5] = verifWField("ByteVec", "01")
			e.what = "level not a number"
		default:
			f[1], f[2] = f[2], f[0]
			e.what = "fields permuted"
		}
	}
	e.senderB = sender
	if h.fam == "fields" {
		f = h.fieldsStage(e, f)
	}
	e.fields = f
	h.events[e.uid] = e
	tx.events = append(tx.events, e)
	return e
}

func (h *verifWHist) newTx(b *verifWBlock) *verifWTx {
	tx := &verifWTx{n: len(h.txs) + 1 + h.id<<12, blocks: []*verifWBlock{b}, status: 0}
	tx.id = verifWTxId(tx.n)
	h.txs = append(h.txs, tx)
	h.sim.txs[tx.id] = tx
	return tx
}

var verifWClasses = []string{"transfer", "transfer", "transfer", "transfer", "transfer", "attest", "attest", "foreign", "malformed", "malformed", "other"}

// appendEvents adds n events (in new transactions of recent blocks) to the governance stream, not yet visible
func (h *verifWHist) appendEvents(n int) {
	r := h.r
	var tx *verifWTx
	for i := 0; i < n; i++ {
		b := h.blocks[len(h.blocks)-1-r.below(minInt(3, len(h.blocks)))]
		if tx == nil || tx.blocks[0] != b || r.chance(2, 3) {
			tx = h.newTx(b)
			// look-alike events of other contracts in the same transaction (never part of the governance stream)
			for r.chance(1, 4) {
				h.newEvent(b, tx, 1+r.below(3), []string{"transfer", "transfer", "attest", "malformed"}[r.below(4)])
			}
		}
		class := verifWClasses[r.below(len(verifWClasses))]
		if h.fam == "clean" && (class == "malformed") {
			class = "transfer"
		}
		if h.fam == "fields" && class == "malformed" && r.chance(2, 3) {
			class = "transfer" // (the fields stage makes its own share of events unfit)
		}
		e := h.newEvent(b, tx, 0, class)
		h.sim.log = append(h.sim.log, e)
	}
}

func minInt(a, b int) int {
	if a < b {
		return a
	}
	return b
}

// ------------------------------------------------------------------ ground truth (the property statement)

func verifWTrim(b []byte) string { return string(bytes.Trim(b, "\x00")) }

func (h *verifWHist) gtAttestValid(e *verifWEvent) bool {
	if e.tok == nil {
		return false
	}
	if e.tok.id == 0 {
		return e.tok.dec == 18 && verifWTrim(e.tok.sym) == "ALPH" && verifWTrim(e.tok.name) == "Alephium"
	}
	mc := h.tokById[e.tok.id]
	return mc != nil && mc.good && mc.dec == e.tok.dec && mc.sym == verifWTrim(e.tok.sym) && mc.name == verifWTrim(e.tok.name)
}

// well-formed and (for attestations) consistent with the token contract: what the polling path must keep
func (h *verifWHist) gtKeep(e *verifWEvent) bool {
	return e.conv && e.index == 0 && (e.kind != "attest" || h.gtAttestValid(e))
}

func (h *verifWHist) gtDuration(e *verifWEvent) int64 {
	if h.mainnet && e.kind == "transfer" {
		l := e.cl
		if l < verifWMinLevel {
			l = verifWMinLevel
		}
		return int64(l) * verifWBlockMs
	}
	return int64(e.cl) * verifWBlockMs
}

// 1 = final at this moment, 0 = not final, -1 = too close to the wall-clock boundary to tell
func (h *verifWHist) gtFinal(e *verifWEvent, height int32, lo, hi int64) int {
	if int64(e.blk.height)+int64(e.cl) > int64(height) {
		return 0
	}
	th := e.blk.ts + h.gtDuration(e)
	if th <= lo-1500 {
		return 1
	}
	if th > hi+1500 {
		return 0
	}
	return -1
}

// ------------------------------------------------------------------ steps

func (h *verifWHist) msgUid(m *common.MessagePublication) (int, string) {
	if h.fam == "fields" {
		return h.fieldsMsgUid(m)
	}
	e := h.events[int(m.Sequence)]
	if e == nil || m.Sequence > 1<<30 {
		return -1, fmt.Sprintf("forwarded message with sequence %d matches no generated event", m.Sequence)
	}
	bad := ""
	if m.TxHash.Hex()[2:] != verifWTxId(e.tx) {
		bad += " txHash"
	}
	if m.Timestamp.UnixMilli() != e.blk.ts {
		bad += " timestamp"
	}
	if m.Nonce != e.nonce || !bytes.Equal(m.Payload, e.payload) || int(m.ConsistencyLevel) != e.cl || int(m.TargetChain) != e.target || m.EmitterChain != vaa.ChainIDAlephium {
		bad += " fields"
	}
	if bad != "" {
		return e.uid, fmt.Sprintf("forwarded message of event %d differs from the event in:%s", e.uid, bad)
	}
	return e.uid, ""
}

func (h *verifWHist) drainMsgs() []*common.MessagePublication {
	var out []*common.MessagePublication
	for {
		select {
		case m := <-h.msgC:
			out = append(out, m)
		default:
			return out
		}
	}
}

func (h *verifWHist) blockTable() [][]interface{} {
	t := [][]interface{}{}
	for _, b := range h.blocks {
		t = append(t, []interface{}{b.id, b.main, b.ts, b.height})
	}
	return t
}

const verifWWait = 30 * time.Second

func (h *verifWHist) stepPoll(ps *verifWPollScript) {
	select {
	case <-h.sim.idleC:
	default:
	}
	h.sim.mu.Lock()
	fromPrev := h.sim.from
	h.sim.resetStep(nil)
	h.sim.script = ps
	h.sim.mu.Unlock()
	res := ""
	var batch []*UnconfirmedEvent
	select {
	case batch = <-h.fEvC:
		res = "batch"
	case <-h.fErrC:
		res = "fatal"
	case <-h.sim.idleC:
		res = "idle"
	case p := <-h.fPan:
		res = "panic:" + p
	case <-time.After(verifWWait):
		res = "stall"
	}
	h.sim.mu.Lock()
	h.sim.cur = nil
	h.sim.script = nil
	if ps.spin {
		res = "spin"
	}
	if res != "batch" && res != "idle" {
		// the watcher instance is finished; fetchEvents may still issue requests until it notices (it is not judged any more)
		h.sim.quiet = true
	}
	count, served, nreq, errHit, newFrom := ps.count, ps.served, ps.nreq, ps.errHit, h.sim.from
	h.sim.mu.Unlock()
	buids := []int{}
	for _, u := range batch {
		e := h.events[func() int {
			if h.fam == "fields" {
				if u == nil || u.msg == nil {
					return -1
				}
				return int(u.msg.nonce)
			}
			v, _ := strconv.Atoi(verifWSeqOf(u))
			return v
		}()]
		if e == nil {
			buids = append(buids, -1)
		} else {
			buids = append(buids, e.uid)
		}
	}
	pages := []interface{}{}
	for _, p := range served {
		if p.err {
			pages = append(pages, map[string]interface{}{"err": 1, "s": p.start})
		} else {
			pages = append(pages, map[string]interface{}{"s": p.start, "u": p.uids, "n": p.next})
		}
	}
	var cnt interface{} = count
	if ps.cntErr {
		cnt = nil
	}
	rec := map[string]interface{}{"op": "poll", "from": fromPrev, "cnt": cnt, "pages": pages, "res": res, "batch": buids, "nreq": nreq, "newfrom": newFrom, "errhit": errHit}
	if len(res) > 5 && res[:5] == "panic" {
		rec["res"] = "panic"
		rec["panic"] = res[6:]
	}
	h.steps = append(h.steps, rec)

	// ---- monitors (C09: no loss, no duplicate, no spin, robustness)
	hist := fmt.Sprintf("poll with fromIndex=%d count=%v", fromPrev, cnt)
	switch {
	case errHit:
		if res != "fatal" {
			h.flag("C09", "api-error-outcome", hist+": node API error but outcome "+res)
		}
		h.die()
		return
	case res == "spin":
		key := "spin"
		if count < fromPrev {
			key = "spin-count-below-fromIndex"
		}
		h.flag("C09", key, fmt.Sprintf("%s: more than %d page requests in one poll (last start=%d), no batch delivered", hist, verifWSpinLimit, served[len(served)-1].start))
		h.die()
		return
	case res == "fatal":
		h.flag("C09", "fatal-without-api-error", hist+": the watcher reported an error on errC although every node request succeeded")
		h.die()
		return
	case rec["res"] == "panic":
		h.flag("C09", "panic", hist+": panic in fetchEvents: "+fmt.Sprint(rec["panic"]))
		h.die()
		return
	case res == "stall":
		h.flag("C09", "stall", hist+": poll did not complete within 30 s")
		h.die()
		return
	}
	if count > h.maxCount {
		h.maxCount = count
	}
	if res == "idle" {
		if count != fromPrev {
			h.flag("C09", "idle-with-new-events", hist+": no batch although count != fromIndex")
		}
		return
	}
	// page requests are contiguous: no index skipped, none repeated
	at := fromPrev
	for _, p := range served {
		if p.start != at {
			h.flag("C09", "page-start", fmt.Sprintf("%s: page request starts at %d, expected %d", hist, p.start, at))
		}
		at = p.next
	}
	if newFrom < count {
		h.flag("C09", "from-below-count", fmt.Sprintf("%s: fromIndex after the poll %d < polled count", hist, newFrom))
	}
	bound := int(count-fromPrev) + 1
	if bound < 1 {
		bound = 1
	}
	if nreq > bound {
		h.flag("C09", "too-many-requests", fmt.Sprintf("%s: %d page requests", hist, nreq))
	}
	want := []int{}
	for i := int(fromPrev); i < int(newFrom) && i < len(h.sim.log); i++ {
		if i >= 0 && h.gtKeep(h.sim.log[i]) {
			want = append(want, h.sim.log[i].uid)
		}
	}
	for i := int(fromPrev); i < int(newFrom) && i < len(h.sim.log); i++ {
		if e := h.sim.log[i]; i >= 0 && e.kind == "attest" && e.attOK == 0 {
			e.attOK = 2
			if h.gtAttestValid(e) { // the token contract's answer at the moment the poll validated the attestation
				e.attOK = 1
			}
		}
	}
	if fmt.Sprint(want) != fmt.Sprint(buids) {
		h.flag("C09", "batch-differs", fmt.Sprintf("%s: batch %v, well-formed events of stream[%d..%d) are %v", hist, buids, fromPrev, newFrom, want))
	}
	if h.fam == "fields" {
		h.fieldsBatchMon(hist, fromPrev, newFrom, buids)
	}
	for _, u := range buids {
		h.fetched[u]++
		if h.fetched[u] > 1 {
			h.flag("C09", "fetched-twice", fmt.Sprintf("%s: event %d delivered in two batches", hist, u))
		}
	}
	h.inflight, h.inflightU = batch, buids
	if h.inflight == nil {
		h.inflight = []*UnconfirmedEvent{}
	}
}

func verifWSeqOf(u *UnconfirmedEvent) string {
	if u == nil || u.msg == nil {
		return "-1"
	}
	return strconv.FormatUint(u.msg.Sequence, 10)
}

func (h *verifWHist) stepDeliver() {
	if h.inflight == nil {
		return
	}
	res := "ok"
	select {
	case h.hEvC <- h.inflight:
	case p := <-h.hPan:
		res = "panic:" + p
	case <-time.After(verifWWait):
		res = "stall"
	}
	if res == "ok" {
		select {
		case h.hEvC <- nil: // barrier: the loop is back at its select
		case p := <-h.hPan:
			res = "panic:" + p
		case <-time.After(verifWWait):
			res = "stall"
		}
	}
	for _, u := range h.inflightU {
		if h.events[u] != nil { // (a batch entry that matches no generated event has been flagged by the poll's monitor)
			h.pend[u] = true
		}
	}
	h.inflight, h.inflightU = nil, nil
	h.steps = append(h.steps, map[string]interface{}{"op": "deliver", "res": res, "enabled": h.w.blockPollerEnabled.Load()})
	if res != "ok" {
		h.flag("C09", "deliver-"+res[:5], "delivering a batch to the event loop: "+res)
		h.die()
	}
}

func (h *verifWHist) stepTick(height int32, errAt map[string]int) {
	h.sim.mu.Lock()
	h.sim.resetStep(errAt)
	h.sim.height = height
	h.sim.mu.Unlock()
	lo := time.Now().UnixMilli()
	res := "ok"
	select {
	case h.hHtC <- height:
	case p := <-h.hPan:
		res = "panic:" + p
	case <-time.After(verifWWait):
		res = "stall"
	}
	if res == "ok" {
		select {
		case h.hEvC <- nil:
		case <-h.hErrC:
			res = "fatal"
		case p := <-h.hPan:
			res = "panic:" + p
		case <-time.After(verifWWait):
			res = "stall"
		}
	}
	hi := time.Now().UnixMilli()
	msgs := h.drainMsgs()
	h.sim.mu.Lock()
	errHit := ""
	for _, k := range []string{"mainchain", "header"} {
		if h.sim.errHit[k] {
			errHit = k
		}
	}
	h.sim.mu.Unlock()
	got := []int{}
	for _, m := range msgs {
		u, bad := h.msgUid(m)
		if bad != "" {
			h.flag("C08", "message-content", bad)
		}
		got = append(got, u)
	}
	sort.Ints(got)
	rec := map[string]interface{}{"op": "tick", "height": height, "lo": lo, "hi": hi, "blocks": h.blockTable(), "err": errHit, "res": res, "fwd": got,
		"enabled": h.w.blockPollerEnabled.Load()}
	h.fieldsRec(rec, msgs, nil)
	if len(res) > 5 && res[:5] == "panic" {
		rec["res"] = "panic"
		rec["panic"] = res[6:]
	}
	h.steps = append(h.steps, rec)
	hist := fmt.Sprintf("height tick %d (mainnet=%v)", height, h.mainnet)

	// ---- C08: every forwarded message is justified at this moment
	for _, m := range msgs {
		u, _ := h.msgUid(m)
		e := h.events[u]
		if e == nil {
			h.flag("C08", "unknown-event", hist+": forwarded a message that matches no event of the simulated chain")
			continue
		}
		desc := fmt.Sprintf("%s: forwarded event %d (%s, level %d, block %d height %d age %d ms main=%v)", hist, e.uid, e.kind, e.cl, e.blk.id, e.blk.height, lo-e.blk.ts, e.blk.main)
		if e.contract != 0 {
			h.flag("C08", "poll-other-contract", desc+" emitted by another contract")
		}
		if !h.pend[e.uid] {
			h.flag("C08", "poll-not-pending", desc+" which was not pending (forwarded twice or never fetched)")
		}
		h.fwdCount[e.uid]++
		if h.fwdCount[e.uid] > 1 {
			h.flag("C08", "poll-forwarded-twice", desc+" for the second time")
		}
		if e.sender != 1 || vaa.Address(m.EmitterAddress).String() != h.bridgeHex {
			h.flag("C08", "poll-foreign-sender", desc+" whose sender is not the token bridge")
		}
		if !e.blk.main {
			h.flag("C08", "poll-orphan", desc+" in a block the node reports as not on the main chain")
		}
		if int64(e.blk.height)+int64(e.cl) > int64(height) {
			h.flag("C08", "poll-height", desc+" before height+level <= current height")
		}
		if e.blk.ts+h.gtDuration(e) > hi+1500 {
			h.flag("C08", "poll-wallclock", desc+fmt.Sprintf(" %d ms before the required hold time elapsed", e.blk.ts+h.gtDuration(e)-hi))
		}
		if e.kind == "attest" && (e.attOK == 2 || (e.attOK == 0 && !h.gtAttestValid(e))) {
			h.flag("C08", "poll-attest", desc+" although the attested metadata differs from the token contract's answer"+h.attestWhy(e))
		}
		if !e.conv || e.index != 0 {
			h.flag("C08", "poll-malformed", desc+" which is not a well-formed WormholeMessage event")
		}
	}
	if res == "fatal" || rec["res"] == "panic" || res == "stall" {
		if errHit == "" {
			h.flag("C09", "tick-"+fmt.Sprint(rec["res"]), hist+": event loop ended with "+res+" although every node request succeeded")
		}
		h.die()
		return
	}
	if errHit != "" {
		h.flag("C09", "api-error-outcome", hist+": node API error but the event loop continued")
		h.die()
		return
	}
	// ---- C09: every pending final event of a main-chain block is forwarded now (first tick at which it is final)
	gotSet := map[int]bool{}
	for _, u := range got {
		gotSet[u] = true
	}
	for _, u := range got {
		if e := h.events[u]; e != nil && h.pend[u] && h.gtFinal(e, height, lo, hi) != 1 {
			// forwarded although not (yet) final by the property's definition: C08 has flagged it above; it is no longer pending
			delete(h.pend, u)
		}
	}
	for u := range h.pend {
		e := h.events[u]
		switch h.gtFinal(e, height, lo, hi) {
		case -1:
			h.ambiguous = true
		case 1:
			delete(h.pend, u)
			if e.blk.main && e.sender == 1 && !gotSet[u] {
				h.flag("C09", "not-forwarded", fmt.Sprintf("%s: pending event %d (%s, level %d, block %d height %d age %d ms, main chain) is final but was not forwarded",
					hist, e.uid, e.kind, e.cl, e.blk.id, e.blk.height, lo-e.blk.ts))
			}
		}
	}
	// (the poller flag is compared with the model at every hand-over and tick, and its effect - height ticks keep coming while
	// events are pending - is judged on the free-running scenarios; no ground-truth monitor here: which events the watcher still
	// holds depends on its own confirmation rule)
}

func (h *verifWHist) stepReobs(tx *verifWTx, errAt map[string]int, shortHash bool) {
	h.sim.mu.Lock()
	h.sim.resetStep(errAt)
	height := h.sim.height
	h.sim.mu.Unlock()
	txHash, _ := hex.DecodeString(tx.id)
	if shortHash {
		txHash = txHash[:31]
	}
	lo := time.Now().UnixMilli()
	res := "ok"
	for _, req := range []*gossipv1.ObservationRequest{{ChainId: uint32(vaa.ChainIDAlephium), TxHash: txHash}, {ChainId: uint32(vaa.ChainIDEthereum), TxHash: txHash}} {
		if res != "ok" {
			break
		}
		select {
		case h.obsvC <- req:
		case p := <-h.oPan:
			res = "panic:" + p
		case <-time.After(verifWWait):
			res = "stall"
		}
	}
	hi := time.Now().UnixMilli()
	msgs := h.drainMsgs()
	h.sim.mu.Lock()
	hit := map[string]bool{}
	for k, v := range h.sim.errHit {
		hit[k] = v
	}
	hdrErr := h.sim.hdrErr
	h.sim.mu.Unlock()
	got := []int{}
	for _, m := range msgs {
		u, bad := h.msgUid(m)
		if bad != "" {
			h.flag("C08", "message-content", bad)
		}
		got = append(got, u)
	}
	sort.Ints(got)
	var status interface{}
	var sblk *verifWBlock
	switch {
	case hit["status"]:
		status = nil
	case tx.status < 0:
		status = -1
	default:
		sblk = tx.blocks[tx.status]
		status = sblk.id
	}
	var evs interface{}
	if !hit["txevents"] {
		l := []int{}
		for _, e := range tx.events {
			l = append(l, e.uid)
		}
		evs = l
	}
	var mc interface{}
	if !hit["mainchain"] && sblk != nil {
		mc = sblk.main
	}
	var ht interface{}
	if !hit["height"] {
		ht = height
	}
	rec := map[string]interface{}{"op": "reobs", "tx": tx.n, "short": shortHash, "chain": int(vaa.ChainIDAlephium), "txlen": len(txHash), "status": status, "events": evs, "blocks": h.blockTable(), "hderr": hdrErr, "mc": mc,
		"height": ht, "lo": lo, "hi": hi, "res": res, "fwd": got}
	h.fieldsRec(rec, msgs, txHash)
	if len(res) > 5 && res[:5] == "panic" {
		rec["res"] = "panic"
		rec["panic"] = res[6:]
	}
	h.steps = append(h.steps, rec)
	hist := fmt.Sprintf("re-observation of tx %d (mainnet=%v, height %d)", tx.n, h.mainnet, height)
	if rec["res"] == "panic" {
		h.flag("C09", "panic", hist+": panic in handleObsvRequest: "+fmt.Sprint(rec["panic"]))
		h.die()
		return
	}
	if res == "stall" {
		h.flag("C09", "stall", hist+": request not handled within 30 s")
		h.die()
		return
	}
	// ---- C08 on the re-observation path
	for _, m := range msgs {
		u, _ := h.msgUid(m)
		e := h.events[u]
		if e == nil {
			h.flag("C08", "unknown-event", hist+": forwarded a message that matches no event of the simulated chain")
			continue
		}
		desc := fmt.Sprintf("%s: forwarded event %d (%s, level %d, contract %d, block %d height %d age %d ms main=%v)", hist, e.uid, e.kind, e.cl, e.contract, e.blk.id, e.blk.height, lo-e.blk.ts, e.blk.main)
		if shortHash || e.tx != tx.n {
			h.flag("C08", "reobs-wrong-tx", desc+" which does not belong to the requested transaction")
		}
		if e.contract != 0 {
			h.flag("C08", "reobs-other-contract", desc+" emitted by another contract than the governance contract")
		}
		if e.sender != 1 {
			h.flag("C08", "reobs-foreign-sender", desc+" whose sender is not the token bridge")
		}
		if !e.blk.main {
			h.flag("C08", "reobs-orphan", desc+" in a block the node reports as not on the main chain")
		} else if sblk == nil || sblk != e.blk {
			h.flag("C08", "reobs-block-not-checked", desc+" although the main-chain query was made for another block")
		}
		if int64(e.blk.height)+int64(e.cl) > int64(height) {
			h.flag("C08", "reobs-height", desc+" before height+level <= current height")
		}
		if e.blk.ts+h.gtDuration(e) > hi+1500 {
			key := "reobs-wallclock"
			if e.contract != 0 || e.sender != 1 || !e.blk.main || sblk != e.blk {
				key = "reobs-wallclock-of-unjustified-event" // the event should not have been forwarded for another reason as well
			}
			h.flag("C08", key, desc+fmt.Sprintf(" %d ms before the required hold time elapsed", e.blk.ts+h.gtDuration(e)-hi))
		}
		if e.kind == "attest" && !h.gtAttestValid(e) {
			h.flag("C08", "reobs-attest", desc+" although the attested metadata differs from the token contract's answer"+h.attestWhy(e))
		}
		if !e.conv || e.index != 0 {
			h.flag("C08", "reobs-malformed", desc+" which is not a well-formed WormholeMessage event")
		}
	}
}

// ------------------------------------------------------------------ history generation

func (h *verifWHist) randPoll() *verifWPollScript {
	r := h.r
	ps := &verifWPollScript{}
	hidden := len(h.sim.log) - h.sim.visible
	if hidden > 0 {
		ps.landBefore = r.below(hidden + 1)
		if r.chance(1, 2) {
			ps.landBefore = hidden
		}
	}
	rest := hidden - ps.landBefore
	n := 1 + r.below(6)
	for i := 0; i < n; i++ {
		p := verifWPageScript{size: h.pageSize}
		if h.pageSize == 0 {
			p.size = []int{1, 1, 2, 3, 5, 7, 10, 100}[r.below(8)]
		}
		if rest > 0 && h.fam != "clean" && r.chance(1, 3) {
			p.land = 1 + r.below(rest)
			rest -= p.land
		}
		ps.pages = append(ps.pages, p)
	}
	return ps
}

func (h *verifWHist) run() map[string]interface{} {
	if h.fam == "tokscript" {
		return h.runTokScript()
	}
	r := h.r
	// world
	base := int32(100 + r.below(50))
	nb := 2 + r.below(5)
	for i := 0; i < nb; i++ {
		h.newBlock(base+int32(r.below(12)), verifWAgeSlots[r.below(len(verifWAgeSlots))], r.chance(1, 2))
	}
	nt := r.below(5)
	for i := 0; i < nt; i++ {
		h.newToken(verifWShapes[r.below(len(verifWShapes))])
	}
	if h.fam == "attest" {
		for _, s := range verifWShapes {
			h.newToken(s)
		}
	}
	h.pageSize = []int{0, 0, 1, 2, 3, 10, 100}[r.below(7)]
	if h.fam == "bulk" {
		// more events than one full page of the node (100): page boundaries inside a poll
		h.pageSize = 100
	}
	// events that exist before the watcher starts (fromIndex is initialised to the current count)
	pre := r.below(4)
	h.appendEvents(pre)
	h.sim.visible = pre
	h.sim.height = base + int32(r.below(5))
	h.start()
	if h.fam == "bulk" {
		h.appendEvents(100 + r.below(150))
	}
	nsteps := 10 + r.below(25)
	for i := 0; i < nsteps && !h.dead; i++ {
		if time.Since(h.t0) > 2500*time.Millisecond {
			break // keep block ages 2.5 s+ away from every hold-time boundary
		}
		c := r.below(100)
		switch {
		case c < 18:
			h.appendEvents(1 + r.below(6))
		case c < 40:
			if h.inflight != nil {
				h.stepDeliver()
			} else {
				ps := h.randPoll()
				if h.fam == "errors" && r.chance(1, 6) {
					switch r.below(3) {
					case 0:
						ps.cntErr = true
					case 1:
						ps.pageErrAt = 1 + r.below(3)
					default:
						ps.cnt404 = true
					}
				}
				h.stepPoll(ps)
			}
		case c < 48:
			h.stepDeliver()
		case c < 75:
			// the chain moves: height advances or stalls, blocks are orphaned or re-included
			h.sim.mu.Lock()
			ht := h.sim.height + int32([]int{0, 0, 1, 1, 2, 3, 5, 10, 64, 210, 260}[r.below(11)])
			if r.chance(1, 4) {
				b := h.blocks[r.below(len(h.blocks))]
				b.main = !b.main
			}
			h.sim.mu.Unlock()
			var errAt map[string]int
			if h.fam == "errors" && r.chance(1, 8) {
				errAt = map[string]int{[]string{"mainchain", "header"}[r.below(2)]: 1 + r.below(3)}
			}
			h.stepTick(ht, errAt)
		case c < 80:
			h.sim.mu.Lock()
			h.newBlock(h.sim.height-int32(r.below(4)), verifWAgeSlots[r.below(len(verifWAgeSlots))], r.chance(1, 2))
			h.sim.mu.Unlock()
		case c >= 84 && c < 88 && h.changeableToken() != 0:
			h.changeToken(h.changeableToken())
		case c < 84 && len(h.txs) > 0:
			// re-inclusion: a transaction of an orphaned block appears again in another block
			tx := h.txs[r.below(len(h.txs))]
			if len(tx.blocks) == 1 {
				h.sim.mu.Lock()
				b2 := h.blocks[r.below(len(h.blocks))]
				if b2 != tx.blocks[0] {
					tx.blocks = append(tx.blocks, b2)
					orig := append([]*verifWEvent{}, tx.events...)
					for _, e := range orig {
						c := *e
						c.uid = h.nextUid
						h.nextUid++
						c.blk = b2
						c.fields = append([]map[string]interface{}{}, e.fields...)
						if h.fam == "fields" {
							if e.uidInNonce {
								c.fields[3] = verifWField("ByteVec", fmt.Sprintf("%08x", uint32(c.uid)))
								c.nonce = uint32(c.uid)
							}
						} else if len(c.fields) > 2 {
							c.seq = uint64(c.uid)
							c.fields[2] = verifWField("U256", strconv.Itoa(c.uid))
							if e.what == "fields permuted" || e.what == "sequence out of range" || e.what == "wrong field type" {
								c.fields[2] = e.fields[2]
							}
						}
						h.events[c.uid] = &c
						tx.events = append(tx.events, &c)
						if c.contract == 0 {
							h.sim.log = append(h.sim.log, &c)
						}
					}
					if r.chance(1, 2) {
						tx.blocks[0].main = false
						tx.status = 1
					}
				}
				h.sim.mu.Unlock()
			}
		default:
			if len(h.txs) == 0 {
				continue
			}
			tx := h.txs[r.below(len(h.txs))]
			h.sim.mu.Lock()
			switch r.below(12) {
			case 0:
				tx.status = -1
			case 1:
				tx.status = -2
			default:
				tx.status = r.below(len(tx.blocks))
			}
			if r.chance(1, 3) {
				h.sim.height += int32([]int{1, 5, 64, 260}[r.below(4)])
			}
			h.sim.mu.Unlock()
			var errAt map[string]int
			if h.fam == "errors" && r.chance(1, 4) {
				errAt = map[string]int{[]string{"status", "txevents", "header", "mainchain", "height"}[r.below(5)]: 1 + r.below(2)}
			}
			h.stepReobs(tx, errAt, r.chance(1, 30))
		}
	}
	h.stop()
	return h.row()
}

func (h *verifWHist) row() map[string]interface{} {
	evs := []interface{}{}
	uids := []int{}
	for u := range h.events {
		uids = append(uids, u)
	}
	sort.Ints(uids)
	for _, u := range uids {
		e := h.events[u]
		var conv interface{}
		if e.conv {
			var tok interface{}
			if e.tok != nil {
				tok = map[string]interface{}{"id": e.tok.id, "dec": e.tok.dec, "sym": hex.EncodeToString(e.tok.sym), "name": hex.EncodeToString(e.tok.name)}
			}
			p0 := -1
			if len(e.payload) > 0 {
				p0 = int(e.payload[0])
			}
			conv = map[string]interface{}{"s": e.sender, "cl": e.cl, "k": e.kind[:1], "p0": p0, "tok": tok}
		}
		erow := map[string]interface{}{"uid": e.uid, "blk": e.blk.id, "tx": e.tx, "c": e.contract, "idx": e.index, "conv": conv, "what": e.what}
		if h.fam == "fields" {
			h.fieldsEventRow(erow, e)
		}
		evs = append(evs, erow)
	}
	toks := []interface{}{}
	for _, id := range h.tokIds {
		toks = append(toks, h.tokById[id].row0) // the answer at the start; later changes are steps of the history ("tokchange")
	}
	logU := []int{}
	for _, e := range h.sim.log {
		logU = append(logU, e.uid)
	}
	if len(h.sim.badReq) > 0 {
		h.flag("C08", "bad-request", "unexpected request at the simulated node: "+h.sim.badReq[0])
	}
	return map[string]interface{}{"k": "hist", "id": h.id, "fam": h.fam, "mainnet": h.mainnet, "from0": h.from0, "events": evs, "tokens": toks, "log": logU,
		"steps": h.steps, "mon": h.mon, "ambiguous": h.ambiguous, "ms": time.Since(h.t0).Milliseconds(), "requests": h.sim.nreqTotal, "bridge": h.bridgeHex}
}

var _ = big.NewInt
var _ = os.Getenv

// ------------------------------------------------------------------ the test

func TestVerifWatcher(t *testing.T) {
	out := verifWOpen(t)
	defer out.close()
	seed := verifWSeed()
	n := 2000
	if verifWThorough() {
		n = 6000
	}
	if s := os.Getenv("VERIF_W_N"); s != "" {
		n, _ = strconv.Atoi(s)
	}
	fams := []string{"mixed", "mixed", "mixed", "clean", "errors", "attest"}
	var wg sync.WaitGroup
	sem := make(chan struct{}, 12)
	for i := 0; i < n; i++ {
		wg.Add(1)
		sem <- struct{}{}
		go func(i int) {
			defer wg.Done()
			defer func() { <-sem }()
			fam := fams[i%len(fams)]
			if i%48 == 7 {
				fam = "bulk"
			}
			h := verifWNewHist(i, seed, fam)
			var row map[string]interface{}
			func() {
				defer func() {
					if p := recover(); p != nil {
						row = map[string]interface{}{"k": "hist", "id": i, "harness_panic": fmt.Sprint(p) + "\n" + string(debug.Stack())}
					}
				}()
				row = h.run()
			}()
			out.emit(row)
		}(i)
	}
	wg.Wait()
	if os.Getenv("VERIF_W_NTOK") != "0" {
		for i := 0; i < 9; i++ { // scripted: token metadata changing between attestations (zz_verifw_tok_test.go)
			wg.Add(1)
			sem <- struct{}{}
			go func(i int) {
				defer wg.Done()
				defer func() { <-sem }()
				h := verifWNewHist(200000+i, seed, "tokscript")
				var row map[string]interface{}
				func() {
					defer func() {
						if p := recover(); p != nil {
							row = map[string]interface{}{"k": "hist", "id": 200000 + i, "harness_panic": fmt.Sprint(p) + "\n" + string(debug.Stack())}
						}
					}()
					row = h.run()
				}()
				out.emit(row)
			}(i)
		}
		wg.Wait()
	}
	verifWFieldsHistories(out, seed, &wg, sem)
	out.emitNow(map[string]interface{}{"k": "progress", "phase": "histories-done", "n": n})
	if os.Getenv("VERIF_W_NFH") != "0" {
		verifWFetchHeightRows(out)
	}
	out.emitNow(map[string]interface{}{"k": "progress", "phase": "fetch-height-done"})
	// free-running scenarios: the real Watcher.Run against the simulated node
	nrun := 36
	if verifWThorough() {
		nrun = 120
	}
	if s := os.Getenv("VERIF_W_NRUN"); s != "" {
		nrun, _ = strconv.Atoi(s)
	}
	only, skip := verifWIdSet("VERIF_W_ONLYRUN"), verifWIdSet("VERIF_W_SKIPRUN")
	for i := 0; i < nrun; i++ {
		if (only != nil && !only[i]) || skip[i] {
			continue
		}
		wg.Add(1)
		sem <- struct{}{}
		go func(i int) {
			defer wg.Done()
			defer func() { <-sem }()
			var row map[string]interface{}
			func() {
				defer func() {
					if p := recover(); p != nil {
						row = map[string]interface{}{"k": "run", "id": i, "harness_panic": fmt.Sprint(p)}
					}
				}()
				row = verifWRunScenario(i, seed, out)
			}()
			out.emit(row)
		}(i)
	}
	if os.Getenv("VERIF_W_NGATE") != "0" {
		for i := 0; i < verifWGateN(); i++ { // scripted free runs: a batch waiting at the hand-over while process() empties the pending map
			gid := verifWGateBase + i
			if (only != nil && !only[gid]) || skip[gid] {
				continue
			}
			wg.Add(1)
			sem <- struct{}{}
			go func(gid int) {
				defer wg.Done()
				defer func() { <-sem }()
				var row map[string]interface{}
				func() {
					defer func() {
						if p := recover(); p != nil {
							row = map[string]interface{}{"k": "run", "id": gid, "harness_panic": fmt.Sprint(p) + "\n" + string(debug.Stack())}
						}
					}()
					row = verifWGateScenario(gid, seed, out)
				}()
				out.emit(row)
			}(gid)
		}
	}
	wg.Wait()
	out.emitNow(map[string]interface{}{"k": "progress", "phase": "runs-done"})
}
