//go:build verif

package alephium

// Token contracts whose metadata CHANGES during a history (C08: "the attested metadata equals what the token contract itself
// reports" - at the moment the watcher validates the attestation, not what it reported some time ago).  The simulated node serves
// whatever the token contract reports NOW; the ground truth of an attestation is taken at the moment of its validation (the poll
// that fetches it / the re-observation request).  changeToken is a step of the generated histories; runTokScript is a scripted
// history: T attested correctly and forwarded, T changes, an attestation with the OLD metadata (must not be forwarded), one with the
// NEW metadata (must be), on the polling path and on the re-observation path, on ONE watcher / client.

import (
	"encoding/hex"
	"fmt"
	"strconv"

	"github.com/alephium/wormhole-fork/node/pkg/vaa"
)

// a token contract whose three calls succeed (others keep their defect for the whole history)
func (h *verifWHist) changeableToken() int {
	for _, id := range h.tokIds {
		if h.tokById[id].shape == "ok" {
			return id
		}
	}
	return 0
}

func (h *verifWHist) changeToken(id int) {
	mc := h.tokById[id]
	r := h.r
	h.sim.mu.Lock()
	mc.prev = &verifWMeta{mc.dec, mc.sym, mc.name}
	n := 0
	for mc.dec == mc.prev.dec && mc.sym == mc.prev.sym && mc.name == mc.prev.name {
		n++
		switch r.below(4) {
		case 0:
			mc.dec = (mc.dec + 1 + r.below(200)) % 256
		case 1:
			mc.sym = []string{"FOO", "USDT", "WETH", "NEW" + strconv.Itoa(n)}[r.below(4)]
		case 2:
			mc.name = []string{"Foo Token", "Tether USD", "renamed " + strconv.Itoa(n)}[r.below(3)]
		default:
			mc.dec, mc.sym, mc.name = []int{0, 6, 18}[r.below(3)], "FOO"+strconv.Itoa(n), "Foo Token "+strconv.Itoa(n)
		}
	}
	ok := func(v verifWVal) verifWCall { return verifWCall{rets: []verifWVal{v}} }
	mc.calls = []verifWCall{ok(verifWVal{"ByteVec", hex.EncodeToString([]byte(mc.sym))}), ok(verifWVal{"ByteVec", hex.EncodeToString([]byte(mc.name))}),
		ok(verifWVal{"U256", strconv.Itoa(mc.dec)})}
	h.sim.mu.Unlock()
	rec := h.tokenRow(id, mc)
	rec["op"] = "tokchange"
	rec["was"] = fmt.Sprintf("%d/%s/%s", mc.prev.dec, mc.prev.sym, mc.prev.name)
	rec["now"] = fmt.Sprintf("%d/%s/%s", mc.dec, mc.sym, mc.name)
	h.steps = append(h.steps, rec)
}

func (h *verifWHist) attestWhy(e *verifWEvent) string {
	if e.tok == nil {
		return ""
	}
	claim := fmt.Sprintf("%d/%s/%s", e.tok.dec, verifWTrim(e.tok.sym), verifWTrim(e.tok.name))
	if e.tok.id == 0 {
		return fmt.Sprintf(" (native token id: the chain side reports 18/ALPH/Alephium, the payload says %s)", claim)
	}
	mc := h.tokById[e.tok.id]
	if mc == nil {
		return ""
	}
	s := fmt.Sprintf(" (token %d reports %d/%s/%s, the payload says %s", e.tok.id, mc.dec, mc.sym, mc.name, claim)
	if mc.prev != nil && mc.prev.dec == e.tok.dec && mc.prev.sym == verifWTrim(e.tok.sym) && mc.prev.name == verifWTrim(e.tok.name) {
		s += " - what the token reported BEFORE its metadata changed"
	}
	return s + ")"
}

// scriptEvent: one well-formed event of the governance contract emitted by the token bridge: a transfer (tokId < 0) or an attestation
func (h *verifWHist) scriptEvent(b *verifWBlock, tokId int, m verifWMeta) (*verifWTx, *verifWEvent) {
	tx := h.newTx(b)
	r := h.r
	e := &verifWEvent{uid: h.nextUid, blk: b, tx: tx.n, contract: 0, index: 0, conv: true, sender: 1, kind: "transfer", cl: 0, target: 2, nonce: uint32(r.next())}
	h.nextUid++
	e.seq = uint64(e.uid)
	e.txid = verifWTxId(tx.n)
	sender, _ := hex.DecodeString(h.bridgeHex)
	e.senderB = sender
	payload := append([]byte{1}, r.bytes(40)...)
	if tokId >= 0 {
		e.kind = "attest"
		e.target = 0
		payload = []byte{2}
		payload = append(payload, h.tokenIdBytes(tokId)...)
		payload = append(payload, 0, byte(vaa.ChainIDAlephium), byte(m.dec))
		payload = append(payload, verifWPad32(m.sym, true)...)
		payload = append(payload, verifWPad32(m.name, true)...)
		e.tok = &verifWTok{id: tokId, dec: m.dec, sym: verifWPad32(m.sym, true), name: verifWPad32(m.name, true)}
	}
	e.payload = payload
	e.fields = []map[string]interface{}{verifWField("ByteVec", hex.EncodeToString(sender)), verifWField("U256", strconv.Itoa(e.target)),
		verifWField("U256", strconv.Itoa(e.uid)), verifWField("ByteVec", fmt.Sprintf("%08x", e.nonce)),
		verifWField("ByteVec", hex.EncodeToString(payload)), verifWField("U256", strconv.Itoa(e.cl))}
	h.events[e.uid] = e
	tx.events = append(tx.events, e)
	h.sim.log = append(h.sim.log, e)
	return tx, e
}

func (h *verifWHist) pollAll() {
	hidden := len(h.sim.log) - h.sim.visible
	h.stepPoll(&verifWPollScript{landBefore: hidden, pages: []verifWPageScript{{size: []int{1, 2, 100}[h.r.below(3)]}}})
	h.stepDeliver()
}

func (h *verifWHist) runTokScript() map[string]interface{} {
	r := h.r
	height := int32(100 + r.below(50))
	b := h.newBlock(height-int32(r.below(5)), 300, false) // old enough for every hold time, also on mainnet
	tid := h.newToken("ok")
	mc := h.tokById[tid]
	h.sim.visible = 0
	h.sim.height = height + 2
	h.start()
	variant := h.id % 3 // what fills the client's knowledge of T first: 0 = a valid attestation on the polling path, 1 = a re-observation, 2 = an INVALID attestation
	first := verifWMeta{mc.dec, mc.sym, mc.name}
	if variant == 2 {
		first.name = "not " + first.name
	}
	tx1, _ := h.scriptEvent(b, tid, first)
	if !h.dead && variant != 1 {
		h.pollAll()
	}
	if !h.dead && variant != 1 {
		h.stepTick(h.sim.height, nil)
	}
	if !h.dead {
		h.stepReobs(tx1, nil, false)
	}
	old := verifWMeta{mc.dec, mc.sym, mc.name}
	h.changeToken(tid)
	cur := verifWMeta{mc.dec, mc.sym, mc.name}
	tx2, _ := h.scriptEvent(b, tid, old)                              // what T reported before: must not be forwarded
	tx3, _ := h.scriptEvent(b, tid, cur)                              // what T reports now: must be forwarded
	h.scriptEvent(b, -1, verifWMeta{})                                // a transfer behind them
	tx5, _ := h.scriptEvent(b, 0, verifWMeta{18, "ALPH", "Alephium"}) // the native token, canonical
	tx6, _ := h.scriptEvent(b, 0, verifWMeta{0, "FAKE", "Alephium"})  // the native token, forged
	// the token's own name / symbol followed by a NUL byte and more text: not what the token contract reports, must not be forwarded
	txs := []*verifWTx{tx2, tx3, tx5, tx6}
	if len(cur.name)+5 <= 32 && len(cur.sym)+3 <= 32 {
		tx7, _ := h.scriptEvent(b, tid, verifWMeta{cur.dec, cur.sym, cur.name + "\x00(W2)"})
		tx8, _ := h.scriptEvent(b, tid, verifWMeta{cur.dec, cur.sym + "\x00.x", cur.name})
		txs = append(txs, tx7, tx8)
	}
	if !h.dead {
		h.pollAll()
	}
	if !h.dead {
		h.stepTick(h.sim.height, nil)
	}
	for _, tx := range txs {
		if !h.dead {
			h.stepReobs(tx, nil, false)
		}
	}
	// and back: T changes again, to what it reported at first
	if !h.dead && r.chance(1, 2) {
		h.changeToken(tid)
		txa, _ := h.scriptEvent(b, tid, cur)
		txb, _ := h.scriptEvent(b, tid, verifWMeta{mc.dec, mc.sym, mc.name})
		h.pollAll()
		if !h.dead {
			h.stepTick(h.sim.height, nil)
		}
		for _, tx := range []*verifWTx{txa, txb} {
			if !h.dead {
				h.stepReobs(tx, nil, false)
			}
		}
	}
	h.stop()
	return h.row()
}
