//go:build verif

package alephium

// Family "fields" (X2: the watcher composed with the event conversion, C08 / C09 / C11): the same step-driven histories as the
// other families, but the events of the simulated chain carry boundary and unfit RAW field values (C11's generators inside the
// running watcher): 255/256, 65535/65536, 2^64-1/2^64, 2^256-1, signed / zero-padded / non-decimal strings, wrong field
// counts and types, wrong byte-vector lengths, invalid hex, long payloads, attestations with / without matching token info.
// The observer identifies an event by its NONCE (= uid), so that sequence, target chain and level are free.
// Recorded for the Coq side (model.AlphPipeline): the raw fields of every event, the raw multicall answers, and the FULL
// message of every hand-over.  Monitors: every forwarded message is re-derived field by field from the simulated chain's
// ground truth (the values the generator intended, not a re-parse); an event whose values do not fit never yields a message.

import (
	"bytes"
	"encoding/hex"
	"fmt"
	"math/big"
	"os"
	"runtime/debug"
	"strconv"
	"strings"
	"sync"
	"testing"

	"github.com/alephium/wormhole-fork/node/pkg/common"
	"github.com/alephium/wormhole-fork/node/pkg/vaa"
)

func verifWPow2(n uint) *big.Int { return new(big.Int).Lsh(big.NewInt(1), n) }

// a numeric field: the value the generator intends, how the node spells it, whether it fits `bits`
type verifWNum struct {
	val  *big.Int // nil: the string denotes no integer
	s    string
	fits bool
}

func verifWPickNum(r *verifWRng, bits uint, natural []int64) verifWNum {
	max := new(big.Int).Sub(verifWPow2(bits), big.NewInt(1))
	c := r.below(100)
	switch {
	case c < 40: // an ordinary value
		v := big.NewInt(natural[r.below(len(natural))])
		return verifWNum{v, v.String(), true}
	case c < 62: // the boundaries of the target type, from inside
		vs := []*big.Int{big.NewInt(0), big.NewInt(1), new(big.Int).Sub(max, big.NewInt(1)), max, new(big.Int).Rsh(max, 1), new(big.Int).Add(new(big.Int).Rsh(max, 1), big.NewInt(1))}
		v := vs[r.below(len(vs))]
		return verifWNum{v, v.String(), true}
	case c < 70: // fitting values in an unusual spelling (math/big accepts a sign and leading zeros)
		v := big.NewInt(natural[r.below(len(natural))])
		if r.chance(1, 3) {
			v = max
		}
		sp := []string{"+" + v.String(), "00" + v.String(), "0" + v.String()}
		if v.Sign() == 0 {
			sp = append(sp, "-0", "+0", "000")
		}
		return verifWNum{v, sp[r.below(len(sp))], true}
	case c < 86: // just outside and far outside
		vs := []*big.Int{new(big.Int).Add(max, big.NewInt(1)), new(big.Int).Add(max, big.NewInt(2)), new(big.Int).Lsh(max, 1), verifWPow2(bits + 8), verifWPow2(32), verifWPow2(63), verifWPow2(64),
			new(big.Int).Add(verifWPow2(64), big.NewInt(1)), verifWPow2(128), new(big.Int).Sub(verifWPow2(256), big.NewInt(1))}
		v := vs[r.below(len(vs))]
		if v.Cmp(max) <= 0 {
			v = new(big.Int).Add(max, big.NewInt(1))
		}
		return verifWNum{v, v.String(), false}
	case c < 93: // negative
		vs := []*big.Int{big.NewInt(-1), big.NewInt(-2), big.NewInt(-255), big.NewInt(-256), big.NewInt(-65536), new(big.Int).Neg(max), new(big.Int).Neg(verifWPow2(bits)), new(big.Int).Neg(verifWPow2(64)),
			new(big.Int).Neg(verifWPow2(256))}
		v := vs[r.below(len(vs))]
		return verifWNum{v, v.String(), false}
	default: // no decimal integer at all
		ss := []string{"", " ", "1e3", "0x10", "12a", "a", " 5", "5 ", "1_000", "1.0", "--1", "+-1", "+", "-", "٣", "１２", "0b1", "NaN"}
		return verifWNum{nil, ss[r.below(len(ss))], false}
	}
}

// fieldsStage rewrites the three numeric fields (and sometimes the byte-vector fields / the field list) of a freshly generated
// event; the ground truth (e.conv, e.target, e.seq, e.cl, e.payload, e.senderB, e.what) follows the generator's intention
func (h *verifWHist) fieldsStage(e *verifWEvent, f []map[string]interface{}) []map[string]interface{} {
	r := h.r
	if !e.conv || len(f) != 6 {
		e.uidInNonce = len(f) > 3 && f[3]["type"] == "ByteVec" && f[3]["value"] == fmt.Sprintf("%08x", e.nonce)
		return f // already malformed by the common generator
	}
	bad := []string{}
	plain := func(vs []int64) verifWNum {
		v := big.NewInt(vs[r.below(len(vs))])
		return verifWNum{v, v.String(), true}
	}
	// target chain (uint16)
	t := plain([]int64{0, 1, 2, 4, 255, 256, 1000})
	if r.chance(1, 2) {
		t = verifWPickNum(r, 16, []int64{0, 1, 2, 4, 255, 256, 1000})
	}
	f[1] = verifWField("U256", t.s)
	if t.fits {
		e.target = int(t.val.Int64())
	} else {
		bad = append(bad, "target chain "+strconv.Quote(t.s))
	}
	// sequence (uint64)
	sq := plain([]int64{0, 1, int64(e.uid), 1 << 32, 1<<62 + 12345})
	if r.chance(1, 2) {
		sq = verifWPickNum(r, 64, []int64{0, 1, int64(e.uid), 1 << 32, 1<<62 + 12345})
	}
	f[2] = verifWField("U256", sq.s)
	if sq.fits {
		e.seq = sq.val.Uint64()
	} else {
		bad = append(bad, "sequence "+strconv.Quote(sq.s))
	}
	// consistency level (uint8): mostly the levels the other families use (they decide finality), sometimes out of range
	if r.chance(1, 5) {
		l := verifWPickNum(r, 8, []int64{0, 1, 2, 3, 15, 64, 204, 205, 206})
		f[5] = verifWField("U256", l.s)
		if l.fits {
			e.cl = int(l.val.Int64())
		} else {
			bad = append(bad, "consistency level "+strconv.Quote(l.s))
		}
	} else if r.chance(1, 6) {
		f[5] = verifWField("U256", []string{"+", "00", "0"}[r.below(3)]+strconv.Itoa(e.cl))
	}
	// byte-vector fields
	switch r.below(40) {
	case 0:
		f[0] = verifWField("ByteVec", hex.EncodeToString(r.bytes([]int{0, 1, 31, 33, 64}[r.below(5)])))
		bad = append(bad, "sender not 32 bytes")
	case 1:
		f[0] = verifWField("ByteVec", []string{"zz", "0", strings.Repeat("0", 63), strings.Repeat("g", 64), "0x" + strings.Repeat("0", 62)}[r.below(5)])
		bad = append(bad, "sender not hex")
	case 2:
		f[3] = verifWField("ByteVec", []string{"", "00", "000000", "0000000000", "0000000", "xyzxyzxy"}[r.below(6)])
		bad = append(bad, "nonce not 4 bytes")
	case 3:
		f[4] = verifWField("ByteVec", []string{"0", "012", "zz", "0x01", hex.EncodeToString(e.payload) + "0"}[r.below(5)])
		bad = append(bad, "payload not hex")
	case 4:
		f[0] = verifWField("ByteVec", strings.ToUpper(hex.EncodeToString(e.senderB))) // upper-case hex is hex
	case 5:
		f[4] = verifWField("ByteVec", strings.ToUpper(hex.EncodeToString(e.payload)))
	case 6, 7:
		if e.kind == "transfer" { // a long payload
			e.payload = append([]byte{1}, r.bytes(1000+r.below(2500))...)
			f[4] = verifWField("ByteVec", hex.EncodeToString(e.payload))
		}
	case 8:
		// the type of one field is another sdk.Val variant
		p := r.below(6)
		alt := []map[string]interface{}{verifWField("Bool", false), verifWField("I256", "-1"), verifWField("Address", "1DrDyTr9RpRsQnDnXo2YRiPzPW4ooHX5LLoqXrqfMrpQH"), verifWField("Array", []interface{}{})}
		if p == 0 || p == 3 || p == 4 {
			alt = append(alt, verifWField("U256", "7"))
		} else {
			alt = append(alt, verifWField("ByteVec", "07"))
		}
		f[p] = alt[r.below(len(alt))]
		bad = append(bad, fmt.Sprintf("field %d of another type", p))
	case 9:
		n := []int{0, 1, 2, 3, 4, 5, 7, 8, 12}[r.below(9)]
		for len(f) < n {
			f = append(f, verifWField("U256", "1"))
		}
		f = f[:n]
		bad = append(bad, fmt.Sprintf("%d fields", n))
	}
	if len(bad) > 0 {
		e.conv = false
		e.what = strings.Join(bad, ", ")
		e.tok = nil
	}
	e.uidInNonce = len(f) > 3 && f[3]["type"] == "ByteVec" && f[3]["value"] == fmt.Sprintf("%08x", e.nonce)
	return f
}

// fieldsGT: every field of the message that must come out of event e, re-derived from the ground truth
func (h *verifWHist) fieldsDiff(m *common.MessagePublication, e *verifWEvent) string {
	bad := ""
	if m.TxHash.Hex()[2:] != verifWTxId(e.tx) {
		bad += " txHash"
	}
	sec, ms := e.blk.ts/1000, e.blk.ts%1000
	if m.Timestamp.Unix() != sec || int64(m.Timestamp.Nanosecond()) != ms*1000000 {
		bad += fmt.Sprintf(" timestamp(%d.%09d, block %d ms)", m.Timestamp.Unix(), m.Timestamp.Nanosecond(), e.blk.ts)
	}
	if m.Nonce != e.nonce {
		bad += " nonce"
	}
	if m.Sequence != e.seq {
		bad += fmt.Sprintf(" sequence(%d, event %d)", m.Sequence, e.seq)
	}
	if int(m.ConsistencyLevel) != e.cl {
		bad += fmt.Sprintf(" consistencyLevel(%d, event %d)", m.ConsistencyLevel, e.cl)
	}
	if int(m.TargetChain) != e.target {
		bad += fmt.Sprintf(" targetChain(%d, event %d)", m.TargetChain, e.target)
	}
	if m.EmitterChain != vaa.ChainIDAlephium {
		bad += " emitterChain"
	}
	if !bytes.Equal(m.EmitterAddress[:], e.senderB) {
		bad += " emitterAddress"
	}
	if !bytes.Equal(m.Payload, e.payload) {
		bad += " payload"
	}
	return bad
}

func (h *verifWHist) fieldsMsgUid(m *common.MessagePublication) (int, string) {
	e := h.events[int(m.Nonce)]
	if e == nil {
		return -1, fmt.Sprintf("forwarded message with nonce %d (sequence %d) matches no generated event", m.Nonce, m.Sequence)
	}
	if !e.conv {
		return e.uid, fmt.Sprintf("a message was built from event %d whose values do not fit (%s): sequence %d level %d target %d", e.uid, e.what, m.Sequence, m.ConsistencyLevel, m.TargetChain)
	}
	if bad := h.fieldsDiff(m, e); bad != "" {
		return e.uid, fmt.Sprintf("forwarded message of event %d differs from the event's ground truth in:%s", e.uid, bad)
	}
	return e.uid, ""
}

// fieldsRec adds the full forwarded messages to the record of a tick / re-observation step
func (h *verifWHist) fieldsRec(rec map[string]interface{}, msgs []*common.MessagePublication, reqHash []byte) {
	if h.fam != "fields" {
		return
	}
	l := []interface{}{}
	for _, m := range msgs {
		u := -1
		if e := h.events[int(m.Nonce)]; e != nil {
			u = e.uid
		}
		l = append(l, map[string]interface{}{"uid": u, "eaddr": hex.EncodeToString(m.EmitterAddress[:]), "tchain": int(m.TargetChain), "seq": strconv.FormatUint(m.Sequence, 10),
			"nonce": m.Nonce, "payload": hex.EncodeToString(m.Payload), "cl": int(m.ConsistencyLevel), "secs": m.Timestamp.Unix(), "nsec": m.Timestamp.Nanosecond(),
			"echain": int(m.EmitterChain), "txhash": hex.EncodeToString(m.TxHash[:])})
	}
	rec["msgs"] = l
	if reqHash != nil {
		rec["txhash"] = hex.EncodeToString(reqHash)
	}
}

func verifWRawField(f map[string]interface{}) []interface{} {
	t, _ := f["type"].(string)
	v, isStr := f["value"].(string)
	switch {
	case t == "U256" && isStr:
		return []interface{}{1, hex.EncodeToString([]byte(v))}
	case t == "ByteVec" && isStr:
		return []interface{}{2, hex.EncodeToString([]byte(v))}
	}
	return []interface{}{3, ""}
}

func (h *verifWHist) fieldsEventRow(row map[string]interface{}, e *verifWEvent) {
	fs := []interface{}{}
	for _, f := range e.fields {
		fs = append(fs, verifWRawField(f))
	}
	row["raw"] = map[string]interface{}{"txid": hex.EncodeToString([]byte(e.txid)), "f": fs}
	if e.conv {
		row["gt"] = map[string]interface{}{"sender": hex.EncodeToString(e.senderB), "target": e.target, "seq": strconv.FormatUint(e.seq, 10), "nonce": e.nonce, "cl": e.cl,
			"payload_len": len(e.payload)}
	}
}

// tokenRow: what the token contract answers right now, for the Coq side (abstract form "ans", raw form "raw")
func (h *verifWHist) tokenRow(id int, mc *verifWMc) map[string]interface{} {
	var ans interface{} = "err"
	if !mc.apiErr {
		l := []interface{}{}
		for _, c := range mc.calls {
			if c.failed {
				l = append(l, nil)
				continue
			}
			rs := []interface{}{}
			for _, v := range c.rets {
				switch v.Typ {
				case "ByteVec":
					rs = append(rs, []interface{}{"b", v.Val})
				case "U256":
					rs = append(rs, []interface{}{"n", v.Val})
				default:
					rs = append(rs, []interface{}{"o"})
				}
			}
			l = append(l, rs)
		}
		ans = l
	}
	row := map[string]interface{}{"id": id, "ans": ans, "shape": mc.shape}
	h.fieldsTokenRow(row, id, mc)
	return row
}

func (h *verifWHist) fieldsTokenRow(row map[string]interface{}, id int, mc *verifWMc) {
	row["idhex"] = hex.EncodeToString(h.tokenIdBytes(id))
	if mc.apiErr {
		return
	}
	calls := []interface{}{}
	for _, c := range mc.calls {
		if c.failed {
			calls = append(calls, nil)
			continue
		}
		rs := []interface{}{}
		for _, v := range c.rets {
			switch v.Typ {
			case "U256":
				rs = append(rs, []interface{}{1, hex.EncodeToString([]byte(v.Val))})
			case "ByteVec":
				rs = append(rs, []interface{}{2, hex.EncodeToString([]byte(v.Val))})
			default:
				rs = append(rs, []interface{}{3, ""})
			}
		}
		calls = append(calls, rs)
	}
	row["raw"] = calls
}

// findings of the fields family that speak about C11 (a fitting event decoded to other values, an unfit one not rejected)
func verifWAlsoC11(mon []string) []string {
	out := append([]string{}, mon...)
	for _, m := range mon {
		for _, pre := range []string{"C08|message-content|", "C08|poll-malformed|", "C08|reobs-malformed|", "C08|unknown-event|"} {
			if strings.HasPrefix(m, pre) {
				out = append(out, "C11|pipeline-"+strings.SplitN(m, "|", 3)[1]+"|"+strings.SplitN(m, "|", 3)[2])
			}
		}
		if (strings.HasPrefix(m, "C08|poll-attest|") || strings.HasPrefix(m, "C08|reobs-attest|")) && strings.Contains(m, "native token id") {
			out = append(out, "C11|pipeline-native-attest-forwarded|"+strings.SplitN(m, "|", 3)[2])
		}
	}
	return out
}

// fieldsBatchMon: C11 inside the page loop - an event whose values do not fit is never kept, a fitting one of the token bridge
// (attestations aside: their validity is C08 / C09's business) is never rejected
func (h *verifWHist) fieldsBatchMon(hist string, from, to int32, buids []int) {
	in := map[int]bool{}
	for _, u := range buids {
		in[u] = true
	}
	for i := int(from); i < int(to) && i < len(h.sim.log); i++ {
		if i < 0 {
			continue
		}
		e := h.sim.log[i]
		switch {
		case (!e.conv || e.index != 0) && in[e.uid]:
			h.flag("C11", "pipeline-unfit-kept", fmt.Sprintf("%s: event %d whose values do not fit (%s) was converted and kept", hist, e.uid, e.what))
		case e.conv && e.index == 0 && e.kind == "attest" && e.tok != nil && e.tok.id == 0 && in[e.uid] &&
			!(e.tok.dec == 18 && verifWTrim(e.tok.sym) == "ALPH" && verifWTrim(e.tok.name) == "Alephium"):
			// the payload must decode to what was encoded; then it differs from the native token's fixed metadata and is dropped
			h.flag("C11", "pipeline-native-attest", fmt.Sprintf("%s: event %d, an attestation of the all-zero (native) token id whose payload says %d/%s/%s, was accepted as if it said 18/ALPH/Alephium",
				hist, e.uid, e.tok.dec, verifWTrim(e.tok.sym), verifWTrim(e.tok.name)))
		case e.conv && e.index == 0 && e.kind != "attest" && e.sender == 1 && !in[e.uid]:
			h.flag("C11", "pipeline-fit-rejected", fmt.Sprintf("%s: event %d (target %d, sequence %d, level %d, %d payload bytes) fits but was not kept", hist, e.uid, e.target, e.seq, e.cl, len(e.payload)))
		}
	}
}

func verifWFieldsN() int {
	n := 160
	if verifWThorough() {
		n = 1200
	}
	if s := os.Getenv("VERIF_W_NF"); s != "" {
		n, _ = strconv.Atoi(s)
	}
	return n
}

const verifWFieldsBase = 100000

func verifWFieldsHistories(out *verifWOut, seed uint64, wg *sync.WaitGroup, sem chan struct{}) {
	n := verifWFieldsN()
	for i := 0; i < n; i++ {
		wg.Add(1)
		sem <- struct{}{}
		go func(i int) {
			defer wg.Done()
			defer func() { <-sem }()
			h := verifWNewHist(verifWFieldsBase+i, seed, "fields")
			var row map[string]interface{}
			func() {
				defer func() {
					if p := recover(); p != nil {
						row = map[string]interface{}{"k": "hist", "id": verifWFieldsBase + i, "harness_panic": fmt.Sprint(p) + "\n" + string(debug.Stack())}
					}
				}()
				row = h.run()
				if mon, ok := row["mon"].([]string); ok {
					row["mon"] = verifWAlsoC11(mon)
				}
			}()
			out.emit(row)
		}(i)
	}
	wg.Wait()
}

// TestVerifPipe: only the histories of the fields family (C11 runs this)
func TestVerifPipe(t *testing.T) {
	out := verifWOpen(t)
	defer out.close()
	var wg sync.WaitGroup
	sem := make(chan struct{}, 12)
	verifWFieldsHistories(out, verifWSeed(), &wg, sem)
	out.emitNow(map[string]interface{}{"k": "progress", "phase": "histories-done", "n": verifWFieldsN()})
}
