//go:build verif

package alephium

import (
	"bufio"
	"encoding/json"
	"os"
	"strconv"
	"strings"
	"sync"
	"testing"
)

type verifWRng struct{ s uint64 }

func (r *verifWRng) next() uint64 {
	r.s += 0x9E3779B97F4A7C15
	z := r.s
	z = (z ^ (z >> 30)) * 0xBF58476D1CE4E5B9
	z = (z ^ (z >> 27)) * 0x94D049BB133111EB
	return z ^ (z >> 31)
}
func (r *verifWRng) below(n int) int { return int(r.next() % uint64(n)) }
func (r *verifWRng) chance(num, den int) bool { return r.below(den) < num }
func (r *verifWRng) bytes(n int) []byte {
	b := make([]byte, n)
	for i := range b {
		b[i] = byte(r.next())
	}
	return b
}
func (r *verifWRng) pick(xs []int) int { return xs[r.below(len(xs))] }

func verifWSeed() uint64 {
	s, _ := strconv.ParseUint(os.Getenv("VERIF_SEED"), 10, 64)
	return s
}
func verifWThorough() bool { return os.Getenv("VERIF_TIER") == "thorough" }

type verifWOut struct {
	mu sync.Mutex
	f  *os.File
	w  *bufio.Writer
	e  *json.Encoder
}

func verifWOpen(t *testing.T) *verifWOut {
	p := os.Getenv("VERIF_OUT")
	if p == "" {
		p = os.DevNull
	}
	f, err := os.Create(p)
	if err != nil {
		t.Fatal(err)
	}
	w := bufio.NewWriterSize(f, 1<<20)
	return &verifWOut{f: f, w: w, e: json.NewEncoder(w)}
}
func (o *verifWOut) emit(v interface{}) {
	o.mu.Lock()
	defer o.mu.Unlock()
	o.e.Encode(v)
}
func (o *verifWOut) close() { o.w.Flush(); o.f.Close() }

// emitNow writes the line through to the file at once: a progress marker must survive a crash of the test process
func (o *verifWOut) emitNow(v interface{}) {
	o.mu.Lock()
	defer o.mu.Unlock()
	o.e.Encode(v)
	o.w.Flush()
	o.f.Sync()
}

// verifWIdSet parses a comma separated list of ids from the environment (nil = variable not set)
func verifWIdSet(name string) map[int]bool {
	v := os.Getenv(name)
	if v == "" {
		return nil
	}
	m := map[int]bool{}
	for _, f := range strings.Split(v, ",") {
		if n, err := strconv.Atoi(strings.TrimSpace(f)); err == nil {
			m[n] = true
		}
	}
	return m
}

func TestVerifNothing(t *testing.T) {}
