//go:build verif

package alephium

// Free-running scenarios for C08 / C09: the REAL Watcher.Run (fetchEvents, fetchHeight with the poller gating,
// handleEvents, handleObsvRequest wired together under a supervisor, 2 ms tickers) against the simulated node.  Events
// become visible in waves, some land between a count request and the page requests; heights stall and then jump; some
// events become final only seconds after the start.  Monitors: every event that must be observed is forwarded exactly
// once before the deadline, nothing else is forwarded, nothing is forwarded before its block is deep enough / its hold
// time has elapsed (receipt time is an upper bound of the watcher's clock reading), Run never returns, the number of
// page requests stays below the number of events (no spin).

import (
	"context"
	"fmt"
	"sort"
	"strings"
	"sync"
	"sync/atomic"
	"time"

	"github.com/alephium/wormhole-fork/node/pkg/common"
	"github.com/alephium/wormhole-fork/node/pkg/supervisor"
	"go.uber.org/zap"
)

type verifWFree struct {
	pageSize  int
	landEvery int // every n-th page request one more hidden event becomes visible just before the answer (0 = never)
	countReqs int
	pageReqs  int
	started   chan struct{} // closed when the first count request has been answered
	first     bool
	// how far the stream has been paged, and the count requests answered since the whole stream had been paged
	pagedTo         int
	countsAfterFull int
}

type verifWRecv struct {
	m  *common.MessagePublication
	at int64
}

func verifWRunScenario(id int, seed uint64, out *verifWOut) map[string]interface{} {
	h := verifWNewHist(1<<19|id, seed, "run")
	r := h.r
	sim := h.sim
	t0 := time.Now().UnixMilli()
	h.t0 = time.UnixMilli(t0)
	base := int32(100 + r.below(50))
	// blocks: old ones, ones whose events become final within seconds, young ones, orphans
	nb := 3 + r.below(5)
	for i := 0; i < nb; i++ {
		b := h.newBlock(base+int32(r.below(12)), verifWAgeSlots[r.below(len(verifWAgeSlots))], r.chance(1, 2))
		switch r.below(6) {
		case 0:
			b.main = false
		case 1, 2:
			// final soon for some level: timestamp = t0 + delay - level * 16 s
			b.ts = t0 + int64(1200+r.below(2500)) - int64(verifWLevels[r.below(len(verifWLevels))])*BlockTimeMs
		}
	}
	for i, n := 0, r.below(4); i < n; i++ {
		// (a panic inside Run's bare goroutines ends the whole test process: the check recognises that from the progress markers)
		h.newToken(verifWShapes[r.below(len(verifWShapes))])
	}
	pre := r.below(4)
	h.appendEvents(pre)
	total := 4 + r.below(30)
	h.appendEvents(total)
	sim.mu.Lock()
	sim.visible = pre
	lowHeight := base + 20
	highHeight := base + 300
	sim.height = lowHeight
	sim.free = &verifWFree{pageSize: []int{1, 2, 3, 10, 100}[r.below(5)], landEvery: []int{0, 1, 2, 3}[r.below(4)], started: make(chan struct{})}
	sim.mu.Unlock()

	mon := []string{}
	flag := func(prop, key, msg string) { mon = append(mon, prop+"|"+key+"|"+msg) }

	// progress marker (written through): Run starts bare goroutines, a panic in one of them ends the whole test process; the
	// marker names this scenario's watcher (the receiver printed in the goroutine dump) and what the node is going to serve
	{
		evs := []interface{}{}
		for i, e := range sim.log {
			var tokShape interface{}
			if e.tok != nil {
				if mc := h.tokById[e.tok.id]; mc != nil {
					tokShape = mc.shape
				} else if e.tok.id == 0 {
					tokShape = "native"
				}
			}
			evs = append(evs, map[string]interface{}{"index": i, "uid": e.uid, "kind": e.kind, "cl": e.cl, "sender": e.sender, "well_formed": e.conv, "what": e.what,
				"names_token_contract_with_answer_shape": tokShape, "fields": e.fields})
		}
		toks := []interface{}{}
		for _, tid := range h.tokIds {
			toks = append(toks, map[string]interface{}{"id": tid, "answer_shape": h.tokById[tid].shape})
		}
		out.emitNow(map[string]interface{}{"k": "progress", "phase": "run", "id": id, "watcher": fmt.Sprintf("%p", h.w), "mainnet": h.mainnet, "pre": pre,
			"page_size": sim.free.pageSize, "land_every": sim.free.landEvery, "stream": evs, "token_contracts": toks})
	}

	// collector
	var rmu sync.Mutex
	recv := []verifWRecv{}
	cctx, ccancel := context.WithCancel(context.Background())
	go func() {
		for {
			select {
			case m := <-h.msgC:
				rmu.Lock()
				recv = append(recv, verifWRecv{m, time.Now().UnixMilli()})
				rmu.Unlock()
			case <-cctx.Done():
				return
			}
		}
	}()

	// the real Run under a supervisor
	var emu sync.Mutex
	runErrs := []string{}
	var stopping atomic.Bool
	sctx, scancel := context.WithCancel(context.Background())
	supervisor.New(sctx, zap.NewNop(), func(ctx context.Context) error {
		err := h.w.Run(ctx)
		if ctx.Err() == nil && !stopping.Load() {
			emu.Lock()
			runErrs = append(runErrs, fmt.Sprint(err))
			emu.Unlock()
		}
		return err
	})
	started := true
	select {
	case <-sim.free.started:
	case <-time.After(verifWWait):
		started = false
		flag("C09", "run-stall", "Run did not request the initial event count within 30 s")
	}
	var raiseAt int64
	if started {
		// waves
		left := total
		for left > 0 {
			k := 1 + r.below(left)
			if r.chance(1, 3) {
				k = left
			}
			sim.mu.Lock()
			sim.visible += k
			if sim.visible > len(sim.log) {
				sim.visible = len(sim.log)
			}
			sim.mu.Unlock()
			left -= k
			time.Sleep(time.Duration(5+r.below(60)) * time.Millisecond)
		}
		time.Sleep(time.Duration(300+r.below(500)) * time.Millisecond)
		raiseAt = time.Now().UnixMilli()
		sim.mu.Lock()
		sim.visible = len(sim.log)
		sim.height = highHeight
		sim.mu.Unlock()
	}

	// ground truth
	type exp struct {
		e      *verifWEvent
		thresh int64
		must   bool
		may    bool
	}
	exps := map[int]*exp{}
	tEnd := t0 + 5500 // events final by then must have been forwarded before the deadline
	for i, e := range sim.log {
		x := &exp{e: e, thresh: e.blk.ts + h.gtDuration(e)}
		ok := h.gtKeep(e) && e.sender == 1 && e.blk.main
		x.may = ok // (an event emitted before the start may not be fetched at all, but forwarding it would not be wrong)
		x.must = ok && i >= pre && x.thresh <= tEnd
		exps[e.uid] = x
	}
	deadline := time.Now().Add(25 * time.Second)
	offw := &verifWOffWatch{must: map[int]int64{}}
	for u, x := range exps {
		if x.must {
			offw.must[u] = x.thresh
		}
	}
	for started {
		rmu.Lock()
		got := map[int]bool{}
		for _, rc := range recv {
			if u, _ := h.msgUid(rc.m); u > 0 {
				got[u] = true
			}
		}
		rmu.Unlock()
		missing := 0
		for u, x := range exps {
			if x.must && !got[u] {
				missing++
			}
		}
		if missing == 0 && time.Now().UnixMilli() > tEnd {
			break
		}
		if time.Now().After(deadline) {
			break
		}
		emu.Lock()
		restarted := len(runErrs) > 0 // (Run returned - a request failed inside the client - and was restarted: what it had pending is gone)
		emu.Unlock()
		if msg := offw.sample(h, got, raiseAt); msg != "" && !restarted {
			flag("C09", "poller-off-with-events-pending", fmt.Sprintf("free run %d (mainnet=%v): %s", id, h.mainnet, msg))
			break
		}
		time.Sleep(20 * time.Millisecond)
	}
	time.Sleep(150 * time.Millisecond)
	stopping.Store(true)
	scancel()
	ccancel()
	sim.mu.Lock()
	countReqs, pageReqs := sim.free.countReqs, sim.free.pageReqs
	bad := append([]string{}, sim.badReq...)
	sim.quiet = true
	sim.mu.Unlock()
	h.srv.CloseClientConnections()
	h.srv.Close()

	rmu.Lock()
	defer rmu.Unlock()
	seen := map[int]int{}
	fw := []int{}
	hist := fmt.Sprintf("free run %d (mainnet=%v, page size %d, %d events of which %d before the start)", id, h.mainnet, sim.free.pageSize, len(sim.log), pre)
	for _, rc := range recv {
		u, badm := h.msgUid(rc.m)
		if badm != "" {
			flag("C08", "message-content", badm)
		}
		fw = append(fw, u)
		x := exps[u]
		if x == nil {
			flag("C08", "run-unjustified", fmt.Sprintf("%s: forwarded a message (sequence %d) that matches no event of the governance stream", hist, rc.m.Sequence))
			continue
		}
		e := x.e
		desc := fmt.Sprintf("%s: forwarded event %d (%s, level %d, sender %d, block %d height %d main=%v, well-formed=%v)", hist, e.uid, e.kind, e.cl, e.sender, e.blk.id, e.blk.height, e.blk.main, h.gtKeep(e))
		seen[u]++
		if seen[u] == 2 {
			flag("C08", "run-forwarded-twice", desc+" twice")
		}
		if !x.may {
			flag("C08", "run-unjustified", desc+" which must not be forwarded (foreign sender, orphaned block, malformed or invalid attestation)")
		}
		if rc.at+2 < x.thresh {
			flag("C08", "run-early-wallclock", desc+fmt.Sprintf(" %d ms before its hold time elapsed", x.thresh-rc.at))
		}
		if int64(e.blk.height)+int64(e.cl) > int64(lowHeight) && rc.at+2 < raiseAt {
			flag("C08", "run-early-height", desc+fmt.Sprintf(" while the chain height was %d", lowHeight))
		}
	}
	sort.Ints(fw)
	// a request that timed out inside the watcher's own HTTP client (10 s; only on an overloaded machine - the simulated node answers at
	// once) is a node API error from the watcher's point of view: Run returns, as it should; the scenario says nothing about liveness
	clientTimeout := false
	emu.Lock()
	for _, e := range runErrs {
		if strings.Contains(e, "context deadline exceeded") || strings.Contains(e, "Client.Timeout") {
			clientTimeout = true
		}
	}
	emu.Unlock()
	if started && !clientTimeout {
		for u, x := range exps {
			if x.must && seen[u] == 0 {
				e := x.e
				flag("C09", "run-not-forwarded", fmt.Sprintf("%s: event %d (%s, level %d, block %d height %d, main chain, final since %d ms) was not forwarded within the deadline",
					hist, e.uid, e.kind, e.cl, e.blk.id, e.blk.height, time.Now().UnixMilli()-x.thresh))
			}
		}
	}
	emu.Lock()
	if len(runErrs) > 0 && !clientTimeout {
		flag("C09", "run-terminated", fmt.Sprintf("%s: Watcher.Run returned although every node request succeeded: %s", hist, runErrs[0]))
	}
	emu.Unlock()
	if pageReqs > len(sim.log)+5 {
		flag("C09", "run-spin", fmt.Sprintf("%s: %d page requests for %d events", hist, pageReqs, len(sim.log)))
	}
	if len(bad) > 0 {
		flag("C08", "bad-request", "unexpected request at the simulated node: "+bad[0])
	}
	evs := []interface{}{}
	for _, e := range sim.log {
		x := exps[e.uid]
		evs = append(evs, map[string]interface{}{"uid": e.uid, "kind": e.kind, "cl": e.cl, "sender": e.sender, "conv": e.conv, "what": e.what, "blk": e.blk.id, "main": e.blk.main,
			"blk_height": e.blk.height, "final_at_ms_after_start": x.thresh - t0, "must": x.must, "may": x.may})
	}
	return map[string]interface{}{"k": "run", "id": id, "mainnet": h.mainnet, "pre": pre, "page_size": sim.free.pageSize, "land_every": sim.free.landEvery,
		"low_height": lowHeight, "high_height": highHeight, "raise_ms_after_start": raiseAt - t0, "events": evs, "forwarded": fw, "count_requests": countReqs, "page_requests": pageReqs,
		"mon": mon, "ms": time.Now().UnixMilli() - t0, "client_timeout": clientTimeout}
}

// ------------------------------------------------------------------ _fetchHeight on its own: gate, request, hand-over
// (the model's fetch_height_tick): disabled => no request and nothing sent; enabled => every successful request is handed
// to the event loop, also when the height has not changed; a failing request ends on errC.
func verifWFetchHeightCase(id int, enabled bool, ans *int32) map[string]interface{} {
	w := &Watcher{chainIndex: &ChainIndex{FromGroup: 0, ToGroup: 0}, blockPollerEnabled: &atomic.Bool{}, pollIntervalMs: 2}
	if enabled {
		w.EnableBlockPoller()
	}
	var calls int32
	get := func() (*int32, error) {
		atomic.AddInt32(&calls, 1)
		if ans == nil {
			return nil, fmt.Errorf("verif: injected chain-info error")
		}
		v := *ans
		return &v, nil
	}
	errC := make(chan error)
	heightC := make(chan int32)
	ctx, cancel := context.WithCancel(context.Background())
	defer cancel()
	pan := make(chan string, 1)
	go func() {
		defer verifWRecover(pan)
		w._fetchHeight(ctx, zap.NewNop(), get, errC, heightC)
	}()
	res := "nothing"
	ticks := 0
	wrong := false
	want := 3 // the same height three times: it must be sent every time
	wait := 5 * time.Second
	if !enabled {
		wait = 80 * time.Millisecond
	}
loop:
	for ticks < want {
		select {
		case hgt := <-heightC:
			ticks++
			res = "tick"
			if ans == nil || hgt != *ans {
				wrong = true
			}
		case <-errC:
			res = "fatal"
			break loop
		case p := <-pan:
			res = "panic:" + p
			break loop
		case <-time.After(wait):
			break loop
		}
	}
	mon := []string{}
	desc := fmt.Sprintf("_fetchHeight with the block poller enabled=%v and a chain-info answer %v", enabled, func() interface{} {
		if ans == nil {
			return "error"
		}
		return *ans
	}())
	if enabled && ans != nil && (ticks < want || wrong) {
		mon = append(mon, "C09|height-not-handed-over|"+desc+fmt.Sprintf(": %d of %d polled heights reached the event loop within 5 s each (the height is unchanged between polls)", ticks, want))
	}
	if enabled && ans == nil && res != "fatal" {
		mon = append(mon, "C09|api-error-outcome|"+desc+": outcome "+res)
	}
	if len(res) > 5 && res[:5] == "panic" {
		mon = append(mon, "C09|panic|"+desc+": "+res)
	}
	var a interface{}
	if ans != nil {
		a = *ans
	}
	return map[string]interface{}{"k": "fh", "id": id, "enabled": enabled, "ans": a, "res": res, "ticks": ticks, "calls": atomic.LoadInt32(&calls), "mon": mon}
}

// a sequence of chain-info answers, one per poll (the last one repeats): what reaches the event loop must be the answer of that very
// poll — also when the reported height goes DOWN (a re-organisation onto a shorter branch, a lagging replica behind a load balancer):
// the release test "height >= block height + level at that moment" is made against the height handed over here
func verifWFetchHeightSeq(id int, answers []int32) map[string]interface{} {
	w := &Watcher{chainIndex: &ChainIndex{FromGroup: 0, ToGroup: 0}, blockPollerEnabled: &atomic.Bool{}, pollIntervalMs: 2}
	w.EnableBlockPoller()
	var calls int32
	served := make(chan int32, 4096)
	get := func() (*int32, error) {
		i := int(atomic.AddInt32(&calls, 1)) - 1
		if i >= len(answers) {
			i = len(answers) - 1
		}
		v := answers[i]
		select {
		case served <- v:
		default:
		}
		return &v, nil
	}
	errC := make(chan error)
	heightC := make(chan int32)
	ctx, cancel := context.WithCancel(context.Background())
	defer cancel()
	pan := make(chan string, 1)
	go func() {
		defer verifWRecover(pan)
		w._fetchHeight(ctx, zap.NewNop(), get, errC, heightC)
	}()
	got := []int32{}
	want := []int32{}
	res := "ok"
loop:
	for len(got) < len(answers) {
		select {
		case hgt := <-heightC:
			got = append(got, hgt)
			select {
			case v := <-served:
				want = append(want, v)
			default:
				want = append(want, -1)
			}
		case <-errC:
			res = "fatal"
			break loop
		case p := <-pan:
			res = "panic:" + p
			break loop
		case <-time.After(5 * time.Second):
			res = "stall"
			break loop
		}
	}
	mon := []string{}
	desc := fmt.Sprintf("_fetchHeight polling a node that reports the heights %v", answers)
	for i := range got {
		if got[i] != want[i] {
			mon = append(mon, "C08|height-handed-over-is-not-the-polled-height|"+desc+fmt.Sprintf(": poll %d was answered %d but the event loop was handed %d (handed %v); an event of block height h and level L is released against this number while the chain is at %d", i+1, want[i], got[i], got, want[i]))
			break
		}
	}
	if res != "ok" {
		mon = append(mon, "C09|height-not-handed-over|"+desc+": outcome "+res+fmt.Sprintf(" after %d of %d polls", len(got), len(answers)))
	}
	return map[string]interface{}{"k": "fhseq", "id": id, "answers": answers, "handed": got, "res": res, "mon": mon}
}

func verifWFetchHeightRows(out *verifWOut) {
	for i, seq := range [][]int32{{12, 11, 12}, {100, 100, 99, 98, 120}, {5, 4, 3, 2, 1, 0}, {7, 2147483647, 7}, {0, 1, 0}} {
		out.emit(verifWFetchHeightSeq(1000+i, seq))
	}
	id := 0
	for rep := 0; rep < 3; rep++ {
		for _, en := range []bool{false, true} {
			for _, a := range []*int32{nil, verifWI32(0), verifWI32(7), verifWI32(2147483647)} {
				out.emit(verifWFetchHeightCase(id, en, a))
				id++
			}
		}
	}
}

func verifWI32(v int32) *int32 { return &v }
