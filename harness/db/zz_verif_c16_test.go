//go:build verif

package db

// C16 harness: acknowledged writes survive a process kill.
//
// TestVerifC16 (the verifier) re-executes this test binary as a writer child (TestVerifC16Child) on one store directory,
// many times.  The child opens the store with the real Open, stores a seeded stream of signed VAAs from four goroutines
// through the real StoreSignedVAA and writes one line per returned call ("a <g> <j>" = nil, "e <g> <j>" = error) to a pipe.
// The verifier SIGKILLs the child at a PRNG-chosen instant, drains the pipe, reopens the same directory with Open and
// compares what it finds with what the statement allows.  The stream is a pure function of (seed, cycle, goroutine, step),
// so the verifier regenerates every VAA the child can have attempted.

import (
	"bufio"
	"encoding/binary"
	"encoding/hex"
	"encoding/json"
	"fmt"
	"os"
	"os/exec"
	"sort"
	"strconv"
	"strings"
	"sync"
	"testing"
	"time"

	"github.com/alephium/wormhole-fork/node/pkg/vaa"
	"github.com/dgraph-io/badger/v3"
)

const verifC16Writers = 4

func verifC16Mix(xs ...uint64) uint64 {
	s := uint64(0xC16C16C16)
	for _, x := range xs {
		s ^= x + 0x9E3779B97F4A7C15 + (s << 6) + (s >> 2)
		s = (s ^ (s >> 30)) * 0xBF58476D1CE4E5B9
		s = (s ^ (s >> 27)) * 0x94D049BB133111EB
		s ^= s >> 31
	}
	return s
}

type verifC16Gen struct{ s uint64 }

func (r *verifC16Gen) next() uint64 {
	r.s += 0x9E3779B97F4A7C15
	z := r.s
	z = (z ^ (z >> 30)) * 0xBF58476D1CE4E5B9
	z = (z ^ (z >> 27)) * 0x94D049BB133111EB
	return z ^ (z >> 31)
}
func (r *verifC16Gen) below(n int) int { return int(r.next() % uint64(n)) }

// what writer g does in its step j of a cycle: which slot it stores and which version of it (0 = first store of the slot)
type verifC16Planner struct {
	rng      *verifC16Gen
	nextSlot int
	ver      []int
}

func verifC16NewPlanner(seed uint64, cycle, g int) *verifC16Planner {
	return &verifC16Planner{rng: &verifC16Gen{s: verifC16Mix(seed, uint64(cycle), uint64(g))}}
}

func (p *verifC16Planner) step() (slot, ver int) {
	if p.nextSlot > 0 && p.rng.below(6) == 0 {
		slot = p.rng.below(p.nextSlot)
		if p.nextSlot > 4 && p.rng.below(2) == 0 { // prefer a recent slot: overwrites close to the kill point
			slot = p.nextSlot - 1 - p.rng.below(4)
		}
		p.ver[slot]++
		return slot, p.ver[slot]
	}
	slot = p.nextSlot
	p.nextSlot++
	p.ver = append(p.ver, 0)
	return slot, 0
}

func verifC16Addr(g int) vaa.Address {
	var a vaa.Address
	copy(a[:], []byte("verif-c16-writer"))
	a[31] = byte(g)
	return a
}

func verifC16ID(cycle, g, slot int) vaa.VAAID {
	id := vaa.VAAID{EmitterChain: 2, EmitterAddress: verifC16Addr(g), TargetChain: 255, Sequence: uint64(cycle)<<32 | uint64(slot)}
	if slot%8 == 3 {
		// a sibling of the previous slot: same emitter and sequence, another target chain (the identifier has four components)
		id.TargetChain, id.Sequence = 4, uint64(cycle)<<32|uint64(slot-1)
	}
	return id
}

// some stored VAAs have an EMPTY payload: StoreSignedVAA accepts and acknowledges them (the wire decoder refuses them, which is no
// business of the store: what was acknowledged must come back, and the store must reopen with them inside)
func verifC16EmptyPayload(slot int) bool { return slot%16 == 6 }

func verifC16VAA(seed uint64, cycle, g, slot, ver int) *vaa.VAA {
	r := &verifC16Gen{s: verifC16Mix(seed, uint64(cycle), uint64(g), uint64(slot), uint64(ver), 7)}
	payload := make([]byte, 8+r.below(40))
	binary.BigEndian.PutUint64(payload, uint64(ver))
	for i := 8; i < len(payload); i++ {
		payload[i] = byte(r.next())
	}
	if verifC16EmptyPayload(slot) {
		payload = nil // versions still differ in the nonce
	}
	id := verifC16ID(cycle, g, slot)
	v := &vaa.VAA{Version: vaa.SupportedVAAVersion, GuardianSetIndex: uint32(cycle), Timestamp: time.Unix(1700000000+int64(slot), 0), Nonce: uint32(ver),
		Sequence: id.Sequence, ConsistencyLevel: uint8(g), EmitterChain: id.EmitterChain, TargetChain: id.TargetChain, EmitterAddress: id.EmitterAddress, Payload: payload}
	s := &vaa.Signature{Index: uint8(r.below(19))}
	for i := range s.Signature {
		s.Signature[i] = byte(r.next())
	}
	v.Signatures = []*vaa.Signature{s}
	return v
}

// ---------------------------------------------------------------- the writer child

func TestVerifC16Child(t *testing.T) {
	dir := os.Getenv("VERIF_C16_DIR")
	if dir == "" {
		return
	}
	seed, _ := strconv.ParseUint(os.Getenv("VERIF_C16_SEED"), 10, 64)
	cycle, _ := strconv.Atoi(os.Getenv("VERIF_C16_CYCLE"))
	ack := os.NewFile(3, "ack")
	d, err := Open(dir)
	if err != nil {
		ack.Write([]byte("openerr " + strings.ReplaceAll(err.Error(), "\n", " ") + "\n"))
		os.Exit(3)
	}
	ack.Write([]byte("open\n"))
	var wg sync.WaitGroup
	for g := 0; g < verifC16Writers; g++ {
		wg.Add(1)
		go func(g int) {
			defer wg.Done()
			p := verifC16NewPlanner(seed, cycle, g)
			for j := 0; ; j++ {
				slot, ver := p.step()
				v := verifC16VAA(seed, cycle, g, slot, ver)
				if err := d.StoreSignedVAA(v); err != nil {
					ack.Write([]byte(fmt.Sprintf("e %d %d\n", g, j)))
				} else {
					ack.Write([]byte(fmt.Sprintf("a %d %d\n", g, j)))
				}
			}
		}(g)
	}
	wg.Wait() // never: the verifier kills this process
}

// ---------------------------------------------------------------- the verifier

type verifC16Slot struct {
	G      int      `json:"g"`
	Slot   int      `json:"slot"`
	Steps  []int    `json:"steps"`           // steps of writer g (in order) that stored this slot, inside the window
	Vers   []int    `json:"vers"`            // ... and the version each stored
	Acked  []bool   `json:"acked"`           // ... and whether the call was seen to return nil
	Found  bool     `json:"found"`           // lookup after the reopen
	GotVer int      `json:"gotver"`          // which attempted version the bytes found are (-1: none of them)
	Bytes  string   `json:"bytes,omitempty"` // only when GotVer = -1
	VAAs   []string `json:"vaas,omitempty"`  // Marshal output of each version in Vers (for the model run)
}

type verifC16Row struct {
	K          string          `json:"k"`
	Cycle      int             `json:"cycle"`
	KillMode   string          `json:"killmode"`
	DelayMs    int             `json:"delay_ms"`
	Opened     bool            `json:"opened"` // the child reported its Open
	Acks       []int           `json:"acks"`   // per writer: number of calls seen to return nil (a prefix of its steps)
	Errs       int             `json:"errs"`
	AimedAt    []string        `json:"aimed_at,omitempty"`   // zero-length log files seen at the instant of an aimed kill
	EmptyLeft  []string        `json:"empty_left,omitempty"` // zero-length log files in the directory after the kill
	Planted    string          `json:"planted,omitempty"`    // a zero-length next memtable file put there before the reopen (a further kill inside the next start)
	Deferred   bool            `json:"deferred"`             // the next writer was started right after this kill; verified at a later reopen
	LaterKills int             `json:"later_kills"`          // kills between this one and the reopen that verified it
	ReopenOK   bool            `json:"reopen_ok"`
	ReopenMs   int             `json:"reopen_ms"`
	Checked    int             `json:"checked"` // identifiers looked up after this reopen (this cycle's + a sample of earlier cycles')
	Keys       int             `json:"keys"`    // keys of this cycle found by iteration
	Window     []*verifC16Slot `json:"window"`  // the slots stored by the last steps before the kill, for the model run
	Mon        []string        `json:"mon"`
	Total      int             `json:"total_ids"` // identifiers with an expectation so far
}

type verifC16Pending struct {
	row   *verifC16Row
	acked []map[int]bool
}

type verifC16Expect struct {
	id    vaa.VAAID
	bytes string // hex of the value every later lookup must return
}

// zero-length memtable (.mem) and value log (.vlog) files in dir
func verifC16EmptyLogFiles(dir string) []string {
	var out []string
	ents, _ := os.ReadDir(dir)
	for _, e := range ents {
		if strings.HasSuffix(e.Name(), ".mem") || strings.HasSuffix(e.Name(), ".vlog") {
			if fi, err := e.Info(); err == nil && fi.Size() == 0 {
				out = append(out, e.Name())
			}
		}
	}
	return out
}

func verifC16Marshal(v *vaa.VAA) string {
	b, _ := v.Marshal()
	return hex.EncodeToString(b)
}

func TestVerifC16(t *testing.T) {
	f, err := os.Create(os.Getenv("VERIF_OUT"))
	if err != nil {
		t.Fatal(err)
	}
	defer f.Close()
	w := bufio.NewWriterSize(f, 1<<20)
	defer w.Flush()
	enc := json.NewEncoder(w)
	seed, _ := strconv.ParseUint(os.Getenv("VERIF_SEED"), 10, 64)
	cycles := 30
	if os.Getenv("VERIF_TIER") == "thorough" {
		cycles = 500
	}
	if n, err := strconv.Atoi(os.Getenv("VERIF_C16_CYCLES")); err == nil && n > 0 {
		cycles = n
	}
	dir, err := os.MkdirTemp(os.Getenv("VERIF_TMP"), "c16db")
	if err != nil {
		t.Fatal(err)
	}
	defer os.RemoveAll(dir)
	rng := &verifC16Gen{s: seed ^ 0xC16}
	var expects []verifC16Expect // cumulative: what every later lookup must return
	var pending []*verifC16Pending
	forceAimed := false
	sum := func(l []int) int {
		n := 0
		for _, x := range l {
			n += x
		}
		return n
	}
	for cycle := 0; cycle < cycles; cycle++ {
		row := &verifC16Row{K: "cycle", Cycle: cycle, Mon: []string{}, Acks: make([]int, verifC16Writers)}
		pr, pw, err := os.Pipe()
		if err != nil {
			t.Fatal(err)
		}
		cmd := exec.Command(os.Args[0], "-test.run", "^TestVerifC16Child$")
		cmd.Env = append(os.Environ(), "VERIF_C16_DIR="+dir, "VERIF_C16_SEED="+strconv.FormatUint(seed, 10), "VERIF_C16_CYCLE="+strconv.Itoa(cycle))
		cmd.ExtraFiles = []*os.File{pw}
		if err := cmd.Start(); err != nil {
			t.Fatal(err)
		}
		pw.Close()
		lines := make(chan string, 1<<16)
		go func() {
			sc := bufio.NewScanner(pr)
			for sc.Scan() {
				lines <- sc.Text()
			}
			close(lines)
		}()
		var got []string
		// the kill instant: a delay after the first acknowledged store, or (1 in 6) a delay after the start, whatever the child is doing
		row.KillMode = "after-first-ack"
		row.DelayMs = []int{0, 1, 2, 5, 10, 20, 40, 80, 150, 300}[rng.below(10)] + rng.below(5)
		if rng.below(6) == 0 {
			row.KillMode = "after-start" // may hit process start, Open (replay of what the previous kill left) or the first stores
			row.DelayMs = rng.below(250)
		}
		if forceAimed {
			// the previous kill was followed directly by this writer: what that writer acknowledged exists only in its memtable
			// file; aim this kill into the Open that meets it (creation of the next memtable file)
			row.KillMode = "after-first-ack"
		}
		if row.KillMode == "after-first-ack" && (forceAimed || rng.below(4) == 0) {
			// aimed: the moment a zero-length memtable / value log file is visible in the directory (the engine is inside the
			// creation or deletion of one of its log files), else after the delay
			row.KillMode = "aimed-at-empty-log-file"
			row.DelayMs = 400 + rng.below(600) // from the start of the process: the window opens during Open and the first flush
			if !forceAimed && rng.below(2) == 0 {
				// only once the writer's Open has returned: aims at the background flush deleting the replayed memtable file
				row.KillMode = "aimed-at-empty-log-file-after-open"
			}
		}
		deadline := time.After(30 * time.Second)
		if row.KillMode == "aimed-at-empty-log-file-after-open" {
		waitopen:
			for {
				select {
				case l, ok := <-lines:
					if !ok {
						break waitopen
					}
					got = append(got, l)
					if l == "open" {
						break waitopen
					}
				case <-deadline:
					break waitopen
				}
			}
		}
		if row.KillMode == "after-first-ack" {
		wait:
			for {
				select {
				case l, ok := <-lines:
					if !ok {
						break wait
					}
					got = append(got, l)
					if strings.HasPrefix(l, "a ") {
						break wait
					}
				case <-deadline:
					row.Mon = append(row.Mon, "the writer did not acknowledge any store within 30 s")
					break wait
				}
			}
		}
		if strings.HasPrefix(row.KillMode, "aimed-at-empty-log-file") {
			until := time.Now().Add(time.Duration(row.DelayMs) * time.Millisecond)
			for time.Now().Before(until) {
				if n := verifC16EmptyLogFiles(dir); len(n) > 0 {
					row.AimedAt = n
					break
				}
			}
		} else {
			time.Sleep(time.Duration(row.DelayMs) * time.Millisecond)
		}
		cmd.Process.Kill()
		cmd.Wait()
		for l := range lines {
			got = append(got, l)
		}
		pr.Close()
		row.EmptyLeft = verifC16EmptyLogFiles(dir)
		// what the child was seen to complete
		acked := make([]map[int]bool, verifC16Writers)
		for g := range acked {
			acked[g] = map[int]bool{}
		}
		for _, l := range got {
			p := strings.Fields(l)
			switch {
			case l == "open":
				row.Opened = true
			case len(p) >= 1 && p[0] == "openerr":
				row.Mon = append(row.Mon, "the store did not reopen in the writer after the previous kill: "+l)
			case len(p) == 3 && (p[0] == "a" || p[0] == "e"):
				g, _ := strconv.Atoi(p[1])
				j, _ := strconv.Atoi(p[2])
				if p[0] == "a" {
					acked[g][j] = true
				} else {
					row.Errs++
				}
			}
		}
		for g := 0; g < verifC16Writers; g++ {
			row.Acks[g] = len(acked[g])
		}
		pending = append(pending, &verifC16Pending{row: row, acked: acked})
		// 1 kill in 4 is followed directly by the next writer: its Open meets what this kill left (no clean close in between)
		forceAimed = false
		if rng.below(4) == 0 && cycle != cycles-1 {
			row.Deferred = true
			forceAimed = sum(row.Acks) > 0 && rng.below(2) == 0
			continue
		}
		// 1 verified kill in 5: as if the next start had been killed inside the creation of its memtable file before this
		// reopen (a zero-length next NNNNN.mem next to the memtable file that alone holds what the writer acknowledged)
		if sum(row.Acks) > 0 && rng.below(5) == 0 {
			maxFid := 0
			if ents, err := os.ReadDir(dir); err == nil {
				for _, e := range ents {
					if strings.HasSuffix(e.Name(), ".mem") {
						if n, err := strconv.Atoi(strings.TrimSuffix(e.Name(), ".mem")); err == nil && n > maxFid {
							maxFid = n
						}
					}
				}
			}
			name := fmt.Sprintf("%05d.mem", maxFid+1)
			if os.WriteFile(dir+"/"+name, nil, 0600) == nil {
				row.Planted = name
				row.EmptyLeft = verifC16EmptyLogFiles(dir)
			}
		}
		// reopen the same directory
		t0 := time.Now()
		d, err := Open(dir)
		reopenMs := int(time.Since(t0) / time.Millisecond)
		if err != nil {
			e := err.Error()
			if i := strings.Index(e, "\n"); i > 0 {
				e = e[:i]
			}
			row.Mon = append(row.Mon, fmt.Sprintf("the store did not reopen after the kill (zero-length log files left by the kill: %v): %s", row.EmptyLeft, e))
			for _, pc := range pending {
				enc.Encode(pc.row)
			}
			break
		}
		mon := &row.Mon
		lookup := func(id vaa.VAAID) (string, bool) {
			b, err := d.GetSignedVAABytes(id)
			if err == ErrVAANotFound {
				return "", false
			}
			if err != nil {
				*mon = append(*mon, fmt.Sprintf("lookup of %s after the reopen failed: %v", id.ToString(), err))
				return "", false
			}
			return hex.EncodeToString(b), true
		}
		// earlier cycles: every later lookup returns what was there (all of them in the last cycle, a sample otherwise)
		nprev := len(expects)
		for k := 0; k < nprev; k++ {
			if cycle != cycles-1 && nprev > 400 && rng.below(nprev) >= 400 {
				continue
			}
			e := expects[k]
			row.Checked++
			if b, ok := lookup(e.id); !ok || b != e.bytes {
				row.Mon = append(row.Mon, fmt.Sprintf("VAA %s, present after an earlier reopen, is %s after the kill of cycle %d", e.id.ToString(), map[bool]string{true: "different", false: "missing"}[ok], cycle))
			}
		}
		// results of lookups are held while further lookups are made (a batch RPC collects up to 20 before answering; concurrent
		// RPCs overlap): each must still be the stored bytes afterwards — "a lookup never returns bytes that differ from a VAA stored
		// under that identifier" is about the bytes the caller holds, not about a buffer that is valid until the next call
		{
			type held struct {
				id   vaa.VAAID
				b    []byte
				want string
			}
			var hs []held
			for k := 0; k < nprev && len(hs) < 64; k++ {
				e := expects[(k*7919)%nprev]
				if b, err := d.GetSignedVAABytes(e.id); err == nil {
					hs = append(hs, held{e.id, b, e.bytes})
				}
			}
			for _, h := range hs {
				if hex.EncodeToString(h.b) != h.want {
					row.Mon = append(row.Mon, fmt.Sprintf("the bytes returned by the lookup of %s changed while %d later lookups were made (the result is not the caller's own copy of the stored VAA)", h.id.ToString(), len(hs)))
					break
				}
			}
		}
		// identifiers that were NEVER stored but whose key text is a prefix of a stored key (sequence s/10 of a stored sequence s): a lookup
		// must answer not-found, never the bytes of the sibling
		{
			written := map[vaa.VAAID]bool{}
			for _, e := range expects {
				written[e.id] = true
			}
			asked := 0
			for k := 0; k < nprev && asked < 48; k++ {
				e := expects[(k*104729)%nprev]
				absent := e.id
				absent.Sequence = e.id.Sequence / 10
				if written[absent] || absent.Sequence == e.id.Sequence {
					continue
				}
				asked++
				if b, err := d.GetSignedVAABytes(absent); err == nil {
					row.Mon = append(row.Mon, fmt.Sprintf("lookup of %s, an identifier that was never stored, returns %d bytes (the stored sibling %s has a key that starts with its key) instead of not-found", absent.ToString(), len(b), e.id.ToString()))
					break
				} else if err != ErrVAANotFound {
					row.Mon = append(row.Mon, fmt.Sprintf("lookup of the never-stored identifier %s failed with %v instead of not-found", absent.ToString(), err))
					break
				}
			}
		}
		// the cycles killed since the last verification, oldest first
		for pi, pc := range pending {
			row := pc.row
			acked := pc.acked
			cycle := row.Cycle
			mon = &row.Mon
			row.ReopenOK = true
			row.ReopenMs = reopenMs
			row.LaterKills = len(pending) - 1 - pi
			for g := 0; g < verifC16Writers; g++ {
				na := len(acked[g])
				for j := 0; j < na; j++ {
					if !acked[g][j] {
						row.Mon = append(row.Mon, fmt.Sprintf("harness: acknowledgements of writer %d are not a prefix of its steps (step %d missing of %d)", g, j, na))
						break
					}
				}
				// steps 0..na-1 returned nil; step na may have been attempted (in flight, or finished with the line not written)
				p := verifC16NewPlanner(seed, cycle, g)
				type st struct{ slot, ver int }
				steps := make([]st, na+1)
				bySlot := map[int][]int{}
				for j := 0; j <= na; j++ {
					s, v := p.step()
					steps[j] = st{s, v}
					bySlot[s] = append(bySlot[s], j)
				}
				slots := make([]int, 0, len(bySlot))
				for s := range bySlot {
					slots = append(slots, s)
				}
				sort.Ints(slots)
				inWindow := map[int]bool{}
				for j := na; j >= 0 && j > na-8; j-- {
					inWindow[steps[j].slot] = true
				}
				for _, s := range slots {
					js := bySlot[s]
					id := verifC16ID(cycle, g, s)
					b, found := lookup(id)
					row.Checked++
					lastAcked := -1 // index into js
					for k, j := range js {
						if j < na {
							lastAcked = k
						}
					}
					gotVer := -1
					for k := len(js) - 1; k >= 0 && found; k-- {
						if verifC16Marshal(verifC16VAA(seed, cycle, g, s, steps[js[k]].ver)) == b {
							gotVer = steps[js[k]].ver
							break
						}
					}
					switch {
					case !found && lastAcked >= 0:
						row.Mon = append(row.Mon, fmt.Sprintf("acknowledged VAA %s (writer %d step %d of cycle %d, killed %d ms later, %d further kills before this reopen) is missing after the reopen%s", id.ToString(), g, js[lastAcked], cycle, row.DelayMs, row.LaterKills, map[bool]string{true: " (zero-length " + row.Planted + " planted before the reopen)", false: ""}[row.Planted != ""]))
					case found && gotVer < 0:
						row.Mon = append(row.Mon, fmt.Sprintf("lookup of %s returns bytes that are not any VAA stored under that identifier", id.ToString()))
					case found && lastAcked >= 0 && gotVer < steps[js[lastAcked]].ver:
						row.Mon = append(row.Mon, fmt.Sprintf("lookup of %s returns version %d although the store of version %d was acknowledged", id.ToString(), gotVer, steps[js[lastAcked]].ver))
					}
					if found {
						expects = append(expects, verifC16Expect{id, b})
					}
					if inWindow[s] && !verifC16EmptyPayload(s) { // (the Coq comparison decodes the stored bytes: empty-payload VAAs are judged by the monitors above only)
						ws := &verifC16Slot{G: g, Slot: s, Found: found, GotVer: gotVer}
						for _, j := range js {
							ws.Steps = append(ws.Steps, j)
							ws.Vers = append(ws.Vers, steps[j].ver)
							ws.Acked = append(ws.Acked, j < na)
							ws.VAAs = append(ws.VAAs, verifC16Marshal(verifC16VAA(seed, cycle, g, s, steps[j].ver)))
						}
						if found && gotVer < 0 {
							ws.Bytes = b
						}
						row.Window = append(row.Window, ws)
					}
				}
				// recovered is a subset of attempted: no key of this writer and cycle beyond the steps it can have reached
				prefix := []byte(fmt.Sprintf("signed/2/%s/255/", verifC16Addr(g)))
				d.db.View(func(txn *badger.Txn) error {
					it := txn.NewIterator(badger.DefaultIteratorOptions)
					defer it.Close()
					for it.Seek(prefix); it.ValidForPrefix(prefix); it.Next() {
						seq, err := strconv.ParseUint(string(it.Item().Key()[len(prefix):]), 10, 64)
						if err != nil || int(seq>>32) > pending[len(pending)-1].row.Cycle {
							row.Mon = append(row.Mon, fmt.Sprintf("key %s in the store was never written", it.Item().Key()))
							continue
						}
						if int(seq>>32) != cycle {
							continue
						}
						row.Keys++
						if _, ok := bySlot[int(seq&0xffffffff)]; !ok {
							row.Mon = append(row.Mon, fmt.Sprintf("key %s is in the store although writer %d cannot have attempted it (it was seen to finish %d steps)", it.Item().Key(), g, na))
						}
					}
					return nil
				})
			}
			row.Total = len(expects)
		}
		if err := d.Close(); err != nil {
			row.Mon = append(row.Mon, "closing the verifier's store failed: "+err.Error())
		}
		for _, pc := range pending {
			enc.Encode(pc.row)
		}
		pending = nil
	}
	// what a kill inside the engine's creation or deletion of its log files leaves behind: zero-length NNNNN.mem / NNNNNN.vlog
	// files (badger creates such a file and sizes it afterwards, and deletes one with Truncate(0) followed by Remove).
	// One such file was seen for real in kill cycle 204 of a thorough run; two at once (the background flush deleting the old
	// memtable file while Open creates the next value log file) by an aimed kill.  The store must reopen on every such state,
	// with everything still there.
	for _, plant := range [][]string{{"mem"}, {"mem", "vlog"}, {"mem", "mem", "vlog"}, {"vlog", "vlog"}} {
		row := map[string]interface{}{"k": "leftover"}
		mon := []string{}
		maxFid := map[string]int{}
		if ents, err := os.ReadDir(dir); err == nil {
			for _, e := range ents {
				for _, ext := range []string{"mem", "vlog"} {
					if strings.HasSuffix(e.Name(), "."+ext) {
						if n, err := strconv.Atoi(strings.TrimSuffix(e.Name(), "."+ext)); err == nil && n > maxFid[ext] {
							maxFid[ext] = n
						}
					}
				}
			}
		}
		var names []string
		for _, ext := range plant {
			maxFid[ext]++
			name := fmt.Sprintf("%05d.mem", maxFid[ext])
			if ext == "vlog" {
				name = fmt.Sprintf("%06d.vlog", maxFid[ext])
			}
			if err := os.WriteFile(dir+"/"+name, nil, 0600); err != nil {
				t.Fatal(err)
			}
			names = append(names, name)
		}
		row["files"] = names
		d, err := Open(dir)
		row["reopen_ok"] = err == nil
		if err != nil {
			e := err.Error()
			if i := strings.Index(e, "\n"); i > 0 {
				e = e[:i]
			}
			row["error"] = e
			mon = append(mon, fmt.Sprintf("the store did not reopen on what a kill inside the creation / deletion of badger's log files leaves (zero-length %v): %s", names, e))
			for k := 0; k < 8 && err != nil; k++ { // leave a usable store for the rest of the run
				d, err = Open(dir)
			}
		}
		if err == nil {
			missing := 0
			for k, e := range expects {
				if k%97 != 0 {
					continue
				}
				if b, gerr := d.GetSignedVAABytes(e.id); gerr != nil || hex.EncodeToString(b) != e.bytes {
					missing++
				}
			}
			row["missing_after"] = missing
			if missing > 0 {
				mon = append(mon, fmt.Sprintf("%d sampled VAAs, present after an earlier reopen, are missing or different after reopening on zero-length %v", missing, names))
			}
			d.Close()
		}
		row["mon"] = mon
		enc.Encode(row)
	}
	// the wrapper reports a failed transaction: a store on a closed database returns an error and leaves nothing behind
	{
		row := map[string]interface{}{"k": "closed"}
		d, err := Open(dir)
		if err == nil {
			v := verifC16VAA(seed, 1<<20, 0, 0, 0)
			d.Close()
			var serr error
			panicked := false
			func() {
				defer func() {
					if r := recover(); r != nil {
						panicked = true
					}
				}()
				serr = d.StoreSignedVAA(v)
			}()
			row["store_err"] = serr != nil
			row["panicked"] = panicked
			d2, err2 := Open(dir)
			if err2 == nil {
				_, gerr := d2.GetSignedVAABytes(*VaaIDFromVAA(v))
				row["found_after"] = gerr == nil
				d2.Close()
			}
			mon := []string{}
			if serr == nil && !panicked && row["found_after"] == false {
				mon = append(mon, "StoreSignedVAA on a closed store returned success although the VAA was not stored")
			}
			row["mon"] = mon
			row["vaa"] = verifC16Marshal(v)
		}
		enc.Encode(row)
	}
}
