//go:build verif

package db

// Shared generator / reference monitor for C12.  This file references package vaa only, so that the identical text
// (package clause aside) is injected into node/pkg/db and into node/cmd/guardiand (harness/guardiand_db); checks/c12.py
// verifies that the two copies are identical.

import (
	"bufio"
	"encoding/hex"
	"encoding/json"
	"fmt"
	"os"
	"sort"
	"strconv"
	"time"

	"github.com/alephium/wormhole-fork/node/pkg/vaa"
)

type verifC12Rng struct{ s uint64 }

func (r *verifC12Rng) next() uint64 {
	r.s += 0x9E3779B97F4A7C15
	z := r.s
	z = (z ^ (z >> 30)) * 0xBF58476D1CE4E5B9
	z = (z ^ (z >> 27)) * 0x94D049BB133111EB
	return z ^ (z >> 31)
}
func (r *verifC12Rng) below(n int) int { return int(r.next() % uint64(n)) }
func (r *verifC12Rng) bytes(n int) []byte {
	b := make([]byte, n)
	for i := range b {
		b[i] = byte(r.next())
	}
	return b
}

func verifC12Seed() uint64 {
	s, _ := strconv.ParseUint(os.Getenv("VERIF_SEED"), 10, 64)
	return s
}
func verifC12Thorough() bool { return os.Getenv("VERIF_TIER") == "thorough" }

type verifC12Out struct {
	f *os.File
	w *bufio.Writer
	e *json.Encoder
}

func verifC12Open() (*verifC12Out, error) {
	f, err := os.Create(os.Getenv("VERIF_OUT"))
	if err != nil {
		return nil, err
	}
	w := bufio.NewWriterSize(f, 1<<20)
	return &verifC12Out{f, w, json.NewEncoder(w)}, nil
}
func (o *verifC12Out) emit(v interface{}) { o.e.Encode(v) }
func (o *verifC12Out) close()             { o.w.Flush(); o.f.Close() }

// chain ids of the property's quantifier; clash[x] = ids whose decimal rendering starts with the rendering of x
var verifC12Chains = []uint16{1, 2, 4, 10, 11, 12, 13, 14, 15, 16, 17, 42, 255, 10001}
var verifC12Clash = map[uint16][]uint16{1: {10, 11, 12, 13, 14, 15, 16, 17, 10001}, 2: {255}, 4: {42}, 10: {10001}}
var verifC12Small = []uint16{1, 2, 4, 10}
var verifC12BigSeqs = []uint64{1 << 32, 1<<32 - 1, 1<<63 - 1, 1 << 63, 1<<64 - 2, 1<<64 - 1, 99999999999, 18446744073709551}

type verifC12Op struct {
	V   *vaa.VAA
	Odd string // "", "nosig", "emptypayload", "version"
}

type verifC12Plan struct {
	Idx   int
	Theme string
	Pool  []vaa.Address
	Ops   []*verifC12Op
	GapOK bool // every sequence is small enough for the gap loop to be run
	Odd   bool
}

func verifC12VAA(r *verifC12Rng, ec uint16, a vaa.Address, tc uint16, seq uint64) *vaa.VAA {
	v := &vaa.VAA{
		Version:          vaa.SupportedVAAVersion,
		GuardianSetIndex: uint32(r.below(4)),
		Timestamp:        time.Unix(int64(1600000000+r.below(100000000)), 0),
		Nonce:            uint32(r.next()),
		Sequence:         seq,
		ConsistencyLevel: uint8(r.next()),
		EmitterChain:     vaa.ChainID(ec),
		TargetChain:      vaa.ChainID(tc),
		EmitterAddress:   a,
		Payload:          r.bytes(1 + r.below(24)),
	}
	for i := 0; i < 1+r.below(2); i++ {
		s := &vaa.Signature{Index: uint8(i)}
		copy(s.Signature[:], r.bytes(65))
		v.Signatures = append(v.Signatures, s)
	}
	return v
}

// digits of big that follow the digits of small (big's rendering starts with small's), "" if they do not
func verifC12Rest(small, big uint16) string {
	s, b := strconv.Itoa(int(small)), strconv.Itoa(int(big))
	if len(b) > len(s) && b[:len(s)] == s {
		return b[len(s):]
	}
	return ""
}

func verifC12MakePlan(r *verifC12Rng, idx int) *verifC12Plan {
	themes := []string{"targets-clash", "emitters-clash", "mixed", "governance", "big", "odd", "wide-gap", "overwrite", "crowded"}
	p := &verifC12Plan{Idx: idx, Theme: themes[idx%len(themes)], GapOK: true}
	if p.Theme == "crowded" && (idx/len(themes))%3 != 0 {
		p.Theme = "mixed" // one crowded store in three rounds of themes: they are large
	}
	if idx == 0 {
		p.Theme = "witness"
	}
	var a0 vaa.Address
	copy(a0[:], r.bytes(32))
	a1 := a0
	a1[31] ^= 1 << uint(r.below(8))
	gov := vaa.Address{}
	gov[31] = 4
	a3 := a0
	a3[0] ^= 0x10
	p.Pool = []vaa.Address{a0, a1, gov, a3}
	add := func(ec uint16, a vaa.Address, tc uint16, seq uint64) {
		p.Ops = append(p.Ops, &verifC12Op{V: verifC12VAA(r, ec, a, tc, seq)})
	}
	pick := func() uint16 { return verifC12Chains[r.below(len(verifC12Chains))] }
	n := 12 + r.below(36)
	switch p.Theme {
	case "witness":
		// the smallest store on which a scan for target chain 2 can meet a key of target chain 255
		add(4, a0, 255, 7)
	case "targets-clash":
		ec := pick()
		small := verifC12Small[r.below(len(verifC12Small))]
		tcs := append([]uint16{small, pick()}, verifC12Clash[small]...)
		for i := 0; i < n; i++ {
			tc := tcs[r.below(len(tcs))]
			seq := uint64(r.below(26))
			add(ec, a0, tc, seq)
			// the pair that collides when the separator between target and sequence is lost
			if rest := verifC12Rest(small, tc); rest != "" && rest[0] != '0' && r.below(2) == 0 {
				s2, _ := strconv.ParseUint(rest+strconv.FormatUint(seq, 10), 10, 64)
				add(ec, a0, small, s2)
			}
		}
	case "emitters-clash":
		small := verifC12Small[r.below(len(verifC12Small))]
		ecs := append([]uint16{small}, verifC12Clash[small]...)
		tc := pick()
		for i := 0; i < n; i++ {
			add(ecs[r.below(len(ecs))], p.Pool[r.below(2)], tc, uint64(r.below(20)))
		}
	case "mixed":
		for i := 0; i < n; i++ {
			add(pick(), p.Pool[r.below(4)], pick(), uint64(r.below(40)))
		}
	case "governance":
		tcs := []uint16{0, 255, 2, 1, 10, 4, 42}
		for i := 0; i < n; i++ {
			switch r.below(5) {
			case 0:
				add(255, a0, tcs[r.below(len(tcs))], uint64(r.below(30)))
			case 1:
				g2 := gov
				g2[30] = 1
				add(255, g2, tcs[r.below(len(tcs))], uint64(r.below(30)))
			case 2:
				add(2, gov, tcs[r.below(len(tcs))], uint64(r.below(30)))
			default:
				add(255, gov, tcs[r.below(len(tcs))], uint64(r.below(30)))
			}
		}
	case "big":
		p.GapOK = false
		for i := 0; i < n; i++ {
			seq := verifC12BigSeqs[r.below(len(verifC12BigSeqs))]
			if r.below(3) == 0 {
				seq = r.next()
			}
			if r.below(4) == 0 {
				seq = uint64(r.below(30))
			}
			add(pick(), p.Pool[r.below(3)], pick(), seq)
		}
	case "odd":
		p.Odd = true
		ec, tc := pick(), pick()
		for i := 0; i < n; i++ {
			add(ec, p.Pool[r.below(2)], tc, uint64(r.below(16)))
			op := p.Ops[len(p.Ops)-1]
			switch r.below(7) {
			case 0:
				op.Odd = "nosig"
				op.V.Signatures = nil
			case 1:
				op.Odd = "emptypayload"
				op.V.Payload = []byte{}
			case 2:
				op.Odd = "version"
				op.V.Version = uint8(2 + r.below(3))
			}
		}
	case "wide-gap":
		ec := pick()
		small := verifC12Small[r.below(3)]
		big := verifC12Clash[small][r.below(len(verifC12Clash[small]))]
		for i := 0; i < n; i++ {
			add(ec, a0, small, uint64(r.below(12)))
		}
		// a far-away sequence in the stream a lost separator would merge in, and one in the neighbouring emitter's stream
		wide := 1
		if verifC12Thorough() {
			wide = 10
		}
		add(ec, a0, big, uint64(wide*(300+r.below(900))))
		add(ec, a1, small, uint64(wide*(200+r.below(100))))
	case "crowded":
		// a short, almost gap-free stream in FRONT of well over a hundred keys of the same emitter under other target chains (an
		// engine that recycles the buffers of items it has moved past refills them with entries a hundred positions further on)
		ec := pick()
		for sq := 0; sq < 30; sq++ {
			if sq != 11 && sq != 23 {
				add(ec, a0, 2, uint64(sq))
			}
		}
		for _, tc := range []uint16{255, 4, 42} {
			for sq := 0; sq < 45; sq++ {
				add(ec, a0, tc, uint64(1000+sq*7))
			}
		}
	case "overwrite":
		ec, tc := pick(), pick()
		for i := 0; i < n; i++ {
			add(ec, p.Pool[r.below(2)], tc, uint64(r.below(5)))
		}
	}
	return p
}

// ---------------------------------------------------------------- queries

type verifC12Query struct {
	T    string   `json:"t"` // get | gap | gov | batch
	EC   uint32   `json:"ec"`
	AI   int      `json:"ai"`             // pool index
	AHex string   `json:"ahex,omitempty"` // rpc only: the address string sent (may be malformed); "" = hex of pool[AI]
	TC   uint32   `json:"tc"`
	Seq  uint64   `json:"sq"`
	Seqs []uint64 `json:"seqs,omitempty"`
	// results
	Code  int           `json:"code"` // 0 ok, 1 not found, 2 invalid argument, 3 internal / error, 4 panic
	B     string        `json:"b,omitempty"`
	Resp  []uint64      `json:"resp,omitempty"`
	First uint64        `json:"first"`
	Last  uint64        `json:"last"`
	Ents  []verifC12Ent `json:"ents,omitempty"`
	IDs   []string      `json:"ids,omitempty"`
}

type verifC12Ent struct {
	TC  uint32 `json:"tc"`
	Seq uint64 `json:"sq"`
	B   string `json:"b"`
}

func verifC12Related(c uint16) []uint16 {
	out := append([]uint16{}, verifC12Clash[c]...)
	for s, l := range verifC12Clash {
		for _, b := range l {
			if b == c {
				out = append(out, s)
			}
		}
	}
	sort.Slice(out, func(i, j int) bool { return out[i] < out[j] })
	return out
}

func verifC12PoolIndex(p *verifC12Plan, a vaa.Address) int {
	for i, x := range p.Pool {
		if x == a {
			return i
		}
	}
	p.Pool = append(p.Pool, a)
	return len(p.Pool) - 1
}

// the abstract queries asked of one store (rpc = also the malformed / wrapped request shapes of the RPC layer)
func verifC12Queries(r *verifC12Rng, p *verifC12Plan, rpc bool) []*verifC12Query {
	var qs []*verifC12Query
	type stream struct {
		ec, tc uint16
		ai     int
	}
	seenID := map[string]bool{}
	seenStream := map[stream]bool{}
	seenEm := map[stream]bool{}
	var streams, ems []stream
	var seqPool []uint64
	for _, op := range p.Ops {
		v := op.V
		ai := verifC12PoolIndex(p, v.EmitterAddress)
		id := fmt.Sprintf("%d/%d/%d/%d", v.EmitterChain, ai, v.TargetChain, v.Sequence)
		seqPool = append(seqPool, v.Sequence)
		if !seenID[id] {
			seenID[id] = true
			qs = append(qs, &verifC12Query{T: "get", EC: uint32(v.EmitterChain), AI: ai, TC: uint32(v.TargetChain), Seq: v.Sequence})
			// near misses: one component moved to a related value
			switch r.below(6) {
			case 0:
				qs = append(qs, &verifC12Query{T: "get", EC: uint32(v.EmitterChain), AI: ai, TC: uint32(v.TargetChain), Seq: v.Sequence + 1})
			case 1:
				if rel := verifC12Related(uint16(v.TargetChain)); len(rel) > 0 {
					qs = append(qs, &verifC12Query{T: "get", EC: uint32(v.EmitterChain), AI: ai, TC: uint32(rel[r.below(len(rel))]), Seq: v.Sequence})
				}
			case 2:
				if rel := verifC12Related(uint16(v.EmitterChain)); len(rel) > 0 {
					qs = append(qs, &verifC12Query{T: "get", EC: uint32(rel[r.below(len(rel))]), AI: ai, TC: uint32(v.TargetChain), Seq: v.Sequence})
				}
			case 3:
				qs = append(qs, &verifC12Query{T: "get", EC: uint32(v.EmitterChain), AI: (ai + 1) % len(p.Pool), TC: uint32(v.TargetChain), Seq: v.Sequence})
			case 4:
				qs = append(qs, &verifC12Query{T: "get", EC: uint32(v.EmitterChain), AI: ai, TC: uint32(v.TargetChain), Seq: v.Sequence*10 + uint64(r.below(10))})
			}
		}
		s := stream{uint16(v.EmitterChain), uint16(v.TargetChain), ai}
		if !seenStream[s] {
			seenStream[s] = true
			streams = append(streams, s)
		}
		e := stream{uint16(v.EmitterChain), 0, ai}
		if !seenEm[e] {
			seenEm[e] = true
			ems = append(ems, e)
		}
	}
	// gap: every stream present, plus the streams a lost separator would merge with it
	if p.GapOK {
		asked := map[stream]bool{}
		ask := func(s stream) {
			if !asked[s] {
				asked[s] = true
				qs = append(qs, &verifC12Query{T: "gap", EC: uint32(s.ec), AI: s.ai, TC: uint32(s.tc)})
			}
		}
		for _, s := range streams {
			ask(s)
			for _, t := range verifC12Related(s.tc) {
				ask(stream{s.ec, t, s.ai})
			}
			for _, c := range verifC12Related(s.ec) {
				if r.below(3) == 0 {
					ask(stream{c, s.tc, s.ai})
				}
			}
			if r.below(4) == 0 {
				ask(stream{s.ec, s.tc, (s.ai + 1) % len(p.Pool)})
			}
		}
		ask(stream{verifC12Chains[r.below(len(verifC12Chains))], verifC12Chains[r.below(len(verifC12Chains))], r.below(len(p.Pool))})
	}
	// governance batches / plain batches: requested sequences drawn from those present anywhere in the store and absent ones
	mkSeqs := func(n int) []uint64 {
		out := make([]uint64, 0, n)
		for i := 0; i < n; i++ {
			if r.below(4) != 0 && len(seqPool) > 0 {
				out = append(out, seqPool[r.below(len(seqPool))])
			} else {
				out = append(out, uint64(r.below(45)))
			}
		}
		return out
	}
	sizes := []int{0, 1, 3, 8, 20}
	if rpc {
		sizes = append(sizes, 21, 25)
	} else {
		sizes = append(sizes, 40)
	}
	for _, e := range ems {
		qs = append(qs, &verifC12Query{T: "gov", EC: uint32(e.ec), AI: e.ai, Seqs: mkSeqs(sizes[r.below(len(sizes))])})
		qs = append(qs, &verifC12Query{T: "gov", EC: uint32(e.ec), AI: e.ai, Seqs: mkSeqs(20)})
		for _, c := range verifC12Related(e.ec) {
			if r.below(3) == 0 {
				qs = append(qs, &verifC12Query{T: "gov", EC: uint32(c), AI: e.ai, Seqs: mkSeqs(12)})
			}
		}
	}
	qs = append(qs, &verifC12Query{T: "gov", EC: uint32(verifC12Chains[r.below(len(verifC12Chains))]), AI: r.below(len(p.Pool)), Seqs: mkSeqs(10)})
	for _, s := range streams {
		if r.below(2) == 0 {
			qs = append(qs, &verifC12Query{T: "batch", EC: uint32(s.ec), AI: s.ai, TC: uint32(s.tc), Seqs: mkSeqs(sizes[r.below(len(sizes))])})
		}
		for _, t := range verifC12Related(s.tc) {
			if r.below(3) == 0 {
				qs = append(qs, &verifC12Query{T: "batch", EC: uint32(s.ec), AI: s.ai, TC: uint32(t), Seqs: mkSeqs(10)})
			}
		}
	}
	if rpc {
		// request shapes that only exist at the RPC layer
		good := hex.EncodeToString(p.Pool[0][:])
		shapes := []string{good[:62], good + "00", good[:63], "zz" + good[2:], "0x" + good[2:], ""}
		up := []byte(good)
		for i := range up {
			if up[i] >= 'a' && up[i] <= 'f' {
				up[i] -= 32
			}
		}
		shapes = append(shapes, string(up))
		for i, sh := range shapes {
			s := streams[r.below(len(streams))]
			kind := []string{"get", "batch", "gap"}[(i+p.Idx)%3]
			if kind == "gap" && !p.GapOK {
				kind = "get"
			}
			q := &verifC12Query{T: kind, EC: uint32(s.ec), AI: 0, AHex: sh, TC: uint32(s.tc), Seq: seqPool[r.below(len(seqPool))], Seqs: mkSeqs(3)}
			if sh == "" {
				q.AHex = "-" // marks "send the empty string"
			}
			qs = append(qs, q)
		}
		// chain numbers beyond 16 bits: the uint16 conversion wraps
		s := streams[r.below(len(streams))]
		qs = append(qs, &verifC12Query{T: "get", EC: uint32(s.ec) + 65536, AI: s.ai, TC: uint32(s.tc), Seq: seqPool[r.below(len(seqPool))]})
		qs = append(qs, &verifC12Query{T: "get", EC: uint32(s.ec), AI: s.ai, TC: uint32(s.tc) + 131072, Seq: seqPool[r.below(len(seqPool))]})
		if p.GapOK {
			qs = append(qs, &verifC12Query{T: "gap", EC: uint32(s.ec) + 65536, AI: s.ai, TC: uint32(s.tc) + 65536})
		}
	}
	return qs
}

// ---------------------------------------------------------------- reference (the statement of C12, evaluated directly)

type verifC12ID struct {
	EC uint16
	A  vaa.Address
	TC uint16
	S  uint64
}

type verifC12Truth struct {
	m map[verifC12ID][]byte // last bytes stored under the id
}

func verifC12NewTruth() *verifC12Truth { return &verifC12Truth{m: map[verifC12ID][]byte{}} }

func (tr *verifC12Truth) stored(v *vaa.VAA, b []byte) {
	tr.m[verifC12ID{uint16(v.EmitterChain), v.EmitterAddress, uint16(v.TargetChain), v.Sequence}] = b
}

// missing sequence numbers of one stream: [0, max] minus the sequences stored in exactly that stream
func (tr *verifC12Truth) gap(ec uint16, a vaa.Address, tc uint16) (resp []uint64, last uint64) {
	have := map[uint64]bool{}
	for id := range tr.m {
		if id.EC == ec && id.A == a && id.TC == tc {
			have[id.S] = true
			if id.S > last {
				last = id.S
			}
		}
	}
	resp = []uint64{}
	for i := uint64(0); i <= last; i++ {
		if !have[i] {
			resp = append(resp, i)
		}
		if i == last {
			break
		}
	}
	return
}

// entries of a governance batch: every VAA of the emitter whose sequence is requested, sorted (target, sequence)
func (tr *verifC12Truth) gov(ec uint16, a vaa.Address, seqs []uint64) []verifC12Ent {
	want := map[uint64]bool{}
	for _, s := range seqs {
		want[s] = true
	}
	out := []verifC12Ent{}
	for id, b := range tr.m {
		if id.EC == ec && id.A == a && want[id.S] {
			out = append(out, verifC12Ent{uint32(id.TC), id.S, hex.EncodeToString(b)})
		}
	}
	verifC12SortEnts(out)
	return out
}

func verifC12SortEnts(e []verifC12Ent) {
	sort.Slice(e, func(i, j int) bool {
		if e[i].TC != e[j].TC {
			return e[i].TC < e[j].TC
		}
		if e[i].Seq != e[j].Seq {
			return e[i].Seq < e[j].Seq
		}
		return e[i].B < e[j].B
	})
}

func verifC12EqU64(a, b []uint64) bool {
	if len(a) != len(b) {
		return false
	}
	for i := range a {
		if a[i] != b[i] {
			return false
		}
	}
	return true
}

func verifC12Head(a []uint64) string {
	if len(a) > 12 {
		return fmt.Sprintf("%v...(%d)", a[:12], len(a))
	}
	return fmt.Sprintf("%v", a)
}

// monitor of one answered query against the reference; returns messages (empty = the statement holds here)
func verifC12Monitor(tr *verifC12Truth, p *verifC12Plan, q *verifC12Query, wellFormedRequest bool) []string {
	var mon []string
	if q.Code == 4 {
		return []string{fmt.Sprintf("%s query panicked", q.T)}
	}
	if !wellFormedRequest {
		return nil
	}
	ec, tc, a := uint16(q.EC), uint16(q.TC), p.Pool[q.AI]
	switch q.T {
	case "get":
		want, ok := tr.m[verifC12ID{ec, a, tc, q.Seq}]
		switch {
		case ok && (q.Code != 0 || q.B != hex.EncodeToString(want)):
			mon = append(mon, fmt.Sprintf("lookup of stored id %d/%s/%d/%d: code %d, bytes differ from the last VAA stored under that id", ec, a, tc, q.Seq, q.Code))
		case !ok && q.Code != 1:
			mon = append(mon, fmt.Sprintf("lookup of absent id %d/%s/%d/%d: code %d (expected not-found)", ec, a, tc, q.Seq, q.Code))
		}
	case "gap":
		resp, last := tr.gap(ec, a, tc)
		if p.Odd && q.Code != 0 {
			break // stores with undecodable values: the scan of such a stream may legitimately FAIL (an error is not a report);
			// when it does answer, the answer must be exact like any other ("report exactly the sequences present or missing")
		}
		if q.Code != 0 || !verifC12EqU64(resp, q.Resp) || q.Last != last || q.First != 0 {
			mon = append(mon, fmt.Sprintf("gap of stream %d/%s/%d: code %d missing=%s first=%d last=%d, but that stream alone gives missing=%s first=0 last=%d",
				ec, a, tc, q.Code, verifC12Head(q.Resp), q.First, q.Last, verifC12Head(resp), last))
		}
	case "gov":
		want := tr.gov(ec, a, q.Seqs)
		got := append([]verifC12Ent{}, q.Ents...)
		verifC12SortEnts(got)
		same := q.Code == 0 && len(got) == len(want)
		for i := 0; same && i < len(got); i++ {
			same = got[i] == want[i]
		}
		if !same {
			mon = append(mon, fmt.Sprintf("governance batch of emitter %d/%s for %v: code %d, %d entries; the emitter's stored VAAs with these sequences are %d entries (or differ)",
				ec, a, q.Seqs, q.Code, len(got), len(want)))
		}
	case "batch":
		want := []verifC12Ent{}
		for _, s := range q.Seqs {
			if b, ok := tr.m[verifC12ID{ec, a, tc, s}]; ok {
				want = append(want, verifC12Ent{0, s, hex.EncodeToString(b)})
			}
		}
		same := q.Code == 0 && len(q.Ents) == len(want)
		for i := 0; same && i < len(want); i++ {
			same = q.Ents[i].Seq == want[i].Seq && q.Ents[i].B == want[i].B
		}
		if !same {
			mon = append(mon, fmt.Sprintf("batch of stream %d/%s/%d for %v: code %d, %d entries; expected %d entries in request order", ec, a, tc, q.Seqs, q.Code, len(q.Ents), len(want)))
		}
	}
	return mon
}

// ---------------------------------------------------------------- row

type verifC12OpRow struct {
	B     string      `json:"b,omitempty"`   // marshalled VAA (well-formed ops)
	Odd   string      `json:"odd,omitempty"` // odd ops carry the fields instead, and what Marshal made of them
	V     interface{} `json:"v,omitempty"`
	MB    string      `json:"mb,omitempty"`
	Panic bool        `json:"panic,omitempty"`
	Err   bool        `json:"err,omitempty"`
}

type verifC12Row struct {
	K     string           `json:"k"`
	H     string           `json:"h"`
	Idx   int              `json:"idx"`
	Theme string           `json:"theme"`
	Pool  []string         `json:"pool"`
	Ops   []*verifC12OpRow `json:"ops"`
	Q     []*verifC12Query `json:"q"`
	Mon   []string         `json:"mon"`
	MonQ  []int            `json:"monq"` // index of the query each monitor message belongs to
}

func verifC12VaaFields(v *vaa.VAA) map[string]interface{} {
	sigs := []map[string]interface{}{}
	for _, s := range v.Signatures {
		sigs = append(sigs, map[string]interface{}{"i": int(s.Index), "d": hex.EncodeToString(s.Signature[:])})
	}
	return map[string]interface{}{"version": v.Version, "gsidx": v.GuardianSetIndex, "sigs": sigs, "secs": v.Timestamp.Unix(), "nsec": 0,
		"nonce": v.Nonce, "echain": uint16(v.EmitterChain), "tchain": uint16(v.TargetChain), "eaddr": hex.EncodeToString(v.EmitterAddress[:]),
		"seq": v.Sequence, "cl": v.ConsistencyLevel, "payload": hex.EncodeToString(v.Payload)}
}

func verifC12PoolHex(p *verifC12Plan) []string {
	out := []string{}
	for _, a := range p.Pool {
		out = append(out, hex.EncodeToString(a[:]))
	}
	return out
}

func verifC12NStores() int {
	if verifC12Thorough() {
		return 640
	}
	return 64
}

// ---------------------------------------------------------------- replay of a recorded failing input (./check C12 --replay file)

type verifC12Replay struct {
	FailingInputs []struct {
		Harness string           `json:"harness"`
		Pool    []string         `json:"pool"`
		Ops     []*verifC12OpRow `json:"ops"`
		Query   *verifC12Query   `json:"query"`
	} `json:"failing_inputs"`
}

// returns nil when no replay was requested or the file does not carry an input for this harness
func verifC12LoadReplay(harness string) (*verifC12Plan, []*verifC12Query) {
	path := os.Getenv("VERIF_REPLAY")
	if path == "" {
		return nil, nil
	}
	raw, err := os.ReadFile(path)
	if err != nil {
		return nil, nil
	}
	var rp verifC12Replay
	if json.Unmarshal(raw, &rp) != nil {
		return nil, nil
	}
	for _, fi := range rp.FailingInputs {
		if fi.Harness != harness || fi.Query == nil {
			continue
		}
		p := &verifC12Plan{Idx: 0, Theme: "replay", GapOK: true}
		for _, h := range fi.Pool {
			var a vaa.Address
			b, _ := hex.DecodeString(h)
			copy(a[:], b)
			p.Pool = append(p.Pool, a)
		}
		for _, o := range fi.Ops {
			if o.B != "" {
				b, _ := hex.DecodeString(o.B)
				v, err := vaa.Unmarshal(b)
				if err != nil {
					return nil, nil
				}
				p.Ops = append(p.Ops, &verifC12Op{V: v})
				continue
			}
			f, _ := o.V.(map[string]interface{})
			num := func(k string) uint64 { x, _ := f[k].(float64); return uint64(x) }
			str := func(k string) []byte { x, _ := f[k].(string); b, _ := hex.DecodeString(x); return b }
			v := &vaa.VAA{Version: uint8(num("version")), GuardianSetIndex: uint32(num("gsidx")), Timestamp: time.Unix(int64(num("secs")), 0),
				Nonce: uint32(num("nonce")), EmitterChain: vaa.ChainID(num("echain")), TargetChain: vaa.ChainID(num("tchain")),
				Sequence: num("seq"), ConsistencyLevel: uint8(num("cl")), Payload: str("payload")}
			copy(v.EmitterAddress[:], str("eaddr"))
			if sl, ok := f["sigs"].([]interface{}); ok {
				for _, x := range sl {
					m, _ := x.(map[string]interface{})
					i, _ := m["i"].(float64)
					d, _ := m["d"].(string)
					db, _ := hex.DecodeString(d)
					sg := &vaa.Signature{Index: uint8(i)}
					copy(sg.Signature[:], db)
					v.Signatures = append(v.Signatures, sg)
				}
			}
			p.Ops = append(p.Ops, &verifC12Op{V: v, Odd: o.Odd})
			p.Odd = true
		}
		q := *fi.Query
		q.Code, q.B, q.Resp, q.First, q.Last, q.Ents, q.IDs = 0, "", nil, 0, 0, nil, nil
		return p, []*verifC12Query{&q}
	}
	return nil, nil
}
