//go:build verif

package db

// C16, the clause without a kill: "once storing a signed VAA has returned success, that VAA is returned intact by every later lookup".
// One store handle, a seeded sequence of lookups (also BEFORE the first store of an identifier: what a relayer polling the RPC does),
// stores, overwrites and re-opens, with serialized sizes from 123 bytes to beyond badger's value-log threshold (1 MiB: values at or
// above it live in the value log, smaller ones beside their key); every lookup is judged against the harness's own record of the last
// acknowledged store of that identifier.

import (
	"bytes"
	"encoding/json"
	"errors"
	"fmt"
	"os"
	"strconv"
	"testing"
	"time"

	"github.com/alephium/wormhole-fork/node/pkg/vaa"
)

func TestVerifC16Live(t *testing.T) {
	seed, _ := strconv.ParseUint(os.Getenv("VERIF_SEED"), 10, 64)
	r := &verifC16Gen{s: verifC16Mix(seed, 0xc16e)}
	dir, err := os.MkdirTemp(os.Getenv("VERIF_TMP"), "c16live")
	if err != nil {
		t.Fatal(err)
	}
	defer os.RemoveAll(dir)
	d, err := Open(dir)
	if err != nil {
		t.Fatal(err)
	}
	mon := []string{}
	say := func(f string, a ...interface{}) {
		if len(mon) < 6 {
			mon = append(mon, fmt.Sprintf(f, a...))
		}
	}
	type rec struct {
		id   vaa.VAAID
		wire []byte
	}
	want := map[string]*rec{}
	order := []string{}
	mk := func(i int, size int, ver int) *vaa.VAA {
		var ea vaa.Address
		ea[31] = byte(i)
		ea[0] = byte(i >> 8)
		v := &vaa.VAA{Version: vaa.SupportedVAAVersion, GuardianSetIndex: 1, Timestamp: time.Unix(1700000000+int64(i), 0), Nonce: uint32(ver), Sequence: uint64(i),
			EmitterChain: vaa.ChainID([]uint16{1, 2, 255, 10001}[i%4]), TargetChain: vaa.ChainID([]uint16{0, 2, 255}[i%3]), EmitterAddress: ea}
		s := &vaa.Signature{Index: uint8(i % 19)}
		for k := range s.Signature {
			s.Signature[k] = byte(r.next())
		}
		v.Signatures = []*vaa.Signature{s}
		n := size - 123 // 6 header + 66 one signature + 51 body
		if n < 0 {
			n = 0
		}
		v.Payload = make([]byte, n)
		for k := 0; k < n && k < 64; k++ {
			v.Payload[k] = byte(r.next())
		}
		if n > 0 {
			v.Payload[n-1] = byte(1 + r.below(255)) // the last byte is never 0: appended zeros are visible
		}
		return v
	}
	lookup := func(key string, id vaa.VAAID, when string) {
		b, err := d.GetSignedVAABytes(id)
		w := want[key]
		switch {
		case w == nil && err == nil:
			say("lookup of %s (%s), never stored, returned %d bytes", key, when, len(b))
		case w == nil && !errors.Is(err, ErrVAANotFound):
			say("lookup of %s (%s), never stored, failed with %v instead of not-found", key, when, err)
		case w != nil && err != nil:
			say("lookup of %s (%s) failed although its store (%d bytes) had returned success: %v", key, when, len(w.wire), err)
		case w != nil && !bytes.Equal(b, w.wire):
			say("lookup of %s (%s) returned %d bytes that differ from the %d bytes of the last VAA stored under it (common prefix %d)", key, when, len(b), len(w.wire), verifC16Common(b, w.wire))
		}
	}
	store := func(i, size, ver int) {
		v := mk(i, size, ver)
		id := *VaaIDFromVAA(v)
		key := string(id.Bytes())
		wire, err := v.Marshal()
		if err != nil {
			return
		}
		if err := d.StoreSignedVAA(v); err != nil {
			say("store of %s (%d bytes) failed: %v", key, len(wire), err)
			return
		}
		if want[key] == nil {
			order = append(order, key)
		}
		want[key] = &rec{id, wire}
	}
	sizes := []int{123, 124, 200, 1100, 70000, 1<<20 - 2, 1<<20 - 1, 1 << 20, 1<<20 + 1, 1<<20 + 7, 3 << 19}
	n := 60
	if os.Getenv("VERIF_TIER") == "thorough" {
		n = 400
	}
	lookups, stores := 0, 0
	for i := 0; i < n; i++ {
		size := sizes[r.below(5)]
		if i < len(sizes) {
			size = sizes[i]
		} else if r.below(12) == 0 {
			size = sizes[5+r.below(len(sizes)-5)]
		}
		v0 := mk(i, 0, 0)
		id := *VaaIDFromVAA(v0)
		key := string(id.Bytes())
		if i%3 != 1 {
			lookup(key, id, "before its first store") // a miss that must not outlive the store
			lookups++
		}
		store(i, size, 0)
		stores++
		lookup(key, id, "right after its store")
		lookups++
		if i%4 == 0 {
			store(i, sizes[r.below(len(sizes))], 1) // overwrite with another size class
			stores++
			lookup(key, id, "right after its overwrite")
			lookups++
		}
		if i%7 == 3 && len(order) > 0 {
			k := order[r.below(len(order))]
			lookup(k, want[k].id, "later")
			lookups++
		}
		if i%25 == 24 {
			if err := d.Close(); err != nil {
				say("Close failed: %v", err)
			}
			if d, err = Open(dir); err != nil {
				say("the store did not reopen after a clean Close: %v", err)
				break
			}
			for _, k := range order {
				lookup(k, want[k].id, "after close and reopen")
				lookups++
			}
		}
	}
	for _, k := range order {
		lookup(k, want[k].id, "at the end")
		lookups++
	}
	// the batch lookup of one emitter's stream (the governance emitter's, through the RPC): every acknowledged VAA of that emitter whose
	// sequence is asked for comes back intact — the same sequence under two target chains, sequences from 2^63 on, unsorted requests —
	// on this handle and after a re-open
	var gov vaa.Address
	gov[31] = 0x99
	gchain := vaa.ChainID(1)
	type gk struct {
		tc  vaa.ChainID
		seq uint64
	}
	gwant := map[gk][]byte{}
	for gi, e := range []gk{{0, 3}, {255, 3}, {2, 3}, {0, 1}, {0, 7}, {0, 1<<63 - 1}, {0, 1 << 63}, {2, 1<<64 - 1}, {0, 20}, {0, 2}, {0, 200}} {
		v := &vaa.VAA{Version: vaa.SupportedVAAVersion, GuardianSetIndex: 1, Timestamp: time.Unix(1700000000, 0), Nonce: uint32(gi), Sequence: e.seq,
			EmitterChain: gchain, TargetChain: e.tc, EmitterAddress: gov, Payload: []byte{byte(gi), 1, 2, 3}}
		s := &vaa.Signature{Index: 0}
		v.Signatures = []*vaa.Signature{s}
		w, err := v.Marshal()
		if err != nil {
			continue
		}
		if err := d.StoreSignedVAA(v); err != nil {
			say("store of a governance VAA (target chain %d, sequence %d) failed: %v", e.tc, e.seq, err)
			continue
		}
		gwant[e] = w
	}
	batch := func(when string, seqs []uint64) {
		got, err := d.GetGovernanceVAABatch(gchain, gov, seqs)
		if err != nil {
			say("batch lookup of the governance emitter for %v (%s) failed although every one of its VAAs was stored with success: %v", seqs, when, err)
			return
		}
		asked := map[uint64]bool{}
		for _, q := range seqs {
			asked[q] = true
		}
		seen := map[gk]bool{}
		for _, g := range got {
			k := gk{g.TargetChain, g.Sequence}
			seen[k] = true
			if w, ok := gwant[k]; !ok || !bytes.Equal(w, g.VaaBytes) {
				say("batch lookup of the governance emitter for %v (%s) returned bytes for target chain %d sequence %d that are not the VAA stored under it", seqs, when, g.TargetChain, g.Sequence)
			}
		}
		for k := range gwant {
			if asked[k.seq] && !seen[k] {
				say("batch lookup of the governance emitter for %v (%s) did not return the VAA stored with success under target chain %d sequence %d", seqs, when, k.tc, k.seq)
			}
		}
	}
	reqs := [][]uint64{{3}, {1, 3, 7}, {7, 3, 1}, {1 << 63}, {1<<63 - 1, 1 << 63, 1<<64 - 1}, {2, 20, 200}, {200, 3, 1<<64 - 1, 2}}
	for _, q := range reqs {
		batch("same handle", q)
	}
	d.Close()
	if d, err = Open(dir); err != nil {
		say("the store did not reopen after a clean Close: %v", err)
	} else {
		for _, q := range reqs {
			batch("after close and reopen", q)
		}
		d.Close()
	}
	f, err := os.Create(os.Getenv("VERIF_OUT"))
	if err != nil {
		t.Fatal(err)
	}
	defer f.Close()
	json.NewEncoder(f).Encode(map[string]interface{}{"k": "c16live", "governance_vaas": len(gwant), "batch_requests": 2 * len(reqs), "stores": stores, "lookups": lookups, "ids": len(order), "sizes": sizes, "mon": mon})
}

func verifC16Common(a, b []byte) int {
	i := 0
	for i < len(a) && i < len(b) && a[i] == b[i] {
		i++
	}
	return i
}
