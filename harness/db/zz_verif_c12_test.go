//go:build verif

package db

import (
	"encoding/hex"
	"os"
	"testing"

	"github.com/alephium/wormhole-fork/node/pkg/vaa"
)

func TestVerifNothing(t *testing.T) {}

// store one VAA through the real StoreSignedVAA; panics are outcomes
func verifC12Store(d *Database, v *vaa.VAA) (panicked bool, err error) {
	defer func() {
		if r := recover(); r != nil {
			panicked = true
		}
	}()
	err = d.StoreSignedVAA(v)
	return
}

func verifC12RunQuery(d *Database, p *verifC12Plan, q *verifC12Query) {
	defer func() {
		if r := recover(); r != nil {
			q.Code = 4
		}
	}()
	ec, tc, a := vaa.ChainID(q.EC), vaa.ChainID(q.TC), p.Pool[q.AI]
	switch q.T {
	case "get":
		b, err := d.GetSignedVAABytes(vaa.VAAID{EmitterChain: ec, EmitterAddress: a, TargetChain: tc, Sequence: q.Seq})
		switch {
		case err == ErrVAANotFound:
			q.Code = 1
		case err != nil:
			q.Code = 3
		default:
			q.B = hex.EncodeToString(b)
		}
	case "gap":
		resp, first, last, err := d.FindEmitterSequenceGap(vaa.VAAID{EmitterChain: ec, EmitterAddress: a, TargetChain: tc})
		if err != nil {
			q.Code = 3
			return
		}
		q.Resp, q.First, q.Last = resp, first, last
	case "gov":
		res, err := d.GetGovernanceVAABatch(ec, a, q.Seqs)
		if err != nil {
			q.Code = 3
			return
		}
		for _, g := range res {
			q.Ents = append(q.Ents, verifC12Ent{uint32(g.TargetChain), g.Sequence, hex.EncodeToString(g.VaaBytes)})
		}
	case "batch":
		// no batch call at this layer: the RPC method is a loop of lookups (driven for real by harness/guardiand_db)
		for _, s := range q.Seqs {
			b, err := d.GetSignedVAABytes(vaa.VAAID{EmitterChain: ec, EmitterAddress: a, TargetChain: tc, Sequence: s})
			if err == ErrVAANotFound {
				continue
			}
			if err != nil {
				q.Code = 3
				return
			}
			q.Ents = append(q.Ents, verifC12Ent{0, s, hex.EncodeToString(b)})
		}
	}
}

// TestVerifC12 : random multisets of VAAs stored in a real badger store, then every query kind; the answers are written out for
// the Coq model and compared on the spot with the reference (the statement of C12 evaluated on what was stored)
func TestVerifC12(t *testing.T) {
	o, err := verifC12Open()
	if err != nil {
		t.Fatal(err)
	}
	defer o.close()
	// fmt.Printf("missing: ...") in FindEmitterSequenceGap would flood the test output
	if devnull, err := os.OpenFile(os.DevNull, os.O_WRONLY, 0); err == nil {
		saved := os.Stdout
		os.Stdout = devnull
		defer func() { os.Stdout = saved; devnull.Close() }()
	}
	r := &verifC12Rng{s: verifC12Seed() ^ 0xC12}
	base, err := os.MkdirTemp(os.Getenv("VERIF_TMP"), "c12db")
	if err != nil {
		t.Fatal(err)
	}
	defer os.RemoveAll(base)
	one := func(p *verifC12Plan, qs []*verifC12Query) {
		dir, _ := os.MkdirTemp(base, "s")
		d, err := Open(dir)
		if err != nil {
			t.Fatal(err)
		}
		tr := verifC12NewTruth()
		row := &verifC12Row{K: "store", H: "db", Idx: p.Idx, Theme: p.Theme, Mon: []string{}, MonQ: []int{}}
		for _, op := range p.Ops {
			b, _ := op.V.Marshal()
			panicked, err := verifC12Store(d, op.V)
			or := &verifC12OpRow{Panic: panicked, Err: err != nil}
			if op.Odd == "" {
				or.B = hex.EncodeToString(b)
			} else {
				or.Odd = op.Odd
				or.V = verifC12VaaFields(op.V)
				or.MB = hex.EncodeToString(b)
			}
			row.Ops = append(row.Ops, or)
			if !panicked && err == nil {
				tr.stored(op.V, b)
			}
			if err != nil {
				row.Mon = append(row.Mon, "StoreSignedVAA returned an error: "+err.Error())
				row.MonQ = append(row.MonQ, -1)
			}
			if panicked != (len(op.V.Signatures) == 0) {
				row.Mon = append(row.Mon, "StoreSignedVAA panic outcome unexpected")
				row.MonQ = append(row.MonQ, -1)
			}
		}
		if qs == nil {
			qs = verifC12Queries(r, p, false)
		}
		row.Q = qs
		for qi, q := range row.Q {
			verifC12RunQuery(d, p, q)
			for _, m := range verifC12Monitor(tr, p, q, true) {
				row.Mon = append(row.Mon, m)
				row.MonQ = append(row.MonQ, qi)
			}
		}
		row.Pool = verifC12PoolHex(p)
		o.emit(row)
		d.Close()
		os.RemoveAll(dir)
	}
	if p, qs := verifC12LoadReplay("db"); p != nil {
		one(p, qs)
		return
	}
	for idx := 0; idx < verifC12NStores(); idx++ {
		one(verifC12MakePlan(r, idx), nil)
	}
}
