//go:build verif

package db

// C12 with the store used the way the node uses it: the processor stores while every gRPC request looks up, each on its own goroutine.
// One writer per stream and eight readers on one handle; every lookup of an identifier whose store has been acknowledged must return
// exactly that VAA, a lookup of a never-stored identifier not-found; afterwards every identifier is looked up once more on a quiet
// store (a VAA written under another identifier's key shows up here).

import (
	"bytes"
	"encoding/json"
	"errors"
	"fmt"
	"os"
	"strconv"
	"sync"
	"sync/atomic"
	"testing"
	"time"

	"github.com/alephium/wormhole-fork/node/pkg/vaa"
)

func TestVerifC12Conc(t *testing.T) {
	seed, _ := strconv.ParseUint(os.Getenv("VERIF_SEED"), 10, 64)
	dir, err := os.MkdirTemp(os.Getenv("VERIF_TMP"), "c12conc")
	if err != nil {
		t.Fatal(err)
	}
	defer os.RemoveAll(dir)
	d, err := Open(dir)
	if err != nil {
		t.Fatal(err)
	}
	defer d.Close()
	per := 400
	if os.Getenv("VERIF_TIER") == "thorough" {
		per = 4000
	}
	const writers, readers = 3, 8
	type rec struct {
		id   vaa.VAAID
		wire []byte
	}
	mk := func(g, i int) *vaa.VAA {
		r := &verifC16Gen{s: verifC16Mix(seed, 0xc12c, uint64(g), uint64(i))}
		var ea vaa.Address
		ea[31] = byte(1 + g)
		v := &vaa.VAA{Version: vaa.SupportedVAAVersion, GuardianSetIndex: 1, Timestamp: time.Unix(1700000000+int64(i), 0), Nonce: uint32(r.next()), Sequence: uint64(i),
			EmitterChain: vaa.ChainID([]uint16{2, 255, 25}[g%3]), TargetChain: vaa.ChainID([]uint16{0, 2, 255}[g%3]), EmitterAddress: ea, Payload: make([]byte, 20+r.below(60))}
		for k := range v.Payload {
			v.Payload[k] = byte(r.next())
		}
		s := &vaa.Signature{Index: uint8(g)}
		for k := range s.Signature {
			s.Signature[k] = byte(r.next())
		}
		v.Signatures = []*vaa.Signature{s}
		return v
	}
	var mu sync.Mutex
	acked := []rec{}
	var mons []string
	var nmon int64
	say := func(f string, a ...interface{}) {
		if atomic.AddInt64(&nmon, 1) <= 6 {
			mu.Lock()
			mons = append(mons, fmt.Sprintf(f, a...))
			mu.Unlock()
		}
	}
	var stop int32
	var lookups, misses, polls int64
	var next [writers]atomic.Value // identifier writer g is about to store / is storing
	var wg, rg sync.WaitGroup
	for g := 0; g < writers; g++ {
		wg.Add(1)
		go func(g int) {
			defer wg.Done()
			for i := 0; i < per; i++ {
				v := mk(g, i)
				w, err := v.Marshal()
				if err != nil {
					continue
				}
				// what a relayer polling the RPC does: the identifier is asked for before and while it is being stored
				next[g].Store(VaaIDFromVAA(v))
				if i%4 == 0 {
					time.Sleep(200 * time.Microsecond)
				}
				if err := d.StoreSignedVAA(v); err != nil {
					say("store of %d/%d failed: %v", g, i, err)
					continue
				}
				mu.Lock()
				acked = append(acked, rec{*VaaIDFromVAA(v), w})
				mu.Unlock()
			}
		}(g)
	}
	for q := 0; q < readers; q++ {
		rg.Add(1)
		go func(q int) {
			defer rg.Done()
			r := &verifC16Gen{s: verifC16Mix(seed, 0xc12d, uint64(q))}
			for atomic.LoadInt32(&stop) == 0 {
				mu.Lock()
				n := len(acked)
				var x rec
				if n > 0 {
					x = acked[r.below(n)]
				}
				mu.Unlock()
				if n == 0 {
					continue
				}
				atomic.AddInt64(&lookups, 1)
				if q < 3 {
					// pollers: only the identifier that is on its way in (a miss now must not outlive the store's acknowledgement;
					// that is judged by the other readers and by the audit at the end)
					if id, ok := next[q%writers].Load().(*vaa.VAAID); ok && id != nil {
						if _, err := d.GetSignedVAABytes(*id); err != nil && !errors.Is(err, ErrVAANotFound) {
							say("lookup of %s while it is being stored failed with %v", string(id.Bytes()), err)
						}
						atomic.AddInt64(&polls, 1)
					}
					continue
				}
				if r.below(4) == 0 {
					// an identifier nobody stores: the same stream, a sequence beyond the writers' range
					y := x.id
					y.Sequence += 1000000
					if b, err := d.GetSignedVAABytes(y); err == nil {
						say("lookup of the never-stored %s returned %d bytes while other goroutines store and look up", string(y.Bytes()), len(b))
					} else if !errors.Is(err, ErrVAANotFound) {
						say("lookup of the never-stored %s failed with %v", string(y.Bytes()), err)
					}
					atomic.AddInt64(&misses, 1)
					continue
				}
				b, err := d.GetSignedVAABytes(x.id)
				if err != nil {
					say("lookup of %s failed (%v) although its store had returned success; other goroutines store and look up at the same time", string(x.id.Bytes()), err)
				} else if !bytes.Equal(b, x.wire) {
					what := "other bytes"
					if v, e := vaa.Unmarshal(b); e == nil {
						what = "the VAA " + string(VaaIDFromVAA(v).Bytes())
					}
					say("lookup of %s returned %s while other goroutines store and look up", string(x.id.Bytes()), what)
				}
			}
		}(q)
	}
	wg.Wait()
	atomic.StoreInt32(&stop, 1)
	rg.Wait()
	wrong := 0
	for _, x := range acked {
		b, err := d.GetSignedVAABytes(x.id)
		if err != nil || !bytes.Equal(b, x.wire) {
			wrong++
			if wrong <= 2 {
				what := fmt.Sprint(err)
				if err == nil {
					what = "other bytes"
					if v, e := vaa.Unmarshal(b); e == nil {
						what = "the VAA " + string(VaaIDFromVAA(v).Bytes())
					}
				}
				say("after the concurrent phase the key %s holds %s (stores were acknowledged by %d writers while %d readers looked up)", string(x.id.Bytes()), what, writers, readers)
			}
		}
	}
	f, err := os.Create(os.Getenv("VERIF_OUT"))
	if err != nil {
		t.Fatal(err)
	}
	defer f.Close()
	if mons == nil {
		mons = []string{}
	}
	json.NewEncoder(f).Encode(map[string]interface{}{"k": "c12conc", "stores": len(acked), "lookups": atomic.LoadInt64(&lookups), "never_stored_lookups": atomic.LoadInt64(&misses), "polls_of_the_identifier_being_stored": atomic.LoadInt64(&polls),
		"wrong_at_the_end": wrong, "writers": writers, "readers": readers, "mon": mons})
}
