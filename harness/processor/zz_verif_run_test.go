//go:build verif

package processor

// The real Run loop driven over its channels (select glue): thorough tier of C13/C01/C02.  Delivery order of the own-signature
// loopbacks is decided by the Go scheduler here, so the comparison with the model is not step by step; the monitors check what
// holds for every order: no panic, everything stored or broadcast verifies against a set the node learned, and a message whose
// quorum (own signature included) was fed in is published by the time the loop is quiescent.

import (
	"sync/atomic"
	"context"
	"encoding/hex"
	"fmt"
	"os"
	"testing"
	"time"

	"github.com/alephium/wormhole-fork/node/pkg/common"
	"github.com/alephium/wormhole-fork/node/pkg/db"
	"github.com/alephium/wormhole-fork/node/pkg/ecdsasigner"
	gossipv1 "github.com/alephium/wormhole-fork/node/pkg/proto/gossip/v1"
	"github.com/alephium/wormhole-fork/node/pkg/reporter"
	"github.com/alephium/wormhole-fork/node/pkg/vaa"
	"github.com/ethereum/go-ethereum/crypto"
	"go.uber.org/zap"
	"google.golang.org/protobuf/proto"
)

type vRunRow struct {
	K        string   `json:"k"`
	ID       int      `json:"id"`
	Shape    string   `json:"shape"`
	Fed      int      `json:"fed"`
	Sent     int      `json:"broadcast_vaas"`
	Stored   int      `json:"stored"`
	Expected int      `json:"expected_publications"`
	Mon      []string `json:"mon"`
}

func TestVerifProcRun(t *testing.T) {
	o := verifOut(t)
	defer o.close()
	r := &vrng{s: verifSeed() ^ 0x52756e}
	w := &vWorld{r: r, govCh: vaa.ChainIDSolana}
	w.govAddr[31] = 4
	for i := 0; i < 64; i++ {
		w.keys = append(w.keys, vkey(r))
	}
	w.own = vkey(r)
	n := 36
	if verifThorough() {
		n = 240
	}
	vWithSupervisor(t, func(root context.Context) {
		o.emit(vRunRestart(t, root, w, 900000))
		o.emit(vRunPreviousSet(t, root, w, 900001))
		if os.Getenv("VERIF_PID") == "C14" || verifThorough() {
			o.emit(vRunTickerAfterRestart(t, root, w, 900002)) // waits for the real 30-second ticker
		}
		for id := 0; id < n && atomic.LoadInt32(&vRunWedges) < 2; id++ {
			o.emit(vRunOne(t, root, w, id))
		}
	})
}

// the real Run loop learns set 0 (seven guardians, threshold 5) and then set 1 (four guardians, threshold 3) over setC; a peer then sends
// VAAs that NAME set 0 and carry three / four valid signatures of set 0: for a peer / backfill VAA the set is the node's current set, and
// these are not even complete for set 0: nothing may be stored.  A valid VAA of set 1 behind them on the same queue is the barrier.
func vRunPreviousSet(t *testing.T, root context.Context, w *vWorld, id int) *vRunRow {
	row := &vRunRow{K: "run", ID: id, Mon: []string{}, Shape: "n=7 -> n=4 rotation seen by Run, then inbound VAAs naming the previous set"}
	dir, err := os.MkdirTemp(os.Getenv("VERIF_TMP"), "procrun")
	if err != nil {
		t.Fatal(err)
	}
	defer os.RemoveAll(dir)
	d, err := db.Open(dir)
	if err != nil {
		t.Fatal(err)
	}
	defer d.Close()
	setC := make(chan *common.GuardianSet)
	signedInC := make(chan *gossipv1.SignedVAAWithQuorum, 50)
	p := NewProcessor(root, d, make(chan *common.MessagePublication), setC, make(chan []byte, 8192), make(chan *gossipv1.SignedObservation, 50), make(chan *gossipv1.ObservationRequest, 8192),
		make(chan *vaa.VAA), signedInC, &ecdsasigner.ECDSAPrivateKey{Value: w.own}, common.NewGuardianSetState(nil), reporter.EventListener(zap.NewNop()), nil, w.govCh, w.govAddr)
	ctx, cancel := context.WithCancel(root)
	defer cancel()
	done := make(chan string, 1)
	go func() {
		defer func() {
			if x := recover(); x != nil {
				done <- fmt.Sprint(x)
				return
			}
			done <- ""
		}()
		p.Run(ctx)
	}()
	mA := []int{-1, 10, 11, 12, 13, 14, 15}
	mB := []int{-1, 10, 20, 21}
	gA, gB := w.set(mA, 0), w.set(mB, 1)
	send := func(f func()) bool {
		c := make(chan struct{})
		go func() { f(); close(c) }()
		select {
		case <-c:
			row.Fed++
			return true
		case msg := <-done:
			row.Mon = append(row.Mon, "processor panicked: "+msg+" (Run loop)")
			return false
		case <-time.After(20 * time.Second):
			row.Mon = append(row.Mon, "harness: Run loop did not accept an input within 20 s")
			return false
		}
	}
	if !send(func() { setC <- gA }) || !send(func() { setC <- gB }) {
		return row
	}
	old := []*common.MessagePublication{w.msg(0), w.msg(0), w.msg(0)}
	for i, pos := range [][]int{{1, 2, 3}, {2, 3, 4, 5}, {0, 1, 2}} {
		b := w.signedVAA(old[i], gA, mA, pos)
		if !send(func() { signedInC <- &gossipv1.SignedVAAWithQuorum{Vaa: b} }) {
			return row
		}
	}
	mark := w.msg(0)
	mb := w.signedVAA(mark, gB, mB, []int{0, 1, 2})
	if !send(func() { signedInC <- &gossipv1.SignedVAAWithQuorum{Vaa: mb} }) {
		return row
	}
	idOf := func(k *common.MessagePublication) vaa.VAAID {
		return *db.VaaIDFromVAA(&vaa.VAA{EmitterChain: k.EmitterChain, EmitterAddress: k.EmitterAddress, TargetChain: k.TargetChain, Sequence: k.Sequence})
	}
	seen := false
	for i := 0; i < 500 && !seen; i++ {
		if _, err := d.GetSignedVAABytes(idOf(mark)); err == nil {
			seen = true
		} else {
			time.Sleep(20 * time.Millisecond)
		}
	}
	if !seen {
		row.Mon = append(row.Mon, "harness: the valid VAA of the current set sent behind the others was not stored within 10 s")
		return row
	}
	row.Stored++
	for i, k := range old {
		if vb, err := d.GetSignedVAABytes(idOf(k)); err == nil {
			n := 0
			if v, ok := vparse(vb); ok {
				n = len(v.Signatures)
			}
			row.Mon = append(row.Mon, fmt.Sprintf("C01: inbound VAA stored although it does not verify against the current set: it names the previous set 0 (seven guardians, threshold 5) and carries %d signatures of that set, the node's current set is set 1 (four guardians); sent %d-th after the rotation", n, i+1))
		}
	}
	return row
}

// the cleanup ticker belongs to a run of the loop: after the runnable has been run again on the same Processor, cleanup passes still
// happen (about every 30 s).  A signed entry below quorum is aged by ten minutes between the two runs (nothing else touches the state
// then); the second run must re-broadcast the node's observation at its first tick.  Real time: waits up to 50 s.
func vRunTickerAfterRestart(t *testing.T, root context.Context, w *vWorld, id int) *vRunRow {
	row := &vRunRow{K: "run", ID: id, Mon: []string{}, Shape: "n=4 own=0 cleanup tick after the runnable was run again"}
	dir, err := os.MkdirTemp(os.Getenv("VERIF_TMP"), "procrun")
	if err != nil {
		t.Fatal(err)
	}
	defer os.RemoveAll(dir)
	d, err := db.Open(dir)
	if err != nil {
		t.Fatal(err)
	}
	defer d.Close()
	lockC := make(chan *common.MessagePublication)
	setC := make(chan *common.GuardianSet)
	sendC := make(chan []byte, 8192)
	obsvC := make(chan *gossipv1.SignedObservation, 50)
	p := NewProcessor(root, d, lockC, setC, sendC, obsvC, make(chan *gossipv1.ObservationRequest, 8192), make(chan *vaa.VAA), make(chan *gossipv1.SignedVAAWithQuorum, 50),
		&ecdsasigner.ECDSAPrivateKey{Value: w.own}, common.NewGuardianSetState(nil), reporter.EventListener(zap.NewNop()), nil, w.govCh, w.govAddr)
	start := func() (context.CancelFunc, chan string) {
		ctx, cancel := context.WithCancel(root)
		done := make(chan string, 1)
		go func() {
			defer func() {
				if x := recover(); x != nil {
					done <- fmt.Sprint(x)
					return
				}
				done <- ""
			}()
			p.Run(ctx)
		}()
		return cancel, done
	}
	feed := func(done chan string, f func()) bool {
		c := make(chan struct{})
		go func() { f(); close(c) }()
		select {
		case <-c:
			row.Fed++
			return true
		case msg := <-done:
			row.Mon = append(row.Mon, "processor panicked: "+msg+" (Run loop)")
			return false
		case <-time.After(20 * time.Second):
			row.Mon = append(row.Mon, "harness: Run loop did not accept an input within 20 s")
			return false
		}
	}
	gs := w.set([]int{-1, 10, 11, 12}, 0)
	k := w.msg(0)
	cancel1, done1 := start()
	ok := feed(done1, func() { setC <- gs }) && feed(done1, func() { lockC <- k })
	for i := 0; i < 100 && (len(obsvC) > 0 || i < 10); i++ {
		time.Sleep(20 * time.Millisecond)
	}
	cancel1()
	select {
	case <-done1:
	case <-time.After(5 * time.Second):
		row.Mon = append(row.Mon, "harness: Run did not return within 5 s of its context being cancelled")
		ok = false
	}
	if !ok {
		return row
	}
	// between the runs: the entry is ten minutes old
	n := 0
	for _, s := range p.state.vaaSignatures {
		if s.ourMsg != nil {
			s.firstObserved = time.Now().Add(-10 * time.Minute)
			s.settled = true // (as after the tick at 30 s of its life; an unsettled entry is only settled by its first tick)
			n++
		}
	}
	if n == 0 {
		row.Mon = append(row.Mon, "harness: the observed message left no signed entry behind")
		return row
	}
	for len(sendC) > 0 {
		<-sendC
	}
	cancel2, _ := start()
	defer cancel2()
	retried := false
	deadline := time.After(50 * time.Second)
	for !retried {
		select {
		case m := <-sendC:
			var g gossipv1.GossipMessage
			if proto.Unmarshal(m, &g) == nil {
				if _, is := g.Message.(*gossipv1.GossipMessage_SignedObservation); is {
					retried = true
				}
			}
		case <-deadline:
			row.Mon = append(row.Mon, "C14: no cleanup pass ran within 50 s after the processor's runnable was run again on the same Processor (the loop's ticker fires every 30 s): a signed entry without quorum, ten minutes old, was not re-broadcast — pending entries are never retried or expired any more")
			return row
		}
	}
	row.Sent++
	return row
}

// the supervisor re-runs the SAME runnable (p.Run of the same Processor object) after a failure: what the processor has signed and
// collected so far belongs to the Processor, not to one run of its loop.  A message is observed and signed, one peer signature arrives
// (2 of 4, threshold 3), Run is ended and started again, another peer signature arrives: the entry must still be there and complete.
func vRunRestart(t *testing.T, root context.Context, w *vWorld, id int) *vRunRow {
	row := &vRunRow{K: "run", ID: id, Mon: []string{}, Shape: "n=4 own=0 restart of the runnable below quorum"}
	dir, err := os.MkdirTemp(os.Getenv("VERIF_TMP"), "procrun")
	if err != nil {
		t.Fatal(err)
	}
	defer os.RemoveAll(dir)
	d, err := db.Open(dir)
	if err != nil {
		t.Fatal(err)
	}
	defer d.Close()
	lockC := make(chan *common.MessagePublication)
	setC := make(chan *common.GuardianSet)
	sendC := make(chan []byte, 8192)
	obsvC := make(chan *gossipv1.SignedObservation, 50)
	reqC := make(chan *gossipv1.ObservationRequest, 8192)
	p := NewProcessor(root, d, lockC, setC, sendC, obsvC, reqC, make(chan *vaa.VAA), make(chan *gossipv1.SignedVAAWithQuorum, 50), &ecdsasigner.ECDSAPrivateKey{Value: w.own},
		common.NewGuardianSetState(nil), reporter.EventListener(zap.NewNop()), nil, w.govCh, w.govAddr)
	start := func() (context.CancelFunc, chan string) {
		ctx, cancel := context.WithCancel(root)
		done := make(chan string, 1)
		go func() {
			defer func() {
				if x := recover(); x != nil {
					done <- fmt.Sprint(x)
					return
				}
				done <- ""
			}()
			p.Run(ctx)
		}()
		return cancel, done
	}
	feed := func(done chan string, f func()) bool {
		c := make(chan struct{})
		go func() { f(); close(c) }()
		select {
		case <-c:
			row.Fed++
			return true
		case msg := <-done:
			row.Mon = append(row.Mon, "processor panicked: "+msg+" (Run loop)")
			return false
		case <-time.After(20 * time.Second):
			row.Mon = append(row.Mon, "harness: Run loop did not accept an input within 20 s")
			return false
		}
	}
	members := []int{-1, 10, 11, 12}
	gs := w.set(members, 0)
	k := w.msg(0)
	dg := digestOfMsg(k, 0)
	cancel1, done1 := start()
	ok := feed(done1, func() { setC <- gs }) && feed(done1, func() { lockC <- k }) &&
		feed(done1, func() { obsvC <- w.obsBy(10, dg, k.TxHash[:]) })
	// the own signature comes back through obsvC by itself; wait until the loop has taken everything
	for i := 0; i < 100 && (len(obsvC) > 0 || i < 10); i++ {
		time.Sleep(20 * time.Millisecond)
	}
	cancel1()
	select {
	case <-done1:
	case <-time.After(5 * time.Second):
		row.Mon = append(row.Mon, "harness: Run did not return within 5 s of its context being cancelled")
		ok = false
	}
	if !ok {
		return row
	}
	cancel2, done2 := start()
	defer cancel2()
	ok = feed(done2, func() { setC <- gs }) && feed(done2, func() { obsvC <- w.obsBy(11, dg, k.TxHash[:]) })
	dr := &vDriver{own: w.own}
	published := false
	deadline := time.After(5 * time.Second)
	for ok && !published {
		select {
		case m := <-sendC:
			var g gossipv1.GossipMessage
			if proto.Unmarshal(m, &g) == nil {
				if x, is := g.Message.(*gossipv1.GossipMessage_SignedVaaWithQuorum); is {
					if v, okp := vparse(x.SignedVaaWithQuorum.Vaa); okp && dr.verifiesAgainst(v, gs) {
						published = true
						row.Sent++
					}
				}
			}
		case <-deadline:
			ok = false
		}
	}
	if !published {
		row.Mon = append(row.Mon, "C14: a signed entry that still lacked quorum was gone after the processor's runnable was run again on the same Processor (as the supervisor does after a failure): the node's own signature and one member's were delivered before the restart, a third member's after it (3 of 4, threshold 3), and no VAA was published within 5 s")
	}
	row.Expected = 1
	return row
}

// Run loops that stopped taking inputs, over the whole test run
var vRunWedges int32

func vRunOne(t *testing.T, root context.Context, w *vWorld, id int) *vRunRow {
	r := w.r
	row := &vRunRow{K: "run", ID: id, Mon: []string{}}
	dir, err := os.MkdirTemp(os.Getenv("VERIF_TMP"), "procrun")
	if err != nil {
		t.Fatal(err)
	}
	defer os.RemoveAll(dir)
	d, err := db.Open(dir)
	if err != nil {
		t.Fatal(err)
	}
	defer d.Close()
	lockC := make(chan *common.MessagePublication)
	setC := make(chan *common.GuardianSet)
	sendC := make(chan []byte, 8192)
	obsvC := make(chan *gossipv1.SignedObservation, 50)
	reqC := make(chan *gossipv1.ObservationRequest, 8192)
	injectC := make(chan *vaa.VAA)
	signedInC := make(chan *gossipv1.SignedVAAWithQuorum, 50)
	p := NewProcessor(root, d, lockC, setC, sendC, obsvC, reqC, injectC, signedInC, &ecdsasigner.ECDSAPrivateKey{Value: w.own},
		common.NewGuardianSetState(nil), reporter.EventListener(zap.NewNop()), nil, w.govCh, w.govAddr)
	ctx, cancel := context.WithCancel(root)
	done := make(chan string, 1)
	go func() {
		defer func() {
			if x := recover(); x != nil {
				done <- fmt.Sprint(x)
				return
			}
			done <- ""
		}()
		p.Run(ctx)
	}()
	nset := 1 + r.below(7)
	ownPos := r.below(nset + 1)
	members := make([]int, nset)
	base := r.below(30)
	for i := range members {
		members[i] = base + i
	}
	if ownPos < nset {
		members[ownPos] = -1
	}
	gs := w.set(members, uint32(r.below(4)))
	row.Shape = fmt.Sprintf("n=%d own=%d", nset, ownPos)
	// every third run rotates the guardian set half way through: the new set shares the own key (if any) and the first member only,
	// has another size and the next index; gossip from its other members follows
	rotate := r.chance(1, 3)
	members2 := []int{}
	for i, m := range members {
		if m == -1 || i == 0 {
			members2 = append(members2, m)
		}
	}
	for i := 0; i < 1+r.below(4); i++ {
		members2 = append(members2, 40+i)
	}
	gs2 := w.set(members2, gs.Index+1)
	setByIndex := map[uint32]*common.GuardianSet{gs.Index: gs, gs2.Index: gs2}
	if rotate {
		row.Shape += fmt.Sprintf(" rotate->%d", len(members2))
	}
	dr := &vDriver{own: w.own} // only for verifiesAgainst
	feed := func(f func()) bool {
		c := make(chan struct{})
		go func() { f(); close(c) }()
		select {
		case <-c:
			row.Fed++
			return true
		case msg := <-done:
			row.Mon = append(row.Mon, "processor panicked: "+msg+" (Run loop)")
			done <- msg
			return false
		case <-time.After(20 * time.Second):
			atomic.AddInt32(&vRunWedges, 1)
			row.Mon = append(row.Mon, "C13: the processor's Run loop did not take an input from its channels within 20 s: the single processor goroutine is stuck (no panic, no restart), nothing is signed or published any more")
			return false
		}
	}
	type evt struct {
		kind string
		mi   int
		pos  int
	}
	var msgs []*common.MessagePublication
	var bag []evt
	nm := 1 + r.below(3)
	expect := map[string]bool{}
	q := 2*nset/3 + 1
	for mi := 0; mi < nm; mi++ {
		k := w.msg([]int{0, 0, 0, 1, 3, 5}[r.below(6)])
		msgs = append(msgs, k)
		bag = append(bag, evt{kind: "msg", mi: mi})
		cnt := 0
		full := r.chance(2, 3)
		for ps := 0; ps < nset; ps++ {
			if members[ps] >= 0 && (full || cnt < q-2) {
				bag = append(bag, evt{kind: "obs", mi: mi, pos: ps})
				cnt++
			}
		}
		own := 0
		if ownPos < nset {
			own = 1
		}
		bag = append(bag, evt{kind: "junk", mi: mi})
		inb := r.chance(1, 3)
		if inb {
			bag = append(bag, evt{kind: "inbound", mi: mi})
		}
		// (a message whose quorum VAA arrives from a peer first may legitimately not be signed again: no expectation then)
		if cnt+own >= q && own == 1 && !inb && !rotate {
			expect[hex.EncodeToString(digestOfMsg(k, 0))] = true
		}
	}
	for i := len(bag) - 1; i > 0; i-- {
		j := r.below(i + 1)
		bag[i], bag[j] = bag[j], bag[i]
	}
	ok := feed(func() { setC <- gs })
	for bi, e := range bag {
		if !ok {
			break
		}
		if rotate && bi == len(bag)/2 {
			ok = feed(func() { setC <- gs2 })
			// members of the new set gossip their signatures for every message (they are not applicable to entries snapshotted earlier)
			for _, k := range msgs {
				for ps, m := range members2 {
					if m >= 40 && ok {
						ob := w.obsBy(m, digestOfMsg(k, 0), k.TxHash[:])
						_ = ps
						ok = feed(func() { obsvC <- ob })
					}
				}
			}
			if !ok {
				break
			}
		}
		k := msgs[e.mi]
		dg := digestOfMsg(k, 0)
		switch e.kind {
		case "msg":
			ok = feed(func() { lockC <- k })
		case "obs":
			ob := w.obsBy(members[e.pos], dg, k.TxHash[:])
			ok = feed(func() { obsvC <- ob })
		case "junk":
			ob := w.obsBy(60+r.below(4), dg, nil)
			if r.chance(1, 2) {
				ob.Signature = r.bytes(65)
			}
			ok = feed(func() { obsvC <- ob })
		case "inbound":
			all := make([]int, nset)
			for i := range all {
				all[i] = i
			}
			b := w.signedVAA(k, gs, members, all[:q])
			ok = feed(func() { signedInC <- &gossipv1.SignedVAAWithQuorum{Vaa: b} })
		}
	}
	// quiescence: no new gossip output for 300 ms and the input queues are empty
	published := map[string]int{}
	idle := 0
	for idle < 6 && ok {
		select {
		case m := <-sendC:
			idle = 0
			var g gossipv1.GossipMessage
			if proto.Unmarshal(m, &g) == nil {
				if x, is := g.Message.(*gossipv1.GossipMessage_SignedVaaWithQuorum); is {
					row.Sent++
					v, okp := vparse(x.SignedVaaWithQuorum.Vaa)
					if !okp || !dr.verifiesAgainst(v, setByIndex[v.GuardianSetIndex]) {
						row.Mon = append(row.Mon, "C01: VAA broadcast by the Run loop does not carry a valid quorum of the guardian set it names")
					} else {
						published[hex.EncodeToString(vkeccak(vkeccak(v.SerializeBody())))]++
					}
				}
			}
		case msg := <-done:
			row.Mon = append(row.Mon, "processor panicked: "+msg+" (Run loop)")
			ok = false
		case <-time.After(50 * time.Millisecond):
			if len(obsvC) == 0 && len(signedInC) == 0 {
				idle++
			}
		}
	}
	for dg, cnt := range published {
		if cnt > 1 {
			row.Mon = append(row.Mon, "C02: digest published twice within one aggregation lifetime (Run loop) "+dg[:16])
		}
	}
	if ok {
		for dg := range expect {
			if published[dg] == 0 {
				row.Mon = append(row.Mon, "C02: quorum of distinct members (own included) delivered for an observed message but no VAA was published (Run loop)")
			}
		}
	}
	row.Expected = len(expect)
	for _, k := range msgs {
		v := &vaa.VAA{EmitterChain: k.EmitterChain, EmitterAddress: k.EmitterAddress, TargetChain: k.TargetChain, Sequence: k.Sequence}
		if vb, err := d.GetSignedVAABytes(*db.VaaIDFromVAA(v)); err == nil {
			row.Stored++
			sv, okp := vparse(vb)
			if !okp || !(dr.verifiesAgainst(sv, setByIndex[sv.GuardianSetIndex]) || dr.verifiesAgainst(sv, gs) || (rotate && dr.verifiesAgainst(sv, gs2))) {
				row.Mon = append(row.Mon, "C01: VAA stored by the Run loop does not carry a valid quorum of a set the node learned")
			}
		}
	}
	cancel()
	select {
	case <-done:
	case <-time.After(5 * time.Second):
	}
	_ = crypto.Keccak256
	return row
}
