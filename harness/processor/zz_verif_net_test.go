//go:build verif

package processor

// A network of REAL processors in one process (system-level composition, model/System.v): 3-5 guardians with real keys, each a
// Processor with its own badger store, driven through the same deterministic driver as the single-node histories.  The test plays
// the network: it decides, from the seed, which node gets which environment input (set update, chain message, clock, cleanup tick),
// which item that some node really put on the wire is delivered to which node (any order, duplicated, or never), which
// adversary-made item is delivered, and when a node's own signature loops back.  Every network step is one handler call at one
// node; outputs, store diff and state projection of that node are recorded and compared with the System model inside Coq
// (lib/SysWire.v: a delivered item must be an item the MODEL's nodes emitted).  Monitors evaluate the network-level statements
// directly: peers store what an honest guardian publishes; fair delivery of a quorum of honest observations makes every observer
// publish; all publications for one message agree on body and digest.

import (
	"context"
	"crypto/ecdsa"
	"encoding/hex"
	"fmt"
	"strings"
	"testing"

	"github.com/alephium/wormhole-fork/node/pkg/common"
	"github.com/alephium/wormhole-fork/node/pkg/db"
	gossipv1 "github.com/alephium/wormhole-fork/node/pkg/proto/gossip/v1"
	"github.com/alephium/wormhole-fork/node/pkg/vaa"
	ethcommon "github.com/ethereum/go-ethereum/common"
	"github.com/ethereum/go-ethereum/crypto"
)

type vNetOp struct {
	T  string `json:"t"` // env dlv adv loop
	I  int    `json:"i"`
	Op vOp    `json:"op"`
}

type vNetRow struct {
	K      string        `json:"k"`
	ID     int           `json:"id"`
	Shape  string        `json:"shape"`
	N      int           `json:"n"`
	Owns   []string      `json:"owns"`
	GovCh  uint16        `json:"gov_chain"`
	GovAd  string        `json:"gov_addr"`
	Ops    []vNetOp      `json:"ops"`
	Steps  []vStep       `json:"steps"`
	Keccak [][2]string   `json:"keccak"`
	Rec    [][3]string   `json:"rec"`
	Signs  [][][2]string `json:"signs"`
	Mon    []string      `json:"mon"`
	Fair   bool          `json:"fair"`
	Pubs   int           `json:"publications"`
	Peer   int           `json:"peer_stores"`
}

type vNetItem struct {
	obs  *gossipv1.SignedObservation
	vaa  []byte
	from int
	gs   *common.GuardianSet // for a VAA: the set it was assembled under
}

func (it *vNetItem) key() string {
	if it.obs != nil {
		return "o" + hex.EncodeToString(it.obs.Addr) + "|" + hex.EncodeToString(it.obs.Hash) + "|" + hex.EncodeToString(it.obs.Signature) + "|" + hex.EncodeToString(it.obs.TxHash)
	}
	return "v" + hex.EncodeToString(it.vaa)
}

type vNet struct {
	t     *testing.T
	r     *vrng
	w     *vWorld
	nodes []*vDriver
	keys  []*ecdsa.PrivateKey
	pool  []*vNetItem
	seen  map[string]bool
	row   *vNetRow
	pubs  []map[string]string // per node: digest -> hex body of the VAA it broadcast
	got   []map[string]bool   // per node: wire items delivered to it so far
}

func vHas(outs []string, prefix string) bool {
	for _, o := range outs {
		if strings.HasPrefix(o, prefix) {
			return true
		}
	}
	return false
}

func sameSet(a, b *common.GuardianSet) bool {
	if a == nil || b == nil || a.Index != b.Index || len(a.Keys) != len(b.Keys) {
		return false
	}
	for i := range a.Keys {
		if a.Keys[i] != b.Keys[i] {
			return false
		}
	}
	return true
}

// one network step at node i: run the driver op, record it, harvest what the node put on the wire
func (nt *vNet) step(kind string, i int, f func(dr *vDriver) bool) bool {
	dr := nt.nodes[i]
	nops := len(dr.h.Ops)
	ok := f(dr)
	if len(dr.h.Ops) != nops+1 {
		nt.row.Mon = append(nt.row.Mon, fmt.Sprintf("harness: network step %s at node %d recorded %d ops", kind, i, len(dr.h.Ops)-nops))
		return false
	}
	op := dr.h.Ops[nops]
	st := dr.h.Steps[len(dr.h.Steps)-1]
	nt.row.Ops = append(nt.row.Ops, vNetOp{T: kind, I: i, Op: op})
	nt.row.Steps = append(nt.row.Steps, st)
	// what went on the wire
	if (op.K == "msg" || op.K == "inject") && vHas(st.Outs, "sendobs ") && dr.lastObs != nil {
		o := dr.lastObs
		nt.add(&vNetItem{obs: &gossipv1.SignedObservation{Addr: o.Addr, Hash: o.Hash, Signature: o.Signature, TxHash: o.TxHash, MessageId: o.MessageId}, from: i})
	}
	if (op.K == "obs" || op.K == "loop") && vHas(st.Outs, "sendvaa ") {
		for _, v := range dr.dbSnap {
			if v != "" && vHas(st.Outs, "sendvaa "+v[:24]) {
				b, _ := hex.DecodeString(v)
				var gs *common.GuardianSet
				if pv, okp := vparse(b); okp {
					dg := hex.EncodeToString(vkeccak(vkeccak(pv.SerializeBody())))
					gs = dr.localGS[dg]
					if prev, had := nt.pubs[i][dg]; had && prev != hex.EncodeToString(pv.SerializeBody()) {
						nt.row.Mon = append(nt.row.Mon, "C02: one guardian published two different bodies for one digest")
					}
					nt.pubs[i][dg] = hex.EncodeToString(pv.SerializeBody())
					nt.row.Pubs++
				}
				nt.add(&vNetItem{vaa: b, from: i, gs: gs})
			}
		}
	}
	return ok
}

func (nt *vNet) add(it *vNetItem) {
	if !nt.seen[it.key()] {
		nt.seen[it.key()] = true
		nt.pool = append(nt.pool, it)
	}
}

// deliver an item to node j ("dlv": really emitted by a node; "adv": made by the adversary)
func (nt *vNet) deliver(kind string, j int, it *vNetItem, note string) bool {
	if kind == "dlv" {
		nt.got[j][it.key()] = true
	}
	if it.obs != nil {
		return nt.step(kind, j, func(dr *vDriver) bool { return dr.opObs(it.obs, note) })
	}
	dr := nt.nodes[j]
	// C01 (network): a peer whose current set is the set the VAA was assembled under, with at most 255 keys, that does not hold the
	// id yet, stores the published bytes
	expect := false
	var id vaa.VAAID
	if kind == "dlv" && it.gs != nil && sameSet(dr.p.gs, it.gs) && len(it.gs.Keys) <= 255 {
		if pv, err := vSafeUnmarshal(it.vaa); err == nil {
			id = *db.VaaIDFromVAA(pv)
			if _, err := dr.d.GetSignedVAABytes(id); err == db.ErrVAANotFound {
				expect = true
			}
		}
	}
	ok := nt.step(kind, j, func(dr *vDriver) bool { return dr.opInbound(it.vaa, note) })
	if expect && ok {
		got, err := dr.d.GetSignedVAABytes(id)
		if err != nil || hex.EncodeToString(got) != hex.EncodeToString(it.vaa) {
			nt.row.Mon = append(nt.row.Mon, "C01: a quorum VAA published by an honest guardian was not stored byte for byte by a peer whose current set is the set it was signed under")
		} else {
			nt.row.Peer++
		}
	}
	return ok
}

func (nt *vNet) finish() *vNetRow {
	kc := map[string]string{}
	rc := map[string]string{}
	for i, dr := range nt.nodes {
		h := dr.finish()
		for _, p := range h.Keccak {
			kc[p[0]] = p[1]
		}
		for _, p := range h.Rec {
			rc[p[0]+"|"+p[1]] = p[2]
		}
		nt.row.Signs = append(nt.row.Signs, h.Sign)
		for _, m := range h.Mon {
			nt.row.Mon = append(nt.row.Mon, m+fmt.Sprintf(" [network node %d]", i))
		}
		dr.close()
	}
	for k, v := range kc {
		nt.row.Keccak = append(nt.row.Keccak, [2]string{k, v})
	}
	for k, v := range rc {
		p := strings.IndexByte(k, '|')
		nt.row.Rec = append(nt.row.Rec, [3]string{k[:p], k[p+1:], v})
	}
	// agreement: every publication of one digest carries the same body (C02 / C04 across guardians)
	body := map[string]string{}
	for _, m := range nt.pubs {
		for dg, b := range m {
			if prev, had := body[dg]; had && prev != b {
				nt.row.Mon = append(nt.row.Mon, "C02: two honest guardians published different bodies for the same message digest")
			}
			body[dg] = b
		}
	}
	if nt.row.Mon == nil {
		nt.row.Mon = []string{}
	}
	return nt.row
}

// adversary-made items around message k (digest d)
func (nt *vNet) adversarial(k *common.MessagePublication, d []byte, gs *common.GuardianSet, outsider *ecdsa.PrivateKey) (*vNetItem, string) {
	r := nt.r
	switch r.below(7) {
	case 0: // forged signature bytes under a member's address
		s := r.bytes(65)
		s[64] = byte(r.below(4))
		return &vNetItem{obs: &gossipv1.SignedObservation{Addr: crypto.PubkeyToAddress(nt.keys[r.below(len(nt.keys))].PublicKey).Bytes(), Hash: d, Signature: s, TxHash: k.TxHash[:]}}, "forged"
	case 1: // a valid signature of a key that is in no set
		s, _ := crypto.Sign(d, outsider)
		return &vNetItem{obs: &gossipv1.SignedObservation{Addr: crypto.PubkeyToAddress(outsider.PublicKey).Bytes(), Hash: d, Signature: s, TxHash: k.TxHash[:]}}, "non-member"
	case 2: // a member's valid signature under another member's address
		a, b := r.below(len(nt.keys)), r.below(len(nt.keys))
		s, _ := crypto.Sign(d, nt.keys[a])
		return &vNetItem{obs: &gossipv1.SignedObservation{Addr: crypto.PubkeyToAddress(nt.keys[b].PublicKey).Bytes(), Hash: d, Signature: s, TxHash: k.TxHash[:]}}, "wrong-address"
	case 3: // a member's valid signature over another digest
		d2 := r.bytes(32)
		a := r.below(len(nt.keys))
		s, _ := crypto.Sign(d2, nt.keys[a])
		return &vNetItem{obs: &gossipv1.SignedObservation{Addr: crypto.PubkeyToAddress(nt.keys[a].PublicKey).Bytes(), Hash: d2, Signature: s, TxHash: k.TxHash[:]}}, "other-digest"
	case 4: // garbage bytes as a VAA
		return &vNetItem{vaa: r.bytes(r.below(160))}, "garbage"
	case 5: // an under-quorum VAA signed by real members
		q := 2*len(gs.Keys)/3 + 1
		v := &vaa.VAA{Version: vaa.SupportedVAAVersion, GuardianSetIndex: gs.Index, Timestamp: k.Timestamp, Nonce: k.Nonce, EmitterChain: k.EmitterChain,
			TargetChain: k.TargetChain, EmitterAddress: k.EmitterAddress, Payload: k.Payload, Sequence: k.Sequence, ConsistencyLevel: k.ConsistencyLevel}
		cnt := 0
		for p, a := range gs.Keys {
			for _, key := range nt.keys {
				if crypto.PubkeyToAddress(key.PublicKey) == a && cnt < q-1 {
					v.AddSignature(key, uint8(p))
					cnt++
				}
			}
		}
		b, _ := v.Marshal()
		return &vNetItem{vaa: b}, "under-quorum"
	default: // a quorum of real members over ANOTHER body for the same id (byzantine keys): valid by construction, peers may store it
		v := &vaa.VAA{Version: vaa.SupportedVAAVersion, GuardianSetIndex: gs.Index, Timestamp: k.Timestamp, Nonce: k.Nonce + 1, EmitterChain: k.EmitterChain,
			TargetChain: k.TargetChain, EmitterAddress: k.EmitterAddress, Payload: append([]byte{0x66}, k.Payload...), Sequence: k.Sequence, ConsistencyLevel: k.ConsistencyLevel}
		for p, a := range gs.Keys {
			for _, key := range nt.keys {
				if crypto.PubkeyToAddress(key.PublicKey) == a {
					v.AddSignature(key, uint8(p))
				}
			}
		}
		b, _ := v.Marshal()
		return &vNetItem{vaa: b}, "byzantine-quorum-other-body"
	}
}

func vNetRound(t *testing.T, ctx context.Context, w *vWorld, id int) *vNetRow {
	r := w.r
	n := 3 + r.below(3)
	extra := r.below(3)
	if n == 3 && extra == 2 {
		extra = 1 // 3 honest of 5 is below quorum: keep the honest-quorum premise satisfiable
	}
	fair := id%2 == 0
	nt := &vNet{t: t, r: r, w: w, seen: map[string]bool{}}
	nt.row = &vNetRow{K: "net", ID: id, N: n, GovCh: uint16(w.govCh), GovAd: hex.EncodeToString(w.govAddr[:]), Fair: fair, Mon: []string{}}
	base := r.below(len(w.keys) - 12)
	for i := 0; i < n; i++ {
		key := w.keys[base+i]
		nt.keys = append(nt.keys, key)
		nt.nodes = append(nt.nodes, vNewDriver(t, ctx, key, w.govCh, w.govAddr, id*10+i))
		nt.row.Owns = append(nt.row.Owns, hex.EncodeToString(crypto.PubkeyToAddress(key.PublicKey).Bytes()))
		nt.pubs = append(nt.pubs, map[string]string{})
		nt.got = append(nt.got, map[string]bool{})
	}
	outsider := w.keys[base+n+3]
	// the set in force: the n nodes plus `extra` guardians that are not run here (silent / byzantine), in a random order
	addrs := []ethcommon.Address{}
	for _, k := range nt.keys {
		addrs = append(addrs, crypto.PubkeyToAddress(k.PublicKey))
	}
	for e := 0; e < extra; e++ {
		addrs = append(addrs, crypto.PubkeyToAddress(w.keys[base+n+e].PublicKey))
	}
	for i := len(addrs) - 1; i > 0; i-- {
		j := r.below(i + 1)
		addrs[i], addrs[j] = addrs[j], addrs[i]
	}
	gs := &common.GuardianSet{Index: uint32(1 + r.below(4)), Keys: addrs}
	// a successor set (chaos rounds): one node's key replaced by the outsider
	addrs1 := append([]ethcommon.Address{}, addrs...)
	addrs1[r.below(len(addrs1))] = crypto.PubkeyToAddress(outsider.PublicKey)
	gs1 := &common.GuardianSet{Index: gs.Index + 1, Keys: addrs1}
	nt.row.Shape = fmt.Sprintf("%d nodes, set of %d, %s", n, len(addrs), map[bool]string{true: "fair", false: "chaos"}[fair])
	alive := true
	do := func(ok bool) {
		if !ok {
			alive = false
		}
	}
	for i := 0; i < n && alive; i++ {
		do(nt.step("env", i, func(dr *vDriver) bool { return dr.opSetGS(gs) }))
	}
	nmsg := 1 + r.below(2)
	msgs := []*common.MessagePublication{}
	digs := [][]byte{}
	for m := 0; m < nmsg; m++ {
		k := w.msg(0)
		msgs = append(msgs, k)
		digs = append(digs, digestOfMsg(k, 0))
	}
	observed := make([]map[int]bool, nmsg) // message -> nodes that signed it
	for m := range observed {
		observed[m] = map[int]bool{}
	}
	observe := func(i, m int) {
		if observed[m][i] {
			return
		}
		do(nt.step("env", i, func(dr *vDriver) bool { return dr.opMsg(msgs[m]) }))
		st := nt.row.Steps[len(nt.row.Steps)-1]
		if vHas(st.Outs, "sendobs ") {
			observed[m][i] = true
		}
	}
	T := int64(0)
	chaos := 14 + r.below(18)
	if verifThorough() {
		chaos += 20
	}
	for s := 0; s < chaos && alive; s++ {
		i := r.below(n)
		switch c := r.below(20); {
		case c < 5:
			observe(i, r.below(nmsg))
		case c < 11 && len(nt.pool) > 0:
			do(nt.deliver("dlv", i, nt.pool[r.below(len(nt.pool))], "wire"))
		case c < 14:
			m := r.below(nmsg)
			cur := nt.nodes[i].p.gs
			if cur == nil {
				cur = gs
			}
			it, note := nt.adversarial(msgs[m], digs[m], cur, outsider)
			do(nt.deliver("adv", i, it, note))
		case c < 17:
			k := 0
			if p := len(nt.nodes[i].pending); p > 0 {
				k = r.below(p)
			}
			do(nt.step("loop", i, func(dr *vDriver) bool { return dr.opLoop(k) }))
		case c < 18 && !fair:
			do(nt.step("env", i, func(dr *vDriver) bool { return dr.opSetGS(gs1) }))
		case c < 19 && !fair:
			T += []int64{20, 40, 200, 310, 3700}[r.below(5)]
			do(nt.step("env", i, func(dr *vDriver) bool { return dr.opClock(T) }))
			do(nt.step("env", i, func(dr *vDriver) bool { return dr.opCleanup() }))
		default:
			v := &vaa.VAA{Version: vaa.SupportedVAAVersion, GuardianSetIndex: gs.Index, Timestamp: msgs[0].Timestamp, Nonce: uint32(r.next()), Sequence: r.next(),
				ConsistencyLevel: 32, EmitterChain: w.govCh, EmitterAddress: w.govAddr, TargetChain: vaa.ChainID(r.below(3)), Payload: r.bytes(33 + r.below(20))}
			if !fair {
				do(nt.step("env", i, func(dr *vDriver) bool { return dr.opInject(v) }))
			}
		}
	}
	if fair && alive {
		// closure: every node observes every message; every observation that is on the wire reaches every node (random order, the
		// VAAs published meanwhile travel too); every pending own signature loops back.  No set change, no cleanup tick in this round.
		for m := 0; m < nmsg && alive; m++ {
			for i := 0; i < n && alive; i++ {
				observe(i, m)
			}
		}
		for i := 0; i < n && alive; i++ {
			order := []int{}
			for x := range nt.pool {
				order = append(order, x)
			}
			for x := len(order) - 1; x > 0; x-- {
				y := r.below(x + 1)
				order[x], order[y] = order[y], order[x]
			}
			for _, x := range order {
				if !alive {
					break
				}
				// an observation travels to a node at least once in the round (not again if it got there already); VAAs travel at random
				if (nt.pool[x].obs != nil && !nt.got[i][nt.pool[x].key()]) || (nt.pool[x].obs == nil && r.chance(1, 2)) {
					do(nt.deliver("dlv", i, nt.pool[x], "closure"))
				}
			}
			for len(nt.nodes[i].pending) > 0 && alive {
				do(nt.step("loop", i, func(dr *vDriver) bool { return dr.opLoop(0) }))
			}
		}
		// C02 (network liveness): every observer that is a member published every message a quorum of honest members observed
		q := 2*len(gs.Keys)/3 + 1
		for m := 0; m < nmsg && alive; m++ {
			if len(observed[m]) < q {
				continue
			}
			dg := hex.EncodeToString(digs[m])
			for i := range observed[m] {
				if _, pub := nt.pubs[i][dg]; !pub {
					nt.row.Mon = append(nt.row.Mon, fmt.Sprintf("C02: fair delivery of the observations of a quorum of honest guardians (%d of %d) did not make an observer publish", len(observed[m]), len(gs.Keys)))
				}
			}
		}
	}
	return nt.finish()
}

func TestVerifNet(t *testing.T) {
	o := verifOut(t)
	defer o.close()
	r := &vrng{s: verifSeed() ^ 0x6e6574}
	w := &vWorld{r: r, govCh: vaa.ChainIDSolana}
	w.govAddr[31] = 4
	for i := 0; i < 40; i++ {
		w.keys = append(w.keys, vkey(r))
	}
	w.own = vkey(r)
	n := 10
	if verifThorough() {
		n = 160
	}
	vWithSupervisor(t, func(ctx context.Context) {
		for id := 0; id < n; id++ {
			o.emit(vNetRound(t, ctx, w, id))
		}
	})
}
