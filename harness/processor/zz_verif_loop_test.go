//go:build verif

package processor

// Extension X7, stage 1 of the re-observation-loop harness: the REAL handleCleanup on the virtual clock, for messages
// that stay pending, over 60 minutes (ticks 30 s apart, several phases, a late tick, a quorum that arrives on the way, a
// nearly spent retry budget).  Every request the tick puts on obsvReqSendC is recorded with its virtual time: the stream
// is written to $VERIF_LOOP_STREAM (read by stage 2, harness/guardiand_loop) and into the trace, together with the
// processor history and its crypto tables, so that the composed model (coq/model/ReobsLoop.v) can be re-run on it.

import (
	"context"
	"encoding/hex"
	"encoding/json"
	"fmt"
	"os"
	"strings"
	"testing"
	"time"

	"github.com/alephium/wormhole-fork/node/pkg/common"
	gossipv1 "github.com/alephium/wormhole-fork/node/pkg/proto/gossip/v1"
	"github.com/alephium/wormhole-fork/node/pkg/vaa"
	ethcommon "github.com/ethereum/go-ethereum/common"
	"github.com/ethereum/go-ethereum/crypto"
)

type vLoopReq struct {
	T     int64  `json:"t"` // virtual seconds
	Chain uint32 `json:"chain"`
	Tx    string `json:"tx"`
	Op    int    `json:"op"` // index of the cleanup op that posted it
}

type vLoopRow struct {
	*vHistory
	Scenario string     `json:"scenario"`
	Stream   []vLoopReq `json:"stream"`
	Digests  []string   `json:"digests"`  // the pending messages, in the order they were observed
	Retries  [][]int64  `json:"retries"`  // per digest: virtual times at which its retry counter grew
	Dropped  []int64    `json:"dropped"`  // per digest: virtual time at which its entry disappeared (-1: never)
	Budget   int        `json:"budget"`   // retry counter preset by the scenario (0: none)
	LMon     []string   `json:"lmon"`     // monitors of the loop properties (b) and (e), evaluated here
	Horizon  int64      `json:"horizon"`
}

type vLoopScenario struct {
	name    string
	chain   vaa.ChainID
	nmsg    int     // messages in the same transaction
	phase   int64   // first tick
	late    int64   // one tick is this many seconds late (0: none), at minute 20
	quorum  int64   // the other guardians' observations of message 0 arrive at this time (0: never)
	preset  uint    // retry counter of message 0 preset to this value right after it was signed
	horizon int64
}

func vLoopRun(t *testing.T, root context.Context, seed uint64, id int, sc vLoopScenario) *vLoopRow {
	r := &vrng{s: seed ^ 0x7100b ^ uint64(id)*0x9E3779B97F4A7C15}
	own := vkey(r)
	k1, k2 := vkey(r), vkey(r)
	var govAddr vaa.Address
	govAddr[31] = 4
	dr := vNewDriver(t, root, own, vaa.ChainIDSolana, govAddr, 900000+id)
	defer dr.close()
	row := &vLoopRow{vHistory: dr.h, Scenario: sc.name, Stream: []vLoopReq{}, LMon: []string{}, Horizon: sc.horizon, Budget: int(sc.preset)}
	row.K = "loop"
	row.Shape = "loop " + sc.name
	gs := &common.GuardianSet{Index: 3, Keys: []ethcommon.Address{crypto.PubkeyToAddress(k1.PublicKey), crypto.PubkeyToAddress(own.PublicKey), crypto.PubkeyToAddress(k2.PublicKey)}}
	dr.opClock(0)
	if !dr.opSetGS(gs) {
		return row
	}
	tx := r.bytes(32)
	var emitter vaa.Address
	copy(emitter[:], r.bytes(32))
	var msgs []*common.MessagePublication
	for i := 0; i < sc.nmsg; i++ {
		k := &common.MessagePublication{Timestamp: time.Unix(1700000000+int64(i), 0), Nonce: uint32(r.next()), Sequence: uint64(100 + i), ConsistencyLevel: 1,
			EmitterChain: sc.chain, TargetChain: vaa.ChainIDEthereum, EmitterAddress: emitter, Payload: r.bytes(20 + r.below(40))}
		copy(k.TxHash[:], tx)
		msgs = append(msgs, k)
		if !dr.opMsg(k) || !dr.opLoop(0) {
			return row
		}
		d := vkeccak(vkeccak(dr.vaaOfMsg(k, 0).SerializeBody()))
		row.Digests = append(row.Digests, hex.EncodeToString(d))
		row.Retries = append(row.Retries, []int64{})
		row.Dropped = append(row.Dropped, -1)
	}
	if sc.preset > 0 {
		// not an op of the model: the harness writes the counter of the real entry (a node that has been retrying for 50 days)
		if s, ok := dr.p.state.vaaSignatures[row.Digests[0]]; ok {
			s.retryCount = sc.preset
		}
	}
	counts := make([]uint, len(row.Digests))
	for i, dg := range row.Digests {
		if s, ok := dr.p.state.vaaSignatures[dg]; ok {
			counts[i] = s.retryCount
		}
	}
	lateDone := false
	quorumDone := false
	for T := sc.phase; T <= sc.horizon; T += 30 {
		at := T
		if sc.late > 0 && !lateDone && T >= 1200 {
			at = T + sc.late
			lateDone = true
		}
		if sc.quorum > 0 && !quorumDone && at >= sc.quorum {
			quorumDone = true
			dr.opClock(sc.quorum)
			d, _ := hex.DecodeString(row.Digests[0])
			s1, _ := crypto.Sign(d, k1)
			s2, _ := crypto.Sign(d, k2)
			dr.opObs(&gossipv1.SignedObservation{Addr: crypto.PubkeyToAddress(k1.PublicKey).Bytes(), Hash: d, Signature: s1, TxHash: tx}, "peer")
			dr.opObs(&gossipv1.SignedObservation{Addr: crypto.PubkeyToAddress(k2.PublicKey).Bytes(), Hash: d, Signature: s2, TxHash: tx}, "peer")
		}
		dr.opClock(at)
		if !dr.opCleanup() {
			break
		}
		opi := len(dr.h.Ops) - 1
		st := dr.h.Steps[opi]
		for _, o := range st.Outs {
			if strings.HasPrefix(o, "obsreq ") {
				var c uint32
				var txh string
				fmt.Sscanf(o, "obsreq %d %s", &c, &txh)
				row.Stream = append(row.Stream, vLoopReq{T: at, Chain: c, Tx: txh, Op: opi})
			}
		}
		for i, dg := range row.Digests {
			s, ok := dr.p.state.vaaSignatures[dg]
			if !ok {
				if row.Dropped[i] < 0 {
					row.Dropped[i] = at
				}
				continue
			}
			if s.retryCount > counts[i] {
				if s.retryCount != counts[i]+1 {
					row.LMon = append(row.LMon, fmt.Sprintf("loop(e): the retry counter of a pending message grew by %d in one tick", s.retryCount-counts[i]))
				}
				if n := len(row.Retries[i]); n > 0 && at-row.Retries[i][n-1] < 300 {
					row.LMon = append(row.LMon, fmt.Sprintf("loop(b): a pending message was retried at %d s and again at %d s (less than the 5-minute retry period apart)", row.Retries[i][n-1], at))
				}
				row.Retries[i] = append(row.Retries[i], at)
				counts[i] = s.retryCount
				if s.retryCount > 14400 {
					row.LMon = append(row.LMon, fmt.Sprintf("loop(e): retry counter %d exceeds the budget of 14400", s.retryCount))
				}
			}
		}
	}
	// (b): one request per retry of one message: the requests posted by a tick are exactly one per message retried at that tick
	perOp := map[int]int{}
	for _, q := range row.Stream {
		perOp[q.Op]++
		if q.Chain != uint32(sc.chain) || q.Tx != hex.EncodeToString(tx) {
			row.LMon = append(row.LMon, fmt.Sprintf("loop(b): the cleanup tick posted a request for %d/%s, not for the pending message's transaction", q.Chain, q.Tx))
		}
	}
	retriedAt := map[int64]int{}
	for _, l := range row.Retries {
		for _, at := range l {
			retriedAt[at]++
		}
	}
	for _, q := range row.Stream {
		if perOp[q.Op] != retriedAt[q.T] {
			row.LMon = append(row.LMon, fmt.Sprintf("loop(b): the tick at %d s posted %d re-observation requests for %d retried message(s) (one request per retry expected)", q.T, perOp[q.Op], retriedAt[q.T]))
			break
		}
	}
	// (e): with the counter preset to budget-2, two more retries and the entry is dropped at the tick after
	if sc.preset > 0 {
		if len(row.Retries[0]) != int(14400-sc.preset) {
			row.LMon = append(row.LMon, fmt.Sprintf("loop(e): a message retried %d times already was retried %d more times (budget 14400)", sc.preset, len(row.Retries[0])))
		}
		if row.Dropped[0] < 0 {
			row.LMon = append(row.LMon, "loop(e): the entry of a message whose retry budget is spent was not dropped")
		}
	}
	dr.finish()
	return row
}

func TestVerifLoopStream(t *testing.T) {
	o := verifOut(t)
	defer o.close()
	scs := []vLoopScenario{
		{name: "steady-eth", chain: vaa.ChainIDEthereum, nmsg: 1, phase: 30, horizon: 3600},
		{name: "steady-alph-phase7", chain: vaa.ChainIDAlephium, nmsg: 1, phase: 7, horizon: 3600},
		{name: "two-messages-one-tx", chain: vaa.ChainIDBSC, nmsg: 2, phase: 19, horizon: 3600},
		{name: "late-tick", chain: vaa.ChainIDEthereum, nmsg: 1, phase: 30, late: 17, horizon: 3600},
		{name: "quorum-at-27min", chain: vaa.ChainIDAlephium, nmsg: 1, phase: 11, quorum: 1625, horizon: 3600},
		{name: "budget-nearly-spent", chain: vaa.ChainIDEthereum, nmsg: 1, phase: 30, preset: 14398, horizon: 2400},
	}
	if verifThorough() {
		for ph := int64(1); ph < 30; ph += 4 {
			scs = append(scs, vLoopScenario{name: fmt.Sprintf("steady-phase%d", ph), chain: vaa.ChainIDEthereum, nmsg: 1 + int(ph%2), phase: ph, horizon: 7200})
		}
	}
	var rows []*vLoopRow
	vWithSupervisor(t, func(ctx context.Context) {
		for i, sc := range scs {
			rows = append(rows, vLoopRun(t, ctx, verifSeed(), i, sc))
		}
	})
	for _, r := range rows {
		o.emit(r)
	}
	if p := os.Getenv("VERIF_LOOP_STREAM"); p != "" {
		type sOut struct {
			Scenario string     `json:"scenario"`
			Stream   []vLoopReq `json:"stream"`
			Horizon  int64      `json:"horizon"`
		}
		var out []sOut
		for _, r := range rows {
			out = append(out, sOut{r.Scenario, r.Stream, r.Horizon})
		}
		b, _ := json.Marshal(out)
		if err := os.WriteFile(p, b, 0o644); err != nil {
			t.Fatal(err)
		}
	}
}
