//go:build verif

package processor

// C13, the cleanup tick with a notifier configured: for every settling message with a missing guardian the real handleCleanup reads
// that guardian's heartbeat table through GuardianSetState.LastHeartbeat and ranges over it, while the p2p goroutine stores
// heartbeats into GuardianSetState at any time.  A tick that iterates the table a heartbeat is being written to dies with
// "fatal error: concurrent map iteration and map write" — not a panic, nothing recovers it, the guardian process is gone.
//   1. deterministic: what LastHeartbeat hands out must not change when a later heartbeat is stored (it is a copy);
//   2. the schedule itself: real cleanup ticks over many settling messages (4 guardians, 3 signatures: quorum, one guardian missing, so
//      the notifier is consulted but no notification is sent) against a concurrent heartbeat writer.  The fatal error ends this test
//      binary; the check reads that from the output (own `go test` invocation).

import (
	"context"
	"fmt"
	"sync/atomic"
	"testing"
	"time"

	"github.com/alephium/wormhole-fork/node/pkg/notify/discord"
	gossipv1 "github.com/alephium/wormhole-fork/node/pkg/proto/gossip/v1"
	"github.com/alephium/wormhole-fork/node/pkg/vaa"
	"github.com/ethereum/go-ethereum/crypto"
	"github.com/libp2p/go-libp2p/core/peer"
)

func TestVerifC13HeartbeatRace(t *testing.T) {
	o := verifOut(t)
	defer o.close()
	r := &vrng{s: verifSeed() ^ 0xc13b}
	w := &vWorld{r: r, govCh: vaa.ChainIDSolana}
	w.govAddr[31] = 4
	for i := 0; i < 8; i++ {
		w.keys = append(w.keys, vkey(r))
	}
	w.own = vkey(r)
	mon := []string{}
	nmsg, rounds := 120, 60
	if verifThorough() {
		nmsg, rounds = 300, 400
	}
	vWithSupervisor(t, func(ctx context.Context) {
		dr := vNewDriver(t, ctx, w.own, w.govCh, w.govAddr, 0)
		defer dr.close()
		mem := []int{-1, 1, 2, 3}
		gs := w.set(mem, 0)
		dr.opClock(1000)
		if !dr.opSetGS(gs) {
			mon = append(mon, "setup: guardian set not accepted")
			return
		}
		missing := crypto.PubkeyToAddress(w.keys[3].PublicKey)
		peers := []peer.ID{}
		for i := 0; i < 8; i++ {
			peers = append(peers, peer.ID(fmt.Sprintf("verif-peer-%d", i)))
		}
		hb := func(i int) *gossipv1.Heartbeat {
			return &gossipv1.Heartbeat{NodeName: fmt.Sprintf("node-%d", i), Timestamp: time.Now().UnixNano(), GuardianAddr: missing.Hex()}
		}
		gst := dr.p.gst
		for i := 0; i < 4; i++ {
			if err := gst.SetHeartbeat(missing, peers[i], hb(i)); err != nil {
				mon = append(mon, "setup: SetHeartbeat: "+err.Error())
				return
			}
		}
		// 1. snapshot semantics
		h0 := gst.LastHeartbeat(missing)
		n0 := len(h0)
		_ = gst.SetHeartbeat(missing, peers[5], hb(5))
		if len(h0) != n0 {
			mon = append(mon, fmt.Sprintf("the heartbeat table GuardianSetState.LastHeartbeat handed to the cleanup tick changed (%d -> %d entries) when a later heartbeat was stored: it is the live map the p2p goroutine writes; a tick iterating it during a write terminates the process (fatal error: concurrent map iteration and map write)", n0, len(h0)))
			return
		}
		// 2. the schedule
		dr.p.notifier = &discord.DiscordNotifier{}
		// (every direct handler call under a watchdog: a handler that never returns is reported by the history harness; here it only
		// must not hang this test)
		call := func(f func()) bool {
			fin := make(chan struct{})
			go func() { defer close(fin); f() }()
			select {
			case <-fin:
				return true
			case <-time.After(10 * time.Second):
				return false
			}
		}
		for i := 0; i < nmsg; i++ {
			k := w.msg(0)
			k.Sequence = uint64(1000 + i)
			d := digestOfMsg(k, 0)
			if !call(func() {
				dr.p.handleMessage(ctx, k)
				dr.p.handleObservation(ctx, w.obsBy(-1, d, k.TxHash[:]))
				dr.p.handleObservation(ctx, w.obsBy(1, d, k.TxHash[:]))
				dr.p.handleObservation(ctx, w.obsBy(2, d, k.TxHash[:]))
			}) {
				mon = append(mon, "setup: a processor handler did not return within 10 s (message / observation handlers called one after the other on one goroutine)")
				return
			}
			for len(dr.sendC) > 0 {
				<-dr.sendC
			}
		}
		var stop int32
		done := make(chan struct{})
		go func() {
			defer close(done)
			for i := 0; atomic.LoadInt32(&stop) == 0; i++ {
				_ = gst.SetHeartbeat(missing, peers[i%len(peers)], hb(i))
			}
		}()
		settled := 0
		for rd := 0; rd < rounds; rd++ {
			past := time.Now().Add(-40 * time.Second)
			for _, s := range dr.p.state.vaaSignatures {
				s.firstObserved = past
				s.settled = false
			}
			dr.p.handleCleanup(ctx)
			for _, s := range dr.p.state.vaaSignatures {
				if s.settled {
					settled++
				}
			}
			for len(dr.reqC) > 0 {
				<-dr.reqC
			}
		}
		atomic.StoreInt32(&stop, 1)
		<-done
		o.emit(map[string]interface{}{"k": "c13hb-volume", "messages": nmsg, "rounds": rounds, "settlements_with_a_missing_guardian": settled})
	})
	o.emit(map[string]interface{}{"k": "c13hb", "mon": mon})
}
